(** C12 — end to end: for the terminal of a well-formed PROFILE (model/QuerySpec.v) whose
    replies arrive as units, in order and in time, the two-phase getters of model/Query.v
    return exactly what the specification side says for that profile, and leave nothing
    unread.  Composition of the read-loop lemmas (QueryGetProofs), the parser lemmas
    (QueryParseProofs) and a "no CSI inside a printed reply" argument. *)
From Coq Require Import Ascii String List ZArith Bool Arith Lia.
Import ListNotations.
From TI Require Import model.Query model.QuerySpec proofs.QueryReadProofs proofs.QueryParseProofs
  proofs.QueryGetProofs.
Open Scope Z_scope.

(** ** byte strings through which no CSI (ESC [) can be seen *)

(** [x] neither contains CSI nor can complete or start one with its neighbours *)
Definition transparent (x : list byte) : Prop :=
  forall rest, contains CSI (x ++ rest) = contains CSI rest.

Definition head_is (v : byte) (s : list byte) : bool :=
  match s with y :: _ => y =? v | [] => false end.

Lemma contains_cons x s :
  contains CSI (x :: s) = ((x =? 27) && head_is 91 s) || contains CSI s.
Proof.
  cbn [contains]. unfold starts_with, CSI. cbn [strip]. f_equal.
  rewrite (Z.eqb_sym 27 x). destruct (x =? 27); [|reflexivity]. cbn [andb].
  destruct s as [|y s]; [reflexivity|]. cbn [head_is]. rewrite (Z.eqb_sym 91 y).
  destruct (y =? 91); reflexivity.
Qed.

Lemma transparent_nil : transparent [].
Proof. intros rest. reflexivity. Qed.

Lemma transparent_app a b : transparent a -> transparent b -> transparent (a ++ b).
Proof. intros Ha Hb rest. rewrite <- app_assoc, Ha, Hb. reflexivity. Qed.

Definition not_esc (b : byte) : bool := negb (b =? 27).

Lemma transparent_noesc a : forallb not_esc a = true -> transparent a.
Proof.
  induction a as [|x a IH]; intros H rest; [reflexivity|].
  cbn in H. apply andb_true_iff in H as [Hx Ha]. cbn [app].
  rewrite contains_cons. unfold not_esc in Hx. apply negb_true_iff in Hx. rewrite Hx.
  cbn [andb orb]. now apply IH.
Qed.

(** ESC followed by a byte that is neither "[" nor ESC *)
Lemma transparent_esc y : y <> 91 -> y <> 27 -> transparent [27; y].
Proof.
  intros H1 H2 rest. cbn [app]. rewrite !contains_cons. cbn [head_is].
  apply Z.eqb_neq in H1, H2. rewrite H1, H2. rewrite andb_false_r. reflexivity.
Qed.

Lemma transparent_concat us : Forall transparent us -> transparent (concat us).
Proof.
  induction 1 as [|u us Hu _ IH]; cbn [concat]; [apply transparent_nil|].
  now apply transparent_app.
Qed.

Lemma transparent_nocsi x : transparent x -> contains CSI x = false.
Proof. intros H. rewrite <- (app_nil_r x), H. reflexivity. Qed.

Lemma contains_mid a : forall r, contains CSI (a ++ CSI ++ r) = true.
Proof.
  induction a as [|x a IH]; intros r.
  - reflexivity.
  - cbn [app]. rewrite contains_cons, IH. apply orb_true_r.
Qed.

Lemma nocsi_prefix s : contains CSI s = false -> forall q, prefix q s -> more_not_csi q = true.
Proof.
  intros Hs q [r ->]. unfold more_not_csi. destruct (ends_with CSI q) eqn:E; [|reflexivity].
  apply ends_with_iff in E as [p' ->]. rewrite <- app_assoc, contains_mid in Hs. discriminate.
Qed.

Lemma strict_prefix_snoc {A} (q x : list A) (a b : A) :
  strict_prefix q (x ++ [a; b]) -> prefix q (x ++ [a]).
Proof.
  intros [r [Hr E]]. destruct (exists_last Hr) as (r' & z & ->).
  exists r'. replace (x ++ [a; b]) with ((x ++ [a]) ++ [b]) in E by now rewrite <- app_assoc.
  rewrite app_assoc in E. apply app_inj_tail in E as [E _]. exact E.
Qed.

(** ** printed well-formed replies are transparent *)

Lemma digit_not_esc b : is_digit b = true -> not_esc b = true.
Proof.
  unfold not_esc. destruct (Z.eqb_spec b 27) as [->|]; [vm_compute; discriminate|reflexivity].
Qed.
Lemma hex_not_esc b : is_hex b = true -> not_esc b = true.
Proof.
  unfold not_esc. destruct (Z.eqb_spec b 27) as [->|]; [vm_compute; discriminate|reflexivity].
Qed.
Lemma word_not_esc b : is_word b = true -> not_esc b = true.
Proof.
  unfold not_esc. destruct (Z.eqb_spec b 27) as [->|]; [vm_compute; discriminate|reflexivity].
Qed.
Lemma ver_not_esc b : ver_char b = true -> not_esc b = true.
Proof. unfold ver_char, not_esc. intros H. now apply andb_true_iff in H as [_ H]. Qed.

Lemma transparent_terminator bel : transparent (terminator bel).
Proof.
  destruct bel; cbn.
  - now apply transparent_noesc.
  - apply transparent_esc; discriminate.
Qed.

Lemma transparent_print_rgb n r : wf_digits n = true -> wf_rgb r = true -> transparent (print_rgb n r).
Proof.
  intros Hn Hr. apply wf_digits_facts in Hn as [_ Hn].
  apply wf_rgb_facts in Hr as ((_ & Hr) & (_ & Hg) & (_ & Hb)).
  unfold print_rgb. repeat apply transparent_app.
  - apply transparent_esc; discriminate.
  - apply transparent_noesc. eapply forallb_impl; [|exact Hn]. apply digit_not_esc.
  - now apply transparent_noesc.
  - apply transparent_noesc. eapply forallb_impl; [|exact Hr]. apply hex_not_esc.
  - now apply transparent_noesc.
  - apply transparent_noesc. eapply forallb_impl; [|exact Hg]. apply hex_not_esc.
  - now apply transparent_noesc.
  - apply transparent_noesc. eapply forallb_impl; [|exact Hb]. apply hex_not_esc.
  - apply transparent_terminator.
Qed.

Lemma transparent_print_xtv x : wf_xtv x = true -> transparent (print_xtv x).
Proof.
  unfold wf_xtv. intros H. apply andb_true_iff in H as [H Hv]. apply andb_true_iff in H as [H _].
  apply andb_true_iff in H as [_ Hn].
  unfold print_xtv. repeat apply transparent_app.
  - apply transparent_esc; discriminate.
  - now apply transparent_noesc.
  - apply transparent_noesc. eapply forallb_impl; [|exact Hn]. apply word_not_esc.
  - destruct (x_open x); now apply transparent_noesc.
  - apply transparent_noesc. eapply forallb_impl; [|exact Hv]. apply ver_not_esc.
  - destruct (x_close x); now apply transparent_noesc.
  - apply transparent_terminator.
Qed.

(** ** the schedule of a profile's terminal *)

Lemma zip_units_snd us : forall ds, map snd (zip_units ds us) = us.
Proof. induction us as [|u us IH]; intros ds; cbn; [reflexivity|]. now rewrite IH. Qed.

Lemma split_last_unit (s : list (Z * list byte)) us0 l :
  map snd s = us0 ++ [l] -> exists pre t, s = pre ++ [(t, l)] /\ map snd pre = us0.
Proof.
  induction s as [|a s' _] using rev_ind; intros H.
  - cbn in H. now apply app_cons_not_nil in H.
  - rewrite map_app in H. cbn in H. apply app_inj_tail in H as [H1 H2].
    exists s', (fst a). split; [|exact H1]. destruct a; cbn in *; now subst.
Qed.

Section TwoPhase.
Variable cost : nat -> Z.
Variable c : Z.
Hypothesis cost_bounded : forall i, 0 <= cost i <= c.
Variable cfg : config.
Hypothesis Hen : enabled cfg = true.
Hypothesis Hto : 0 < qtimeout cfg.
Variable term : terminal.

(** no reply at all to this request *)
Lemma two_phase_no_reply request st : term request = [] -> pend st = [] ->
  exists st', two_phase cost cfg term request st = (Some [], st') /\ pend st' = [] /\
              written st' = written st ++ [request] /\
              now st + qtimeout cfg <= now st' <= now st + qtimeout cfg + 3 * c.
Proof.
  intros Ht Hp. unfold two_phase.
  destruct (query_silent cost c cost_bounded cfg term Hen more_not_csi request st)
    as (st1 & E & Hp1 & Hw1 & Hn1); auto; [rewrite Hp; constructor|].
  rewrite E, Hen. unfold drain_tty, drain. rewrite Hp1, Hp.
  cbn [length drain_loop arrived take_while snd].
  eexists; split; [reflexivity|]. cbn [pend written now]. pose proof (cost_bounded (tick st1)).
  split; [reflexivity|]. split; [exact Hw1|]. lia.
Qed.

(** The replies to [request] are the transparent units [us0], followed (or not) by the reply
    to DA1: the response is everything up to and including the CSI of the DA1 reply (all of
    it when DA1 is not answered), and nothing is left unread. *)
Lemma two_phase_units request us0 (tail : option (list byte)) st D :
  map snd (term request) = us0 ++ match tail with Some ps => [print_da1 ps] | None => [] end ->
  Forall transparent us0 ->
  pend st = [] -> timely c cfg term request D ->
  exists st',
    two_phase cost cfg term request st
    = (Some (concat us0 ++ match tail with Some _ => CSI | None => [] end), st') /\
    pend st' = [] /\ written st' = written st ++ [request] /\
    now st <= now st' <= now st + qtimeout cfg + c * (Z.of_nat (length (stream (term request))) + 4).
Proof.
  intros Hmap Htr Hp Ht.
  pose proof (c_nonneg cost c cost_bounded) as Hc.
  destruct tail as [ps|].
  - destruct (split_last_unit _ _ _ Hmap) as (pre & t & E & Hpre).
    destruct (two_phase_drains cost c cost_bounded cfg term Hen request st D pre t (print_da1 ps) Hp Ht E)
      as (st' & E2 & R).
    { apply nocsi_prefix. unfold stream. rewrite Hpre. apply transparent_nocsi. now apply transparent_concat. }
    exists st'. split; [|exact R]. rewrite E2. do 2 f_equal.
    assert (Hs : stream (term request) = (concat us0 ++ CSI) ++ ([63] ++ ps ++ [99])).
    { unfold stream. rewrite Hmap, concat_app. cbn [concat]. rewrite app_nil_r. unfold print_da1.
      now rewrite <- !app_assoc. }
    rewrite Hs, first_done_stop; [reflexivity| |].
    + intros q Hq. apply strict_prefix_snoc in Hq. revert q Hq. apply nocsi_prefix.
      pose proof (transparent_concat us0 Htr [27]) as Hc0. rewrite Hc0. reflexivity.
    + unfold more_not_csi. apply negb_false_iff. apply ends_with_iff. now exists (concat us0).
  - rewrite app_nil_r in Hmap.
    induction us0 as [|u0 us0' _] using rev_ind.
    + apply map_eq_nil in Hmap.
      destruct (two_phase_no_reply request st Hmap Hp) as (st' & E & Hp' & Hw & Hn).
      exists st'. rewrite E. cbn [concat app]. repeat split; auto; try lia.
    + destruct (split_last_unit _ _ _ Hmap) as (pre & t & E & Hpre).
      apply Forall_app in Htr as [Htr0 Htr1].
      destruct (two_phase_drains cost c cost_bounded cfg term Hen request st D pre t u0 Hp Ht E)
        as (st' & E2 & R).
      { apply nocsi_prefix. unfold stream. rewrite Hpre. apply transparent_nocsi. now apply transparent_concat. }
      exists st'. split; [|exact R]. rewrite E2. do 2 f_equal. rewrite app_nil_r.
      assert (Hs : stream (term request) = concat (us0' ++ [u0])) by (unfold stream; now rewrite Hmap).
      rewrite Hs. apply first_done_all.
      intros q [r [_ Hq]]. apply (nocsi_prefix (concat (us0' ++ [u0]))).
      * apply transparent_nocsi, transparent_concat. apply Forall_app. now split.
      * now exists r.
Qed.

End TwoPhase.

(** ** the parsers on what the two-phase reader hands over *)

Lemma colors_uniform r : colors_of_response (Some r) = fold_colors (findall_rgb r 0) None None.
Proof. destruct r; reflexivity. Qed.

Lemma nv_uniform cfg r :
  name_version_of_response cfg (Some r)
  = let (name, version) := match parse_xtversion r with
                           | Some (n, v) => (Some n, Some v)
                           | None => (env_name cfg, env_version cfg)
                           end in (option_map lower name, version).
Proof. destruct r; reflexivity. Qed.

Definition da1_tail (p : profile) : option (list byte) := wf_of (p_da1 p).
Definition csi_tail (p : profile) : list byte := match da1_tail p with Some _ => CSI | None => [] end.

Lemma csi_tail_cases p : csi_tail p = [] \/ csi_tail p = CSI.
Proof. unfold csi_tail. destruct (da1_tail p); auto. Qed.

Lemma wf_profile_parts p : wf_profile p = true ->
  wf_reply wf_xtv (p_xtv p) = true /\ wf_reply wf_rgb (p_fg p) = true /\ wf_reply wf_rgb (p_bg p) = true /\
  wf_reply wf_winops (p_cell p) = true /\ wf_reply wf_winops (p_area p) = true /\
  wf_reply wf_kitty (p_kitty p) = true /\ wf_reply wf_da1 (p_da1 p) = true.
Proof. unfold wf_profile. rewrite !andb_true_iff. tauto. Qed.

Lemma answer_da1 p : wf_reply wf_da1 (p_da1 p) = true ->
  answer p QDa1 = match da1_tail p with Some ps => [print_da1 ps] | None => [] end.
Proof. unfold answer, da1_tail, opt_unit. destruct (p_da1 p) as [[ps|raw]|]; cbn; auto; discriminate. Qed.

(** colours: what is parsed from the replies of a well-formed profile *)
Lemma colors_of_profile p tl : wf_reply wf_rgb (p_fg p) = true -> wf_reply wf_rgb (p_bg p) = true ->
  tl = [] \/ tl = CSI ->
  colors_of_response (Some (concat (answer p QFg ++ answer p QBg) ++ tl))
  = Some (option_map exp_rgb (wf_of (p_fg p)), option_map exp_rgb (wf_of (p_bg p))).
Proof.
  intros Hf Hb Htl. rewrite colors_uniform.
  assert (Ht : findall_rgb tl 0 = []) by (destruct Htl as [-> | ->]; reflexivity).
  unfold answer, opt_unit.
  destruct (p_fg p) as [[fg|raw]|]; try discriminate;
    destruct (p_bg p) as [[bg|raw]|]; try discriminate; cbn [wf_reply wf_of option_map print app concat] in *.
  - rewrite app_nil_r, <- app_assoc.
    rewrite findall_print by auto. rewrite findall_print by auto. rewrite Ht.
    cbn [fold_colors]. replace (beq (bs "10") (bs "10")) with true by reflexivity.
    rewrite x_parse_color_wf by exact Hf.
    replace (beq (bs "11") (bs "10")) with false by reflexivity.
    replace (beq (bs "11") (bs "11")) with true by reflexivity.
    rewrite x_parse_color_wf by exact Hb. reflexivity.
  - rewrite app_nil_r. rewrite findall_print by auto. rewrite Ht.
    cbn [fold_colors]. replace (beq (bs "10") (bs "10")) with true by reflexivity.
    rewrite x_parse_color_wf by exact Hf. reflexivity.
  - rewrite app_nil_r. rewrite findall_print by auto. rewrite Ht.
    cbn [fold_colors]. replace (beq (bs "11") (bs "10")) with false by reflexivity.
    replace (beq (bs "11") (bs "11")) with true by reflexivity.
    rewrite x_parse_color_wf by exact Hb. reflexivity.
  - rewrite Ht. reflexivity.
Qed.

Lemma name_version_of_profile cfg p tl : enabled cfg = true -> wf_reply wf_xtv (p_xtv p) = true ->
  tl = [] \/ tl = CSI ->
  name_version_of_response cfg (Some (concat (answer p QXtv) ++ tl)) = exp_name_version cfg p.
Proof.
  intros Hen Hx Htl. rewrite nv_uniform. unfold exp_name_version. rewrite Hen.
  unfold answer, opt_unit.
  destruct (p_xtv p) as [[x|raw]|]; try discriminate; cbn [wf_reply wf_of print concat app] in *.
  - rewrite app_nil_r. rewrite parse_xtversion_print; auto.
    destruct Htl as [-> | ->]; [now left | right; now exists []].
  - destruct Htl as [-> | ->]; reflexivity.
Qed.

(** ** end to end *)

Section EndToEnd.
Variable cost : nat -> Z.
Variable c : Z.
Hypothesis cost_bounded : forall i, 0 <= cost i <= c.
Variable cfg : config.
Hypothesis Hen : enabled cfg = true.
Hypothesis Hto : 0 < qtimeout cfg.
Variable p : profile.
Hypothesis Hwf : wf_profile p = true.
Variable delays : list byte -> list Z.
Let term := profile_terminal p delays.

Definition FGBG_request : list byte := TEXT_FG_q ++ TEXT_BG_q ++ DA1_q.
Definition XTV_request : list byte := XTVERSION_q ++ DA1_q.

Lemma units_fgbg : units p FGBG_request = (answer p QFg ++ answer p QBg) ++ answer p QDa1.
Proof.
  unfold units. replace (tokenize FGBG_request 0) with [QFg; QBg; QDa1] by (vm_compute; reflexivity).
  cbn [flat_map]. now rewrite app_nil_r, app_assoc.
Qed.

Lemma units_xtv : units p XTV_request = answer p QXtv ++ answer p QDa1.
Proof.
  unfold units. replace (tokenize XTV_request 0) with [QXtv; QDa1] by (vm_compute; reflexivity).
  cbn [flat_map]. now rewrite app_nil_r.
Qed.

Lemma transparent_answers_rgb :
  Forall transparent (answer p QFg ++ answer p QBg).
Proof.
  destruct (wf_profile_parts p Hwf) as (_ & Hf & Hb & _).
  unfold answer, opt_unit. apply Forall_app. split.
  - destruct (p_fg p) as [[fg|raw]|]; try discriminate; constructor; [|constructor].
    now apply transparent_print_rgb.
  - destruct (p_bg p) as [[bg|raw]|]; try discriminate; constructor; [|constructor].
    now apply transparent_print_rgb.
Qed.

Lemma transparent_answers_xtv : Forall transparent (answer p QXtv).
Proof.
  destruct (wf_profile_parts p Hwf) as (Hx & _).
  unfold answer, opt_unit.
  destruct (p_xtv p) as [[x|raw]|]; try discriminate; constructor; [|constructor].
  now apply transparent_print_xtv.
Qed.

(** get_fg_bg_colors(): exactly the replied colours, each component scaled by its own width;
    nothing left unread; never later than one timeout *)
Lemma fg_bg_reports_profile st D :
  pend st = [] -> timely c cfg term FGBG_request D ->
  exists st',
    get_fg_bg cost cfg term st = (Some (exp_fg_bg cfg p), st') /\
    pend st' = [] /\ written st' = written st ++ [FGBG_request] /\
    now st <= now st' <= now st + qtimeout cfg + c * (Z.of_nat (length (stream (term FGBG_request))) + 4).
Proof.
  intros Hp Ht.
  destruct (wf_profile_parts p Hwf) as (_ & Hf & Hb & _ & _ & _ & Hd).
  destruct (two_phase_units cost c cost_bounded cfg Hen Hto term FGBG_request
              (answer p QFg ++ answer p QBg) (da1_tail p) st D) as (st' & E & R); auto.
  { unfold term, profile_terminal. rewrite zip_units_snd, units_fgbg, answer_da1; auto. }
  { apply transparent_answers_rgb. }
  exists st'. split; [|exact R]. unfold get_fg_bg. fold FGBG_request. rewrite E.
  f_equal. fold (csi_tail p). rewrite colors_of_profile; auto using csi_tail_cases.
  unfold exp_fg_bg. now rewrite Hen.
Qed.

(** get_terminal_name_version(): the replied name (lower-cased) and version, the
    environment's when XTVERSION is not answered; nothing left unread *)
Lemma name_version_reports_profile st D :
  pend st = [] -> timely c cfg term XTV_request D ->
  exists st',
    get_name_version cost cfg term st = (exp_name_version cfg p, st') /\
    pend st' = [] /\ written st' = written st ++ [XTV_request] /\
    now st <= now st' <= now st + qtimeout cfg + c * (Z.of_nat (length (stream (term XTV_request))) + 4).
Proof.
  intros Hp Ht.
  destruct (wf_profile_parts p Hwf) as (Hx & _ & _ & _ & _ & _ & Hd).
  destruct (two_phase_units cost c cost_bounded cfg Hen Hto term XTV_request
              (answer p QXtv) (da1_tail p) st D) as (st' & E & R); auto.
  { unfold term, profile_terminal. rewrite zip_units_snd, units_xtv, answer_da1; auto. }
  { apply transparent_answers_xtv. }
  exists st'. split; [|exact R]. unfold get_name_version. fold XTV_request. rewrite E.
  f_equal. fold (csi_tail p). apply name_version_of_profile; auto using csi_tail_cases.
Qed.

End EndToEnd.

(** ** the single-phase reader of get_cell_size: stops at the "c" that ends the DA1 reply *)

Definition not_c (b : byte) : bool := negb (b =? 99).

Lemma noc_prefix s : forallb not_c s = true -> forall q, prefix q s -> more_not_c q = true.
Proof.
  intros H q [r ->]. unfold more_not_c. destruct (ends_with [99] q) eqn:E; [|reflexivity].
  apply ends_with_iff in E as [p' ->]. rewrite <- app_assoc in H. rewrite forallb_app in H.
  apply andb_true_iff in H as [_ H]. cbn in H. discriminate.
Qed.

Lemma strict_prefix_snoc1 {A} (q y : list A) (a : A) : strict_prefix q (y ++ [a]) -> prefix q y.
Proof.
  intros [r [Hr E]]. destruct (exists_last Hr) as (r' & z & ->).
  exists r'. rewrite app_assoc in E. apply app_inj_tail in E as [E _]. exact E.
Qed.

Lemma digit_not_c b : is_digit b = true -> not_c b = true.
Proof. unfold not_c. destruct (Z.eqb_spec b 99) as [->|]; [vm_compute; discriminate|reflexivity]. Qed.

Lemma noc_print_winops n hw : n <> 99 -> wf_winops hw = true -> forallb not_c (print_winops n hw) = true.
Proof.
  intros Hn H. unfold wf_winops in H. apply andb_true_iff in H as [H1 H2].
  apply wf_digits_facts in H1 as [_ H1]. apply wf_digits_facts in H2 as [_ H2].
  unfold print_winops. rewrite !forallb_app. apply Z.eqb_neq in Hn.
  cbn. unfold not_c at 1. rewrite Hn. cbn.
  rewrite (forallb_impl _ _ _ digit_not_c H1), (forallb_impl _ _ _ digit_not_c H2). reflexivity.
Qed.

(** the DA1 reply is [da1_body ps ++ "c"] and its body has no "c" *)
Definition da1_body (ps : list byte) : list byte := CSI ++ [63] ++ ps.
Lemma print_da1_body ps : print_da1 ps = da1_body ps ++ [99].
Proof. unfold print_da1, da1_body. now rewrite <- !app_assoc. Qed.
Lemma noc_da1_body ps : wf_da1 ps = true -> forallb not_c (da1_body ps) = true.
Proof.
  intros H. unfold da1_body. rewrite !forallb_app. cbn. unfold wf_da1 in H.
  eapply forallb_impl; [|exact H]. intros b Hb. unfold not_c.
  destruct (Z.eqb_spec b 99) as [->|]; [vm_compute in Hb; discriminate|reflexivity].
Qed.

(** what cell_of_response makes of the replies *)
Definition CELL_request : list byte := CELL_SIZE_PX_q ++ TEXT_AREA_SIZE_PX_q ++ DA1_q.

Lemma ioctl_got_spec cfg :
  ioctl_got cfg = ioctl_ok cfg && negb (ws_xpix cfg =? 0) && negb (ws_ypix cfg =? 0).
Proof.
  unfold ioctl_got, ioctl_area, has_zero. destruct (ioctl_ok cfg); cbn [andb fst snd]; [|reflexivity].
  now rewrite negb_orb.
Qed.

Lemma cell_of_ioctl cfg p c0 resp :
  cache_hit cfg c0 = false -> ioctl_got cfg = true -> 0 < ws_cols cfg -> 0 < ws_rows cfg ->
  fst (cell_of_response cfg c0 resp) = exp_cell cfg p.
Proof.
  intros Hmiss Hgot Hc Hr. destruct c0 as [[[a0 a1] cw] ch]. unfold cell_of_response. rewrite Hmiss, Hgot.
  unfold exp_cell. rewrite <- ioctl_got_spec, Hgot.
  replace (ws_cols cfg =? 0) with false by (symmetry; apply Z.eqb_neq; lia).
  replace (ws_rows cfg =? 0) with false by (symmetry; apply Z.eqb_neq; lia).
  cbn [orb fst snd]. unfold ioctl_area.
  assert (ioctl_ok cfg = true) as -> by (unfold ioctl_got in Hgot; now apply andb_true_iff in Hgot as [? _]).
  destruct (swap cfg); reflexivity.
Qed.

Lemma parse_winops_other n m hw rest : n <> m ->
  parse_xtwinops n (print_winops m hw ++ rest) = None.
Proof.
  intros H. unfold parse_xtwinops, print_winops, CSI. cbn [app strip].
  cbn [Z.eqb Pos.eqb]. apply Z.eqb_neq in H. now rewrite H.
Qed.

Lemma parse_winops_da1 n ps rest : n <> 63 -> parse_xtwinops n (print_da1 ps ++ rest) = None.
Proof.
  intros H. unfold parse_xtwinops, print_da1, CSI. cbn [app strip].
  cbn [Z.eqb Pos.eqb]. apply Z.eqb_neq in H. now rewrite H.
Qed.

Lemma cell_of_replies cfg p c0 :
  enabled cfg = true ->
  wf_reply wf_winops (p_cell p) = true -> wf_reply wf_winops (p_area p) = true ->
  wf_reply wf_da1 (p_da1 p) = true ->
  cache_hit cfg c0 = false -> ioctl_got cfg = false -> 0 < ws_cols cfg -> 0 < ws_rows cfg ->
  fst (cell_of_response cfg c0 (Some (concat ((answer p QCell ++ answer p QArea) ++ answer p QDa1))))
  = exp_cell cfg p.
Proof.
  intros Hen Hcell Harea Hda1 Hmiss Hgot Hc Hr. destruct c0 as [[[a0 a1] cw] ch].
  unfold cell_of_response. rewrite Hmiss, Hgot.
  unfold exp_cell. rewrite <- ioctl_got_spec, Hgot, Hen. cbn [negb].
  replace (ws_cols cfg =? 0) with false by (symmetry; apply Z.eqb_neq; lia).
  replace (ws_rows cfg =? 0) with false by (symmetry; apply Z.eqb_neq; lia).
  cbn [orb]. unfold answer, opt_unit.
  destruct (p_cell p) as [[[h w]|raw]|]; try discriminate; cbn [wf_reply wf_of print app concat] in *.
  - (* the cell-size reply *)
    set (rest := concat _).
    destruct (print_winops 54 (h, w) ++ rest) as [|z l] eqn:E; [discriminate E|]. rewrite <- E.
    rewrite parse_xtwinops_print by exact Hcell. cbn [fst snd]. reflexivity.
  - destruct (p_area p) as [[[h w]|raw]|]; try discriminate; cbn [wf_reply wf_of print app concat] in *.
    + (* only the text-area reply *)
      set (rest := concat _).
      destruct (print_winops 52 (h, w) ++ rest) as [|z l] eqn:E; [discriminate E|]. rewrite <- E.
      rewrite parse_winops_other by discriminate.
      rewrite parse_xtwinops_print by exact Harea. cbn [fst snd].
      destruct (termux cfg), (swap cfg); reflexivity.
    + (* neither *)
      destruct (p_da1 p) as [[ps|raw]|]; try discriminate; cbn [print concat app]; [|reflexivity].
      destruct (print_da1 ps ++ []) as [|z l] eqn:E; [discriminate E|]. rewrite <- E.
      rewrite !parse_winops_da1 by discriminate. reflexivity.
Qed.

Section CellEnd.
Variable cost : nat -> Z.
Variable c : Z.
Hypothesis cost_bounded : forall i, 0 <= cost i <= c.
Variable cfg : config.
Hypothesis Hen : enabled cfg = true.
Hypothesis Hto : 0 < qtimeout cfg.
Variable p : profile.
Hypothesis Hwf : wf_profile p = true.
Variable delays : list byte -> list Z.
Let term := profile_terminal p delays.

Lemma units_cell : units p CELL_request = (answer p QCell ++ answer p QArea) ++ answer p QDa1.
Proof.
  unfold units. replace (tokenize CELL_request 0) with [QCell; QArea; QDa1] by (vm_compute; reflexivity).
  cbn [flat_map]. now rewrite app_nil_r, app_assoc.
Qed.

Lemma noc_winops_answers : forallb not_c (concat (answer p QCell ++ answer p QArea)) = true.
Proof.
  destruct (wf_profile_parts p Hwf) as (_ & _ & _ & Hc & Ha & _).
  rewrite concat_app, forallb_app. unfold answer, opt_unit. apply andb_true_iff. split.
  - destruct (p_cell p) as [[hw|raw]|]; try discriminate; cbn [print concat]; [|reflexivity].
    rewrite app_nil_r. apply noc_print_winops; [discriminate|exact Hc].
  - destruct (p_area p) as [[hw|raw]|]; try discriminate; cbn [print concat]; [|reflexivity].
    rewrite app_nil_r. apply noc_print_winops; [discriminate|exact Ha].
Qed.

Lemma cell_stream_readable :
  forall q, strict_prefix q (concat ((answer p QCell ++ answer p QArea) ++ answer p QDa1)) -> more_not_c q = true.
Proof.
  destruct (wf_profile_parts p Hwf) as (_ & _ & _ & _ & _ & _ & Hd).
  pose proof noc_winops_answers as HX. rewrite concat_app.
  unfold answer at 3. unfold opt_unit.
  destruct (p_da1 p) as [[ps|raw]|]; try discriminate; cbn [print concat wf_reply] in *.
  - rewrite app_nil_r, print_da1_body, app_assoc. intros q Hq. apply strict_prefix_snoc1 in Hq.
    revert q Hq. apply noc_prefix. rewrite forallb_app, HX. now apply noc_da1_body.
  - rewrite app_nil_r. intros q [r [_ Hq]]. apply (noc_prefix _ HX). now exists r.
Qed.

(** get_cell_size() on a cache miss in a window of at least 1x1 cells: the ioctl's pixel size
    when it has no zero (no query at all), else the replied cell size, else the replied
    text-area size divided by the window size in cells (swapped first under the workaround;
    height doubled on Termux); nothing left unread; never later than one timeout *)
Lemma cell_size_reports_profile c0 st D :
  cache_hit cfg c0 = false -> 0 < ws_cols cfg -> 0 < ws_rows cfg ->
  pend st = [] -> timely c cfg term CELL_request D ->
  exists c1 st',
    get_cell_size cost cfg term c0 st = (exp_cell cfg p, c1, st') /\ pend st' = [] /\
    now st <= now st' <= now st + qtimeout cfg + 2 * c.
Proof.
  intros Hmiss Hc Hr Hp Ht. pose proof (c_nonneg cost c cost_bounded) as Hc0.
  destruct (wf_profile_parts p Hwf) as (_ & _ & _ & Hcell & Harea & _ & Hd).
  unfold get_cell_size, cell_query_needed. rewrite Hmiss. cbn [negb andb].
  destruct (ioctl_got cfg) eqn:Hg; cbn [negb].
  - pose proof (cell_of_ioctl cfg p c0 None Hmiss Hg Hc Hr) as E.
    destruct (cell_of_response cfg c0 None) as [r c1]. cbn [fst] in E. subst r.
    exists c1, st. split; [reflexivity|]. split; [exact Hp|lia].
  - fold CELL_request.
    assert (Hs : stream (term CELL_request) = concat ((answer p QCell ++ answer p QArea) ++ answer p QDa1)).
    { unfold stream, term, profile_terminal. now rewrite zip_units_snd, units_cell. }
    destruct (query_reads_all cost c cost_bounded cfg term Hen more_not_c CELL_request st D Hp Ht)
      as (st' & E & Hp' & _ & Hn).
    { rewrite Hs. apply cell_stream_readable. }
    rewrite E, Hs.
    pose proof (cell_of_replies cfg p c0 Hen Hcell Harea Hd Hmiss Hg Hc Hr) as E2.
    destruct (cell_of_response cfg c0 _) as [r c1]. cbn [fst] in E2. subst r.
    exists c1, st'. split; [reflexivity|]. split; [exact Hp'|exact Hn].
Qed.

End CellEnd.

(** ** the kitty support query: stops at the "c" that ends the DA1 reply *)

Lemma contains_prefix_false q : forall r, contains CSI (q ++ r) = false -> contains CSI q = false.
Proof.
  induction q as [|x q IH]; intros r H; [reflexivity|].
  cbn [app] in H. rewrite contains_cons in *. apply orb_false_iff in H as [H1 H2].
  rewrite (IH r H2), orb_false_r. destruct (x =? 27); [|reflexivity]. cbn [andb] in *.
  destruct q; [reflexivity|exact H1].
Qed.

Lemma prefix_app_cases {A} (a b : list A) : forall q, prefix q (a ++ b) ->
  prefix q a \/ exists t, t <> [] /\ q = a ++ t /\ prefix t b.
Proof.
  induction a as [|x a IH]; intros q [r E].
  - destruct q as [|y q]; [left; now exists []|].
    right. exists (y :: q). split; [discriminate|]. split; [reflexivity|]. now exists r.
  - destruct q as [|y q]; [left; now exists (x :: a)|].
    cbn in E. inversion E; subst y. destruct (IH q) as [[r' Hr]|(t & Ht & -> & Hp)]; [now exists r| |].
    + left. exists r'. cbn. now rewrite Hr.
    + right. exists t. auto.
Qed.

Lemma transparent_print_kitty k : wf_kitty k = true -> transparent (print_kitty k).
Proof.
  unfold wf_kitty. intros H. apply andb_true_iff in H as [H Hm]. apply andb_true_iff in H as [H _].
  apply andb_true_iff in H as [Hid Hnum]. apply wf_digits_facts in Hid as [_ Hid].
  unfold print_kitty. repeat apply transparent_app.
  - apply transparent_esc; discriminate.
  - now apply transparent_noesc.
  - apply transparent_noesc. eapply forallb_impl; [|exact Hid]. apply digit_not_esc.
  - destruct (k_num k) as [n|]; [|apply transparent_nil].
    apply wf_digits_facts in Hnum as [_ Hnum]. apply transparent_app; [now apply transparent_noesc|].
    apply transparent_noesc. eapply forallb_impl; [|exact Hnum]. apply digit_not_esc.
  - now apply transparent_noesc.
  - apply transparent_noesc. eapply forallb_impl; [|exact Hm].
    intros b Hb. apply andb_true_iff in Hb as [Hb _]. exact Hb.
  - apply transparent_esc; discriminate.
Qed.

Definition KITTY_request : list byte := KITTY_SUPPORT_q ++ DA1_q.

Lemma kitty_version_rule_spec name ver :
  kitty_version_rule name ver
  = (name_is name "kitty" && version_ge ver [0; 20; 0]) || name_is name "konsole".
Proof.
  unfold kitty_version_rule, version_ge. destruct (name_is name "kitty") eqn:Ek.
  - apply name_is_eq in Ek. subst name. cbn [andb]. replace (name_is (Some (bs "kitty")) "konsole") with false by reflexivity.
    rewrite orb_false_r. destruct ver as [[|b v]|]; reflexivity.
  - reflexivity.
Qed.

Lemma kitty_supported_spec name ver resp g :
  kitty_reply_ok resp = g ->
  kitty_supported name ver resp
  = g && ((name_is name "kitty" && version_ge ver [0; 20; 0]) || name_is name "konsole").
Proof.
  intros <-. unfold kitty_supported. rewrite kitty_version_rule_spec.
  destruct (name_is name "iterm2") eqn:Ei; [|reflexivity].
  apply name_is_eq in Ei. subst name.
  replace (name_is (Some (bs "iterm2")) "kitty") with false by reflexivity.
  replace (name_is (Some (bs "iterm2")) "konsole") with false by reflexivity.
  now rewrite andb_false_r.
Qed.

Lemma kitty_reply_ok_profile cfg p : enabled cfg = true ->
  wf_reply wf_kitty (p_kitty p) = true -> wf_reply wf_da1 (p_da1 p) = true ->
  kitty_reply_ok (Some (concat (answer p QKitty ++ answer p QDa1))) = graphics_ok_of cfg p.
Proof.
  intros Hen Hk Hd. unfold graphics_ok_of. rewrite Hen. cbn [andb]. unfold answer, opt_unit.
  destruct (p_kitty p) as [[k|raw]|]; try discriminate; cbn [wf_reply wf_of print app concat] in *.
  - unfold kitty_reply_ok. set (rest := concat _).
    destruct (print_kitty k ++ rest) as [|z l] eqn:E; [discriminate E|]. rewrite <- E.
    now rewrite parse_kitty_print.
  - destruct (p_da1 p) as [[ps|raw]|]; try discriminate; reflexivity.
Qed.

Lemma iterm2_supported_spec name ver :
  iterm2_supported name ver
  = Some (name_is name "iterm2" || name_is name "wezterm" || (name_is name "konsole" && version_ge ver [22; 4; 0])).
Proof.
  unfold iterm2_supported, version_ge.
  destruct (name_is name "konsole") eqn:Ek.
  - apply name_is_eq in Ek. subst name.
    replace (name_is (Some (bs "konsole")) "iterm2") with false by reflexivity.
    replace (name_is (Some (bs "konsole")) "wezterm") with false by reflexivity.
    replace (name_is (Some (bs "konsole")) "konsole") with true by reflexivity.
    cbn [orb negb andb] in *. destruct ver as [v|]; [|reflexivity].
    destruct (version_tuple v); reflexivity.
  - rewrite orb_false_r. cbn [andb negb]. rewrite orb_false_r.
    destruct (name_is name "iterm2" || name_is name "wezterm"); reflexivity.
Qed.

(** an unknown version of konsole counts as unsupported (no exception) *)
Example iterm2_konsole_no_version : iterm2_supported (Some (bs "konsole")) None = Some false.
Proof. reflexivity. Qed.

Section StyleEnd.
Variable cost : nat -> Z.
Variable c : Z.
Hypothesis cost_bounded : forall i, 0 <= cost i <= c.
Variable cfg : config.
Hypothesis Hen : enabled cfg = true.
Hypothesis Hto : 0 < qtimeout cfg.
Variable p : profile.
Hypothesis Hwf : wf_profile p = true.
Variable delays : list byte -> list Z.
Let term := profile_terminal p delays.

Lemma units_kitty : units p KITTY_request = answer p QKitty ++ answer p QDa1.
Proof.
  unfold units. replace (tokenize KITTY_request 0) with [QKitty; QDa1] by (vm_compute; reflexivity).
  cbn [flat_map]. now rewrite app_nil_r.
Qed.

Lemma transparent_kitty_answer : transparent (concat (answer p QKitty)).
Proof.
  destruct (wf_profile_parts p Hwf) as (_ & _ & _ & _ & _ & Hk & _).
  unfold answer, opt_unit. destruct (p_kitty p) as [[k|raw]|]; try discriminate; cbn [print concat].
  - rewrite app_nil_r. now apply transparent_print_kitty.
  - apply transparent_nil.
Qed.

Lemma kitty_stream_readable :
  forall q, strict_prefix q (concat (answer p QKitty ++ answer p QDa1)) -> more_kitty q = true.
Proof.
  destruct (wf_profile_parts p Hwf) as (_ & _ & _ & _ & _ & _ & Hd).
  pose proof transparent_kitty_answer as HK. rewrite concat_app.
  assert (Hno : forall q, prefix q (concat (answer p QKitty)) -> more_kitty q = true).
  { intros q [r Hq]. unfold more_kitty. rewrite (contains_prefix_false q r); [now rewrite andb_false_r|].
    rewrite <- Hq. now apply transparent_nocsi. }
  unfold answer at 2. unfold opt_unit.
  destruct (p_da1 p) as [[ps|raw]|]; try discriminate; cbn [print concat wf_reply] in *.
  - rewrite app_nil_r, print_da1_body, app_assoc. intros q Hq. apply strict_prefix_snoc1 in Hq.
    apply prefix_app_cases in Hq as [Hq|(t & Ht & -> & [r Hr])]; [now apply Hno|].
    unfold more_kitty. replace (ends_with [99] (concat (answer p QKitty) ++ t)) with false; [reflexivity|].
    symmetry. apply not_true_is_false. intros E. apply ends_with_iff in E as [p' E].
    destruct (exists_last Ht) as (t' & z & ->). rewrite app_assoc in E. apply app_inj_tail in E as [_ ->].
    pose proof (noc_da1_body ps Hd) as Hc. rewrite Hr, <- app_assoc, !forallb_app in Hc.
    apply andb_true_iff in Hc as [_ Hc]. apply andb_true_iff in Hc as [Hc _]. cbn in Hc. discriminate.
  - rewrite app_nil_r. intros q [r [_ Hq]]. apply Hno. now exists r.
Qed.

(** KittyImage.is_supported() from a fresh state: the documented rule evaluated on what the
    terminal said (XTVERSION reply or environment; graphics reply "OK" for id 31), whatever
    the error message of a refusing terminal contains; nothing left unread; at most one
    timeout per query *)
Lemma kitty_reports_profile st D1 D2 :
  pend st = [] -> timely c cfg term XTV_request D1 -> timely c cfg term KITTY_request D2 ->
  exists st',
    kitty_is_supported cost cfg term (st, None)
    = (exp_kitty cfg p, (st', Some (exp_name_version cfg p))) /\
    pend st' = [] /\
    now st <= now st' <= now st + 2 * qtimeout cfg
                        + c * (Z.of_nat (length (stream (term XTV_request))) + 6).
Proof.
  intros Hp H1 H2. pose proof (c_nonneg cost c cost_bounded) as Hc0.
  destruct (wf_profile_parts p Hwf) as (_ & _ & _ & _ & _ & Hk & Hd).
  destruct (name_version_reports_profile cost c cost_bounded cfg Hen Hto p Hwf delays st D1 Hp H1)
    as (st1 & E1 & Hp1 & _ & Hn1). fold term in E1, Hn1.
  unfold kitty_is_supported, cached_name_version. cbn [snd fst]. fold term. rewrite E1. cbn [fst snd].
  unfold exp_kitty. destruct (exp_name_version cfg p) as [name ver] eqn:Env. cbn [fst snd].
  destruct (name_is name "iterm2") eqn:Ei.
  - exists st1. split; [|split; [exact Hp1|lia]]. f_equal.
    apply name_is_eq in Ei. subst name.
    replace (name_is (Some (bs "iterm2")) "kitty") with false by reflexivity.
    replace (name_is (Some (bs "iterm2")) "konsole") with false by reflexivity.
    now rewrite andb_false_r.
  - fold KITTY_request.
    assert (Hs : stream (term KITTY_request) = concat (answer p QKitty ++ answer p QDa1)).
    { unfold stream, term, profile_terminal. now rewrite zip_units_snd, units_kitty. }
    destruct (query_reads_all cost c cost_bounded cfg term Hen more_kitty KITTY_request st1 D2 Hp1 H2)
      as (st2 & E2 & Hp2 & _ & Hn2).
    { rewrite Hs. apply kitty_stream_readable. }
    rewrite E2. exists st2. split; [|split; [exact Hp2|lia]]. f_equal.
    rewrite Hs. apply kitty_supported_spec. now apply kitty_reply_ok_profile.
Qed.

(** auto_image_class() from a fresh state: the most capable supported style — kitty, then
    iterm2, then block — by the documented rules. *)
Lemma auto_reports_profile st D1 D2 :
  pend st = [] -> timely c cfg term XTV_request D1 -> timely c cfg term KITTY_request D2 ->
  exists st',
    auto_image_class cost cfg term (st, None)
    = (Some (exp_auto cfg p), (st', Some (exp_name_version cfg p))) /\
    pend st' = [] /\
    now st <= now st' <= now st + 2 * qtimeout cfg
                        + c * (Z.of_nat (length (stream (term XTV_request))) + 6).
Proof.
  intros Hp H1 H2.
  destruct (kitty_reports_profile st D1 D2 Hp H1 H2) as (st' & E & R).
  unfold auto_image_class. fold term. rewrite E. exists st'. split; [|exact R].
  unfold exp_auto. destruct (exp_kitty cfg p); [reflexivity|].
  unfold iterm2_is_supported, cached_name_version. cbn [snd fst].
  unfold exp_iterm2. destruct (exp_name_version cfg p) as [name ver]. cbn [fst snd].
  rewrite iterm2_supported_spec.
  destruct (name_is name "iterm2" || name_is name "wezterm" || (name_is name "konsole" && version_ge ver [22; 4; 0]));
    reflexivity.
Qed.

End StyleEnd.

(** ** non-vacuity: a concrete terminal (kitty 0.26.5 answering every query, each reply a
    unit, the j-th one j ticks after the request) satisfies the hypotheses, and the six
    functions compute the specified answers on it *)
Definition ex_profile : profile :=
  {| p_xtv := Some (Wf {| x_name := bs "kitty"; x_open := true; x_ver := bs "0.26.5"; x_close := true; x_bel := false |});
     p_fg := Some (Wf {| c_r := bs "f"; c_g := bs "ff"; c_b := bs "fff"; c_bel := true |});
     p_bg := Some (Wf {| c_r := bs "0"; c_g := bs "80"; c_b := bs "ABCD"; c_bel := false |});
     p_cell := None;
     p_area := Some (Wf (bs "480", bs "800"));
     p_kitty := Some (Wf {| k_id := bs "31"; k_num := None; k_msg := bs "OK" |});
     p_da1 := Some (Wf (bs "62;")) |}.
Definition ex_cfg : config :=
  {| enabled := true; qtimeout := 1000; swap := false; termux := false; env_name := None; env_version := None;
     ws_cols := 80; ws_rows := 24; ws_xpix := 0; ws_ypix := 0; ioctl_ok := true |}.
Definition ex_delays : list byte -> list Z := fun _ => [0; 1; 2; 3].
Definition ex_tty : tty := {| now := 0; pend := []; tick := 0; written := [] |}.

Lemma ex_timely request :
  In request [FGBG_request; XTV_request; CELL_request; KITTY_request] ->
  timely 1 ex_cfg (profile_terminal ex_profile ex_delays) request 3.
Proof.
  intros H. cbn [In] in H.
  assert (T : forall s : list (Z * list byte),
            (fix ok (lo : Z) (s : list (Z * list byte)) : bool :=
               match s with [] => true | u :: r => (lo <=? fst u) && (fst u <=? 3) && ok (fst u) r end) 0 s = true ->
            3 + 1 * (Z.of_nat (length (stream s)) + 1) < 1000 ->
            nondecr 0 s /\ Forall (fun u => fst u <= 3) s /\ 0 <= 3 /\
            3 + 1 * (Z.of_nat (length (stream s)) + 1) < 1000).
  { intros s. generalize 0 at 1 2. induction s as [|u s IH]; intros lo Hok Hlen.
    - repeat split; auto; lia.
    - apply andb_true_iff in Hok as [Hok Hr]. apply andb_true_iff in Hok as [H1 H2].
      apply Z.leb_le in H1, H2.
      assert (Hlen' : 3 + 1 * (Z.of_nat (length (stream s)) + 1) < 1000).
      { unfold stream in *. cbn [map concat] in Hlen. rewrite app_length in Hlen. lia. }
      destruct (IH (fst u) Hr Hlen') as (A & B & _ & _).
      repeat split; auto; try lia. }
  unfold timely. destruct H as [<-|[<-|[<-|[<-|[]]]]]; apply T; vm_compute; reflexivity.
Qed.

Example ex_hypotheses :
  wf_profile ex_profile = true /\ cache_hit ex_cfg (0, 0, 0, 0) = false /\
  stream (profile_terminal ex_profile ex_delays FGBG_request) <> [].
Proof. repeat split; vm_compute; discriminate. Qed.

Example ex_answers :
  fst (get_fg_bg (fun _ => 1) ex_cfg (profile_terminal ex_profile ex_delays) ex_tty)
    = Some (Some (255, 255, 255), Some (0, 128, 171)) /\
  fst (get_name_version (fun _ => 1) ex_cfg (profile_terminal ex_profile ex_delays) ex_tty)
    = (Some (bs "kitty"), Some (bs "0.26.5")) /\
  fst (fst (get_cell_size (fun _ => 1) ex_cfg (profile_terminal ex_profile ex_delays) (0, 0, 0, 0) ex_tty))
    = CsSize 10 20 /\
  fst (auto_image_class (fun _ => 1) ex_cfg (profile_terminal ex_profile ex_delays) (ex_tty, None))
    = Some Kitty.
Proof. repeat split; vm_compute; reflexivity. Qed.

(** ** one cache epoch: several argument forms of the colour getter, repeated calls *)

Lemma hex2_two_hex v : 0 <= v <= 255 -> hex2 v = two_hex v.
Proof.
  intros H.
  assert (T : forallb (fun n => let v := Z.of_nat n in
                        (hex_digit_lc (v / 16) =? lc_hex_digit (v / 16)) &&
                        (hex_digit_lc (v mod 16) =? lc_hex_digit (v - 16 * (v / 16)))) (seq 0 256) = true)
    by (vm_compute; reflexivity).
  rewrite forallb_forall in T. specialize (T (Z.to_nat v)).
  assert (Hin : In (Z.to_nat v) (seq 0 256)) by (apply in_seq; lia).
  specialize (T Hin). cbn zeta in T. rewrite Z2Nat.id in T by lia.
  apply andb_true_iff in T as [T1 T2]. apply Z.eqb_eq in T1, T2.
  unfold hex2, two_hex. now rewrite T1, T2.
Qed.

Lemma exp_comp_range c : wf_comp c = true -> 0 <= exp_comp c <= 255.
Proof.
  intros H. apply wf_comp_facts in H as [Hn Hh].
  destruct (scale_component_range c Hn Hh) as (v & _ & <- & R). exact R.
Qed.

Lemma hex_rgb_hash r : wf_rgb r = true -> hex_rgb (exp_rgb r) = hash_rgb (exp_rgb r).
Proof.
  unfold wf_rgb. intros H. apply andb_true_iff in H as [H H3]. apply andb_true_iff in H as [H1 H2].
  unfold exp_rgb, hex_rgb, hash_rgb.
  rewrite !hex2_two_hex by now apply exp_comp_range. reflexivity.
Qed.

Lemma represent_exp cfg p h : enabled cfg = true -> wf_profile p = true ->
  represent h (exp_fg_bg cfg p) = exp_colours cfg p h.
Proof.
  intros Hen Hwf. destruct (wf_profile_parts p Hwf) as (_ & Hf & Hb & _).
  unfold exp_colours, exp_fg_bg, represent. rewrite Hen. destruct h; [|reflexivity]. cbn [fst snd].
  f_equal. f_equal.
  - destruct (p_fg p) as [[fg|raw]|]; try discriminate; cbn [wf_of option_map wf_reply] in *; [|reflexivity].
    f_equal. now apply hex_rgb_hash.
  - destruct (p_bg p) as [[bg|raw]|]; try discriminate; cbn [wf_of option_map wf_reply] in *; [|reflexivity].
    f_equal. now apply hex_rgb_hash.
Qed.

Section EpochEnd.
Variable cost : nat -> Z.
Variable c : Z.
Hypothesis cost_bounded : forall i, 0 <= cost i <= c.
Variable cfg : config.
Hypothesis Hen : enabled cfg = true.
Hypothesis Hto : 0 < qtimeout cfg.
Variable p : profile.
Hypothesis Hwf : wf_profile p = true.
Variable delays : list byte -> list Z.
Let term := profile_terminal p delays.
Variables D1 D2 : Z.
Hypothesis timely_fg : timely c cfg term FGBG_request D1.
Hypothesis timely_nv : timely c cfg term XTV_request D2.

(** every memo entry is the specified answer for ITS key (argument form), and nothing is
    pending on the terminal *)
Definition epoch_ok (w : epoch) : Prop :=
  let '(st, mfg, mnv) := w in
  pend st = [] /\
  (forall f v, lookup_form f mfg = Some v -> v = exp_colours cfg p (form_hex f)) /\
  (mnv = None \/ mnv = Some (exp_name_version cfg p)).

Lemma session_step_ok call w : epoch_ok w ->
  fst (session_step cost cfg term call w) = exp_call cfg p call /\
  epoch_ok (snd (session_step cost cfg term call w)).
Proof.
  destruct w as [[st mfg] mnv]. intros (Hp & Hm & Hn). destruct call as [f|]; cbn [session_step].
  - destruct (lookup_form f mfg) as [v|] eqn:El.
    + cbn [fst snd exp_call]. split; [|now repeat split].
      rewrite (Hm f v El). destruct f; reflexivity.
    + destruct (fg_bg_reports_profile cost c cost_bounded cfg Hen Hto p Hwf delays st D1 Hp timely_fg)
        as (st' & E & Hp' & _). fold term in E. rewrite E. cbn [fst snd exp_call].
      rewrite represent_exp by assumption. split; [destruct f; reflexivity|].
      repeat split; auto. intros g v. cbn [lookup_form].
      destruct (form_eqb g f) eqn:Eg.
      * intros [= <-]. destruct g, f; cbn in Eg; try discriminate; try reflexivity.
        apply Bool.eqb_prop in Eg. now subst.
      * apply Hm.
  - unfold cached_name_version. cbn [snd fst].
    destruct Hn as [-> | ->].
    + destruct (name_version_reports_profile cost c cost_bounded cfg Hen Hto p Hwf delays st D2 Hp timely_nv)
        as (st' & E & Hp' & _). fold term in E. rewrite E. cbn [fst snd exp_call].
      destruct (exp_name_version cfg p) as [n v] eqn:Env. cbn [fst snd]. split; [reflexivity|].
      repeat split; auto. right. now rewrite Env.
    + cbn [fst snd exp_call]. destruct (exp_name_version cfg p) as [n v] eqn:Env. cbn [fst snd].
      split; [reflexivity|]. repeat split; auto. right. now rewrite Env.
Qed.

(** One cache epoch, ANY sequence of calls — get_fg_bg_colors(), (hex=False), (hex=True),
    get_terminal_name_version(), in any order, any number of times: every call reports the
    profile's colours in the representation THAT call asked for (resp. the profile's
    identity), and nothing is left unread.  (The memo key has the keyword values.) *)
Lemma epoch_reports_profile calls : forall w, epoch_ok w ->
  fst (session cost cfg term calls w) = map (exp_call cfg p) calls /\
  epoch_ok (snd (session cost cfg term calls w)).
Proof.
  induction calls as [|call calls IH]; intros w Hw; cbn [session map].
  - now split.
  - destruct (session_step_ok call w Hw) as [E1 Hw1].
    destruct (session_step cost cfg term call w) as [r w1]. cbn [fst snd] in *.
    destruct (IH w1 Hw1) as [E2 Hw2].
    destruct (session cost cfg term calls w1) as [rs w2]. cbn [fst snd] in *.
    split; [now rewrite E1, E2|exact Hw2].
Qed.

Lemma epoch_from_fresh st calls : pend st = [] ->
  fst (session cost cfg term calls (st, [], None)) = map (exp_call cfg p) calls /\
  pend (fst (fst (snd (session cost cfg term calls (st, [], None))))) = [].
Proof.
  intros Hp. destruct (epoch_reports_profile calls (st, [], None)) as [E H].
  { repeat split; auto. intros f v. discriminate. }
  split; [exact E|]. destruct (snd (session cost cfg term calls (st, [], None))) as [[st' m1] m2].
  now destruct H.
Qed.

End EpochEnd.

(** the two representations really differ, and the three argument forms are three keys *)
Example ex_epoch :
  fst (session (fun _ => 1) ex_cfg (profile_terminal ex_profile ex_delays)
         [SFg (FHex false); SFg (FHex true); SFg FDefault; SFg (FHex true); SNv; SNv] (ex_tty, [], None))
  = [RFg (Some (VRgb (Some (255, 255, 255), Some (0, 128, 171))));
     RFg (Some (VHex (Some (bs "#ffffff"), Some (bs "#0080ab"))));
     RFg (Some (VRgb (Some (255, 255, 255), Some (0, 128, 171))));
     RFg (Some (VHex (Some (bs "#ffffff"), Some (bs "#0080ab"))));
     RNv (Some (bs "kitty")) (Some (bs "0.26.5")); RNv (Some (bs "kitty")) (Some (bs "0.26.5"))] /\
  length (written (fst (fst (snd (session (fun _ => 1) ex_cfg (profile_terminal ex_profile ex_delays)
         [SFg (FHex false); SFg (FHex true); SFg FDefault; SFg (FHex true); SNv; SNv] (ex_tty, [], None))))))
  = 4%nat.
Proof. split; vm_compute; reflexivity. Qed.
