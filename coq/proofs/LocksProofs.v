(** Proofs for C14: mutual exclusion of the bodies of [lock_tty]-synchronized functions
    across threads and processes, for any number of threads/processes and any schedule,
    by induction on reachability ([lib/Sched.v]) over the model [model/Locks.v]. *)
From Coq Require Import List Arith Bool Lia.
Import ListNotations.
From TI Require Import lib.Sched model.Locks.

(** ** 1. Lock accounting (I3: each lock has one owner, who holds it [count] times) *)

(** lock references a thread HOLDS by virtue of its program counter / its frames *)
Definition refs_pc (p : pc) : list lref :=
  match p with
  | PRead2 l1 | PAcq2 l1 _ | PRel1 l1 => [l1]
  | PRel2 l1 l2 => [l1; l2]
  | SCheck _ l | SSwap _ l | SRel _ l _ => [l]
  | _ => []
  end.

Definition refs_stack (st : list (lref * lref)) : list lref :=
  flat_map (fun f => [fst f; snd f]) st.

Fixpoint nref (L : lref) (ls : list lref) : nat :=
  match ls with
  | [] => 0
  | l :: r => (if lref_eqb l L then 1 else 0) + nref L r
  end.

Definition held (x : thread) (L : lref) : nat :=
  nref L (refs_pc (t_pc x)) + nref L (refs_stack (t_stack x)).

Definition acct (l : lock) (h : nat -> nat) : Prop :=
  lock_wf l /\ forall u, h u = if owned_by l u then count l else 0.

Lemma acct_acquire l h h' t :
  acct l h -> can_acquire l t = true ->
  h' t = S (h t) -> (forall u, u <> t -> h' u = h u) ->
  acct (acquire l t) h'.
Proof.
  intros [W A] C Ht Ho. split; [apply acquire_wf|].
  intro u. unfold owned_by, acquire; simpl.
  destruct (Nat.eqb_spec t u) as [<-|N].
  - rewrite Ht, A. unfold owned_by. unfold lock_wf in W.
    apply can_acquire_cases in C. destruct C as [C|C]; rewrite C in *; simpl.
    + now rewrite W.
    + now rewrite Nat.eqb_refl.
  - rewrite Ho by auto. rewrite A. unfold owned_by.
    apply can_acquire_cases in C. destruct C as [C|C]; rewrite C; auto.
    apply Nat.eqb_neq in N. now rewrite N.
Qed.

Lemma acct_release l h h' t :
  acct l h -> 1 <= h t ->
  h' t = h t - 1 -> (forall u, u <> t -> h' u = h u) ->
  acct (release l) h'.
Proof.
  intros [W A] H1 Ht Ho.
  assert (O : owned_by l t = true).
  { pose proof (A t) as At. destruct (owned_by l t); auto. lia. }
  pose proof (A t) as At. rewrite O in At.
  apply owned_by_eq in O.
  assert (Oth : forall u, u <> t -> h u = 0).
  { intros u N. rewrite A. unfold owned_by. rewrite O.
    destruct (Nat.eqb_spec t u); congruence. }
  unfold release. destruct (count l) as [|[|n]] eqn:Cn; try lia.
  - split; [apply free_lock_wf|]. intro u. simpl.
    destruct (Nat.eq_dec u t) as [->|N]; [lia|]. rewrite Ho by auto. now apply Oth.
  - split; [unfold lock_wf; simpl; rewrite O; lia|].
    intro u. unfold owned_by; simpl. rewrite O.
    destruct (Nat.eqb_spec t u) as [<-|N]; [lia|].
    rewrite Ho by auto. apply Oth; auto.
Qed.

Lemma acct_same l h h' : acct l h -> (forall u, h' u = h u) -> acct l h'.
Proof. intros [W A] E. split; auto. intro u. now rewrite E. Qed.

Definition Acct (s : state) : Prop := forall L, acct (lk s L) (fun u => held (th s u) L).

(** how one step may change one lock: untouched, acquired or released by the stepping
    thread, with the matching change of what that thread holds *)
Lemma Acct_intro s s' t :
  (forall u, u <> t -> th s' u = th s u) ->
  (forall L,
      (lk s' L = lk s L /\ held (th s' t) L = held (th s t) L)
      \/ (lk s' L = acquire (lk s L) t /\ can_acquire (lk s L) t = true
          /\ held (th s' t) L = S (held (th s t) L))
      \/ (lk s' L = release (lk s L) /\ 1 <= held (th s t) L
          /\ held (th s' t) L = held (th s t) L - 1)) ->
  Acct s -> Acct s'.
Proof.
  intros Oth Ch A L. specialize (A L).
  destruct (Ch L) as [[E H]|[[E [C H]]|[E [G H]]]]; rewrite E.
  - eapply acct_same; eauto. intro u. simpl.
    destruct (Nat.eq_dec u t) as [->|N]; auto. now rewrite Oth.
  - eapply (acct_acquire _ _ _ t); eauto. intros u N. simpl. now rewrite Oth.
  - eapply (acct_release _ _ _ t); eauto. intros u N. simpl. now rewrite Oth.
Qed.

Lemma lk_set_th s t x ev L : lk (set_th s t x ev) L = lk s L.
Proof. destruct L; reflexivity. Qed.
Lemma th_set_th s t x ev u : th (set_th s t x ev) u = upd (th s) t x u.
Proof. reflexivity. Qed.
Lemma lk_set_lk s l v L : lk (set_lk s l v) L = if lref_eqb L l then v else lk s L.
Proof. destruct L, l; reflexivity. Qed.
Lemma th_set_lk s l v : th (set_lk s l v) = th s.
Proof. reflexivity. Qed.

Ltac step_cases H :=
  repeat match type of H with
         | (if ?c then _ else _) = Some _ => let E := fresh "E" in destruct c eqn:E
         | match ?c with _ => _ end = Some _ => let E := fresh "E" in destruct c eqn:E
         | None = Some _ => discriminate H
         | Some _ = Some _ => inversion H; clear H
         end.

Ltac solve_L :=
  first [ left; split; [reflexivity | simpl; lia]
        | right; left; split; [reflexivity | split; [assumption | simpl; lia]]
        | right; right; split; [reflexivity | split; simpl; lia] ].

Lemma acct_step cf s t s' :
  single cf = false -> Acct s -> step cf s t = Some s' -> Acct s'.
Proof.
  intros SG A H. unfold step in H.
  destruct (Nat.eqb t (term_tid cf)) eqn:TT.
  { (* the terminal *)
    destruct (reqs s) as [|r rest]; try discriminate. inversion H; subst s'. exact A. }
  destruct (negb (started s (proc cf t))); try discriminate.
  rewrite SG in H.
  destruct (t_pc (th s t)) eqn:PC; step_cases H; subst s';
    (apply (Acct_intro s _ t);
     [ intros u N; simpl; now rewrite upd_other by auto
     | intro L; simpl; rewrite upd_same; unfold held; simpl; rewrite ?PC; simpl
     | exact A ]).
  all: try (left; split; [destruct L; reflexivity | simpl; lia]).
  - (* PAcq1 *) destruct L, l1; simpl in *; solve_L.
  - (* PAcq2 *) destruct L, l1, l2; simpl in *; solve_L.
  - (* PAfter *) rewrite E0. destruct L, l, l0; simpl; solve_L.
  - (* PRel2 *) destruct L, l1, l2; simpl; solve_L.
  - (* PRel1, outermost *) destruct L, l1; simpl; rewrite ?E; simpl; solve_L.
  - (* PRel1, nested *) destruct L, l1; simpl; rewrite ?E; simpl; solve_L.
  - (* SAcq *) destruct L, l; simpl in *; solve_L.
  - (* SRel *) destruct L, l; simpl; solve_L.
Qed.
