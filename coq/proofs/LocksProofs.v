(** Proofs for C14: mutual exclusion of the bodies of [lock_tty]-synchronized functions
    across threads and processes, re-entrancy, and "every caller gets its own reply", for
    any number of threads / processes and any schedule, by induction on reachability
    ([lib/Sched.v]) over the model [model/Locks.v].

    1. lock accounting (I3): each lock has one owner, who holds it [count] times, where
       "holds" is read off the thread's program counter and frames;
    2. the thread-local transition [next]: what a step does to the holdings, and to what
       the thread knows about the global of its process ([local_ok]; I1, I2);
    3. the global invariant [Inv] and its preservation by every step;
    4. [mutex_lemma]; 5. [reentrant_lemma], [owner_proceeds_lemma];
    6. [Qinv], [queries_lemma] (FIFO terminal);
    7. every trace of the model is accepted by the judge of [model/LocksSpec.v]
       ([trace_accepted_lemma]);
    8. the coarser grain replayed by the harness is covered ([run_macro_reachable]);
    9. [second_acquire_needed_refuted_lemma] (the single-[with] variant races);
    10. non-vacuity examples. *)
From Coq Require Import List Arith Bool Lia.
Import ListNotations.
From TI Require Import lib.Sched model.Locks model.LocksSpec.

Local Arguments Nat.eqb : simpl never.

(** ** 1. Lock accounting (I3: each lock has one owner, who holds it [count] times) *)

(** lock references a thread HOLDS by virtue of its program counter / its frames *)
Definition refs_pc (p : pc) : list lref :=
  match p with
  | PRead2 l1 | PAcq2 l1 _ | PRel1 l1 => [l1]
  | PRel2 l1 l2 => [l1; l2]
  | SCheck _ l | SSwap _ l | SRel _ l _ => [l]
  | _ => []
  end.

Fixpoint refs_stack (st : list (lref * lref)) : list lref :=
  match st with
  | [] => []
  | f :: r => fst f :: snd f :: refs_stack r
  end.

Fixpoint nref (L : lref) (ls : list lref) : nat :=
  match ls with
  | [] => 0
  | l :: r => (if lref_eqb l L then 1 else 0) + nref L r
  end.

Definition held (x : thread) (L : lref) : nat :=
  nref L (refs_pc (t_pc x)) + nref L (refs_stack (t_stack x)).

Definition acct (l : lock) (h : nat -> nat) : Prop :=
  lock_wf l /\ forall u, h u = if owned_by l u then count l else 0.

Lemma acct_acquire l h h' t :
  acct l h -> can_acquire l t = true ->
  h' t = S (h t) -> (forall u, u <> t -> h' u = h u) ->
  acct (acquire l t) h'.
Proof.
  intros [W A] C Ht Ho. split; [apply acquire_wf|].
  intro u. unfold owned_by, acquire; simpl.
  destruct (Nat.eqb_spec t u) as [<-|N].
  - rewrite Ht, A. unfold owned_by. unfold lock_wf in W.
    apply can_acquire_cases in C. destruct C as [C|C]; rewrite C in *; simpl.
    + now rewrite W.
    + now rewrite Nat.eqb_refl.
  - rewrite Ho by auto. rewrite A. unfold owned_by.
    apply can_acquire_cases in C. destruct C as [C|C]; rewrite C; auto.
    apply Nat.eqb_neq in N. now rewrite N.
Qed.

Lemma acct_release l h h' t :
  acct l h -> 1 <= h t ->
  h' t = h t - 1 -> (forall u, u <> t -> h' u = h u) ->
  acct (release l) h'.
Proof.
  intros [W A] H1 Ht Ho.
  assert (O : owned_by l t = true).
  { pose proof (A t) as At. destruct (owned_by l t); auto. lia. }
  pose proof (A t) as At. rewrite O in At.
  apply owned_by_eq in O.
  assert (Oth : forall u, u <> t -> h u = 0).
  { intros u N. rewrite A. unfold owned_by. rewrite O.
    destruct (Nat.eqb_spec t u); congruence. }
  unfold release. destruct (count l) as [|[|n]] eqn:Cn; try lia.
  - split; [apply free_lock_wf|]. intro u. simpl.
    destruct (Nat.eq_dec u t) as [->|N]; [lia|]. rewrite Ho by auto. now apply Oth.
  - split; [unfold lock_wf; simpl; rewrite O; lia|].
    intro u. unfold owned_by; simpl. rewrite O.
    destruct (Nat.eqb_spec t u) as [<-|N]; [lia|].
    rewrite Ho by auto. apply Oth; auto.
Qed.

Lemma acct_same l h h' : acct l h -> (forall u, h' u = h u) -> acct l h'.
Proof. intros [W A] E. split; auto. intro u. now rewrite E. Qed.

Definition Acct (s : state) : Prop := forall L, acct (lk s L) (fun u => held (th s u) L).

(** how one step may change one lock: untouched, acquired or released by the stepping
    thread, with the matching change of what that thread holds *)
Lemma Acct_intro s s' t :
  (forall u, u <> t -> th s' u = th s u) ->
  (forall L,
      (lk s' L = lk s L /\ held (th s' t) L = held (th s t) L)
      \/ (lk s' L = acquire (lk s L) t /\ can_acquire (lk s L) t = true
          /\ held (th s' t) L = S (held (th s t) L))
      \/ (lk s' L = release (lk s L) /\ 1 <= held (th s t) L
          /\ held (th s' t) L = held (th s t) L - 1)) ->
  Acct s -> Acct s'.
Proof.
  intros Oth Ch A L. specialize (A L).
  destruct (Ch L) as [[E H]|[[E [C H]]|[E [G H]]]]; rewrite E.
  - eapply acct_same; eauto. intro u. simpl.
    destruct (Nat.eq_dec u t) as [->|N]; auto. now rewrite Oth.
  - eapply (acct_acquire _ _ _ t); eauto. intros u N. simpl. now rewrite Oth.
  - eapply (acct_release _ _ _ t); eauto. intros u N. simpl. now rewrite Oth.
Qed.

(** consequences: who holds a lock owns it; nobody else holds it *)
Lemma acct_owner s t L : Acct s -> 1 <= held (th s t) L -> owned_by (lk s L) t = true.
Proof.
  intros A H. destruct (A L) as [_ E]. specialize (E t). simpl in E.
  destruct (owned_by (lk s L) t); auto. lia.
Qed.

Lemma acct_excl s t u L :
  Acct s -> 1 <= held (th s t) L -> u <> t -> held (th s u) L = 0.
Proof.
  intros A H N. pose proof (acct_owner _ _ _ A H) as O.
  destruct (A L) as [_ E]. specialize (E u). simpl in E. rewrite E.
  apply owned_by_eq in O. unfold owned_by. rewrite O.
  destruct (Nat.eqb_spec t u); congruence.
Qed.

Lemma acct_unique s t u L :
  Acct s -> 1 <= held (th s t) L -> 1 <= held (th s u) L -> u = t.
Proof.
  intros A Ht Hu. destruct (Nat.eq_dec u t) as [E|N]; auto.
  pose proof (acct_excl _ _ _ _ A Ht N). lia.
Qed.

(** ** 2. The thread-local transition *)

Ltac step_cases H :=
  cbn beta iota in H;
  lazymatch type of H with
  | Some _ = Some _ => inversion H; clear H
  | None = Some _ => discriminate H
  | (if ?c then _ else _) = Some _ =>
    let E := fresh "E" in destruct c eqn:E; step_cases H
  | match ?c with _ => _ end = Some _ =>
    let E := fresh "E" in destruct c eqn:E; step_cases H
  | _ => idtac
  end.

Ltac kill_lrefs := repeat match goal with l : lref |- _ => destruct l end.

Definition acq_of (a : action) (L : lref) : nat :=
  match a with AAcq l => if lref_eqb l L then 1 else 0 | _ => 0 end.
Definition rel_of (a : action) (L : lref) : nat :=
  match a with ARel l => if lref_eqb l L then 1 else 0 | _ => 0 end.

(** what a step does to the holdings of the stepping thread *)
Lemma next_held c r x a x' ev L :
  next false c r x = Some (a, x', ev) ->
  held x' L + rel_of a L = held x L + acq_of a L.
Proof.
  unfold next. intro H.
  destruct (t_pc x) eqn:PC; step_cases H; subst; unfold held; cbn;
    rewrite ?PC; cbn;
    repeat match goal with E : t_stack _ = _ |- _ => rewrite E end; cbn;
    kill_lrefs; cbn; first [lia | destruct (t_stack x); cbn; lia].
Qed.

Definition mono (c l : lref) : Prop := c = LT -> l = LT.

(** what a thread knows about the global [c] of its process (I1, I2) *)
Definition local_ok (c : lref) (x : thread) : Prop :=
  Forall (fun f => snd f = c) (t_stack x) /\
  match t_pc x with
  | PIdle | SRead _ => t_stack x = []
  | PRead1 | PAfter | PRel2 _ _ | PRel1 _ => True
  | PAcq1 l1 | PRead2 l1 => mono c l1 /\ (t_stack x <> [] -> l1 = c)
  | PAcq2 l1 l2 => l2 = c /\ mono c l1
  | PBody | PWait _ => t_stack x <> []
  | SAcq _ l | SCheck _ l => mono c l /\ t_stack x = []
  | SSwap _ l => l = LT /\ t_stack x = []
  | SRel _ _ h | SStart _ h => h = LM /\ c = LM /\ t_stack x = []
  end.

Definition cur_after (a : action) (c : lref) : lref :=
  match a with ASwap => LM | _ => c end.

Lemma next_local c r x a x' ev :
  next false c r x = Some (a, x', ev) ->
  local_ok c x -> local_ok (cur_after a c) x'.
Proof.
  unfold next, local_ok. intros H [F P].
  destruct (t_pc x) eqn:PC; step_cases H; subst; cbn;
    repeat match goal with E : t_stack _ = _ |- _ => rewrite E in * end;
    unfold mono in *; cbn in *.
  all: try solve [intuition (try congruence)].
  all: try solve [inversion F; subst; intuition (try congruence)].
  all: try solve [split; [constructor; intuition|]; intuition congruence].
  all: try solve [kill_lrefs; intuition congruence].
  all: try solve [destruct P as [? E]; rewrite E in *; kill_lrefs; cbn;
                  intuition (try congruence)].
  all: try solve [destruct P as [? E]; rewrite E in *; split; [constructor|]; auto].
Qed.

(** facts about particular actions *)
Lemma next_swap_holds c r x x' ev :
  next false c r x = Some (ASwap, x', ev) -> local_ok c x -> 1 <= held x LT.
Proof.
  unfold next, local_ok. intros H [F P].
  destruct (t_pc x) eqn:PC; step_cases H; subst.
  destruct P as [-> _]. unfold held. rewrite PC. cbn. lia.
Qed.

Lemma next_start_lm c r x ch h x' ev :
  next false c r x = Some (AStart ch h, x', ev) -> local_ok c x -> h = LM /\ c = LM.
Proof.
  unfold next, local_ok. intros H [F P].
  destruct (t_pc x) eqn:PC; step_cases H; subst. intuition.
Qed.

Lemma held_stack_pos x c :
  Forall (fun f => snd f = c) (t_stack x) -> t_stack x <> [] -> 1 <= held x c.
Proof.
  unfold held. destruct (t_stack x) as [|[l1 l2] st]; [congruence|].
  intros F _. inversion F; subst. cbn. destruct l1, l2; cbn; lia.
Qed.

Lemma held_zero_stack x c :
  Forall (fun f => snd f = c) (t_stack x) -> held x c = 0 -> t_stack x = [].
Proof.
  intros F H. destruct (t_stack x) eqn:E; auto.
  assert (1 <= held x c) by (apply held_stack_pos; auto; congruence). lia.
Qed.

(** the global of the process changes under a thread's feet (another thread swapped
    the lock): only possible while the thread holds nothing of the old lock *)
Lemma local_swapped x : local_ok LT x -> held x LT = 0 -> local_ok LM x.
Proof.
  intros [F P] H. pose proof (held_zero_stack _ _ F H) as E.
  unfold local_ok. rewrite E in *. split; [constructor|].
  unfold held in H. rewrite E in H.
  destruct (t_pc x) eqn:PC; unfold mono in *; cbn in *; kill_lrefs; cbn in *;
    intuition (try congruence; try lia).
Qed.

Lemma local_cur_change c c' x :
  local_ok c x -> c' = c \/ (c' = LM /\ held x LT = 0) -> local_ok c' x.
Proof.
  intros L [->|[-> H]]; auto. destruct c; auto. now apply local_swapped.
Qed.

(** ** 3. The global invariant and its preservation *)
Section Inv.
  Variable cf : cfg.
  Hypothesis SG : single cf = false.

  Record Inv (s : state) : Prop := {
    I_acct : Acct s;
    (* I1: what every thread has read / holds is consistent with ITS process's global *)
    I_local : forall t, local_ok (cur s (proc cf t)) (th s t);
    (* I2: the global of a child process is the shared lock from the beginning; the
       root's global leaves [LT] before any child runs *)
    I_child : forall p, p <> 0 -> cur s p = LM;
    I_root : cur s 0 = LT -> forall p, p <> 0 -> started s p = false;
    I_root_started : started s 0 = true;
    I_idle : forall t, started s (proc cf t) = false -> t_stack (th s t) = []
  }.

  Lemma inv_init prog : Inv (init prog).
  Proof.
    constructor; cbn.
    - intro L. split; [destruct L; apply free_lock_wf|].
      intro u. destruct L; reflexivity.
    - intro t. split; [constructor|reflexivity].
    - intros p N. destruct (Nat.eqb_spec p 0); congruence.
    - intros _ p N. destruct (Nat.eqb_spec p 0); congruence.
    - reflexivity.
    - reflexivity.
  Qed.

  Lemma step_inv s t s' :
    step cf s t = Some s' ->
    (t = term_tid cf /\ exists r rest, reqs s = r :: rest /\ s' = set_io s rest (reps s ++ [r]))
    \/ (t <> term_tid cf /\ started s (proc cf t) = true /\
        exists a x' ev s1,
          next false (cur s (proc cf t)) (hd_error (reps s)) (th s t) = Some (a, x', ev)
          /\ apply cf s t a = Some s1 /\ s' = set_th s1 t x' ev).
  Proof.
    unfold step. intro H. destruct (Nat.eqb_spec t (term_tid cf)) as [E|N].
    - left. split; auto. destruct (reqs s) as [|r rest]; [discriminate|].
      inversion H. eauto.
    - right. destruct (started s (proc cf t)) eqn:ST; [|discriminate]. cbn in H.
      rewrite SG in H.
      destruct (next false (cur s (proc cf t)) (hd_error (reps s)) (th s t))
        as [[[a x'] ev]|] eqn:NX; [|discriminate].
      destruct (apply cf s t a) as [s1|] eqn:AP; [|discriminate]. inversion H.
      repeat split; auto. exists a, x', ev, s1. auto.
  Qed.

  Lemma apply_inv s t a s1 :
    apply cf s t a = Some s1 ->
    match a with
    | ANone => s1 = s
    | AAcq l => can_acquire (lk s l) t = true /\ s1 = set_lk s l (acquire (lk s l) t)
    | ARel l => s1 = set_lk s l (release (lk s l))
    | ASwap => s1 = set_cur s (proc cf t) LM
    | AStart c h => s1 = if started s c then s else set_started (set_cur s c h) c
    | AWrite n => s1 = set_io s (reqs s ++ [(t, n)]) (reps s)
    | ARead => exists r rest, reps s = r :: rest /\ s1 = set_io s (reqs s) rest
    end.
  Proof.
    destruct a; cbn; intro H.
    - now inversion H.
    - destruct (can_acquire (lk s l) t); [|discriminate]. now inversion H.
    - now inversion H.
    - now inversion H.
    - destruct (started s c); now inversion H.
    - now inversion H.
    - destruct (reps s) as [|r rest]; [discriminate|]. inversion H. eauto.
  Qed.

  Lemma apply_th s t a s1 : apply cf s t a = Some s1 -> th s1 = th s.
  Proof.
    intro H. apply apply_inv in H. destruct a; try (subst; reflexivity).
    - destruct H as [_ ->]. reflexivity.
    - subst. destruct (started s c); reflexivity.
    - destruct H as (r & rest & _ & ->). reflexivity.
  Qed.

  Lemma apply_cur s t a s1 :
    apply cf s t a = Some s1 ->
    cur s1 = match a with
             | ASwap => upd (cur s) (proc cf t) LM
             | AStart c h => if started s c then cur s else upd (cur s) c h
             | _ => cur s
             end.
  Proof.
    intro H. apply apply_inv in H. destruct a; try (subst; reflexivity).
    - destruct H as [_ ->]. reflexivity.
    - subst. destruct (started s c); reflexivity.
    - destruct H as (r & rest & _ & ->). reflexivity.
  Qed.

  Lemma apply_started s t a s1 :
    apply cf s t a = Some s1 ->
    started s1 = match a with
                 | AStart c h => if started s c then started s else upd (started s) c true
                 | _ => started s
                 end.
  Proof.
    intro H. apply apply_inv in H. destruct a; try (subst; reflexivity).
    - destruct H as [_ ->]. reflexivity.
    - subst. destruct (started s c); reflexivity.
    - destruct H as (r & rest & _ & ->). reflexivity.
  Qed.

  Lemma started_mono s t a s1 p :
    apply cf s t a = Some s1 -> started s p = true -> started s1 p = true.
  Proof.
    intros H ST. rewrite (apply_started _ _ _ _ H). destruct a; auto.
    destruct (started s c) eqn:E; auto. unfold upd. destruct (Nat.eqb p c); auto.
  Qed.

  Ltac solve_L :=
    first [ left; split; [reflexivity | lia]
          | right; left; split; [reflexivity | split; [assumption | lia]]
          | right; right; split; [reflexivity | split; lia] ].

  Lemma acct_step s t c r a x' ev s1 :
    Acct s -> next false c r (th s t) = Some (a, x', ev) -> apply cf s t a = Some s1 ->
    Acct (set_th s1 t x' ev).
  Proof.
    intros A NX AP. pose proof (fun L => next_held _ _ _ _ _ _ L NX) as HE.
    pose proof (apply_th _ _ _ _ AP) as TH. apply apply_inv in AP.
    apply (Acct_intro s _ t); auto.
    - intros u N. cbn. rewrite TH. now rewrite upd_other by auto.
    - intro L. cbn [th set_th]. rewrite upd_same. specialize (HE L).
      destruct a as [|l|l| |ch h|n|]; cbn in AP, HE.
      + subst. left. split; [destruct L; reflexivity | lia].
      + destruct AP as [C ->]. destruct L, l; cbn in *; solve_L.
      + subst. destruct L, l; cbn in *; solve_L.
      + subst. left. split; [destruct L; reflexivity | lia].
      + subst. left. split; [destruct (started s ch), L; reflexivity | lia].
      + subst. left. split; [destruct L; reflexivity | lia].
      + destruct AP as (rp & rest & _ & ->). left. split; [destruct L; reflexivity | lia].
  Qed.

  (** the global of a process only ever changes [LT -> LM], by a swap in that process *)
  Lemma cur_step s t a x' ev s1 p :
    Inv s -> started s (proc cf t) = true ->
    next false (cur s (proc cf t)) (hd_error (reps s)) (th s t) = Some (a, x', ev) ->
    apply cf s t a = Some s1 ->
    cur s1 p = cur s p \/ (a = ASwap /\ p = proc cf t /\ cur s1 p = LM).
  Proof.
    intros I ST NX AP. rewrite (apply_cur _ _ _ _ AP). destruct a; auto.
    - unfold upd. destruct (Nat.eqb_spec p (proc cf t)); auto.
    - destruct (started s c) eqn:SC; auto. unfold upd.
      destruct (Nat.eqb_spec p c) as [->|N]; auto. left.
      destruct (next_start_lm _ _ _ _ _ _ _ NX (I_local _ I t)) as [-> _].
      symmetry. apply (I_child _ I). intros ->. rewrite (I_root_started _ I) in SC.
      discriminate.
  Qed.

  Lemma inv_step s t s' : Inv s -> step cf s t = Some s' -> Inv s'.
  Proof.
    intros I H.
    destruct (step_inv _ _ _ H)
      as [(ET & r & rest & ER & ->) | (NT & ST & a & x' & ev & s1 & NX & AP & ->)].
    { (* the terminal *) destruct I. constructor; auto. }
    pose proof (I_local _ I t) as LT0.
    pose proof (next_local _ _ _ _ _ _ NX LT0) as LO.
    pose proof (apply_th _ _ _ _ AP) as TH.
    pose proof (fun p => cur_step _ _ _ _ _ _ p I ST NX AP) as CU.
    pose proof (fun p => started_mono _ _ _ _ p AP) as SM.
    constructor.
    - eapply acct_step; eauto. apply (I_acct _ I).
    - intro u. cbn. rewrite TH. destruct (Nat.eq_dec u t) as [->|N].
      + rewrite upd_same. destruct (CU (proc cf t)) as [E|(-> & _ & E)]; rewrite E.
        * destruct a; auto. cbn in LO.
          rewrite (apply_cur _ _ _ _ AP) in E. rewrite <- E. now rewrite upd_same.
        * exact LO.
      + rewrite upd_other by auto.
        apply (local_cur_change (cur s (proc cf u))); [apply (I_local _ I)|].
        destruct (CU (proc cf u)) as [E|(-> & EP & E)]; auto.
        right. split; auto.
        apply (acct_excl s t u LT (I_acct _ I)); auto.
        eapply next_swap_holds; eauto.
    - intros p N. cbn. destruct (CU p) as [E|(_ & _ & E)]; rewrite E; auto.
      apply (I_child _ I); auto.
    - cbn. intros C0 p N.
      assert (C0' : cur s 0 = LT).
      { destruct (CU 0) as [E|(_ & _ & E)]; congruence. }
      rewrite (apply_started _ _ _ _ AP). destruct a; try (apply (I_root _ I); auto).
      destruct (started s c) eqn:SC; [apply (I_root _ I); auto|]. exfalso.
      destruct (next_start_lm _ _ _ _ _ _ _ NX LT0) as [_ CL].
      destruct (Nat.eq_dec (proc cf t) 0) as [E0|N0].
      + rewrite E0 in CL. congruence.
      + rewrite (I_root _ I C0' _ N0) in ST. discriminate.
    - cbn. apply SM. apply (I_root_started _ I).
    - intros u SU. cbn in SU. cbn. rewrite TH.
      destruct (Nat.eq_dec u t) as [->|N].
      + rewrite (SM _ ST) in SU. discriminate.
      + rewrite upd_other by auto. apply (I_idle _ I).
        destruct (started s (proc cf u)) eqn:E; auto. rewrite (SM _ E) in SU. discriminate.
  Qed.

  Lemma inv_reachable prog s : reachable (step cf) (init prog) s -> Inv s.
  Proof.
    apply (reachable_ind_inv _ (step cf) Inv); [apply inv_init|].
    intros; eapply inv_step; eauto.
  Qed.

  (** ** 4. Mutual exclusion *)

  Lemma in_body_holds s t :
    Inv s -> in_body s t -> 1 <= held (th s t) (cur s (proc cf t)).
  Proof.
    intros I B. destruct (I_local _ I t) as [F _]. now apply held_stack_pos.
  Qed.

  Lemma in_body_started s t : Inv s -> in_body s t -> started s (proc cf t) = true.
  Proof.
    intros I B. destruct (started s (proc cf t)) eqn:E; auto.
    elim B. now apply (I_idle _ I).
  Qed.

  (** all processes that run share one value of the global *)
  Lemma cur_agree s p q :
    Inv s -> started s p = true -> started s q = true -> cur s p = cur s q.
  Proof.
    intros I SP SQ.
    assert (K : forall a, started s a = true -> cur s a = cur s 0).
    { intros a SA. destruct (Nat.eq_dec a 0) as [->|N]; auto.
      rewrite (I_child _ I _ N). destruct (cur s 0) eqn:C0; auto.
      rewrite (I_root _ I C0 _ N) in SA. discriminate. }
    now rewrite (K _ SP), (K _ SQ).
  Qed.

  Lemma mutex_inv s t1 t2 : Inv s -> in_body s t1 -> in_body s t2 -> t1 = t2.
  Proof.
    intros I B1 B2.
    pose proof (in_body_holds _ _ I B1) as H1.
    pose proof (in_body_holds _ _ I B2) as H2.
    rewrite (cur_agree s (proc cf t1) (proc cf t2) I) in H1
      by (apply in_body_started; auto).
    apply (acct_unique s t2 t1 _ (I_acct _ I) H2 H1).
  Qed.

  Theorem mutex_lemma prog s t1 t2 :
    reachable (step cf) (init prog) s -> in_body s t1 -> in_body s t2 -> t1 = t2.
  Proof. intro R. apply mutex_inv. eapply inv_reachable; eauto. Qed.

  (** ** 5. Re-entrancy: inside a body, the only thing a thread can wait for is the
      terminal's reply — never a lock *)

  Definition waits_reply (s : state) (t : nat) : Prop :=
    exists n, t_pc (th s t) = PWait n.

  Lemma owner_proceeds_inv s t :
    Inv s -> t <> term_tid cf -> in_body s t -> ~ waits_reply s t ->
    exists s', step cf s t = Some s'.
  Proof.
    intros I NT B NW. unfold step.
    destruct (Nat.eqb_spec t (term_tid cf)) as [|_]; [contradiction|].
    rewrite (in_body_started _ _ I B). cbn. rewrite SG.
    pose proof (in_body_holds _ _ I B) as HO.
    apply (acct_owner _ _ _ (I_acct _ I)) in HO. apply can_acquire_owned in HO.
    destruct (I_local _ I t) as [F P]. unfold in_body in B. unfold next.
    destruct (t_pc (th s t)) eqn:PC; cbn in *; try (intuition congruence); eauto.
    - (* PAcq1 *) destruct P as [_ P]. rewrite (P B), HO. eauto.
    - (* PAcq2 *) destruct P as [-> _]. rewrite HO. eauto.
    - (* PBody *) destruct (t_togo (th s t)); cbn; eauto.
      destruct (t_io (th s t)); cbn; eauto.
    - (* PWait *) elim NW. red. eauto.
    - (* PAfter *) destruct (t_stack (th s t)) as [|[l1 l2] st]; [congruence|]. cbn. eauto.
  Qed.

  Theorem reentrant_lemma prog s t :
    reachable (step cf) (init prog) s -> t <> term_tid cf -> in_body s t ->
    (exists l1, t_pc (th s t) = PAcq1 l1) \/ (exists l1 l2, t_pc (th s t) = PAcq2 l1 l2) ->
    exists s', step cf s t = Some s'.
  Proof.
    intros R NT B A. apply owner_proceeds_inv; auto; [eapply inv_reachable; eauto|].
    intros [n E]. destruct A as [[l1 A]|[l1 [l2 A]]]; congruence.
  Qed.

  Theorem owner_proceeds_lemma prog s t :
    reachable (step cf) (init prog) s -> t <> term_tid cf -> in_body s t ->
    ~ waits_reply s t -> exists s', step cf s t = Some s'.
  Proof. intros R. apply owner_proceeds_inv. eapply inv_reachable; eauto. Qed.

  (** ** 6. Queries: with a FIFO terminal every caller gets exactly its own reply *)

  Definition not_io (a : action) : Prop :=
    match a with AWrite _ | ARead => False | _ => True end.
  Definition nowait (x : thread) : Prop := forall n, t_pc x <> PWait n.
  Definition quiet (e : event) : Prop :=
    match e with EAcq _ | ERel _ | ESwap | EStart _ _ => True | _ => False end.

  (** the five kinds of micro-steps, as far as bodies and queries are concerned *)
  Inductive nclass (r : option (nat * nat)) (x : thread) (a : action) (x' : thread)
            (ev : list event) : Prop :=
  | NQuiet : not_io a -> nowait x -> nowait x' -> t_stack x' = t_stack x ->
             (ev = [] \/ exists e, ev = [e] /\ quiet e) -> nclass r x a x' ev
  | NEnter l f : not_io a -> nowait x -> nowait x' -> t_stack x' = f :: t_stack x ->
                 ev = [EAcq l; EEnter] -> nclass r x a x' ev
  | NExit f : not_io a -> nowait x -> nowait x' -> t_stack x = f :: t_stack x' ->
              ev = [EExit] -> nclass r x a x' ev
  | NWrite n : a = AWrite n -> t_pc x = PBody -> t_pc x' = PWait n ->
               t_stack x' = t_stack x -> ev = [EWrite n] -> nclass r x a x' ev
  | NRead n rp : a = ARead -> t_pc x = PWait n -> nowait x' -> t_stack x' = t_stack x ->
                 r = Some rp -> ev = [EReply (fst rp) (snd rp)] -> nclass r x a x' ev.

  Ltac nw :=
    let n := fresh "n" in
    intro n; cbn;
    repeat match goal with
           | H : t_pc _ = _ |- _ => rewrite H
           | |- context [match ?e with _ => _ end] => destruct e
           end; discriminate.

  Lemma next_class c r x a x' ev :
    next false c r x = Some (a, x', ev) -> nclass r x a x' ev.
  Proof.
    unfold next. intro H.
    destruct (t_pc x) eqn:PC; step_cases H; subst.
    all: try solve [eapply NQuiet; [exact I | nw | nw | reflexivity
                                    | first [left; reflexivity
                                            | right; eexists; split; [reflexivity|exact I]]]].
    all: try solve [eapply NEnter; [exact I | nw | nw | reflexivity | reflexivity]].
    all: try solve [eapply NExit; [exact I | nw | nw | eassumption | reflexivity]].
    all: try solve [eapply NWrite; [reflexivity | assumption | reflexivity | reflexivity
                                    | reflexivity]].
    all: try solve [eapply NRead; [reflexivity | eassumption | nw | reflexivity
                                   | reflexivity | reflexivity]].
  Qed.

  Lemma apply_io_same s t a s1 :
    apply cf s t a = Some s1 -> not_io a -> reqs s1 = reqs s /\ reps s1 = reps s.
  Proof.
    intros H N. apply apply_inv in H. destruct a; cbn in N; try contradiction;
      try (subst; split; reflexivity).
    - destruct H as [_ ->]. split; reflexivity.
    - subst. destruct (started s c); split; reflexivity.
  Qed.

  Lemma apply_log s t a s1 : apply cf s t a = Some s1 -> log s1 = log s.
  Proof.
    intro H. apply apply_inv in H. destruct a; try (subst; reflexivity).
    - destruct H as [_ ->]. reflexivity.
    - subst. destruct (started s c); reflexivity.
    - destruct H as (r & rest & _ & ->). reflexivity.
  Qed.

  Lemma app_single {A} (l1 l2 : list A) r a :
    l1 ++ r :: l2 = [a] -> l1 = [] /\ r = a /\ l2 = [].
  Proof.
    destruct l1 as [|b l1]; cbn; intro H.
    - inversion H. auto.
    - inversion H as [[E1 E2]]. destruct l1; discriminate.
  Qed.

  Record Qinv (s : state) : Prop := {
    (* whoever waits for a reply: the only thing in flight is its own request / reply *)
    Q_own : forall t n, t_pc (th s t) = PWait n -> reqs s ++ reps s = [(t, n)];
    Q_none : reqs s ++ reps s = [] \/ exists t, waits_reply s t
  }.

  Lemma qinv_init prog : Qinv (init prog).
  Proof. constructor; cbn; [discriminate|auto]. Qed.

  Lemma waits_in_body s u : Inv s -> waits_reply s u -> in_body s u.
  Proof.
    intros I [n W]. destruct (I_local _ I u) as [_ P]. rewrite W in P. exact P.
  Qed.

  Lemma qinv_step s t s' : Inv s -> Qinv s -> step cf s t = Some s' -> Qinv s'.
  Proof.
    intros I Q H.
    destruct (step_inv _ _ _ H)
      as [(ET & r & rest & ER & ->) | (NT & ST & a & x' & ev & s1 & NX & AP & ->)].
    { (* the terminal answers the oldest request *)
      destruct (Q_none _ Q) as [E|[u [n W]]].
      { rewrite ER in E. discriminate. }
      pose proof (Q_own _ Q _ _ W) as O. rewrite ER in O. cbn in O.
      inversion O as [[E1 E2]]. apply app_eq_nil in E2. destruct E2 as [-> E2].
      constructor; cbn.
      - intros t0 n0 W0. pose proof (Q_own _ Q _ _ W0) as O0.
        rewrite ER, E2 in O0. cbn in O0. rewrite E2. cbn. congruence.
      - right. exists u, n. exact W. }
    pose proof (apply_th _ _ _ _ AP) as TH.
    assert (OTH : forall u, u <> t -> th (set_th s1 t x' ev) u = th s u).
    { intros u N. cbn. rewrite TH. now rewrite upd_other. }
    assert (OWN : th (set_th s1 t x' ev) t = x').
    { cbn. now rewrite upd_same. }
    destruct (next_class _ _ _ _ _ _ NX) as
        [NI NW NW' _ _ | l f NI NW NW' _ _ | f NI NW NW' _ _
         | n -> PB PW _ _ | n rp -> PW NW' _ _ _].
    1-3: destruct (apply_io_same _ _ _ _ AP NI) as [RQ RP];
      (constructor; cbn [reqs reps set_th]; rewrite RQ, RP;
       [ intros u m W; destruct (Nat.eq_dec u t) as [->|N];
         [ rewrite OWN in W; elim (NW' _ W)
         | rewrite OTH in W by auto; eapply Q_own; eauto ]
       | destruct (Q_none _ Q) as [E|[u [m W]]]; [now left|right];
         exists u, m; destruct (Nat.eq_dec u t) as [->|N];
         [ elim (NW _ W) | now rewrite OTH by auto ] ]).
    - (* a request is written: nobody else can be waiting *)
      assert (B : in_body s t).
      { destruct (I_local _ I t) as [_ P]. rewrite PB in P. exact P. }
      assert (NOW : forall u, ~ waits_reply s u).
      { intros u W. pose proof (mutex_inv _ _ _ I (waits_in_body _ _ I W) B) as ->.
        destruct W as [m W]. congruence. }
      destruct (Q_none _ Q) as [E|[u W]]; [|elim (NOW _ W)].
      apply app_eq_nil in E. destruct E as [E1 E2].
      apply apply_inv in AP.
      assert (RQ : reqs (set_th s1 t x' ev) ++ reps (set_th s1 t x' ev) = [(t, n)]).
      { subst s1. cbn. now rewrite E1, E2. }
      constructor; rewrite RQ.
      + intros u m W. destruct (Nat.eq_dec u t) as [->|N].
        * rewrite OWN in W. congruence.
        * rewrite OTH in W by auto. elim (NOW u). red. eauto.
      + right. exists t, n. now rewrite OWN.
    - (* the reply is read: it was the only thing in flight *)
      pose proof (Q_own _ Q _ _ PW) as O.
      apply apply_inv in AP. destruct AP as (r0 & rest & ER & ->).
      rewrite ER in O. apply app_single in O. destruct O as (E1 & -> & ->).
      assert (RQ : reqs (set_th (set_io s (reqs s) []) t x' ev)
                   ++ reps (set_th (set_io s (reqs s) []) t x' ev) = []).
      { cbn. now rewrite E1. }
      constructor; rewrite RQ; [|now left].
      intros u m W. destruct (Nat.eq_dec u t) as [->|N].
      + rewrite OWN in W. elim (NW' _ W).
      + rewrite OTH in W by auto. pose proof (Q_own _ Q _ _ W) as O.
        rewrite E1, ER in O. cbn in O. congruence.
  Qed.

  Lemma qinv_reachable prog s : reachable (step cf) (init prog) s -> Inv s /\ Qinv s.
  Proof.
    apply (reachable_ind_inv _ (step cf) (fun s => Inv s /\ Qinv s)).
    - split; [apply inv_init|apply qinv_init].
    - intros s0 t s' [I Q] H. split; [eapply inv_step|eapply qinv_step]; eauto.
  Qed.

  (** a waiting caller: the terminal holds its request, or its reply — nothing else;
      so the reply it reads is its own, and nobody else can read it *)
  Theorem queries_lemma prog s t n :
    reachable (step cf) (init prog) s -> t_pc (th s t) = PWait n ->
    (reqs s = [(t, n)] /\ reps s = []) \/ (reqs s = [] /\ reps s = [(t, n)]).
  Proof.
    intros R W. destruct (qinv_reachable _ _ R) as [_ Q].
    pose proof (Q_own _ Q _ _ W) as O.
    destruct (reqs s) as [|r rest]; cbn in O; [now right|left].
    inversion O as [[E1 E2]]. apply app_eq_nil in E2. destruct E2 as [-> ->]. auto.
  Qed.

  (** ** 7. Every trace of the model is accepted by the judge of [model/LocksSpec.v] *)

  Definition occ_rel (s : state) (o : option (nat * nat)) : Prop :=
    match o with
    | None => forall t, t_stack (th s t) = []
    | Some (u, d) => d = length (t_stack (th s u)) /\ d <> 0 /\
                     forall t, t <> u -> t_stack (th s t) = []
    end.

  Definition pend_of (x : thread) : option nat :=
    match t_pc x with PWait n => Some n | _ => None end.

  Definition pend_rel (s : state) (pd : nat -> option nat) : Prop :=
    forall u, pd u = pend_of (th s u).

  Definition Jrel (s : state) : Prop :=
    exists j, judge_log (log s) = Some j /\ occ_rel s (j_occ j) /\ pend_rel s (j_pend j).

  Lemma judge_from_app j l1 l2 :
    judge_from j (l1 ++ l2) =
    match judge_from j l2 with Some j' => judge_from j' l1 | None => None end.
  Proof.
    induction l1 as [|te l1 IH]; cbn.
    - destruct (judge_from j l2); reflexivity.
    - rewrite IH. destruct (judge_from j l2); reflexivity.
  Qed.

  Lemma jstep_quiet j t e : quiet e -> j_pend j t = None -> jstep j (t, e) = Some j.
  Proof.
    intros Q PN. unfold jstep. cbn [fst snd]. rewrite PN.
    destruct e; cbn in Q; try contradiction; reflexivity.
  Qed.

  Lemma nowait_none x : nowait x -> pend_of x = None.
  Proof.
    unfold nowait, pend_of. intro N. destruct (t_pc x) eqn:E; auto. elim (N n). reflexivity.
  Qed.

  Lemma occ_rel_same s s' o :
    (forall u, t_stack (th s' u) = t_stack (th s u)) -> occ_rel s o -> occ_rel s' o.
  Proof.
    intros E. destruct o as [[u d]|]; cbn.
    - intros (D & N & O). rewrite E. repeat split; auto. intros t NE. rewrite E. auto.
    - intros O t. rewrite E. auto.
  Qed.

  Lemma pend_rel_step s s' t pd pd' :
    (forall u, u <> t -> th s' u = th s u) ->
    (forall u, u <> t -> pd' u = pd u) ->
    pd' t = pend_of (th s' t) ->
    pend_rel s pd -> pend_rel s' pd'.
  Proof.
    intros TH PD PT R u. destruct (Nat.eq_dec u t) as [->|N]; auto.
    rewrite PD, TH by auto. apply R.
  Qed.

  Lemma jrel_init prog : Jrel (init prog).
  Proof.
    exists j0. cbn. repeat split.
  Qed.

  Lemma jrel_step s t s' :
    Inv s -> Inv s' -> Qinv s -> Jrel s -> step cf s t = Some s' -> Jrel s'.
  Proof.
    intros I I' Q (j & JL & OR & PR) H.
    destruct (step_inv _ _ _ H)
      as [(ET & r & rest & ER & ->) | (NT & ST & a & x' & ev & s1 & NX & AP & ->)].
    { exists j. auto. }
    pose proof (apply_th _ _ _ _ AP) as TH.
    pose proof (apply_log _ _ _ _ AP) as LG.
    remember (set_th s1 t x' ev) as s' eqn:ES.
    assert (OTH : forall u, u <> t -> th s' u = th s u).
    { intros u N. subst s'. cbn. rewrite TH. now rewrite upd_other. }
    assert (OWN : th s' t = x').
    { subst s'. cbn. now rewrite upd_same. }
    assert (LOG : judge_log (log s') = judge_from j (rev (map (pair t) ev))).
    { subst s'. unfold judge_log. cbn [log set_th]. rewrite judge_from_app, LG.
      unfold judge_log in JL. now rewrite JL. }
    unfold Jrel. rewrite LOG.
    assert (SAME : t_stack x' = t_stack (th s t) ->
                   forall u, t_stack (th s' u) = t_stack (th s u)).
    { intros E u. destruct (Nat.eq_dec u t) as [->|N]; [now rewrite OWN|now rewrite OTH]. }
    destruct (next_class _ _ _ _ _ _ NX) as
        [NI NW NW' SK EV | l f NI NW NW' SK -> | f NI NW NW' SK ->
         | n -> PB PW SK -> | n rp -> PW NW' SK HR ->].
    - (* quiet *)
      assert (PN : j_pend j t = None) by (rewrite PR; now apply nowait_none).
      exists j. split; [|split].
      + destruct EV as [->|(e & -> & QE)]; cbn; [reflexivity|]. now apply jstep_quiet.
      + apply (occ_rel_same s); auto.
      + apply (pend_rel_step s s' t (j_pend j)); auto.
        rewrite OWN, PN. symmetry. now apply nowait_none.
    - (* entering a body *)
      assert (PN : j_pend j t = None) by (rewrite PR; now apply nowait_none).
      assert (B' : in_body s' t).
      { red. rewrite OWN, SK. discriminate. }
      cbn. rewrite jstep_quiet by (auto; exact Logic.I).
      unfold jstep. cbn [fst snd]. rewrite PN.
      assert (PR' : pend_rel s' (j_pend j)).
      { apply (pend_rel_step s s' t (j_pend j)); auto.
        rewrite OWN, PN. symmetry. now apply nowait_none. }
      destruct (j_occ j) as [[u d]|] eqn:OC; cbn in OR.
      + destruct OR as (D & DN & OO).
        destruct (Nat.eqb_spec u t) as [->|N].
        * eexists. split; [reflexivity|]. split; [|exact PR']. cbn.
          rewrite OWN, SK. cbn. repeat split; auto.
          intros v NV. rewrite OTH by auto. auto.
        * exfalso. apply N. apply (mutex_inv s' u t I'); auto.
          red. rewrite OTH by auto. intro E. rewrite E in D. cbn in D. auto.
      + eexists. split; [reflexivity|]. split; [|exact PR']. cbn.
        rewrite OWN, SK, OR. cbn. repeat split; auto.
        intros v NV. rewrite OTH by auto. auto.
    - (* leaving a body *)
      assert (PN : j_pend j t = None) by (rewrite PR; now apply nowait_none).
      assert (PR' : pend_rel s' (j_pend j)).
      { apply (pend_rel_step s s' t (j_pend j)); auto.
        rewrite OWN, PN. symmetry. now apply nowait_none. }
      cbn. unfold jstep. cbn [fst snd]. rewrite PN.
      destruct (j_occ j) as [[u d]|] eqn:OC; cbn in OR.
      2:{ rewrite OR in SK. discriminate. }
      destruct OR as (D & DN & OO).
      destruct (Nat.eq_dec t u) as [<-|N].
      2:{ rewrite (OO _ N) in SK. discriminate. }
      rewrite SK in D. cbn in D. subst d. rewrite Nat.eqb_refl.
      eexists. split; [reflexivity|]. split; [|exact PR']. cbn.
      destruct (length (t_stack x')) eqn:LN.
      + cbn. intro v. destruct (Nat.eq_dec v t) as [->|NV].
        * rewrite OWN. now apply length_zero_iff_nil.
        * rewrite OTH by auto. auto.
      + cbn. rewrite OWN. repeat split; auto.
        intros v NV. rewrite OTH by auto. auto.
    - (* a request is written *)
      assert (PN : j_pend j t = None).
      { rewrite PR. unfold pend_of. now rewrite PB. }
      cbn. unfold jstep. cbn [fst snd]. rewrite PN.
      eexists. split; [reflexivity|]. split; cbn.
      + apply (occ_rel_same s); auto.
      + apply (pend_rel_step s s' t (j_pend j)); auto.
        * intros u N. now rewrite upd_other.
        * rewrite upd_same, OWN. unfold pend_of. now rewrite PW.
    - (* the reply is read: it is the reader's own *)
      assert (PN : j_pend j t = Some n).
      { rewrite PR. unfold pend_of. now rewrite PW. }
      assert (RP : rp = (t, n)).
      { pose proof (Q_own _ Q _ _ PW) as O.
        destruct (reps s) as [|r0 rest] eqn:ER; [discriminate|].
        apply app_single in O. destruct O as (_ & -> & _). cbn in HR. congruence. }
      subst rp. cbn. unfold jstep. cbn [fst snd]. rewrite PN, !Nat.eqb_refl. cbn.
      eexists. split; [reflexivity|]. split; cbn.
      + apply (occ_rel_same s); auto.
      + apply (pend_rel_step s s' t (j_pend j)); auto.
        * intros u N. now rewrite upd_other.
        * rewrite upd_same, OWN. symmetry. now apply nowait_none.
  Qed.

  Lemma jrel_reachable prog s : reachable (step cf) (init prog) s -> Jrel s.
  Proof.
    intro R.
    assert (K : Inv s /\ Qinv s /\ Jrel s).
    { revert s R.
      apply (reachable_ind_inv _ (step cf) (fun s => Inv s /\ Qinv s /\ Jrel s)).
      - split; [apply inv_init|split; [apply qinv_init|apply jrel_init]].
      - intros s0 t s' (I & Q & J) H.
        assert (I' : Inv s') by (eapply inv_step; eauto).
        split; [exact I'|split; [apply (qinv_step s0 t s' I Q H)|apply (jrel_step s0 t s' I I' Q J H)]]. }
    apply K.
  Qed.

  Theorem trace_accepted_lemma prog s :
    reachable (step cf) (init prog) s -> accepts (rev (log s)) = true.
  Proof.
    intro R. destruct (jrel_reachable _ _ R) as (j & JL & _).
    unfold accepts. rewrite rev_involutive, JL. reflexivity.
  Qed.
End Inv.

(** ** 8. The coarser grain replayed by the correspondence is covered by the theorems:
    a [macro] step is a sequence of micro-steps *)
Lemma macro_reachable cf s t s' : macro cf s t = Some s' -> reachable (step cf) s s'.
Proof.
  unfold macro. destruct (step cf s t) as [s1|] eqn:E1; [|discriminate].
  assert (R1 : reachable (step cf) s s1) by (eapply reach_step; [constructor|eauto]).
  assert (M : forall x, reachable (step cf) s x ->
                        reachable (step cf) s
                          (if is_read (t_pc (th x t))
                           then match step cf x t with Some y => y | None => x end
                           else x)).
  { intros x R. destruct (is_read (t_pc (th x t))); auto.
    destruct (step cf x t) eqn:E; auto. eapply reach_step; eauto. }
  destruct (Nat.eqb t (term_tid cf)); intro H; inversion H; subst; clear H;
    [exact R1 | cbv zeta; apply M; apply M; exact R1].
Qed.

Lemma run_macro_reachable cf s0 sch :
  reachable (step cf) s0 (run_sched (macro cf) s0 sch).
Proof.
  assert (K : forall s, reachable (step cf) s0 s ->
                        reachable (step cf) s0 (run_sched (macro cf) s sch)).
  { induction sch as [|t sch IH]; intros s R; cbn; auto.
    destruct (macro cf s t) as [s1|] eqn:E; auto. apply IH.
    eapply reachable_trans; [exact R|]. eapply macro_reachable; eauto. }
  apply K. constructor.
Qed.

Lemma in_bodyb_spec s t : in_bodyb s t = true <-> in_body s t.
Proof.
  unfold in_bodyb, in_body. destruct (t_stack (th s t)); split; congruence.
Qed.

(** ** 9. The second [with] item is needed: with ONE item the hand-over races *)

Definition procs10 (t : nat) : nat := if Nat.eqb t 10 then 10 else 0.
Definition cf_single : cfg := {| proc := procs10; single := true; term_tid := 0 |}.
Definition cf_double : cfg := {| proc := procs10; single := false; term_tid := 0 |}.

(** thread 1 starts a child process, threads 2 and 3 call a synchronized function *)
Definition race_prog (t : nat) : list cmd :=
  match t with
  | 1 => [CStart 10]
  | 2 => [CCall 0 false]
  | 3 => [CCall 0 false]
  | _ => []
  end.

(** 1 takes the thread lock; 2 reads the global (still the thread lock) and waits for
    it; 1 swaps the global and releases; 2 gets the OLD lock; 3 reads the global (the
    new lock), gets it: both are in *)
Definition race_sched : list nat := [1; 1; 1; 2; 2; 1; 1; 1; 2; 3; 3; 3].

Lemma second_acquire_needed_refuted_lemma :
  exists cf prog sch t1 t2,
    single cf = true /\ t1 <> t2 /\
    let s := run_sched (step cf) (init prog) sch in in_body s t1 /\ in_body s t2.
Proof.
  exists cf_single, race_prog, race_sched, 2, 3.
  split; [reflexivity|]. split; [discriminate|].
  split; apply in_bodyb_spec; vm_compute; reflexivity.
Qed.

(** the same schedule, continued, on the real (two-item) wrapper: 2 takes the old lock,
    reads the global AGAIN and has to wait for the new lock, which 3 took first; 3 is
    alone in the body *)
Example handover_with_two_items :
  let s := run_sched (step cf_double) (init race_prog) (race_sched ++ [2; 2; 3; 3]) in
  t_stack (th s 3) = [(LM, LM)] /\ in_bodyb s 2 = false /\ t_pc (th s 2) = PAcq2 LT LM
  /\ step cf_double s 2 = None /\ cur s 0 = LM.
Proof. vm_compute. repeat split; reflexivity. Qed.

(** ** 10. Non-vacuity *)

Definition two_calls (t : nat) : list cmd :=
  match t with 1 | 2 => [CCall 0 false] | _ => [] end.

(** a reachable state with a thread inside a body while another one waits for the lock *)
Example body_while_other_waits :
  let s := run_sched (step cf_double) (init two_calls) [1; 1; 1; 1; 1; 2; 2] in
  reachable (step cf_double) (init two_calls) s
  /\ in_bodyb s 1 = true /\ t_pc (th s 2) = PAcq1 LT /\ step cf_double s 2 = None.
Proof.
  split; [apply run_sched_reachable|]. vm_compute. repeat split; reflexivity.
Qed.

Definition start_and_call (t : nat) : list cmd :=
  match t with 1 => [CStart 10] | 2 => [CCall 0 false] | _ => [] end.

(** the swap [LT -> LM] happens while thread 2 waits on [LT]; afterwards 2 takes the old
    and then the new lock *)
Example swap_while_other_waits :
  let a := run_sched (step cf_double) (init start_and_call) [1; 1; 1; 2; 2; 1] in
  let b := run_sched (step cf_double) a [1] in
  let c := run_sched (step cf_double) b [1; 2; 2; 2] in
  reachable (step cf_double) (init start_and_call) c
  /\ t_pc (th a 1) = SSwap 10 LT /\ cur a 0 = LT
  /\ t_pc (th a 2) = PAcq1 LT /\ step cf_double a 2 = None
  /\ cur b 0 = LM /\ t_pc (th b 2) = PAcq1 LT /\ step cf_double b 2 = None
  /\ t_stack (th c 2) = [(LT, LM)].
Proof.
  split.
  - eapply reachable_trans; [|apply run_sched_reachable].
    eapply reachable_trans; [|apply run_sched_reachable]. apply run_sched_reachable.
  - vm_compute. repeat split; reflexivity.
Qed.

(** a re-entrant call with a terminal round trip, run to completion: the reply is read *)
Definition nested_query (t : nat) : list cmd :=
  match t with 1 => [CCall 1 true] | _ => [] end.

Example nested_query_runs :
  let s := run_sched (step cf_double) (init nested_query)
                     (repeat 1 12 ++ [0] ++ repeat 1 10) in
  In (1, EReply 1 0) (log s) /\ in_bodyb s 1 = false /\ t_pc (th s 1) = PIdle
  /\ count (lkT s) = 0.
Proof. vm_compute. intuition. Qed.
