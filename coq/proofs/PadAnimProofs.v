(** Proofs about [model/PadAnim.v] / [model/PadAnimTie.v] (C05 on animated draws).

    [animation_final_is_pad]: for every first frame, every list of later frames, every
    margins and fill, the final screen of [Renderable.draw]'s animation shows, cell for cell
    of the padded box, what [pad] of the LAST frame drawn alone from the start position shows
    (C06's [animate_final], read with [padded = pad]); [animation_final_aligned]: the margins
    being those dictated by the alignment ([aligned_dims]), on the box
    [max W w x max H h].  [top_margin_refuted]: placing the later frames by the TOP margin is
    refuted as soon as top <> bottom. *)
From Coq Require Import List ZArith Bool Lia.
Import ListNotations.
From TI Require Import lib.Term lib.TermFacts lib.Rect lib.RectCheck lib.Lines lib.TermScroll
     model.Padding model.PadTie model.Draw model.PadAnim model.PadAnimTie
     proofs.PadProofs proofs.DrawLines proofs.DrawProofs.
Open Scope Z_scope.

(** the code is the instance [k = pad_bottom] *)
Lemma anim_stream_by_bottom hide l b h clear P Fs :
  anim_stream_by b hide l h clear P Fs = anim_stream hide l b h clear P Fs.
Proof. reflexivity. Qed.

Theorem animation_final_is_pad :
  forall (W H lm : Z) (fill : option glyph) (w h pl pt pr pb : Z),
  0 <= pl -> 0 <= pt -> 0 <= pr -> 0 <= pb -> 0 <= lm ->
  lm + (pl + w + pr) <= W -> pt + h + pb <= H ->
  forall clear : list tok, ClearOK w h clear ->
  forall (ls1 : list (list tok)) (lss : list (list (list tok))),
  LinesRect all_cells w h ls1 -> (forall ln, In ln ls1 -> Downward ln) ->
  Forall (LinesRect all_cells w h) lss ->
  forall (t0 : term) (top0 : Z) (hide : bool),
  okat t0 (row t0) lm -> top0 <= row t0 < top0 + H ->
  DrawFinal W H lm top0 t0 hide (pl + w + pr) (pt + h + pb)
    (pad fill (pl, pt, pr, pb) w (joinlf (lastframe ls1 lss)))
    (anim_stream_by pb hide pl h clear (pad fill (pl, pt, pr, pb) w (joinlf ls1)) (map joinlf lss)).
Proof.
  intros W H lm fill w h pl pt pr pb Hpl Hpt Hpr Hpb Hlm HW HH clear HC ls1 lss H1 HD HF t0 top0 hide Hok Htop.
  rewrite anim_stream_by_bottom.
  rewrite <- (padded_is_pad fill pl pt pr pb w h (joinlf (lastframe ls1 lss))) by assumption.
  rewrite <- (padded_is_pad fill pl pt pr pb w h (joinlf ls1)) by assumption.
  apply animate_final; assumption.
Qed.

(** the margins dictated by the alignment *)
Theorem animation_final_aligned :
  forall (W H lm : Z) (fill : option glyph) (Wp Hp : Z) (ha va : nat) (w h : Z),
  let '(pl, pt, pr, pb) := aligned_dims Wp Hp ha va w h in
  0 <= lm -> lm + Z.max Wp w <= W -> Z.max Hp h <= H ->
  forall clear : list tok, ClearOK w h clear ->
  forall (ls1 : list (list tok)) (lss : list (list (list tok))),
  LinesRect all_cells w h ls1 -> (forall ln, In ln ls1 -> Downward ln) ->
  Forall (LinesRect all_cells w h) lss ->
  forall (t0 : term) (top0 : Z) (hide : bool),
  okat t0 (row t0) lm -> top0 <= row t0 < top0 + H ->
  DrawFinal W H lm top0 t0 hide (Z.max Wp w) (Z.max Hp h)
    (pad fill (pl, pt, pr, pb) w (joinlf (lastframe ls1 lss)))
    (anim_stream_by pb hide pl h clear (pad fill (pl, pt, pr, pb) w (joinlf ls1)) (map joinlf lss)).
Proof.
  intros W H lm fill Wp Hp ha va w h.
  pose proof (aligned_dims_spec Wp Hp ha va w h) as S.
  destruct (aligned_dims Wp Hp ha va w h) as [[[pl pt] pr] pb].
  destruct S as (S1 & S2 & Hl & Ht & Hr & Hb & _).
  intros Hlm HW HH clear HC ls1 lss H1 HD HF t0 top0 hide Hok Htop.
  replace (Z.max Wp w) with (pl + w + pr) in * by lia.
  replace (Z.max Hp h) with (pt + h + pb) in * by lia.
  apply animation_final_is_pad; assumption.
Qed.

(** ** the excluded design *)

(** one-cell frames [A], [B] under ExactPadding(0, 0, 0, 1, '.'): the box is one column by
    two lines, the render on its first line.  With the later frames placed by the top margin
    the second frame lands on the SECOND line (over the fill) and the first frame stays. *)
Definition ex_A : list (list tok) := [[TChar (GOther 65)]].
Definition ex_B : list (list tok) := [[TChar (GOther 66)]].

Lemma ex_frame_lr g : LinesRect all_cells 1 1 [[TChar g]].
Proof.
  split; try reflexivity; try discriminate.
  - intros i l Hn. destruct i as [|i]; [|destruct i; discriminate]. inversion Hn; subst l.
    split; [repeat constructor|]. intros lm t Hc Hcol Hs.
    destruct Hc as [Hg Hp]. exists [EText (row t) (col t) g (sgr t)].
    cbn [exec fold_left]. unfold step. rewrite Hg. cbn [step_ground].
    split.
    + unfold mk, emit, set_pos. cbn. rewrite Hs, Hcol. reflexivity.
    + cbn [forallb ev_inside]. rewrite Hcol, !andb_true_iff, !Z.leb_le, !Z.ltb_lt. lia.
  - intros l [<-|[]]. repeat constructor.
  - apply coverage_rows; [reflexivity|].
    intros i l lm t Hn Hc Hcol Hs c Hcc.
    destruct i as [|i]; [|destruct i; discriminate]. inversion Hn; subst l.
    destruct Hc as [Hg Hp]. unfold line_evs. cbn [exec fold_left]. unfold step. rewrite Hg.
    cbn [step_ground set_pos emit log]. rewrite skipn_app, skipn_all, Nat.sub_diag. cbn [skipn app].
    unfold covered. cbn [existsb ev_covers]. rewrite Hcol.
    replace (lm =? c) with true by (symmetry; apply Z.eqb_eq; lia).
    rewrite Z.eqb_refl. reflexivity.
Qed.

Theorem top_margin_refuted :
  exists fill pl pt pr pb ls1 lss,
    LinesRect all_cells 1 1 ls1 /\ Forall (LinesRect all_cells 1 1) lss
    /\ 0 <= pl /\ 0 <= pt /\ 0 <= pr /\ 0 <= pb /\ pt <> pb
    /\ DrawFinal 10 8 0 0 (pos 0 0) true (pl + 1 + pr) (pt + 1 + pb)
         (pad fill (pl, pt, pr, pb) 1 (joinlf (lastframe ls1 lss)))
         (anim_stream_by pb true pl 1 [] (pad fill (pl, pt, pr, pb) 1 (joinlf ls1)) (map joinlf lss))
    /\ ~ DrawFinal 10 8 0 0 (pos 0 0) true (pl + 1 + pr) (pt + 1 + pb)
         (pad fill (pl, pt, pr, pb) 1 (joinlf (lastframe ls1 lss)))
         (anim_stream_top true pl pt 1 [] (pad fill (pl, pt, pr, pb) 1 (joinlf ls1)) (map joinlf lss)).
Proof.
  exists (Some (GOther 46)), 0, 0, 0, 1, ex_A, [ex_B].
  split; [apply ex_frame_lr|]. split; [constructor; [apply ex_frame_lr|constructor]|].
  repeat (split; [lia|]).
  split.
  - apply animation_final_is_pad; try lia.
    + intros lm' s r c Hok. exists []. cbn [exec fold_left]. split; [|reflexivity].
      destruct Hok as (Hc & Hs & Hr & Hcc). subst r c. rewrite <- Hs. symmetry. apply mk_id.
    + apply ex_frame_lr.
    + intros ln [<-|[]]. intros r c. cbn. rewrite Z.leb_refl. reflexivity.
    + constructor; [apply ex_frame_lr|constructor].
    + apply okat_pos.
    + cbn. lia.
  - intros [_ _ _ _ _ _ _ Hcontent].
    specialize (Hcontent 0 0). vm_compute in Hcontent.
    assert (X : Some (EText 0 0 (GOther 65) adefault) = Some (EText 0 0 (GOther 66) adefault)).
    { apply Hcontent; split; congruence. }
    discriminate.
Qed.

(** ** the tie *)
Theorem acheck_zero_sound c :
  acheck c = 0%nat ->
  amodel c = Some (a_obs c) /\ forallb (aoracle c) (a_rows c) = true /\ a_frames c <> [].
Proof.
  unfold acheck. intros H.
  destruct (amodel c) as [st|]; [|destruct (forallb (aoracle c) (a_rows c) && _); discriminate].
  unfold toks_eqb in H. destruct (list_eq_dec tok_dec st (a_obs c)) as [E|]; [|destruct (forallb (aoracle c) (a_rows c) && _); discriminate].
  destruct (forallb (aoracle c) (a_rows c)) eqn:Eo; [|discriminate].
  destruct (a_frames c); [discriminate|]. subst st. repeat split; discriminate.
Qed.
