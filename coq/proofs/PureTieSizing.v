(** * PureTieSizing — the functions TRANSLATED from the source on every run ([gen/Pure.v], by
    [harness/tx/tx_pure.py]) are, for ALL arguments, the model functions the property
    theorems are stated about.  For these functions the tie between model and code is
    therefore a theorem about what the source says now, not a sample of runs. *)
From Coq Require Import ZArith Bool Lia List.
From TI Require Import gen.Pure lib.FArith model.Sizing proofs.SizingProofs.
Open Scope Z_scope.

(** ** pixels <-> cells ([block.py], [common.py]) *)
Section Sizing.
  Context {FA : FloatArith}.

  Lemma px_of_cols_is_source : forall fam (e : env FA) c,
    px_of_cols fam e c = match fam with
                         | Text => block_pixels_cols_to_px c
                         | Graphics => graphics_pixels_cols_to_px (fst (cell_or_default e)) c
                         end.
  Proof. intros [] e c; reflexivity. Qed.

  Lemma px_of_lines_is_source : forall fam (e : env FA) l,
    px_of_lines fam e l = match fam with
                          | Text => block_pixels_lines_to_px l
                          | Graphics => graphics_pixels_lines_to_px (snd (cell_or_default e)) l
                          end.
  Proof. intros [] e l; reflexivity. Qed.

  Lemma cols_of_px_is_source : forall fam (e : env FA) p,
    cols_of_px fam e p = match fam with
                         | Text => block_pixels_cols_of_px p
                         | Graphics => graphics_pixels_cols_of_px (fst (cell_or_default e)) p
                         end.
  Proof. intros [] e p; reflexivity. Qed.

  (** the text family's [ceil(pixels / 2)] is computed in floating point by the code; under
      the IEEE standard model it is the exact integer ceiling the translator emits *)
  Lemma lines_of_px_is_source : forall (SM : StandardModel FA) fam (e : env FA) p,
    0 <= p <= 2 ^ 53 ->
    lines_of_px fam e p = match fam with
                          | Text => block_pixels_lines_of_px p
                          | Graphics => graphics_pixels_lines_of_px (snd (cell_or_default e)) p
                          end.
  Proof.
    intros SM [] e p Hp; [|reflexivity].
    rewrite text_lines_of_px by assumption. unfold block_pixels_lines_of_px.
    Z.div_mod_to_equations. lia.
  Qed.
End Sizing.

