(** C18 — redraws that urwid aborts or short-circuits (model/ScreenAbort.v): whatever mix of
    completed redraws, redraws made while a terminal resize is pending, redraws whose base
    draw raises, redraws of a canvas object drawn before, clear()s and public clear_images()
    calls: the terminal never shows a placement that the screen does not track, and after
    each redraw that reaches the terminal the placements are exactly those of the canvas
    drawn.  The variant that decides "canvas unchanged" from the canvas that REACHED the
    terminal last is refuted.

    The invariant of proofs/ScreenGhost.v ([good]) ties urwid's screen buffer to the views the
    screen tracks; after an aborted redraw the two belong to different canvases, so the
    invariant is restated with the screen buffer's views as a ghost of their own ([agood]);
    the step lemmas are re-proved in that form (the proof of [step_redraw_agood] is the proof of
    [ScreenGhost.step_redraw_good] with the screen buffer's views in place of the tracked ones
    where the unchanged rows are concerned). *)
From Coq Require Import List ZArith Bool Lia Arith.
Import ListNotations.
From TI Require Import lib.Term model.Screen model.ScreenUrwid model.ScreenAbort proofs.ScreenGhost.

Local Arguments Nat.eqb : simpl never.
Local Arguments Z.eqb : simpl never.
Local Arguments Nat.modulo : simpl never.

Section AbortProofs.

Variable H : nat.
Variable konsole : bool.
Variable lines : view -> list (Z * Z * Z).
Variable kittyw : nat -> bool.

Notation view_plcs := (view_plcs lines).
Notation plcs_of := (plcs_of lines).
Notation items_of := (items_of lines).
Notation row_items := (row_items lines).
Notation render_row := (render_row lines).
Notation item_toks := (item_toks konsole).
Notation urwid_draw := (urwid_draw H konsole).
Notation step := (step H konsole true lines).
Notation ys := (ys H).
Notation flushed := (flushed konsole).

Notation good := (ScreenGhost.good konsole lines kittyw).
Notation item_apply := (ScreenGhost.item_apply konsole).
Notation item_ok := (ScreenGhost.item_ok konsole).
Notation update_views_cases := (ScreenGhost.update_views_cases H lines kittyw).
Notation delz_exec := (ScreenGhost.delz_exec H konsole kittyw).
Notation fold_apply_sub := (ScreenGhost.fold_apply_sub H konsole kittyw).
Notation fold_apply_keep := (ScreenGhost.fold_apply_keep konsole).
Notation fold_apply_placed := (ScreenGhost.fold_apply_placed H konsole kittyw).
Notation In_vanished := (ScreenGhost.In_vanished H lines kittyw).
Notation items_of_ok := (ScreenGhost.items_of_ok konsole lines).
Notation draw_exec := (ScreenGhost.draw_exec konsole).
Notation view_plcs_z := (ScreenGhost.view_plcs_z lines).
Notation In_plcs_of := (ScreenGhost.In_plcs_of lines).
Notation In_items_of := (ScreenGhost.In_items_of lines).
Notation In_ys_filter := (ScreenGhost.In_ys_filter H lines kittyw).
Notation tracked_kind := (ScreenGhost.tracked_kind konsole).
Notation wdis_fold_bump := (ScreenGhost.wdis_fold_bump H kittyw).
Notation bigdels_exec := (ScreenGhost.bigdels_exec H konsole kittyw).
Notation survives_delz := (ScreenGhost.survives_delz H kittyw).
Notation cnt_pos_In := (ScreenGhost.cnt_pos_In H kittyw).
Notation dedup_w_nodup := (ScreenGhost.dedup_w_nodup H kittyw).
Notation dedup_w_fst := (ScreenGhost.dedup_w_fst H kittyw).
Notation dedup_w_In := (ScreenGhost.dedup_w_In H kittyw).
Notation cnt_nodup_le1 := (ScreenGhost.cnt_nodup_le1 H kittyw).

(** *** the invariant, with the views of urwid's screen buffer as a ghost of their own *)

Definition agood (sbv : list view) (w : world) : Prop :=
  let prev := s_prev (w_scr w) in
  (forall wd, kittyw wd = false ->
     wdis_get wd (s_wdis (w_scr w)) = 0 /\ wdis_get wd (w_nw w) = 0 /\ wdis_get wd (s_wdis (w_bs w)) = 0)
  /\ lt3 (w_bs w)
  /\ s_cdis (w_scr w) = Nat.iter (w_nall w) bump1 (s_cdis (w_bs w))
  /\ (forall wd, wdis_get wd (s_wdis (w_scr w))
                = Nat.iter (wdis_get wd (w_nw w)) bump1 (wdis_get wd (s_wdis (w_bs w))))
  /\ forallb bigdel (w_queue w) = true
  (* nothing on the terminal but image lines of the views the screen TRACKS *)
  /\ (forall p, In p (t_plcs (flushed w)) -> In p (plcs_of prev))
  /\ match w_sb w with
     | None => True
     | Some sb =>
       (* urwid's screen buffer is the canvas with the views [sbv] as written; an image line of
          it is on the terminal unless something that changes its disguise deleted it *)
       (exists base, forall y, sb y = render_row (w_bs w) sbv base y)
       /\ (forall v p, In v sbv -> In p (view_plcs v) ->
             In p (t_plcs (flushed w)) \/ 0 < w_nall w
             \/ (is_kitty (v_kind v) = true /\ 0 < wdis_get (v_wid v) (w_nw w)))
     end.

Lemma good_agood : forall w, good w <-> agood (s_prev (w_scr w)) w.
Proof. intro w. unfold ScreenGhost.good, agood. tauto. Qed.

(** what is needed of the views that the screen tracks ([prev]), that urwid's screen buffer
    holds ([sbv]) and of the canvas handed over ([V]): as [wf_redraw]; the canvases the screen
    and urwid still refer to keep their widgets alive, so all these views belong to LIVE
    widgets (distinct non-zero z-indexes: [z_distinct_in_range]) *)
Record wf_adraw (sbv prev V : list view) : Prop := {
  wa_tracked : forall v, In v (sbv ++ prev ++ V) -> tracked konsole (v_canv v) = true;
  wa_kind : forall v, In v (sbv ++ prev ++ V) -> is_kitty (v_kind v) = kittyw (v_wid v);
  wa_z : forall v1 v2, In v1 (sbv ++ prev ++ V) -> In v2 (sbv ++ prev ++ V) ->
         is_kitty (v_kind v1) = true -> is_kitty (v_kind v2) = true ->
         (v_wid v1 = v_wid v2 <-> kind_z (v_kind v1) = kind_z (v_kind v2));
  wa_znz : forall v, In v (sbv ++ prev ++ V) -> is_kitty (v_kind v) = true -> kind_z (v_kind v) <> 0%Z;
  wa_rows : forall p, In p (plcs_of V) -> In (p_r p) ys;
  wa_disj : forall p q, In p (plcs_of V) -> In q (plcs_of V) -> p <> q -> covers p (p_r q) (p_c q) = false
}.

Lemma in_all_sbv : forall (sbv prev V : list view) v, In v sbv -> In v (sbv ++ prev ++ V).
Proof. intros. apply in_or_app. now left. Qed.
Lemma in_all_prev : forall (sbv prev V : list view) v, In v prev -> In v (sbv ++ prev ++ V).
Proof. intros. apply in_or_app. right. apply in_or_app. now left. Qed.
Lemma in_all_V : forall (sbv prev V : list view) v, In v V -> In v (sbv ++ prev ++ V).
Proof. intros. apply in_or_app. right. apply in_or_app. now right. Qed.

(** *** a redraw that reaches the terminal *)

Lemma step_redraw_agood : forall sbv w V base,
  agood sbv w -> wf_adraw sbv (s_prev (w_scr w)) V -> count_ok w V ->
  good (step w (ORedraw V base))
  /\ s_prev (w_scr (step w (ORedraw V base))) = V
  /\ w_queue (step w (ORedraw V base)) = []
  /\ same_plcs (t_plcs (w_term (step w (ORedraw V base)))) (plcs_of V).
Proof.
  intros sbv [s sb t q bs nall nw] V base G Hwf Hcnt.
  unfold agood in G. cbn [w_scr w_sb w_term w_queue w_bs w_nall w_nw] in G.
  destruct G as [Gnk [Glt [Gc [Gw [Gq [Gsub Gsb]]]]]].
  cbn [w_scr] in Hwf. destruct Hwf as [Wt Wk Wz Wnz Wr Wd].
  unfold count_ok in Hcnt. cbn [w_sb] in Hcnt.
  unfold ScreenUrwid.step. cbn [w_scr w_sb w_term w_queue w_bs w_nall w_nw].
  pose proof (update_views_cases V s) as Hc.
  set (dels := fst (update_views true V s)) in *.
  set (s1 := snd (update_views true V s)) in *.
  assert (Hprev1 : s_prev s1 = V) by (inversion Hc; reflexivity).
  set (new := render_row s1 V base).
  set (tq := pexec konsole t q).
  set (t0 := pexec konsole tq [KSyncB]).
  set (t1 := pexec konsole t0 dels).
  assert (Hnewok : forall y, In y ys -> Forall item_ok (snd (new y))).
  { intros y _. unfold new, ScreenUrwid.render_row, ScreenUrwid.row_items. simpl.
    apply Forall_forall. intros it Hit. apply filter_In in Hit. destruct Hit as [Hit _].
    pose proof (items_of_ok s1 V) as F. rewrite Forall_forall in F. apply F; [|exact Hit].
    intros v Hv. apply Wt. apply in_all_V. exact Hv. }
  assert (Hterm : t_plcs (pexec konsole t (q ++ [KSyncB] ++ dels ++ urwid_draw sb new ++ [KSyncE]))
                  = fold_left (fun T it => item_apply it T) (resent_items sb new ys) (t_plcs t1)).
  { rewrite pexec_app. fold tq. rewrite pexec_app. fold t0. rewrite pexec_app. fold t1. rewrite pexec_app.
    unfold ScreenUrwid.urwid_draw. destruct (draw_exec sb new ys t1 Hnewok) as [E1 _].
    simpl. exact E1. }
  assert (Ht0 : t_plcs t0 = t_plcs tq) by reflexivity.
  (* the ghost view of this redraw's own disguise changes *)
  set (a := redraw_nall V (mk_world s sb t q bs nall nw)).
  set (b := redraw_nw V (mk_world s sb t q bs nall nw)).
  assert (Hlt1 : lt3 s1 /\ s_cdis s1 = Nat.iter a bump1 (s_cdis bs)
                 /\ (forall wd, wdis_get wd (s_wdis s1) = Nat.iter (b wd) bump1 (wdis_get wd (s_wdis bs)))
                 /\ (forall wd, kittyw wd = false -> b wd = 0)).
  { destruct Glt as [Glc Glw].
    assert (Hcd : s_cdis s1 = Nat.iter a bump1 (s_cdis bs)).
    { unfold a, redraw_nall. cbn [w_scr w_nall].
      inversion Hc as [Hd Hca E1 E2|Hd Hca E1 E2|ks Hallk Hnd Hks Hcov Hca E1 E2]; rewrite Hca; simpl; rewrite Gc; reflexivity. }
    assert (Hwd : forall wd, wdis_get wd (s_wdis s1) = Nat.iter (b wd) bump1 (wdis_get wd (s_wdis bs))).
    { intro wd. unfold b, redraw_nw. cbn [w_scr w_nw].
      inversion Hc as [Hd Hca E1 E2|Hd Hca E1 E2|ks Hallk Hnd Hks Hcov Hca E1 E2]; rewrite Hca; simpl.
      - unfold vanished. rewrite Hd. simpl. rewrite Nat.add_0_r. apply Gw.
      - rewrite Nat.add_0_r. apply Gw.
      - rewrite wdis_fold_bump by exact Hnd. rewrite Gw.
        destruct (in_dec Nat.eq_dec wd (map fst ks)) as [Hin|Hni].
        + assert (Hex : existsb (fun v => Nat.eqb (v_wid v) wd) (vanished V s) = true).
          { apply in_map_iff in Hin. destruct Hin as [x [Hx1 Hx2]].
            destruct (Hks x Hx2) as [_ [v [Hv1 [Hv2 ->]]]]. simpl in Hx1.
            apply existsb_exists. exists v. split; [apply In_vanished; auto|apply Nat.eqb_eq; exact Hx1]. }
          rewrite Hex. replace (wdis_get wd nw + 1) with (S (wdis_get wd nw)) by lia. reflexivity.
        + assert (Hex : existsb (fun v => Nat.eqb (v_wid v) wd) (vanished V s) = false).
          { destruct (existsb (fun v => Nat.eqb (v_wid v) wd) (vanished V s)) eqn:E; [|reflexivity].
            exfalso. apply Hni. apply existsb_exists in E. destruct E as [v [Hv E]].
            apply Nat.eqb_eq in E. subst wd. apply In_vanished in Hv. apply Hcov; tauto. }
          rewrite Hex. rewrite Nat.add_0_r. reflexivity. }
    split; [|split; [exact Hcd|split; [exact Hwd|]]].
    - split; [rewrite Hcd; apply iter_bump_lt3; exact Glc|intro wd; rewrite Hwd; apply iter_bump_lt3; apply Glw].
    - intros wd Hk. destruct (Gnk wd Hk) as [_ [N0 B0]].
      unfold b, redraw_nw. cbn [w_scr w_nw]. rewrite N0.
      destruct (negb (clears_all V s) && existsb (fun v => Nat.eqb (v_wid v) wd) (vanished V s)) eqn:E; [|reflexivity].
      exfalso. apply andb_true_iff in E. destruct E as [E1 E2]. apply negb_true_iff in E1.
      apply existsb_exists in E2. destruct E2 as [v [Hv E2]]. apply Nat.eqb_eq in E2. subst wd.
      assert (Hkv : is_kitty (v_kind v) = true).
      { destruct (is_kitty (v_kind v)) eqn:Ek; [reflexivity|]. exfalso.
        assert (clears_all V s = true).
        { unfold clears_all. apply existsb_exists. exists v. rewrite Ek. auto. } congruence. }
      apply In_vanished in Hv. rewrite (Wk v) in Hkv by (apply in_all_prev; tauto). congruence. }
  destruct Hlt1 as [Hlt1 [Hcd1 [Hwd1 Hnk1]]].
  (* what the deletes of this redraw leave *)
  assert (Htq : forall p, In p (t_plcs tq) -> exists v, In v (s_prev s) /\ In p (view_plcs v)).
  { intros p Hp. apply In_plcs_of. apply Gsub. exact Hp. }
  assert (Hmain : same_plcs (fold_left (fun T it => item_apply it T) (resent_items sb new ys) (t_plcs t1)) (plcs_of V)).
  { intro p. split.
    - (* nothing else is on the terminal *)
      intro Hin. apply fold_apply_sub in Hin. destruct Hin as [Hin|Hin].
      + unfold t1 in Hin.
        inversion Hc as [Hd Hca E1 E2|Hd Hca E1 E2|ks Hallk Hnd Hks Hcov Hca E1 E2].
        * rewrite <- E1 in Hin. change (In p (t_plcs tq)) in Hin.
          destruct (Htq p Hin) as [v [Hv Hpv]]. apply In_plcs_of. exists v. split; [|exact Hpv].
          destruct (view_mem v V) eqn:Em; [apply view_mem_In; exact Em|].
          exfalso. assert (Hf : In v (filter (fun v => negb (view_mem v V)) (s_prev s))).
          { apply filter_In. rewrite Em. auto. } rewrite Hd in Hf. destruct Hf.
        * rewrite <- E1 in Hin. simpl in Hin. destruct Hin.
        * rewrite <- E1 in Hin.
          destruct (delz_exec (map (fun x => kind_z (snd x)) ks) t0) as [Ez _].
          apply Ez in Hin. destruct Hin as [Hin Hnz]. rewrite Ht0 in Hin.
          destruct (Htq p Hin) as [v [Hv Hpv]]. apply In_plcs_of. exists v. split; [|exact Hpv].
          destruct (view_mem v V) eqn:Em; [apply view_mem_In; exact Em|].
          exfalso. assert (Hnv : ~ In v V) by (intro Hi; apply In_view_mem in Hi; congruence).
          apply Hnz. specialize (Hcov v Hv Hnv). apply in_map_iff in Hcov.
          destruct Hcov as [x [Hx1 Hx2]]. apply in_map_iff. exists x. split; [|exact Hx2].
          destruct (Hks x Hx2) as [Hkx [v2 [Hv2 [Hnv2 ->]]]]. simpl in *.
          destruct (view_plcs_z v p Hpv) as [-> _]. symmetry.
          apply (Wz v v2); try (apply in_all_prev; assumption); auto.
      + apply in_map_iff in Hin. destruct Hin as [it [<- Hit]].
        apply resent_items_In in Hit. destruct Hit as [y [Hy [_ Hit]]].
        unfold new, ScreenUrwid.render_row in Hit. simpl in Hit. apply In_ys_filter in Hit.
        destruct Hit as [Hit _]. apply In_items_of in Hit. destruct Hit as [v [Hv [Hp _]]].
        apply In_plcs_of. exists v. auto.
    - (* every image line of the canvas is on the terminal *)
      intro Hp. pose proof (Wr p Hp) as Hy.
      apply In_plcs_of in Hp as Hp'. destruct Hp' as [v' [Hv' Hpv']].
      set (it := mk_item p (is_kitty (v_kind v')) (dsum s1 (v_wid v'))).
      assert (Hit : In it (snd (new (p_r p)))).
      { unfold new, ScreenUrwid.render_row. simpl. apply In_ys_filter. split; [|reflexivity].
        apply In_items_of. exists v'. simpl. auto. }
      destruct (resend sb new (p_r p)) eqn:Er.
      + apply fold_apply_placed.
        * apply in_map_iff. exists it. split; [reflexivity|]. apply resent_items_In. exists (p_r p). auto.
        * intros it' Hit' Hne. apply resent_items_In in Hit'. destruct Hit' as [y [_ [_ Hit']]].
          unfold new, ScreenUrwid.render_row in Hit'. simpl in Hit'. apply In_ys_filter in Hit'.
          destruct Hit' as [Hit' _]. apply In_items_of in Hit'. destruct Hit' as [v2 [Hv2 [Hp2 _]]].
          apply Wd; [exact Hp| |congruence]. apply In_plcs_of. exists v2. auto.
      + (* its row is not written: the bytes are those of the screen buffer, so no disguise
           change hit the line, so nothing deleted it *)
        pose proof Er as Er0.
        destruct sb as [sbf|]; [|discriminate]. simpl in Er. apply negb_false_iff in Er.
        apply row_eqb_items in Er. destruct Gsb as [[base0 Hrows] Hon].
        rewrite Hrows in Er. unfold ScreenUrwid.render_row in Er. simpl in Er.
        assert (Hold : In it (row_items bs sbv (p_r p))).
        { rewrite Er. unfold new, ScreenUrwid.render_row in Hit. exact Hit. }
        apply In_ys_filter in Hold. destruct Hold as [Hold _]. apply In_items_of in Hold.
        destruct Hold as [v [Hv [Hpv [Hkv Hdv]]]]. simpl in Hpv, Hkv, Hdv.
        assert (Hzv : kind_z (v_kind v) = kind_z (v_kind v')).
        { destruct (view_plcs_z v p Hpv) as [<- _]. destruct (view_plcs_z v' p Hpv') as [E _]. exact E. }
        assert (HIv : In v (sbv ++ s_prev s ++ V)) by (apply in_all_sbv; exact Hv).
        assert (HIv' : In v' (sbv ++ s_prev s ++ V)) by (apply in_all_V; exact Hv').
        specialize (Hcnt ltac:(discriminate) v' Hv'). fold a in Hcnt. fold b in Hcnt.
        destruct Glt as [Glc Glw].
        (* no change at all *)
        assert (Hzero : a = 0 /\ b (v_wid v') = 0 /\ (is_kitty (v_kind v') = true -> v_wid v = v_wid v')).
        { unfold dsum in Hdv. rewrite Hcd1, Hwd1 in Hdv.
          destruct (is_kitty (v_kind v')) eqn:Ek.
          - assert (Ew : v_wid v = v_wid v') by (apply (Wz v v'); auto; congruence).
            rewrite Ew in Hdv.
            destruct (Nat.eq_dec (a + b (v_wid v')) 0) as [E0|Hne]; [split; [lia|split; [lia|auto]]|].
            exfalso. revert Hdv. apply sum_changes; auto; lia.
          - assert (Kv : kittyw (v_wid v) = false) by (rewrite <- (Wk v HIv); congruence).
            assert (Kv' : kittyw (v_wid v') = false) by (rewrite <- (Wk v' HIv'); exact Ek).
            destruct (Gnk _ Kv) as [_ [_ B0]]. destruct (Gnk _ Kv') as [_ [N0' B0']].
            rewrite B0, B0' in Hdv.
            assert (Hb0 : b (v_wid v') = 0) by (apply Hnk1; exact Kv').
            rewrite Hb0 in Hdv. simpl in Hdv.
            destruct (Nat.eq_dec a 0) as [E0|Hne]; [split; [exact E0|split; [exact Hb0|discriminate]]|].
            exfalso. rewrite Hb0 in Hcnt.
            assert (S0 : Nat.iter a bump1 (s_cdis bs) + Nat.iter 0 bump1 0 <> s_cdis bs + 0).
            { apply sum_changes; auto; lia. }
            simpl in S0. lia. }
        destruct Hzero as [Ha [Hb Hwid]].
        assert (Hnall : nall = 0 /\ clears_all V s = false).
        { unfold a, redraw_nall in Ha. cbn [w_scr w_nall] in Ha.
          destruct (clears_all V s); [discriminate|]. auto. }
        destruct Hnall as [Hn0 Hca].
        assert (Hin0 : In p (t_plcs tq)).
        { destruct (Hon v p Hv Hpv) as [Hf|[Hf|[Hk Hf]]].
          - exact Hf.
          - cbn [w_nall] in Hf. lia.
          - cbn [w_nw] in Hf. exfalso. rewrite <- Hkv in Hk. simpl in Hk.
            specialize (Hwid Hk). unfold b, redraw_nw in Hb. cbn [w_nw] in Hb. rewrite <- Hwid in Hb. lia. }
        assert (Hin1 : In p (t_plcs t1)).
        { unfold t1. inversion Hc as [Hd Hca' E1 E2|Hd Hca' E1 E2|ks Hallk Hnd Hks Hcov Hca' E1 E2].
          - exact Hin0.
          - congruence.
          - destruct (delz_exec (map (fun x => kind_z (snd x)) ks) t0) as [Ez _].
            apply Ez. rewrite Ht0. split; [exact Hin0|].
            intro Hz. apply in_map_iff in Hz. destruct Hz as [x [Hx1 Hx2]].
            destruct (Hks x Hx2) as [Hkx [v2 [Hv2 [Hnv2 ->]]]]. simpl in Hx1, Hkx.
            destruct (view_plcs_z v' p Hpv') as [Ezp _]. rewrite Ezp in Hx1.
            assert (HIv2 : In v2 (sbv ++ s_prev s ++ V)) by (apply in_all_prev; exact Hv2).
            destruct (is_kitty (v_kind v')) eqn:Ek.
            + assert (Ew2 : v_wid v2 = v_wid v') by (apply (Wz v2 v'); auto).
              unfold b, redraw_nw in Hb. cbn [w_scr w_nw] in Hb. rewrite Hca in Hb. simpl in Hb.
              assert (Hex : existsb (fun v => Nat.eqb (v_wid v) (v_wid v')) (vanished V s) = true).
              { apply existsb_exists. exists v2. split; [apply In_vanished; auto|apply Nat.eqb_eq; exact Ew2]. }
              rewrite Hex in Hb. lia.
            + destruct (tracked_kind v' (Wt v' HIv')) as [Hy'|[_ [Hi' _]]]; [congruence|].
              rewrite Hi' in Hx1. simpl in Hx1. apply (Wnz v2 HIv2 Hkx). exact Hx1. }
        apply fold_apply_keep; [exact Hin1|].
        intros it' Hit'. apply resent_items_In in Hit'. destruct Hit' as [y [_ [Hry Hit']]].
        unfold new, ScreenUrwid.render_row in Hit'. simpl in Hit'. apply In_ys_filter in Hit'.
        destruct Hit' as [Hit' Hrow']. apply In_items_of in Hit'. destruct Hit' as [v2 [Hv2 [Hp2 _]]].
        destruct (plc_eq_dec (i_plc it') p) as [Ep|Hnp].
        * exfalso. rewrite Ep in Hrow'. subst y. congruence.
        * apply Wd; [exact Hp| |congruence]. apply In_plcs_of. exists v2. auto. }
  rewrite <- Hterm in Hmain.
  split; [|split; [exact Hprev1|split; [reflexivity|exact Hmain]]].
  unfold good. cbn [w_scr w_sb w_term w_queue w_bs w_nall w_nw].
  split; [|split; [exact Hlt1|split; [reflexivity|split; [intro; reflexivity|split; [reflexivity|split]]]]].
  - intros wd Hk. destruct (Gnk wd Hk) as [_ [_ B0]].
    assert (Z1 : wdis_get wd (s_wdis s1) = 0) by (rewrite Hwd1, (Hnk1 wd Hk), B0; reflexivity).
    split; [exact Z1|split; [reflexivity|exact Z1]].
  - intros p Hp. rewrite Hprev1. apply Hmain. unfold ScreenUrwid.flushed in Hp. simpl in Hp. exact Hp.
  - split; [exists base; intro y; rewrite Hprev1; reflexivity|].
    intros v p Hv Hpv. left. unfold ScreenUrwid.flushed. simpl. apply Hmain. rewrite Hprev1 in Hv.
    apply In_plcs_of. exists v. auto.
Qed.

(** *** a redraw that is NOT drawn: the bookkeeping runs, urwid's screen buffer stays *)

Notation step_abort := (step_abort konsole true).

Lemma cnt_dedup : forall wd (ws : list (nat * wkind)),
  cnt wd (dedup_w ws) = if in_dec Nat.eq_dec wd (map fst ws) then 1 else 0.
Proof.
  intros wd ws. pose proof (dedup_w_nodup ws) as Hnd. pose proof (cnt_nodup_le1 wd _ Hnd) as Hle.
  destruct (in_dec Nat.eq_dec wd (map fst ws)) as [Hin|Hni].
  - apply dedup_w_fst in Hin. apply cnt_pos_In in Hin. lia.
  - destruct (cnt wd (dedup_w ws)) eqn:E; [reflexivity|]. exfalso. apply Hni. apply dedup_w_fst. apply cnt_pos_In. lia.
Qed.

Lemma abort_nw_get : forall V w wd,
  wdis_get wd (abort_nw V w) = redraw_nw V w wd.
Proof.
  intros V w wd. unfold abort_nw, redraw_nw. destruct (clears_all V (w_scr w)) eqn:Ec; simpl; [lia|].
  rewrite cnt_fold_inc, cnt_dedup. f_equal.
  destruct (in_dec Nat.eq_dec wd (map fst (map (fun v => (v_wid v, v_kind v)) (vanished V (w_scr w))))) as [Hin|Hni].
  - rewrite map_map in Hin. simpl in Hin. apply in_map_iff in Hin. destruct Hin as [v [E Hv]].
    assert (Hex : existsb (fun v => Nat.eqb (v_wid v) wd) (vanished V (w_scr w)) = true).
    { apply existsb_exists. exists v. split; [exact Hv|apply Nat.eqb_eq; exact E]. }
    rewrite Hex. reflexivity.
  - destruct (existsb (fun v => Nat.eqb (v_wid v) wd) (vanished V (w_scr w))) eqn:Hex; [|reflexivity].
    exfalso. apply Hni. apply existsb_exists in Hex. destruct Hex as [v [Hv E]]. apply Nat.eqb_eq in E.
    rewrite map_map. simpl. apply in_map_iff. exists v. auto.
Qed.

Lemma step_abort_agood : forall sbv w V,
  agood sbv w -> wf_adraw sbv (s_prev (w_scr w)) V ->
  agood sbv (step_abort w V)
  /\ s_prev (w_scr (step_abort w V)) = V
  /\ w_queue (step_abort w V) = []
  /\ w_sb (step_abort w V) = w_sb w
  /\ s_canv (w_scr (step_abort w V)) = s_canv (w_scr w).
Proof.
  intros sbv [s sb t q bs nall nw] V G Hwf.
  unfold agood in G. cbn [w_scr w_sb w_term w_queue w_bs w_nall w_nw] in G.
  destruct G as [Gnk [Glt [Gc [Gw [Gq [Gsub Gsb]]]]]].
  cbn [w_scr] in Hwf. destruct Hwf as [Wt Wk Wz Wnz Wr Wd].
  unfold ScreenAbort.step_abort. cbn [w_scr w_sb w_term w_queue w_bs w_nall w_nw].
  pose proof (update_views_cases V s) as Hc.
  set (dels := fst (update_views true V s)) in *.
  set (s1 := snd (update_views true V s)) in *.
  assert (Hprev1 : s_prev s1 = V) by (inversion Hc; reflexivity).
  assert (Hcanv1 : s_canv s1 = s_canv s) by (inversion Hc; reflexivity).
  set (tq := pexec konsole t q).
  set (t0 := pexec konsole tq [KSyncB]).
  set (t1 := pexec konsole t0 dels).
  set (W0 := mk_world s sb t q bs nall nw).
  assert (Hterm : t_plcs (pexec konsole t (q ++ [KSyncB] ++ dels ++ [KSyncE])) = t_plcs t1).
  { rewrite pexec_app. fold tq. rewrite pexec_app. fold t0. rewrite pexec_app. fold t1. reflexivity. }
  assert (Ht0 : t_plcs t0 = t_plcs tq) by reflexivity.
  set (a := redraw_nall V W0).
  set (b := redraw_nw V W0).
  assert (Htq : forall p, In p (t_plcs tq) -> exists v, In v (s_prev s) /\ In p (view_plcs v)).
  { intros p Hp. apply In_plcs_of. apply Gsub. exact Hp. }
  (* the disguise states after the bookkeeping, in terms of the ghost counters *)
  assert (Hcd : s_cdis s1 = Nat.iter a bump1 (s_cdis bs)).
  { unfold a, redraw_nall, W0. cbn [w_scr w_nall].
    inversion Hc as [Hd Hca E1 E2|Hd Hca E1 E2|ks Hallk Hnd Hks Hcov Hca E1 E2]; rewrite Hca; simpl; rewrite Gc; reflexivity. }
  assert (Hwd : forall wd, wdis_get wd (s_wdis s1) = Nat.iter (b wd) bump1 (wdis_get wd (s_wdis bs))).
  { intro wd. unfold b, redraw_nw, W0. cbn [w_scr w_nw].
    inversion Hc as [Hd Hca E1 E2|Hd Hca E1 E2|ks Hallk Hnd Hks Hcov Hca E1 E2]; rewrite Hca; simpl.
    - unfold vanished. rewrite Hd. simpl. rewrite Nat.add_0_r. apply Gw.
    - rewrite Nat.add_0_r. apply Gw.
    - rewrite wdis_fold_bump by exact Hnd. rewrite Gw.
      destruct (in_dec Nat.eq_dec wd (map fst ks)) as [Hin|Hni].
      + assert (Hex : existsb (fun v => Nat.eqb (v_wid v) wd) (vanished V s) = true).
        { apply in_map_iff in Hin. destruct Hin as [x [Hx1 Hx2]].
          destruct (Hks x Hx2) as [_ [v [Hv1 [Hv2 ->]]]]. simpl in Hx1.
          apply existsb_exists. exists v. split; [apply In_vanished; auto|apply Nat.eqb_eq; exact Hx1]. }
        rewrite Hex. replace (wdis_get wd nw + 1) with (S (wdis_get wd nw)) by lia. reflexivity.
      + assert (Hex : existsb (fun v => Nat.eqb (v_wid v) wd) (vanished V s) = false).
        { destruct (existsb (fun v => Nat.eqb (v_wid v) wd) (vanished V s)) eqn:E; [|reflexivity].
          exfalso. apply Hni. apply existsb_exists in E. destruct E as [v [Hv E]].
          apply Nat.eqb_eq in E. subst wd. apply In_vanished in Hv. apply Hcov; tauto. }
        rewrite Hex. rewrite Nat.add_0_r. reflexivity. }
  assert (Hnk1 : forall wd, kittyw wd = false -> b wd = 0).
  { intros wd Hk. destruct (Gnk wd Hk) as [_ [N0 B0]].
    unfold b, redraw_nw, W0. cbn [w_scr w_nw]. rewrite N0.
    destruct (negb (clears_all V s) && existsb (fun v => Nat.eqb (v_wid v) wd) (vanished V s)) eqn:E; [|reflexivity].
    exfalso. apply andb_true_iff in E. destruct E as [E1 E2]. apply negb_true_iff in E1.
    apply existsb_exists in E2. destruct E2 as [v [Hv E2]]. apply Nat.eqb_eq in E2. subst wd.
    assert (Hkv : is_kitty (v_kind v) = true).
    { destruct (is_kitty (v_kind v)) eqn:Ek; [reflexivity|]. exfalso.
      assert (clears_all V s = true).
      { unfold clears_all. apply existsb_exists. exists v. rewrite Ek. auto. } congruence. }
    apply In_vanished in Hv. rewrite (Wk v) in Hkv by (apply in_all_prev; tauto). congruence. }
  (* what the deletes leave: only lines of views that the new canvas has too *)
  assert (Hsub1 : forall p, In p (t_plcs t1) -> In p (plcs_of V)).
  { intros p Hin. unfold t1 in Hin.
    inversion Hc as [Hd Hca E1 E2|Hd Hca E1 E2|ks Hallk Hnd Hks Hcov Hca E1 E2].
    - rewrite <- E1 in Hin. change (In p (t_plcs tq)) in Hin.
      destruct (Htq p Hin) as [v [Hv Hpv]]. apply In_plcs_of. exists v. split; [|exact Hpv].
      destruct (view_mem v V) eqn:Em; [apply view_mem_In; exact Em|].
      exfalso. assert (Hf : In v (filter (fun v => negb (view_mem v V)) (s_prev s))).
      { apply filter_In. rewrite Em. auto. } rewrite Hd in Hf. destruct Hf.
    - rewrite <- E1 in Hin. simpl in Hin. destruct Hin.
    - rewrite <- E1 in Hin.
      destruct (delz_exec (map (fun x => kind_z (snd x)) ks) t0) as [Ez _].
      apply Ez in Hin. destruct Hin as [Hin Hnz]. rewrite Ht0 in Hin.
      destruct (Htq p Hin) as [v [Hv Hpv]]. apply In_plcs_of. exists v. split; [|exact Hpv].
      destruct (view_mem v V) eqn:Em; [apply view_mem_In; exact Em|].
      exfalso. assert (Hnv : ~ In v V) by (intro Hi; apply In_view_mem in Hi; congruence).
      apply Hnz. specialize (Hcov v Hv Hnv). apply in_map_iff in Hcov.
      destruct Hcov as [x [Hx1 Hx2]]. apply in_map_iff. exists x. split; [|exact Hx2].
      destruct (Hks x Hx2) as [Hkx [v2 [Hv2 [Hnv2 ->]]]]. simpl in *.
      destruct (view_plcs_z v p Hpv) as [-> _]. symmetry.
      apply (Wz v v2); try (apply in_all_prev; assumption); auto. }
  split; [|split; [exact Hprev1|split; [reflexivity|split; [reflexivity|exact Hcanv1]]]].
  unfold agood. cbn [w_scr w_sb w_term w_queue w_bs w_nall w_nw].
  fold W0. fold a.
  split; [|split; [exact Glt|split; [exact Hcd|split; [|split; [reflexivity|split]]]]].
  - intros wd Hk. destruct (Gnk wd Hk) as [_ [_ B0]].
    rewrite abort_nw_get. fold b. rewrite Hwd, (Hnk1 wd Hk), B0. simpl. auto.
  - intro wd. rewrite abort_nw_get. fold b. apply Hwd.
  - intros p Hp. rewrite Hprev1. apply Hsub1. unfold ScreenUrwid.flushed in Hp. cbn [w_term w_queue] in Hp.
    change (pexec konsole (pexec konsole t (q ++ [KSyncB] ++ dels ++ [KSyncE])) []) with (pexec konsole t (q ++ [KSyncB] ++ dels ++ [KSyncE])) in Hp.
    rewrite Hterm in Hp. exact Hp.
  - destruct sb as [sbf|]; [|exact I]. destruct Gsb as [Hb Hon]. split; [exact Hb|].
    intros v p Hv Hpv.
    assert (Hfl : forall p0, In p0 (t_plcs (flushed (mk_world s1 (Some sbf) (pexec konsole t (q ++ [KSyncB] ++ dels ++ [KSyncE])) [] bs a (abort_nw V W0))))
                              <-> In p0 (t_plcs t1)).
    { intro p0. unfold ScreenUrwid.flushed. cbn [w_term w_queue].
      change (pexec konsole (pexec konsole t (q ++ [KSyncB] ++ dels ++ [KSyncE])) []) with (pexec konsole t (q ++ [KSyncB] ++ dels ++ [KSyncE])).
      rewrite Hterm. tauto. }
    rewrite Hfl. rewrite abort_nw_get. fold b.
    assert (HIv : In v (sbv ++ s_prev s ++ V)) by (apply in_all_sbv; exact Hv).
    destruct (Hon v p Hv Hpv) as [Hf|[Hf|[Hk Hf]]].
    + (* it was on the terminal: it still is, unless this bookkeeping deleted it *)
      change (In p (t_plcs tq)) in Hf.
      unfold t1. inversion Hc as [Hd Hca E1 E2|Hd Hca E1 E2|ks Hallk Hnd Hks Hcov Hca E1 E2].
      * left. exact Hf.
      * right. left. unfold a, redraw_nall, W0. cbn [w_scr w_nall]. rewrite Hca. lia.
      * destruct (in_dec Z.eq_dec (p_z p) (map (fun x : nat * wkind => kind_z (snd x)) ks)) as [Hz|Hz].
        -- right. right. apply in_map_iff in Hz. destruct Hz as [x [Hx1 Hx2]].
           destruct (Hks x Hx2) as [Hkx [v2 [Hv2 [Hnv2 ->]]]]. simpl in Hx1, Hkx.
           destruct (view_plcs_z v p Hpv) as [Ezp _]. rewrite Ezp in Hx1.
           assert (HIv2 : In v2 (sbv ++ s_prev s ++ V)) by (apply in_all_prev; exact Hv2).
           assert (Hkv : is_kitty (v_kind v) = true).
           { destruct (tracked_kind v (Wt v HIv)) as [Hy|[_ [Hi _]]]; [exact Hy|].
             exfalso. rewrite Hi in Hx1. simpl in Hx1. apply (Wnz v2 HIv2 Hkx). exact Hx1. }
           split; [exact Hkv|].
           assert (Ew : v_wid v2 = v_wid v) by (apply (Wz v2 v); auto).
           unfold b, redraw_nw, W0. cbn [w_scr w_nw]. rewrite Hca. simpl.
           assert (Hex : existsb (fun v0 => Nat.eqb (v_wid v0) (v_wid v)) (vanished V s) = true).
           { apply existsb_exists. exists v2. split; [apply In_vanished; auto|apply Nat.eqb_eq; exact Ew]. }
           rewrite Hex. lia.
        -- left. destruct (delz_exec (map (fun x => kind_z (snd x)) ks) t0) as [Ez _].
           apply Ez. rewrite Ht0. split; [exact Hf|exact Hz].
    + right. left. cbn [w_nall] in Hf. unfold a, redraw_nall, W0. cbn [w_scr w_nall].
      destruct (clears_all V s); lia.
    + right. right. split; [exact Hk|]. cbn [w_nw] in Hf. unfold b, redraw_nw, W0. cbn [w_scr w_nw]. lia.
Qed.

(** *** clear(), the public clear_images(), SIGWINCH *)

Lemma step_clear_agood : forall sbv w, agood sbv w ->
  agood sbv (step w OClear) /\ w_sb (step w OClear) = None
  /\ s_prev (w_scr (step w OClear)) = s_prev (w_scr w) /\ s_canv (w_scr (step w OClear)) = s_canv (w_scr w).
Proof.
  intros sbv [s sb t q bs nall nw] G. unfold agood in G. cbn [w_scr w_sb w_term w_queue w_bs w_nall w_nw] in G.
  destruct G as [Gnk [Glt [Gc [Gw [Gq [Gsub Gsb]]]]]].
  unfold ScreenUrwid.step, clear_stream, clear_images_all. cbn [fst snd w_scr w_queue w_term w_nall w_nw w_bs w_sb s_prev s_canv].
  assert (Hq : forallb bigdel (q ++ [KDel DelAll]) = true) by (rewrite forallb_app, Gq; reflexivity).
  assert (He : t_plcs (pexec konsole t (q ++ [KDel DelAll])) = []) by (rewrite pexec_app; reflexivity).
  split; [|auto].
  unfold agood. cbn [w_scr w_sb w_term w_queue w_bs w_nall w_nw s_prev s_cdis s_wdis].
  repeat split; auto.
  - apply Gnk; assumption.
  - apply Gnk; assumption.
  - apply Gnk; assumption.
  - apply Glt.
  - apply Glt.
  - simpl. rewrite Gc. reflexivity.
  - intros p Hp. unfold ScreenUrwid.flushed in Hp. cbn [w_term w_queue] in Hp. rewrite He in Hp. destruct Hp.
Qed.

(** the arguments of a public clear_images(widgets...) call: live widgets, consistent with the
    views the screen tracks and with those of urwid's screen buffer *)
Record wf_aapi (sbv prev : list view) (ws : list (nat * wkind)) : Prop := {
  wx_kind : forall x, In x ws -> is_kitty (snd x) = kittyw (fst x);
  wx_znz : forall x, In x ws -> is_kitty (snd x) = true -> kind_z (snd x) <> 0%Z;
  wx_z : forall x v, In x ws -> In v (sbv ++ prev) -> is_kitty (snd x) = true -> is_kitty (v_kind v) = true ->
         (v_wid v = fst x <-> kind_z (v_kind v) = kind_z (snd x));
  wx_tracked : forall v, In v (sbv ++ prev) -> tracked konsole (v_canv v) = true
}.

Lemma step_api_agood : forall sbv w ws now,
  agood sbv w -> wf_aapi sbv (s_prev (w_scr w)) ws -> agood sbv (step w (OApi ws now)).
Proof.
  intros sbv [s sb t q bs nall nw] ws now G Ha. unfold agood in G.
  cbn [w_scr w_sb w_term w_queue w_bs w_nall w_nw] in G, Ha.
  destruct G as [Gnk [Glt [Gc [Gw [Gq [Gsub Gsb]]]]]]. destruct Ha as [Ak Anz Az At].
  unfold ScreenUrwid.step, api_clear_images. cbn [w_scr w_sb w_term w_queue w_bs w_nall w_nw].
  destruct ws as [|x0 ws0].
  - (* everything *)
    unfold clear_images_all. cbn [fst snd].
    assert (Hfl : t_plcs (pexec konsole (pexec konsole t (fst (if now then ([KDel DelAll], @nil stok) else ([], [KDel DelAll]))))
                                (q ++ snd (if now then ([KDel DelAll], @nil stok) else ([], [KDel DelAll])))) = []).
    { destruct now; simpl fst; simpl snd.
      - rewrite app_nil_r. destruct (t_plcs (pexec konsole (pexec konsole t [KDel DelAll]) q)) as [|p0 l] eqn:E; [reflexivity|].
        exfalso. assert (Hin : In p0 (t_plcs (pexec konsole (pexec konsole t [KDel DelAll]) q))) by (rewrite E; now left).
        apply (bigdels_exec q _ Gq) in Hin. destruct Hin as [Hin _]. destruct Hin.
      - rewrite pexec_app. reflexivity. }
    unfold agood. cbn [w_scr w_sb w_term w_queue w_bs w_nall w_nw].
    destruct now; cbn [fst snd s_prev s_cdis s_wdis] in *.
    + repeat split; auto; try (apply Gnk; assumption); try apply Glt.
      * rewrite Gc. reflexivity.
      * rewrite app_nil_r. exact Gq.
      * intros p Hp. unfold ScreenUrwid.flushed in Hp. cbn [w_term w_queue] in Hp. rewrite Hfl in Hp. destruct Hp.
      * destruct sb as [sbf|]; [|exact I]. destruct Gsb as [Hb _]. split; [exact Hb|].
        intros v p Hv Hpv. right. left. cbn [w_nall]. lia.
    + repeat split; auto; try (apply Gnk; assumption); try apply Glt.
      * rewrite Gc. reflexivity.
      * rewrite forallb_app, Gq. reflexivity.
      * intros p Hp. unfold ScreenUrwid.flushed in Hp. cbn [w_term w_queue] in Hp.
        rewrite Hfl in Hp. destruct Hp.
      * destruct sb as [sbf|]; [|exact I]. destruct Gsb as [Hb _]. split; [exact Hb|].
        intros v p Hv Hpv. right. left. cbn [w_nall]. lia.
  - (* the kitty widgets among the arguments *)
    set (ws := x0 :: ws0) in *. unfold clear_images_widgets.
    set (ks := filter (fun w => is_kitty (snd w)) ws).
    set (dz := map (fun w : nat * wkind => KDel (DelZ (kind_z (snd w)))) ks).
    assert (Hdz : dz = map (fun z => KDel (DelZ z)) (map (fun x : nat * wkind => kind_z (snd x)) ks)).
    { unfold dz. rewrite map_map. reflexivity. }
    assert (Hks : forall x, In x ks -> In x ws /\ is_kitty (snd x) = true).
    { intros x Hx. unfold ks in Hx. apply filter_In in Hx. exact Hx. }
    (* placements once flushed: those that survive the new deletes too *)
    assert (Hfl : forall p, In p (t_plcs (pexec konsole (pexec konsole t (fst (if now then (dz, @nil stok) else ([], dz))))
                                                (q ++ snd (if now then (dz, @nil stok) else ([], dz)))))
                            <-> In p (t_plcs (pexec konsole t q)) /\ ~ In (p_z p) (map (fun x : nat * wkind => kind_z (snd x)) ks)).
    { intro p. assert (Bd : forallb bigdel dz = true) by (rewrite Hdz; apply bigdel_map_delz).
      destruct now; simpl fst; simpl snd.
      - rewrite app_nil_r. rewrite (bigdels_exec q _ Gq). rewrite (bigdels_exec dz _ Bd).
        rewrite (bigdels_exec q _ Gq). rewrite Hdz, survives_delz. tauto.
      - change (pexec konsole t []) with t. rewrite pexec_app. rewrite (bigdels_exec dz _ Bd).
        rewrite Hdz, survives_delz. tauto. }
    unfold agood. cbn [w_scr w_sb w_term w_queue w_bs w_nall w_nw].
    assert (Hgoal :
      (forall wd, kittyw wd = false ->
         wdis_get wd (fold_left (fun l w => wdis_bump (fst w) l) ks (s_wdis s)) = 0
         /\ wdis_get wd (fold_left (fun l x => cnt_inc (fst x) l) ks nw) = 0 /\ wdis_get wd (s_wdis bs) = 0)
      /\ (forall wd, wdis_get wd (fold_left (fun l w => wdis_bump (fst w) l) ks (s_wdis s))
                     = Nat.iter (wdis_get wd (fold_left (fun l x => cnt_inc (fst x) l) ks nw)) bump1 (wdis_get wd (s_wdis bs)))).
    { split.
      - intros wd Hk. destruct (Gnk wd Hk) as [S0 [N0 B0]].
        assert (C0 : cnt wd ks = 0).
        { destruct (cnt wd ks) eqn:E; [reflexivity|]. exfalso.
          assert (Hin : In wd (map fst ks)) by (apply cnt_pos_In; lia).
          apply in_map_iff in Hin. destruct Hin as [x [Hx1 Hx2]]. destruct (Hks x Hx2) as [Hxw Hxk].
          rewrite (Ak x Hxw), Hx1 in Hxk. congruence. }
        rewrite wdis_fold_bump_cnt, cnt_fold_inc, C0, S0, N0. simpl. auto.
      - intro wd. rewrite wdis_fold_bump_cnt, cnt_fold_inc, Gw. rewrite Nat.add_comm. rewrite iter_plus. reflexivity. }
    destruct Hgoal as [Hg1 Hg2].
    cbn [fst snd s_prev s_cdis s_wdis].
    assert (Hq' : forallb bigdel (q ++ snd (if now then (dz, @nil stok) else ([], dz))) = true).
    { destruct now; simpl snd; [rewrite app_nil_r; exact Gq|].
      rewrite forallb_app, Gq, Hdz. simpl. apply bigdel_map_delz. }
    destruct now; cbn [fst snd] in *.
    + split; [exact Hg1|split; [exact Glt|split; [exact Gc|split; [exact Hg2|split; [exact Hq'|split]]]]].
      * intros p Hp. unfold ScreenUrwid.flushed in Hp. cbn [w_term w_queue] in Hp. apply Hfl in Hp.
        apply Gsub. unfold ScreenUrwid.flushed. cbn [w_term w_queue]. tauto.
      * destruct sb as [sbf|]; [|exact I]. destruct Gsb as [Hb Hon]. split; [exact Hb|].
        intros v p Hv Hpv. pose proof (in_or_app sbv (s_prev s) v (or_introl Hv)) as HIv.
        destruct (Hon v p Hv Hpv) as [Hf|[Hf|[Hk Hf]]].
        -- destruct (in_dec Z.eq_dec (p_z p) (map (fun x : nat * wkind => kind_z (snd x)) ks)) as [Hz|Hz].
           ++ right. right. apply in_map_iff in Hz. destruct Hz as [x [Hx1 Hx2]]. destruct (Hks x Hx2) as [Hxw Hxk].
              destruct (view_plcs_z v p Hpv) as [Ezp _]. rewrite Ezp in Hx1.
              assert (Hkv : is_kitty (v_kind v) = true).
              { destruct (tracked_kind v (At v HIv)) as [Hy|[_ [Hi _]]]; [exact Hy|].
                exfalso. rewrite Hi in Hx1. simpl in Hx1. apply (Anz x Hxw Hxk). exact Hx1. }
              split; [exact Hkv|]. cbn [w_nw]. rewrite cnt_fold_inc.
              assert (0 < cnt (v_wid v) ks); [|lia]. apply cnt_pos_In. apply in_map_iff. exists x. split; [|exact Hx2].
              symmetry. apply (Az x v); auto.
           ++ left. unfold ScreenUrwid.flushed. cbn [w_term w_queue]. apply Hfl. split; [exact Hf|exact Hz].
        -- right. left. exact Hf.
        -- right. right. split; [exact Hk|]. cbn [w_nw] in *. rewrite cnt_fold_inc. lia.
    + split; [exact Hg1|split; [exact Glt|split; [exact Gc|split; [exact Hg2|split; [exact Hq'|split]]]]].
      * intros p Hp. unfold ScreenUrwid.flushed in Hp. cbn [w_term w_queue] in Hp. apply Hfl in Hp.
        apply Gsub. unfold ScreenUrwid.flushed. cbn [w_term w_queue]. tauto.
      * destruct sb as [sbf|]; [|exact I]. destruct Gsb as [Hb Hon]. split; [exact Hb|].
        intros v p Hv Hpv. pose proof (in_or_app sbv (s_prev s) v (or_introl Hv)) as HIv.
        destruct (Hon v p Hv Hpv) as [Hf|[Hf|[Hk Hf]]].
        -- destruct (in_dec Z.eq_dec (p_z p) (map (fun x : nat * wkind => kind_z (snd x)) ks)) as [Hz|Hz].
           ++ right. right. apply in_map_iff in Hz. destruct Hz as [x [Hx1 Hx2]]. destruct (Hks x Hx2) as [Hxw Hxk].
              destruct (view_plcs_z v p Hpv) as [Ezp _]. rewrite Ezp in Hx1.
              assert (Hkv : is_kitty (v_kind v) = true).
              { destruct (tracked_kind v (At v HIv)) as [Hy|[_ [Hi _]]]; [exact Hy|].
                exfalso. rewrite Hi in Hx1. simpl in Hx1. apply (Anz x Hxw Hxk). exact Hx1. }
              split; [exact Hkv|]. cbn [w_nw]. rewrite cnt_fold_inc.
              assert (0 < cnt (v_wid v) ks); [|lia]. apply cnt_pos_In. apply in_map_iff. exists x. split; [|exact Hx2].
              symmetry. apply (Az x v); auto.
           ++ left. unfold ScreenUrwid.flushed. cbn [w_term w_queue]. apply Hfl. split; [exact Hf|exact Hz].
        -- right. left. exact Hf.
        -- right. right. split; [exact Hk|]. cbn [w_nw] in *. rewrite cnt_fold_inc. lia.
Qed.

Lemma api_keeps : forall w ws now,
  s_prev (w_scr (step w (OApi ws now))) = s_prev (w_scr w)
  /\ s_canv (w_scr (step w (OApi ws now))) = s_canv (w_scr w)
  /\ w_sb (step w (OApi ws now)) = w_sb w.
Proof.
  intros w ws now. unfold ScreenUrwid.step, api_clear_images, clear_images_all, clear_images_widgets.
  destruct ws; destruct now; simpl; auto.
Qed.

(** *** sequences with aborted / short-circuited redraws *)

Variable canvas : nat -> list view * (Z -> Z).

Notation astep := (astep H konsole true lines canvas skip_processed).
Notation arun := (arun H konsole true lines canvas skip_processed).
Notation not_drawn := (not_drawn konsole true canvas skip_processed).
Notation flush_only := (flush_only konsole).
Notation draw_only := (draw_only H konsole lines).

(** the invariant: [agood], the views tracked are those of the canvas PROCESSED last, and the
    views of urwid's screen buffer are those of the canvas that REACHED the terminal last *)
Definition ainv (aw : aworld) : Prop :=
  agood (aw_sbv aw) (aw_w aw)
  /\ (forall i, s_canv (w_scr (aw_w aw)) = Some i -> s_prev (w_scr (aw_w aw)) = fst (canvas i))
  /\ (forall i, aw_sbc aw = Some i -> w_sb (aw_w aw) <> None -> aw_sbv aw = fst (canvas i)).

Lemma ainv_init : ainv aworld_init.
Proof.
  unfold ainv, aworld_init. simpl. split; [|split; [discriminate|discriminate]].
  apply (proj1 (good_agood world_init)). apply good_init.
Qed.

(** every operation is well-formed in the state it meets: (W) for every draw_screen call; the
    COUNT hypothesis for the calls that reach the terminal; the arguments of clear_images() *)
Definition aop_wf (aw : aworld) (o : aop) : Prop :=
  match o with
  | ADraw id => wf_adraw (aw_sbv aw) (s_prev (w_scr (aw_w aw))) (fst (canvas id))
                /\ (reaches aw id = true -> count_ok (aw_w aw) (fst (canvas id)))
  | AFail id => wf_adraw (aw_sbv aw) (s_prev (w_scr (aw_w aw))) (fst (canvas id))
  | AApi ws _ => wf_aapi (aw_sbv aw) (s_prev (w_scr (aw_w aw))) ws
  | _ => True
  end.
(** ([skipf]: the "canvas unchanged" decision with which the sequence is run; the theorems are
    about the code's, [skip_processed]) *)
Fixpoint aops_wf_with (skipf : aworld -> nat -> bool) (aw : aworld) (ops : list aop) : Prop :=
  match ops with
  | [] => True
  | o :: rest => aop_wf aw o /\ aops_wf_with skipf (ScreenAbort.astep H konsole true lines canvas skipf aw o) rest
  end.
Notation aops_wf := (aops_wf_with skip_processed).

Lemma opt_is_true : forall i o, opt_is i o = true -> o = Some i.
Proof. intros i [j|]; simpl; intro E; [|discriminate]. apply Nat.eqb_eq in E. now subst. Qed.

Lemma agood_set_canv : forall sbv w id, agood sbv w -> agood sbv (set_canv w id).
Proof. intros sbv [[pv cd wd cv] sb t q bs nall nw] id G. exact G. Qed.

Lemma count_ok_set_canv : forall w id V, count_ok w V -> count_ok (set_canv w id) V.
Proof. intros [[pv cd wd cv] sb t q bs nall nw] id V C. exact C. Qed.

Lemma vanished_same : forall V s, s_prev s = V -> vanished V s = [].
Proof.
  intros V s E. unfold vanished. rewrite E.
  assert (G : forall l, (forall v, In v l -> In v V) -> filter (fun v => negb (view_mem v V)) l = []).
  { induction l as [|v l IH]; intro Hl; [reflexivity|]. simpl.
    rewrite (In_view_mem v V (Hl v (or_introl eq_refl))). simpl. apply IH. intros; apply Hl; now right. }
  apply G. auto.
Qed.

Lemma update_views_same : forall V s, s_prev s = V -> update_views true V s = ([], s).
Proof.
  intros V [pv cd wd cv] E. simpl in E. subst pv. unfold update_views.
  pose proof (vanished_same V (mk_scr V cd wd cv) eq_refl) as Hv. unfold vanished in Hv. cbn [s_prev] in *.
  rewrite Hv. reflexivity.
Qed.

(** a skipped canvas that urwid draws: the bookkeeping would have changed nothing *)
Lemma draw_only_is_step : forall w V base, s_prev (w_scr w) = V -> draw_only w V base = step w (ORedraw V base).
Proof.
  intros [s sb t q bs nall nw] V base E. cbn [w_scr] in E.
  unfold ScreenAbort.draw_only, ScreenUrwid.step. cbn [w_scr w_sb w_term w_queue].
  rewrite (update_views_same V s E). reflexivity.
Qed.

Lemma step_redraw_canv : forall w V base, s_canv (w_scr (step w (ORedraw V base))) = s_canv (w_scr w).
Proof.
  intros [s sb t q bs nall nw] V base. unfold ScreenUrwid.step. cbn [w_scr].
  pose proof (update_views_cases V s) as Hc. inversion Hc; reflexivity.
Qed.

Lemma sync_only_plcs : forall t q, t_plcs (pexec konsole t (q ++ [KSyncB] ++ [KSyncE])) = t_plcs (pexec konsole t q).
Proof. intros. rewrite pexec_app. reflexivity. Qed.

Lemma flush_only_agood : forall sbv w, agood sbv w ->
  agood sbv (flush_only w) /\ w_queue (flush_only w) = []
  /\ (forall p, In p (t_plcs (w_term (flush_only w))) <-> In p (t_plcs (flushed w))).
Proof.
  intros sbv [s sb t q bs nall nw] G. unfold agood in G. cbn [w_scr w_sb w_term w_queue w_bs w_nall w_nw] in G.
  destruct G as [Gnk [Glt [Gc [Gw [Gq [Gsub Gsb]]]]]].
  unfold ScreenAbort.flush_only. cbn [w_scr w_sb w_term w_queue w_bs w_nall w_nw].
  assert (Hf : forall p, In p (t_plcs (pexec konsole t (q ++ [KSyncB] ++ [KSyncE]))) <-> In p (t_plcs (pexec konsole t q))).
  { intro p. rewrite sync_only_plcs. tauto. }
  split; [|split; [reflexivity|exact Hf]].
  unfold agood. cbn [w_scr w_sb w_term w_queue w_bs w_nall w_nw].
  split; [exact Gnk|split; [exact Glt|split; [exact Gc|split; [exact Gw|split; [reflexivity|split]]]]].
  - intros p Hp. apply Gsub. unfold ScreenUrwid.flushed in *. cbn [w_term w_queue] in *. apply Hf. exact Hp.
  - destruct sb as [sbf|]; [|exact I]. destruct Gsb as [Hb Hon]. split; [exact Hb|].
    intros v p Hv Hpv. destruct (Hon v p Hv Hpv) as [Hx|Hx]; [|right; exact Hx].
    left. unfold ScreenUrwid.flushed in *. cbn [w_term w_queue] in *. apply Hf. exact Hx.
Qed.

(** a draw_screen call that urwid does not draw *)
Lemma not_drawn_inv : forall aw id,
  ainv aw -> wf_adraw (aw_sbv aw) (s_prev (w_scr (aw_w aw))) (fst (canvas id)) ->
  let w' := not_drawn aw id in
  agood (aw_sbv aw) w'
  /\ s_canv (w_scr w') = Some id /\ s_prev (w_scr w') = fst (canvas id)
  /\ w_queue w' = [] /\ w_sb w' = w_sb (aw_w aw).
Proof.
  intros aw id [G [Ic Is]] Hwf. unfold ScreenAbort.not_drawn, skip_processed.
  destruct (opt_is id (s_canv (w_scr (aw_w aw)))) eqn:Es.
  - apply opt_is_true in Es. destruct (flush_only_agood _ _ G) as [G' [Hq _]].
    cbn zeta. split; [exact G'|]. split; [exact Es|]. split; [apply Ic; exact Es|]. split; [exact Hq|reflexivity].
  - cbn zeta.
    assert (Hwf' : wf_adraw (aw_sbv aw) (s_prev (w_scr (set_canv (aw_w aw) id))) (fst (canvas id))) by exact Hwf.
    destruct (step_abort_agood _ _ _ (agood_set_canv _ _ id G) Hwf') as [G' [Hp [Hq [Hsb Hcv]]]].
    split; [exact G'|]. split; [rewrite Hcv; reflexivity|]. split; [exact Hp|]. split; [exact Hq|exact Hsb].
Qed.

Lemma reaching_draw : forall aw id,
  ainv aw -> aop_wf aw (ADraw id) -> reaches aw id = true ->
  let w' := aw_w (astep aw (ADraw id)) in
  agood (fst (canvas id)) w' /\ s_prev (w_scr w') = fst (canvas id) /\ s_canv (w_scr w') = Some id /\ w_queue w' = []
  /\ same_plcs (t_plcs (w_term w')) (plcs_of (fst (canvas id))).
Proof.
  intros aw id [G [Ic Is]] [Hwf Hcnt] Hr. specialize (Hcnt Hr).
  unfold ScreenAbort.astep. rewrite Hr. cbn [aw_w]. unfold skip_processed.
  destruct (opt_is id (s_canv (w_scr (aw_w aw)))) eqn:Es.
  - apply opt_is_true in Es. pose proof (Ic id Es) as Ep.
    rewrite (draw_only_is_step _ _ _ Ep).
    destruct (step_redraw_agood _ _ _ (snd (canvas id)) G Hwf Hcnt) as [G' [Hp [Hq Hs]]].
    apply (proj1 (good_agood _)) in G'. rewrite Hp in G'.
    cbn zeta. split; [exact G'|]. split; [exact Hp|]. split; [rewrite step_redraw_canv; exact Es|]. split; [exact Hq|exact Hs].
  - assert (Hwf' : wf_adraw (aw_sbv aw) (s_prev (w_scr (set_canv (aw_w aw) id))) (fst (canvas id))) by exact Hwf.
    destruct (step_redraw_agood _ _ _ (snd (canvas id)) (agood_set_canv _ _ id G) Hwf' (count_ok_set_canv _ id _ Hcnt))
      as [G' [Hp [Hq Hs]]].
    apply (proj1 (good_agood _)) in G'. rewrite Hp in G'.
    cbn zeta. split; [exact G'|]. split; [exact Hp|]. split; [rewrite step_redraw_canv; reflexivity|]. split; [exact Hq|exact Hs].
Qed.

Lemma astep_inv : forall aw o, ainv aw -> aop_wf aw o -> ainv (astep aw o).
Proof.
  intros aw o I Hwf. destruct o as [id|id| | | |ws now].
  - (* ADraw *)
    destruct (reaches aw id) eqn:Hr.
    + destruct (reaching_draw aw id I Hwf Hr) as [G' [Hp [Hc [Hq Hs]]]].
      unfold ScreenAbort.astep in *. rewrite Hr in *. cbn [aw_w] in *.
      unfold ainv. cbn [aw_w aw_sbc aw_sbv].
      split; [|split].
      * exact G'.
      * intros i Ei. rewrite Hc in Ei. inversion Ei. subst i. exact Hp.
      * intros i Ei _. inversion Ei. reflexivity.
    + destruct Hwf as [Hwf _]. destruct (not_drawn_inv aw id I Hwf) as [G' [Hc [Hp [Hq Hsb]]]].
      destruct I as [G [Ic Is]].
      unfold ScreenAbort.astep. rewrite Hr. unfold ainv. cbn [aw_w aw_sbc aw_sbv].
      split; [exact G'|split].
      * intros i Ei. rewrite Hc in Ei. inversion Ei. subst i. exact Hp.
      * intros i Ei Hn. rewrite Hsb in Hn. apply Is; assumption.
  - (* AFail *)
    destruct (not_drawn_inv aw id I Hwf) as [G' [Hc [Hp [Hq Hsb]]]].
    destruct I as [G [Ic Is]].
    unfold ScreenAbort.astep. unfold ainv. cbn [aw_w aw_sbc aw_sbv].
    split; [exact G'|split].
    + intros i Ei. rewrite Hc in Ei. inversion Ei. subst i. exact Hp.
    + intros i Ei Hn. rewrite Hsb in Hn. apply Is; assumption.
  - (* AWinch *)
    destruct I as [G [Ic Is]]. unfold ScreenAbort.astep, ainv. cbn [aw_w aw_sbc aw_sbv w_scr w_sb].
    split; [|split; [exact Ic|intros i _ Hn; exfalso; apply Hn; reflexivity]].
    destruct (aw_w aw) as [s sb t q bs nall nw]. unfold agood in *.
    cbn [w_scr w_sb w_term w_queue w_bs w_nall w_nw] in *.
    destruct G as [Gnk [Glt [Gc [Gw [Gq [Gsub Gsb]]]]]]. repeat split; auto; try apply Gnk; try apply Glt; auto.
  - (* AResized *)
    destruct I as [G [Ic Is]]. unfold ScreenAbort.astep, ainv. cbn [aw_w aw_sbc aw_sbv]. auto.
  - (* AClear *)
    destruct I as [G [Ic Is]]. destruct (step_clear_agood _ _ G) as [G' [Hsb [Hp Hc]]].
    unfold ScreenAbort.astep, ainv. cbn [aw_w aw_sbc aw_sbv].
    split; [exact G'|split].
    + intros i Ei. rewrite Hc in Ei. rewrite Hp. apply Ic. exact Ei.
    + intros i _ Hn. rewrite Hsb in Hn. exfalso. apply Hn. reflexivity.
  - (* AApi *)
    destruct I as [G [Ic Is]]. destruct (api_keeps (aw_w aw) ws now) as [Hp [Hc Hsb]].
    unfold ScreenAbort.astep, ainv. cbn [aw_w aw_sbc aw_sbv].
    split; [apply step_api_agood; assumption|split].
    + intros i Ei. rewrite Hc in Ei. rewrite Hp. apply Ic. exact Ei.
    + intros i Ei Hn. rewrite Hsb in Hn. apply Is; assumption.
Qed.

Lemma arun_inv : forall ops aw, ainv aw -> aops_wf aw ops -> ainv (arun ops aw).
Proof.
  induction ops as [|o ops IH]; intros aw I Hwf; [exact I|].
  destruct Hwf as [Ho Hrest]. unfold ScreenAbort.arun. simpl. apply IH; [|exact Hrest].
  apply astep_inv; assumption.
Qed.

Lemma aops_wf_app : forall a b aw, aops_wf aw (a ++ b) -> aops_wf aw a /\ aops_wf (arun a aw) b.
Proof.
  induction a as [|o a IH]; intros b aw Hwf; [split; [exact I|exact Hwf]|].
  destruct Hwf as [Ho Hrest]. destruct (IH b (astep aw o) Hrest) as [Ha Hb].
  split; [split; assumption|exact Hb].
Qed.

Lemma arun_app : forall a b aw, arun (a ++ b) aw = arun b (arun a aw).
Proof. intros. unfold ScreenAbort.arun. apply fold_left_app. Qed.

Lemma arun_one : forall o aw, arun [o] aw = astep aw o.
Proof. reflexivity. Qed.

Lemma astep_not_reaching : forall aw id, reaches aw id = false -> aw_w (astep aw (ADraw id)) = not_drawn aw id.
Proof. intros aw id Hr. unfold ScreenAbort.astep. rewrite Hr. reflexivity. Qed.

Lemma astep_fail : forall aw id, aw_w (astep aw (AFail id)) = not_drawn aw id.
Proof. reflexivity. Qed.

(** In every reachable state - whatever mix of completed, aborted and short-circuited redraws
    led to it - once the output queue is flushed the terminal shows no placement that does
    not belong to a view the screen TRACKS (so it is deleted when that view goes). *)
Lemma abort_tracked_lemma : forall ops,
  aops_wf aworld_init ops ->
  forall p, In p (t_plcs (flushed (aw_w (arun ops aworld_init))))
            -> In p (plcs_of (s_prev (w_scr (aw_w (arun ops aworld_init))))).
Proof.
  intros ops Hwf. destruct (arun_inv ops aworld_init ainv_init Hwf) as [G _].
  unfold agood in G. tauto.
Qed.

(** After EVERY draw_screen call - also one that urwid did not draw because a resize is
    pending, because its own draw raised, or because it was handed the canvas it drew last -
    the screen tracks exactly the views of the canvas handed over, nothing is left in the
    output queue, and the terminal shows no placement that this canvas does not have. *)
Lemma abort_no_ghosts_lemma : forall ops id o,
  o = ADraw id \/ o = AFail id ->
  aops_wf aworld_init (ops ++ [o]) ->
  let aw := arun (ops ++ [o]) aworld_init in
  w_queue (aw_w aw) = []
  /\ s_prev (w_scr (aw_w aw)) = fst (canvas id)
  /\ forall p, In p (t_plcs (w_term (aw_w aw))) -> In p (plcs_of (fst (canvas id))).
Proof.
  intros ops id o Ho Hwf. apply aops_wf_app in Hwf. destruct Hwf as [Ha [Hb _]].
  pose proof (arun_inv ops aworld_init ainv_init Ha) as I.
  cbn zeta. rewrite arun_app. set (aw0 := arun ops aworld_init) in *.
  assert (Hnd : forall w', agood (aw_sbv aw0) w' -> w_queue w' = [] -> s_prev (w_scr w') = fst (canvas id) ->
                 forall p, In p (t_plcs (w_term w')) -> In p (plcs_of (fst (canvas id)))).
  { intros w' G' Hq Hp p Hin. unfold agood in G'. destruct G' as [_ [_ [_ [_ [_ [Gsub _]]]]]].
    rewrite <- Hp. apply Gsub. unfold ScreenUrwid.flushed. rewrite Hq. exact Hin. }
  destruct Ho as [-> | ->]; rewrite arun_one.
  - destruct (reaches aw0 id) eqn:Hr.
    + destruct (reaching_draw aw0 id I Hb Hr) as [_ [Hp [_ [Hq Hs]]]]. cbn zeta in *.
      split; [exact Hq|split; [exact Hp|]]. intros p Hin. apply Hs. exact Hin.
    + destruct Hb as [Hb _]. destruct (not_drawn_inv aw0 id I Hb) as [G' [_ [Hp [Hq _]]]].
      rewrite (astep_not_reaching _ _ Hr). cbn zeta in *.
      split; [exact Hq|split; [exact Hp|]]. apply Hnd; assumption.
  - destruct (not_drawn_inv aw0 id I Hb) as [G' [_ [Hp [Hq _]]]].
    rewrite astep_fail. cbn zeta in *.
    split; [exact Hq|split; [exact Hp|]]. apply Hnd; assumption.
Qed.

(** no disguise change hit the lines of the canvas since urwid wrote them, this call's own
    bookkeeping included (a public clear_images() call or an aborted redraw in which a view of
    the canvas had vanished would have: the images it deleted stay deleted until a NEW canvas
    is drawn, because urwid does not draw the canvas object it drew last again) *)
Definition undisturbed (aw : aworld) (id : nat) : Prop :=
  redraw_nall (fst (canvas id)) (aw_w aw) = 0
  /\ forall v, In v (fst (canvas id)) -> redraw_nw (fst (canvas id)) (aw_w aw) (v_wid v) = 0.

Lemma redraw_counts_set_canv : forall w id V wd,
  redraw_nall V (set_canv w id) = redraw_nall V w /\ redraw_nw V (set_canv w id) wd = redraw_nw V w wd.
Proof. intros [[pv cd wdl cv] sb t q bs nall nw] id V wd. split; reflexivity. Qed.

(** A redraw that is not aborted - no resize pending, the base draw returns - leaves EXACTLY
    the placements of the canvas drawn: when it reaches the terminal (under the count
    hypothesis, part of [aops_wf]), and also when urwid short-circuits it, provided nothing
    has disturbed the lines of that canvas since urwid wrote them. *)
Lemma abort_exact_lemma : forall ops id,
  aops_wf aworld_init (ops ++ [ADraw id]) ->
  let aw0 := arun ops aworld_init in
  aw_resized aw0 = false ->
  (quick aw0 id = true -> undisturbed aw0 id) ->
  let aw := arun (ops ++ [ADraw id]) aworld_init in
  w_queue (aw_w aw) = []
  /\ forall p, In p (t_plcs (w_term (aw_w aw))) <-> In p (plcs_of (fst (canvas id))).
Proof.
  intros ops id Hwf. cbn zeta. intros Hres Hund.
  destruct (abort_no_ghosts_lemma ops id (ADraw id) (or_introl eq_refl) Hwf) as [Hq [Hp Hsub]]. cbn zeta in *.
  split; [exact Hq|]. intro p. split; [apply Hsub|].
  apply aops_wf_app in Hwf. destruct Hwf as [Ha [Hb _]].
  pose proof (arun_inv ops aworld_init ainv_init Ha) as I.
  rewrite arun_app in *. set (aw0 := arun ops aworld_init) in *. rewrite arun_one in *.
  destruct (reaches aw0 id) eqn:Hr.
  - destruct (reaching_draw aw0 id I Hb Hr) as [_ [_ [_ [_ Hs]]]]. cbn zeta in Hs. apply Hs.
  - (* short-circuited by urwid *)
    assert (Hqk : quick aw0 id = true).
    { unfold reaches in Hr. rewrite Hres in Hr. simpl in Hr. apply negb_false_iff in Hr. exact Hr. }
    destruct (Hund Hqk) as [Ua Ub]. destruct Hb as [Hb _].
    intro Hin. apply In_plcs_of in Hin. destruct Hin as [v [Hv Hpv]].
    (* urwid's screen buffer holds this very canvas *)
    assert (Hsbv : aw_sbv aw0 = fst (canvas id) /\ exists sbf, w_sb (aw_w aw0) = Some sbf).
    { unfold quick in Hqk. destruct (w_sb (aw_w aw0)) as [sbf|] eqn:Esb; [|discriminate].
      apply opt_is_true in Hqk. destruct I as [_ [_ Is]]. split; [apply Is; [exact Hqk|rewrite Esb; discriminate]|eauto]. }
    destruct Hsbv as [Hsbv [sbf Esb]].
    destruct (not_drawn_inv aw0 id I Hb) as [G' [_ [_ [Hq' Hsb']]]]. cbn zeta in *.
    rewrite (astep_not_reaching _ _ Hr) in *.
    set (w' := not_drawn aw0 id) in *.
    assert (Hcnt : w_nall w' = 0 /\ wdis_get (v_wid v) (w_nw w') = 0).
    { unfold w', ScreenAbort.not_drawn, skip_processed.
      destruct (opt_is id (s_canv (w_scr (aw_w aw0)))) eqn:Es.
      - apply opt_is_true in Es. destruct I as [_ [Ic _]]. pose proof (Ic id Es) as Ep.
        unfold ScreenAbort.flush_only. cbn [w_nall w_nw].
        unfold redraw_nall, clears_all in Ua. rewrite (vanished_same _ _ Ep) in Ua. simpl in Ua.
        specialize (Ub v Hv). unfold redraw_nw, clears_all in Ub. rewrite (vanished_same _ _ Ep) in Ub. simpl in Ub.
        split; [exact Ua|lia].
      - unfold ScreenAbort.step_abort. cbn [w_nall w_nw]. rewrite abort_nw_get.
        destruct (redraw_counts_set_canv (aw_w aw0) id (fst (canvas id)) (v_wid v)) as [E1 E2].
        rewrite E1, E2. split; [exact Ua|exact (Ub v Hv)]. }
    destruct Hcnt as [Hn0 Hw0].
    unfold agood in G'. destruct G' as [_ [_ [_ [_ [_ [_ Gsb]]]]]].
    rewrite Hsb', Esb in Gsb. destruct Gsb as [_ Hon].
    rewrite Hsbv in Hon. destruct (Hon v p Hv Hpv) as [Hf|[Hf|[_ Hf]]]; [|lia|lia].
    unfold ScreenUrwid.flushed in Hf. rewrite Hq' in Hf. exact Hf.
Qed.

(** the count hypothesis holds by itself while urwid has no screen buffer (after clear(), start,
    a SIGWINCH: every row is written), and when at most one redraw was aborted since urwid's
    screen buffer was written *)
Lemma count_ok_no_screen_buffer : forall w V, w_sb w = None -> count_ok w V.
Proof. intros w V E Hn. congruence. Qed.

Lemma count_ok_after_one_abort : forall w V1 V,
  w_nall w = 0 -> (forall wd, wdis_get wd (w_nw w) = 0) -> count_ok (step_abort w V1) V.
Proof.
  intros w V1 V Hn Hw _ v _.
  pose proof (redraw_own_changes (step_abort w V1) V (v_wid v)) as Hc.
  pose proof (redraw_own_changes w V1 (v_wid v)) as Hc1.
  unfold ScreenAbort.step_abort in Hc at 3 4. cbn [w_nall w_nw] in Hc. rewrite abort_nw_get in Hc.
  rewrite Hn, Hw in Hc1. lia.
Qed.

Lemma count_ok_among_aborted_lemma : forall (w : world) (V1 V : list view),
  (w_sb w = None -> count_ok w V)
  /\ (w_nall w = 0 -> (forall wd, wdis_get wd (w_nw w) = 0) -> count_ok (step_abort w V1) V).
Proof. intros w V1 V. split; [apply count_ok_no_screen_buffer|apply count_ok_after_one_abort]. Qed.

End AbortProofs.

(** *** the decision must be keyed on the canvas PROCESSED last

    A view A with one kitty image (widget 1, z-index 1, two lines) and a view B without any
    (a popup, say).  A is drawn; a SIGWINCH arrives and B is drawn before the resize is
    handled (urwid skips the drawing; the image is deleted, the screen now tracks B's views:
    none); the resize is handled and the very canvas object of A is drawn again (nothing was
    invalidated); then B is drawn. *)
Definition ex_lines (v : view) : list (Z * Z * Z) :=
  map (fun k => (Z.of_nat (v_row v + k) - 1, Z.of_nat (v_col v) - 1, Z.of_nat (v_cols v))%Z) (seq 0 (v_rows v)).
Definition ex_view : view := mk_view (mk_canv 7 (CImage 1 (WKitty 1))) 1 1 0 0 4 2.
Definition ex_canvas (id : nat) : list view * (Z -> Z) :=
  match id with 1 => ([ex_view], fun _ => 0%Z) | _ => ([], fun _ => 1%Z) end.
Definition ex_ops : list aop := [ADraw 1; AWinch; ADraw 2; AResized; ADraw 1; ADraw 2].

Ltac ex_in H := vm_compute in H; repeat (destruct H as [H|H]; [subst|]); try contradiction.

Lemma ex_wf_adraw : forall sbv prev V,
  (forall v, In v (sbv ++ prev ++ V) -> v = ex_view) -> V = [ex_view] \/ V = [] ->
  wf_adraw 4 false ex_lines (fun _ => true) sbv prev V.
Proof.
  intros sbv prev V Hall HV. constructor.
  - intros v Hv. rewrite (Hall v Hv). reflexivity.
  - intros v Hv. rewrite (Hall v Hv). reflexivity.
  - intros v1 v2 H1 H2 _ _. rewrite (Hall v1 H1), (Hall v2 H2). tauto.
  - intros v Hv _. rewrite (Hall v Hv). discriminate.
  - intros p Hp. destruct HV as [-> | ->]; ex_in Hp; vm_compute; tauto.
  - intros p q Hp Hq Hne. destruct HV as [-> | ->]; ex_in Hp; ex_in Hq; try reflexivity; congruence.
Qed.

Ltac ex_wf := apply ex_wf_adraw; [intros v Hv; ex_in Hv; reflexivity|vm_compute; tauto].
Ltac ex_count := intros _ _ v Hv; ex_in Hv; vm_compute; lia.

(** the hypotheses of the theorems hold for this sequence, whichever decision it is run with ... *)
Lemma ex_ops_wf_code : aops_wf_with 4 false ex_lines (fun _ => true) ex_canvas skip_processed aworld_init ex_ops.
Proof.
  unfold ex_ops. cbn [aops_wf_with aop_wf].
  split; [split; [ex_wf|ex_count]|].
  split; [exact I|].
  split; [split; [ex_wf|ex_count]|].
  split; [exact I|].
  split; [split; [ex_wf|ex_count]|].
  split; [split; [ex_wf|ex_count]|exact I].
Qed.

Lemma ex_ops_wf_variant : aops_wf_with 4 false ex_lines (fun _ => true) ex_canvas skip_reached aworld_init ex_ops.
Proof.
  unfold ex_ops. cbn [aops_wf_with aop_wf].
  split; [split; [ex_wf|ex_count]|].
  split; [exact I|].
  split; [split; [ex_wf|ex_count]|].
  split; [exact I|].
  split; [split; [ex_wf|ex_count]|].
  split; [split; [ex_wf|ex_count]|exact I].
Qed.

(** ... no resize is pending at the last redraw, and it reaches the terminal; with the code's
    decision the terminal ends up with B's placements (none); with the decision keyed on the
    canvas that REACHED the terminal last, the redraw of A after the resize is taken for
    "unchanged" (A is the canvas urwid drew last), the screen keeps tracking B's views, and
    the image that urwid painted again is never deleted: a ghost. *)
Lemma skip_reached_refuted :
  let run := fun skipf ops => arun 4 false true ex_lines ex_canvas skipf ops aworld_init in
  aw_resized (run skip_processed (removelast ex_ops)) = false
  /\ reaches (run skip_processed (removelast ex_ops)) 2 = true
  /\ t_plcs (w_term (aw_w (run skip_processed ex_ops))) = plcs_of ex_lines (fst (ex_canvas 2))
  /\ aw_resized (run skip_reached (removelast ex_ops)) = false
  /\ reaches (run skip_reached (removelast ex_ops)) 2 = true
  /\ plcs_of ex_lines (fst (ex_canvas 2)) = []
  /\ t_plcs (w_term (aw_w (run skip_reached ex_ops))) = [mk_plc 1 0 4 1 1; mk_plc 0 0 4 1 1]
  /\ s_prev (w_scr (aw_w (run skip_reached ex_ops))) = [].
Proof. vm_compute. repeat split; reflexivity. Qed.

(** the same without the resize: A, B, A (the same object), B - no redraw is aborted, urwid's
    canvas and the canvas processed last are always the same, and the two decisions agree *)
Lemma skip_reached_same_without_abort :
  let ops := [ADraw 1; ADraw 2; ADraw 1; ADraw 2] in
  t_plcs (w_term (aw_w (arun 4 false true ex_lines ex_canvas skip_reached ops aworld_init)))
  = t_plcs (w_term (aw_w (arun 4 false true ex_lines ex_canvas skip_processed ops aworld_init)))
  /\ t_plcs (w_term (aw_w (arun 4 false true ex_lines ex_canvas skip_reached [ADraw 1; ADraw 2; ADraw 1] aworld_init)))
     = [mk_plc 1 0 4 1 1; mk_plc 0 0 4 1 1].
Proof. vm_compute. split; reflexivity. Qed.

Lemma ex_ops_wf_both :
  aops_wf_with 4 false ex_lines (fun _ => true) ex_canvas skip_processed aworld_init ex_ops
  /\ aops_wf_with 4 false ex_lines (fun _ => true) ex_canvas skip_reached aworld_init ex_ops.
Proof. exact (conj ex_ops_wf_code ex_ops_wf_variant). Qed.

(** the proviso of [abort_exact_lemma] cannot be dropped: A is drawn; a redraw of B raises in the
    base class' draw (the image of A is deleted, the screen tracks B's views); the very canvas
    object A is drawn again: urwid's screen buffer still holds A, urwid returns at once, and
    the image - deleted, and tracked again - is not on the terminal (nothing is left behind
    either: no ghost).  The hypotheses hold, no resize is pending; the redraw is short-circuited
    and A's lines were disturbed.  Observed on the real code. *)
Definition ex_ops2 : list aop := [ADraw 1; AFail 2; ADraw 1].

Lemma ex_ops2_wf : aops_wf_with 4 false ex_lines (fun _ => true) ex_canvas skip_processed aworld_init ex_ops2.
Proof.
  unfold ex_ops2. cbn [aops_wf_with aop_wf].
  split; [split; [ex_wf|ex_count]|].
  split; [ex_wf|].
  split; [split; [ex_wf|ex_count]|exact I].
Qed.

Lemma exact_needs_undisturbed :
  let run := fun ops => arun 4 false true ex_lines ex_canvas skip_processed ops aworld_init in
  aops_wf_with 4 false ex_lines (fun _ => true) ex_canvas skip_processed aworld_init ex_ops2
  /\ aw_resized (run (removelast ex_ops2)) = false
  /\ quick (run (removelast ex_ops2)) 1 = true
  /\ redraw_nw (fst (ex_canvas 1)) (aw_w (run (removelast ex_ops2))) 1 = 1
  /\ t_plcs (w_term (aw_w (run ex_ops2))) = []
  /\ plcs_of ex_lines (fst (ex_canvas 1)) = [mk_plc 0 0 4 1 1; mk_plc 1 0 4 1 1]
  /\ s_prev (w_scr (aw_w (run ex_ops2))) = fst (ex_canvas 1).
Proof. split; [exact ex_ops2_wf|]. vm_compute. repeat split; reflexivity. Qed.
