(** C18 — sessions: every way the screen is started and stopped, from any terminal.

    Over model/ScreenSession.v (two-buffer terminal, _start/_stop with the
    [alternate_buffer] parameter, histories of foreign output / start / stop / new screen
    objects / redraws):
    - [cleared_modes_lemma]: _start, _stop and clear() leave no placement on the buffer the
      user sees (start, clear) / the session ran on (stop), for BOTH values of the flag and
      ANY terminal;
    - [sessions_no_ghosts_lemma]: after every redraw of every session, the visible
      placements are exactly those of the view set just drawn, whatever was on the terminal
      before any of the starts;
    - [sessions_cleared_lemma]: the same clause inside sessions;
    - the variants that clear only for one value of the flag are refuted. *)
From Coq Require Import List ZArith Bool Lia Arith.
Import ListNotations.
From TI Require Import lib.Term model.Screen model.ScreenUrwid model.ScreenSession proofs.ScreenGhost.

Local Arguments Nat.eqb : simpl never.
Local Arguments Z.eqb : simpl never.
Local Arguments Nat.modulo : simpl never.

(** *** the two-buffer terminal *)

Lemma bexec_app : forall k t a b, bexec k t (a ++ b) = bexec k (bexec k t a) b.
Proof. intros. unfold bexec. apply fold_left_app. Qed.

Lemma bexec_BT : forall k ts t,
  bexec k t (map BT ts) = mk_bterm (pexec k (b_vis t) ts) (b_hid t) (b_alt t) (b_sav t).
Proof.
  induction ts as [|x ts IH]; intros [v h a sv]; [reflexivity|].
  change (bexec k (mk_bterm v h a sv) (map BT (x :: ts)))
    with (bexec k (bstep k (mk_bterm v h a sv) (BT x)) (map BT ts)).
  rewrite IH. reflexivity.
Qed.

(** a delete-all (then anything that places no image) empties the visible buffer, whatever
    came before *)
Lemma pexec_delall_then : forall k t ts,
  forallb no_place ts = true -> t_plcs (pexec k t (KDel DelAll :: ts)) = [].
Proof.
  intros k t ts Hn. change (pexec k t (KDel DelAll :: ts)) with (pexec k (pstep k t (KDel DelAll)) ts).
  apply pexec_no_place_empty; [exact Hn|reflexivity].
Qed.

Lemma no_place_app : forall a b, forallb no_place (a ++ b) = forallb no_place a && forallb no_place b.
Proof. intros. apply forallb_app. Qed.

(** *** _start / _stop / clear, both values of the flag, any terminal *)

(** the stream of a start, after anything ([q]: the screen's queue) *)
Lemma start_stream_clears : forall k alt q inner t,
  vis_plcs (bexec k t (map BT q ++ base_start alt inner ++ map BT [KDel DelAll])) = [].
Proof.
  intros. rewrite app_assoc, bexec_app, bexec_BT. reflexivity.
Qed.

(** the stream of a stop *)
Lemma stop_stream_clears : forall k (mode : bool) q i1 i2 t,
  forallb no_place i1 = true -> forallb no_place i2 = true ->
  buf_plcs (b_alt t)
    (bexec k t (map BT q ++ map BT ([KDel DelAll] ++ [KDel DelAll] ++ i1)
                ++ (if mode then [BAltOff] else []) ++ map BT i2)) = [].
Proof.
  intros k mode q i1 i2 t H1 H2.
  rewrite bexec_app, bexec_BT. rewrite bexec_app, bexec_BT. cbn [b_vis b_hid b_alt b_sav].
  set (v0 := pexec k (b_vis t) q).
  assert (E1 : t_plcs (pexec k v0 ([KDel DelAll] ++ [KDel DelAll] ++ i1)) = []).
  { apply pexec_delall_then. simpl. exact H1. }
  set (v1 := pexec k v0 ([KDel DelAll] ++ [KDel DelAll] ++ i1)) in *.
  rewrite bexec_app.
  destruct mode; destruct (b_alt t) eqn:Ea.
  - (* alternate buffer left: its placements are those of the hidden buffer now *)
    cbn [bexec fold_left bstep b_alt b_vis b_hid b_sav]. rewrite bexec_BT. cbn [b_alt b_hid].
    unfold buf_plcs, alt_plcs. cbn [b_alt b_hid]. exact E1.
  - cbn [bexec fold_left bstep b_alt b_vis b_hid b_sav]. rewrite bexec_BT.
    unfold buf_plcs, main_plcs. cbn [b_alt b_vis]. apply pexec_no_place_empty; [exact H2|exact E1].
  - cbn [bexec fold_left]. rewrite bexec_BT. unfold buf_plcs, alt_plcs. cbn [b_alt b_vis].
    apply pexec_no_place_empty; [exact H2|exact E1].
  - cbn [bexec fold_left]. rewrite bexec_BT. unfold buf_plcs, main_plcs. cbn [b_alt b_vis].
    apply pexec_no_place_empty; [exact H2|exact E1].
Qed.

Lemma start_session_eq : forall alt inner s,
  start_session true alt inner s
  = (base_start alt inner ++ map BT [KDel DelAll], mk_scr (s_prev s) ((s_cdis s + 1) mod 3) (s_wdis s) (s_canv s)).
Proof. reflexivity. Qed.

Lemma stop_session_eq : forall alt i1 i2 s,
  stop_session true alt i1 i2 s
  = (map BT ([KDel DelAll] ++ [KDel DelAll] ++ i1) ++ (if alt then [BAltOff] else []) ++ map BT i2,
     mk_scr (s_prev s) (((s_cdis s + 1) mod 3 + 1) mod 3) (s_wdis s) (s_canv s)).
Proof. reflexivity. Qed.

Lemma bstoks_BT : forall ts, bstoks (map BT ts) = ts.
Proof. induction ts as [|x ts IH]; [reflexivity|]. unfold bstoks in *. simpl. rewrite IH. reflexivity. Qed.

Lemma bstoks_app : forall a b, bstoks (a ++ b) = bstoks a ++ bstoks b.
Proof. intros. unfold bstoks. apply flat_map_app. Qed.

(** For BOTH values of [alternate_buffer], ANY terminal [t] (either buffer shown, any
    placements on both), any state of the screen:
    - after _start the buffer the user sees holds no placement;
    - after _stop the buffer that was shown while the screen ran holds none;
    - after clear() (once flushed) the visible buffer holds none;
    - each changes the canvas disguise;
    - what the library itself writes, and its state, do not depend on the flag. *)
Lemma cleared_modes_lemma : forall konsole alt inner inner1 inner2 s t,
  forallb no_place inner = true -> forallb no_place inner1 = true -> forallb no_place inner2 = true ->
  vis_plcs (bexec konsole t (fst (start_session true alt inner s))) = []
  /\ buf_plcs (b_alt t) (bexec konsole t (fst (stop_session true alt inner1 inner2 s))) = []
  /\ vis_plcs (bexec konsole t (map BT (fst (clear_stream true s)))) = []
  /\ s_cdis (snd (start_session true alt inner s)) <> s_cdis s
  /\ s_cdis (snd (stop_session true alt inner1 inner2 s)) <> s_cdis s
  /\ bstoks (fst (start_session true alt inner s)) = fst (start_stream true inner s)
  /\ snd (start_session true alt inner s) = snd (start_stream true inner s)
  /\ bstoks (fst (stop_session true alt inner1 inner2 s)) = fst (stop_stream true true (inner1 ++ inner2) s)
  /\ snd (stop_session true alt inner1 inner2 s) = snd (stop_stream true true (inner1 ++ inner2) s).
Proof.
  intros konsole alt inner i1 i2 s t Hn H1 H2.
  rewrite start_session_eq, stop_session_eq. cbn [fst snd s_cdis].
  split; [|split; [|split; [|split; [|split; [|split; [|split; [|split]]]]]]].
  - exact (start_stream_clears konsole alt [] inner t).
  - exact (stop_stream_clears konsole alt [] i1 i2 t H1 H2).
  - reflexivity.
  - apply bump_ne.
  - apply bump2_ne.
  - unfold base_start. rewrite !bstoks_app, !bstoks_BT. destruct alt; reflexivity.
  - reflexivity.
  - rewrite !bstoks_app, !bstoks_BT. destruct alt; simpl; rewrite <- ?app_assoc; reflexivity.
  - reflexivity.
Qed.

(** a guard on the flag refutes it: with a placement on the main buffer, a _start that
    clears only with the alternate buffer leaves it in view when started without; a _stop
    that clears only without the alternate buffer leaves the session's placements on it *)
Definition stale_term : bterm := mk_bterm (mk_pterm 3 0 [mk_plc 0 0 6 1 0] false) [] false (0, 0)%Z.
Definition stale_alt_term : bterm := mk_bterm (mk_pterm 3 0 [mk_plc 0 0 6 1 5] false) [mk_plc 0 0 6 1 0] true (3, 0)%Z.

Lemma guarded_start_refuted :
  vis_plcs (bexec false stale_term (fst (start_session_guarded true false [KOther] scr_init))) <> []
  /\ vis_plcs (bexec false stale_term (fst (start_session true false [KOther] scr_init))) = []
  /\ vis_plcs (bexec false stale_term (fst (start_session_guarded true true [KOther] scr_init))) = [].
Proof. vm_compute. repeat split; try reflexivity. discriminate. Qed.

Lemma guarded_stop_refuted :
  buf_plcs true (bexec false stale_alt_term (fst (stop_session_guarded true true [KOther] [KOther] scr_init))) <> []
  /\ buf_plcs true (bexec false stale_alt_term (fst (stop_session true true [KOther] [KOther] scr_init))) = []
  /\ main_plcs (bexec false stale_alt_term (fst (stop_session true true [KOther] [KOther] scr_init))) = [mk_plc 0 0 6 1 0].
Proof. vm_compute. repeat split; try reflexivity. discriminate. Qed.

(** *** sessions *)

Section Sessions.

Variable H : nat.
Variable konsole : bool.
Variable lines : view -> list (Z * Z * Z).
Variable kittyw : nat -> bool.

Notation good := (good konsole lines kittyw).
Notation sstep := (sstep_code H konsole true lines).
Notation srun := (srun_code H konsole true lines).
Notation plcs_of := (plcs_of lines).

(** what holds of a screen that is not started: the bookkeeping part of [good]; nothing is
    known (or needed) about the terminal *)
Definition idle (w : world) : Prop :=
  (forall wd, kittyw wd = false ->
     wdis_get wd (s_wdis (w_scr w)) = 0 /\ wdis_get wd (w_nw w) = 0 /\ wdis_get wd (s_wdis (w_bs w)) = 0)
  /\ lt3 (w_bs w)
  /\ s_cdis (w_scr w) = Nat.iter (w_nall w) bump1 (s_cdis (w_bs w))
  /\ (forall wd, wdis_get wd (s_wdis (w_scr w))
                = Nat.iter (wdis_get wd (w_nw w)) bump1 (wdis_get wd (s_wdis (w_bs w))))
  /\ w_queue w = [] /\ w_sb w = None.

Definition sinv (sw : sworld) : Prop := if sw_started sw then good (sw_w sw) else idle (sw_w sw).

(** a step is well-formed in the state it meets: foreign output and a new screen object
    only while the screen is not started; urwid's own output places no image; the
    operations of a started screen as in [ops_wf] *)
Definition sess_op_wf (sw : sworld) (o : sess_op) : Prop :=
  match o with
  | SPre _ | SNewScreen => sw_started sw = false
  | SStart _ inner => forallb no_place inner = true
  | SStop i1 i2 => forallb no_place i1 = true /\ forallb no_place i2 = true
  | SOp (ORedraw V _) =>
    sw_started sw = true /\ wf_redraw H konsole lines kittyw (s_prev (w_scr (sw_w sw))) V /\ count_ok (sw_w sw) V
  | SOp OClear => sw_started sw = true
  | SOp (OApi ws _) => sw_started sw = true /\ wf_api konsole kittyw (s_prev (w_scr (sw_w sw))) ws
  end.
Fixpoint sess_wf (sw : sworld) (ops : list sess_op) : Prop :=
  match ops with
  | [] => True
  | o :: rest => sess_op_wf sw o /\ sess_wf (sstep sw o) rest
  end.

Lemma sinv_init : forall t0, sinv (sworld_init t0).
Proof.
  intros t0. unfold sinv, sworld_init, idle, lt3. simpl. repeat split; auto; lia.
Qed.

Lemma bigdel_no_place : forall q, forallb bigdel q = true -> forallb no_place q = true.
Proof.
  induction q as [|x q IH]; [reflexivity|]. simpl. intros Hq. apply andb_true_iff in Hq. destruct Hq as [Hx Hq].
  rewrite (IH Hq), andb_true_r. destruct x; try discriminate; reflexivity.
Qed.

(** a start from an idle screen, ANY terminal: [good], and nothing in view *)
Lemma start_good : forall sw alt inner, sw_started sw = false -> idle (sw_w sw) ->
  let sw' := sstep sw (SStart alt inner) in
  sw_started sw' = true /\ good (sw_w sw') /\ t_plcs (w_term (sw_w sw')) = [] /\ w_queue (sw_w sw') = [].
Proof.
  intros [[s sb t q bs nall nw] hid al sv st md] alt inner Hst Hi. cbn [sw_started] in Hst. subst st.
  unfold idle in Hi. cbn [sw_w w_scr w_sb w_term w_queue w_bs w_nall w_nw] in Hi.
  destruct Hi as [Gnk [Glt [Gc [Gw [Gq Gsb]]]]]. subst q sb.
  unfold sstep_code, ScreenSession.sstep, after_stream. cbn [sw_started sw_w w_scr w_queue w_bs w_nall w_nw].
  unfold sw_term. cbn [sw_w w_term sw_hid sw_alt sw_sav].
  rewrite start_session_eq. cbn [fst snd].
  pose proof (start_stream_clears konsole alt [] inner (mk_bterm t hid al sv)) as E. unfold vis_plcs in E.
  set (tm := bexec konsole _ _) in *. clearbody tm.
  cbn [sw_started sw_w w_term w_queue]. split; [reflexivity|]. split; [|split; [exact E|reflexivity]].
  unfold ScreenGhost.good. cbn [w_scr w_sb w_term w_queue w_bs w_nall w_nw s_prev s_cdis s_wdis].
  repeat split; auto.
  - apply Gnk; assumption.
  - apply Gnk; assumption.
  - apply Gnk; assumption.
  - apply Glt.
  - apply Glt.
  - simpl. rewrite Gc. reflexivity.
  - intros p Hp. unfold ScreenUrwid.flushed in Hp. cbn [w_term w_queue] in Hp.
    change (pexec konsole (b_vis tm) []) with (b_vis tm) in Hp. rewrite E in Hp. destruct Hp.
Qed.

(** a stop of a started screen: idle again, and nothing left on the buffer it ran on *)
Lemma stop_idle : forall sw i1 i2, sw_started sw = true -> good (sw_w sw) ->
  forallb no_place i1 = true -> forallb no_place i2 = true ->
  let sw' := sstep sw (SStop i1 i2) in
  sw_started sw' = false /\ idle (sw_w sw') /\ buf_plcs (sw_alt sw) (sw_term sw') = [].
Proof.
  intros [[s sb t q bs nall nw] hid al sv st md] i1 i2 Hst G H1 H2. cbn [sw_started] in Hst. subst st.
  unfold ScreenGhost.good in G. cbn [sw_w w_scr w_sb w_term w_queue w_bs w_nall w_nw] in G.
  destruct G as [Gnk [Glt [Gc [Gw [Gq [Gsub Gsb]]]]]].
  unfold sstep_code, ScreenSession.sstep, after_stream. cbn [sw_started sw_w w_scr w_queue w_bs w_nall w_nw sw_term w_term sw_hid sw_alt sw_sav sw_mode].
  rewrite stop_session_eq. cbn [fst snd].
  pose proof (stop_stream_clears konsole md q i1 i2 (mk_bterm t hid al sv) H1 H2) as E. cbn [b_alt] in E.
  split; [reflexivity|]. split.
  - unfold idle. cbn [sw_w w_scr w_sb w_term w_queue w_bs w_nall w_nw s_prev s_cdis s_wdis].
    repeat split; auto.
    + apply Gnk; assumption.
    + apply Gnk; assumption.
    + apply Gnk; assumption.
    + apply Glt.
    + apply Glt.
    + simpl. rewrite Gc. reflexivity.
  - unfold sw_term. cbn [sw_w w_term sw_hid sw_alt sw_sav].
    match goal with |- buf_plcs al ?x = [] => replace x with
      (bexec konsole (mk_bterm t hid al sv)
         (map BT q ++ map BT ([KDel DelAll] ++ [KDel DelAll] ++ i1) ++ (if md then [BAltOff] else []) ++ map BT i2)) end.
    + exact E.
    + destruct (bexec konsole _ _); reflexivity.
Qed.

Lemma sstep_inv : forall sw o, sinv sw -> sess_op_wf sw o -> sinv (sstep sw o).
Proof.
  intros sw o Hi Hwf. destruct o as [ts| |alt inner|i1 i2|op].
  - (* foreign output: only the terminal changes *)
    simpl in Hwf. unfold sinv in *. unfold sstep_code, ScreenSession.sstep. rewrite Hwf in *. cbn [sw_started sw_w].
    unfold idle in *. destruct sw as [[s sb t q bs nall nw] hid al sv st md]. cbn [sw_w w_scr w_sb w_term w_queue w_bs w_nall w_nw] in *.
    exact Hi.
  - simpl in Hwf. unfold sinv in *. unfold sstep_code, ScreenSession.sstep. rewrite Hwf in *. cbn [sw_started sw_w].
    unfold idle in *. destruct sw as [[s sb t q bs nall nw] hid al sv st md].
    cbn [sw_w w_scr w_sb w_term w_queue w_bs w_nall w_nw s_cdis s_wdis] in *.
    destruct Hi as [Gnk [Glt [Gc [Gw [Gq Gsb]]]]]. repeat split; auto; try (apply Gnk; assumption); apply Glt.
  - simpl in Hwf. destruct (sw_started sw) eqn:Est.
    + unfold sstep_code, ScreenSession.sstep. rewrite Est. exact Hi.
    + unfold sinv in Hi. rewrite Est in Hi.
      destruct (start_good sw alt inner Est Hi) as [Es [G _]]. unfold sinv. rewrite Es. exact G.
  - simpl in Hwf. destruct Hwf as [H1 H2]. destruct (sw_started sw) eqn:Est.
    + unfold sinv in Hi. rewrite Est in Hi.
      destruct (stop_idle sw i1 i2 Est Hi H1 H2) as [Es [G _]]. unfold sinv. rewrite Es. exact G.
    + unfold sstep_code, ScreenSession.sstep. rewrite Est. exact Hi.
  - assert (Est : sw_started sw = true) by (destruct op as [V base| |ws now]; simpl in Hwf; tauto).
    unfold sinv in *. unfold sstep_code, ScreenSession.sstep. rewrite Est in *. cbn [sw_started sw_w].
    destruct op as [V base| |ws now]; simpl in Hwf.
    + destruct Hwf as [_ [Hw Hc]]. apply (step_redraw_good H konsole lines kittyw); assumption.
    + apply (step_clear_good H konsole lines kittyw); assumption.
    + destruct Hwf as [_ Hw]. apply (step_api_good H konsole lines kittyw); assumption.
Qed.

Lemma srun_inv : forall ops sw, sinv sw -> sess_wf sw ops -> sinv (srun ops sw).
Proof.
  induction ops as [|o ops IH]; intros sw Hi Hwf; [exact Hi|].
  destruct Hwf as [Ho Hrest]. unfold srun_code, ScreenSession.srun. simpl. apply IH; [|exact Hrest].
  apply sstep_inv; assumption.
Qed.

Lemma sess_wf_app : forall a b sw, sess_wf sw (a ++ b) -> sess_wf sw a /\ sess_wf (srun a sw) b.
Proof.
  induction a as [|o a IH]; intros b sw Hwf; [split; [exact I|exact Hwf]|].
  destruct Hwf as [Ho Hrest]. destruct (IH b (sstep sw o) Hrest) as [Ha Hb].
  split; [split; assumption|exact Hb].
Qed.

Lemma srun_app : forall a b sw, srun (a ++ b) sw = srun b (srun a sw).
Proof. intros. unfold srun_code, ScreenSession.srun. apply fold_left_app. Qed.

(** From ANY terminal [t0], for every session (foreign output, start with either value of
    the flag, redraws / clear() / clear_images(), stop, new screen objects, any number of
    cycles) whose steps are well-formed: after a redraw nothing is queued and the
    placements in view are exactly the image lines of the view set just drawn. *)
Lemma sessions_no_ghosts_lemma : forall t0 ops V base,
  sess_wf (sworld_init t0) (ops ++ [SOp (ORedraw V base)]) ->
  let sw := srun (ops ++ [SOp (ORedraw V base)]) (sworld_init t0) in
  w_queue (sw_w sw) = [] /\ forall p, In p (vis_plcs (sw_term sw)) <-> In p (plcs_of V).
Proof.
  intros t0 ops V base Hwf. apply sess_wf_app in Hwf. destruct Hwf as [Ha [[Est [Hb Hc]] _]].
  cbv zeta. rewrite srun_app.
  pose proof (srun_inv ops _ (sinv_init t0) Ha) as Hg. unfold sinv in Hg. rewrite Est in Hg.
  set (sw0 := srun ops (sworld_init t0)) in *.
  destruct (step_redraw_good H konsole lines kittyw _ V base Hg Hb Hc) as [_ [_ [Hq Hs]]].
  assert (E : srun [SOp (ORedraw V base)] sw0
              = mk_sworld (step H konsole true lines (sw_w sw0) (ORedraw V base))
                          (sw_hid sw0) (sw_alt sw0) (sw_sav sw0) true (sw_mode sw0)).
  { unfold srun_code, ScreenSession.srun. cbn [fold_left]. unfold ScreenSession.sstep. rewrite Est. reflexivity. }
  rewrite E. unfold vis_plcs, sw_term. cbn [sw_w b_vis]. split; [exact Hq|exact Hs].
Qed.

(** ... and inside every such session: a start (either flag) leaves nothing in view, a stop
    leaves nothing on the buffer the screen ran on, clear() (flushed) leaves nothing in view *)
Lemma sessions_cleared_lemma : forall t0 ops,
  sess_wf (sworld_init t0) ops ->
  let sw := srun ops (sworld_init t0) in
  (forall alt inner, sw_started sw = false -> forallb no_place inner = true ->
     vis_plcs (sw_term (sstep sw (SStart alt inner))) = [])
  /\ (forall i1 i2, sw_started sw = true -> forallb no_place i1 = true -> forallb no_place i2 = true ->
        buf_plcs (sw_alt sw) (sw_term (sstep sw (SStop i1 i2))) = [])
  /\ (sw_started sw = true ->
        t_plcs (flushed konsole (sw_w (sstep sw (SOp OClear)))) = []).
Proof.
  intros t0 ops Hwf. cbv zeta.
  pose proof (srun_inv ops _ (sinv_init t0) Hwf) as Hg. unfold sinv in Hg.
  split; [|split].
  - intros alt inner Est Hn. rewrite Est in Hg.
    destruct (start_good _ alt inner Est Hg) as [_ [_ [E _]]]. unfold vis_plcs, sw_term. cbn [b_vis]. exact E.
  - intros i1 i2 Est H1 H2. rewrite Est in Hg.
    destruct (stop_idle _ i1 i2 Est Hg H1 H2) as [_ [_ E]]. exact E.
  - intros Est. rewrite Est in Hg. unfold sstep_code, ScreenSession.sstep. rewrite Est. cbn [sw_w].
    apply (step_clear_good H konsole lines kittyw). exact Hg.
Qed.

End Sessions.

(** *** non-vacuity and sensitivity *)

(** a screen of 4 rows; one kitty image widget (canvas 1, widget 0, z = 1) shown through one
    view of 6 x 2 cells at row 2; the terminal holds a stale placement (an image printed by
    an earlier command) when the screen is started WITHOUT the alternate buffer; later the
    screen is stopped, another image is printed, and the screen is started again with the
    alternate buffer *)
Definition skcanv : canvinfo := mk_canv 1 (CImage 0 (WKitty 1)).
Definition sframe : list view := [mk_view skcanv 2 1 0 0 6 2].
Definition s_lines (v : view) : list (Z * Z * Z) :=
  map (fun k => (Z.of_nat (v_row v - 1 + k), Z.of_nat (v_col v - 1), Z.of_nat (v_cols v))) (seq 0 (v_rows v)).
Definition s_kittyw (w : nat) : bool := Nat.eqb w 0.
Definition sbase (y : Z) : Z := 0%Z.
Definition stale_out : list btok := [BT (KCup 0 0); BT (KPlace 6 1 0 true); BT (KCup 3 0)].

Definition ex_session : list sess_op :=
  [SPre stale_out; SStart false [KOther]; SOp (ORedraw sframe sbase); SOp OClear; SOp (ORedraw sframe sbase);
   SStop [KOther] [KOther]; SPre stale_out; SNewScreen; SStart true [KOther]].

Ltac in_cases' H := simpl in H; repeat (destruct H as [<-|H]); try contradiction.

Lemma s_wf0 : forall prev, prev = [] \/ prev = sframe -> wf_redraw 4 false s_lines s_kittyw prev sframe.
Proof.
  intros prev [-> | ->]; constructor.
  - intros v Hin. in_cases' Hin; reflexivity.
  - intros v Hin. in_cases' Hin; reflexivity.
  - intros v1 v2 H1 H2 _ _. in_cases' H1; in_cases' H2; split; reflexivity.
  - intros v Hin _. in_cases' Hin; discriminate.
  - intros p Hin. vm_compute in Hin. in_cases' Hin; vm_compute; tauto.
  - intros p q Hp Hq Hne. vm_compute in Hp, Hq. in_cases' Hp; in_cases' Hq; try reflexivity; congruence.
  - intros v Hin. in_cases' Hin; reflexivity.
  - intros v Hin. in_cases' Hin; reflexivity.
  - intros v1 v2 H1 H2 _ _. in_cases' H1; in_cases' H2; split; reflexivity.
  - intros v Hin _. in_cases' Hin; discriminate.
  - intros p Hin. vm_compute in Hin. in_cases' Hin; vm_compute; tauto.
  - intros p q Hp Hq Hne. vm_compute in Hp, Hq. in_cases' Hp; in_cases' Hq; try reflexivity; congruence.
Qed.

(** the hypotheses of [sessions_no_ghosts] hold on this session ... *)
Example ex_session_wf :
  sess_wf 4 false s_lines s_kittyw (sworld_init bterm_init) (ex_session ++ [SOp (ORedraw sframe sbase)]).
Proof.
  unfold ex_session. cbn [app sess_wf sess_op_wf].
  assert (R : forall sw, sw_started sw = true ->
              s_prev (w_scr (sw_w sw)) = [] \/ s_prev (w_scr (sw_w sw)) = sframe -> w_sb (sw_w sw) = None ->
              sw_started sw = true /\ wf_redraw 4 false s_lines s_kittyw (s_prev (w_scr (sw_w sw))) sframe
              /\ count_ok (sw_w sw) sframe).
  { intros sw Hs Hp Hn. split; [exact Hs|]. split; [apply s_wf0; exact Hp|]. intro Hc. exfalso. apply Hc. exact Hn. }
  split; [reflexivity|]. split; [reflexivity|].
  split; [apply R; [reflexivity|left; reflexivity|reflexivity]|].
  split; [reflexivity|].
  split; [apply R; [reflexivity|right; reflexivity|reflexivity]|].
  split; [split; reflexivity|]. split; [reflexivity|]. split; [reflexivity|]. split; [reflexivity|].
  split; [apply R; [reflexivity|left; reflexivity|reflexivity]|]. exact I.
Qed.

(** ... and the run is what one expects: the stale placement is gone after the inline start,
    the two image lines are in view after each redraw, nothing is in view after the second
    start, and the main buffer still holds what the other program put there *)
Example ex_session_run :
  let run := fun ops => sw_term (srun_code 4 false true s_lines ops (sworld_init bterm_init)) in
  vis_plcs (run [SPre stale_out]) = [mk_plc 0 0 6 1 0]
  /\ vis_plcs (run [SPre stale_out; SStart false [KOther]]) = []
  /\ plcs_same (vis_plcs (run [SPre stale_out; SStart false [KOther]; SOp (ORedraw sframe sbase)]))
               (plcs_of s_lines sframe) = true
  /\ length (plcs_of s_lines sframe) = 2
  /\ vis_plcs (run ex_session) = []
  /\ main_plcs (run ex_session) = [mk_plc 0 0 6 1 0]
  /\ plcs_same (vis_plcs (run (ex_session ++ [SOp (ORedraw sframe sbase)]))) (plcs_of s_lines sframe) = true.
Proof. vm_compute. repeat split; reflexivity. Qed.

(** the same session with a _start that clears only when the alternate buffer is used: the
    stale placement is still in view after the redraw (a ghost that no later redraw removes:
    the screen does not track it) *)
Example sessions_no_ghosts_refuted_if_start_guarded :
  let sw := srun 4 false true s_lines start_session_guarded stop_session
                 [SPre stale_out; SStart false [KOther]; SOp (ORedraw sframe sbase); SOp (ORedraw [] sbase)]
                 (sworld_init bterm_init) in
  vis_plcs (sw_term sw) = [mk_plc 0 0 6 1 0] /\ plcs_of s_lines [] = [].
Proof. vm_compute. split; reflexivity. Qed.
