(** * BlockSrcTie — the two kernels of the block renderer ([update_buffer()] and the run-boundary
    test of [BlockImage._render_image]), TRANSLATED from the source on every run
    ([gen/BlockSrc.v], by [harness/tx/tx_block.py], which also pins the loop skeleton around
    them), are, for ALL arguments, the model's [Block.update_buffer] and [Block.flush_cond] that
    the C01 / C02 block theorems are about. *)
From Coq Require Import List ZArith Bool Lia.
Import ListNotations.
From TI Require Import lib.Term lib.TermFacts model.Block gen.BlockSrc.
Open Scope Z_scope.

Lemma eqb_sym0 : forall z, (0 =? z) = (z =? 0).
Proof. intros; apply Z.eqb_sym. Qed.

Theorem update_buffer_is_source : forall alpha kitty bgcol split c1 c2 ac1 ac2 n,
  update_buffer alpha kitty bgcol split c1 c2 ac1 ac2 n
  = src_update_buffer alpha kitty bgcol split c1 c2 ac1 ac2 n.
Proof.
  intros alpha kitty bgcol split [[r g] b] c2 ac1 ac2 n.
  unfold update_buffer, src_update_buffer, is_bg, orgb_eqb, nudge.
  rewrite eqb_sym0.
  destruct c2 as [[r2 g2] b2].
  destruct alpha; cbn [andb orb negb];
    destruct (ac1 =? 0); destruct (ac2 =? 0); cbn [andb orb negb app];
    try reflexivity;
    destruct kitty; cbn [andb];
    try (destruct bgcol as [bb|]);
    try (destruct (rgb_eqb (r2, g2, b2) bb));
    try (destruct (r2 <? 255));
    rewrite ?app_nil_r; cbn [app];
    match goal with
    | |- context [rgb_eqb ?x ?y] => destruct (rgb_eqb x y)
    | _ => idtac
    end; rewrite ?app_nil_r; reflexivity.
Qed.

Theorem flush_cond_is_source : forall alpha c1 c2 ac1 ac2 p,
  flush_cond alpha c1 c2 ac1 ac2 p
  = src_run_boundary alpha c1 c2 ac1 ac2 (p1 p) (p2 p) (a1 p) (a2 p).
Proof.
  intros. unfold flush_cond, src_run_boundary.
  rewrite !andb_assoc. reflexivity.
Qed.
