(** * IterProofs — the render iterator refines its documented model (C08, and the
      simulation used by C09) *)
From Coq Require Import List ZArith Bool Lia.
Import ListNotations.
From TI Require Import model.Iter model.IterSpec.
Open Scope Z_scope.

Lemma whence_eqb_eq : forall a b, whence_eqb a b = true <-> a = b.
Proof. destruct a, b; simpl; split; congruence. Qed.
Lemma dur_eqb_eq : forall a b, dur_eqb a b = true <-> a = b.
Proof.
  destruct a, b; simpl; split; try congruence; intros H.
  - apply Z.eqb_eq in H. congruence.
  - inversion H. apply Z.eqb_refl.
Qed.
Lemma size_eqb_eq : forall a b : size, size_eqb a b = true <-> a = b.
Proof.
  intros [a1 a2] [b1 b2]; unfold size_eqb; simpl. rewrite andb_true_iff, !Z.eqb_eq.
  split; [intros [-> ->]; reflexivity | intros H; inversion H; auto].
Qed.

Section Proofs.
  Variable RS : Type.
  Variable render : RS -> Z -> whence -> size -> dur -> Z -> rres * RS.
  Variable n : option Z.
  Variable term : size.

  Notation state := (state RS).
  Notation astate := (astate RS).
  Notation step := (step RS render n term).
  Notation spec_step := (spec_step RS render n term).
  Notation trace := (trace RS render n term).
  Notation spec_trace := (spec_trace RS render n term).
  Notation run := (run RS render n term).
  Notation spec_run := (spec_run RS render n term).

  (** the renderable's result does not depend on its own history *)
  Definition render_det : Prop :=
    forall r1 r2 o w sz d a, fst (render r1 o w sz d a) = fst (render r2 o w sz d a).

  (** every cache entry is what rendering that frame with the recorded settings gives *)
  Definition cache_sound (s : state) : Prop :=
    forall i e, cache s i = Some e ->
      forall r, fst (render r i WStart (ce_size e) (ce_dur e) (ce_args e)) = ROk (ce_frame e).

  (** the abstraction relation *)
  Definition R (s : state) (a : astate) : Prop :=
    closed s = a_closed a /\ pub_loop s = a_loop a /\
    (closed s = false ->
       g_loop s = pub_loop s /\ g_loop s <> 0 /\
       fo (rd s) = a_next a /\ wh (rd s) = a_wh a /\ d_size (rd s) = a_size a /\
       d_dur (rd s) = a_dur a /\ args s = a_args a /\ pad s = a_pad a /\
       padded s = padded_size (pad s) (d_size (rd s)) /\
       (definite n = true -> wh (rd s) = WStart) /\
       (definite n = false -> cached s = false) /\
       ((cached s = false /\ rs s = a_rs a) \/ render_det) /\
       cache_sound s).

  Lemma reset_rd : forall k w sz du,
      (if negb (k =? 0) || negb (whence_eqb w WCurrent)
       then {| fo := 0; wh := WCurrent; d_size := sz; d_dur := du |}
       else {| fo := k; wh := w; d_size := sz; d_dur := du |})
      = {| fo := 0; wh := WCurrent; d_size := sz; d_dur := du |}.
  Proof.
    intros. destruct (k =? 0) eqn:E; destruct w; cbn; try reflexivity.
    apply Z.eqb_eq in E. subst. reflexivity.
  Qed.

  (** the part of [spec_next] after the loop bookkeeping *)
  Definition spec_render (a : astate) (l k : Z) : astate * out :=
    let w := match n with Some _ => WStart | None => a_wh a end in
    let '(res, r') := render (a_rs a) k w (a_size a) (a_dur a) (a_args a) in
    match res with
    | ROk f =>
      ({| a_closed := false;
          a_next := match n with Some _ => k + 1 | None => 0 end;
          a_wh := match n with Some _ => a_wh a | None => WCurrent end;
          a_loop := l; a_size := a_size a; a_dur := a_dur a; a_args := a_args a;
          a_pad := a_pad a; a_rs := r' |},
       OFrame (wrap_frame (a_pad a) (padded_size (a_pad a) (a_size a)) f))
    | RStop =>
      match n with
      | Some _ => (a_end RS a l r', OErr EStopDefinite)
      | None => (a_end RS a 0 r', OStop)
      end
    | RErr e => (a_end RS a l r', OErr (ERender e))
    end.

  Lemma spec_next_eq : forall a,
      spec_next RS render n a =
      let wrap := match n with Some k => k <=? a_next a | None => false end in
      let l := if wrap && (0 <? a_loop a) then a_loop a - 1 else a_loop a in
      if wrap && (l =? 0) then (a_end RS a l (a_rs a), OStop)
      else spec_render a l (if wrap then 0 else a_next a).
  Proof. reflexivity. Qed.

  Lemma sim_body : forall s a l k fno,
      closed s = false -> g_loop s = l -> pub_loop s = l -> l <> 0 ->
      fo (rd s) = k -> wh (rd s) = a_wh a -> d_size (rd s) = a_size a ->
      d_dur (rd s) = a_dur a -> args s = a_args a -> pad s = a_pad a ->
      padded s = padded_size (pad s) (d_size (rd s)) ->
      (definite n = true -> wh (rd s) = WStart /\ fno = k) ->
      (definite n = false -> cached s = false) ->
      ((cached s = false /\ rs s = a_rs a) \/ render_det) ->
      cache_sound s ->
      snd (body RS render n s fno) = snd (spec_render a l k) /\
      R (fst (body RS render n s fno)) (fst (spec_render a l k)).
  Proof.
    intros s a l k fno Hcl Hgl Hpl Hl0 Hfo Hwh Hsz Hdu Har Hpd Hpdd Hdef Hind Hmode Hcs.
    destruct s as [cl ph gl pl' [f w sz du] ar pd pdd cd ch g r rf].
    destruct a as [acl anx awh alp asz adu aar apd ars].
    cbn in *. subst.
    unfold body, render_frame, spec_render; cbn.
    destruct (render ars k (match n with Some _ => WStart | None => awh end) asz adu aar)
      as [res' r1'] eqn:Er'.
    assert (Hw : awh = match n with Some _ => WStart | None => awh end).
    { destruct n; [apply Hdef; reflexivity | reflexivity]. }
    destruct (render r k awh asz adu aar) as [res r1] eqn:Er.
    assert (res = res' /\ ((cd = false /\ r1 = r1') \/ render_det)) as [-> Hmode'].
    { rewrite <- Hw in Er'.
      destruct Hmode as [[-> ->]|Hd].
      - rewrite Er in Er'. inversion Er'. auto.
      - split; [| auto]. specialize (Hd r ars k awh asz adu aar). rewrite Er, Er' in Hd. exact Hd. }
    destruct cd.
    - (* cached: definite, deterministic *)
      destruct Hmode' as [[? _]|Hd]; [discriminate|].
      destruct n as [k'|] eqn:En; [|specialize (Hind eq_refl); discriminate].
      destruct (Hdef eq_refl) as [-> ->]. clear Hdef Hind Hw Hmode.
      assert (Hupd : forall f0, res' = ROk f0 ->
                cache_sound {| closed := false; phase := AtFrame; g_loop := l; pub_loop := l;
                               rd := {| fo := k + 1; wh := WStart; d_size := asz; d_dur := adu |};
                               args := aar; pad := apd; padded := padded_size apd asz; cached := true;
                               cache := upd ch k (Some {| ce_frame := f0; ce_size := asz; ce_dur := adu; ce_args := aar |});
                               gh := gh (log_render RS {| closed := false; phase := ph; g_loop := l; pub_loop := l;
                                     rd := {| fo := k; wh := WStart; d_size := asz; d_dur := adu |};
                                     args := aar; pad := apd; padded := padded_size apd asz; cached := true;
                                     cache := ch; gh := g; rs := r; r_frame := rf |});
                               rs := r1; r_frame := rf |}).
      { intros f0 -> i e; cbn. unfold upd. destruct (i =? k) eqn:Ei.
        - apply Z.eqb_eq in Ei. subst i. intros He r0. inversion He; subst; cbn.
          rewrite (Hd r0 ars). rewrite Er'. reflexivity.
        - apply Hcs. }
      destruct (ch k) as [e|] eqn:Ec; [destruct (key_eqb e {| fo := k; wh := WStart; d_size := asz; d_dur := adu |} aar) eqn:Ek|].
      + (* hit *)
        unfold key_eqb in Ek; cbn in Ek. apply andb_true_iff in Ek. destruct Ek as [Ek Ea].
        apply andb_true_iff in Ek. destruct Ek as [Es Ed].
        apply size_eqb_eq in Es. apply dur_eqb_eq in Ed. apply Z.eqb_eq in Ea.
        pose proof (Hcs k e Ec ars) as Hh. cbn in Hh. rewrite Es, Ed, Ea, Er' in Hh. cbn in Hh. subst res'.
        unfold deliver; cbn. split; [reflexivity|]. unfold R; rewrite ?En; cbn.
        repeat split; auto; try discriminate; try (right; exact Hd); try (intros ? ?; cbn; apply Hcs).
      + destruct res' as [f0| |e']; cbn; unfold deliver, close; cbn;
          (split; [reflexivity|]); unfold R; rewrite ?En; cbn; repeat split; auto; try discriminate; try (right; exact Hd).
        apply (Hupd f0 eq_refl).
      + destruct res' as [f0| |e']; cbn; unfold deliver, close; cbn;
          (split; [reflexivity|]); unfold R; rewrite ?En; cbn; repeat split; auto; try discriminate; try (right; exact Hd).
        apply (Hupd f0 eq_refl).
    - (* not cached *)
      assert (Hm : (false = false /\ r1 = r1') \/ render_det) by (destruct Hmode' as [[_ ->]|Hd]; auto).
      clear Hmode' Hmode.
      destruct res' as [f0| |e]; destruct n as [k'|] eqn:En; cbn; unfold deliver, close; cbn;
        rewrite ?reset_rd;
        (split; [reflexivity|]); unfold R; cbn; rewrite ?En; cbn.
      all: repeat split; auto; try discriminate; try (intros; apply Hdef; reflexivity).
      all: try (destruct Hm as [[_ ->]|Hd]; auto).
      all: try (intros i e; cbn; apply Hcs).
  Qed.

  Lemma sim_step : forall s a o,
      R s a ->
      snd (step s o) = snd (spec_step a o) /\ R (fst (step s o)) (fst (spec_step a o)).
  Proof.
    intros s a o HR.
    destruct s as [cl ph gl pl [f w sz du] ar pd pdd cd ch g r rf].
    destruct a as [acl anx awh alp asz adu aar apd ars].
    unfold R in HR; cbn in HR. destruct HR as (Hc & Hl & H). subst acl alp.
    destruct cl.
    - destruct o; cbn; unfold next, seek, set_duration, set_padding, set_render_args, set_render_size, close; cbn;
        (split; [reflexivity | unfold R; cbn; repeat split; congruence]).
    - specialize (H eq_refl).
      destruct H as (Hg & Hg0 & Hfo & Hwh & Hsz & Hdu & Har & Hpd & Hpdd & Hdef & Hind & Hmode & Hcs).
      cbn in *. subst.
      destruct o.
      + (* Next *)
        cbn [step spec_step a_closed]. rewrite spec_next_eq. unfold next. cbn [closed phase g_loop rd fo a_next a_loop].
        assert (Hpl : (pl =? 0) = false) by (apply Z.eqb_neq; exact Hg0).
        rewrite Hpl.
        destruct n as [k|] eqn:En.
        * (* definite *)
          specialize (Hdef eq_refl). subst awh. unfold fc, definite.
          rewrite Z.mul_1_r.
          assert (Hnx : (if anx <? k then true else false) = negb (k <=? anx)).
          { destruct (anx <? k) eqn:E1, (k <=? anx) eqn:E2; try reflexivity; lia. }
          destruct (k <=? anx) eqn:Ew.
          -- (* end of pass *)
             assert (E1 : (anx <? k) = false) by lia. rewrite E1.
             assert (Hpe : forall ph',
               snd (pass_end RS render (Some k) {| closed := false; phase := ph'; g_loop := pl; pub_loop := pl;
                      rd := {| fo := anx; wh := WStart; d_size := asz; d_dur := adu |}; args := aar; pad := apd;
                      padded := padded_size apd asz; cached := cd; cache := ch; gh := g; rs := r; r_frame := rf |})
               = snd (let l := if true && (0 <? pl) then pl - 1 else pl in
                      if true && (l =? 0) then (a_end RS {| a_closed := false; a_next := anx; a_wh := WStart; a_loop := pl; a_size := asz; a_dur := adu; a_args := aar; a_pad := apd; a_rs := ars |} l ars, OStop)
                      else spec_render {| a_closed := false; a_next := anx; a_wh := WStart; a_loop := pl; a_size := asz; a_dur := adu; a_args := aar; a_pad := apd; a_rs := ars |} l 0)
               /\
               R (fst (pass_end RS render (Some k) {| closed := false; phase := ph'; g_loop := pl; pub_loop := pl;
                      rd := {| fo := anx; wh := WStart; d_size := asz; d_dur := adu |}; args := aar; pad := apd;
                      padded := padded_size apd asz; cached := cd; cache := ch; gh := g; rs := r; r_frame := rf |}))
                 (fst (let l := if true && (0 <? pl) then pl - 1 else pl in
                      if true && (l =? 0) then (a_end RS {| a_closed := false; a_next := anx; a_wh := WStart; a_loop := pl; a_size := asz; a_dur := adu; a_args := aar; a_pad := apd; a_rs := ars |} l ars, OStop)
                      else spec_render {| a_closed := false; a_next := anx; a_wh := WStart; a_loop := pl; a_size := asz; a_dur := adu; a_args := aar; a_pad := apd; a_rs := ars |} l 0))).
             { intros ph'. unfold pass_end. cbn -[body spec_render Z.sub].
               destruct (0 <? pl) eqn:Ep; cbn -[body spec_render Z.sub].
               - destruct (pl - 1 =? 0) eqn:E0.
                 + unfold close; cbn. split; [reflexivity|]. unfold R; cbn. repeat split; auto; discriminate.
                 + rewrite <- En. apply sim_body; cbn; auto; try (rewrite En; cbn; auto; try discriminate).
                   apply Z.eqb_neq; exact E0.
               - rewrite Hpl. rewrite <- En. apply sim_body; cbn; auto; try (rewrite En; cbn; auto; try discriminate). }
             destruct ph; apply Hpe.
          -- assert (E1 : (anx <? k) = true) by lia. rewrite E1. cbn [andb].
             destruct ph; rewrite <- En; apply sim_body; cbn; auto; try (rewrite En; cbn; auto; try discriminate).
        * (* INDEFINITE *)
          unfold fc, definite. rewrite Z.mul_0_r. cbn [andb].
          change (0 <? 1) with true. cbn iota.
          destruct ph; rewrite <- En; apply sim_body; cbn; auto; try (rewrite En; cbn; auto; try discriminate).
      + (* Seek *)
        cbn. unfold seek, seek_target, indefinite_seek_ok; cbn.
        destruct n as [k|] eqn:En; cbn.
        * replace (k - 1 + off) with (k + off - 1) by lia.
          specialize (Hdef eq_refl). subst awh.
          destruct ((0 <=? match w with WStart => off | WCurrent => anx + off | WEnd => k + off - 1 end) &&
                    (match w with WStart => off | WCurrent => anx + off | WEnd => k + off - 1 end <? k)) eqn:E; cbn;
            (split; [reflexivity|]; unfold R; rewrite En; cbn; repeat split; auto).
        * destruct w; cbn; [destruct (off <? 0) eqn:E1, (0 <=? off) eqn:E2; try lia
                           | | destruct (0 <? off) eqn:E1, (off <=? 0) eqn:E2; try lia]; cbn;
            (split; [reflexivity|]; unfold R; rewrite En; cbn; repeat split; auto; discriminate).
      + (* SetDuration *)
        cbn. unfold set_duration; cbn. destruct d as [|ms]; cbn; [|destruct (ms <=? 0)]; cbn;
          (split; [reflexivity|]; unfold R; cbn; repeat split; auto).
      + (* SetPadding *)
        cbn. unfold set_padding; cbn. split; [reflexivity|]; unfold R; cbn; repeat split; auto.
      + (* SetArgs *)
        cbn. unfold set_render_args; cbn. destruct a as [v|]; cbn;
          (split; [reflexivity|]; unfold R; cbn; repeat split; auto).
      + (* SetSize *)
        cbn. unfold set_render_size; cbn. split; [reflexivity|]; unfold R; cbn; repeat split; auto.
      + cbn. unfold close; cbn. split; [reflexivity|]; unfold R; cbn; repeat split; auto; discriminate.
      + cbn. unfold close; cbn. split; [reflexivity|]; unfold R; cbn; repeat split; auto; discriminate.
  Qed.
  Lemma sim_trace : forall ops s a, R s a -> trace s ops = spec_trace a ops.
  Proof.
    induction ops as [|o ops IH]; intros s a HR; [reflexivity|].
    cbn [Iter.trace IterSpec.spec_trace].
    destruct (sim_step s a o HR) as [Ho HR'].
    destruct (step s o) as [s' x]. destruct (spec_step a o) as [a' y]. cbn in *. subst y.
    pose proof HR' as (Hc & Hl & H). rewrite Hl. f_equal. apply IH. exact HR'.
  Qed.

  Lemma sim_run : forall ops s a, R s a -> R (run s ops) (spec_run a ops).
  Proof.
    induction ops as [|o ops IH]; intros s a HR; [exact HR|].
    cbn. apply IH. apply sim_step. exact HR.
  Qed.

  (** construction: same verdict, related states *)
  Lemma sim_mk : forall c rs0,
      (cache_decision n (c_cache c) = false \/ render_det) ->
      match mk RS n term c rs0, spec_mk RS n term c rs0 with
      | inl s, inl a => R s a
      | inr e, inr e' => e = e'
      | _, _ => False
      end.
  Proof.
    intros c rs0 Hmode. unfold mk, spec_mk.
    destruct (match n with Some k => k <? 2 | None => false end); [reflexivity|].
    destruct (c_loops c =? 0) eqn:El; [reflexivity|].
    assert (Hcv : negb (cache_valid (c_cache c)) = match c_cache c with CBool _ => false | CInt v => v <=? 0 end).
    { destruct (c_cache c) as [b|v]; cbn; [reflexivity|].
      destruct (0 <? v) eqn:E1, (v <=? 0) eqn:E2; try reflexivity; lia. }
    rewrite Hcv. destruct (match c_cache c with CBool _ => false | CInt v => v <=? 0 end); [reflexivity|].
    destruct (c_args c) as [v|]; [|reflexivity].
    unfold R; cbn. apply Z.eqb_neq in El.
    assert (Hl : (if definite n then c_loops c else 1) = match n with Some _ => c_loops c | None => 1 end)
      by (unfold definite; destruct n; reflexivity).
    rewrite Hl.
    repeat split; auto.
    - destruct n; [exact El | discriminate].
    - unfold definite, cache_decision. destruct n; [discriminate | reflexivity].
    - destruct Hmode as [Hm|Hm]; [left; split; auto | right; exact Hm].
    - intros i e; cbn; discriminate.
  Qed.

  (** ** C08: the iterator yields what the documented model yields *)
  Theorem iter_refines_spec : forall c rs0 s a ops,
      (cache_decision n (c_cache c) = false \/ render_det) ->
      mk RS n term c rs0 = inl s -> spec_mk RS n term c rs0 = inl a ->
      trace s ops = spec_trace a ops.
  Proof.
    intros c rs0 s a ops Hmode Hs Ha. apply sim_trace.
    pose proof (sim_mk c rs0 Hmode) as H. rewrite Hs, Ha in H. exact H.
  Qed.

  Theorem mk_refines_spec : forall c rs0,
      (forall e, mk RS n term c rs0 = inr e <-> spec_mk RS n term c rs0 = inr e).
  Proof.
    intros c rs0 e. unfold mk, spec_mk.
    assert (Hcv : negb (cache_valid (c_cache c)) = match c_cache c with CBool _ => false | CInt v => v <=? 0 end).
    { destruct (c_cache c) as [b|v]; cbn; [reflexivity|].
      destruct (0 <? v) eqn:E1, (v <=? 0) eqn:E2; try reflexivity; lia. }
    rewrite Hcv.
    destruct (match n with Some k => k <? 2 | None => false end);
      [split; intros H0; inversion H0; reflexivity|].
    destruct (c_loops c =? 0); [split; intros H0; inversion H0; reflexivity|].
    destruct (match c_cache c with CBool _ => false | CInt v => v <=? 0 end);
      [split; intros H0; inversion H0; reflexivity|].
    destruct (c_args c); [split; discriminate | split; intros H0; inversion H0; reflexivity].
  Qed.
End Proofs.
