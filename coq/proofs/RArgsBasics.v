(** Basic facts about the class forest and the ordered dictionaries of [model/RArgs.v]. *)
From Coq Require Import List ZArith Bool Arith Lia.
Import ListNotations.
From TI Require Import model.RArgs.

Local Arguments Nat.eqb : simpl never.

(** ** generic *)

Lemma zl_eqb_eq : forall a b, zl_eqb a b = true <-> a = b.
Proof.
  induction a as [|x a IH]; destruct b as [|y b]; simpl; split; intro H;
    try reflexivity; try discriminate.
  - apply andb_true_iff in H as [H1 H2]. apply Z.eqb_eq in H1. apply IH in H2. congruence.
  - inversion H; subst. rewrite Z.eqb_refl. simpl. apply IH. reflexivity.
Qed.

Lemma forallb_ext' : forall A (f g : A -> bool) l,
  (forall x, f x = g x) -> forallb f l = forallb g l.
Proof. induction l; simpl; intros; [reflexivity|]. rewrite H, IHl by assumption. reflexivity. Qed.

Lemma fupd_same : forall A (f : nat -> A) i x, fupd f i x i = x.
Proof. intros. unfold fupd. rewrite Nat.eqb_refl. reflexivity. Qed.
Lemma fupd_other : forall A (f : nat -> A) i x j, j <> i -> fupd f i x j = f j.
Proof. intros. unfold fupd. destruct (Nat.eqb j i) eqn:E; [apply Nat.eqb_eq in E; contradiction|reflexivity]. Qed.

(** ** the forest *)

Section Forest.
Variable F : forest.
Hypothesis WFF : wf_forest F.

Lemma chain_f_fuel : forall f1 f2 c, c <= f1 -> c <= f2 ->
  chain_f (par F) f1 c = chain_f (par F) f2 c.
Proof.
  induction f1 as [|f1 IH]; intros f2 c H1 H2.
  - assert (c = 0) by lia; subst. destruct f2; reflexivity.
  - destruct f2 as [|f2].
    + assert (c = 0) by lia; subst. reflexivity.
    + simpl. destruct (Nat.eqb c 0) eqn:E; [reflexivity|].
      apply Nat.eqb_neq in E. f_equal. destruct WFF as [Hp _].
      assert (par F c < c) by (apply Hp; lia). apply IH; lia.
Qed.

Lemma chain_0 : chain F 0 = [0].
Proof. reflexivity. Qed.

Lemma chain_unfold : forall c, 0 < c -> chain F c = c :: chain F (par F c).
Proof.
  intros c Hc. unfold chain. destruct c as [|c]; [lia|]. simpl.
  replace (Nat.eqb (S c) 0) with false by (symmetry; apply Nat.eqb_neq; lia).
  f_equal. destruct WFF as [Hp _]. assert (par F (S c) < S c) by (apply Hp; lia).
  apply chain_f_fuel; lia.
Qed.

Lemma anc_0 : forall a, anc F a 0 = Nat.eqb a 0.
Proof. intros. unfold anc. rewrite chain_0. simpl. apply orb_false_r. Qed.

Lemma anc_unfold : forall a c, 0 < c -> anc F a c = Nat.eqb a c || anc F a (par F c).
Proof. intros. unfold anc. rewrite chain_unfold by assumption. reflexivity. Qed.

Lemma anc_refl : forall a, anc F a a = true.
Proof.
  intros. destruct a.
  - rewrite anc_0. reflexivity.
  - rewrite anc_unfold by lia. rewrite Nat.eqb_refl. reflexivity.
Qed.

Lemma anc_le : forall c a, anc F a c = true -> a <= c.
Proof.
  induction c as [c IH] using lt_wf_ind. intros a H.
  destruct c.
  - rewrite anc_0 in H. apply Nat.eqb_eq in H. lia.
  - rewrite anc_unfold in H by lia. apply orb_true_iff in H as [H|H].
    + apply Nat.eqb_eq in H. lia.
    + destruct WFF as [Hp _]. assert (par F (S c) < S c) by (apply Hp; lia).
      apply IH in H; lia.
Qed.

Lemma anc_trans : forall c a b, anc F a b = true -> anc F b c = true -> anc F a c = true.
Proof.
  induction c as [c IH] using lt_wf_ind. intros a b Hab Hbc.
  destruct c.
  - rewrite anc_0 in Hbc. apply Nat.eqb_eq in Hbc. subst. exact Hab.
  - rewrite anc_unfold in Hbc by lia. apply orb_true_iff in Hbc as [H|H].
    + apply Nat.eqb_eq in H. subst. exact Hab.
    + rewrite anc_unfold by lia. apply orb_true_iff. right.
      destruct WFF as [Hp _]. assert (par F (S c) < S c) by (apply Hp; lia).
      eapply IH; eauto.
Qed.

Lemma anc_root : forall c, anc F 0 c = true.
Proof.
  induction c as [c IH] using lt_wf_ind. destruct c.
  - apply anc_refl.
  - rewrite anc_unfold by lia. apply orb_true_iff. right. apply IH.
    destruct WFF as [Hp _]. apply Hp. lia.
Qed.

(** the two directions of a comparable pair coincide only on equal classes *)
Lemma anc_antisym : forall a b, anc F a b = true -> anc F b a = true -> a = b.
Proof. intros a b H1 H2. apply anc_le in H1. apply anc_le in H2. lia. Qed.

Lemma chain_In : forall a c, In a (chain F c) <-> anc F a c = true.
Proof.
  intros. unfold anc. rewrite existsb_exists. split.
  - intro H. exists a. split; [assumption|apply Nat.eqb_refl].
  - intros [x [H1 H2]]. apply Nat.eqb_eq in H2. subst. assumption.
Qed.

Lemma chain_NoDup : forall c, NoDup (chain F c).
Proof.
  induction c as [c IH] using lt_wf_ind. destruct c.
  - rewrite chain_0. constructor; [intros []|constructor].
  - rewrite chain_unfold by lia. destruct WFF as [Hp _].
    assert (par F (S c) < S c) by (apply Hp; lia).
    constructor.
    + intro H0. apply chain_In in H0. apply anc_le in H0. lia.
    + apply IH. assumption.
Qed.

Lemma keys_In : forall k c, In k (keys F c) <-> anc F k c && hasns F k = true.
Proof.
  intros. unfold keys. rewrite filter_In, chain_In, andb_true_iff. reflexivity.
Qed.

Lemma keys_NoDup : forall c, NoDup (keys F c).
Proof. intros. apply NoDup_filter. apply chain_NoDup. Qed.

Lemma keys_sub : forall a c k, anc F a c = true -> In k (keys F a) -> In k (keys F c).
Proof.
  intros a c k Hac Hk. apply keys_In in Hk. apply keys_In.
  apply andb_true_iff in Hk as [H1 H2]. rewrite H2, andb_true_r. eapply anc_trans; eauto.
Qed.

Lemma keys_0 : keys F 0 = [].
Proof.
  unfold keys. rewrite chain_0. simpl. unfold hasns. destruct WFF as [_ H0]. rewrite H0.
  reflexivity.
Qed.

Lemma defaults_0 : defaults F 0 = [].
Proof. unfold defaults. rewrite keys_0. reflexivity. Qed.

End Forest.

(** ** dictionaries *)

Lemma dget_dset : forall d k v c,
  dget (dset d k v) c = if Nat.eqb k c then Some v else dget d c.
Proof.
  induction d as [|[k0 w] d IH]; intros k v c; simpl.
  - destruct (Nat.eqb k c); reflexivity.
  - destruct (Nat.eqb k0 k) eqn:E; simpl.
    + apply Nat.eqb_eq in E. subst k0. destruct (Nat.eqb k c); reflexivity.
    + destruct (Nat.eqb k0 c) eqn:E2.
      * apply Nat.eqb_eq in E2. subst k0. rewrite Nat.eqb_sym in E. rewrite E. reflexivity.
      * apply IH.
Qed.

Lemma dmem_In : forall d c, dmem d c = true <-> In c (map fst d).
Proof.
  unfold dmem. induction d as [|[k w] d IH]; intros c; simpl.
  - split; [discriminate|intros []].
  - destruct (Nat.eqb k c) eqn:E.
    + apply Nat.eqb_eq in E. split; auto.
    + apply Nat.eqb_neq in E. rewrite IH. split; [auto|intros [H|H]; [contradiction|assumption]].
Qed.

Lemma dget_None_notin : forall d c, dget d c = None <-> ~ In c (map fst d).
Proof.
  intros. rewrite <- dmem_In. unfold dmem. destruct (dget d c); split; intro H;
    try discriminate; try reflexivity; try (intro; discriminate).
  exfalso. apply H. reflexivity.
Qed.

Lemma keys_dset : forall d k v, dmem d k = true -> map fst (dset d k v) = map fst d.
Proof.
  unfold dmem. induction d as [|[k0 w] d IH]; intros k v H; simpl in *.
  - discriminate.
  - destruct (Nat.eqb k0 k) eqn:E; simpl.
    + reflexivity.
    + f_equal. apply IH. assumption.
Qed.

Lemma dmem_dset : forall d k v c, dmem d k = true -> dmem (dset d k v) c = dmem d c.
Proof.
  intros. apply eq_true_iff_eq. rewrite !dmem_In. rewrite keys_dset by assumption. reflexivity.
Qed.

Lemma assign_all_some : forall nss d d',
  assign_all d nss = Some d' ->
  map fst d' = map fst d /\
  forall c, dget d' c = match last_for c nss with Some f => Some f | None => dget d c end.
Proof.
  induction nss as [|[k v] r IH]; intros d d' H; simpl in H.
  - inversion H; subst. split; reflexivity.
  - destruct (dmem d k) eqn:M; [|discriminate].
    apply IH in H as [H1 H2]. split.
    + rewrite H1. apply keys_dset. assumption.
    + intro c. rewrite H2. simpl. destruct (last_for c r); [reflexivity|].
      rewrite dget_dset. destruct (Nat.eqb k c); reflexivity.
Qed.

Lemma assign_all_none : forall nss d,
  assign_all d nss = None <-> forallb (fun n => dmem d (fst n)) nss = false.
Proof.
  induction nss as [|[k v] r IH]; intros d; simpl.
  - split; discriminate.
  - destruct (dmem d k) eqn:M; simpl.
    + rewrite IH. erewrite forallb_ext'; [reflexivity|].
      intros n. apply dmem_dset. assumption.
    + split; reflexivity.
Qed.

Lemma dupdate_assign : forall e d,
  forallb (fun n => dmem d (fst n)) e = true -> assign_all d e = Some (dupdate d e).
Proof.
  unfold dupdate. induction e as [|[k v] r IH]; intros d H; simpl in *.
  - reflexivity.
  - apply andb_true_iff in H as [H1 H2]. rewrite H1. apply IH.
    erewrite forallb_ext'; [exact H2|]. intros n. apply dmem_dset. assumption.
Qed.

Lemma last_for_NoDup : forall e c, NoDup (map fst e) -> last_for c e = dget e c.
Proof.
  induction e as [|[k v] r IH]; intros c H; simpl.
  - reflexivity.
  - inversion H; subst. rewrite IH by assumption.
    destruct (Nat.eqb k c) eqn:E.
    + apply Nat.eqb_eq in E. subst k.
      assert (dget r c = None) as -> by (apply dget_None_notin; assumption). reflexivity.
    + destruct (dget r c); reflexivity.
Qed.

Lemma dget_tabulate : forall (g : nat -> list Z) l c,
  dget (map (fun k => (k, g k)) l) c = if existsb (Nat.eqb c) l then Some (g c) else None.
Proof.
  induction l as [|k l IH]; intros c; simpl.
  - reflexivity.
  - rewrite (Nat.eqb_sym c k). destruct (Nat.eqb k c) eqn:E; simpl.
    + apply Nat.eqb_eq in E. subst. reflexivity.
    + apply IH.
Qed.

Lemma existsb_eqb_In : forall l c, existsb (Nat.eqb c) l = true <-> In c l.
Proof.
  intros. rewrite existsb_exists. split.
  - intros [x [H1 H2]]. apply Nat.eqb_eq in H2. subst. assumption.
  - intro H. exists c. split; [assumption|apply Nat.eqb_refl].
Qed.

Lemma dget_defaults : forall F, wf_forest F -> forall t c,
  dget (defaults F t) c = if anc F c t && hasns F c then Some (dflt F c) else None.
Proof.
  intros F WFF t c. unfold defaults. rewrite dget_tabulate.
  assert (existsb (Nat.eqb c) (keys F t) = anc F c t && hasns F c) as ->; [|reflexivity].
  apply eq_true_iff_eq. rewrite existsb_eqb_In. apply keys_In.
Qed.

Lemma keys_defaults : forall F t, map fst (defaults F t) = keys F t.
Proof. intros. unfold defaults. rewrite map_map. simpl. apply map_id. Qed.

(** a dictionary whose key list is [l] answers exactly on [l] *)
Lemma dget_some_iff : forall d c, (exists f, dget d c = Some f) <-> In c (map fst d).
Proof.
  intros. rewrite <- dmem_In. unfold dmem. destruct (dget d c) as [f|].
  - split; [reflexivity|]. intros _. exists f. reflexivity.
  - split; [intros [f H]; discriminate|discriminate].
Qed.

(** two dictionaries with the same duplicate-free key list and the same answers are equal *)
Lemma dict_ext : forall d1 d2,
  map fst d1 = map fst d2 -> NoDup (map fst d1) ->
  (forall c, dget d1 c = dget d2 c) -> d1 = d2.
Proof.
  induction d1 as [|[k v] d1 IH]; intros [|[k2 v2] d2] Hk Hn Hg; simpl in *;
    try discriminate; try reflexivity.
  injection Hk as Hk1 Hk2. subst k2. apply NoDup_cons_iff in Hn as [Hn1 Hn2].
  assert (v = v2).
  { specialize (Hg k). rewrite Nat.eqb_refl in Hg. congruence. }
  subst v2. f_equal. apply IH; try assumption.
  intro c. specialize (Hg c). destruct (Nat.eqb k c) eqn:E; [|assumption].
  apply Nat.eqb_eq in E. subst c.
  assert (dget d1 k = None) as -> by (apply dget_None_notin; assumption).
  symmetry. apply dget_None_notin. rewrite <- Hk2. assumption.
Qed.
