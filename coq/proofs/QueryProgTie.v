(** * QueryProgTie — the translated body of [utils.query_terminal] ([gen/QueryProgSrc.v],
    regenerated from utils.py by [harness/tx/tx_queryprog.py] on every run) IS
    [QueryFlush.query_F ... flush_before]. *)
From Coq Require Import List ZArith Bool.
Import ListNotations.
From TI Require Import model.Query model.QueryInit model.QueryFlush model.QueryProg gen.QueryProgSrc.

Lemma query_prog_is_query_F_lemma :
  forall (cost : nat -> Z) (cfg : config) (term : terminal) (more : list Z -> bool)
         (request : list Z) (s : ttyA),
    qcall cost cfg term more request src_query_terminal s
    = query_F cost cfg term flush_before more request s.
Proof.
  intros cost cfg term more request s.
  unfold qcall, src_query_terminal, query_F.
  cbn [qrun_list qrun q_ret with_ret].
  destruct (enabled cfg); cbn [negb q_ret with_ret q_tty q_old q_new].
  - destruct (timed_read_A cost more (qtimeout cfg)
                (write_A cost term request (tcsetattr TCSAFLUSH (no_echo (attr s)) s))) as [inp s2] eqn:E.
    cbn [q_ret with_ret q_tty q_old q_new]. reflexivity.
  - reflexivity.
Qed.

(** a program that does NOT discard before the write has a different meaning: unread input
    (type-ahead) is returned as if it were the terminal's reply *)
Lemma query_prog_without_discard_differs_lemma :
  exists (cost : nat -> Z) (cfg : config) (term : terminal) (more : list Z -> bool) (request : list Z) (s : ttyA),
    fst (qcall cost cfg term more request
               [QGuardEnabled; QSaveOld; QSaveNew; QNoEcho;
                QTryFinally [QSet TCSANOW ANew; QWrite; QReturnRead] [QSet TCSANOW AOld]] s)
    = Some [65%Z]
    /\ fst (query_F cost cfg term flush_before more request s) = Some [].
Proof.
  exists (fun _ => 1%Z), (Build_config true 1 false false None None 80 24 0 0 false), (fun _ => []),
         (fun l => match l with [] => true | _ => false end), [27%Z], (ttyA_init cooked [65%Z]).
  split; vm_compute; reflexivity.
Qed.
