(** * IterWrapProofs — the padded size a yielded frame is wrapped with depends on the
      CURRENT padding and the CURRENT render size only (C09, [wrap] invariance)

    - [padded_is_current]: after EVERY history, the stored padded size is
      [get_padded_size] of the stored padding at the stored render size — whichever
      frames were rendered, served from the cache, failed, or never asked for;
    - [settings_by_history]: on an iterator that is not finalized, padding / render size /
      duration / arguments (and hence the padded size) are those established by the latest
      accepted setters of the history — a function of the setter operations alone,
      independent of the renderable, of the frame count, of the [cache] argument;
    - [wrap_current]: every frame yielded anywhere in any history carries the padded size
      and the padding dimensions of the padding / render size in force at that [next]
      ([wrap_okb], the history-level oracle of the correspondence), for every renderable
      that honours the requested size (the contract of [_render_],
      [_renderable.py:1161]). *)
From Coq Require Import List ZArith Bool Lia.
Import ListNotations.
From TI Require Import model.Iter model.IterSpec model.IterTie model.IterWrap
     proofs.IterProofs proofs.IterProofs2.
Open Scope Z_scope.

Section Wrap.
  Variable RS : Type.
  Variable render : RS -> Z -> whence -> size -> dur -> Z -> rres * RS.
  Variable n : option Z.
  Variable term : size.

  Notation state := (state RS).
  Notation step := (step RS render n term).
  Notation trace := (trace RS render n term).
  Notation run := (run RS render n term).

  (** ** the derived state is a function of the two settings it is derived from *)

  Definition winv (s : state) : Prop := padded s = padded_size (pad s) (d_size (rd s)).

  (** the four settings as the iterator stores them *)
  Definition stored (s : state) : settings :=
    {| h_pad := pad s; h_size := d_size (rd s); h_dur := d_dur (rd s); h_args := args s |}.

  (** what an operation may do to (settings, padded size) *)
  Definition same_sp (s s' : state) : Prop := stored s' = stored s /\ padded s' = padded s.

  Lemma same_sp_refl : forall s, same_sp s s.
  Proof. split; reflexivity. Qed.
  Lemma same_sp_trans : forall a b c, same_sp a b -> same_sp b c -> same_sp a c.
  Proof. intros a b c [H1 H2] [H3 H4]. split; congruence. Qed.

  Lemma close_same : forall s, same_sp s (close RS s).
  Proof. intros s. unfold close. destruct (closed s); split; reflexivity. Qed.

  Lemma deliver_same : forall s f, same_sp s (fst (deliver RS n s f)).
  Proof.
    intros s f. unfold deliver. cbn [fst]. split; [|reflexivity]. unfold stored. cbn.
    destruct (definite n); [reflexivity|]. destruct (_ || _); reflexivity.
  Qed.

  Lemma body_same : forall s k, same_sp s (fst (body RS render n s k)).
  Proof.
    intros s k. unfold body, render_frame.
    destruct (if cached s then match cache s k with Some e => if key_eqb e (rd s) (args s) then Some (ce_frame e) else None | None => None end else None).
    - apply deliver_same.
    - destruct (render _ _ _ _ _ _) as [[f| |e] r'].
      + eapply same_sp_trans; [|apply deliver_same]. destruct (cached s); split; reflexivity.
      + destruct (definite n); cbn [fst];
          (eapply same_sp_trans; [|apply close_same]); split; reflexivity.
      + cbn [fst]. eapply same_sp_trans; [|apply close_same]. split; reflexivity.
  Qed.

  Lemma pass_end_same : forall s, same_sp s (fst (pass_end RS render n s)).
  Proof.
    intros s. unfold pass_end.
    set (s1 := set_rd RS s {| fo := 0; wh := wh (rd s); d_size := d_size (rd s); d_dur := d_dur (rd s) |}).
    set (s2 := if 0 <? g_loop s1 then set_pub_loop RS (set_g_loop RS s1 (g_loop s1 - 1)) (g_loop s1 - 1) else s1).
    assert (H2 : same_sp s s2) by (unfold s2; destruct (0 <? g_loop s1); split; reflexivity).
    destruct (g_loop s2 =? 0); cbn [fst].
    - eapply same_sp_trans; [exact H2|apply close_same].
    - eapply same_sp_trans; [exact H2|apply body_same].
  Qed.

  Lemma next_same : forall s, same_sp s (fst (next RS render n s)).
  Proof.
    intros s. unfold next. destruct (closed s); [apply same_sp_refl|].
    destruct (phase s).
    - destruct (g_loop s =? 0); [apply close_same|].
      destruct (_ <? _); [apply body_same|apply pass_end_same].
    - destruct (_ <? _); [apply body_same|apply pass_end_same].
  Qed.

  Lemma winv_step : forall s o, winv s -> winv (fst (step s o)).
  Proof.
    intros s o H.
    assert (Hs : forall s', same_sp s s' -> winv s').
    { intros s' [E1 E2]. unfold winv in *. rewrite E2, H.
      unfold stored in E1. inversion E1. congruence. }
    destruct o; cbn.
    - apply Hs, next_same.
    - unfold seek. destruct (closed s); [exact H|]. destruct n.
      + destruct (_ && _); [apply Hs; split; reflexivity|exact H].
      + destruct (_ || _); [exact H|apply Hs; split; reflexivity].
    - unfold set_duration. destruct (closed s); [exact H|]. destruct d; [exact H|].
      destruct (_ <=? _); exact H.
    - unfold set_padding. destruct (closed s); [exact H|]. reflexivity.
    - unfold set_render_args. destruct (closed s); [exact H|]. destruct a; exact H.
    - unfold set_render_size. destruct (closed s); [exact H|]. reflexivity.
    - apply Hs, close_same.
    - apply Hs, close_same.
  Qed.

  Lemma winv_run : forall ops s, winv s -> winv (run s ops).
  Proof.
    induction ops as [|o ops IH]; intros s H; [exact H|]. cbn. apply IH, winv_step, H.
  Qed.

  Lemma mk_inv : forall c rs0 s,
      mk RS n term c rs0 = inl s ->
      closed s = false /\ winv s /\ stored s = settings0 term c /\ cache s = (fun _ => None).
  Proof.
    intros c rs0 s. unfold mk.
    destruct (match n with Some k => k <? 2 | None => false end); [discriminate|].
    destruct (c_loops c =? 0); [discriminate|].
    destruct (negb (cache_valid (c_cache c))); [discriminate|].
    destruct (c_args c) as [a|] eqn:Ea; [|discriminate]. intros H; inversion H; subst; clear H.
    unfold winv, stored, settings0; cbn. rewrite Ea. repeat split; reflexivity.
  Qed.

  (** *** [wrap] invariance: the padded size used to wrap a yielded frame is a function of
      the current padding and the current render size, after every history *)
  Theorem padded_is_current : forall c rs0 s ops,
      mk RS n term c rs0 = inl s ->
      padded (run s ops) = padded_size (pad (run s ops)) (d_size (rd (run s ops))).
  Proof.
    intros c rs0 s ops Hs. apply winv_run. apply (mk_inv c rs0 s Hs).
  Qed.

  (** ** the stored settings are the ones the history's setters established *)

  Lemma closed_stays : forall s o, closed s = true -> closed (fst (step s o)) = true.
  Proof. intros s o Hc. rewrite (closed_ops_raise RS render n term s o Hc). exact Hc. Qed.

  Lemma stored_step : forall s o,
      closed s = false -> stored (fst (step s o)) = settings_step term (stored s) o.
  Proof.
    intros s o Hc. destruct o; cbn.
    - apply (next_same s).
    - unfold seek. rewrite Hc. destruct n.
      + destruct (_ && _); reflexivity.
      + destruct (_ || _); reflexivity.
    - unfold set_duration. rewrite Hc. destruct d; [reflexivity|].
      destruct (_ <=? _); reflexivity.
    - unfold set_padding. rewrite Hc. reflexivity.
    - unfold set_render_args. rewrite Hc. destruct a; reflexivity.
    - unfold set_render_size. rewrite Hc. reflexivity.
    - apply (close_same s).
    - apply (close_same s).
  Qed.

  Lemma stored_run : forall ops s,
      closed (run s ops) = false -> stored (run s ops) = settings_of term (stored s) ops.
  Proof.
    induction ops as [|o ops IH]; intros s Hc; [reflexivity|]. cbn in *.
    fold (run (fst (step s o)) ops) in *.
    destruct (closed s) eqn:Ecs.
    - exfalso. clear IH. assert (closed (run (fst (step s o)) ops) = true); [|congruence].
      generalize (closed_stays s o Ecs). generalize (fst (step s o)). clear.
      induction ops as [|o' ops IH]; intros s' H'; [exact H'|]. cbn. apply IH, closed_stays, H'.
    - rewrite (IH _ Hc). rewrite stored_step by exact Ecs. reflexivity.
  Qed.

  (** on an iterator that is not finalized, the four settings — and with them the padded
      size — are a function of the history's setter operations alone *)
  Theorem settings_by_history : forall c rs0 s ops,
      mk RS n term c rs0 = inl s -> closed (run s ops) = false ->
      let h := settings_of term (settings0 term c) ops in
      stored (run s ops) = h /\ padded (run s ops) = padded_size (h_pad h) (h_size h).
  Proof.
    intros c rs0 s ops Hs Hc h. pose proof (mk_inv c rs0 s Hs) as (_ & Hw & H0 & _).
    assert (E : stored (run s ops) = h) by (unfold h; rewrite <- H0; apply stored_run, Hc).
    split; [exact E|]. rewrite (padded_is_current c rs0 s ops Hs).
    unfold stored in E. rewrite <- E. reflexivity.
  Qed.

  (** ** every yielded frame is wrapped for the settings in force at its [next] *)

  (** the contract of [_render_]: the frame has the size that was asked for *)
  Definition render_honours_size : Prop :=
    forall r o w sz d a f r', render r o w sz d a = (ROk f, r') -> rf_size f = sz.

  (** cache entries hold frames of the size they are keyed by *)
  Definition cache_sized (s : state) : Prop :=
    forall i e, cache s i = Some e -> rf_size (ce_frame e) = ce_size e.

  Hypothesis Hsize : render_honours_size.

  Lemma wrap_frame_current : forall p sz g,
      rf_size g = sz ->
      frame_wrapped_for {| h_pad := p; h_size := sz; h_dur := DDynamic; h_args := 0 |}
                        (wrap_frame p (padded_size p sz) g) = true.
  Proof.
    intros p sz g Hg. unfold frame_wrapped_for, wrap_frame, wrap_dims. cbn [h_pad h_size].
    rewrite Hg. destruct (size_eqb (padded_size p sz) sz) eqn:E; cbn.
    - apply size_eqb_eq in E. rewrite E. rewrite (proj2 (size_eqb_eq sz sz) eq_refl). reflexivity.
    - rewrite (proj2 (size_eqb_eq _ _) eq_refl). cbn.
      destruct (pad_dims p sz) as [[[l t] r] b]. rewrite !Z.eqb_refl. reflexivity.
  Qed.

  Lemma frame_wrapped_for_ext : forall h h' f,
      h_pad h = h_pad h' -> h_size h = h_size h' -> frame_wrapped_for h f = frame_wrapped_for h' f.
  Proof. intros h h' f E1 E2. unfold frame_wrapped_for. rewrite E1, E2. reflexivity. Qed.

  Lemma close_cache : forall s, cache (close RS s) = cache s.
  Proof. intros s. unfold close. destruct (closed s); reflexivity. Qed.

  (** [body]: the frame it yields (rendered now or taken from the cache) is wrapped for
      the stored settings, and the cache keeps frames of the size they are keyed by *)
  Lemma body_wrapped : forall s k,
      winv s -> cache_sized s ->
      cache_sized (fst (body RS render n s k)) /\
      forall f, snd (body RS render n s k) = OFrame f -> frame_wrapped_for (stored s) f = true.
  Proof.
    intros s k Hw Hcs. unfold body.
    assert (Hdel : forall s0 g, stored s0 = stored s -> padded s0 = padded s ->
                rf_size g = d_size (rd s) ->
                forall f, snd (deliver RS n s0 g) = OFrame f -> frame_wrapped_for (stored s) f = true).
    { intros s0 g Hst Hpd Hg f Hf. unfold deliver in Hf. cbn [snd] in Hf. inversion Hf; subst f.
      assert (Hp : pad s0 = pad s) by (unfold stored in Hst; inversion Hst; reflexivity).
      rewrite Hp, Hpd, Hw.
      rewrite (frame_wrapped_for_ext _ {| h_pad := pad s; h_size := d_size (rd s); h_dur := DDynamic; h_args := 0 |})
        by reflexivity.
      apply wrap_frame_current, Hg. }
    assert (Hdc : forall s0 g, cache (fst (deliver RS n s0 g)) = cache s0) by reflexivity.
    assert (Hsc : forall s0 v, cache (set_cache RS s0 v) = v) by reflexivity.
    destruct (cached s) eqn:Ec.
    - destruct (cache s k) as [e|] eqn:Ee.
      + destruct (key_eqb e (rd s) (args s)) eqn:Ek.
        * split; [unfold cache_sized; rewrite Hdc; exact Hcs|].
          apply Hdel; [reflexivity|reflexivity|]. rewrite (Hcs k e Ee).
          unfold key_eqb in Ek. apply andb_true_iff in Ek. destruct Ek as [Ek _].
          apply andb_true_iff in Ek. destruct Ek as [Ek _]. apply size_eqb_eq in Ek. exact Ek.
        * unfold render_frame.
          destruct (render _ _ _ _ _ _) as [[f| |x] r'] eqn:Er.
          -- rewrite Ec. split.
             ++ unfold cache_sized. rewrite Hdc, Hsc. intros i e0. unfold upd. destruct (i =? k).
                ** intros H; injection H as <-; cbn. eapply Hsize, Er.
                ** apply Hcs.
             ++ apply (Hdel _ f); [reflexivity|reflexivity|]. eapply Hsize, Er.
          -- destruct (definite n); cbn [fst snd]; (split; [|discriminate]);
               unfold cache_sized; rewrite close_cache; exact Hcs.
          -- cbn [fst snd]. split; [|discriminate]. unfold cache_sized; rewrite close_cache; exact Hcs.
      + unfold render_frame.
        destruct (render _ _ _ _ _ _) as [[f| |x] r'] eqn:Er.
        * rewrite Ec. split.
          -- unfold cache_sized. rewrite Hdc, Hsc. intros i e0. unfold upd. destruct (i =? k).
             ++ intros H; injection H as <-; cbn. eapply Hsize, Er.
             ++ apply Hcs.
          -- apply (Hdel _ f); [reflexivity|reflexivity|]. eapply Hsize, Er.
        * destruct (definite n); cbn [fst snd]; (split; [|discriminate]);
            unfold cache_sized; rewrite close_cache; exact Hcs.
        * cbn [fst snd]. split; [|discriminate]. unfold cache_sized; rewrite close_cache; exact Hcs.
    - unfold render_frame.
      destruct (render _ _ _ _ _ _) as [[f| |x] r'] eqn:Er.
      + rewrite Ec. split; [unfold cache_sized; rewrite Hdc; exact Hcs|].
        apply (Hdel _ f); [reflexivity|reflexivity|]. eapply Hsize, Er.
      + destruct (definite n); cbn [fst snd]; (split; [|discriminate]);
          unfold cache_sized; rewrite close_cache; exact Hcs.
      + cbn [fst snd]. split; [|discriminate]. unfold cache_sized; rewrite close_cache; exact Hcs.
  Qed.

  Lemma next_wrapped : forall s,
      winv s -> cache_sized s ->
      cache_sized (fst (next RS render n s)) /\
      forall f, snd (next RS render n s) = OFrame f -> frame_wrapped_for (stored s) f = true.
  Proof.
    intros s Hw Hcs. unfold next. destruct (closed s); [split; [exact Hcs|discriminate]|].
    assert (Hpe : cache_sized (fst (pass_end RS render n s)) /\
                  forall f, snd (pass_end RS render n s) = OFrame f -> frame_wrapped_for (stored s) f = true).
    { unfold pass_end.
      set (s1 := set_rd RS s {| fo := 0; wh := wh (rd s); d_size := d_size (rd s); d_dur := d_dur (rd s) |}).
      set (s2 := if 0 <? g_loop s1 then set_pub_loop RS (set_g_loop RS s1 (g_loop s1 - 1)) (g_loop s1 - 1) else s1).
      assert (H2 : winv s2 /\ cache_sized s2 /\ stored s2 = stored s)
        by (unfold s2; destruct (0 <? g_loop s1); repeat split; assumption).
      destruct H2 as (Hw2 & Hcs2 & E2).
      destruct (g_loop s2 =? 0); cbn [fst snd].
      - split; [|discriminate]. unfold cache_sized; rewrite close_cache; exact Hcs2.
      - rewrite <- E2. apply body_wrapped; assumption. }
    destruct (phase s).
    - destruct (g_loop s =? 0); cbn [fst snd].
      + split; [|discriminate]. unfold cache_sized; rewrite close_cache; exact Hcs.
      + destruct (_ <? _); [apply body_wrapped; assumption|exact Hpe].
    - destruct (_ <? _); [apply body_wrapped; assumption|exact Hpe].
  Qed.

  Lemma cache_sized_step : forall s o, winv s -> cache_sized s -> cache_sized (fst (step s o)).
  Proof.
    intros s o Hw H. destruct o; cbn.
    - apply next_wrapped; assumption.
    - unfold seek. destruct (closed s); [exact H|]. destruct n.
      + destruct (_ && _); exact H.
      + destruct (_ || _); exact H.
    - unfold set_duration. destruct (closed s); [exact H|]. destruct d; [exact H|].
      destruct (_ <=? _); exact H.
    - unfold set_padding. destruct (closed s); exact H.
    - unfold set_render_args. destruct (closed s); [exact H|]. destruct a; exact H.
    - unfold set_render_size. destruct (closed s); exact H.
    - unfold cache_sized; rewrite close_cache; exact H.
    - unfold cache_sized; rewrite close_cache; exact H.
  Qed.

  Lemma wrap_okb_ext : forall ops obs h h',
      h = h' -> wrap_okb term h ops obs = wrap_okb term h' ops obs.
  Proof. intros; subst; reflexivity. Qed.

  (** a finalized iterator yields no frame, whatever the oracle is told the settings are *)
  Lemma wrap_closed : forall ops s h, closed s = true -> wrap_okb term h ops (trace s ops) = true.
  Proof.
    induction ops as [|o ops IH]; intros s h Hc; [reflexivity|].
    cbn [Iter.trace]. rewrite (closed_ops_raise RS render n term s o Hc). cbn [wrap_okb].
    rewrite (IH s _ Hc). destruct o; reflexivity.
  Qed.

  Lemma wrap_trace : forall ops s,
      winv s -> cache_sized s -> wrap_okb term (stored s) ops (trace s ops) = true.
  Proof.
    induction ops as [|o ops IH]; intros s Hw Hcs; [reflexivity|].
    cbn [Iter.trace]. destruct (step s o) as [s' x] eqn:Es. cbn [wrap_okb].
    assert (Es' : s' = fst (step s o)) by (rewrite Es; reflexivity).
    assert (Ex : x = snd (step s o)) by (rewrite Es; reflexivity).
    apply andb_true_iff. split.
    - destruct o; try reflexivity. destruct x; try reflexivity.
      apply (next_wrapped s Hw Hcs). rewrite Ex. reflexivity.
    - destruct (closed s) eqn:Ec.
      + apply wrap_closed. subst s'. apply closed_stays, Ec.
      + rewrite <- (stored_step s o Ec), <- Es'. apply IH.
        * subst s'. apply winv_step, Hw.
        * subst s'. apply cache_sized_step; assumption.
  Qed.

  (** *** every frame yielded anywhere in any history — rendered or served from the cache —
      has the padded size and the padding dimensions of the padding and render size that
      the history's setters had established when it was asked for *)
  Theorem wrap_current : forall c rs0 s ops,
      mk RS n term c rs0 = inl s ->
      wrap_okb term (settings0 term c) ops (trace s ops) = true.
  Proof.
    intros c rs0 s ops Hs. pose proof (mk_inv c rs0 s Hs) as (_ & Hw & H0 & Hc0).
    rewrite <- H0. apply wrap_trace; [exact Hw|].
    intros i e. rewrite Hc0. discriminate.
  Qed.
End Wrap.

(** ** non-vacuity: a size round trip A -> B -> A on the renderable of the correspondence,
    one frame rendered at B; in the second loop frames 0 and 1 are served from the cache
    (4 [_render_] calls for 6 frames) while the padded size was last refreshed... under A:
    the sizes yielded are A+pad, A+pad, B+pad, A+pad, A+pad, A+pad *)
Definition wex_cfg : config :=
  {| c_loops := 2; c_cache := CBool true; c_size := (2, 1); c_dur := DStatic 1; c_args := Some 0;
     c_pad := PExact 1 1 1 1; c_owns := true; c_frame := 0 |}.
Definition wex_ops : list op :=
  [Next; Next; SetSize (4, 2); Next; SetSize (2, 1); Next; Next; Next].

Lemma wex_honours : forall nn total st,
    render_honours_size vr_state (vr_render nn total [] [] st).
Proof.
  intros nn total st [c p] o w sz d a f r'. unfold vr_render. cbn [fault_at].
  destruct nn as [k|]; cbn [ffault_at].
  - intros H; inversion H; reflexivity.
  - destruct (total <=? _); intros H; inversion H; reflexivity.
Qed.

Example wex_round_trip :
  match mk vr_state (Some 3) term8030 wex_cfg t_rs0 with
  | inl s =>
    let render := vr_render (Some 3) 5 [] [] true in
    flat_map (fun x => match fst x with OFrame f => [(f_number f, f_size f)] | _ => [] end)
             (trace vr_state render (Some 3) term8030 s wex_ops)
    = [(0, (4, 3)); (1, (4, 3)); (2, (6, 4)); (0, (4, 3)); (1, (4, 3)); (2, (4, 3))]
    /\ length (log (gh (run vr_state render (Some 3) term8030 s wex_ops))) = 4%nat
    /\ wrap_okb term8030 (settings0 term8030 wex_cfg) wex_ops
                (trace vr_state render (Some 3) term8030 s wex_ops) = true
  | inr _ => False
  end.
Proof. vm_compute. repeat split; reflexivity. Qed.

(** the oracle is not vacuous: the same observations with the fourth frame (a cache hit)
    wrapped for the size of the last RENDERED frame are rejected *)
Example wex_rejects_stale :
  match mk vr_state (Some 3) term8030 wex_cfg t_rs0 with
  | inl s =>
    let render := vr_render (Some 3) 5 [] [] true in
    let stale x := match fst x with
                   | OFrame f => if f_number f =? 0
                                 then (OFrame {| f_number := 0; f_duration := f_duration f; f_size := (6, 4);
                                                 f_output := f_output f; f_pad := f_pad f |}, snd x)
                                 else x
                   | _ => x
                   end in
    wrap_okb term8030 (settings0 term8030 wex_cfg) wex_ops
             (map stale (trace vr_state render (Some 3) term8030 s wex_ops)) = false
  | inr _ => False
  end.
Proof. vm_compute. reflexivity. Qed.
