(** C09 (round 6) — the executable sub-list test of model/ImgIterSrcTie.v decides [Sub], so the
    verdict [all_subb] of the correspondence is the relation of [cached_requests_sub]. *)
From Coq Require Import List ZArith Bool Arith Lia.
Import ListNotations.
From TI Require Import model.ImgIter model.ImgIterSrc model.ImgIterSrcTie.

Lemma req_eqb_eq : forall a b, req_eqb a b = true <-> a = b.
Proof.
  intros [a1 a2] [b1 b2]. unfold req_eqb. simpl. rewrite andb_true_iff, !Nat.eqb_eq.
  split; [intros (-> & ->); reflexivity | intros H; inversion H; auto].
Qed.

Lemma Sub_tail : forall A (x : A) a b, Sub (x :: a) b -> Sub a b.
Proof.
  intros A x a b. revert a. induction b as [|y b IH]; intros a H; inversion H; subst.
  - constructor. assumption.
  - constructor. apply IH. assumption.
Qed.

Lemma subb_sound : forall b a, subb a b = true -> Sub a b.
Proof.
  induction b as [|y b IH]; intros a H; simpl in H.
  - destruct a; [constructor | discriminate].
  - destruct a as [|x a]; [constructor|].
    destruct (req_eqb x y) eqn:E.
    + apply req_eqb_eq in E. subst. constructor. apply IH. exact H.
    + constructor. apply IH. exact H.
Qed.

Lemma subb_complete : forall b a, Sub a b -> subb a b = true.
Proof.
  induction b as [|y b IH]; intros a H.
  - inversion H. reflexivity.
  - destruct a as [|x a]; [reflexivity|]. simpl.
    inversion H; subst.
    + assert (E : req_eqb y y = true) by (apply req_eqb_eq; reflexivity). rewrite E. apply IH. assumption.
    + destruct (req_eqb x y); apply IH; [eapply Sub_tail; eassumption | assumption].
Qed.

Lemma subb_iff : forall a b, subb a b = true <-> Sub a b.
Proof. intros a b. split; [apply subb_sound | apply subb_complete]. Qed.

Lemma all_subb_iff : forall a b, all_subb a b = true <-> Forall2 Sub a b.
Proof.
  induction a as [|x a IH]; intros [|y b]; simpl; split; intros H; try discriminate; try constructor;
    try (inversion H; fail).
  - apply andb_true_iff in H. apply subb_sound. apply H.
  - apply andb_true_iff in H. apply IH. apply H.
  - inversion H; subst. apply andb_true_iff. split; [apply subb_complete; assumption | apply IH; assumption].
Qed.
