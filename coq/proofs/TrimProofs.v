(** * TrimProofs — [content] of a text canvas is the crop of what the full canvas shows;
    the graphics branch; [row_vis] is what the terminal shows (C17) *)
From Coq Require Import List ZArith Bool Lia.
Import ListNotations.
From TI Require Import lib.Term lib.TermFacts lib.Rect model.Padding model.Trim model.TrimSpec
     proofs.TrimLists proofs.TrimCells proofs.TrimCalc.
Open Scope Z_scope.

(** ** the canvas's lines *)

Lemma glyphs_false_repeat g n : glyphs false g n = repeat (TChar g) n.
Proof. induction n as [|n IH]; [reflexivity|]. cbn [glyphs TermFacts.cell_toks repeat app]. f_equal. exact IH. Qed.

Lemma fillseg_spaces n : fillseg (Some GSpace) n = spaces n.
Proof. unfold fillseg, spaces. apply glyphs_false_repeat. Qed.

Definition nuls : list tok := [TNul; TNul].
(** a padding line, an image line of the canvas *)
Definition pad_line (W : Z) : list tok := spaces W ++ nuls.
Definition image_line (l r : Z) (cs : list cell) : list tok :=
  (spaces l ++ img_line cs ++ spaces r) ++ nuls.

Lemma map_repeat' {A B} (f : A -> B) x n : map f (repeat x n) = repeat (f x) n.
Proof. induction n; cbn; congruence. Qed.

Lemma canvas_lines_shape W H w h ha va imgs l t r b :
  old_dims W H ha va w h = (l, t, r, b) -> l + w + r = W ->
  canvas_lines W H w h ha va imgs
  = repeat (pad_line W) (Z.to_nat t) ++ map (image_line l r) imgs ++ repeat (pad_line W) (Z.to_nat b).
Proof.
  intros Hd HW. unfold canvas_lines, pad_lines. rewrite Hd.
  rewrite !map_app, !map_repeat', !map_map, !fillseg_spaces, HW.
  reflexivity.
Qed.

Lemma old_dims_facts W H ha va w h :
  0 < w <= W -> 0 < h <= H ->
  let '(l, t, r, b) := old_dims W H ha va w h in
  l + w + r = W /\ t + h + b = H /\ 0 <= l /\ 0 <= t /\ 0 <= r /\ 0 <= b
  /\ align_pads ha (W - w) = (l, r) /\ align_pads va (H - h) = (t, b).
Proof.
  intros Hw Hh.
  pose proof (align_pads_old_dims W H ha va w h ltac:(lia) ltac:(lia)) as HA.
  destruct (old_dims W H ha va w h) as [[[l t] r] b]. destruct HA as [H1 H2].
  pose proof (align_pads_sum ha (W - w) ltac:(lia)) as S1. rewrite H1 in S1.
  pose proof (align_pads_sum va (H - h) ltac:(lia)) as S2. rewrite H2 in S2.
  repeat split; try assumption; lia.
Qed.

(** ** what the lines show *)

Definition blanks (n : Z) : list vcell := repeat blank (Z.to_nat n).

Lemma row_vis_img_line cs : forall a, row_vis a (img_line cs) = row_vis a (cells_toks cs).
Proof.
  unfold cells_toks. induction cs as [|c cs IH]; intros a; [reflexivity|].
  destruct cs as [|c2 cs'].
  - cbn [img_line map concat]. rewrite app_nil_r. reflexivity.
  - change (img_line (c :: c2 :: cs')) with (cell_toks c ++ TNul :: img_line (c2 :: cs')).
    cbn [map concat] in *.
    rewrite (row_vis_app (cell_toks c) a (TNul :: _)), (row_vis_app (cell_toks c) a (_ ++ _)).
    cbn [row_vis]. rewrite IH. reflexivity.
Qed.

Lemma vis_pad_line W : row_vis adefault (pad_line W) = (blanks W, adefault).
Proof.
  unfold pad_line. rewrite row_vis_app, row_vis_spaces. cbn [fst snd nuls row_vis].
  rewrite app_nil_r. reflexivity.
Qed.

Lemma wf_line_parts cs : wf_line cs = true ->
  wf_cells (false, false) true cs = true /\ exists cs' c, cs = cs' ++ [c] /\ post c = true.
Proof.
  unfold wf_line. intros H. apply andb_prop in H. destruct H as [H1 H2]. split; [exact H1|].
  destruct (rev cs) as [|c r] eqn:Er; [discriminate|].
  exists (rev r), c. split; [|exact H2].
  rewrite <- (rev_involutive cs), Er. reflexivity.
Qed.

Lemma vis_cells_wf_end cs a : wf_line cs = true -> snd (vis_cells a cs) = adefault.
Proof.
  intros H. destruct (wf_line_parts cs H) as [Hwf (cs' & c & -> & Hp)].
  apply vis_cells_end_default; [eapply wf_sgr_pres; exact Hwf|exact Hp].
Qed.

Lemma vis_image_line l r cs : wf_line cs = true ->
  row_vis adefault (image_line l r cs)
  = (blanks l ++ fst (vis_cells adefault cs) ++ blanks r, adefault).
Proof.
  intros Hwf. unfold image_line.
  rewrite !row_vis_app, row_vis_spaces. cbn [fst snd].
  rewrite row_vis_img_line. fold (vis_cells adefault cs).
  rewrite (vis_cells_wf_end cs adefault Hwf), row_vis_spaces. cbn [fst snd row_vis nuls].
  rewrite app_nil_r. reflexivity.
Qed.

(** ** parsing an image line back into its cells *)

Lemma no_nul_cell c : forallb is_sgr (pre c) = true -> forallb (fun x => negb (is_nul x)) (cell_toks c) = true.
Proof.
  intros H. unfold cell_toks. rewrite forallb_app. apply andb_true_intro. split.
  - rewrite forallb_forall in *. intros x Hx. specialize (H x Hx). destruct x; try discriminate H; reflexivity.
  - destruct (post c); reflexivity.
Qed.

Lemma split_nul_app_nonul l : forallb (fun x => negb (is_nul x)) l = true -> forall r,
  split_nul (l ++ TNul :: r) = l :: split_nul r.
Proof.
  induction l as [|x l IH]; intros H r; [reflexivity|].
  cbn [forallb] in H. apply andb_prop in H. destruct H as [Hx Hl].
  cbn [app split_nul]. apply negb_true_iff in Hx. rewrite Hx, (IH Hl). reflexivity.
Qed.

Lemma split_nul_nonul l : forallb (fun x => negb (is_nul x)) l = true -> split_nul l = [l].
Proof.
  induction l as [|x l IH]; intros H; [reflexivity|].
  cbn [forallb] in H. apply andb_prop in H. destruct H as [Hx Hl].
  cbn [split_nul]. apply negb_true_iff in Hx. rewrite Hx, (IH Hl). reflexivity.
Qed.

Lemma split_img_line cs : sgr_pres cs -> cs <> [] -> split_nul (img_line cs) = map cell_toks cs.
Proof.
  induction 1 as [|c cs Hc Hcs IH]; intros Hne; [congruence|].
  destruct cs as [|c2 cs'].
  - cbn [img_line map]. apply split_nul_nonul, no_nul_cell, Hc.
  - change (img_line (c :: c2 :: cs')) with (cell_toks c ++ TNul :: img_line (c2 :: cs')).
    rewrite (split_nul_app_nonul _ (no_nul_cell c Hc)). cbn [map]. f_equal. apply IH. discriminate.
Qed.

Lemma strip_img_line cs : sgr_pres cs -> strip_nul (img_line cs) = cells_toks cs.
Proof.
  unfold cells_toks, strip_nul.
  induction 1 as [|c cs Hc Hcs IH]; [reflexivity|].
  assert (Hf : filter (fun x => negb (is_nul x)) (cell_toks c) = cell_toks c).
  { pose proof (no_nul_cell c Hc) as Hn. induction (cell_toks c) as [|x l IHl]; [reflexivity|].
    cbn [forallb] in Hn. apply andb_prop in Hn. destruct Hn as [Hx Hl]. cbn [filter]. rewrite Hx. f_equal. auto. }
  destruct cs as [|c2 cs'].
  - cbn [img_line map concat]. rewrite app_nil_r. exact Hf.
  - change (img_line (c :: c2 :: cs')) with (cell_toks c ++ TNul :: img_line (c2 :: cs')).
    rewrite filter_app. cbn [filter is_nul negb map concat] in *. rewrite Hf, IH. reflexivity.
Qed.

Lemma spaces_length n : length (spaces n) = Z.to_nat n.
Proof. apply repeat_length. Qed.

Lemma inner_of_image_line l r cs : 0 <= l -> 0 <= r ->
  py_slice (image_line l r cs) l (Some (- (r + 2))) = img_line cs.
Proof.
  intros Hl Hr. rewrite py_slice_neg_stop by lia. unfold image_line, nuls.
  rewrite !app_length, !spaces_length. cbn [length].
  rewrite <- !app_assoc.
  rewrite skipn_app, spaces_length, Nat.sub_diag.
  rewrite (skipn_all2 (spaces l)) by (rewrite spaces_length; lia). cbn [app skipn].
  rewrite firstn_app. 
  replace (Z.to_nat l + (length (img_line cs) + Z.to_nat r) + 2 - Z.to_nat l - Z.to_nat (r + 2))%nat
    with (length (img_line cs)) by lia.
  rewrite firstn_all, Nat.sub_diag. cbn [firstn]. apply app_nil_r.
Qed.

Lemma text_only_cells cs : sgr_pres cs -> text_only (cells_toks cs) = true.
Proof.
  intros H. unfold cells_toks. apply text_only_concat. apply Forall_map.
  eapply Forall_impl; [|exact H]. intros c Hc. unfold cell_toks.
  rewrite text_only_app, (sgr_text_only _ Hc). destruct (post c); reflexivity.
Qed.

(** ** one image line of a horizontally trimmed canvas *)

Lemma pad_if_spaces n : (if n =? 0 then [] else spaces n) = spaces n.
Proof. destruct (Z.eqb_spec n 0) as [->|]; reflexivity. Qed.

Lemma row_assemble a b mid X :
  row_vis adefault mid = (X, adefault) ->
  row_vis adefault (spaces a ++ mid ++ spaces b ++ nuls) = (blanks a ++ X ++ blanks b, adefault).
Proof.
  intros Hm. rewrite row_vis_app, row_vis_spaces. cbn [fst snd].
  rewrite row_vis_app, Hm. cbn [fst snd]. rewrite row_vis_app, row_vis_spaces. cbn [fst snd nuls row_vis].
  rewrite app_nil_r. reflexivity.
Qed.

Definition dcell : cell := {| pre := []; gl := GSpace; post := false |}.

Lemma first_cell_prefixed cs : wf_cells (false, false) true cs = true -> cs <> [] ->
  starts_esc (cell_toks (nth 0 cs dcell)) = true.
Proof.
  destruct cs as [|c cs]; intros H Hne; [congruence|]. cbn [nth wf_cells] in *.
  repeat (apply andb_prop in H; destruct H as [H ?]).
  rewrite (starts_esc_cell _ H). cbn [negb orb] in *. assumption.
Qed.

Lemma skipn_end_default cs til a : wf_line cs = true -> (til < length cs)%nat ->
  snd (vis_cells a (skipn til cs)) = adefault.
Proof.
  intros H Hlt. destruct (wf_line_parts cs H) as [Hwf (cs' & c & -> & Hp)].
  rewrite app_length in Hlt. cbn [length] in Hlt.
  rewrite skipn_app. replace (til - length cs')%nat with O by lia. cbn [skipn].
  apply vis_cells_end_default; [|exact Hp].
  pose proof (wf_sgr_pres _ _ _ Hwf) as Hs. apply Forall_app in Hs. destruct Hs as [H1 H2].
  apply Forall_app. split; [apply sgr_pres_skipn, H1|exact H2].
Qed.

Section Row.
Variables (W w l r : Z) (cs : list cell).
Hypothesis (Hl : 0 <= l) (Hr : 0 <= r) (HW : l + w + r = W) (Hw : 0 < w).
Hypothesis (Hlen : Z.of_nat (length cs) = w) (Hwf : wf_line cs = true).

Let V := fst (vis_cells adefault cs).

Lemma V_length : length V = Z.to_nat w.
Proof.
  subst V. destruct (wf_line_parts cs Hwf) as [H _].
  rewrite (vis_cells_length _ (wf_sgr_pres _ _ _ H)). lia.
Qed.

(** the part of the row between the paddings *)
Lemma image_part_ok til tir :
  0 <= til <= w -> 0 <= tir <= w -> (til < w -> tir < w -> til + tir < w) ->
  (til = w -> tir = 0) ->
  let inner := img_line cs in
  let image :=
      if (til =? 0) && (0 =? tir) then strip_nul inner
      else if negb (til =? w) && negb (w =? tir) then
        let cells := split_nul inner in
        (if starts_esc (nth (Z.to_nat til) cells []) then []
         else find_first_color (py_rev_from cells (til - 1)))
        ++ concat (py_slice cells til (neg_or_none tir))
      else [] in
  let color_reset := if (tir <? w) && (0 <? tir) then [TSgr0] else [] in
  row_vis adefault (image ++ color_reset)
  = (firstn (Z.to_nat (w - til - tir)) (skipn (Z.to_nat til) V), adefault)
  /\ text_only (image ++ color_reset) = true.
Proof.
  intros Htil Htir Hsum Hexcl inner image color_reset.
  destruct (wf_line_parts cs Hwf) as [Hwfc _].
  pose proof (wf_sgr_pres _ _ _ Hwfc) as Hs.
  assert (Hne : cs <> []) by (intros ->; cbn in Hlen; lia).
  pose proof V_length as HV.
  subst image color_reset.
  destruct (negb (til =? w) && negb (w =? tir)) eqn:Epart.
  - (* the image is (partly) visible *)
    apply andb_prop in Epart. destruct Epart as [P1 P2].
    apply negb_true_iff in P1, P2. apply Z.eqb_neq in P1, P2.
    assert (Hlt : til + tir < w) by (apply Hsum; lia).
    destruct ((til =? 0) && (0 =? tir)) eqn:Efull.
    + (* full *)
      apply andb_prop in Efull. destruct Efull as [E0 E1].
      apply Z.eqb_eq in E0, E1. subst til. subst tir.
      replace (0 <? 0) with false by reflexivity. rewrite andb_false_r, app_nil_r.
      subst inner. rewrite (strip_img_line _ Hs). fold (vis_cells adefault cs).
      split; [|apply text_only_cells, Hs].
      rewrite (surjective_pairing (vis_cells adefault cs)), (vis_cells_wf_end cs adefault Hwf).
      fold V. change (Z.to_nat 0) with O. cbn [skipn]. rewrite firstn_all2 by lia. reflexivity.
    + (* cut inside the image *)
      subst inner. rewrite (split_img_line _ Hs Hne). cbn zeta.
      rewrite py_slice_nonneg by lia. rewrite map_length.
      rewrite skipn_map, firstn_map. fold (cells_toks (firstn (length cs - Z.to_nat til - Z.to_nat tir) (skipn (Z.to_nat til) cs))).
      rewrite (nth_indep _ [] (cell_toks dcell)) by (rewrite map_length; lia).
      rewrite map_nth.
      pose proof (cut_shows_same cs (Z.to_nat til) (length cs - Z.to_nat til - Z.to_nat tir) Hwfc ltac:(lia)) as Hcut.
      cbn zeta in Hcut. fold dcell in Hcut.
      set (B := firstn (length cs - Z.to_nat til - Z.to_nat tir) (skipn (Z.to_nat til) cs)) in *.
      set (fc := if starts_esc (cell_toks (nth (Z.to_nat til) cs dcell)) then [] else recovered (firstn (Z.to_nat til) cs)) in *.
      assert (Hfc : (if starts_esc (cell_toks (nth (Z.to_nat til) cs dcell)) then []
                     else find_first_color (py_rev_from (map cell_toks cs) (til - 1))) = fc).
      { subst fc. destruct (starts_esc (cell_toks (nth (Z.to_nat til) cs dcell))) eqn:Ese; [reflexivity|].
        assert (til <> 0).
        { intros ->. change (Z.to_nat 0) with O in Ese. rewrite (first_cell_prefixed cs Hwfc Hne) in Ese. discriminate. }
        rewrite py_rev_from_pos by (rewrite map_length; lia).
        replace (Z.to_nat (til - 1) + 1)%nat with (Z.to_nat til) by lia.
        rewrite firstn_map. reflexivity. }
      rewrite Hfc. destruct Hcut as [Hsgr Hvis].
      replace (length cs - Z.to_nat til - Z.to_nat tir)%nat with (Z.to_nat (w - til - tir)) in * by lia.
      fold V in Hvis.
      assert (HsB : sgr_pres B) by (subst B; apply sgr_pres_firstn, sgr_pres_skipn, Hs).
      split.
      * rewrite <- app_assoc, row_vis_app. rewrite (sgr_no_glyph _ Hsgr). cbn [app fst snd].
        fold (sgr_apply adefault fc). rewrite row_vis_app. fold (vis_cells (sgr_apply adefault fc) B).
        rewrite Hvis. cbn [fst snd].
        destruct (Z.ltb_spec 0 tir) as [Hpos|Hz].
        -- destruct (Z.ltb_spec tir w); [|lia]. cbn [andb row_vis]. rewrite app_nil_r. reflexivity.
        -- assert (tir = 0) by lia. subst tir. rewrite andb_false_r. cbn [row_vis].
           rewrite app_nil_r. f_equal.
           subst B. rewrite firstn_all2 by (rewrite skipn_length; lia).
           apply skipn_end_default; [exact Hwf|lia].
      * rewrite <- app_assoc, !text_only_app, (sgr_text_only _ Hsgr), (text_only_cells _ HsB).
        destruct ((tir <? w) && (0 <? tir)); reflexivity.
  - (* the image is cut off entirely *)
    assert (Hnf : (til =? 0) && (0 =? tir) = false).
    { destruct (Z.eqb_spec til 0) as [->|]; [|reflexivity]. destruct (Z.eqb_spec 0 tir) as [<-|]; [|reflexivity].
      destruct (Z.eqb_spec 0 w); [lia|]. destruct (Z.eqb_spec w 0); [lia|]. discriminate Epart. }
    rewrite Hnf. cbn [app].
    assert (Hcases : til = w \/ tir = w).
    { destruct (Z.eqb_spec til w); [left; assumption|]. destruct (Z.eqb_spec w tir); [right; congruence|].
      discriminate Epart. }
    assert (Hnr : (tir <? w) && (0 <? tir) = false).
    { destruct Hcases as [E|E].
      - rewrite (Hexcl E). apply andb_false_r.
      - subst tir. rewrite Z.ltb_irrefl. reflexivity. }
    rewrite Hnr. split; [|reflexivity]. cbn [row_vis].
    replace (Z.to_nat (w - til - tir)) with O by lia. reflexivity.
Qed.
(** the whole row: visible left padding, visible part of the image (with the recovered
    first colour and the closing reset), visible right padding *)
Lemma image_row_ok tl cols : 0 <= tl -> 0 < cols -> tl + cols <= W ->
  let '(npl, til, tir, npr) := calc_trim W w tl l (W - tl - cols) r in
  let row := text_image_row w l (r + 2) npl til tir npr (image_line l r cs) in
  row_vis adefault row
  = (firstn (Z.to_nat cols) (skipn (Z.to_nat tl) (fst (row_vis adefault (image_line l r cs)))),
     adefault)
  /\ text_only row = true.
Proof.
  intros H1 H2 H3.
  pose proof V_length as HV.
  (* everything in natural numbers *)
  set (p := Z.to_nat l). set (n := Z.to_nat w). set (q := Z.to_nat r).
  set (t := Z.to_nat tl). set (c := Z.to_nat cols).
  assert (E : calc_trim W w tl l (W - tl - cols) r
              = calc_trim (Z.of_nat (p + n + q)) (Z.of_nat n) (Z.of_nat t) (Z.of_nat p)
                          (Z.of_nat (p + n + q - t - c)) (Z.of_nat q)) by (f_equal; lia).
  rewrite E. clear E.
  rewrite (calc_trim_nat p n q t c) by lia.
  rewrite (vis_image_line l r cs Hwf). cbn [fst]. fold V. unfold blanks. fold p q t c.
  assert (El : l = Z.of_nat p) by lia. assert (Er : r = Z.of_nat q) by lia.
  assert (Ew : w = Z.of_nat n) by lia.
  assert (HVn : length V = n) by lia.
  assert (Hc : (0 < c)%nat) by lia. assert (Hfit : (t + c <= p + n + q)%nat) by lia.
  clearbody p n q t c.
  set (NP := Nat.min c (p - t)). set (TI1 := Nat.min n (t - p)).
  set (TI2 := Nat.min n (p + n + q - t - c - q)).
  set (NQ := Nat.min (c - (p - t) - (n - (t - p))) (q - (t - p - n))).
  assert (B1 : (TI1 <= n)%nat) by (subst TI1; clear; lia).
  assert (B2 : (TI2 <= n)%nat) by (subst TI2; clear; lia).
  assert (B3 : (TI1 < n -> TI2 < n -> TI1 + TI2 < n)%nat) by (subst TI1 TI2; clear - Hc Hfit; lia).
  assert (B4 : (TI1 = n -> TI2 = 0)%nat) by (subst TI1 TI2; clear - Hc Hfit; lia).
  rewrite (window3 blank p q V t c NP TI1 (n - TI1 - TI2) NQ);
    [|subst NP; reflexivity|subst TI1; rewrite HVn; clear; lia
     |subst TI1 TI2; rewrite HVn; clear - Hc Hfit; lia|subst NQ; rewrite HVn; reflexivity].
  cbn zeta. unfold text_image_row. rewrite inner_of_image_line, !pad_if_spaces by lia.
  pose proof (image_part_ok (Z.of_nat TI1) (Z.of_nat TI2)
                            ltac:(clearbody TI1 TI2; lia) ltac:(clearbody TI1 TI2; lia)
                            ltac:(clearbody TI1 TI2; lia) ltac:(clearbody TI1 TI2; lia)) as [Hv Ht].
  cbn zeta in Hv, Ht.
  replace (Z.to_nat (w - Z.of_nat TI1 - Z.of_nat TI2)) with (n - TI1 - TI2)%nat in Hv by (clearbody TI1 TI2; lia).
  rewrite Nat2Z.id in Hv, Ht. rewrite Nat2Z.id.
  replace (repeat blank NP) with (blanks (Z.of_nat NP)) by (unfold blanks; rewrite Nat2Z.id; reflexivity).
  replace (repeat blank NQ) with (blanks (Z.of_nat NQ)) by (unfold blanks; rewrite Nat2Z.id; reflexivity).
  split.
  - rewrite (app_assoc _ (if (Z.of_nat TI2 <? w) && (0 <? Z.of_nat TI2) then [TSgr0] else [])).
    apply row_assemble. exact Hv.
  - rewrite (app_assoc _ (if (Z.of_nat TI2 <? w) && (0 <? Z.of_nat TI2) then [TSgr0] else [])).
    rewrite text_only_app, text_only_spaces. cbn [andb]. rewrite text_only_app, Ht. cbn [andb].
    rewrite text_only_app, text_only_spaces. reflexivity.
Qed.
End Row.

(** ** the whole canvas *)

(** [o] shows columns [[tl, tl+cols)] of the line [L], and leaves the attributes default *)
Definition shows_crop (tl cols : nat) (o L : list tok) : Prop :=
  row_vis adefault o = (firstn cols (skipn tl (vis_row L)), adefault) /\ text_only o = true.

Lemma Forall2_map_l {A B} (R : B -> A -> Prop) (f : A -> B) l :
  Forall (fun x => R (f x) x) l -> Forall2 R (map f l) l.
Proof. induction 1; cbn; constructor; assumption. Qed.

Lemma Forall2_length' {A B} (R : A -> B -> Prop) l1 l2 : Forall2 R l1 l2 -> length l1 = length l2.
Proof. induction 1; cbn; congruence. Qed.

Lemma Forall2_repeat {A B} (R : A -> B -> Prop) x y n : R x y -> Forall2 R (repeat x n) (repeat y n).
Proof. intros H. induction n; cbn; constructor; assumption. Qed.

Lemma Forall_firstn_skipn {A} (P : A -> Prop) l n m : Forall P l -> Forall P (firstn n (skipn m l)).
Proof.
  intros H. apply Forall_firstn', Forall_skipn', H.
Qed.

Lemma shows_crop_facts tl cols W o L :
  length (vis_row L) = W -> (tl + cols <= W)%nat -> shows_crop tl cols o L ->
  vis_row o = firstn cols (skipn tl (vis_row L)) /\ length (vis_row o) = cols
  /\ end_attrs o = adefault /\ text_only o = true.
Proof.
  intros HL Hfit [Hv Ht]. unfold vis_row at 1 3, end_attrs. rewrite Hv. cbn [fst snd].
  repeat split; try assumption. rewrite firstn_length, skipn_length. lia.
Qed.

Section Canvas.
Variables (W H w h : Z) (ha va : nat) (imgs : list (list cell)).
Hypothesis Hok : canvas_ok W H w h imgs.

Let lines := canvas_lines W H w h ha va imgs.

(** every line of the canvas is [W] cells wide, ends with default attributes, is text *)
Definition line_ok (L : list tok) : Prop :=
  length (vis_row L) = Z.to_nat W /\ end_attrs L = adefault /\ text_only L = true.

Lemma pad_line_ok : 0 <= W -> line_ok (pad_line W).
Proof.
  intros HW. unfold line_ok, vis_row, end_attrs. rewrite vis_pad_line. cbn [fst snd].
  unfold blanks. rewrite repeat_length. repeat split.
  unfold pad_line. rewrite text_only_app, text_only_spaces. reflexivity.
Qed.

Lemma image_line_ok l r cs : 0 <= l -> 0 <= r -> l + w + r = W -> 0 < w ->
  Z.of_nat (length cs) = w -> wf_line cs = true -> line_ok (image_line l r cs).
Proof.
  intros Hl Hr HW Hw Hlen Hwf. unfold line_ok, vis_row, end_attrs.
  rewrite (vis_image_line l r cs Hwf). cbn [fst snd]. unfold blanks.
  destruct (wf_line_parts cs Hwf) as [Hc _]. pose proof (wf_sgr_pres _ _ _ Hc) as Hs.
  rewrite !app_length, !repeat_length, (vis_cells_length _ Hs). repeat split; [lia|].
  unfold image_line. rewrite !text_only_app, !text_only_spaces.
  replace (text_only (img_line cs)) with true; [reflexivity|]. symmetry.
  unfold text_only. rewrite forallb_forall. intros x Hx.
  destruct (is_nul x) eqn:En; [destruct x; try discriminate En; reflexivity|].
  assert (Hin : In x (strip_nul (img_line cs))) by (apply filter_In; split; [exact Hx|rewrite En; reflexivity]).
  rewrite (strip_img_line _ Hs) in Hin.
  pose proof (text_only_cells _ Hs) as Ht. unfold text_only in Ht. rewrite forallb_forall in Ht. apply Ht, Hin.
Qed.

Theorem content_is_crop tl tt cols rows :
  0 <= tl -> 0 <= tt -> 0 < cols -> 0 < rows -> tl + cols <= W -> tt + rows <= H ->
  let out := content_text ha va W H w h lines tl tt (Some cols) (Some rows) in
  Z.of_nat (length out) = rows
  /\ map vis_row out
     = crop (Z.to_nat tl) (Z.to_nat tt) (Z.to_nat cols) (Z.to_nat rows) (map vis_row lines)
  /\ Forall (fun r => Z.of_nat (length (vis_row r)) = cols /\ end_attrs r = adefault
                      /\ text_only r = true) out.
Proof.
  intros H1 H2 H3 H4 H5 H6 out.
  destruct Hok as (Hw & Hh & Hn & Himgs).
  pose proof (old_dims_facts W H ha va w h Hw Hh) as D.
  destruct (old_dims W H ha va w h) as [[[l t] r] b] eqn:Ed.
  destruct D as (DW & DH & Dl & Dt & Dr & Db & Ah & Av).
  assert (Hshape := canvas_lines_shape W H w h ha va imgs l t r b Ed DW). fold lines in Hshape.
  (* all lines are fine *)
  assert (Hlines : Forall line_ok lines).
  { rewrite Hshape. apply Forall_app. split; [|apply Forall_app; split].
    - apply Forall_forall. intros x Hx. apply repeat_spec in Hx. subst x. apply pad_line_ok. lia.
    - apply Forall_map. eapply Forall_impl; [|exact Himgs]. intros cs [Hlen Hwf].
      apply image_line_ok; assumption || lia.
    - apply Forall_forall. intros x Hx. apply repeat_spec in Hx. subst x. apply pad_line_ok. lia. }
  assert (Hlen : length lines = Z.to_nat H).
  { rewrite Hshape, !app_length, !repeat_length, map_length. lia. }
  set (sel := firstn (Z.to_nat rows) (skipn (Z.to_nat tt) lines)).
  assert (Hsel : Forall line_ok sel) by (apply Forall_firstn_skipn, Hlines).
  assert (Hsel_len : length sel = Z.to_nat rows).
  { subst sel. rewrite firstn_length, skipn_length. lia. }
  assert (Hpad : shows_crop (Z.to_nat tl) (Z.to_nat cols) (spaces cols ++ [TNul; TNul]) (pad_line W)).
  { split.
    - rewrite row_vis_app, row_vis_spaces. cbn [fst snd row_vis]. rewrite app_nil_r.
      unfold vis_row. rewrite vis_pad_line. cbn [fst]. unfold blanks.
      rewrite skipn_repeat, firstn_repeat. do 2 f_equal. clear - H1 H3 H5. lia.
    - rewrite text_only_app, text_only_spaces. reflexivity. }
  (* the core: row by row, the output shows the crop of the selected line *)
  assert (Core : Forall2 (shows_crop (Z.to_nat tl) (Z.to_nat cols)) out sel).
  { subst out. unfold content_text. unfold py_or.
    destruct (Z.eqb_spec rows 0) as [?|_]; [lia|]. destruct (Z.eqb_spec cols 0) as [?|_]; [lia|].
    destruct ((tl =? 0) && (0 =? W - tl - cols)) eqn:Ez.
    - (* no horizontal trimming *)
      apply andb_prop in Ez. destruct Ez as [Z1 Z2]. apply Z.eqb_eq in Z1, Z2.
      rewrite py_slice_nonneg by lia. rewrite Hlen.
      replace (Z.to_nat H - Z.to_nat tt - Z.to_nat (H - tt - rows))%nat with (Z.to_nat rows) by lia.
      fold sel. apply Forall2_map_l. eapply Forall_impl; [|exact Hsel].
      intros L (HL1 & HL2 & HL3). split.
      + rewrite row_vis_app, row_vis_strip_nul. cbn [fst snd row_vis]. rewrite app_nil_r.
        fold (vis_row L). fold (end_attrs L). rewrite HL2. f_equal.
        subst tl. change (Z.to_nat 0) with O. cbn [skipn]. rewrite firstn_all2; [reflexivity|lia].
      + rewrite text_only_app, (text_only_strip_nul _ HL3). reflexivity.
    - (* horizontal trimming *)
      rewrite Av, Ah.
      set (p := Z.to_nat t). set (n := Z.to_nat h). set (q := Z.to_nat b).
      set (tn := Z.to_nat tt). set (c := Z.to_nat rows).
      assert (E : calc_trim H h tt t (H - tt - rows) b
                  = calc_trim (Z.of_nat (p + n + q)) (Z.of_nat n) (Z.of_nat tn) (Z.of_nat p)
                              (Z.of_nat (p + n + q - tn - c)) (Z.of_nat q)) by (f_equal; lia).
      rewrite E. clear E. rewrite (calc_trim_nat p n q tn c) by lia.
      destruct (calc_trim W w tl l (W - tl - cols) r) as [[[npl til] tir] npr] eqn:Eh.
      rewrite !Nat2Z.id.
      set (NP := Nat.min c (p - tn)). set (TI1 := Nat.min n (tn - p)).
      set (TI2 := Nat.min n (p + n + q - tn - c - q)).
      set (NQ := Nat.min (c - (p - tn) - (n - (tn - p))) (q - (tn - p - n))).
      (* the image lines the code selects *)
      set (IL := map (image_line l r) imgs) in *.
      assert (HIL : length IL = n) by (subst IL n; rewrite map_length; clear - Hn; lia).
      assert (Himg_lines :
                (if (h =? Z.of_nat TI1) || (h =? Z.of_nat TI2) then []
                 else if negb (Z.of_nat TI1 =? h) && negb (h =? Z.of_nat TI2)
                      then py_slice (py_slice lines t (neg_or_none b)) (Z.of_nat TI1) (neg_or_none (Z.of_nat TI2))
                      else py_slice lines t (neg_or_none b))
                = firstn (n - TI1 - TI2) (skipn TI1 IL)).
      { assert (Hil : py_slice lines t (neg_or_none b) = IL).
        { rewrite py_slice_nonneg by lia. rewrite Hlen, Hshape. fold p q.
          rewrite skipn_app, repeat_length, Nat.sub_diag.
          rewrite (skipn_all2 (repeat _ p)) by (rewrite repeat_length; lia). cbn [app skipn].
          rewrite firstn_app, HIL.
          replace (Z.to_nat H - p - q)%nat with n by (subst p q n; clear - DH Dt Db Hh; lia). rewrite Nat.sub_diag.
          rewrite firstn_all2 by lia. cbn [firstn]. apply app_nil_r. }
        assert (B1 : (TI1 <= n)%nat) by (subst TI1; clear; lia).
        assert (B2 : (TI2 <= n)%nat) by (subst TI2; clear; lia).
        assert (En : h = Z.of_nat n) by (subst n; clear - Hh; lia).
        clearbody TI1 TI2 n. clear - B1 B2 HIL Hil En.
        destruct (Z.eqb_spec h (Z.of_nat TI1)) as [e1|n1]; cbn [orb].
        - replace (n - TI1 - TI2)%nat with O by lia. reflexivity.
        - destruct (Z.eqb_spec h (Z.of_nat TI2)) as [e2|n2].
          + replace (n - TI1 - TI2)%nat with O by lia. reflexivity.
          + rewrite Hil.
            destruct (Z.eqb_spec (Z.of_nat TI1) h); [lia|]. cbn [negb andb].
            rewrite py_slice_nonneg by lia. rewrite HIL, !Nat2Z.id. reflexivity. }
      rewrite Himg_lines.
      (* the lines the specification selects *)
      assert (Hsel3 : sel = repeat (pad_line W) NP ++ firstn (n - TI1 - TI2) (skipn TI1 IL)
                            ++ repeat (pad_line W) NQ).
      { subst sel. rewrite Hshape. fold p q tn c.
        assert (Hc : (0 < c)%nat) by (subst c; clear - H4; lia).
        assert (Hfit : (tn + c <= p + n + q)%nat) by (subst tn c p n q; clear - H2 H4 H6 DH Dt Db Hh; lia).
        clearbody p n q tn c.
        apply window3; [subst NP; reflexivity|subst TI1; rewrite HIL; clear; lia
                        |subst TI1 TI2; rewrite HIL; clear - Hc Hfit; lia
                        |subst NQ; rewrite HIL; reflexivity]. }
      rewrite Hsel3.
      apply Forall2_app; [apply Forall2_repeat, Hpad|].
      apply Forall2_app; [|apply Forall2_repeat, Hpad].
      apply Forall2_map_l. apply Forall_firstn_skipn.
      subst IL. apply Forall_map. eapply Forall_impl; [|exact Himgs].
      intros cs [Hcl Hcw]. cbn beta.
      pose proof (image_row_ok W w l r cs Dl Dr DW ltac:(lia) Hcl Hcw tl cols H1 H3 H5) as Hrow.
      rewrite Eh in Hrow. cbn zeta in Hrow. exact Hrow. }
  (* consequences *)
  assert (Hall : Forall2 (fun o L => vis_row o = firstn (Z.to_nat cols) (skipn (Z.to_nat tl) (vis_row L))
                                     /\ length (vis_row o) = Z.to_nat cols
                                     /\ end_attrs o = adefault /\ text_only o = true) out sel).
  { clear - Core Hsel H1 H3 H5. induction Core as [|o L os Ls HoL _ IH]; [constructor|].
    inversion Hsel as [|? ? HL HLs]; subst. constructor; [|apply IH, HLs].
    destruct HL as (HL1 & _). eapply shows_crop_facts; [exact HL1|lia|exact HoL]. }
  split; [|split].
  - rewrite (Forall2_length' _ _ _ Hall), Hsel_len. lia.
  - unfold crop. rewrite skipn_map, firstn_map. fold sel.
    clear - Hall. induction Hall as [|o L os Ls (Ho & _) _ IH]; [reflexivity|].
    cbn [map]. rewrite Ho, IH. reflexivity.
  - clear - Hall H3. induction Hall as [|o L os Ls (_ & Ho1 & Ho2 & Ho3) _ IH]; constructor; [|exact IH].
    repeat split; try assumption. lia.
Qed.
End Canvas.
