(** * IterSessionProofs — C10 over sessions: one render data object, several iterators

    For every renderable, every session (list of [SMake] / [SOp] / [SOwnerFinalize]),
    every mixture of owning and non-owning iterators. *)
From Coq Require Import List ZArith Bool Lia Arith.
Import ListNotations.
From TI Require Import model.Iter model.IterSession model.IterTie proofs.IterFinalProofs.
Open Scope Z_scope.

Section SessionProofs.
  Variable RS : Type.
  Variable render : RS -> Z -> whence -> size -> dur -> Z -> rres * RS.
  Variable n : option Z.
  Variable term : size.

  Notation state := (state RS).
  Notation sess := (sess RS).
  Notation step := (step RS render n term).
  Notation mk_on := (mk_on RS n term guard_code).
  Notation sstep := (sstep RS render n term guard_code).
  Notation srun := (srun RS render n term guard_code).
  Notation strace := (strace RS render n term guard_code).
  Notation well_formed := (well_formed RS render n term guard_code).
  Notation data_of := (data_of RS).
  Notation idle := (idle RS).

  Definition unfin_log (g : ghost) : Prop := Forall (fun rc => rc_finalized rc = false) (log g).

  (** what one iterator operation does to the data's ghost, from ANY open state *)
  Lemma step_ghost : forall (s : state) o, closed s = false ->
      exists g1, logged (gh s) g1 /\
        ((closed (fst (step s o)) = false /\ gh (fst (step s o)) = g1) \/
         (closed (fst (step s o)) = true /\ gh (fst (step s o)) = closed_gh g1)).
  Proof.
    intros s o Hc.
    assert (Hk : forall o', match o' with Next | Close | Drop => False | _ => True end ->
                 exists g1, logged (gh s) g1 /\
                   ((closed (fst (step s o')) = false /\ gh (fst (step s o')) = g1) \/
                    (closed (fst (step s o')) = true /\ gh (fst (step s o')) = closed_gh g1))).
    { intros o' Ho'. destruct (control_keeps RS render n term s o' Ho') as [E1 E2].
      exists (gh s). split; [apply logged_refl|]. left. rewrite E1, E2. auto. }
    destruct o; try (apply Hk; exact I).
    - cbn [Iter.step]. destruct (shape_next RS render n s Hc) as (g1 & Hl & [(_ & A & B) | (_ & A & B)]);
        exists g1; split; auto.
    - cbn. destruct (close_open RS s Hc) as [A B]. exists (gh s). split; [apply logged_refl|]. right. auto.
    - cbn. destruct (close_open RS s Hc) as [A B]. exists (gh s). split; [apply logged_refl|]. right. auto.
  Qed.

  (** ** invariants of the data's ghost *)

  (** holds in every session, well-formed or not *)
  Definition once (g : ghost) : Prop := fin_calls g = (if finalized g then 1 else 0)%nat.

  (** holds in well-formed sessions *)
  Definition SInv (ss : sess) : Prop :=
    once (data_of ss) /\ unfin_log (data_of ss) /\ (finalized (data_of ss) = true -> idle ss = true).

  Lemma once_finalize : forall g, once g -> once (data_finalize g).
  Proof.
    intros g H. unfold once, data_finalize in *. destruct (finalized g) eqn:E; [rewrite E; exact H|].
    cbn. rewrite H. reflexivity.
  Qed.

  Lemma once_closed_gh : forall g, once g -> once (closed_gh g).
  Proof. intros g H. unfold closed_gh. destruct (owns g); [apply once_finalize|]; exact H. Qed.

  Lemma once_logged : forall g g1, logged g g1 -> once g -> once g1.
  Proof. intros g g1 (_ & Hf & Hn & _) H. unfold once in *. rewrite Hf, Hn. exact H. Qed.

  Lemma once_step : forall (s : state) o, once (gh s) -> once (gh (fst (step s o))).
  Proof.
    intros s o H. destruct (closed s) eqn:Hc; [rewrite fin_inv_closed_step by exact Hc; exact H|].
    destruct (step_ghost s o Hc) as (g1 & Hl & [(_ & E) | (_ & E)]); rewrite E.
    - eapply once_logged; eassumption.
    - apply once_closed_gh. eapply once_logged; eassumption.
  Qed.

  Lemma once_close : forall (s : state), once (gh s) -> once (gh (close RS s)).
  Proof. intros s H. exact (once_step s Close H). Qed.

  Lemma mk_on_inl : forall g r c rs0 s, mk_on g r c rs0 = inl s ->
      closed s = false /\ finalized g = false /\
      gh s = {| owns := c_owns c; finalized := finalized g; fin_calls := fin_calls g; log := log g |}.
  Proof.
    intros g r c rs0 s H. unfold IterSession.mk_on, guard_code in H.
    destruct (match n with Some k => k <? 2 | None => false end); [discriminate|].
    destruct (c_loops c =? 0); [discriminate|].
    destruct (negb _); [discriminate|].
    destruct (finalized g) eqn:Ef; [discriminate|].
    destruct (mk RS n term c rs0) as [s0|e] eqn:Em; [|discriminate].
    destruct (inv_mk RS n term c rs0 s0 Em) as (_ & Hc & _).
    injection H as <-. cbn. repeat split; auto.
  Qed.

  (** the constructor guard: finalized data is refused (ValueError), whoever is to own it,
      and nothing is touched *)
  Theorem guard_refuses_finalized : forall g r c rs0,
      finalized g = true -> exists e, mk_on g r c rs0 = inr e.
  Proof.
    intros g r c rs0 Hf. unfold IterSession.mk_on, guard_code. rewrite Hf.
    destruct (match n with Some k => k <? 2 | None => false end); [eexists; reflexivity|].
    destruct (c_loops c =? 0); [eexists; reflexivity|].
    destruct (negb _); eexists; reflexivity.
  Qed.

  Lemma once_sstep : forall ss o, once (data_of ss) -> once (data_of (fst (sstep ss o))).
  Proof.
    intros ss o H. destruct o as [c|op|]; cbn [IterSession.sstep].
    - assert (H1 : once (s_data (drop_current RS ss)) /\ s_it (drop_current RS ss) = None).
      { unfold drop_current, IterSession.data_of in *. destruct (s_it ss) as [s|] eqn:E; cbn.
        - split; [apply once_close; exact H | reflexivity].
        - rewrite E. split; [exact H | reflexivity]. }
      destruct H1 as [H1 H2].
      destruct (mk_on _ _ c _) as [s|e] eqn:Em; cbn [fst].
      + destruct (mk_on_inl _ _ _ _ _ Em) as (_ & _ & Eg). unfold IterSession.data_of; cbn.
        rewrite Eg. unfold once in *. cbn. exact H1.
      + unfold IterSession.data_of. rewrite H2. exact H1.
    - unfold IterSession.data_of in *. destruct (s_it ss) as [s|] eqn:E; [|cbn; rewrite E; exact H].
      pose proof (once_step s op H) as K. destruct (step s op) as [s' x]. cbn in *. exact K.
    - unfold IterSession.data_of in *. destruct (s_it ss) as [s|] eqn:E; cbn; apply once_finalize; exact H.
  Qed.

  Lemma SInv_sstep : forall ss o,
      SInv ss -> (match o with SOwnerFinalize => idle ss = true | _ => True end) -> SInv (fst (sstep ss o)).
  Proof.
    intros ss o (H1 & H2 & H3) Hw.
    split; [apply once_sstep; exact H1|].
    destruct o as [c|op|]; cbn [IterSession.sstep].
    - (* SMake: the previous iterator is dropped, the guard is consulted *)
      assert (D : unfin_log (s_data (drop_current RS ss)) /\ s_it (drop_current RS ss) = None).
      { unfold drop_current, IterSession.data_of, IterSession.idle in *.
        destruct (s_it ss) as [s|] eqn:E; cbn; [|rewrite E; auto].
        split; [|reflexivity]. destruct (closed s) eqn:Hc.
        - unfold close. rewrite Hc. exact H2.
        - destruct (close_open RS s Hc) as [_ Eg]. rewrite Eg. unfold unfin_log. rewrite closed_gh_log. exact H2. }
      destruct D as [D1 D2].
      destruct (mk_on _ _ c _) as [s|e] eqn:Em; cbn [fst].
      + destruct (mk_on_inl _ _ _ _ _ Em) as (Hc & Hf & Eg).
        unfold IterSession.data_of, IterSession.idle; cbn. rewrite Eg. unfold unfin_log; cbn.
        split; [exact D1|]. rewrite Hf. discriminate.
      + unfold IterSession.data_of, IterSession.idle. rewrite D2. split; [exact D1 | reflexivity].
    - (* SOp *)
      unfold IterSession.data_of, IterSession.idle in *.
      destruct (s_it ss) as [s|] eqn:E; [|cbn; rewrite E; auto].
      destruct (closed s) eqn:Hc.
      + pose proof (fin_inv_closed_step RS render n term s op Hc) as K.
        destruct (step s op) as [s' x]. cbn in *. subst s'. rewrite Hc. auto.
      + assert (Hf : finalized (gh s) = false).
        { destruct (finalized (gh s)) eqn:Ef; [|reflexivity]. specialize (H3 eq_refl). discriminate. }
        pose proof (step_ghost s op Hc) as K. destruct (step s op) as [s' x]. cbn in *.
        destruct K as (g1 & (Ho & Hf1 & Hn1 & Hl) & [(A & B) | (A & B)]).
        * rewrite A, B. split.
          -- unfold unfin_log. destruct Hl as [-> | (rc & -> & Hrc)]; [exact H2|]. constructor; [congruence | exact H2].
          -- rewrite Hf1, Hf. discriminate.
        * rewrite A, B. split; [|auto]. unfold unfin_log. rewrite closed_gh_log.
          destruct Hl as [-> | (rc & -> & Hrc)]; [exact H2|]. constructor; [congruence | exact H2].
    - (* SOwnerFinalize, while idle *)
      unfold IterSession.data_of, IterSession.idle in *.
      destruct (s_it ss) as [s|] eqn:E; cbn.
      + split; [|intros _; exact Hw].
        unfold unfin_log, data_finalize. destruct (finalized (gh s)); exact H2.
      + split; [|auto]. unfold unfin_log, data_finalize. destruct (finalized (s_data ss)); exact H2.
  Qed.

  Lemma srun_cons : forall ss o l, srun ss (o :: l) = srun (fst (sstep ss o)) l.
  Proof. reflexivity. Qed.

  Lemma SInv_fresh : forall r rs0, SInv (fresh_sess RS r rs0).
  Proof. intros. unfold SInv, IterSession.data_of, IterSession.idle, once, unfin_log. cbn. repeat split; auto. Qed.

  (** ** theorems *)

  (** the finalizer runs at most once on the data in EVERY session (even one in which the
      owner finalizes under a live iterator) *)
  Theorem session_finalize_at_most_once : forall l r rs0,
      (fin_calls (data_of (srun (fresh_sess RS r rs0) l)) <= 1)%nat.
  Proof.
    intros l r rs0.
    assert (H : forall l ss, once (data_of ss) -> once (data_of (srun ss l))).
    { induction l0 as [|o l0 IH]; intros ss H; [exact H|]. rewrite srun_cons. apply IH, once_sstep, H. }
    specialize (H l (fresh_sess RS r rs0)). unfold once in H at 2. rewrite H.
    - destruct (finalized _); lia.
    - reflexivity.
  Qed.

  Lemma SInv_srun : forall l ss, SInv ss -> well_formed ss l = true -> SInv (srun ss l).
  Proof.
    induction l as [|o l IH]; intros ss H Hw; [exact H|].
    cbn [IterSession.well_formed] in Hw. apply andb_true_iff in Hw. destruct Hw as [Hw1 Hw2].
    rewrite srun_cons. apply IH; [|exact Hw2]. apply SInv_sstep; [exact H|].
    destruct o; auto.
  Qed.

  (** no frame is ever rendered with finalized data, in every session in which the owner
      finalizes only while no iterator is working on the data: whatever the number of
      iterators made from it, owning or not, before or after the finalization *)
  Theorem session_no_render_on_finalized : forall l r rs0,
      well_formed (fresh_sess RS r rs0) l = true ->
      Forall (fun rc => rc_finalized rc = false) (log (data_of (srun (fresh_sess RS r rs0) l))).
  Proof. intros l r rs0 Hw. destruct (SInv_srun l _ (SInv_fresh r rs0) Hw) as (_ & H & _). exact H. Qed.

  (** once the data is finalized (by its owner or by an owning iterator), every further
      [_from_render_data_] is refused and nothing is rendered any more *)
  Theorem session_after_finalization : forall l l' r rs0,
      well_formed (fresh_sess RS r rs0) (l ++ l') = true ->
      finalized (data_of (srun (fresh_sess RS r rs0) l)) = true ->
      log (data_of (srun (fresh_sess RS r rs0) (l ++ l'))) = log (data_of (srun (fresh_sess RS r rs0) l)) /\
      finalized (data_of (srun (fresh_sess RS r rs0) (l ++ l'))) = true /\
      Forall (fun y => y <> SMade /\ forall f, y <> SOut (OFrame f)) (strace (srun (fresh_sess RS r rs0) l) l').
  Proof.
    intros l l' r rs0 Hw Hf.
    assert (G : forall l' ss, SInv ss -> well_formed ss l' = true -> finalized (data_of ss) = true ->
                log (data_of (srun ss l')) = log (data_of ss) /\ finalized (data_of (srun ss l')) = true /\
                Forall (fun y => y <> SMade /\ forall f, y <> SOut (OFrame f)) (strace ss l')).
    { clear. induction l' as [|o l' IH]; intros ss Hi Hw Hf; [repeat split; auto; constructor|].
      cbn [IterSession.well_formed] in Hw. apply andb_true_iff in Hw. destruct Hw as [Hw1 Hw2].
      assert (Hi' : SInv (fst (sstep ss o))) by (apply SInv_sstep; [exact Hi | destruct o; auto]).
      assert (K : log (data_of (fst (sstep ss o))) = log (data_of ss) /\
                  finalized (data_of (fst (sstep ss o))) = true /\
                  snd (sstep ss o) <> SMade /\ (forall f, snd (sstep ss o) <> SOut (OFrame f))).
      { destruct Hi as (_ & _ & H3). specialize (H3 Hf).
        destruct o as [c|op|]; cbn [IterSession.sstep].
        - assert (D : s_data (drop_current RS ss) = data_of ss /\ s_it (drop_current RS ss) = None).
          { unfold drop_current, IterSession.data_of, IterSession.idle in *.
            destruct (s_it ss) as [s|] eqn:E; cbn; [|rewrite E; auto].
            unfold close. rewrite H3. auto. }
          destruct D as [D1 D2].
          destruct (guard_refuses_finalized (s_data (drop_current RS ss)) (s_rd (drop_current RS ss)) c
                                            (s_rs (drop_current RS ss))) as [e Ee]; [rewrite D1; exact Hf|].
          rewrite Ee. cbn [fst snd]. unfold IterSession.data_of at 1 3. rewrite D2, D1.
          repeat split; auto; discriminate.
        - unfold IterSession.data_of, IterSession.idle in *.
          destruct (s_it ss) as [s|] eqn:E; [|cbn; rewrite E; repeat split; auto; discriminate].
          pose proof (closed_step RS render n term s op H3) as K. rewrite K. cbn.
          repeat split; auto; destruct op; discriminate.
        - unfold IterSession.data_of in *. destruct (s_it ss) as [s|] eqn:E; cbn;
            unfold data_finalize; rewrite Hf; repeat split; auto; discriminate. }
      destruct K as (K1 & K2 & K3 & K4).
      rewrite srun_cons. destruct (IH _ Hi' Hw2 K2) as (A & B & C).
      split; [rewrite A; exact K1|]. split; [exact B|].
      cbn [IterSession.strace]. destruct (sstep ss o) as [ss' y]. cbn [fst snd] in *.
      constructor; [split; assumption | exact C]. }
    assert (Hw' : well_formed (fresh_sess RS r rs0) l = true /\ well_formed (srun (fresh_sess RS r rs0) l) l' = true).
    { clear - Hw. revert Hw. generalize (fresh_sess RS r rs0). induction l as [|o l IH]; intros ss Hw; [auto|].
      cbn [app IterSession.well_formed] in *. apply andb_true_iff in Hw. destruct Hw as [A B].
      rewrite srun_cons. destruct (IH _ B) as [C D]. rewrite A, C. auto. }
    destruct Hw' as [W1 W2].
    assert (E : srun (fresh_sess RS r rs0) (l ++ l') = srun (srun (fresh_sess RS r rs0) l) l')
      by (unfold IterSession.srun; apply fold_left_app).
    rewrite E. apply G; [apply SInv_srun; [apply SInv_fresh | exact W1] | exact W2 | exact Hf].
  Qed.

  (** data whose ownership the caller kept is left un-finalized by any number of
      non-owning iterators *)
  Theorem session_caller_owned_untouched : forall l r rs0,
      Forall (fun o => match o with SMake c => c_owns c = false | SOp _ => True | SOwnerFinalize => False end) l ->
      finalized (data_of (srun (fresh_sess RS r rs0) l)) = false /\
      fin_calls (data_of (srun (fresh_sess RS r rs0) l)) = 0%nat.
  Proof.
    intros l r rs0 Hl.
    assert (G : forall l ss,
               Forall (fun o => match o with SMake c => c_owns c = false | SOp _ => True | SOwnerFinalize => False end) l ->
               (finalized (data_of ss) = false /\ fin_calls (data_of ss) = 0%nat /\
                match s_it ss with Some s => owns (gh s) = false | None => True end) ->
               finalized (data_of (srun ss l)) = false /\ fin_calls (data_of (srun ss l)) = 0%nat).
    { clear. induction l as [|o l IH]; intros ss Hl (A & B & C); [auto|].
      inversion Hl as [|? ? Ho Hl']; subst. rewrite srun_cons. apply IH; [exact Hl'|].
      destruct o as [c|op|]; [| |contradiction]; cbn [IterSession.sstep].
      - assert (D : finalized (s_data (drop_current RS ss)) = false /\ fin_calls (s_data (drop_current RS ss)) = 0%nat
                    /\ s_it (drop_current RS ss) = None).
        { unfold drop_current, IterSession.data_of in *. destruct (s_it ss) as [s|] eqn:E; cbn; [|rewrite E; auto].
          unfold close. destruct (closed s); [auto|]. cbn. rewrite C. auto. }
        destruct D as (D1 & D2 & D3).
        destruct (mk_on _ _ c _) as [s|e] eqn:Em; cbn [fst].
        + destruct (mk_on_inl _ _ _ _ _ Em) as (_ & _ & Eg). unfold IterSession.data_of; cbn. rewrite Eg. cbn. auto.
        + unfold IterSession.data_of. rewrite D3. auto.
      - unfold IterSession.data_of in *. destruct (s_it ss) as [s|] eqn:E; [|cbn; rewrite E; auto].
        pose proof (owns_step RS render n term s op) as Ko.
        destruct (closed s) eqn:Hc.
        + pose proof (fin_inv_closed_step RS render n term s op Hc) as K.
          destruct (step s op) as [s' x]. cbn in *. subst. auto.
        + pose proof (step_ghost s op Hc) as K. destruct (step s op) as [s' x]. cbn in *.
          rewrite Ko, C.
          destruct K as (g1 & (Ho1 & Hf1 & Hn1 & _) & [(_ & ->) | (_ & ->)]).
          * rewrite Hf1, Hn1. auto.
          * unfold closed_gh. rewrite Ho1, C. rewrite Hf1, Hn1. auto. }
    apply G; [exact Hl|]. cbn. auto.
  Qed.
End SessionProofs.

(** ** the seeded guard (refuse finalized data only when the iterator is to own it) is refuted *)
Definition sx_cfg (owner : bool) : config :=
  {| c_loops := 1; c_cache := CBool false; c_size := (1, 1); c_dur := DStatic 1; c_args := Some 0;
     c_pad := PExact 0 0 0 0; c_owns := owner; c_frame := 0 |}.
Definition sx_session : list sop :=
  [SMake (sx_cfg false); SOp Next; SOp Next; SOp Next; SOp Close; SOwnerFinalize; SMake (sx_cfg false); SOp Next; SOp Next].
Definition sx_fresh := fresh_sess vr_state {| fo := 0; wh := WStart; d_size := (1, 1); d_dur := DStatic 1 |} t_rs0.
Definition sx_render := vr_render (Some 2) 5 [] [] false.

Example guard_only_when_owning_refuted :
  well_formed vr_state sx_render (Some 2) term8030 guard_only_when_owning sx_fresh sx_session = true /\
  map rc_finalized (log (data_of vr_state (srun vr_state sx_render (Some 2) term8030 guard_only_when_owning sx_fresh sx_session)))
  = [true; true; false; false].
Proof. vm_compute. split; reflexivity. Qed.

(** the code's guard on the same session: the second construction is refused, nothing more is rendered *)
Example guard_code_session :
  well_formed vr_state sx_render (Some 2) term8030 guard_code sx_fresh sx_session = true /\
  map rc_finalized (log (data_of vr_state (srun vr_state sx_render (Some 2) term8030 guard_code sx_fresh sx_session)))
  = [false; false] /\
  strace vr_state sx_render (Some 2) term8030 guard_code sx_fresh [SMake (sx_cfg false); SOp Close; SOwnerFinalize; SMake (sx_cfg false); SMake (sx_cfg true); SOp Next]
  = [SMade; SOut OOk; SDone; SRefused EValue; SRefused EValue; SNoIter].
Proof. vm_compute. repeat split; reflexivity. Qed.
