(** C06: the old API's theorems on the streams of [model/Draw.v] proper, the size
    validation specifications, and non-vacuity examples. *)
From Coq Require Import List ZArith Bool Lia.
Import ListNotations.
From TI Require Import lib.Term lib.TermFacts lib.Rect lib.Lines lib.TermScroll
     model.Padding proofs.PadProofs model.Draw proofs.DrawLines proofs.DrawProofs
     proofs.DrawProofsOld proofs.DrawStyles.
Open Scope Z_scope.
Local Arguments Z.eqb : simpl never.
Local Arguments Z.ltb : simpl never.
Local Arguments Z.leb : simpl never.

Lemma lastopt_map {A B} (f : A -> B) (l : list A) : lastopt (map f l) = option_map f (lastopt l).
Proof.
  induction l as [|x l IH]; [reflexivity|]. destruct l as [|y l']; [reflexivity|].
  change (lastopt (map f (x :: y :: l'))) with (lastopt (map f (y :: l'))).
  change (lastopt (x :: y :: l')) with (lastopt (y :: l')). exact IH.
Qed.

(** ** old API, animation: [BaseImage._display_animated], with [KittyImage]'s clearing and
       [ITerm2Image]'s wezterm pre-erase *)
Theorem old_animate_final W H lm W' H' (ha va : nat) w h (oldk wez tty : bool)
        (ls1 : list (list tok)) (lss : list (list (list tok))) t0 top0 :
  0 <= lm -> lm + Z.max W' w <= W -> Z.max H' h <= H ->
  LinesRect all_cells w h ls1 -> (forall ln, In ln ls1 -> Downward ln) ->
  Forall (LinesRect all_cells w h) lss ->
  okat t0 (row t0) lm -> top0 <= row t0 < top0 + H ->
  let fmt := fun ls => format_render W' H' ha va w h (joinlf ls) in
  DrawFinal W H lm top0 t0 tty (Z.max W' w) (Z.max H' h)
            (fmt (lastframe ls1 lss))
            (old_anim_stream tty (Z.max H' h)
               (if wez then wez_pre W' H' ha va w h else []) (kitty_clear oldk)
               (fmt ls1) (map fmt lss)).
Proof.
  intros Hlm HW HH HLR1 HD1 HFs Hok Htop fmt.
  pose proof (old_dims_spec W' H' ha va w h) as Sd. unfold fmt, format_render, wez_pre.
  unfold format_render.
  destruct (old_dims W' H' ha va w h) as [[[pl pt] pr] pb].
  destruct Sd as (Hpl & Hpt & Hpr & Hpb & Ew & Eh). rewrite <- Ew, <- Eh in *.
  pose proof (lr_w _ _ _ _ HLR1) as Hw.
  assert (Hh : 0 < h).
  { pose proof (lr_len _ _ _ _ HLR1) as Hlen. pose proof (lr_ne _ _ _ _ HLR1).
    destruct ls1; [congruence|cbn [length] in Hlen; lia]. }
  assert (HCk : ClearBox lm w h pl pt pr pb (kitty_clear oldk)) by (apply ClearBox_kitty; lia).
  set (rest := map (fun ls => (kitty_clear oldk, ls)) lss).
  assert (HFr : Forall (fun cl => ClearBox lm w h pl pt pr pb (fst cl) /\ LinesRect all_cells w h (snd cl)) rest).
  { unfold rest. apply Forall_forall. intros cl Hin. apply in_map_iff in Hin.
    destruct Hin as (ls & <- & Hls). split; [exact HCk|]. exact (proj1 (Forall_forall _ _) HFs _ Hls). }
  assert (Elater : forall lines, concat (map (fun P => kitty_clear oldk ++ old_frame lines P)
                                   (map (fun ls => pad (Some GSpace) (pl, pt, pr, pb) w (joinlf ls)) lss))
                   = concat (map (fun cl => fst cl ++ old_frame lines (pad (Some GSpace) (pl, pt, pr, pb) w (joinlf (snd cl)))) rest)).
  { intros lines. unfold rest. rewrite !map_map. reflexivity. }
  destruct wez.
  - (* the pre-erase is drawn first, then the first frame without clearing *)
    pose proof (old_animate_gen W H lm GSpace w h pl pt pr pb Hpl Hpt Hpr Hpb Hlm HW HH
                  (wez_erase_ls w h) (([], ls1) :: rest) (wez_erase_lr w h Hw Hh)
                  (wez_erase_downward w h Hw)) as T.
    assert (HFr' : Forall (fun cl => ClearBox lm w h pl pt pr pb (fst cl) /\ LinesRect all_cells w h (snd cl))
                          (([], ls1) :: rest)).
    { constructor; [split; [apply ClearBox_nil|exact HLR1]|exact HFr]. }
    specialize (T HFr' t0 top0 tty Hok Htop).
    assert (El : old_last ls1 (([] : list tok, ls1) :: rest) = lastframe ls1 lss).
    { unfold old_last, lastframe. destruct lss as [|l0 lss'].
      - reflexivity.
      - unfold rest. change (lastopt (([], ls1) :: map _ (l0 :: lss'))) with
            (lastopt (map (fun ls => (kitty_clear oldk, ls)) (l0 :: lss'))).
        rewrite lastopt_map. destruct (lastopt (l0 :: lss')) eqn:E0; [reflexivity|].
        apply lastopt_none in E0. discriminate. }
    assert (El0 : old_last (wez_erase_ls w h) (([] : list tok, ls1) :: rest) = lastframe ls1 lss).
    { unfold old_last in *. destruct (lastopt (([], ls1) :: rest)) eqn:E0; [exact El|].
      apply lastopt_none in E0. discriminate. }
    rewrite El0 in T.
    unfold old_anim_stream, old_anim_body. unfold old_body, old_later in T.
    cbn [map concat fst snd app] in T. rewrite Elater. rewrite <- !app_assoc in *. exact T.
  - pose proof (old_animate_gen W H lm GSpace w h pl pt pr pb Hpl Hpt Hpr Hpb Hlm HW HH
                  ls1 rest HLR1 HD1 HFr t0 top0 tty Hok Htop) as T.
    assert (El : old_last ls1 rest = lastframe ls1 lss).
    { unfold old_last, lastframe, rest. rewrite lastopt_map. destruct (lastopt lss); reflexivity. }
    rewrite El in T. unfold old_anim_stream, old_anim_body. unfold old_body, old_later in T.
    rewrite Elater. cbn [app]. rewrite <- !app_assoc in *. exact T.
Qed.

(** ** old API, still image *)
Theorem old_draw_still_final W H lm W' H' (ha va : nat) w h (tty : bool)
        (ls : list (list tok)) t0 top0 :
  0 <= lm -> lm + Z.max W' w <= W -> Z.max H' h <= H ->
  LinesRect all_cells w h ls -> (forall ln, In ln ls -> Downward ln) ->
  okat t0 (row t0) lm -> top0 <= row t0 < top0 + H ->
  DrawFinal W H lm top0 t0 tty (Z.max W' w) (Z.max H' h)
            (format_render W' H' ha va w h (joinlf ls))
            (old_still_stream tty (format_render W' H' ha va w h (joinlf ls))).
Proof.
  intros Hlm HW HH HLR HD Hok Htop.
  pose proof (old_dims_spec W' H' ha va w h) as Sd. unfold format_render.
  destruct (old_dims W' H' ha va w h) as [[[pl pt] pr] pb].
  destruct Sd as (Hpl & Hpt & Hpr & Hpb & Ew & Eh). rewrite <- Ew, <- Eh in *.
  apply old_still_gen; assumption.
Qed.

(** ** size validation *)
Theorem size_ok_spec cs allow anim pw ph tw th :
  size_ok cs allow anim pw ph tw th = true <-> doc_fits cs allow anim pw ph tw th.
Proof.
  unfold size_ok, doc_fits.
  destruct cs, allow, anim; cbn [orb andb negb];
    destruct (tw <? pw) eqn:E1; destruct (th <? ph) eqn:E2; cbn [orb andb negb];
    try apply Z.ltb_lt in E1; try apply Z.ltb_ge in E1;
    try apply Z.ltb_lt in E2; try apply Z.ltb_ge in E2;
    split; intros Hx; try discriminate; try reflexivity;
    try (intros; split; [lia|intros; lia]);
    try (exfalso; destruct Hx as [Hx1 Hx2]; [auto|]; try lia; specialize (Hx2 ltac:(auto)); lia);
    try (intros [Hc|Hc]; discriminate).
Qed.

(** the rejecting branch writes nothing, and it is taken exactly when the documented rule
    is violated *)
Theorem draw_rejects_iff cs allow anim hide tw th fill l t r b w h clear frames :
  draw_stream cs allow anim hide tw th fill (l, t, r, b) w h clear frames = None
  <-> ~ doc_fits cs allow anim (l + w + r) (t + h + b) tw th.
Proof.
  unfold draw_stream, padded_size. cbv beta iota zeta. rewrite <- size_ok_spec.
  destruct (size_ok cs allow anim (l + w + r) (t + h + b) tw th).
  - split; [discriminate|intros Hx; exfalso; apply Hx; reflexivity].
  - split; [intros _ ?; discriminate|reflexivity].
Qed.

Theorem old_size_ok_spec cs scroll anim dyn w h rawW rawH tw th :
  old_size_ok cs scroll anim dyn w h rawW rawH tw th = true
  <-> old_doc_fits cs scroll anim dyn w h rawW rawH tw th.
Proof.
  unfold old_size_ok, old_doc_fits.
  destruct (tw <? rawW) eqn:E0; destruct (th <? rawH) eqn:E3;
    destruct (tw <? w) eqn:E1; destruct (th <? h) eqn:E2;
    rewrite ?Z.ltb_lt, ?Z.ltb_ge in *;
    destruct cs, scroll, anim, dyn; cbn [orb andb negb];
    intuition (try congruence; try lia; try (exfalso; lia)).
Qed.

Theorem old_draw_rejects_iff cs scroll anim dyn tty tw th rawW rawH ha va w h pre clear frames :
  old_draw_stream cs scroll anim dyn tty tw th rawW rawH ha va w h pre clear frames = None
  <-> ~ old_doc_fits cs scroll anim dyn w h rawW rawH tw th.
Proof.
  unfold old_draw_stream. rewrite <- old_size_ok_spec.
  destruct (old_size_ok cs scroll anim dyn w h rawW rawH tw th).
  - destruct (old_resolve tw th rawW rawH). split; [discriminate|intros Hx; exfalso; apply Hx; reflexivity].
  - split; [intros _ ?; discriminate|reflexivity].
Qed.

(** the base implementation of [_clear_frame_] does nothing *)
Lemma ClearOK_nil w h : ClearOK w h [].
Proof.
  intros lm' s r c (Hcl & Hs & Hr & Hc). exists []. split; [|reflexivity].
  cbn. rewrite <- Hs, <- Hr, <- Hc. symmetry. apply mk_id.
Qed.

(** ** non-vacuity: a 2x2 render (two lines of [ECH 2, CUF 2]) padded to 3x4, animated over
       two frames on a 10x5 screen from row 3 — the first frame scrolls the screen by two
       lines, the final line feed by one more *)
Definition ex_frame : list (list tok) := wez_erase_ls 2 2.
Definition ex_stream : list tok :=
  anim_stream true 1 1 2 [] (padded (Some GSpace) (1, 1, 0, 1) 2 2 (joinlf ex_frame)) [joinlf ex_frame].

Example animate_example :
  DrawFinal 10 5 0 0 (pos 3 0) true 3 4
            (padded (Some GSpace) (1, 1, 0, 1) 2 2 (joinlf ex_frame)) ex_stream.
Proof.
  pose proof (animate_final 10 5 0 (Some GSpace) 2 2 1 1 0 1) as T.
  specialize (T ltac:(lia) ltac:(lia) ltac:(lia) ltac:(lia) ltac:(lia) ltac:(lia) ltac:(lia)).
  specialize (T [] (ClearOK_nil 2 2) ex_frame [ex_frame]
                (wez_erase_lr 2 2 ltac:(lia) ltac:(lia)) (wez_erase_downward 2 2 ltac:(lia))).
  specialize (T (Forall_cons _ (wez_erase_lr 2 2 ltac:(lia) ltac:(lia)) (Forall_nil _))).
  specialize (T (pos 3 0) 0 true (okat_pos 3 0) ltac:(cbn; lia)).
  exact T.
Qed.

Example animate_example_computed :
  srun 10 5 0 0 (pos 3 0) ex_stream = Some 3
  /\ row (exec 0 (pos 3 0) ex_stream) = 7 /\ col (exec 0 (pos 3 0) ex_stream) = 0
  /\ visible (exec 0 (pos 3 0) ex_stream) = true.
Proof. vm_compute. repeat split. Qed.

(** ** the defect this check found in the old API (F5), kept as a computed counterexample:
       the stream [_display_animated] wrote before the fix — ["\r" CSI (lines-1) A] before
       every later frame (CSI 0 A for a one-line box: one line up) and a trailing
       [CSI lines B] issued from the last line *)
Definition legacy_old_anim (lines : Z) (P1 : list tok) (Ps : list (list tok)) : list tok :=
  P1 ++ concat (map (fun P => [TCR; TCuu (lines - 1)] ++ P) Ps) ++ [TCud lines] ++ [TSgr0; TLF].

Example legacy_one_line_box_climbs_and_overshoots :
  let P := [TChar GSpace; TChar GSpace] in
  let t' := exec 0 (pos 5 0) (legacy_old_anim 1 P [P; P]) in
  (* the third frame was written on row 3, two rows above the first; the cursor ends on
     row 5 instead of row 6 *)
  In (EText 3 0 GSpace adefault) (log t') /\ row t' = 5.
Proof. vm_compute. split; [tauto|reflexivity]. Qed.

Example legacy_cursor_ends_too_low :
  let P := [TChar GSpace; TLF; TChar GSpace] in
  row (exec 0 (pos 5 0) (legacy_old_anim 2 P [P])) = 9    (* the box is rows 5-6 *)
  /\ row (exec 0 (pos 5 0) (old_anim_stream false 2 [] [] P [P])) = 7.
Proof. vm_compute. split; reflexivity. Qed.

(** ** the loop invariant, restated without the section's parameters *)
Theorem animate_inv lm w h pl clear :
  0 <= pl -> ClearOK w h clear ->
  forall (lss : list (list (list tok))) (s : term) (ra : Z),
  Forall (LinesRect all_cells w h) lss -> okat s ra (lm + pl) ->
  exists EV : list ev,
    (* back at the render's top-left, attributes default, protocol state clean *)
    exec lm s (concat (map (fun ls => later_frame pl h clear (joinlf ls)) lss))
      = mk ra (lm + pl) adefault s EV
    (* every event within the render's rows, from the left margin to the render's right edge *)
    /\ forallb (ev_inside ra lm h (pl + w)) EV = true
    (* only cells of the render are written, erased or overlaid *)
    /\ (forall r c, covered EV r c = true -> ra <= r < ra + h /\ lm + pl <= c < lm + pl + w)
    (* every cell of the render shows the last frame *)
    /\ (forall r c acc, ra <= r < ra + h -> lm + pl <= c < lm + pl + w ->
          lastcov_from acc EV r c =
          match lastopt lss with
          | Some lsn => lastcov (flat (lm + pl) ra lsn) r c
          | None => acc
          end).
Proof.
  intros Hpl HC lss s ra HF Hok.
  exact (later_frames_inv lm w h pl 0 0 0 Hpl clear HC lss s ra HF Hok).
Qed.

(** all five render shapes keep the downward discipline *)
Theorem styles_downward :
  (forall alpha kitty bgcol split (w : nat) rows,
      (0 < w)%nat -> (forall r, In r rows -> length r = w) ->
      forall ln, In ln (proofs.BlockRect.block_ls alpha kitty bgcol split rows) -> Downward ln)
  /\ (forall w z mix blend pls, 0 < w ->
        forall ln, In ln (map (model.GfxRender.kitty_line w z mix blend) pls) -> Downward ln)
  /\ (forall w h z mix blend pl, 0 < w ->
        forall ln, In ln (model.GfxRender.kitty_whole_ls w h z mix blend pl) -> Downward ln)
  /\ (forall w konsole wezterm mix sps, 0 < w ->
        forall ln, In ln (map (model.GfxRender.iterm2_line w konsole wezterm mix) sps) -> Downward ln)
  /\ (forall w h konsole wezterm mix sp, 0 < w -> 0 < h ->
        forall ln, In ln (model.GfxRender.iterm2_whole_ls w h konsole wezterm mix sp) -> Downward ln).
Proof.
  split; [|split; [|split; [|split]]].
  - exact block_downward.
  - intros w z mix blend pls Hw. exact (kitty_lines_downward w z mix blend Hw pls).
  - intros w h z mix blend pl Hw. exact (kitty_whole_downward w h z mix blend Hw pl).
  - intros w konsole wezterm mix sps Hw. exact (iterm2_lines_downward w konsole wezterm mix Hw sps).
  - intros w h konsole wezterm mix sp Hw Hh. exact (iterm2_whole_downward w h konsole wezterm mix Hw Hh sp).
Qed.

(** non-vacuity, old API: the same frames, pad size 3x3 centred, kitty <= 0.25 clearing and
    the wezterm pre-erase, from the last row of a 10x5 screen *)
Example old_animate_example :
  let fmt := fun ls => format_render 3 3 1 1 2 2 (joinlf ls) in
  DrawFinal 10 5 0 0 (pos 4 0) true (Z.max 3 2) (Z.max 3 2)
            (fmt (lastframe ex_frame [ex_frame]))
            (old_anim_stream true (Z.max 3 2) (wez_pre 3 3 1 1 2 2) (kitty_clear true)
               (fmt ex_frame) (map fmt [ex_frame])).
Proof.
  apply (old_animate_final 10 5 0 3 3 1 1 2 2 true true true ex_frame [ex_frame] (pos 4 0) 0);
    try (cbn; lia).
  - apply wez_erase_lr; lia.
  - apply wez_erase_downward; lia.
  - constructor; [apply wez_erase_lr; lia|constructor].
  - apply okat_pos.
Qed.
