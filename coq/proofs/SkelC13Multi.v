(** C13, round 8: several terminals -- the translated skeletons ([gen/Skeletons.v]) with the
    descriptor of every attribute call site ([gen/AttrFd.v], harness/tx/tx_attrfd.py), both
    regenerated from the source on every run.  [multi_check] (model/C13Multi.v) is evaluated by
    [vm_compute]; [multi_check_sound] (proofs/C13MultiProofs.v) gives, for EVERY layout of
    descriptors over terminals and EVERY terminal, restoration on every run of [evalA]. *)
From Coq Require Import List Bool Arith.
Import ListNotations.
From TI Require Import lib.Eff gen.Skeletons gen.AttrFd model.C13Any model.C13Multi proofs.C13MultiProofs.

Lemma query_multi_check : multi_check nv_query_terminal sk_query_terminal afd_query_terminal afd_expr_query_terminal = true.
Proof. vm_compute. reflexivity. Qed.
Lemma read_tty_multi_check : multi_check nv_read_tty sk_read_tty afd_read_tty afd_expr_read_tty = true.
Proof. vm_compute. reflexivity. Qed.
Lemma write_tty_multi_check : multi_check nv_write_tty sk_write_tty afd_write_tty afd_expr_write_tty = true.
Proof. vm_compute. reflexivity. Qed.
Lemma draw_multi_check : multi_check nv_Renderable_draw sk_Renderable_draw afd_Renderable_draw afd_expr_Renderable_draw = true.
Proof. vm_compute. reflexivity. Qed.

Lemma query_multi_restores : multi_restores nv_query_terminal sk_query_terminal (addr_of afd_query_terminal).
Proof. exact (multi_check_sound _ _ _ _ query_multi_check). Qed.
Lemma read_tty_multi_restores : multi_restores nv_read_tty sk_read_tty (addr_of afd_read_tty).
Proof. exact (multi_check_sound _ _ _ _ read_tty_multi_check). Qed.
Lemma write_tty_multi_restores : multi_restores nv_write_tty sk_write_tty (addr_of afd_write_tty).
Proof. exact (multi_check_sound _ _ _ _ write_tty_multi_check). Qed.
Lemma draw_multi_restores : multi_restores nv_Renderable_draw sk_Renderable_draw (addr_of afd_Renderable_draw).
Proof. exact (multi_check_sound _ _ _ _ draw_multi_check). Qed.

(** the tables are not empty where the skeleton has attribute calls (the coverage test of
    [multi_check] is not vacuous), and draw() and the query functions address DIFFERENT
    descriptor expressions (the output stream's descriptor / the active terminal) *)
Example tables_nontrivial :
  length afd_Renderable_draw = 4 /\ length afd_read_tty = 4 /\ length afd_query_terminal = 8 /\
  Nat.eqb afd_expr_Renderable_draw afd_expr_read_tty = false /\
  existsb (fun o => match attr_key o with Some _ => true | None => false end) (ops_of sk_Renderable_draw) = true.
Proof. vm_compute. repeat split. Qed.
