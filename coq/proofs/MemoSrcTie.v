(** * MemoSrcTie — the micro-step machines of C15 perform the source's steps in the source's
    order ([gen/MemoSrc.v], regenerated from [utils.py] and [term_image/__init__.py] by
    [harness/tx/tx_memo.py] on every run).  No [lia] (see [proofs/C15Arith.v]). *)
From Coq Require Import List Bool Arith String.
Import ListNotations.
From TI Require Import lib.Sched model.Caches model.CachesInval model.MemoShape gen.MemoSrc.
Open Scope string_scope.
Open Scope list_scope.

(** the label trace of a memoised call (miss path) run alone, computed from [qstep_gen] *)
Lemma memo_call_is_source_lemma :
  forall f0 k, qsolo true f0 (QCall k) = src_cached_call.
Proof. intros [] k; reflexivity. Qed.

Lemma memo_inval_is_source_lemma :
  forall f0, qsolo true f0 QInval = src_cached_inval.
Proof. intros []; reflexivity. Qed.

(** the machine whose invalidator takes the lock — the one every theorem is about — is the
    source's; the lock-free variant is not *)
Lemma memo_inval_locked_iff_lemma :
  forall locked f0, qsolo locked f0 QInval = src_cached_inval <-> locked = true.
Proof.
  intros locked f0; destruct locked, f0; split; intro H; try reflexivity; discriminate H.
Qed.

(** lookup, body and store of one call lie inside ONE lock region, in this order *)
Lemma memo_call_region_lemma :
  once_before LAcquire LLookup src_cached_call = true
  /\ once_before LLookup LBody src_cached_call = true
  /\ once_before LBody LStore src_cached_call = true
  /\ once_before LStore LRelease src_cached_call = true.
Proof. repeat split; reflexivity. Qed.

(** [enable_queries()], seen from each memoised function of the package and from the
    cell-size cache, is the machine's [QEnable]: test, flag write FIRST, then acquire /
    clear / release *)
Lemma enable_queries_is_source_lemma :
  (forall m, In m src_cached_functions ->
     flat_map (proj_memo src_cached_inval m) src_enable_queries = qsolo true false QEnable)
  /\ flat_map proj_cell src_enable_queries = qsolo true false QEnable
  /\ toggle_head "_queries_enabled" true src_enable_queries = true
  /\ qsolo true true QEnable = [LTest].
Proof.
  split; [|repeat split; reflexivity].
  intros m Hm. simpl in Hm.
  repeat (destruct Hm as [Hm|Hm]; [subst m; reflexivity|]). destruct Hm.
Qed.

Lemma disable_queries_is_source_lemma :
  forall m f0, flat_map (proj_memo src_cached_inval m) src_disable_queries = qsolo true f0 QDisable
               /\ flat_map proj_cell src_disable_queries = qsolo true f0 QDisable.
Proof. intros m []; split; reflexivity. Qed.

(** every function memoised with [@cached] anywhere in the package is invalidated by
    [enable_queries()], after the flag write *)
Lemma every_memo_invalidated_lemma :
  forall m, In m src_cached_functions ->
    exists pre post, src_enable_queries = pre ++ TInval m :: post
                     /\ In (TWrite "_queries_enabled" true) pre.
Proof.
  intros m Hm. simpl in Hm.
  destruct Hm as [Hm|[Hm|[]]]; subst m.
  - exists [TTest "_queries_enabled" false; TWrite "_queries_enabled" true]; eexists.
    split; [reflexivity|simpl; auto].
  - exists [TTest "_queries_enabled" false; TWrite "_queries_enabled" true; TInval "get_fg_bg_colors"]; eexists.
    split; [reflexivity|simpl; auto].
Qed.

(** the win-size-swap toggles are the machine's [WToggle]; the variant that writes the flag
    after the lock region is not *)
Lemma swap_toggles_are_source_lemma :
  flat_map proj_cell src_enable_win_size_swap = wsolo false false (WToggle true)
  /\ flat_map proj_cell src_disable_win_size_swap = wsolo false true (WToggle false)
  /\ toggle_head "_swap_win_size" true src_enable_win_size_swap = true
  /\ toggle_head "_swap_win_size" false src_disable_win_size_swap = true
  /\ wsolo false true (WToggle true) = [LTest]
  /\ wsolo false false (WToggle false) = [LTest].
Proof. repeat split; reflexivity. Qed.

Lemma swap_toggle_late_iff_lemma :
  forall late, wsolo late false (WToggle true) = flat_map proj_cell src_enable_win_size_swap <-> late = false.
Proof. intros []; split; intro H; try reflexivity; discriminate H. Qed.

(** [terminal_size_cached]: the key is read once, under the lock, before the test and the
    body; the slot is written after the body inside the same lock region (the order
    [Caches.get_tsc_resize] and [CachesArgs.code_run] assume: stored under the size read
    BEFORE the body); the invalidator clears the slot under the lock *)
Lemma tsc_shape_is_source_lemma :
  tsc_shape_ok src_tsc_call = true
  /\ src_tsc_inval = [LAcquire; LClearSlot; LRelease].
Proof. split; reflexivity. Qed.
