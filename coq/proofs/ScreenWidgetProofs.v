(** C18 — every valid widget: whatever its format specifier says, a kitty widget places its
    images with the z-index the allocator gave it (the one the screen deletes by); hence, for
    every history of constructions with arbitrary specifiers and finalisations, the z-indexes
    ON THE TERMINAL of live widgets are pairwise distinct, non-zero and in range.  The variant
    in which the specifier's entries win is refuted. *)
From Coq Require Import List ZArith Bool Lia.
Import ListNotations.
From TI Require Import lib.Term model.Screen model.ScreenWidget proofs.ScreenAlloc.

Lemma skey_eqb_eq : forall a b, skey_eqb a b = true <-> a = b.
Proof. intros [] []; simpl; split; intro E; try reflexivity; try discriminate. Qed.

Lemma skey_eqb_refl : forall a, skey_eqb a a = true.
Proof. intros []; reflexivity. Qed.

Lemma sget_sset_same : forall k v d, sget k (sset k v d) = Some v.
Proof. intros. unfold sset. simpl. rewrite skey_eqb_refl. reflexivity. Qed.

Lemma sget_filter_other : forall k k' d, k <> k' ->
  sget k (filter (fun e => negb (skey_eqb (fst e) k')) d) = sget k d.
Proof.
  induction d as [|[a v] d IH]; intro Hne; [reflexivity|]. simpl.
  destruct (skey_eqb a k') eqn:E; simpl.
  - apply skey_eqb_eq in E. subst a. destruct (skey_eqb k' k) eqn:E2; [apply skey_eqb_eq in E2; congruence|]. auto.
  - destruct (skey_eqb a k); auto.
Qed.

Lemma sget_sset_other : forall k k' v d, k <> k' -> sget k (sset k' v d) = sget k d.
Proof.
  intros k k' v d Hne. unfold sset. simpl.
  destruct (skey_eqb k' k) eqn:E; [apply skey_eqb_eq in E; congruence|]. apply sget_filter_other. exact Hne.
Qed.

(** the widget's own z-index, and [blend = False] off Konsole, whatever the specifier holds *)
Lemma widget_places_with_own_z_lemma : forall konsole z spec,
  placed_z (init_args IKitty konsole z spec) = z
  /\ (konsole = false -> sget KBlend (init_args IKitty konsole z spec) = Some 0%Z)
  /\ sget KSplit (init_args IText konsole z spec) = Some 1%Z
  /\ (forall k, k <> KZ -> k <> KBlend -> sget k (init_args IKitty konsole z spec) = sget k spec).
Proof.
  intros konsole z spec.
  assert (Ek : init_args IKitty konsole z spec
               = if konsole then sset KZ z spec else sset KBlend 0%Z (sset KZ z spec)) by (destruct konsole; reflexivity).
  assert (Et : init_args IText konsole z spec = sset KSplit 1%Z spec) by reflexivity.
  unfold placed_z. rewrite Ek, Et. destruct konsole.
  - rewrite sget_sset_same.
    split; [reflexivity|split; [intro; discriminate|split; [apply sget_sset_same|]]].
    intros k H1 H2. apply sget_sset_other. exact H1.
  - rewrite sget_sset_other by discriminate. rewrite sget_sset_same.
    split; [reflexivity|split; [intros _; apply sget_sset_same|split; [apply sget_sset_same|]]].
    intros k H1 H2. rewrite sget_sset_other by exact H2. apply sget_sset_other. exact H1.
Qed.

(** so the delete-by-z-index issued for the widget removes every placement it transmitted *)
Lemma widget_delete_matches_lemma : forall konsole z spec r c w h l,
  In (mk_plc r c w h (placed_z (init_args IKitty konsole z spec))) l ->
  ~ In (mk_plc r c w h (placed_z (init_args IKitty konsole z spec))) (apply_del (DelZ z) 0 0 l).
Proof.
  intros konsole z spec r c w h l _ Hin.
  destruct (widget_places_with_own_z_lemma konsole z spec) as [E _]. rewrite E in Hin.
  unfold apply_del in Hin. apply filter_In in Hin. destruct Hin as [_ Hf]. simpl in Hf.
  rewrite Z.eqb_refl in Hf. discriminate.
Qed.

(** for every history: the z-indexes on the terminal are the allocator's *)
Lemma placed_zs_are_live_zs : forall konsole h,
  placed_zs (init_args IKitty konsole) h = live_zs (hist_run (map wev_forget h)).
Proof.
  intros konsole h. unfold placed_zs, live_zs. apply map_ext. intros [w z]. simpl.
  apply widget_places_with_own_z_lemma.
Qed.

Lemma placed_z_distinct_lemma : forall konsole (h : list wev),
  NoDup (placed_zs (init_args IKitty konsole) h)
  /\ (forall z, In z (placed_zs (init_args IKitty konsole) h) -> z <> 0 /\ - (zlimit - 1) <= z <= zlimit - 1)%Z.
Proof.
  intros konsole h. rewrite placed_zs_are_live_zs.
  destruct (z_distinct_in_range_lemma (map wev_forget h)) as [Hnd [Hr _]]. split; assumption.
Qed.

(** the specifier [+z5] on two widgets: with the specifier's entries winning both place
    their images with z-index 5, which is neither's own (1 and -1): the screen's deletes
    ([d=Z,z=1], [d=Z,z=-1]) match nothing *)
Lemma spec_z_wins_refuted :
  let h := [WNew 0 [(KZ, 5%Z)]; WNew 0 [(KZ, 5%Z)]] in
  live_zs (hist_run (map wev_forget h)) = [(-1)%Z; 1%Z]
  /\ placed_zs (init_args_spec_wins IKitty false) h = [5%Z; 5%Z]
  /\ placed_zs (init_args IKitty false) h = [(-1)%Z; 1%Z]
  /\ apply_del (DelZ 1) 0 0 [mk_plc 0 0 4 1 (placed_z (init_args_spec_wins IKitty false 1 [(KZ, 5%Z)]))] <> []
  /\ apply_del (DelZ 1) 0 0 [mk_plc 0 0 4 1 (placed_z (init_args IKitty false 1 [(KZ, 5%Z)]))] = [].
Proof. vm_compute. repeat split; try reflexivity. discriminate. Qed.
