(** * TrimLists — list slicing, Python slices, and the algebra of [row_vis] (C17) *)
From Coq Require Import List ZArith Bool Lia.
Import ListNotations.
From TI Require Import lib.Term lib.TermFacts model.Trim model.TrimSpec.
Open Scope Z_scope.

(** ** slices *)

Lemma Forall_firstn' {A} (P : A -> Prop) l : Forall P l -> forall n, Forall P (firstn n l).
Proof. induction 1 as [|x l Hx _ IH]; intros [|n]; cbn [firstn]; try constructor; auto. Qed.
Lemma Forall_skipn' {A} (P : A -> Prop) l : Forall P l -> forall n, Forall P (skipn n l).
Proof.
  induction 1 as [|x l Hx Hl IH]; intros [|n]; cbn [skipn]; try (constructor; assumption). apply IH.
Qed.

Lemma firstn_skipn_app {A} (a r : list A) t n :
  firstn n (skipn t (a ++ r))
  = firstn n (skipn t a) ++ firstn (n - (length a - t)) (skipn (t - length a) r).
Proof. rewrite skipn_app, firstn_app, skipn_length. reflexivity. Qed.

Lemma skipn_repeat {A} (x : A) m : forall t, skipn t (repeat x m) = repeat x (m - t).
Proof.
  induction m as [|m IH]; intros [|t]; cbn [repeat skipn Nat.sub]; try reflexivity. apply IH.
Qed.

Lemma firstn_repeat {A} (x : A) m : forall n, firstn n (repeat x m) = repeat x (Nat.min n m).
Proof.
  induction m as [|m IH]; intros [|n]; cbn [repeat firstn Nat.min]; try reflexivity.
  f_equal. apply IH.
Qed.

Lemma firstn_min_length {A} (l : list A) n : firstn n l = firstn (Nat.min n (length l)) l.
Proof.
  destruct (Nat.le_ge_cases n (length l)).
  - rewrite Nat.min_l by assumption. reflexivity.
  - rewrite Nat.min_r by assumption. rewrite firstn_all. apply firstn_all2. assumption.
Qed.

Lemma firstn_same {A} (l : list A) n m :
  Nat.min n (length l) = Nat.min m (length l) -> firstn n l = firstn m l.
Proof. intros H. rewrite (firstn_min_length l n), (firstn_min_length l m), H. reflexivity. Qed.

Lemma skipn_same {A} (l : list A) n m :
  Nat.min n (length l) = Nat.min m (length l) -> skipn n l = skipn m l.
Proof.
  intros H.
  destruct (Nat.le_ge_cases n (length l)), (Nat.le_ge_cases m (length l)).
  - replace m with n by lia. reflexivity.
  - rewrite (skipn_all2 l (n := m)) by assumption. replace n with (length l) by lia. apply skipn_all.
  - rewrite (skipn_all2 l (n := n)) by assumption. replace m with (length l) by lia. symmetry. apply skipn_all.
  - rewrite !skipn_all2 by assumption. reflexivity.
Qed.

(** the window [[t, t+n)] of a list made of a constant run, a middle part and another
    constant run *)
Lemma window3 {A} (x : A) (p q : nat) (V : list A) (t n np ti m nq : nat) :
  np = Nat.min n (p - t) ->
  Nat.min ti (length V) = Nat.min (t - p) (length V) ->
  Nat.min m (length V - (t - p)) = Nat.min (n - (p - t)) (length V - (t - p)) ->
  nq = Nat.min (n - (p - t) - (length V - (t - p))) (q - (t - p - length V)) ->
  firstn n (skipn t (repeat x p ++ V ++ repeat x q))
  = repeat x np ++ firstn m (skipn ti V) ++ repeat x nq.
Proof.
  intros -> Hti Hm ->.
  rewrite firstn_skipn_app, repeat_length, skipn_repeat, firstn_repeat. f_equal.
  rewrite firstn_skipn_app, skipn_repeat, firstn_repeat. f_equal.
  rewrite (skipn_same V ti (t - p) Hti).
  apply firstn_same. rewrite skipn_length. symmetry. exact Hm.
Qed.

(** Python slices with non-negative bounds *)
Lemma py_slice_nonneg {A} (l : list A) a b : 0 <= a -> 0 <= b ->
  py_slice l a (neg_or_none b)
  = firstn (length l - Z.to_nat a - Z.to_nat b) (skipn (Z.to_nat a) l).
Proof.
  intros Ha Hb. unfold py_slice, neg_or_none, norm_idx.
  destruct (Z.ltb_spec a 0); [lia|].
  destruct (Z.le_gt_cases a (Z.of_nat (length l))) as [Hle|Hgt].
  - rewrite Z.min_l by assumption.
    destruct (Z.eqb_spec b 0) as [->|Hne].
    + f_equal. lia.
    + destruct (Z.ltb_spec (- b) 0); [|lia]. f_equal. lia.
  - rewrite Z.min_r by lia. rewrite Nat2Z.id.
    rewrite !(skipn_all2 l) by lia. rewrite !firstn_nil. reflexivity.
Qed.

Lemma py_slice_neg_stop {A} (l : list A) a b : 0 <= a -> 0 < b ->
  py_slice l a (Some (- b))
  = firstn (length l - Z.to_nat a - Z.to_nat b) (skipn (Z.to_nat a) l).
Proof.
  intros Ha Hb. rewrite <- (py_slice_nonneg l a b) by lia.
  unfold neg_or_none. destruct (Z.eqb_spec b 0); [lia|reflexivity].
Qed.

Lemma py_rev_from_pos {A} (l : list A) i : 0 <= i < Z.of_nat (length l) ->
  py_rev_from l i = rev (firstn (Z.to_nat i + 1) l).
Proof.
  intros H. unfold py_rev_from. destruct (Z.ltb_spec i 0); [lia|].
  rewrite Z.min_l by lia. destruct (Z.ltb_spec i 0); [lia|]. do 2 f_equal. lia.
Qed.

(** ** [row_vis] *)

Lemma row_vis_app l1 : forall a l2,
  row_vis a (l1 ++ l2)
  = (fst (row_vis a l1) ++ fst (row_vis (snd (row_vis a l1)) l2),
     snd (row_vis (snd (row_vis a l1)) l2)).
Proof.
  induction l1 as [|x l1 IH]; intros a l2.
  - cbn [app row_vis fst snd]. destruct (row_vis a l2); reflexivity.
  - cbn [app]. destruct x; cbn [row_vis]; try apply IH.
    rewrite IH. destruct (row_vis a l1) as [v a']. cbn [fst snd].
    destruct (row_vis a' l2). reflexivity.
Qed.

Lemma row_vis_app_fst a l1 l2 :
  fst (row_vis a (l1 ++ l2)) = fst (row_vis a l1) ++ fst (row_vis (snd (row_vis a l1)) l2).
Proof. rewrite row_vis_app. reflexivity. Qed.
Lemma row_vis_app_snd a l1 l2 :
  snd (row_vis a (l1 ++ l2)) = snd (row_vis (snd (row_vis a l1)) l2).
Proof. rewrite row_vis_app. reflexivity. Qed.

Lemma row_vis_repeat_space a n :
  row_vis a (repeat (TChar GSpace) n) = (repeat (gvis GSpace a) n, a).
Proof.
  induction n as [|n IH]; [reflexivity|]. cbn [repeat row_vis]. rewrite IH. reflexivity.
Qed.

Lemma row_vis_spaces a n : row_vis a (spaces n) = (repeat (gvis GSpace a) (Z.to_nat n), a).
Proof. apply row_vis_repeat_space. Qed.

Lemma row_vis_nuls a : row_vis a [TNul; TNul] = ([], a).
Proof. reflexivity. Qed.

Lemma row_vis_strip_nul l : forall a, row_vis a (strip_nul l) = row_vis a l.
Proof.
  induction l as [|x l IH]; intros a; [reflexivity|].
  unfold strip_nul in *. cbn [filter].
  destruct x; cbn [is_nul negb row_vis]; try apply IH.
  rewrite IH. reflexivity.
Qed.

Lemma text_only_app l1 l2 : text_only (l1 ++ l2) = text_only l1 && text_only l2.
Proof. apply forallb_app. Qed.

Lemma text_only_spaces n : text_only (spaces n) = true.
Proof. unfold spaces. induction (Z.to_nat n); [reflexivity|]. cbn. assumption. Qed.

Lemma text_only_strip_nul l : text_only l = true -> text_only (strip_nul l) = true.
Proof.
  unfold text_only, strip_nul. rewrite !forallb_forall. intros H x Hx.
  apply filter_In in Hx. apply H, Hx.
Qed.

Lemma text_only_concat ls : Forall (fun l => text_only l = true) ls -> text_only (concat ls) = true.
Proof.
  induction 1 as [|l ls Hl _ IH]; [reflexivity|]. cbn [concat]. rewrite text_only_app, Hl, IH. reflexivity.
Qed.
