(** C06, old API: [BaseImage.draw] / [_display_animated] leave the picture in place and
    the cursor on the line below it — proofs over [model/Draw.v]. *)
From Coq Require Import List ZArith Bool Lia.
Import ListNotations.
From TI Require Import lib.Term lib.TermFacts lib.Rect lib.Lines lib.TermScroll
     model.Padding proofs.PadProofs model.Draw proofs.DrawLines proofs.DrawProofs.
Open Scope Z_scope.
Local Arguments Z.eqb : simpl never.
Local Arguments Z.ltb : simpl never.
Local Arguments Z.leb : simpl never.

Lemma flat_covers_need need w h ls rho c r0 c0 :
  LinesRect need w h ls -> rho <= r0 < rho + h -> c <= c0 < c + w ->
  need (r0 - rho) (c0 - c) = true -> covered (flat c rho ls) r0 c0 = true.
Proof.
  intros HLR Hr0 Hc0 Hn.
  destruct (lr_cov _ _ _ _ HLR (r0 - rho) (c0 - c)) as (k & lk & Hk & Hcv); try lia; [exact Hn|].
  eapply (flat_covered c r0 c0 ls rho k lk Hk).
  specialize (Hcv c (pos (rho + Z.of_nat k) c) (conj eq_refl eq_refl) eq_refl eq_refl).
  rewrite line_evs_exec_evs in Hcv. change (row (pos (rho + Z.of_nat k) c)) with (rho + Z.of_nat k) in Hcv.
  replace (rho + Z.of_nat k - Z.of_nat k + (r0 - rho)) with r0 in Hcv by lia.
  replace (c + (c0 - c)) with c0 in Hcv by lia. exact Hcv.
Qed.

(** hiding the cursor before a body, then [SGR0 SHOW? LF] *)
Lemma wrap_old W H lm top0 t0 tty pw ph Ref B r0 :
  0 <= lm -> lm <= W -> 0 < ph -> ph <= H -> top0 <= r0 ->
  okat t0 r0 lm ->
  (forall s0, okat s0 r0 lm -> exists EV c' a',
      exec lm s0 B = mk (r0 + ph - 1) c' a' s0 EV
      /\ srun W H lm top0 s0 B = Some (Z.max top0 (r0 + ph - H))
      /\ forallb (ev_inside r0 lm ph pw) EV = true
      /\ (forall r c, r0 <= r < r0 + ph -> lm <= c < lm + pw ->
            lastcov EV r c = lastcov (exec_evs lm t0 Ref) r c)) ->
  DrawFinal W H lm top0 t0 tty pw ph Ref (opt tty THide ++ B ++ [TSgr0] ++ opt tty TShow ++ [TLF]).
Proof.
  intros Hlm HlmW Hph HH Htop Hok HB. pose proof Hok as ([Hg Hp] & Hs & Hr & Hc).
  destruct (exec_opt_vis lm t0 tty THide false Hg (or_introl (conj eq_refl eq_refl))) as (X1 & X2 & X3).
  set (th := if tty then set_visible t0 false else t0) in *.
  assert (Hokh : okat th r0 lm) by (unfold th; destruct tty; [repeat split; assumption|exact Hok]).
  destruct (HB th Hokh) as (EV & c' & a' & E & S & Hbox & Hcont).
  assert (Hclh : clean th) by apply Hokh.
  set (s1 := mk (r0 + ph - 1) c' a' th EV) in *.
  assert (E2 : exec lm s1 [TSgr0] = mk (r0 + ph - 1) c' adefault th EV).
  { cbn [exec fold_left]. rewrite step_sgr0 by apply Hclh. unfold s1. rewrite mk_mk, app_nil_r. reflexivity. }
  set (s2 := mk (r0 + ph - 1) c' adefault th EV) in *.
  destruct (exec_opt_vis lm s2 tty TShow true (proj1 Hclh) (or_intror (conj eq_refl eq_refl))) as (Y1 & Y2 & Y3).
  set (s3 := if tty then set_visible s2 true else s2) in *.
  assert (Hcl3 : clean s3) by (unfold s3; destruct tty; exact Hclh).
  assert (Hrow3 : row s3 = r0 + ph - 1) by (unfold s3; destruct tty; reflexivity).
  assert (E4 : exec lm s3 [TLF] = mk (r0 + ph) lm adefault s3 [EMove (r0 + ph) lm]).
  { cbn [exec fold_left]. rewrite step_lf by apply Hcl3. rewrite Hrow3.
    replace (r0 + ph - 1 + 1) with (r0 + ph) by lia.
    f_equal. unfold s3; destruct tty; reflexivity. }
  assert (Eall : exec lm t0 (opt tty THide ++ B ++ [TSgr0] ++ opt tty TShow ++ [TLF]) =
                 mk (r0 + ph) lm adefault s3 [EMove (r0 + ph) lm]).
  { rewrite exec_app, X1, exec_app, E. fold s1. rewrite exec_app, E2. fold s2.
    rewrite exec_app, Y1. fold s3. exact E4. }
  assert (Eevs : exec_evs lm t0 (opt tty THide ++ B ++ [TSgr0] ++ opt tty TShow ++ [TLF]) =
                 EV ++ [EMove (r0 + ph) lm]).
  { rewrite exec_evs_app, X2, X1, exec_evs_app, (exec_mk_evs _ _ _ _ _ _ _ E), E. fold s1.
    rewrite exec_evs_app, E2. fold s2. rewrite exec_evs_app, Y2, Y1. fold s3.
    rewrite (exec_mk_evs _ _ _ _ _ _ _ E4).
    assert (E0 : exec_evs lm s1 [TSgr0] = []).
    { cbn [exec_evs]. unfold step_evs. replace (parser s1) with Ground by (symmetry; apply Hclh). reflexivity. }
    rewrite E0. reflexivity. }
  constructor.
  - rewrite Eall, Hr. reflexivity.
  - rewrite Eall. reflexivity.
  - rewrite Eall. reflexivity.
  - rewrite Eall. unfold s3, th. destruct tty; reflexivity.
  - rewrite Eall. exact Hcl3.
  - rewrite srun_app, X3, X1, srun_app, S, E. fold s1.
    assert (S0 : srun W H lm (Z.max top0 (r0 + ph - H)) s1 [TSgr0] = Some (Z.max top0 (r0 + ph - H))).
    { apply srun_noscroll. cbn [exec_evs]. unfold step_evs.
      replace (parser s1) with Ground by (symmetry; apply Hclh). reflexivity. }
    rewrite srun_app, S0, E2. fold s2. rewrite srun_app, Y3, Y1. fold s3.
    rewrite (srun_lf W H lm); [|exact Hlm|exact Hcl3|rewrite Hrow3; lia|exact HlmW].
    rewrite Hrow3, Hr. f_equal. lia.
  - rewrite Eevs, Hr, forallb_app, andb_true_iff. split; [apply box_or_below_of_inside, Hbox|].
    cbn [forallb]. unfold ev_box_or_below. rewrite !Z.eqb_refl. cbn. rewrite orb_true_r. reflexivity.
  - intros r c Hrr Hcc. rewrite Eevs. rewrite lastcov_app_none by reflexivity. apply Hcont; lia.
Qed.

Section Old.
Variables W H lm : Z.
Variable g : glyph.                     (* the old API pads with spaces *)
Variables w h pl pt pr pb : Z.
Hypothesis Hpl : 0 <= pl.
Hypothesis Hpt : 0 <= pt.
Hypothesis Hpr : 0 <= pr.
Hypothesis Hpb : 0 <= pb.
Hypothesis Hlm : 0 <= lm.
Let pw := pl + w + pr.
Let ph := pt + h + pb.
Hypothesis HW : lm + pw <= W.
Hypothesis HH : ph <= H.
Let d := (pl, pt, pr, pb).
Let fill := Some g.
Let PLof := fun ls : list (list tok) => pad_lines fill d w ls.
Let Pof := fun ls : list (list tok) => pad fill d w (joinlf ls).

(** what [_clear_frame()] may do, at the top-left of the box *)
Definition ClearBox (clr : list tok) : Prop :=
  forall s r c, okat s r c ->
    exists evs, exec lm s clr = mk r c adefault s evs
                /\ forallb (ev_inside r c ph pw) evs = true.

Lemma old_frame_exec ls s r0 :
  LinesRect all_cells w h ls -> okat s r0 lm ->
  exec lm s (old_frame ph (Pof ls)) =
    mk r0 lm adefault s (jl_evs lm r0 (PLof ls) ++ goto_evs lm (r0 + ph - 1) (ph - 1) 0)
  /\ forallb (ev_inside r0 lm ph pw) (jl_evs lm r0 (PLof ls) ++ goto_evs lm (r0 + ph - 1) (ph - 1) 0) = true
  /\ (forall r c, r0 <= r < r0 + ph -> lm <= c < lm + pw -> covered (jl_evs lm r0 (PLof ls)) r c = true).
Proof.
  intros HLR Hok. assert (Hcl : clean s) by apply Hok.
  pose proof (lr_w _ _ _ _ HLR) as Hw.
  assert (Hh : 0 < h).
  { pose proof (lr_len _ _ _ _ HLR) as Hlen. pose proof (lr_ne _ _ _ _ HLR).
    destruct ls; [congruence|cbn [length] in Hlen; lia]. }
  destruct (first_box lm fill w h pl pt pr pb Hpl Hpt Hpr Hpb ls HLR s r0 Hok) as [E1 Hin1].
  fold d pw ph in E1, Hin1. fold (Pof ls) (PLof ls) in E1, Hin1.
  split; [|split].
  - unfold old_frame. rewrite exec_app, E1.
    replace ([TCR] ++ cuu (ph - 1)) with ([TCR] ++ cuu (ph - 1) ++ cuf 0) by (cbn; rewrite app_nil_r; reflexivity).
    rewrite (exec_goto lm _ (r0 + ph - 1) (lm + pw) (ph - 1) 0); [|apply okat_mk, Hcl|unfold ph; lia|lia].
    rewrite mk_mk. f_equal; lia.
  - rewrite forallb_app, Hin1. apply goto_inside; unfold ph, pw in *; lia.
  - intros r c Hr Hc. rewrite covered_jl. unfold PLof, d.
    eapply (flat_covers_need _ pw ph); [apply (PL_lr fill w h pl pt pr pb ls HLR Hpl Hpt Hpr Hpb)|exact Hr|exact Hc|].
    unfold need', fill, all_cells. destruct (_ && _); reflexivity.
Qed.

Definition old_later (rest : list (list tok * list (list tok))) : list tok :=
  concat (map (fun cl => fst cl ++ old_frame ph (Pof (snd cl))) rest).

(** the invariant of the old animation loop: after every frame the cursor is back at the
    top-left of the box, every frame redraws the whole box, nothing outside is touched *)
Theorem old_later_inv r0 : forall rest s,
  Forall (fun cl => ClearBox (fst cl) /\ LinesRect all_cells w h (snd cl)) rest ->
  okat s r0 lm ->
  exists EV,
    exec lm s (old_later rest) = mk r0 lm adefault s EV
    /\ forallb (ev_inside r0 lm ph pw) EV = true
    /\ (forall r c acc, r0 <= r < r0 + ph -> lm <= c < lm + pw ->
          lastcov_from acc EV r c =
          match lastopt rest with
          | None => acc
          | Some cl => lastcov (jl_evs lm r0 (PLof (snd cl))) r c
          end).
Proof.
  induction rest as [|[clr ls] rest IH]; intros s HF Hok.
  - exists []. cbn. split; [destruct Hok as (_ & Hs & Hr & Hc); rewrite <- Hs, <- Hr, <- Hc; symmetry; apply mk_id|].
    split; reflexivity.
  - inversion HF as [|? ? [HC HLR] HF']; subst. cbn [fst snd] in *.
    assert (Hcl : clean s) by apply Hok.
    destruct (HC s r0 lm Hok) as (Ec & E1 & HinC).
    destruct (old_frame_exec ls _ r0 HLR (okat_mk _ _ _ Ec Hcl)) as (E2 & Hin2 & Hcov2).
    set (EF := jl_evs lm r0 (PLof ls) ++ goto_evs lm (r0 + ph - 1) (ph - 1) 0) in *.
    destruct (IH (mk r0 lm adefault s (Ec ++ EF)) HF' (okat_mk _ _ _ _ Hcl)) as (EV & E3 & Hin3 & Hlast3).
    exists ((Ec ++ EF) ++ EV). split; [|split].
    + unfold old_later in *. cbn [map concat fst snd]. rewrite <- app_assoc, exec_app, E1, exec_app, E2.
      rewrite mk_mk, E3, mk_mk. reflexivity.
    + rewrite !forallb_app, !andb_true_iff in *. repeat split; try assumption; apply Hin2.
    + intros r c acc Hr Hc. rewrite lastcov_from_app, (Hlast3 r c _ Hr Hc).
      destruct rest as [|cl2 rest'].
      2:{ change (lastopt ((clr, ls) :: cl2 :: rest')) with (lastopt (cl2 :: rest')).
          destruct (lastopt (cl2 :: rest')) eqn:El; [reflexivity|].
          apply lastopt_none in El. discriminate. }
      cbn [lastopt snd]. unfold EF. rewrite !lastcov_from_app.
      rewrite (lastcov_from_none _ (goto_evs _ _ _ _)) by apply goto_nocover.
      apply lastcov_from_cov, Hcov2; assumption.
Qed.

Variable ls0 : list (list tok).
Variable rest : list (list tok * list (list tok)).
Hypothesis HLR0 : LinesRect all_cells w h ls0.
Hypothesis HD0 : forall ln, In ln ls0 -> Downward ln.
Hypothesis HFr : Forall (fun cl => ClearBox (fst cl) /\ LinesRect all_cells w h (snd cl)) rest.

Definition old_last : list (list tok) :=
  match lastopt rest with Some cl => snd cl | None => ls0 end.

Lemma old_last_lr : LinesRect all_cells w h old_last.
Proof.
  unfold old_last. destruct (lastopt rest) eqn:E; [|exact HLR0].
  apply lastopt_in in E. exact (proj2 (proj1 (Forall_forall _ _) HFr _ E)).
Qed.

Definition old_body : list tok := old_frame ph (Pof ls0) ++ old_later rest ++ cud (ph - 1).

(** MAIN (old API, animation; generic over what is drawn first and the clearing before
    each later frame) *)
Theorem old_animate_gen t0 top0 tty :
  okat t0 (row t0) lm -> top0 <= row t0 < top0 + H ->
  DrawFinal W H lm top0 t0 tty pw ph (Pof old_last)
            (opt tty THide ++ old_body ++ [TSgr0] ++ opt tty TShow ++ [TLF]).
Proof.
  intros Hok Htop. set (r0 := row t0) in *.
  pose proof (lr_w _ _ _ _ HLR0) as Hw.
  assert (Hh : 0 < h).
  { pose proof (lr_len _ _ _ _ HLR0) as Hlen. pose proof (lr_ne _ _ _ _ HLR0).
    destruct ls0; [congruence|cbn [length] in Hlen; lia]. }
  assert (Eref : exec_evs lm t0 (Pof old_last) = jl_evs lm r0 (PLof old_last)).
  { destruct (first_box lm fill w h pl pt pr pb Hpl Hpt Hpr Hpb _ old_last_lr t0 r0 Hok) as [E _].
    exact (exec_mk_evs _ _ _ _ _ _ _ E). }
  apply wrap_old with (r0 := r0); try assumption; try (unfold ph, pw in *; lia).
  intros s0 Hok0. assert (Hcl : clean s0) by apply Hok0.
  destruct (old_frame_exec ls0 s0 r0 HLR0 Hok0) as (E1 & Hin1 & Hcov1).
  set (EF := jl_evs lm r0 (PLof ls0) ++ goto_evs lm (r0 + ph - 1) (ph - 1) 0) in *.
  set (s1 := mk r0 lm adefault s0 EF) in *.
  destruct (old_later_inv r0 rest s1 HFr (okat_mk _ _ _ _ Hcl)) as (EV & E2 & Hin2 & Hlast2).
  set (s2 := mk r0 lm adefault s1 EV) in *.
  pose proof (exec_cud lm s2 (ph - 1) (proj1 Hcl) ltac:(unfold ph; lia)) as E3.
  cbn [row col sgr mk s2] in E3.
  set (D := cud_evs r0 lm (ph - 1)) in *.
  (* scrolling: the first padded frame, then everything stays inside the box *)
  pose proof (first_box_scroll W H lm fill w h pl pt pr pb Hpl Hpt Hpr Hpb Hlm HW HH ls0 HLR0 s0 r0 top0 HD0 Hok0 Htop) as S1.
  fold d pw ph in S1. fold (Pof ls0) in S1.
  destruct (first_box lm fill w h pl pt pr pb Hpl Hpt Hpr Hpb ls0 HLR0 s0 r0 Hok0) as [E0 Hin0].
  fold d pw ph in E0, Hin0. fold (Pof ls0) (PLof ls0) in E0, Hin0.
  set (top1 := Z.max top0 (r0 + ph - H)) in *.
  set (M := ([TCR] ++ cuu (ph - 1)) ++ old_later rest ++ cud (ph - 1)).
  set (sP := mk (r0 + ph - 1) (lm + pw) adefault s0 (jl_evs lm r0 (PLof ls0))) in *.
  assert (EB : old_body = Pof ls0 ++ M).
  { unfold old_body, old_frame, M. rewrite <- !app_assoc. reflexivity. }
  assert (EM : exec lm sP M = mk (r0 + ph - 1) lm adefault sP (goto_evs lm (r0 + ph - 1) (ph - 1) 0 ++ EV ++ D)).
  { assert (X : exec lm s0 (Pof ls0 ++ M) = exec lm sP M) by (rewrite exec_app, E0; reflexivity).
    rewrite <- X, <- EB. unfold old_body. rewrite exec_app, E1. fold s1. rewrite exec_app, E2. fold s2.
    rewrite E3. unfold s2, s1, sP, EF. rewrite !mk_mk.
    replace (r0 + (ph - 1)) with (r0 + ph - 1) by lia. f_equal.
    rewrite <- !app_assoc. reflexivity. }
  assert (HinM : forallb (ev_inside r0 lm ph pw) (goto_evs lm (r0 + ph - 1) (ph - 1) 0 ++ EV ++ D) = true).
  { rewrite !forallb_app, !andb_true_iff. split; [|split].
    - apply goto_inside; unfold ph, pw in *; lia.
    - exact Hin2.
    - unfold D, cud_evs. destruct (0 <? ph - 1) eqn:E0'; [|reflexivity].
      cbn [forallb ev_inside]. rewrite !andb_true_iff, !Z.leb_le, !Z.ltb_lt.
      apply Z.ltb_lt in E0'. unfold pw in *. lia. }
  exists (jl_evs lm r0 (PLof ls0) ++ goto_evs lm (r0 + ph - 1) (ph - 1) 0 ++ EV ++ D), lm, adefault.
  split; [|split; [|split]].
  - rewrite EB, exec_app, E0. fold sP. rewrite EM. unfold sP. rewrite mk_mk. reflexivity.
  - rewrite EB, srun_app, S1, E0. fold sP.
    apply srun_noscroll. rewrite (exec_mk_evs _ _ _ _ _ _ _ EM). apply forallb_forall. intros e He.
    eapply rect_win; [exact (proj1 (forallb_forall _ _) HinM e He)|unfold top1; lia|unfold top1; lia|lia|lia].
  - rewrite forallb_app, Hin0. exact HinM.
  - intros r c Hr Hc. rewrite Eref.
    assert (Htail : covered D r c = false).
    { unfold D, cud_evs, covered. destruct (0 <? ph - 1); reflexivity. }
    unfold lastcov at 1. rewrite !lastcov_from_app.
    rewrite (lastcov_from_none _ (goto_evs _ _ _ _)) by apply goto_nocover.
    rewrite (lastcov_from_none _ D) by exact Htail.
    rewrite (Hlast2 r c _ Hr Hc). unfold old_last.
    destruct (lastopt rest); reflexivity.
Qed.
End Old.

(** MAIN (old API, still image) *)
Section OldStill.
Variables W H lm : Z.
Variable g : glyph.
Variables w h pl pt pr pb : Z.
Hypothesis Hpl : 0 <= pl.
Hypothesis Hpt : 0 <= pt.
Hypothesis Hpr : 0 <= pr.
Hypothesis Hpb : 0 <= pb.
Hypothesis Hlm : 0 <= lm.
Hypothesis HW : lm + (pl + w + pr) <= W.
Hypothesis HH : pt + h + pb <= H.
Variable ls : list (list tok).
Hypothesis HLR : LinesRect all_cells w h ls.
Hypothesis HD : forall ln, In ln ls -> Downward ln.

Theorem old_still_gen t0 top0 tty :
  okat t0 (row t0) lm -> top0 <= row t0 < top0 + H ->
  DrawFinal W H lm top0 t0 tty (pl + w + pr) (pt + h + pb)
            (pad (Some g) (pl, pt, pr, pb) w (joinlf ls))
            (old_still_stream tty (pad (Some g) (pl, pt, pr, pb) w (joinlf ls))).
Proof.
  intros Hok Htop. unfold old_still_stream. set (r0 := row t0) in *.
  pose proof (lr_w _ _ _ _ HLR) as Hw.
  assert (Hh : 0 < h).
  { pose proof (lr_len _ _ _ _ HLR) as Hlen. pose proof (lr_ne _ _ _ _ HLR).
    destruct ls; [congruence|cbn [length] in Hlen; lia]. }
  apply wrap_old with (r0 := r0); try assumption; try lia.
  intros s0 Hok0.
  destruct (first_box lm (Some g) w h pl pt pr pb Hpl Hpt Hpr Hpb ls HLR s0 r0 Hok0) as [E0 Hin0].
  destruct (first_box lm (Some g) w h pl pt pr pb Hpl Hpt Hpr Hpb ls HLR t0 r0 Hok) as [Er _].
  eexists _, _, _. split; [exact E0|]. split; [|split; [exact Hin0|]].
  - apply first_box_scroll; assumption.
  - intros r c _ _. rewrite (exec_mk_evs _ _ _ _ _ _ _ Er). reflexivity.
Qed.
End OldStill.

(** ** the old API's margins *)
Lemma old_dims_spec W' H' ha va w h :
  let '(l, t, r, b) := old_dims W' H' ha va w h in
  0 <= l /\ 0 <= t /\ 0 <= r /\ 0 <= b /\ l + w + r = Z.max W' w /\ t + h + b = Z.max H' h.
Proof.
  unfold old_dims.
  assert (A : forall M x (al : nat),
             let '(p, q) := (if x <? M then match al with
                                            | O => (0, M - x)
                                            | S (S O) => (M - x, 0)
                                            | _ => ((M - x) / 2, M - x - (M - x) / 2)
                                            end else (0, 0)) in
             0 <= p /\ 0 <= q /\ p + x + q = Z.max M x).
  { intros M x al. destruct (x <? M) eqn:E.
    - apply Z.ltb_lt in E.
      assert (0 <= (M - x) / 2 <= M - x).
      { split; [apply Z.div_pos; lia|]. apply Z.div_le_upper_bound; lia. }
      destruct al as [|[|[|al]]]; lia.
    - apply Z.ltb_ge in E. lia. }
  pose proof (A W' w ha) as A1. pose proof (A H' h va) as A2.
  destruct (if w <? W' then _ else _) as [l r].
  destruct (if h <? H' then _ else _) as [t b]. lia.
Qed.

(** the two concrete clearings *)
Lemma ClearBox_nil lm w h pl pt pr pb : ClearBox lm w h pl pt pr pb [].
Proof.
  intros s r c (Hcl & Hs & Hr & Hc). exists []. split; [|reflexivity].
  cbn. rewrite <- Hs, <- Hr, <- Hc. symmetry. apply mk_id.
Qed.

Lemma ClearBox_kitty lm w h pl pt pr pb old :
  0 < pt + h + pb -> 0 < pl + w + pr -> ClearBox lm w h pl pt pr pb (kitty_clear old).
Proof.
  intros Hph Hpw. destruct old; [|apply ClearBox_nil].
  intros s r c ([Hg Hp] & Hs & Hr & Hc). eexists. split.
  - cbn [kitty_clear exec fold_left]. unfold step. rewrite Hg. cbn [step_ground].
    unfold emit, mk. cbn. rewrite Hs, Hr, Hc. reflexivity.
  - cbn [forallb ev_inside]. rewrite !andb_true_iff, !Z.leb_le, !Z.ltb_lt. lia.
Qed.
