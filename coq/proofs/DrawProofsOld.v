(** C06, old API: [BaseImage.draw] / [_display_animated] leave the picture in place and
    the cursor on the line below it — proofs over [model/Draw.v]. *)
From Coq Require Import List ZArith Bool Lia.
Import ListNotations.
From TI Require Import lib.Term lib.TermFacts lib.Rect lib.Lines lib.TermScroll
     model.Padding proofs.PadProofs model.Draw proofs.DrawLines proofs.DrawProofs.
Open Scope Z_scope.
Local Arguments Z.eqb : simpl never.
Local Arguments Z.ltb : simpl never.
Local Arguments Z.leb : simpl never.

Lemma flat_covers_need need w h ls rho c r0 c0 :
  LinesRect need w h ls -> rho <= r0 < rho + h -> c <= c0 < c + w ->
  need (r0 - rho) (c0 - c) = true -> covered (flat c rho ls) r0 c0 = true.
Proof.
  intros HLR Hr0 Hc0 Hn.
  destruct (lr_cov _ _ _ _ HLR (r0 - rho) (c0 - c)) as (k & lk & Hk & Hcv); try lia; [exact Hn|].
  eapply (flat_covered c r0 c0 ls rho k lk Hk).
  specialize (Hcv c (pos (rho + Z.of_nat k) c) (conj eq_refl eq_refl) eq_refl eq_refl).
  rewrite line_evs_exec_evs in Hcv. change (row (pos (rho + Z.of_nat k) c)) with (rho + Z.of_nat k) in Hcv.
  replace (rho + Z.of_nat k - Z.of_nat k + (r0 - rho)) with r0 in Hcv by lia.
  replace (c + (c0 - c)) with c0 in Hcv by lia. exact Hcv.
Qed.

(** hiding the cursor before a body, then [SGR0 SHOW? LF] *)
Lemma wrap_old W H lm top0 t0 tty pw ph Ref B r0 :
  0 <= lm -> lm <= W -> 0 < ph -> ph <= H -> top0 <= r0 ->
  okat t0 r0 lm ->
  (forall s0, okat s0 r0 lm -> exists EV c' a',
      exec lm s0 B = mk (r0 + ph - 1) c' a' s0 EV
      /\ srun W H lm top0 s0 B = Some (Z.max top0 (r0 + ph - H))
      /\ forallb (ev_inside r0 lm ph pw) EV = true
      /\ (forall r c, r0 <= r < r0 + ph -> lm <= c < lm + pw ->
            lastcov EV r c = lastcov (exec_evs lm t0 Ref) r c)) ->
  DrawFinal W H lm top0 t0 tty pw ph Ref (opt tty THide ++ B ++ [TSgr0] ++ opt tty TShow ++ [TLF]).
Proof.
  intros Hlm HlmW Hph HH Htop Hok HB. pose proof Hok as ([Hg Hp] & Hs & Hr & Hc).
  destruct (exec_opt_vis lm t0 tty THide false Hg (or_introl (conj eq_refl eq_refl))) as (X1 & X2 & X3).
  set (th := if tty then set_visible t0 false else t0) in *.
  assert (Hokh : okat th r0 lm) by (unfold th; destruct tty; [repeat split; assumption|exact Hok]).
  destruct (HB th Hokh) as (EV & c' & a' & E & S & Hbox & Hcont).
  assert (Hclh : clean th) by apply Hokh.
  set (s1 := mk (r0 + ph - 1) c' a' th EV) in *.
  assert (E2 : exec lm s1 [TSgr0] = mk (r0 + ph - 1) c' adefault th EV).
  { cbn [exec fold_left]. rewrite step_sgr0 by apply Hclh. unfold s1. rewrite mk_mk, app_nil_r. reflexivity. }
  set (s2 := mk (r0 + ph - 1) c' adefault th EV) in *.
  destruct (exec_opt_vis lm s2 tty TShow true (proj1 Hclh) (or_intror (conj eq_refl eq_refl))) as (Y1 & Y2 & Y3).
  set (s3 := if tty then set_visible s2 true else s2) in *.
  assert (Hcl3 : clean s3) by (unfold s3; destruct tty; exact Hclh).
  assert (Hrow3 : row s3 = r0 + ph - 1) by (unfold s3; destruct tty; reflexivity).
  assert (E4 : exec lm s3 [TLF] = mk (r0 + ph) lm adefault s3 [EMove (r0 + ph) lm]).
  { cbn [exec fold_left]. rewrite step_lf by apply Hcl3. rewrite Hrow3.
    replace (r0 + ph - 1 + 1) with (r0 + ph) by lia.
    f_equal. unfold s3; destruct tty; reflexivity. }
  assert (Eall : exec lm t0 (opt tty THide ++ B ++ [TSgr0] ++ opt tty TShow ++ [TLF]) =
                 mk (r0 + ph) lm adefault s3 [EMove (r0 + ph) lm]).
  { rewrite exec_app, X1, exec_app, E. fold s1. rewrite exec_app, E2. fold s2.
    rewrite exec_app, Y1. fold s3. exact E4. }
  assert (Eevs : exec_evs lm t0 (opt tty THide ++ B ++ [TSgr0] ++ opt tty TShow ++ [TLF]) =
                 EV ++ [EMove (r0 + ph) lm]).
  { rewrite exec_evs_app, X2, X1, exec_evs_app, (exec_mk_evs _ _ _ _ _ _ _ E), E. fold s1.
    rewrite exec_evs_app, E2. fold s2. rewrite exec_evs_app, Y2, Y1. fold s3.
    rewrite (exec_mk_evs _ _ _ _ _ _ _ E4).
    assert (E0 : exec_evs lm s1 [TSgr0] = []).
    { cbn [exec_evs]. unfold step_evs. replace (parser s1) with Ground by (symmetry; apply Hclh). reflexivity. }
    rewrite E0. reflexivity. }
  constructor.
  - rewrite Eall, Hr. reflexivity.
  - rewrite Eall. reflexivity.
  - rewrite Eall. reflexivity.
  - rewrite Eall. unfold s3, th. destruct tty; reflexivity.
  - rewrite Eall. exact Hcl3.
  - rewrite srun_app, X3, X1, srun_app, S, E. fold s1.
    assert (S0 : srun W H lm (Z.max top0 (r0 + ph - H)) s1 [TSgr0] = Some (Z.max top0 (r0 + ph - H))).
    { apply srun_noscroll. cbn [exec_evs]. unfold step_evs.
      replace (parser s1) with Ground by (symmetry; apply Hclh). reflexivity. }
    rewrite srun_app, S0, E2. fold s2. rewrite srun_app, Y3, Y1. fold s3.
    rewrite (srun_lf W H lm); [|exact Hlm|exact Hcl3|rewrite Hrow3; lia|exact HlmW].
    rewrite Hrow3, Hr. f_equal. lia.
  - rewrite Eevs, Hr, forallb_app, andb_true_iff. split; [apply box_or_below_of_inside, Hbox|].
    cbn [forallb]. unfold ev_box_or_below. rewrite !Z.eqb_refl. cbn. rewrite orb_true_r. reflexivity.
  - intros r c Hrr Hcc. rewrite Eevs. rewrite lastcov_app_none by reflexivity. apply Hcont; lia.
Qed.
