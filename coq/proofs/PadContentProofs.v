(** Proofs about [model/PadContent.v] (C05): [pad] is defined on the lines obtained by
    splitting at [TLF] ONLY, whatever else the lines contain.

    [pad_lines_any]: for EVERY token list [R] (no hypothesis on the content), the lines of
    [pad_gen fill d w R] are: [t] lines of fill, every line of [R] between its left and
    right margins — unchanged —, [b] lines of fill.
    [pad_content_parametric] / [pad_token_subst]: padding commutes with any content of the
    lines that introduces no line feed.
    [splitlines_*]: building the output from a split that also breaks at a further
    separator token is the same function on renders without that token, and refuted on a
    render that contains one. *)
From Coq Require Import List ZArith Bool Lia.
Import ListNotations.
From TI Require Import lib.Term lib.TermFacts lib.Lines model.Padding model.PadGen model.PadContent
     proofs.PadProofs proofs.PadGenProofs.
Open Scope Z_scope.
Local Arguments Z.eqb : simpl never.
Local Arguments Z.ltb : simpl never.
Local Arguments Z.leb : simpl never.

(** ** [split_on] / [split_lf] *)

Lemma split_on_ne sep R : split_on sep R <> [].
Proof.
  destruct R as [|x rest]; cbn [split_on]; [discriminate|].
  destruct (sep x); [discriminate|]. destruct (split_on sep rest); discriminate.
Qed.

Lemma joinlf_cons_ne l rest : rest <> [] -> joinlf (l :: rest) = l ++ TLF :: joinlf rest.
Proof. destruct rest; [congruence|reflexivity]. Qed.

(** [split_lf] is a right inverse of [joinlf] on every token list *)
Theorem joinlf_split_lf R : joinlf (split_lf R) = R.
Proof.
  unfold split_lf. induction R as [|x rest IH]; [reflexivity|]. cbn [split_on].
  destruct (is_lf x) eqn:Ex.
  - destruct x; try discriminate. rewrite joinlf_cons_ne by apply split_on_ne.
    rewrite IH. reflexivity.
  - pose proof (split_on_ne is_lf rest) as Hne.
    destruct (split_on is_lf rest) as [|ln more]; [congruence|].
    destruct more as [|l2 more'].
    + cbn [joinlf] in *. congruence.
    + rewrite joinlf_cons2 in *. cbn [app]. congruence.
Qed.

Lemma split_lf_nolf R : forall ln, In ln (split_lf R) -> nolf ln.
Proof.
  unfold split_lf. induction R as [|x rest IH]; intros ln Hin.
  - destruct Hin as [<-|[]]. constructor.
  - cbn [split_on] in Hin. destruct (is_lf x) eqn:Ex.
    + destruct Hin as [<-|Hin]; [constructor|apply IH, Hin].
    + destruct (split_on is_lf rest) as [|l1 more].
      * destruct Hin as [<-|[]]. repeat constructor. exact Ex.
      * destruct Hin as [<-|Hin].
        -- constructor; [exact Ex|]. apply IH. left. reflexivity.
        -- apply IH. right. exact Hin.
Qed.

Lemma split_lf_of_nolf l : nolf l -> split_lf l = [l].
Proof.
  unfold split_lf. induction 1 as [|x l Hx _ IH]; [reflexivity|].
  cbn [split_on]. rewrite Hx, IH. reflexivity.
Qed.

Lemma split_lf_app_lf l rest : nolf l -> split_lf (l ++ TLF :: rest) = l :: split_lf rest.
Proof.
  unfold split_lf. induction 1 as [|x l Hx _ IH]; [reflexivity|].
  cbn [app split_on]. rewrite Hx, IH. reflexivity.
Qed.

(** ... and a left inverse on lists of lines *)
Theorem split_lf_joinlf : forall ls, ls <> [] -> (forall ln, In ln ls -> nolf ln) ->
  split_lf (joinlf ls) = ls.
Proof.
  induction ls as [|l rest IH]; intros Hne Hn; [congruence|].
  destruct rest as [|l2 rest'].
  - cbn [joinlf]. apply split_lf_of_nolf, Hn. left. reflexivity.
  - rewrite joinlf_cons2, split_lf_app_lf by (apply Hn; left; reflexivity).
    rewrite IH; [reflexivity|congruence|]. intros ln Hin. apply Hn. right. exact Hin.
Qed.

Lemma split_lf_length_count R : length (split_lf R) = S (count_lf R).
Proof.
  unfold split_lf, count_lf. induction R as [|x rest IH]; [reflexivity|].
  cbn [split_on filter]. destruct (is_lf x).
  - cbn [length]. rewrite IH. reflexivity.
  - pose proof (split_on_ne is_lf rest). destruct (split_on is_lf rest); [congruence|].
    cbn [length] in *. exact IH.
Qed.

(** ** the fill *)

Lemma gfillseg_zero' fill : gfillseg fill 0 = [].
Proof. destruct fill; reflexivity. Qed.

Lemma nolf_gfillseg' fill n : fill_nolf fill -> nolf (gfillseg fill n).
Proof.
  intros Hf. destruct fill as [f|]; cbn [gfillseg].
  - apply nolf_rep. apply Hf. reflexivity.
  - destruct (0 <? n); repeat constructor.
Qed.

Lemma one_cell_fill_nolf fill : (forall f, fill = Some f -> OneCell f) -> fill_nolf fill.
Proof. intros H f Ef. destruct (H f Ef) as (E & HE). apply HE. Qed.

(** ** structure: [pad_gen] on lines, under the sole hypothesis that the fill has no LF *)
Theorem pad_gen_joinlf' fill l t r b w ls :
  ls <> [] -> (forall ln, In ln ls -> nolf ln) ->
  pad_gen fill (l, t, r, b) w (joinlf ls) = joinlf (pad_lines_gen fill (l, t, r, b) w ls).
Proof.
  intros Hne Hn. unfold pad_gen, pad_lines_gen.
  set (seg := gfillseg fill (l + w + r)).
  set (wrap := fun ln => gfillseg fill l ++ ln ++ gfillseg fill r).
  assert (Hm : map wrap ls <> []) by (destruct ls; [congruence|discriminate]).
  assert (Hmid : gfillseg fill l ++ (if negb (l =? 0) || negb (r =? 0)
                                     then subst_lf (gfillseg fill r) (gfillseg fill l) (joinlf ls)
                                     else joinlf ls) ++ gfillseg fill r
                 = joinlf (map wrap ls)).
  { destruct (negb (l =? 0) || negb (r =? 0)) eqn:Eh.
    - apply subst_joinlf; assumption.
    - apply orb_false_iff in Eh. destruct Eh as [E1 E2].
      apply negb_false_iff, Z.eqb_eq in E1, E2. subst l r. subst wrap.
      rewrite gfillseg_zero', app_nil_r. cbn [app].
      rewrite map_id'; [reflexivity|]. intros x. rewrite app_nil_r. reflexivity. }
  destruct (negb (l =? 0) || negb (r =? 0) || (negb (t =? 0) || negb (b =? 0))) eqn:Eany.
  - rewrite joinlf_repeat_front by (destruct (map wrap ls); [congruence|discriminate]).
    rewrite joinlf_repeat_back by exact Hm. rewrite <- Hmid.
    rewrite <- !app_assoc. reflexivity.
  - rewrite !orb_false_iff, !negb_false_iff, !Z.eqb_eq in Eany.
    destruct Eany as [[-> ->] [-> ->]]. cbn [Z.to_nat repeat app]. rewrite app_nil_r.
    subst wrap. rewrite gfillseg_zero'. rewrite map_id'; [reflexivity|].
    intros x. rewrite app_nil_r. reflexivity.
Qed.

Lemma pad_lines_map_id fill d w ls : pad_lines_map (fun ln => ln) fill d w ls = pad_lines_gen fill d w ls.
Proof. destruct d as [[[l t] r] b]. reflexivity. Qed.

Lemma pad_lines_map_map f fill d w ls :
  pad_lines_map f fill d w ls = pad_lines_gen fill d w (map f ls).
Proof. destruct d as [[[l t] r] b]. unfold pad_lines_map, pad_lines_gen. rewrite map_map. reflexivity. Qed.

Lemma pad_lines_map_nolf f fill l t r b w ls :
  fill_nolf fill -> (forall ln, In ln ls -> nolf (f ln)) ->
  forall x, In x (pad_lines_map f fill (l, t, r, b) w ls) -> nolf x.
Proof.
  intros Hf Hn x Hin. unfold pad_lines_map in Hin.
  apply in_app_or in Hin. destruct Hin as [Hin|Hin].
  - apply repeat_spec in Hin. subst x. apply nolf_gfillseg', Hf.
  - apply in_app_or in Hin. destruct Hin as [Hin|Hin].
    + apply in_map_iff in Hin. destruct Hin as (ln & <- & Hln).
      apply nolf_app; [apply nolf_gfillseg', Hf|]. apply nolf_app; [apply Hn, Hln|apply nolf_gfillseg', Hf].
    + apply repeat_spec in Hin. subst x. apply nolf_gfillseg', Hf.
Qed.

Lemma pad_lines_map_ne f fill l t r b w ls : ls <> [] -> pad_lines_map f fill (l, t, r, b) w ls <> [].
Proof.
  intros Hne. unfold pad_lines_map. destruct ls as [|x rest]; [congruence|].
  intros E. apply app_eq_nil in E. destruct E as [_ E]. cbn [map app] in E. discriminate.
Qed.

(** ** MAIN (content): the lines of the padded output, for EVERY token list [R] *)
Theorem pad_lines_any fill l t r b w R :
  fill_nolf fill ->
  split_lf (pad_gen fill (l, t, r, b) w R) = pad_lines_gen fill (l, t, r, b) w (split_lf R).
Proof.
  intros Hf. rewrite <- (joinlf_split_lf R) at 1.
  rewrite pad_gen_joinlf' by (apply split_on_ne || apply split_lf_nolf).
  rewrite <- pad_lines_map_id. apply split_lf_joinlf.
  - apply pad_lines_map_ne, split_on_ne.
  - apply pad_lines_map_nolf; [exact Hf|]. intros ln Hin. exact (split_lf_nolf R ln Hin).
Qed.

(** the number of lines of the padded output: top margin + lines of the render + bottom margin *)
Corollary pad_line_count fill l t r b w R :
  fill_nolf fill ->
  length (split_lf (pad_gen fill (l, t, r, b) w R))
  = (Z.to_nat t + length (split_lf R) + Z.to_nat b)%nat.
Proof.
  intros Hf. rewrite pad_lines_any by exact Hf. unfold pad_lines_gen.
  rewrite !app_length, map_length, !repeat_length. lia.
Qed.

(** every line of the render occurs unchanged between its margins, on its own line *)
Corollary pad_line_unchanged fill l t r b w R i ln :
  fill_nolf fill -> nth_error (split_lf R) i = Some ln ->
  nth_error (split_lf (pad_gen fill (l, t, r, b) w R)) (Z.to_nat t + i)
  = Some (gfillseg fill l ++ ln ++ gfillseg fill r).
Proof.
  intros Hf Hi. rewrite pad_lines_any by exact Hf. unfold pad_lines_gen.
  rewrite nth_error_app2 by (rewrite repeat_length; lia).
  rewrite repeat_length. replace (Z.to_nat t + i - Z.to_nat t)%nat with i by lia.
  rewrite nth_error_app1 by (rewrite map_length; apply nth_error_Some; congruence).
  rewrite nth_error_map, Hi. reflexivity.
Qed.

(** ** parametricity: padding commutes with ANY content of the lines that has no LF *)
Theorem pad_content_parametric (f : list tok -> list tok) fill l t r b w ls :
  fill_nolf fill -> ls <> [] -> (forall ln, In ln ls -> nolf (f ln)) ->
  pad_gen fill (l, t, r, b) w (joinlf (map f ls)) = joinlf (pad_lines_map f fill (l, t, r, b) w ls)
  /\ split_lf (pad_gen fill (l, t, r, b) w (joinlf (map f ls))) = pad_lines_map f fill (l, t, r, b) w ls.
Proof.
  intros Hf Hne Hn.
  assert (Hm : map f ls <> []) by (destruct ls; [congruence|discriminate]).
  assert (Hmn : forall ln, In ln (map f ls) -> nolf ln).
  { intros ln Hin. apply in_map_iff in Hin. destruct Hin as (x & <- & Hx). apply Hn, Hx. }
  assert (E : pad_gen fill (l, t, r, b) w (joinlf (map f ls))
              = joinlf (pad_lines_map f fill (l, t, r, b) w ls)).
  { rewrite pad_gen_joinlf' by assumption. rewrite pad_lines_map_map. reflexivity. }
  split; [exact E|]. rewrite E. apply split_lf_joinlf.
  - apply pad_lines_map_ne, Hne.
  - apply pad_lines_map_nolf; assumption.
Qed.

(** token by token: [s] replaces every content token, line feeds stay *)
Lemma nolf_flat_map s ln :
  (forall x, is_lf x = false -> nolf (s x)) -> nolf ln -> nolf (flat_map s ln).
Proof.
  intros Hs. induction 1 as [|x l Hx _ IH]; [constructor|].
  cbn [flat_map]. apply nolf_app; [apply Hs, Hx|exact IH].
Qed.

Lemma subst_content_nolf s ln : nolf ln -> subst_content s ln = flat_map s ln.
Proof.
  unfold subst_content. induction 1 as [|x l Hx _ IH]; [reflexivity|].
  cbn [flat_map]. rewrite Hx, IH. reflexivity.
Qed.

Lemma subst_content_app s a b : subst_content s (a ++ b) = subst_content s a ++ subst_content s b.
Proof. unfold subst_content. apply flat_map_app. Qed.

Lemma subst_content_joinlf s : forall ls, ls <> [] -> (forall ln, In ln ls -> nolf ln) ->
  subst_content s (joinlf ls) = joinlf (map (flat_map s) ls).
Proof.
  induction ls as [|l rest IH]; intros Hne Hn; [congruence|].
  destruct rest as [|l2 rest'].
  - cbn [joinlf map]. apply subst_content_nolf, Hn. left. reflexivity.
  - rewrite joinlf_cons2. cbn [map]. rewrite joinlf_cons2, subst_content_app.
    rewrite subst_content_nolf by (apply Hn; left; reflexivity).
    change (subst_content s (TLF :: joinlf (l2 :: rest')))
      with (TLF :: subst_content s (joinlf (l2 :: rest'))).
    rewrite IH; [reflexivity|congruence|]. intros ln Hin. apply Hn. right. exact Hin.
Qed.

Theorem pad_token_subst (s : tok -> list tok) fill l t r b w R :
  fill_nolf fill -> (forall x, is_lf x = false -> nolf (s x)) ->
  split_lf (pad_gen fill (l, t, r, b) w (subst_content s R))
  = pad_lines_map (flat_map s) fill (l, t, r, b) w (split_lf R).
Proof.
  intros Hf Hs. rewrite <- (joinlf_split_lf R) at 1.
  rewrite subst_content_joinlf by (apply split_on_ne || apply split_lf_nolf).
  apply pad_content_parametric; [exact Hf|apply split_on_ne|].
  intros ln Hin. apply nolf_flat_map; [exact Hs|exact (split_lf_nolf R ln Hin)].
Qed.

(** non-vacuity: a two-line render whose first line holds a glyph, a zero-width character,
    a colour change in the middle and its reset; margins on every side; the content replaced
    token by token (the zero-width character by two of them, the glyphs by another glyph) *)
Example pad_token_subst_nonvacuous :
  let s := fun x => match x with TNul => [TNul; TNul] | TChar _ => [TChar (GOther 66)] | y => [y] end in
  let R := [TChar (GOther 97); TNul; TFg (1, 2, 3); TChar (GOther 98); TSgr0; TLF; TChar GSpace; TChar GSpace] in
  split_lf (pad_gen (Some [TChar (GOther 42)]) (2, 1, 1, 0) 2 (subst_content s R))
  = [ [TChar (GOther 42); TChar (GOther 42); TChar (GOther 42); TChar (GOther 42); TChar (GOther 42)];
      [TChar (GOther 42); TChar (GOther 42); TChar (GOther 66); TNul; TNul; TFg (1, 2, 3); TChar (GOther 66); TSgr0;
       TChar (GOther 42)];
      [TChar (GOther 42); TChar (GOther 42); TChar (GOther 66); TChar (GOther 66); TChar (GOther 42)] ].
Proof. vm_compute. reflexivity. Qed.

(** ** the excluded design: a split that also breaks at a further separator token *)

Lemma split_on_no_sep issep R :
  forallb (fun x => negb (issep x)) R = true ->
  split_on (fun x => is_lf x || issep x) R = split_lf R.
Proof.
  unfold split_lf. induction R as [|x rest IH]; intros H; [reflexivity|].
  cbn [forallb] in H. apply andb_true_iff in H. destruct H as [Hx Hr].
  cbn [split_on]. apply negb_true_iff in Hx. rewrite Hx, orb_false_r, (IH Hr). reflexivity.
Qed.

(** on a render that holds none of the further separators it is [pad_gen]: no render of the
    library, no render made of ordinary glyphs and escape sequences can tell the two apart *)
Theorem splitlines_agrees_without_separator issep fill l t r b w R :
  forallb (fun x => negb (issep x)) R = true ->
  pad_splitlines issep fill (l, t, r, b) w R = pad_gen fill (l, t, r, b) w R.
Proof.
  intros Hno. unfold pad_splitlines.
  destruct ((l =? 0) && (t =? 0) && (r =? 0) && (b =? 0)) eqn:Ez.
  - rewrite !andb_true_iff, !Z.eqb_eq in Ez. destruct Ez as [[[-> ->] ->] ->]. reflexivity.
  - destruct (negb (l =? 0) || negb (r =? 0)) eqn:Eh.
    + rewrite split_on_no_sep by exact Hno.
      change (joinlf (pad_lines_gen fill (l, t, r, b) w (split_lf R)) = pad_gen fill (l, t, r, b) w R).
      rewrite <- pad_gen_joinlf' by (apply split_on_ne || apply split_lf_nolf).
      rewrite joinlf_split_lf. reflexivity.
    + apply orb_false_iff in Eh. destruct Eh as [E1 E2].
      apply negb_false_iff, Z.eqb_eq in E1, E2. subst l r.
      unfold pad_gen. rewrite Z.eqb_refl. cbn [negb orb andb] in *.
      destruct (negb (t =? 0) || negb (b =? 0)) eqn:Ev.
      * rewrite joinlf_repeat_front by discriminate.
        rewrite joinlf_repeat_back by discriminate. cbn [joinlf].
        rewrite gfillseg_zero'. cbn [app]. reflexivity.
      * apply orb_false_iff in Ev. destruct Ev as [E1 E2].
        apply negb_false_iff in E1, E2. rewrite E1, E2 in Ez. discriminate.
Qed.

(** ... and refuted on a one-line render holding one: [a <zero-width> b], one column of
    left margin — the output has two lines where the padded height is one, the character is
    gone, and the line-structure equation of [pad_lines_any] fails *)
Theorem splitlines_refuted :
  exists fill d w R,
    fill_nolf fill /\ nolf R /\ d = (1, 0, 0, 0)
    /\ pad_splitlines is_nul fill d w R <> pad_gen fill d w R
    /\ length (split_lf (pad_splitlines is_nul fill d w R)) <> length (split_lf (pad_gen fill d w R))
    /\ split_lf (pad_splitlines is_nul fill d w R) <> pad_lines_gen fill d w (split_lf R)
    /\ ~ In TNul (pad_splitlines is_nul fill d w R).
Proof.
  exists (Some [TChar (GOther 42)]), (1, 0, 0, 0), 2, [TChar (GOther 97); TNul; TChar (GOther 98)].
  split; [intros f Ef; inversion Ef; repeat constructor|].
  split; [repeat constructor|]. split; [reflexivity|].
  split; [vm_compute; discriminate|]. split; [vm_compute; discriminate|].
  split; [vm_compute; discriminate|].
  vm_compute. intros [H|[H|[H|[H|[H|[]]]]]]; discriminate.
Qed.
