(** Proofs about [model/RArgsRel.v]: equality and hash of namespace instances and of sets read
    the fields only (never an overridable export); compatibility reads the inheritance
    relation only (never a registration). *)
From Coq Require Import List ZArith Bool Arith.
Import ListNotations.
From TI Require Import model.RArgs model.RArgsVal model.RArgsRel model.RArgsRelTie.
From TI Require Import proofs.RArgsValProofs.

Local Arguments Nat.eqb : simpl never.

(** ** 1. Exports *)

Lemma x_eq_hash : forall a b, x_eq a b = true -> x_hash HashFields a = x_hash HashFields b.
Proof.
  intros a b H. unfold x_eq in H. apply andb_prop in H. destruct H as [Hc Hf].
  apply Nat.eqb_eq in Hc. unfold x_hash. rewrite Hc. rewrite (vl_pyeq_hkey _ _ Hf). reflexivity.
Qed.

Lemma xall2_eq_hash : forall l m,
    xall2 x_eq l m = true -> map (x_hash HashFields) l = map (x_hash HashFields) m.
Proof.
  induction l as [|a l IH]; intros [|b m] H; simpl in *; try discriminate; try reflexivity.
  apply andb_prop in H. destruct H as [H1 H2].
  rewrite (x_eq_hash _ _ H1). rewrite (IH _ H2). reflexivity.
Qed.

Lemma xset_eq_hash : forall s t,
    xset_eq s t = true -> xset_hash HashFields s = xset_hash HashFields t.
Proof.
  intros [c l] [c' m] H. unfold xset_eq in H. simpl in H. apply andb_prop in H. destruct H as [Hc Hl].
  apply Nat.eqb_eq in Hc. unfold xset_hash. simpl. rewrite Hc. rewrite (xall2_eq_hash _ _ Hl).
  reflexivity.
Qed.

(** the full statement: for instances of ANY classes of exports, equal namespaces hash equal,
    equal sets hash equal, and [==] / [hash] of an instance do not depend on the export of
    its class (so a base-class instance and a subclass instance with equal fields are
    interchangeable as keys) *)
Lemma subclass_hash_ignores_exports :
  (forall a b, x_eq a b = true -> x_hash HashFields a = x_hash HashFields b) /\
  (forall s t, xset_eq s t = true -> xset_hash HashFields s = xset_hash HashFields t) /\
  (forall e a b, x_eq (with_export e a) b = x_eq a b /\ x_eq a (with_export e b) = x_eq a b) /\
  (forall e a, x_hash HashFields (with_export e a) = x_hash HashFields a) /\
  (forall e c l, xset_hash HashFields (c, map (with_export e) l) = xset_hash HashFields (c, l)).
Proof.
  split; [exact x_eq_hash|]. split; [exact xset_eq_hash|].
  split; [intros; split; reflexivity|]. split; [reflexivity|].
  intros e c l. unfold xset_hash. simpl. rewrite map_map. reflexivity.
Qed.

Definition plain1 : xns := {| x_cls := 1; x_exp := EPlain; x_f := [VStr 1; VBool true] |}.
Definition rich1 : xns := {| x_cls := 1; x_exp := EAddFirst (VStr 2); x_f := [VStr 1; VInt 1] |}.

(** non-vacuity: equal instances of different classes with fields of different types *)
Example plain_rich_equal :
  x_eq plain1 rich1 = true /\ x_eq rich1 plain1 = true /\
  x_hash HashFields plain1 = x_hash HashFields rich1 /\
  xset_eq (1, [plain1]) (1, [rich1]) = true.
Proof. vm_compute. repeat split. Qed.

Lemma hash_through_export_refuted :
  exists a b, x_eq a b = true /\ x_eq b a = true /\
              x_hash HashExport a <> x_hash HashExport b /\
              xset_eq (x_cls a, [a]) (x_cls b, [b]) = true /\
              xset_hash HashExport (x_cls a, [a]) <> xset_hash HashExport (x_cls b, [b]).
Proof.
  exists plain1, rich1. vm_compute. repeat split; discriminate.
Qed.

(** ** 2. Inheritance and registration *)

Lemma existsb_filter_eqb : forall (h : nat -> bool) c l,
    existsb (Nat.eqb c) (filter h l) = existsb (Nat.eqb c) l && h c.
Proof.
  intros h c. induction l as [|a l IH]; simpl; [reflexivity|].
  destruct (h a) eqn:Ha; simpl; rewrite IH.
  - destruct (Nat.eqb c a) eqn:E; simpl; [|reflexivity].
    apply Nat.eqb_eq in E. subst a. rewrite Ha. reflexivity.
  - destruct (Nat.eqb c a) eqn:E; simpl; [|reflexivity].
    apply Nat.eqb_eq in E. subst a. rewrite Ha. rewrite andb_false_r. reflexivity.
Qed.

Lemma accept_is_rule : forall U t c, u_accept ByHierarchy U t c = u_rule U t c.
Proof.
  intros U t c. unfold u_accept, u_rule, ns_compatible, keys, anc. simpl.
  apply existsb_filter_eqb.
Qed.

Lemma anc_issubclass : forall U t c, anc (u_F U) c t = true -> issubclass U t c = true.
Proof.
  intros U t c H. unfold issubclass. simpl. rewrite H. reflexivity.
Qed.

(** the universe of the seeded demo: 1 = Scalable(Args), 2 = Text(Args), Scalable.register(Text) *)
Definition U_reg : universe :=
  {| u_n := 3; u_F := mkF [0; 0; 0] [None; Some [1%Z]; Some [0%Z]]; u_reg := [(1, 2)] |}.

Lemma virtual_subclass_is_not_an_ancestor :
  (* acceptance is the rule on ancestors by inheritance, whatever is registered *)
  (forall U t c, u_accept ByHierarchy U t c = u_rule U t c) /\
  (forall U reg t c, u_accept ByHierarchy (with_reg U reg) t c = u_accept ByHierarchy U t c /\
                     u_rule (with_reg U reg) t c = u_rule U t c) /\
  (* issubclass extends the ancestor relation ... *)
  (forall U t c, anc (u_F U) c t = true -> issubclass U t c = true) /\
  (* ... strictly: a registered base is not an ancestor and its namespaces are rejected *)
  (exists U t c, issubclass U t c = true /\ anc (u_F U) c t = false /\
                 u_accept ByHierarchy U t c = false /\
                 u_accept ByHierarchy U c c = true /\ u_accept ByHierarchy U t t = true).
Proof.
  split; [exact accept_is_rule|]. split; [intros; split; reflexivity|].
  split; [exact anc_issubclass|].
  exists U_reg, 2, 1. vm_compute. repeat split.
Qed.

Lemma compatibility_by_issubclass_refuted :
  exists U t c, u_accept ByIssubclass U t c = true /\ u_rule U t c = false /\
                existsb (Nat.eqb c) (keys (u_F U) t) = false.
Proof.
  exists U_reg, 2, 1. vm_compute. repeat split.
Qed.

(** the comparisons of the correspondence accept what the model says, on a concrete case *)
Example echeck_example :
  echeck {| ec_inst := [plain1; rich1];
            ec_exports := [[VStr 1; VBool true]; [VStr 2; VStr 1; VInt 1]];
            ec_ns := {| et_eq := [[true; true]; [true; true]]; et_hash := [0; 0];
                        et_find := [[true; true]; [true; true]] |};
            ec_sets := [] |} = 0 /\
  echeck {| ec_inst := [plain1; rich1];
            ec_exports := [[VStr 1; VBool true]; [VStr 2; VStr 1; VInt 1]];
            ec_ns := {| et_eq := [[true; true]; [true; true]]; et_hash := [0; 1];
                        et_find := [[true; false]; [false; true]] |};
            ec_sets := [] |} = 2.
Proof. vm_compute. split; reflexivity. Qed.

Example vcheck_example :
  let p res keys val :=
      {| vp_route := 0; vp_t := 2; vp_c := 1; vp_res := res; vp_keys := keys; vp_val := val;
         vp_issub := true |} in
  let c pr := {| vc_init := false; vc_par := [0; 0; 0]; vc_own := [false; true; true]; vc_reg := [(1, 2)];
                 vc_probes := [pr]; vc_keys0 := [[]; [1]; [2]]; vc_unchanged := true |} in
  let ci pr := {| vc_init := true; vc_par := [0; 0; 0]; vc_own := [false; true; true]; vc_reg := [(1, 2)];
                  vc_probes := [pr]; vc_keys0 := [[]; [1]; [2]]; vc_unchanged := true |} in
  vcheck (c (p 2 [] false)) = 0 /\ vcheck (c (p 0 [2; 1] true)) = 3 /\
  (* the initial set of a registered base: what the code does (accepts) contradicts the rule *)
  vcheck (ci (p 0 [2; 1] true)) = 2 /\ vcheck (ci (p 1 [] false)) = 1.
Proof. vm_compute. repeat split; reflexivity. Qed.
