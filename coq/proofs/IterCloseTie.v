(** * IterCloseTie — the translated body of [RenderIterator.close()] ([gen/CloseSrc.v],
    regenerated from render/_iterator.py by [harness/tx/tx_close.py] on every run) IS
    [IterFin.fclose]. *)
From Coq Require Import List ZArith Bool Arith.
Import ListNotations.
From TI Require Import model.Iter model.IterFin model.IterCloseProg gen.CloseSrc.

Section Tie.
  Variable RS : Type.
  Variable fr : nat -> bool.
  Local Notation state := (state RS).

  Lemma set_gh_same (s : state) : set_gh RS s (gh s) = s.
  Proof. destruct s; reflexivity. Qed.

  Theorem close_prog_is_fclose : forall s : state,
    ccall RS fr src_iter_close s = fclose RS fr s.
  Proof.
    intro s. unfold ccall, src_iter_close, fclose.
    cbn [crun_list crun fst snd].
    destruct (closed s) eqn:Hc; [reflexivity|].
    cbn [fst snd]. destruct (owns (gh s)) eqn:Ho.
    - cbn [fst snd]. unfold set_gh at 1. cbn [gh].
      destruct (fdata_finalize fr (gh s)) as [g r] eqn:Hf.
      cbn [fst snd]. destruct r; reflexivity.
    - cbn [fst snd]. rewrite set_gh_same. reflexivity.
  Qed.

  (** the order repaired by 08c670c — [_closed] set only after [finalize()] returned — is a
      different program, and its run is the unrepaired model *)
  Definition unrepaired_close : list cstmt :=
    [CIfNotClosed [CGenClose; CDelIter; CIfOwns [CFinalize]; CDelData; CSetClosed]].

  Theorem unrepaired_prog_is_fclose_unrepaired : forall s : state,
    ccall RS fr unrepaired_close s = fclose_unrepaired RS fr s.
  Proof.
    intro s. unfold ccall, unrepaired_close, fclose_unrepaired.
    cbn [crun_list crun fst snd].
    destruct (closed s) eqn:Hc; [reflexivity|].
    cbn [fst snd]. destruct (owns (gh s)) eqn:Ho.
    - cbn [fst snd]. destruct (fdata_finalize fr (gh s)) as [g r] eqn:Hf.
      cbn [fst snd]. destruct r; reflexivity.
    - cbn [fst snd]. rewrite set_gh_same. reflexivity.
  Qed.
End Tie.
