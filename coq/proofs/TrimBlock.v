(** * TrimBlock — the lines of a real block render ([Block.render] with split cells, padded
    by [_format_render]) have the shape [content_is_crop] quantifies over (C17) *)
From Coq Require Import List ZArith Bool Lia.
Import ListNotations.
From TI Require Import lib.Term lib.TermFacts lib.Lines model.Block model.Padding model.Trim model.TrimSpec
     proofs.BlockRect proofs.PadProofs proofs.TrimLists proofs.TrimCells proofs.TrimProofs.
Open Scope Z_scope.

(** ** [split_lf] undoes [joinlf] *)

Lemma split_lf_nolf l : nolf l -> split_lf l = [l].
Proof.
  induction 1 as [|x l Hx _ IH]; [reflexivity|]. cbn [split_lf]. rewrite Hx, IH. reflexivity.
Qed.

Lemma split_lf_app_nolf l r : nolf l -> split_lf (l ++ TLF :: r) = l :: split_lf r.
Proof.
  induction 1 as [|x l Hx _ IH]; [reflexivity|]. cbn [app split_lf]. rewrite Hx, IH. reflexivity.
Qed.

Lemma split_lf_joinlf ls : ls <> [] -> (forall l, In l ls -> nolf l) -> split_lf (joinlf ls) = ls.
Proof.
  induction ls as [|l ls IH]; intros Hne Hn; [congruence|].
  destruct ls as [|l2 ls'].
  - cbn [joinlf]. apply split_lf_nolf, Hn. left; reflexivity.
  - rewrite joinlf_cons2, split_lf_app_nolf by (apply Hn; left; reflexivity).
    f_equal. apply IH; [discriminate|]. intros x Hx. apply Hn. right. exact Hx.
Qed.

Section BlockShape.
Variables (alpha kitty : bool) (bgcol : option rgb).

(** prefix and glyph of one run ([update_buffer], block.py:66-93) *)
Definition run_pg (c1 c2 : rgb) (ac1 ac2 : Z) : list tok * glyph :=
  if alpha && (ac1 =? 0) && (ac2 =? 0) then ([TSgr0], GSpace)
  else if alpha && (ac1 =? 0) then ([TSgr0; TFg c2], GLower)
  else if alpha && (ac2 =? 0) then ([TSgr0; TFg c1], GUpper)
  else if rgb_eqb c1 c2
       then ([TBg (if kitty && is_bg bgcol c2 then nudge c2 else c2)], GSpace)
       else ([TBg (if kitty && is_bg bgcol c2 then nudge c2 else c2); TFg c1], GUpper).

Lemma update_buffer_pg c1 c2 ac1 ac2 n :
  update_buffer alpha kitty bgcol true c1 c2 ac1 ac2 n
  = fst (run_pg c1 c2 ac1 ac2) ++ glyphs true (snd (run_pg c1 c2 ac1 ac2)) n.
Proof.
  unfold update_buffer, run_pg.
  destruct (alpha && (ac1 =? 0) && (ac2 =? 0)); [reflexivity|].
  destruct (alpha && (ac1 =? 0)); [reflexivity|].
  destruct (alpha && (ac2 =? 0)); [reflexivity|].
  destruct (rgb_eqb c1 c2); reflexivity.
Qed.

Lemma run_pg_ok c1 c2 ac1 ac2 :
  let '(p, g) := run_pg c1 c2 ac1 ac2 in
  p <> [] /\ forallb is_sgr p = true /\ covers (sets_from (false, false) p) g = true
  /\ glyph_is_m g = false.
Proof.
  unfold run_pg.
  destruct (alpha && (ac1 =? 0) && (ac2 =? 0)); [repeat split; discriminate|].
  destruct (alpha && (ac1 =? 0)); [repeat split; discriminate|].
  destruct (alpha && (ac2 =? 0)); [repeat split; discriminate|].
  destruct (rgb_eqb c1 c2); repeat split; discriminate.
Qed.

(** the cells of one run of [n] cells: the first carries the prefix *)
Definition run_cells (c1 c2 : rgb) (ac1 ac2 : Z) (n : nat) : list cell :=
  let '(p, g) := run_pg c1 c2 ac1 ac2 in
  match n with
  | O => []
  | S k => {| pre := p; gl := g; post := false |} :: repeat {| pre := []; gl := g; post := false |} k
  end.

(** cells each followed by the NUL separator *)
Definition cells_nul (cs : list cell) : list tok := concat (map (fun c => cell_toks c ++ [TNul]) cs).

Lemma cells_nul_app a b : cells_nul (a ++ b) = cells_nul a ++ cells_nul b.
Proof. unfold cells_nul. rewrite map_app, concat_app. reflexivity. Qed.

Lemma glyphs_true_cells g k :
  glyphs true g k = cells_nul (repeat {| pre := []; gl := g; post := false |} k).
Proof.
  induction k as [|k IH]; [reflexivity|].
  cbn [glyphs repeat]. unfold cells_nul in *. cbn [map concat]. rewrite <- IH. reflexivity.
Qed.

Lemma update_buffer_cells c1 c2 ac1 ac2 n :
  update_buffer alpha kitty bgcol true c1 c2 ac1 ac2 (S n) = cells_nul (run_cells c1 c2 ac1 ac2 (S n)).
Proof.
  rewrite update_buffer_pg. unfold run_cells. destruct (run_pg c1 c2 ac1 ac2) as [p g]. cbn [fst snd].
  cbn [glyphs]. rewrite glyphs_true_cells. unfold cells_nul, TrimSpec.cell_toks.
  cbn [map concat pre gl post TermFacts.cell_toks]. rewrite <- !app_assoc. reflexivity.
Qed.

(** the cells of [line_loop] *)
Fixpoint loop_cells (c1 c2 : rgb) (ac1 ac2 : Z) (n : nat) (pxs : list px) : list cell :=
  match pxs with
  | [] => run_cells c1 c2 ac1 ac2 n
  | p :: rest =>
    if flush_cond alpha c1 c2 ac1 ac2 p then
      run_cells c1 c2 ac1 ac2 n
      ++ loop_cells (p1 p) (p2 p) (if alpha then a1 p else ac1) (if alpha then a2 p else ac2) 1 rest
    else loop_cells c1 c2 ac1 ac2 (S n) rest
  end.

Lemma line_loop_cells pxs : forall c1 c2 ac1 ac2 n,
  line_loop alpha kitty bgcol true c1 c2 ac1 ac2 (S n) pxs
  = cells_nul (loop_cells c1 c2 ac1 ac2 (S n) pxs).
Proof.
  induction pxs as [|p rest IH]; intros c1 c2 ac1 ac2 n; cbn [line_loop loop_cells].
  - apply update_buffer_cells.
  - destruct (flush_cond alpha c1 c2 ac1 ac2 p).
    + rewrite cells_nul_app, update_buffer_cells, IH. reflexivity.
    + apply IH.
Qed.

Lemma loop_cells_length pxs : forall c1 c2 ac1 ac2 n,
  length (loop_cells c1 c2 ac1 ac2 n pxs) = (n + length pxs)%nat.
Proof.
  assert (Hrun : forall c1 c2 ac1 ac2 n, length (run_cells c1 c2 ac1 ac2 n) = n).
  { intros. unfold run_cells. destruct (run_pg c1 c2 ac1 ac2). destruct n; [reflexivity|].
    cbn [length]. rewrite repeat_length. reflexivity. }
  induction pxs as [|p rest IH]; intros c1 c2 ac1 ac2 n; cbn [loop_cells length].
  - rewrite Hrun. lia.
  - destruct (flush_cond alpha c1 c2 ac1 ac2 p).
    + rewrite app_length, Hrun, IH. lia.
    + rewrite IH. lia.
Qed.

(** a run, then well-formed cells that start with a prefix, is well-formed *)
Lemma wf_run c1 c2 ac1 ac2 n rest k ap :
  (forall k', wf_cells k' false rest = true) ->
  wf_cells k ap (run_cells c1 c2 ac1 ac2 (S n) ++ rest) = true.
Proof.
  intros Hrest. unfold run_cells. pose proof (run_pg_ok c1 c2 ac1 ac2) as Hok.
  destruct (run_pg c1 c2 ac1 ac2) as [p g]. destruct Hok as (Hne & Hsgr & Hcov & Hm).
  cbn [app wf_cells pre gl post]. destruct p as [|x p']; [congruence|]. cbn [is_nil negb].
  rewrite Hsgr, Hcov, Hm, orb_true_r. cbn [andb negb].
  set (k0 := sets_from (false, false) (x :: p')) in *. clearbody k0.
  induction n as [|n IH]; cbn [repeat app]; [apply Hrest|].
  cbn [wf_cells pre gl post is_nil forallb negb orb andb]. rewrite Hcov, Hm. cbn [andb negb]. exact IH.
Qed.

Lemma wf_loop pxs : forall c1 c2 ac1 ac2 n k ap,
  wf_cells k ap (loop_cells c1 c2 ac1 ac2 (S n) pxs) = true.
Proof.
  induction pxs as [|p rest IH]; intros c1 c2 ac1 ac2 n k ap; cbn [loop_cells].
  - rewrite <- (app_nil_r (run_cells _ _ _ _ _)). apply wf_run. reflexivity.
  - destruct (flush_cond alpha c1 c2 ac1 ac2 p).
    + apply wf_run. intros k'. apply IH.
    + apply IH.
Qed.

Lemma flush_cond_self p : flush_cond alpha (p1 p) (p2 p) (a1 p) (a2 p) p = false.
Proof.
  unfold flush_cond.
  assert (R : forall c, rgb_eqb c c = true).
  { intros [[r g] b]. unfold rgb_eqb. rewrite !Z.eqb_refl. reflexivity. }
  rewrite !R, !Z.eqb_refl. cbn [negb orb andb].
  rewrite !andb_false_r. cbn [orb]. rewrite ?andb_false_r. reflexivity.
Qed.

(** the cells of a whole line (the cluster starts as the first pixel pair) *)
Definition line_cells (pxs : list px) : list cell :=
  match pxs with
  | [] => []
  | p :: rest => loop_cells (p1 p) (p2 p) (a1 p) (a2 p) 1 rest
  end.

(** the last cell gets the reset that ends the line *)
Definition close_last (cs : list cell) : list cell :=
  match rev cs with
  | c :: r => rev r ++ [{| pre := pre c; gl := gl c; post := true |}]
  | [] => []
  end.

Lemma removelast_cells_nul cs c :
  removelast (cells_nul (cs ++ [c])) ++ [TSgr0] = img_line (cs ++ [{| pre := pre c; gl := gl c; post := true |}])
  \/ post c = true.
Proof.
  destruct (post c) eqn:Ep; [right; reflexivity|left].
  induction cs as [|c0 cs IH].
  - unfold cells_nul. cbn [app map concat img_line]. rewrite app_nil_r.
    unfold cell_toks. cbn [pre gl post]. rewrite Ep.
    rewrite <- app_assoc. cbn [app]. rewrite removelast_app by discriminate. cbn [removelast].
    rewrite <- app_assoc. reflexivity.
  - cbn [app]. unfold cells_nul in *. cbn [map concat].
    assert (Hne : concat (map (fun c1 => cell_toks c1 ++ [TNul]) (cs ++ [c])) <> []).
    { rewrite map_app, concat_app. cbn [map concat]. intros E. apply app_eq_nil in E. destruct E as [_ E].
      rewrite app_nil_r in E. apply app_eq_nil in E. destruct E as [_ E]. discriminate. }
    rewrite removelast_app by exact Hne. rewrite <- !app_assoc. rewrite IH.
    destruct (cs ++ [{| pre := pre c; gl := gl c; post := true |}]) as [|c2 cs2] eqn:E.
    { destruct cs; discriminate. }
    change (img_line (c0 :: c2 :: cs2)) with (cell_toks c0 ++ TNul :: img_line (c2 :: cs2)).
    reflexivity.
Qed.

Lemma wf_cells_close cs c : forall k ap,
  wf_cells k ap (cs ++ [c]) = wf_cells k ap (cs ++ [{| pre := pre c; gl := gl c; post := true |}]).
Proof.
  induction cs as [|c0 cs IH]; intros k ap.
  - cbn [app wf_cells pre gl post]. rewrite !andb_true_r. reflexivity.
  - cbn [app wf_cells]. rewrite IH. reflexivity.
Qed.

Lemma loop_cells_no_post pxs : forall c1 c2 ac1 ac2 n,
  Forall (fun c => post c = false) (loop_cells c1 c2 ac1 ac2 n pxs).
Proof.
  assert (Hrun : forall c1 c2 ac1 ac2 n, Forall (fun c => post c = false) (run_cells c1 c2 ac1 ac2 n)).
  { intros. unfold run_cells. destruct (run_pg c1 c2 ac1 ac2). destruct n; constructor; [reflexivity|].
    apply Forall_forall. intros x Hx. apply repeat_spec in Hx. subst x. reflexivity. }
  induction pxs as [|p rest IH]; intros c1 c2 ac1 ac2 n; cbn [loop_cells].
  - apply Hrun.
  - destruct (flush_cond alpha c1 c2 ac1 ac2 p); [apply Forall_app; split; [apply Hrun|apply IH]|apply IH].
Qed.

(** one line of the render, with its closing reset, is a well-formed cell line *)
Lemma block_line_shape pxs : pxs <> [] ->
  line alpha kitty bgcol true pxs ++ [TSgr0] = img_line (close_last (line_cells pxs))
  /\ wf_line (close_last (line_cells pxs)) = true
  /\ length (close_last (line_cells pxs)) = length pxs.
Proof.
  destruct pxs as [|p rest]; intros Hne; [congruence|].
  unfold line, line_cells. cbn [line_loop]. rewrite flush_cond_self, line_loop_cells.
  set (cs := loop_cells (p1 p) (p2 p) (a1 p) (a2 p) 1 rest).
  assert (Hlen : length cs = S (length rest)) by (subst cs; rewrite loop_cells_length; lia).
  assert (Hwf : wf_cells (false, false) true cs = true) by apply wf_loop.
  assert (Hnp : Forall (fun c => post c = false) cs) by apply loop_cells_no_post.
  clearbody cs. unfold close_last.
  destruct (rev cs) as [|c r] eqn:Er.
  { apply (f_equal (@length _)) in Er. rewrite rev_length in Er. cbn in Er. lia. }
  assert (Ecs : cs = rev r ++ [c]) by (rewrite <- (rev_involutive cs), Er; reflexivity).
  rewrite Ecs in *. split; [|split].
  - destruct (removelast_cells_nul (rev r) c) as [E|E]; [exact E|].
    apply Forall_app in Hnp. destruct Hnp as [_ Hc]. inversion Hc; subst. congruence.
  - unfold wf_line. rewrite <- wf_cells_close, Hwf. rewrite rev_app_distr. reflexivity.
  - rewrite app_length in *. cbn [length] in *. lia.
Qed.
End BlockShape.

(** ** the whole canvas *)

(** For every pixel content: the canvas lines that [UrwidImage.render] builds from a block
    render with split cells ([_format_render] then [UrwidImageCanvas.__init__]) are
    [canvas_lines] of a well-formed cell grid — the hypothesis of [content_is_crop]. *)
Theorem block_canvas_wellformed alpha kitty bgcol W H ha va (rows : list (list px)) w h :
  0 < w <= W -> 0 < h <= H -> Z.of_nat (length rows) = h ->
  (forall r, In r rows -> Z.of_nat (length r) = w) ->
  exists imgs,
    canvas_ok W H w h imgs
    /\ ti_lines (format_render W H ha va w h (Block.render alpha kitty bgcol true rows))
       = canvas_lines W H w h ha va imgs.
Proof.
  intros Hw Hh Hlen Hrows.
  exists (map (fun r => close_last (line_cells alpha kitty bgcol r)) rows).
  assert (Hne : rows <> []) by (intros ->; cbn in Hlen; lia).
  assert (Hrne : forall r, In r rows -> r <> []).
  { intros r Hr ->. specialize (Hrows _ Hr). cbn in Hrows. lia. }
  split.
  - repeat split; try lia.
    + rewrite map_length. exact Hlen.
    + apply Forall_map, Forall_forall. intros r Hr.
      destruct (block_line_shape alpha kitty bgcol r (Hrne r Hr)) as (_ & Hwf & Hl).
      split; [rewrite Hl; apply Hrows, Hr|exact Hwf].
  - unfold ti_lines, format_render, canvas_lines.
    rewrite (render_as_lines alpha kitty bgcol true rows Hne).
    pose proof (old_dims_facts W H ha va w h Hw Hh) as D.
    destruct (old_dims W H ha va w h) as [[[l t] r] b].
    destruct D as (_ & _ & Dl & Dt & Dr & Db & _).
    assert (Hnolf : forall ln, In ln (block_ls alpha kitty bgcol true rows) -> nolf ln).
    { intros ln Hin. unfold block_ls in Hin. apply in_map_iff in Hin. destruct Hin as (x & <- & _).
      apply nolf_app; [apply nolf_line|repeat constructor]. }
    assert (Hbne : block_ls alpha kitty bgcol true rows <> []).
    { unfold block_ls. destruct rows; [congruence|discriminate]. }
    rewrite pad_joinlf by assumption.
    rewrite split_lf_joinlf.
    + f_equal. f_equal. unfold block_ls. rewrite map_map. apply map_ext_in. intros x Hx.
      apply (block_line_shape alpha kitty bgcol x (Hrne x Hx)).
    + unfold pad_lines. destruct (map _ (block_ls alpha kitty bgcol true rows)) eqn:E.
      * destruct (block_ls alpha kitty bgcol true rows); [congruence|discriminate].
      * intros E2. apply app_eq_nil in E2. destruct E2 as [_ E2]. apply app_eq_nil in E2.
        destruct E2 as [E2 _]. discriminate.
    + intros ln Hin. unfold pad_lines in Hin.
      apply in_app_or in Hin. destruct Hin as [Hin|Hin]; [|apply in_app_or in Hin; destruct Hin as [Hin|Hin]].
      * apply repeat_spec in Hin. subst ln. apply nolf_fillseg.
      * apply in_map_iff in Hin. destruct Hin as (x & <- & Hx).
        apply nolf_app; [apply nolf_fillseg|apply nolf_app; [apply Hnolf, Hx|apply nolf_fillseg]].
      * apply repeat_spec in Hin. subst ln. apply nolf_fillseg.
Qed.

(** [content_is_crop] for the canvas of a real block render, for every pixel content *)
Theorem block_content_is_crop alpha kitty bgcol W H ha va (pixels : list (list px)) w h tl tt cols rows :
  0 < w <= W -> 0 < h <= H -> Z.of_nat (length pixels) = h ->
  (forall r, In r pixels -> Z.of_nat (length r) = w) ->
  0 <= tl -> 0 <= tt -> 0 < cols -> 0 < rows -> tl + cols <= W -> tt + rows <= H ->
  let lines := ti_lines (format_render W H ha va w h (Block.render alpha kitty bgcol true pixels)) in
  let out := content_text ha va W H w h lines tl tt (Some cols) (Some rows) in
  Z.of_nat (length out) = rows
  /\ map vis_row out
     = crop (Z.to_nat tl) (Z.to_nat tt) (Z.to_nat cols) (Z.to_nat rows) (map vis_row lines)
  /\ Forall (fun r => Z.of_nat (length (vis_row r)) = cols /\ end_attrs r = adefault
                      /\ text_only r = true) out.
Proof.
  intros Hw Hh Hlen Hrows H1 H2 H3 H4 H5 H6.
  destruct (block_canvas_wellformed alpha kitty bgcol W H ha va pixels w h Hw Hh Hlen Hrows)
    as (imgs & Hok & E).
  cbn zeta. rewrite E. apply content_is_crop; assumption.
Qed.
