(** Proofs about [model/PadGen.v] (C05): padding with an arbitrary one-column fill segment.

    [pad_gen_rect] is [PadProofs.pad_rect] for a fill that is any token list satisfying
    [OneCell]; [pad_rect_is_instance] recovers the single-glyph theorem from it;
    [styled_fill_one_cell] discharges the hypothesis for the decidable class
    [styled_fillb] (style tokens, one glyph, style tokens, attributes default at the end);
    [sliced_*] show that cutting the side margins out of one line of fill by position is
    correct exactly for one-token fills and refuted for a fill of two tokens. *)
From Coq Require Import List ZArith Bool Lia.
Import ListNotations.
From TI Require Import lib.Term lib.TermFacts lib.Rect lib.Lines model.Padding model.PadGen
     proofs.PadProofs.
Open Scope Z_scope.
Local Arguments Z.eqb : simpl never.
Local Arguments Z.ltb : simpl never.
Local Arguments Z.leb : simpl never.
Local Arguments Z.div : simpl never.
Local Arguments Z.mul : simpl never.

(** ** one-cell fills *)

Lemma style_nolf x : is_style x = true -> is_lf x = false.
Proof. destruct x; try discriminate; reflexivity. Qed.
Lemma style_nocr x : is_style x = true -> is_cr x = false.
Proof. destruct x; try discriminate; reflexivity. Qed.

Lemma styles_nolf ts : forallb is_style ts = true -> nolf ts.
Proof.
  induction ts as [|x ts IH]; intros H; [constructor|].
  cbn [forallb] in H. apply andb_true_iff in H. destruct H as [Hx H].
  constructor; [apply style_nolf, Hx|apply IH, H].
Qed.
Lemma styles_nocr ts : forallb is_style ts = true -> nocr ts.
Proof.
  induction ts as [|x ts IH]; intros H; [constructor|].
  cbn [forallb] in H. apply andb_true_iff in H. destruct H as [Hx H].
  constructor; [apply style_nocr, Hx|apply IH, H].
Qed.

Lemma step_style lm t x : is_style x = true -> parser t = Ground ->
  step lm t x = mk (row t) (col t) (style_step (sgr t) x) t [].
Proof.
  intros Hx Hg. destruct x; try discriminate; cbn [style_step].
  - rewrite step_nul by exact Hg. symmetry. apply mk_id.
  - apply step_sgr0, Hg.
  - apply step_fg, Hg.
  - apply step_bg, Hg.
Qed.

Lemma exec_style lm : forall ts t, forallb is_style ts = true -> parser t = Ground ->
  exec lm t ts = mk (row t) (col t) (style_after (sgr t) ts) t [].
Proof.
  induction ts as [|x ts IH]; intros t H Hg.
  - cbn. symmetry. apply mk_id.
  - cbn [forallb] in H. apply andb_true_iff in H. destruct H as [Hx H].
    rewrite exec_cons, (step_style lm t x Hx Hg). rewrite IH; [|exact H|exact Hg].
    rewrite mk_mk. reflexivity.
Qed.

Lemma attrs_default_eq a : attrs_default a = true -> a = adefault.
Proof. destruct a as [[f|] [b|]]; cbn; try discriminate. reflexivity. Qed.

Lemma split_styled_spec : forall f pre g post,
  split_styled f = Some (pre, g, post) ->
  f = pre ++ TChar g :: post /\ forallb is_style pre = true.
Proof.
  induction f as [|x f IH]; intros pre g post H; [discriminate|].
  destruct x; cbn [split_styled is_style] in H; try discriminate;
    try (inversion H; subst; split; reflexivity);
    (destruct (split_styled f) as [[[pre' g'] post']|] eqn:Es; [|discriminate];
     inversion H; subst; destruct (IH _ _ _ eq_refl) as [-> Hp]; split; [reflexivity|exact Hp]).
Qed.

(** the decidable class is sound: such a fill is a one-column fill *)
Theorem styled_fill_one_cell f : styled_fillb f = true -> OneCell f.
Proof.
  unfold styled_fillb. destruct (split_styled f) as [[[pre g] post]|] eqn:Es; [|discriminate].
  intros H. apply andb_true_iff in H. destruct H as [Hpost Hdef].
  destruct (split_styled_spec _ _ _ _ Es) as [-> Hpre].
  apply attrs_default_eq in Hdef.
  exists (fun r c => [EText r c g (style_after adefault pre)]).
  split; [|split; [|split; [|split]]].
  - apply nolf_app; [apply styles_nolf, Hpre|].
    constructor; [reflexivity|apply styles_nolf, Hpost].
  - apply nocr_app; [apply styles_nocr, Hpre|].
    constructor; [reflexivity|apply styles_nocr, Hpost].
  - intros lm t [Hg Hp] Hs.
    rewrite exec_app, (exec_style lm pre t Hpre Hg), exec_cons, step_char by exact Hg.
    rewrite mk_mk, exec_style; [|exact Hpost|exact Hg]. rewrite mk_mk.
    cbn [row col sgr mk]. rewrite Hs, Hdef. reflexivity.
  - intros r c. cbn [forallb ev_inside].
    rewrite andb_true_r, !andb_true_iff, !Z.leb_le, !Z.ltb_lt. lia.
  - intros r c. unfold covered. cbn [existsb ev_covers]. rewrite !Z.eqb_refl. reflexivity.
Qed.

(** the fill of [model/Padding.v] — a single glyph — is one *)
Lemma glyph_one_cell g : OneCell [TChar g].
Proof. apply styled_fill_one_cell. reflexivity. Qed.

(** ... and so are a glyph followed by an ignored zero-width token (the shape of a base
    character followed by a combining mark or a joiner) and a blank / a glyph wrapped in SGR *)
Example zero_width_suffix_one_cell g : OneCell [TChar g; TNul].
Proof. apply styled_fill_one_cell. reflexivity. Qed.
Example sgr_wrapped_blank_one_cell c : OneCell [TBg c; TChar GSpace; TSgr0].
Proof. apply styled_fill_one_cell. reflexivity. Qed.
Example sgr_wrapped_glyph_one_cell c1 c2 g : OneCell [TFg c1; TBg c2; TChar g; TSgr0].
Proof. apply styled_fill_one_cell. reflexivity. Qed.

(** a fill that leaves an attribute set, or is two columns wide, is NOT one *)
Example unclosed_style_not_one_cell c : ~ OneCell [TBg c; TChar GSpace].
Proof.
  intros (E & _ & _ & H & _).
  specialize (H 0 origin (conj eq_refl eq_refl) eq_refl).
  apply (f_equal sgr) in H. cbn in H. discriminate.
Qed.
Example two_columns_not_one_cell g : ~ OneCell [TChar g; TChar g].
Proof.
  intros (E & _ & _ & H & _).
  specialize (H 0 origin (conj eq_refl eq_refl) eq_refl).
  apply (f_equal col) in H. cbn in H. discriminate.
Qed.

(** ** fill segments *)

Fixpoint cells_evs (E : Z -> Z -> list ev) (r c : Z) (n : nat) : list ev :=
  match n with
  | O => []
  | S k => E r c ++ cells_evs E r (c + 1) k
  end.

Definition gfill_evs (fill : option (list tok)) (E : Z -> Z -> list ev) (r c n : Z) : list ev :=
  match fill with
  | Some _ => cells_evs E r c (Z.to_nat n)
  | None => if 0 <? n then [EMove r (c + n)] else []
  end.

Lemma nolf_rep f : nolf f -> forall n, nolf (rep n f).
Proof. intros H. induction n as [|n IH]; [constructor|]. cbn [rep]. apply nolf_app; assumption. Qed.
Lemma nocr_rep f : nocr f -> forall n, nocr (rep n f).
Proof. intros H. induction n as [|n IH]; [constructor|]. cbn [rep]. apply nocr_app; assumption. Qed.

Lemma exec_rep lm E f : OneCellBy E f -> forall n t, clean t -> sgr t = adefault ->
  exec lm t (rep n f) = mk (row t) (col t + Z.of_nat n) adefault t (cells_evs E (row t) (col t) n).
Proof.
  intros (_ & _ & Hx & _). induction n as [|n IH]; intros t Hc Hs.
  - cbn [rep cells_evs exec fold_left Z.of_nat]. replace (col t + 0) with (col t) by lia.
    rewrite <- Hs. symmetry. apply mk_id.
  - cbn [rep cells_evs]. rewrite exec_app, (Hx lm t Hc Hs).
    rewrite IH; [|exact Hc|reflexivity]. rewrite mk_mk. cbn [row col mk].
    unfold mk; cbn. f_equal; lia.
Qed.

Lemma cells_evs_inside E r c w :
  (forall r c, forallb (ev_inside r c 1 1) (E r c) = true) ->
  forall n c0, c <= c0 -> c0 + Z.of_nat n <= c + w ->
  forallb (ev_inside r c 1 w) (cells_evs E r c0 n) = true.
Proof.
  intros HE. induction n as [|n IH]; intros c0 H1 H2; [reflexivity|].
  cbn [cells_evs]. rewrite forallb_app, IH by lia. rewrite andb_true_r.
  eapply forallb_inside_mono; [| | | |apply (HE r c0)]; lia.
Qed.

Lemma cells_evs_covers E r :
  (forall r c, covered (E r c) r c = true) ->
  forall n c0 c, c0 <= c < c0 + Z.of_nat n -> covered (cells_evs E r c0 n) r c = true.
Proof.
  intros HE. induction n as [|n IH]; intros c0 c H; [lia|].
  cbn [cells_evs]. rewrite covered_app.
  destruct (Z.eq_dec c0 c) as [->|Hne].
  - rewrite HE. reflexivity.
  - rewrite IH by lia. apply orb_true_r.
Qed.

Section Fill.
Variable fill : option (list tok).
Variable E : Z -> Z -> list ev.
Hypothesis HE : forall f, fill = Some f -> OneCellBy E f.

Lemma gfillseg_zero : gfillseg fill 0 = [].
Proof. destruct fill; reflexivity. Qed.

Lemma nolf_gfillseg n : nolf (gfillseg fill n).
Proof.
  destruct fill as [f|] eqn:Ef; cbn [gfillseg].
  - apply nolf_rep. apply (HE f eq_refl).
  - destruct (0 <? n); repeat constructor.
Qed.
Lemma nocr_gfillseg n : nocr (gfillseg fill n).
Proof.
  destruct fill as [f|] eqn:Ef; cbn [gfillseg].
  - apply nocr_rep. apply (HE f eq_refl).
  - destruct (0 <? n); repeat constructor.
Qed.

Lemma exec_gfillseg lm n t : clean t -> sgr t = adefault -> 0 <= n ->
  exec lm t (gfillseg fill n) =
  mk (row t) (col t + n) adefault t (gfill_evs fill E (row t) (col t) n).
Proof.
  intros Hc Hs Hn. destruct fill as [f|] eqn:Ef; cbn [gfillseg gfill_evs].
  - rewrite (exec_rep lm E f (HE f eq_refl)) by assumption. f_equal. lia.
  - destruct Hc as [Hg Hp]. destruct (0 <? n) eqn:En.
    + apply Z.ltb_lt in En. cbn [exec fold_left]. rewrite step_cuf by exact Hg.
      unfold pos1. replace (Z.max n 1) with n by lia. rewrite Hs. reflexivity.
    + apply Z.ltb_ge in En. assert (n = 0) by lia. subst n. cbn.
      replace (col t + 0) with (col t) by lia. rewrite <- Hs. symmetry. apply mk_id.
Qed.

Lemma gfill_evs_inside r c w c0 n :
  0 <= n -> c <= c0 -> c0 + n <= c + w ->
  forallb (ev_inside r c 1 w) (gfill_evs fill E r c0 n) = true.
Proof.
  intros Hn H1 H2. destruct fill as [f|] eqn:Ef; cbn [gfill_evs].
  - apply cells_evs_inside; [apply (HE f eq_refl)|lia|lia].
  - destruct (0 <? n); [|reflexivity]. cbn [forallb ev_inside].
    rewrite andb_true_r, !andb_true_iff, !Z.leb_le, !Z.ltb_lt. lia.
Qed.

(** ** structure: [pad_gen] on a render given as lines *)
Theorem pad_gen_joinlf l t r b w ls :
  ls <> [] -> (forall ln, In ln ls -> nolf ln) -> 0 <= l -> 0 <= t -> 0 <= r -> 0 <= b ->
  pad_gen fill (l, t, r, b) w (joinlf ls) = joinlf (pad_lines_gen fill (l, t, r, b) w ls).
Proof.
  intros Hne Hn Hl Ht Hr Hb. unfold pad_gen, pad_lines_gen.
  set (seg := gfillseg fill (l + w + r)).
  set (wrap := fun ln => gfillseg fill l ++ ln ++ gfillseg fill r).
  assert (Hm : map wrap ls <> []) by (destruct ls; [congruence|discriminate]).
  assert (Hmid : gfillseg fill l ++ (if negb (l =? 0) || negb (r =? 0)
                                     then subst_lf (gfillseg fill r) (gfillseg fill l) (joinlf ls)
                                     else joinlf ls) ++ gfillseg fill r
                 = joinlf (map wrap ls)).
  { destruct (negb (l =? 0) || negb (r =? 0)) eqn:Eh.
    - apply subst_joinlf; assumption.
    - apply orb_false_iff in Eh. destruct Eh as [E1 E2].
      apply negb_false_iff, Z.eqb_eq in E1, E2. subst l r. subst wrap.
      rewrite gfillseg_zero, app_nil_r. cbn [app].
      rewrite map_id'; [reflexivity|]. intros x. rewrite app_nil_r. reflexivity. }
  destruct (negb (l =? 0) || negb (r =? 0) || (negb (t =? 0) || negb (b =? 0))) eqn:Eany.
  - rewrite joinlf_repeat_front by (destruct (map wrap ls); [congruence|discriminate]).
    rewrite joinlf_repeat_back by exact Hm. rewrite <- Hmid.
    rewrite <- !app_assoc. reflexivity.
  - rewrite !orb_false_iff, !negb_false_iff, !Z.eqb_eq in Eany.
    destruct Eany as [[-> ->] [-> ->]]. cbn [Z.to_nat repeat app]. rewrite app_nil_r.
    subst wrap. rewrite gfillseg_zero. rewrite map_id'; [reflexivity|].
    intros x. rewrite app_nil_r. reflexivity.
Qed.

(** ** semantics: padded lines meet the contract of the padded box *)
Section GPad.
Variable need : Z -> Z -> bool.
Variable w h l t r b : Z.
Variable ls : list (list tok).
Hypothesis HLR : LinesRect need w h ls.
Hypothesis Hl : 0 <= l.
Hypothesis Ht : 0 <= t.
Hypothesis Hr : 0 <= r.
Hypothesis Hb : 0 <= b.

Let W' := l + w + r.
Let H' := t + h + b.

Lemma gHw : 0 < w. Proof. exact (lr_w _ _ _ _ HLR). Qed.
Lemma gHh : 0 < h.
Proof.
  pose proof (lr_len _ _ _ _ HLR). pose proof (lr_ne _ _ _ _ HLR).
  destruct ls; [congruence|cbn [length] in *; lia].
Qed.

Lemma gpadline_ok i : 0 <= i < H' -> LineOK W' H' i (gfillseg fill W').
Proof.
  intros Hi. pose proof gHw. split; [apply nolf_gfillseg|].
  intros lm s Hc Hcol Hs. rewrite exec_gfillseg by (auto; unfold W'; lia).
  rewrite Hcol. eexists. split; [reflexivity|].
  eapply forallb_inside_mono; [| | | |apply (gfill_evs_inside (row s) lm W' lm)];
    unfold W', H' in *; try lia.
Qed.

(** the state in which the inner line runs inside its padded line *)
Definition ginner_state (lm : Z) (s : term) : term :=
  mk (row s) (lm + l) adefault s (gfill_evs fill E (row s) lm l).

Lemma gwrap_exec ln i lm s :
  LineOK w h i ln -> nocr ln -> clean s -> col s = lm -> sgr s = adefault ->
  exec lm s (gfillseg fill l ++ ln ++ gfillseg fill r) =
  mk (row s) (lm + W') adefault s
     (gfill_evs fill E (row s) lm l
      ++ line_evs (lm + l) (ginner_state lm s) ln
      ++ gfill_evs fill E (row s) (lm + l + w) r)
  /\ forallb (ev_inside (row s - i) (lm + l) h w) (line_evs (lm + l) (ginner_state lm s) ln) = true.
Proof.
  intros (Hnl & Hok) Hnc Hc Hcol Hs.
  rewrite exec_app, exec_gfillseg by auto. rewrite Hcol.
  fold (ginner_state lm s). set (s1 := ginner_state lm s).
  rewrite exec_app. rewrite (exec_lm_indep lm (lm + l) ln s1 Hnl Hnc).
  destruct (Hok (lm + l) s1) as (evs & Ex & Hin); try reflexivity; [exact Hc|].
  rewrite (line_evs_mk _ _ _ _ _ _ _ Ex).
  rewrite Ex. rewrite exec_gfillseg; [|exact Hc|reflexivity|exact Hr]. rewrite !mk_mk.
  subst s1. unfold ginner_state. rewrite !mk_mk. cbn [row col sgr mk].
  split; [|exact Hin].
  unfold W'. replace (lm + (l + w + r)) with (lm + l + w + r) by lia. reflexivity.
Qed.

Lemma gwrap_ok ln i : 0 <= i < h -> LineOK w h i ln -> nocr ln ->
  LineOK W' H' (t + i) (gfillseg fill l ++ ln ++ gfillseg fill r).
Proof.
  intros Hi HL Hnc. pose proof gHw. split.
  - apply nolf_app; [apply nolf_gfillseg|]. apply nolf_app; [apply HL|apply nolf_gfillseg].
  - intros lm s Hc Hcol Hs. destruct (gwrap_exec ln i lm s HL Hnc Hc Hcol Hs) as (Ex & Hin).
    eexists. split; [exact Ex|]. rewrite !forallb_app, !andb_true_iff. split; [|split].
    + eapply forallb_inside_mono; [| | | |apply (gfill_evs_inside (row s) lm W' lm)];
        unfold W', H' in *; try lia.
    + eapply forallb_inside_mono; [| | | |exact Hin]; unfold W', H' in *; lia.
    + eapply forallb_inside_mono;
        [| | | |apply (gfill_evs_inside (row s) lm W' (lm + l + w))];
        unfold W', H' in *; try lia.
Qed.

Lemma pad_lines_gen_length :
  length (pad_lines_gen fill (l, t, r, b) w ls) = (Z.to_nat t + length ls + Z.to_nat b)%nat.
Proof. unfold pad_lines_gen. rewrite !app_length, !repeat_length, map_length. lia. Qed.

(** the [k]-th padded line *)
Lemma pad_lines_gen_nth k ln :
  nth_error (pad_lines_gen fill (l, t, r, b) w ls) k = Some ln ->
  (k < Z.to_nat t /\ ln = gfillseg fill W')%nat
  \/ (exists i x, k = (Z.to_nat t + i)%nat /\ nth_error ls i = Some x
                  /\ ln = gfillseg fill l ++ x ++ gfillseg fill r)
  \/ ((Z.to_nat t + length ls <= k)%nat /\ ln = gfillseg fill W').
Proof.
  unfold pad_lines_gen. fold W'. intros Hn.
  destruct (Nat.lt_ge_cases k (Z.to_nat t)) as [Hlt|Hge].
  - left. rewrite nth_error_app1 in Hn by (rewrite repeat_length; exact Hlt).
    apply nth_error_In, repeat_spec in Hn. auto.
  - rewrite nth_error_app2 in Hn by (rewrite repeat_length; exact Hge).
    rewrite repeat_length in Hn.
    destruct (Nat.lt_ge_cases (k - Z.to_nat t) (length ls)) as [Hlt2|Hge2].
    + right; left. rewrite nth_error_app1 in Hn by (rewrite map_length; exact Hlt2).
      destruct (nth_error ls (k - Z.to_nat t)) as [x|] eqn:Ex;
        [|apply nth_error_None in Ex; lia].
      rewrite (map_nth_error _ _ _ Ex) in Hn. inversion Hn.
      exists (k - Z.to_nat t)%nat, x. repeat split; auto. lia.
    + right; right. rewrite nth_error_app2 in Hn by (rewrite map_length; exact Hge2).
      apply nth_error_In, repeat_spec in Hn. split; [lia|exact Hn].
Qed.

Theorem pad_lines_gen_lr :
  LinesRect (gneed' fill need w h l t) W' H' (pad_lines_gen fill (l, t, r, b) w ls).
Proof.
  pose proof gHw as Hw0. pose proof gHh as Hh0.
  pose proof (lr_len _ _ _ _ HLR) as Hlen.
  constructor.
  - unfold W'. lia.
  - rewrite pad_lines_gen_length. unfold H'. lia.
  - unfold pad_lines_gen. pose proof (lr_ne _ _ _ _ HLR). destruct ls; [congruence|].
    destruct (repeat (gfillseg fill (l + w + r)) (Z.to_nat t)); discriminate.
  - intros k ln Hn. destruct (pad_lines_gen_nth k ln Hn) as [[Hk ->]|[(i & x & -> & Hx & ->)|[Hk ->]]].
    + apply gpadline_ok. unfold H'. lia.
    + assert (Hi : (i < length ls)%nat) by (apply nth_error_Some; congruence).
      replace (Z.of_nat (Z.to_nat t + i)) with (t + Z.of_nat i) by lia.
      apply gwrap_ok; [lia|apply (lr_ok _ _ _ _ HLR), Hx|].
      apply (lr_nocr _ _ _ _ HLR). eapply nth_error_In; exact Hx.
    + assert (k < length (pad_lines_gen fill (l, t, r, b) w ls))%nat
        by (apply nth_error_Some; congruence).
      rewrite pad_lines_gen_length in *. apply gpadline_ok. unfold H'. lia.
  - intros ln Hin. apply In_nth_error in Hin. destruct Hin as [k Hk].
    destruct (pad_lines_gen_nth k ln Hk) as [[_ ->]|[(i & x & _ & Hx & ->)|[_ ->]]];
      try apply nocr_gfillseg.
    apply nocr_app; [apply nocr_gfillseg|]. apply nocr_app; [|apply nocr_gfillseg].
    apply (lr_nocr _ _ _ _ HLR). eapply nth_error_In; exact Hx.
  - (* coverage *)
    intros i j Hi Hj Hneed. unfold gneed' in Hneed.
    destruct ((t <=? i) && (i <? t + h) && (l <=? j) && (j <? l + w)) eqn:Einner.
    + (* a cell of the inner render *)
      rewrite !andb_true_iff, !Z.leb_le, !Z.ltb_lt in Einner.
      destruct (lr_cov _ _ _ _ HLR (i - t) (j - l)) as (k0 & lk0 & Hk0 & Hcv); try lia; auto.
      exists (Z.to_nat t + k0)%nat, (gfillseg fill l ++ lk0 ++ gfillseg fill r). split.
      * unfold pad_lines_gen. rewrite nth_error_app2 by (rewrite repeat_length; lia).
        rewrite repeat_length. replace (Z.to_nat t + k0 - Z.to_nat t)%nat with k0 by lia.
        rewrite nth_error_app1 by (rewrite map_length; apply nth_error_Some; congruence).
        exact (map_nth_error (fun ln => gfillseg fill l ++ ln ++ gfillseg fill r) _ _ Hk0).
      * intros lm s Hc Hcol Hs.
        assert (Hk : (k0 < length ls)%nat) by (apply nth_error_Some; congruence).
        destruct (gwrap_exec lk0 (Z.of_nat k0) lm s) as (Ex & _); auto.
        { apply (lr_ok _ _ _ _ HLR), Hk0. }
        { apply (lr_nocr _ _ _ _ HLR). eapply nth_error_In; exact Hk0. }
        rewrite (line_evs_mk _ _ _ _ _ _ _ Ex). rewrite !covered_app.
        apply orb_true_iff. right. apply orb_true_iff. left.
        specialize (Hcv (lm + l) (ginner_state lm s)).
        replace (row s - Z.of_nat (Z.to_nat t + k0) + i)
          with (row (ginner_state lm s) - Z.of_nat k0 + (i - t)) by (cbn [ginner_state row mk]; lia).
        replace (lm + j) with (lm + l + (j - l)) by lia.
        apply Hcv; try reflexivity. exact Hc.
    + (* a padding cell: only required with a non-empty fill *)
      assert (Hf : exists f, fill = Some f) by (revert Hneed; destruct fill; [eauto|discriminate]).
      destruct Hf as (f & Efill).
      pose proof (HE f Efill) as (_ & _ & _ & _ & HEcov).
      assert (Hrow : exists ln, nth_error (pad_lines_gen fill (l, t, r, b) w ls) (Z.to_nat i) = Some ln).
      { destruct (nth_error (pad_lines_gen fill (l, t, r, b) w ls) (Z.to_nat i)) eqn:Ex; [eauto|].
        apply nth_error_None in Ex. rewrite pad_lines_gen_length in Ex.
        unfold H' in Hi. lia. }
      destruct Hrow as (ln & Hln). exists (Z.to_nat i), ln. split; [exact Hln|].
      intros lm s Hc Hcol Hs.
      replace (row s - Z.of_nat (Z.to_nat i) + i) with (row s) by lia.
      destruct (pad_lines_gen_nth _ _ Hln) as [[Hk ->]|[(i0 & x & Hk & Hx & ->)|[Hk ->]]].
      * erewrite line_evs_mk by (apply exec_gfillseg; [exact Hc|exact Hs|unfold W'; lia]).
        rewrite Hcol. unfold gfill_evs. rewrite Efill. apply cells_evs_covers; [exact HEcov|].
        unfold W' in *. lia.
      * assert (Hi0 : (i0 < length ls)%nat) by (apply nth_error_Some; congruence).
        destruct (gwrap_exec x (Z.of_nat i0) lm s) as (Ex & _); auto.
        { apply (lr_ok _ _ _ _ HLR), Hx. }
        { apply (lr_nocr _ _ _ _ HLR). eapply nth_error_In; exact Hx. }
        rewrite (line_evs_mk _ _ _ _ _ _ _ Ex). rewrite !covered_app. unfold gfill_evs. rewrite Efill.
        (* the row is an inner row, so the column is in the left or the right margin *)
        assert (Hrowin : t <= i < t + h) by lia.
        assert (Hcolout : j < l \/ l + w <= j).
        { destruct (Z.lt_ge_cases j l); [left; lia|].
          destruct (Z.lt_ge_cases j (l + w)); [|right; lia].
          exfalso. revert Einner.
          rewrite !andb_false_iff, !Z.leb_gt, !Z.ltb_ge. lia. }
        destruct Hcolout as [Hleft|Hright].
        -- apply orb_true_iff. left. apply cells_evs_covers; [exact HEcov|]. lia.
        -- apply orb_true_iff. right. apply orb_true_iff. right.
           apply cells_evs_covers; [exact HEcov|]. unfold W' in *. lia.
      * erewrite line_evs_mk by (apply exec_gfillseg; [exact Hc|exact Hs|unfold W'; lia]).
        rewrite Hcol. unfold gfill_evs. rewrite Efill. apply cells_evs_covers; [exact HEcov|].
        unfold W' in *. lia.
Qed.

Theorem pad_gen_rect_E :
  RectG (gneed' fill need w h l t) W' H' (pad_gen fill (l, t, r, b) w (joinlf ls)).
Proof.
  rewrite pad_gen_joinlf; auto.
  - apply lines_rect', pad_lines_gen_lr.
  - apply (lr_ne _ _ _ _ HLR).
  - intros ln Hin. apply In_nth_error in Hin. destruct Hin as [k Hk].
    apply (lr_ok _ _ _ _ HLR k ln Hk).
Qed.

End GPad.
End Fill.

(** C05 main statement for ANY one-column fill: padding a line-structured render yields a
    render of the padded size that meets the render contract on the padded box *)
Theorem pad_gen_rect fill need w h l t r b ls :
  (forall f, fill = Some f -> OneCell f) ->
  LinesRect need w h ls -> 0 <= l -> 0 <= t -> 0 <= r -> 0 <= b ->
  RectG (gneed' fill need w h l t) (l + w + r) (t + h + b)
        (pad_gen fill (l, t, r, b) w (joinlf ls)).
Proof.
  intros Hf HLR Hl Ht Hr Hb. destruct fill as [f|].
  - destruct (Hf f eq_refl) as (E & HE).
    apply (pad_gen_rect_E (Some f) E); auto. intros f' Ef. inversion Ef; subst. exact HE.
  - apply (pad_gen_rect_E None (fun _ _ => [])); auto. intros f' Ef. discriminate.
Qed.

Theorem pad_gen_structure fill l t r b w ls :
  (forall f, fill = Some f -> OneCell f) ->
  ls <> [] -> (forall ln, In ln ls -> nolf ln) -> 0 <= l -> 0 <= t -> 0 <= r -> 0 <= b ->
  pad_gen fill (l, t, r, b) w (joinlf ls) = joinlf (pad_lines_gen fill (l, t, r, b) w ls).
Proof.
  intros Hf. destruct fill as [f|].
  - destruct (Hf f eq_refl) as (E & HE).
    apply (pad_gen_joinlf (Some f) E). intros f' Ef. inversion Ef; subst. exact HE.
  - apply (pad_gen_joinlf None (fun _ _ => [])). intros f' Ef. discriminate.
Qed.

(** ** the single-glyph model is the instance [f = [TChar g]] *)
Lemma glyphs_rep g n : glyphs false g n = rep n [TChar g].
Proof. induction n as [|n IH]; [reflexivity|]. cbn [glyphs rep cell_toks app]. rewrite IH. reflexivity. Qed.

Lemma gfillseg_glyph fill n : gfillseg (glyph_fill fill) n = fillseg fill n.
Proof. destruct fill as [g|]; cbn [glyph_fill gfillseg fillseg]; [symmetry; apply glyphs_rep|reflexivity]. Qed.

Theorem pad_gen_glyph fill d w R : pad_gen (glyph_fill fill) d w R = pad fill d w R.
Proof.
  destruct d as [[[l t] r] b]. unfold pad_gen, pad. rewrite !gfillseg_glyph. reflexivity.
Qed.

Lemma gneed_glyph fill need w h l t i j :
  gneed' (glyph_fill fill) need w h l t i j = need' fill need w h l t i j.
Proof. unfold gneed', need'. destruct fill; reflexivity. Qed.

Lemma RectG_need_ext n1 n2 w h R :
  (forall i j, n1 i j = n2 i j) -> RectG n1 w h R -> RectG n2 w h R.
Proof.
  intros Hx (Hw & Hh & HR & rest). split; [exact Hw|]. split; [exact Hh|]. split; [|exact rest].
  intros lm s Hc Hcol Hs. destruct (HR lm s Hc Hcol Hs) as [(evs & El & Hin & Hcov) R2 R3 R4 R5 R6 R7 R8].
  constructor; auto. exists evs. split; [exact El|]. split; [exact Hin|].
  intros rr cc H1 H2 H3. apply Hcov; auto. rewrite Hx. exact H3.
Qed.

(** [PadProofs.pad_rect], re-derived as the single-glyph instance of [pad_gen_rect] *)
Theorem pad_rect_is_instance fill need w h l t r b ls :
  LinesRect need w h ls -> 0 <= l -> 0 <= t -> 0 <= r -> 0 <= b ->
  RectG (need' fill need w h l t) (l + w + r) (t + h + b) (pad fill (l, t, r, b) w (joinlf ls)).
Proof.
  intros HLR Hl Ht Hr Hb. rewrite <- pad_gen_glyph.
  apply (RectG_need_ext (gneed' (glyph_fill fill) need w h l t)); [intros; apply gneed_glyph|].
  apply pad_gen_rect; auto.
  intros f Ef. destruct fill as [g|]; [|discriminate]. inversion Ef; subst. apply glyph_one_cell.
Qed.

(** non-vacuity: a two-line render padded on all sides with an SGR-wrapped blank *)
Example pad_gen_nonvacuous :
  let f := [TBg (10, 20, 30); TChar GSpace; TSgr0] in
  let ls := [[TChar GUpper; TChar GUpper]; [TChar GLower; TChar GLower]] in
  OneCell f /\ LinesRect all_cells 2 2 ls
  /\ RectG (gneed' (Some f) all_cells 2 2 2 1) 5 4 (pad_gen (Some f) (2, 1, 1, 1) 2 (joinlf ls))
  /\ length (pad_gen (Some f) (2, 1, 1, 1) 2 (joinlf ls)) = 55%nat.
Proof.
  intros f ls.
  assert (HL : LinesRect all_cells 2 2 ls).
  { assert (Hline : forall g i, 0 <= i < 2 -> LineOK 2 2 i [TChar g; TChar g]).
    { intros g i Hi. split; [repeat constructor|]. intros lm s [Hg Hp] Hcol Hs.
      exists (text_evs (row s) lm g adefault 2). split.
      - change [TChar g; TChar g] with (glyphs false g 2). rewrite exec_glyphs by exact Hg.
        rewrite Hcol, Hs. reflexivity.
      - cbn [text_evs forallb ev_inside].
        rewrite !andb_true_iff, !Z.leb_le, !Z.ltb_lt. lia. }
    constructor; try (cbn; lia); try discriminate.
    - intros i ln Hn. destruct i as [|[|i]]; cbn in Hn; inversion Hn; subst;
        [apply Hline; lia|apply Hline; cbn; lia|destruct i; discriminate].
    - intros ln [<-|[<-|[]]]; repeat constructor.
    - apply coverage_rows; [reflexivity|].
      intros i ln lm s Hn [Hg Hp] Hcol Hs c Hc.
      assert (Eg : exists g, ln = glyphs false g 2).
      { destruct i as [|[|i]]; cbn in Hn; [inversion Hn; exists GUpper; reflexivity|inversion Hn; exists GLower; reflexivity
          |destruct i; discriminate]. }
      destruct Eg as (g & ->).
      erewrite line_evs_mk by (apply exec_glyphs; exact Hg).
      rewrite Hcol. apply text_evs_covers. lia. }
  split; [apply styled_fill_one_cell; reflexivity|]. split; [exact HL|]. split; [|reflexivity].
  apply (pad_gen_rect (Some f) all_cells 2 2 2 1 1 1 ls); try lia; [|exact HL].
  intros f' Ef. inversion Ef; subst. apply styled_fill_one_cell. reflexivity.
Qed.

(** ** the excluded design: side margins cut out of one line of fill by position *)

Lemma firstn_rep_single {A} (x : A) : forall W n, (n <= W)%nat -> firstn n (rep W [x]) = rep n [x].
Proof.
  induction W as [|W IH]; intros n Hn.
  - assert (n = 0)%nat by lia. subst. reflexivity.
  - destruct n as [|n]; [reflexivity|]. cbn [rep app firstn]. rewrite IH by lia. reflexivity.
Qed.

(** for a fill that is ONE token long, slicing is repetition: the designs agree
    (why single-character fills cannot tell them apart) *)
Theorem sliced_single_is_pad x l t r b w R :
  0 <= l -> 0 <= r -> 0 <= w ->
  pad_sliced (Some [x]) (l, t, r, b) w R = pad_gen (Some [x]) (l, t, r, b) w R.
Proof.
  intros Hl Hr Hw. unfold pad_sliced, pad_gen, slicedseg, gfillseg.
  rewrite !firstn_rep_single by lia. reflexivity.
Qed.

(** for a one-column fill of TWO tokens it is wrong: the margins have the wrong number of
    cells, the padded output is not the padded box and differs from [pad_gen] *)
Theorem sliced_refuted :
  exists f d w ls,
    OneCell f /\ length f = 2%nat /\ LinesRect all_cells w 1 ls
    /\ (let '(l, t, r, b) := d in
        0 <= l /\ 0 <= t /\ 0 <= r /\ 0 <= b
        /\ RectG (gneed' (Some f) all_cells w 1 l t) (l + w + r) (t + 1 + b)
                 (pad_gen (Some f) d w (joinlf ls))
        /\ ~ RectG (gneed' (Some f) all_cells w 1 l t) (l + w + r) (t + 1 + b)
                   (pad_sliced (Some f) d w (joinlf ls)))
    /\ pad_sliced (Some f) d w (joinlf ls) <> pad_gen (Some f) d w (joinlf ls).
Proof.
  exists [TChar (GOther 101); TNul], (2, 0, 1, 0), 1, [[TChar GUpper]].
  assert (HO : OneCell [TChar (GOther 101); TNul]) by (apply styled_fill_one_cell; reflexivity).
  assert (HL : LinesRect all_cells 1 1 [[TChar GUpper]]).
  { constructor; try (cbn; lia); try discriminate.
    - intros i ln Hn. destruct i as [|i]; [|destruct i; discriminate]. inversion Hn; subst.
      split; [repeat constructor|]. intros lm s [Hg Hp] Hcol Hs.
      exists [EText (row s) lm GUpper adefault]. split.
      + cbn [exec fold_left]. rewrite step_char by exact Hg. rewrite Hcol, Hs. reflexivity.
      + cbn [forallb ev_inside]. rewrite !andb_true_iff, !Z.leb_le, !Z.ltb_lt. cbn. lia.
    - intros ln [<-|[]]; repeat constructor.
    - apply coverage_rows; [reflexivity|].
      intros i ln lm s Hn [Hg Hp] Hcol Hs c Hc.
      destruct i as [|i]; [|destruct i; discriminate]. inversion Hn; subst.
      erewrite line_evs_mk by (cbn [exec fold_left]; apply step_char; exact Hg).
      unfold covered. cbn [existsb ev_covers]. rewrite Z.eqb_refl.
      replace (col s =? c) with true by (symmetry; apply Z.eqb_eq; lia). reflexivity. }
  split; [exact HO|]. split; [reflexivity|]. split; [exact HL|]. split.
  - split; [lia|]. split; [lia|]. split; [lia|]. split; [lia|]. split.
    + apply (pad_gen_rect (Some [TChar (GOther 101); TNul]) all_cells 1 1 2 0 1 0 [[TChar GUpper]]);
        try lia; [|exact HL].
      intros f' Ef. inversion Ef; subst. exact HO.
    + intros (_ & _ & HR & _).
      pose proof (ra_col _ _ _ _ _ _ (HR 0 origin (conj eq_refl eq_refl) eq_refl eq_refl)) as Hc.
      vm_compute in Hc. discriminate.
  - vm_compute. discriminate.
Qed.
