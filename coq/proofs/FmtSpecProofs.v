(** C19 — proofs.

    Acceptance: for each render style, the implementation's acceptance condition
    ([impl_accepts], built from the regexes translated from the source) and the
    documented grammar ([doc_grammar]) have the same language over ALL strings of code
    points.  Each of these is a proof by reflection: [cequiv_check] re-checks the
    generated class table, abstracts both expressions to the class alphabet, lets the
    untrusted [explore] produce a set of derivative pairs and runs the certificate
    checker [closed] on it ([vm_compute]); [cequiv_check_sound] (lib/CRe.v, through
    [closed_sound] and [matches_lang] of lib/ReSound.v) turns [true] into the theorem.
    When the source's regexes change the language, [reflexivity] fails here.

    Interpretation: on the fields of a sentence, what the code computes denotes what the
    documentation says ([interp_agrees]). *)
From Coq Require Import List Bool Arith NArith ZArith Lia.
Import ListNotations.
From TI Require Import lib.Re lib.ReSound lib.CRe gen.Regexes model.FmtSpec.

(** * Acceptance *)

Lemma accepts_iff_grammar_block : forall s, valid_str s ->
  (clang (impl_accepts Block) s <-> clang (doc_grammar Block) s).
Proof. apply (cequiv_check_sound class_table ncls 4000). vm_compute. reflexivity. Qed.

Lemma accepts_iff_grammar_kitty : forall s, valid_str s ->
  (clang (impl_accepts Kitty) s <-> clang (doc_grammar Kitty) s).
Proof. apply (cequiv_check_sound class_table ncls 4000). vm_compute. reflexivity. Qed.

Lemma accepts_iff_grammar_iterm2 : forall s, valid_str s ->
  (clang (impl_accepts ITerm2) s <-> clang (doc_grammar ITerm2) s).
Proof. apply (cequiv_check_sound class_table ncls 4000). vm_compute. reflexivity. Qed.

Lemma accepts_iff_grammar : forall sty s, valid_str s ->
  (clang (impl_accepts sty) s <-> clang (doc_grammar sty) s).
Proof.
  intros [| |].
  - exact accepts_iff_grammar_block.
  - exact accepts_iff_grammar_kitty.
  - exact accepts_iff_grammar_iterm2.
Qed.

(** who gets "Invalid format specifier" (ValueError): exactly the strings outside the
    documented grammar with an arbitrary style part *)
Lemma main_iff_grammar : forall s, valid_str s -> (clang impl_main s <-> clang doc_main s).
Proof. apply (cequiv_check_sound class_table ncls 4000). vm_compute. reflexivity. Qed.

(** the style procedure of _get_style_format_spec alone, against the documented style
    grammars (any text, line feeds included) *)
Lemma style_iff_grammar_kitty : forall s, valid_str s ->
  (clang (style_lang KITTY_STYLE) s <-> clang doc_style_kitty s).
Proof. apply (cequiv_check_sound class_table ncls 4000). vm_compute. reflexivity. Qed.

Lemma style_iff_grammar_iterm2 : forall s, valid_str s ->
  (clang (style_lang ITERM2_STYLE) s <-> clang doc_style_iterm2 s).
Proof. apply (cequiv_check_sound class_table ncls 4000). vm_compute. reflexivity. Qed.

(** sanity of the translation: restricting the style group to "anything" changes nothing *)
Lemma format_hole_neutral : forall s, valid_str s ->
  (clang (FORMAT_SPEC_h (CNot CEmp)) s <-> clang FORMAT_SPEC s).
Proof. apply (cequiv_check_sound class_table ncls 4000). vm_compute. reflexivity. Qed.

(** acceptance implies the main grammar: a StyleError is never raised for a sentence *)
Lemma accepted_is_main : forall sty s, valid_str s ->
  clang (impl_accepts sty) s -> clang impl_main s.
Proof.
  intros sty s HV H.
  assert (E : clang (CAnd (impl_accepts sty) impl_main) s <-> clang (impl_accepts sty) s).
  { revert s HV H. destruct sty; intros s HV _;
      apply (cequiv_check_sound class_table ncls 4000); try assumption; vm_compute; reflexivity. }
  apply E in H. exact (proj2 H).
Qed.

(** _ALPHA_BG_FORMAT is "# followed by nothing or six hex digits" *)
Definition alpha_bg_doc : cre := CCat (S_ d_hash) (copt (crep 6 (S_ d_hex))).

Lemma alpha_bg_format : forall s, valid_str s ->
  (clang ALPHA_BG_FORMAT s <-> clang alpha_bg_doc s).
Proof. apply (cequiv_check_sound class_table ncls 4000). vm_compute. reflexivity. Qed.

Lemma in_ranges_spec : forall rs x, in_ranges rs x = true <->
  exists p, In p rs /\ (fst p <= x /\ x <= snd p)%N.
Proof.
  intros rs x. unfold in_ranges. rewrite existsb_exists. split.
  - intros (p & HIn & H). apply andb_true_iff in H. destruct H as [H1 H2].
    apply N.leb_le in H1. apply N.leb_le in H2. exists p. auto.
  - intros (p & HIn & H1 & H2). exists p. split; [assumption|].
    apply andb_true_iff. split; apply N.leb_le; assumption.
Qed.

(** the hand-written fullmatch used by [impl_alpha] is that language *)
Lemma alpha_bg_hand_spec : forall u, alpha_bg_hand u = true <-> clang alpha_bg_doc u.
Proof.
  intro u. unfold alpha_bg_doc, copt, S_. split.
  - destruct u as [|x r]; [discriminate|]. simpl alpha_bg_hand. intro H.
    apply andb_true_iff in H. destruct H as [Hx H]. apply N.eqb_eq in Hx. subst x.
    exists [35%N], r. split; [reflexivity|]. split.
    + exists 35%N. split; reflexivity.
    + apply orb_true_iff in H. destruct H as [H|H].
      * left. destruct r; [reflexivity | discriminate].
      * right. apply andb_true_iff in H. destruct H as [HL HF].
        destruct r as [|a [|b [|c [|d [|e [|g [|h r]]]]]]]; try discriminate.
        simpl in HF. unfold isin in HF.
        repeat (apply andb_true_iff in HF; destruct HF as [? HF]).
        simpl.
        exists [a], [b; c; d; e; g]. split; [reflexivity|]. split; [exists a; auto|].
        exists [b], [c; d; e; g]. split; [reflexivity|]. split; [exists b; auto|].
        exists [c], [d; e; g]. split; [reflexivity|]. split; [exists c; auto|].
        exists [d], [e; g]. split; [reflexivity|]. split; [exists d; auto|].
        exists [e], [g]. split; [reflexivity|]. split; [exists e; auto|].
        exists [g], []. split; [reflexivity|]. split; [exists g; auto | reflexivity].
  - intros (a & b & -> & (x & -> & Hx) & Hb).
    apply in_ranges_spec in Hx. destruct Hx as (p & HIn & H1 & H2).
    simpl in HIn. destruct HIn as [<-|[]]. simpl in H1, H2.
    assert (x = 35%N) by lia. subst x. simpl.
    destruct Hb as [->|Hb]; [reflexivity|].
    simpl in Hb.
    destruct Hb as (u1 & v1 & -> & (x1 & -> & Hx1) & Hb).
    destruct Hb as (u2 & v2 & -> & (x2 & -> & Hx2) & Hb).
    destruct Hb as (u3 & v3 & -> & (x3 & -> & Hx3) & Hb).
    destruct Hb as (u4 & v4 & -> & (x4 & -> & Hx4) & Hb).
    destruct Hb as (u5 & v5 & -> & (x5 & -> & Hx5) & Hb).
    destruct Hb as (u6 & v6 & -> & (x6 & -> & Hx6) & ->).
    simpl. unfold isin. rewrite Hx1, Hx2, Hx3, Hx4, Hx5, Hx6. reflexivity.
Qed.

(** * Interpretation *)

Lemma isin_LW : forall c, isin d_LW c = true -> c = 76%N \/ c = 87%N.
Proof.
  intros c H. apply in_ranges_spec in H. destruct H as (p & HIn & H1 & H2).
  simpl in HIn. destruct HIn as [<-|[<-|[]]]; simpl in *; [left | right]; lia.
Qed.

Lemma isin_LWA : forall c, isin d_LWA c = true -> c = 65%N \/ c = 76%N \/ c = 87%N.
Proof.
  intros c H. apply in_ranges_spec in H. destruct H as (p & HIn & H1 & H2).
  simpl in HIn. destruct HIn as [<-|[<-|[<-|[]]]]; simpl in *; [left | right; left | right; right]; lia.
Qed.

Lemma isin_bit : forall c, isin d_bit c = true -> c = 48%N \/ c = 49%N.
Proof.
  intros c H. apply in_ranges_spec in H. destruct H as (p & HIn & H1 & H2).
  simpl in HIn. destruct HIn as [<-|[]]; simpl in *. lia.
Qed.

Lemma hex_not_hash : forall x, isin d_hex x = true -> (x =? 35)%N = false /\ (x =? 46)%N = false.
Proof.
  intros x H. apply in_ranges_spec in H. destruct H as (p & HIn & H1 & H2).
  simpl in HIn. destruct HIn as [<-|[<-|[<-|[]]]]; simpl in *; split; apply N.eqb_neq; lia.
Qed.

Lemma pad_width_agrees : forall ts w, (1 <= cols ts)%Z ->
  (let w0 := if is_nil w then 0%Z else int_of w in
   if (0 <? w0)%Z then w0 else Z.max (cols ts + w0) 1) =
  (if is_nil w then cols ts else pad (cols ts) (int_of w)).
Proof.
  intros ts w H. destruct w as [|d w]; simpl.
  - lia.
  - reflexivity.
Qed.

Lemma pad_height_agrees : forall ts h, (3 <= lines ts)%Z ->
  (let h0 := if is_nil h then (-2)%Z else int_of h in
   if (0 <? h0)%Z then h0 else Z.max (lines ts + h0) 1) =
  (if is_nil h then (lines ts - 2)%Z else pad (lines ts) (int_of h)).
Proof.
  intros ts h H. destruct h as [|d h]; simpl.
  - lia.
  - reflexivity.
Qed.

Lemma alpha_agrees : forall hash thr, (hash || is_nil thr) = true -> thr_wf thr = true ->
  denote_alpha (impl_alpha hash thr) =
  (if hash then
     match thr with
     | [] => TDisabled
     | x :: r => if (x =? 46)%N then TThreshold r
                 else if (x =? 35)%N then TBgTerminal
                 else TBgColor (hex_of (x :: r))
     end
   else TDefault).
Proof.
  intros hash thr H1 H2. unfold impl_alpha. destruct hash; [|reflexivity].
  destruct thr as [|x r]; [reflexivity|]. simpl is_nil. cbv iota.
  unfold thr_wf in H2.
  destruct (x =? 46)%N eqn:E46.
  - (* threshold: "#" + ".ddd" is not a colour *)
    apply N.eqb_eq in E46. subst x.
    replace (lstrip_hash (46%N :: r)) with (46%N :: r) by reflexivity.
    assert (HB : alpha_bg_hand (35%N :: 46%N :: r) = false).
    { simpl. destruct (length r =? 5)%nat; reflexivity. }
    rewrite HB. reflexivity.
  - destruct (x =? 35)%N eqn:E35.
    + apply N.eqb_eq in E35. subst x. destruct r; [|discriminate]. reflexivity.
    + apply andb_true_iff in H2. destruct H2 as [HL HF].
      assert (HS : lstrip_hash (x :: r) = x :: r) by (simpl; rewrite E35; reflexivity).
      rewrite HS.
      assert (HB : alpha_bg_hand (35%N :: x :: r) = true).
      { change (alpha_bg_hand (35%N :: x :: r))
          with ((35 =? 35)%N && (is_nil (x :: r)
                                 || ((length (x :: r) =? 6)%nat && forallb (isin d_hex) (x :: r)))).
        rewrite HL, HF. reflexivity. }
      rewrite HB. reflexivity.
Qed.

Lemma digit_val_48 : digit_val 48%N = 0%Z.
Proof. vm_compute. reflexivity. Qed.
Lemma digit_val_49 : digit_val 49%N = 1%Z.
Proof. vm_compute. reflexivity. Qed.

Definition eff_z (sa : sargs) : Z := match a_z sa with Some z => z | None => 0%Z end.
Definition eff_mix (sa : sargs) : bool := match a_mix sa with Some b => b | None => false end.
Definition eff_comp (sa : sargs) : Z := match a_comp sa with Some c => c | None => 4%Z end.

Lemma drop_default_Z : forall d o, match drop_default Z.eqb d o with Some z => z | None => d end
                                   = match o with Some z => z | None => d end.
Proof.
  intros d [z|]; simpl; [|reflexivity]. destruct (Z.eqb z d) eqn:E; [|reflexivity].
  apply Z.eqb_eq in E. auto.
Qed.

Lemma drop_default_bool : forall d o, match drop_default Bool.eqb d o with Some z => z | None => d end
                                      = match o with Some z => z | None => d end.
Proof.
  intros d [z|]; simpl; [|reflexivity]. destruct (Bool.eqb z d) eqn:E; [|reflexivity].
  apply eqb_prop in E. auto.
Qed.

Lemma sargs_agree : forall sty sf, sfields_wf sty sf = true ->
  match impl_sargs sty sf with
  | Some sa => z_in_range (doc_z sf) = true /\ a_method sa = doc_method sf /\ eff_z sa = doc_z sf
               /\ eff_mix sa = doc_mix sf /\ eff_comp sa = doc_comp sf
  | None => z_in_range (doc_z sf) = false
  end.
Proof.
  intros sty [me z mx cp] H. unfold sfields_wf in H. simpl in H.
  apply andb_true_iff in H. destruct H as [H Hcp].
  apply andb_true_iff in H. destruct H as [H Hmx].
  apply andb_true_iff in H. destruct H as [Hme Hz].
  (* the method *)
  assert (M : match me with
              | Some c => Some (match sty with
                                | Kitty => if (c =? 76)%N then 1 else 2
                                | _ => if (c =? 76)%N then 1 else if (c =? 87)%N then 2 else 3
                                end)
              | None => None
              end = doc_method {| sf_method := me; sf_z := z; sf_mix := mx; sf_comp := cp |}).
  { unfold doc_method. simpl. destruct me as [c|]; [|reflexivity].
    destruct sty; simpl in Hme.
    - apply isin_LWA in Hme. destruct Hme as [->|[->| ->]]; reflexivity.
    - apply isin_LW in Hme. destruct Hme as [->| ->]; reflexivity.
    - apply isin_LWA in Hme. destruct Hme as [->|[->| ->]]; reflexivity. }
  (* mix *)
  assert (X : match (match mx with Some c => Some (negb (digit_val c =? 0)%Z) | None => None end)
              with Some b => b | None => false end
              = doc_mix {| sf_method := me; sf_z := z; sf_mix := mx; sf_comp := cp |}).
  { unfold doc_mix. simpl. destruct mx as [c|]; [|reflexivity].
    apply isin_bit in Hmx. destruct Hmx as [->| ->].
    - rewrite digit_val_48. reflexivity.
    - rewrite digit_val_49. reflexivity. }
  (* compress *)
  assert (C : match (match cp with Some c => Some (digit_val c) | None => None end)
              with Some c => c | None => 4%Z end
              = doc_comp {| sf_method := me; sf_z := z; sf_mix := mx; sf_comp := cp |}).
  { unfold doc_comp. simpl. destruct cp; reflexivity. }
  unfold impl_sargs. simpl sf_method. simpl sf_z. simpl sf_mix. simpl sf_comp.
  destruct z as [[neg ds]|].
  - assert (Z0 : (if neg then (- int_of ds)%Z else int_of ds)
                 = doc_z {| sf_method := me; sf_z := Some (neg, ds); sf_mix := mx; sf_comp := cp |}).
    { unfold doc_z. simpl. destruct neg; reflexivity. }
    rewrite Z0. unfold z_in_range.
    destruct ((- two31 <? doc_z _) && (doc_z _ <? two31))%Z eqn:R; [|reflexivity].
    split; [reflexivity|]. split; [exact M|].
    unfold eff_z, eff_mix, eff_comp. cbn [a_z a_mix a_comp a_method].
    split; [|split].
    + rewrite (drop_default_Z 0%Z (Some (doc_z _))). reflexivity.
    + rewrite drop_default_bool. exact X.
    + rewrite drop_default_Z. exact C.
  - split; [reflexivity|]. split; [exact M|].
    unfold eff_z, eff_mix, eff_comp. cbn [a_z a_mix a_comp a_method].
    split; [reflexivity|]. split.
    + rewrite drop_default_bool. exact X.
    + rewrite drop_default_Z. exact C.
Qed.

Definition sf_ok (sty : style) (sf : option sfields) : bool :=
  match sf with Some x => sfields_wf sty x | None => true end.

(** what the code computes from the fields of a sentence denotes the documented
    alignment, padding size, transparency and style arguments; it refuses (ValueError)
    exactly the z-indexes outside the documented range *)
Theorem interp_agrees : forall ts sty f sf,
  (1 <= cols ts)%Z -> (3 <= lines ts)%Z ->
  fields_wf f = true -> sf_ok sty sf = true ->
  match interp ts sty f sf with
  | Accepted r => doc_interp ts sty f sf = Some (denote r)
  | ValueErr => doc_interp ts sty f sf = None
  | StyleErr => False
  end.
Proof.
  intros ts sty f sf HC HL HF HS.
  destruct f as [ha w dot va h hash thr st]. unfold fields_wf in HF.
  cbn [f_halign f_width f_valign f_height f_hash f_thr] in HF.
  apply andb_true_iff in HF. destruct HF as [HF Hthr].
  apply andb_true_iff in HF. destruct HF as [HF Hhash].
  pose proof (pad_width_agrees ts w HC) as PW. pose proof (pad_height_agrees ts h HL) as PH.
  pose proof (alpha_agrees hash thr Hhash Hthr) as AL.
  cbv zeta in PW, PH.
  unfold interp, check_formatting.
  cbn [f_halign f_width f_dot f_valign f_height f_hash f_thr f_style].
  destruct sf as [sf|].
  - cbn [sf_ok] in HS. pose proof (sargs_agree sty sf HS) as SA.
    destruct (impl_sargs sty sf) as [sa|].
    + destruct SA as (R & M & Z0 & X & C). unfold doc_interp. rewrite R.
      unfold denote, doc_h, doc_pw, doc_v, doc_ph, doc_t.
      cbn [f_halign f_width f_dot f_valign f_height f_hash f_thr f_style
           r_halign r_width r_valign r_height r_alpha r_sargs].
      unfold eff_z, eff_mix, eff_comp in *.
      rewrite PW, PH, AL, M, Z0, X, C. reflexivity.
    + unfold doc_interp. rewrite SA. reflexivity.
  - unfold doc_interp, denote, doc_h, doc_pw, doc_v, doc_ph, doc_t.
    cbn [f_halign f_width f_dot f_valign f_height f_hash f_thr f_style
         r_halign r_width r_valign r_height r_alpha r_sargs no_sargs a_method a_z a_mix a_comp].
    rewrite PW, PH, AL. reflexivity.
Qed.

(** * The scanner cuts a string into its fields (nothing lost, nothing invented) *)

Lemma span_app : forall p s a b, span p s = (a, b) -> s = a ++ b.
Proof.
  intros p. induction s as [|x s IH]; intros a b H; simpl in H.
  - injection H as <- <-. reflexivity.
  - destruct (p x).
    + destruct (span p s) as [a' b'] eqn:E. injection H as <- <-.
      simpl. f_equal. apply IH. reflexivity.
    + injection H as <- <-. reflexivity.
Qed.

Lemma span_all : forall p s a b, span p s = (a, b) -> forallb p a = true.
Proof.
  intros p. induction s as [|x s IH]; intros a b H; simpl in H.
  - injection H as <- <-. reflexivity.
  - destruct (p x) eqn:E.
    + destruct (span p s) as [a' b'] eqn:E'. injection H as <- <-.
      simpl. rewrite E. apply (IH _ _ eq_refl).
    + injection H as <- <-. reflexivity.
Qed.

(** * Non-vacuity: concrete sentences, non-sentences, interpretations *)

Definition str (s : list nat) : list N := map N.of_nat s.
Definition accepts (r : cre) (s : list N) : bool :=
  match abstract class_table r with Some a => cmatches class_table a s | None => false end.

(* "<10.^5#.25+Wz-3m1c0" *)
Definition ex1 : list N :=
  [60; 49; 48; 46; 94; 53; 35; 46; 50; 53; 43; 87; 122; 45; 51; 109; 49; 99; 48]%N.

Example ex1_sentence :
  accepts (doc_grammar Kitty) ex1 = true /\ accepts (impl_accepts Kitty) ex1 = true
  /\ accepts (doc_grammar ITerm2) ex1 = false /\ accepts (doc_grammar Block) ex1 = false
  /\ accepts doc_main ex1 = true.
Proof. vm_compute. repeat split. Qed.

Example ex1_meaning :
  let ts := {| cols := 80; lines := 30 |}%Z in
  match parse ex1 with
  | Some f =>
      fields_wf f = true /\
      match f_style f with
      | Some t =>
          match parse_style Kitty t with
          | Some sf =>
              sfields_wf Kitty sf = true /\
              doc_interp ts Kitty f (Some sf) =
              Some {| m_h := HLeft; m_pw := 10; m_v := VTop; m_ph := 5;
                      m_t := TThreshold [50; 53]%N; m_method := Some 2%nat; m_z := (-3);
                      m_mix := true; m_comp := 0 |}%Z
          | None => False
          end
      | None => False
      end
  | None => False
  end.
Proof. vm_compute. repeat split. Qed.

(* "" : every field absent *)
Example empty_meaning :
  let ts := {| cols := 80; lines := 30 |}%Z in
  match parse [] with
  | Some f => doc_interp ts Block f None =
              Some {| m_h := HCenter; m_pw := 80; m_v := VMiddle; m_ph := 28; m_t := TDefault;
                      m_method := None; m_z := 0; m_mix := false; m_comp := 4 |}%Z
              /\ interp ts Block f None =
                 Accepted {| r_halign := None; r_width := 80; r_valign := None; r_height := 28;
                             r_alpha := RDefault; r_sargs := no_sargs |}%Z
  | None => False
  end.
Proof. vm_compute. split; reflexivity. Qed.

(* a bare dot is not a sentence, whatever follows: ".", ".#", ".##", ".+L" *)
Example bare_dot_not_documented :
  forallb (fun s => negb (accepts (doc_grammar Kitty) s))
          [[46]; [46; 35]; [46; 35; 35]; [46; 43; 76]]%N = true.
Proof. vm_compute. reflexivity. Qed.

(* z-index out of the documented range: a sentence of the grammar, refused by value *)
Example z_out_of_range :
  let sf := {| sf_method := None; sf_z := Some (false, [50; 49; 52; 55; 52; 56; 51; 54; 52; 56]%N);
               sf_mix := None; sf_comp := None |} in
  sfields_wf Kitty sf = true /\ impl_sargs Kitty sf = None /\ z_in_range (doc_z sf) = false.
Proof. vm_compute. repeat split. Qed.
