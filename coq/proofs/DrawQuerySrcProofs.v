(** C06: the bracket of [DrawQuery.query_terminal], checked on the skeleton translated from the
    library's source on every run ([gen/Skeletons.v]). *)
From Coq Require Import List Bool.
Import ListNotations.
From TI Require Import lib.Eff gen.Skeletons model.DrawQuerySrc.

(** [utils.query_terminal] as it is in the working tree: every transmission and every read
    happens while the terminal attributes are switched to a modified copy, every path puts them
    back as met; and there is something to bracket (a write, its drain, reads) *)
Theorem source_query_terminal_bracketed :
  bracketed 4 sk_query_terminal = true
  /\ In TtyWrite (io_ops sk_query_terminal) /\ In Drain (io_ops sk_query_terminal)
  /\ In TtyRead (io_ops sk_query_terminal).
Proof. vm_compute. repeat split; auto 10. Qed.

(** [read_tty] on its own brackets its reads too (which is what makes the variant below look
    equivalent) -- [write_tty] on its own brackets nothing *)
Example source_read_tty_bracketed : bracketed 2 sk_read_tty = true.
Proof. vm_compute. reflexivity. Qed.
Example source_write_tty_not_bracketed : bracketed 0 sk_write_tty = false.
Proof. vm_compute. reflexivity. Qed.

(** the excluded variant ("read_tty() already handles the attributes"): the request is written
    and drained before any attribute change *)
Definition sk_query_terminal_late : prog :=
  sq [ Choice Return Skip;
       Op Other;                                   (* tcflush *)
       Call sk_query_terminal__write_tty_1;
       SetVar 0 false;
       Call sk_query_terminal__read_tty_2;
       Return ].

Example late_variant_not_bracketed : bracketed 4 sk_query_terminal_late = false.
Proof. vm_compute. reflexivity. Qed.

(** ... and so is one that restores the attributes before it reads *)
Definition sk_query_terminal_early_restore : prog :=
  sq [ Op (GetAttr 0); Op (GetAttr 1); Op (MutAttr 1);
       TryFinally true (sq [ Op (SetAttr 1); Call sk_query_terminal__write_tty_1 ]) (Op (SetAttr 0));
       SetVar 0 true;                              (* read_tty(echo=True) *)
       Op (GetAttr 2); Op (GetAttr 3);
       TryFinally false (sq [ Op Select; Op TtyRead ]) (Op (SetAttr 2));
       Return ].

Example early_restore_not_bracketed : bracketed 4 sk_query_terminal_early_restore = false.
Proof. vm_compute. reflexivity. Qed.
