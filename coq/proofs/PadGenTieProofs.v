(** What a verdict 0 of [PadGenTie.gcheck] means: the case's fill satisfies the hypothesis
    of [PadGenProofs.pad_gen_rect] and the observed output is the model's output. *)
From Coq Require Import List ZArith Bool Lia.
Import ListNotations.
From TI Require Import lib.Term lib.TermFacts lib.Rect lib.RectCheck lib.Lines model.Padding model.PadTie
     model.PadGen model.PadGenTie proofs.PadGenProofs.
Open Scope Z_scope.

Theorem gcheck_zero_sound c :
  gcheck c = 0%nat ->
  (forall f, g_fill c = Some f -> OneCell f)
  /\ g_obs c = pad_gen (g_fill c) (gdims_of c) (g_w c) (g_inner c).
Proof.
  unfold gcheck. destruct (gdims_of c) as [[[l t] r] b].
  destruct (padded_size (l, t, r, b) (g_w c) (g_h c)) as [pw ph].
  match goal with |- ((if ?b then _ else _) + _)%nat = _ -> _ => destruct b eqn:E end;
    [|intros H; apply Nat.eq_add_0 in H; destruct H; discriminate].
  intros _. apply andb_true_iff in E. destruct E as [E _].
  apply andb_true_iff in E. destruct E as [Ef Et]. split.
  - intros f Hf. unfold gfill_ok in Ef. rewrite Hf in Ef. apply styled_fill_one_cell, Ef.
  - unfold toks_eqb in Et. destruct (list_eq_dec tok_dec _ _) as [Eq|]; [|discriminate].
    symmetry. exact Eq.
Qed.

(** the oracle's reference for a non-render cell, computed: a styled fill shows its glyph
    with the attributes its prefix sets; a single glyph shows itself with default attributes
    (the reference [PadTie.oracle] uses) *)
Example fill_view_glyph g r c : fill_view [TChar g] r c = VGlyph g adefault.
Proof. unfold fill_view. cbn. rewrite !Z.eqb_refl. reflexivity. Qed.
Example fill_view_styled col g r c :
  fill_view [TBg col; TChar g; TSgr0] r c = VGlyph g {| fg := None; bg := Some col |}.
Proof. unfold fill_view. cbn. rewrite !Z.eqb_refl. reflexivity. Qed.
