(** C03 — proofs about the render plan (model/GfxPlan.v): the transmitted pixel size and
    the framing branch are decided by the same effective method, and the strip geometry
    comes from a single read of the environment, so that the LINES strips tile the
    transmitted image for EVERY (set method, per-render override) pair and EVERY
    environment, constant or changing during the render. *)
From Coq Require Import List Bool Arith Lia.
Import ListNotations.
From TI Require Import gen.Consts model.KittyChunks model.GfxPlan proofs.KittyChunksProofs.

Local Open Scope nat_scope.

(* ------------------------------------------------------- method resolution *)

(** the per-render override wins; without one the method set on the instance/class; with
    neither, LINES *)
Lemma resolve_method_spec : forall set over,
  (forall m, over = Some m -> resolve_method set over = m)
  /\ (over = None -> forall m, set = Some m -> resolve_method set over = m)
  /\ (over = None -> set = None -> resolve_method set over = Lines).
Proof.
  intros set over. repeat split.
  - intros m ->. reflexivity.
  - intros -> m ->. reflexivity.
  - intros -> ->. reflexivity.
Qed.

(* -------------------------------------------------------------------- kitty *)

(** ONE effective method: the size decision and the framing decision consult the same
    method, which is the resolved one, and the transmitted size is the size OF THAT
    method for the cell size of the render's single read *)
Lemma kitty_one_method : forall set over rw rh env os,
  let p := kitty_plan set over rw rh env os in
  kp_size_method p = kp_branch_method p
  /\ kp_branch_method p = resolve_method set over
  /\ kp_size p = pixel_size (kp_branch_method p) rw rh (fst (env 0)) (snd (env 0)) os.
Proof. intros. subst p. repeat split. Qed.

(** general fact about the two decisions: the LINES strips cover the prepared image
    whenever the SIZE decision was not WHOLE *)
Lemma kitty_with_cover : forall sm bm rw rh env os, 0 < rh -> sm <> Whole ->
  let p := kitty_plan_with sm bm rw rh env os in
  snd (kp_size p) = rh * kp_strip_h p /\ kp_strip_h p = snd (env 0).
Proof.
  intros sm bm rw rh env os Hr Hs p. subst p. unfold kitty_plan_with. cbn [kp_size kp_strip_h].
  assert (E : pixel_size sm rw rh (fst (env 0)) (snd (env 0)) os
              = (rw * fst (env 0), rh * snd (env 0))) by (destruct sm; [reflexivity|congruence|reflexivity]).
  rewrite E. cbn [snd]. unfold cell_height.
  rewrite (Nat.mul_comm rh (snd (env 0))), Nat.div_mul by lia. split; [ring|reflexivity].
Qed.

(** LINES, whatever the set method, the override and the environment (constant or not):
    the image prepared is [rh] cells high for the cell height of the single read, each
    strip is that cell height, the strips sent cover exactly the rows prepared, and the
    bytes per strip times the number of strips is the whole raw image *)
Lemma kitty_lines_cover : forall set over rw rh env os bpp, 0 < rh ->
  let p := kitty_plan set over rw rh env os in
  kp_branch_method p = Lines ->
  kp_size p = (rw * fst (env 0), rh * snd (env 0))
  /\ kp_strip_h p = snd (env 0)
  /\ kp_rows_sent p rh = snd (kp_size p)
  /\ bytes_per_line (fst (kp_size p)) (snd (kp_size p)) rh bpp * rh
     = fst (kp_size p) * snd (kp_size p) * bpp.
Proof.
  intros set over rw rh env os bpp Hr p Hb.
  assert (Hm : resolve_method set over = Lines) by exact Hb.
  subst p. unfold kitty_plan in *. rewrite Hm in *.
  destruct (kitty_with_cover Lines Lines rw rh env os Hr ltac:(discriminate)) as [Hc Hs].
  unfold kp_rows_sent. rewrite Hb.
  assert (Hz : kp_size (kitty_plan_with Lines Lines rw rh env os)
               = (rw * fst (env 0), rh * snd (env 0))) by reflexivity.
  repeat split; auto.
  rewrite Hz. cbn [fst snd].
  destruct (@lines_geometry (rw * fst (env 0)) (rh * snd (env 0)) rh (snd (env 0)) bpp Hr eq_refl)
    as (_ & _ & G). exact G.
Qed.

(** ... hence the strips read from a raw image of the prepared size stitch back to it,
    each of exactly s * v * bytes-per-pixel bytes, [rh] of them *)
Lemma kitty_lines_stitch : forall (B : Type) set over rw rh env os bpp (raw : list B), 0 < rh ->
  let p := kitty_plan set over rw rh env os in
  kp_branch_method p = Lines ->
  length raw = fst (kp_size p) * snd (kp_size p) * bpp ->
  let bpl := bytes_per_line (fst (kp_size p)) (snd (kp_size p)) rh bpp in
  concat (strips raw bpl rh) = raw
  /\ Forall (fun x => length x = fst (kp_size p) * kp_strip_h p * bpp) (strips raw bpl rh)
  /\ length (strips raw bpl rh) = rh.
Proof.
  intros B set over rw rh env os bpp raw Hr p Hb Hl bpl.
  destruct (kitty_lines_cover set over rw rh env os bpp Hr Hb) as (_ & _ & _ & G).
  fold p in G. fold bpl in G.
  assert (Hl' : length raw = rh * bpl) by (rewrite Hl, <- G; ring).
  destruct (@strips_stitch B raw bpl rh Hr Hl') as (E & F & L).
  repeat split; auto.
Qed.

(** single read: the whole plan is a function of the FIRST answer of the environment *)
Lemma kitty_single_read : forall set over rw rh env env' os,
  env 0 = env' 0 ->
  kitty_plan set over rw rh env os = kitty_plan set over rw rh env' os
  /\ kp_cell_reads (kitty_plan set over rw rh env os) = 1.
Proof.
  intros set over rw rh env env' os E. unfold kitty_plan, kitty_plan_with. rewrite E. split; reflexivity.
Qed.

(** WHOLE: one transmission of the prepared image, at the source or the render
    resolution (for the single read), never more pixels than either *)
Lemma kitty_whole_size : forall set over rw rh env os,
  let p := kitty_plan set over rw rh env os in
  kp_branch_method p = Whole ->
  kp_rows_sent p rh = snd (kp_size p)
  /\ (kp_size p = os \/ kp_size p = (rw * fst (env 0), rh * snd (env 0))).
Proof.
  intros set over rw rh env os p Hb.
  assert (Hm : resolve_method set over = Whole) by exact Hb.
  subst p. unfold kitty_plan in *. rewrite Hm in *. unfold kp_rows_sent. rewrite Hb. split; [reflexivity|].
  destruct (whole_pixel_size rw rh (fst (env 0)) (snd (env 0)) os) as ([E | E] & _); [left | right]; exact E.
Qed.

(* ---- the theorems separate the code's plan from the two seeded shapes ---- *)

(** size chosen by the SET method, branch by the effective one (set WHOLE, override
    LINES, 6x7 source up-scaled to 1x3 cells of 10x20): 7 rows prepared, 3 strips of 2 *)
Example split_method_breaks_cover :
  let p := kitty_plan_with (resolve_method (Some Whole) None) (resolve_method (Some Whole) (Some Lines))
                           1 3 (const_env (10, 20)) (6, 7) in
  kp_branch_method p = Lines /\ kp_size_method p <> kp_branch_method p
  /\ snd (kp_size p) = 7 /\ kp_rows_sent p 3 = 6.
Proof. vm_compute. repeat split; discriminate. Qed.

(** the same with a 9x2 source on 4 lines: strips of ZERO rows *)
Example split_method_empty_strips :
  kp_strip_h (kitty_plan_with Whole Lines 1 4 (const_env (10, 20)) (9, 2)) = 0.
Proof. reflexivity. Qed.

(** the code's plan on the same inputs *)
Example one_method_covers :
  let p := kitty_plan (Some Whole) (Some Lines) 1 3 (const_env (10, 20)) (6, 7) in
  kp_size p = (10, 60) /\ kp_strip_h p = 20 /\ kp_rows_sent p 3 = 60.
Proof. vm_compute. repeat split. Qed.

(** strip height from a second read while the cell height went 20 -> 16 during the
    render: 4 strips of 16 rows do not cover the 80 rows prepared; with the single read
    they do, in the same changing environment *)
Example second_read_breaks_cover :
  let env := changing_env (10, 20) (8, 16) 1 in
  let p := kitty_plan None (Some Lines) 5 4 env (57, 83) in
  snd (kp_size p) = 80 /\ 4 * strip_from_read 1 env = 64 /\ kp_rows_sent p 4 = 80.
Proof. vm_compute. repeat split. Qed.

(* ------------------------------------------------------------------- iterm2 *)

Lemma iterm2_one_method : forall set over animated frame rw rh env os rff readable mc alpha,
  let m := resolve_method set over in
  let p := iterm2_plan set over animated frame rw rh env os rff readable mc alpha in
  ip_branch p = iterm2_branch m animated frame
  /\ ip_size_method p = iterm2_effective_method m animated frame
  /\ (ip_branch p <> BNative ->
      ip_size p = pixel_size (ip_size_method p) rw rh (fst (env 0)) (snd (env 0)) os)
  /\ (ip_branch p = BLines -> ip_size_method p = Lines).
Proof.
  intros. subst p. unfold iterm2_plan, iterm2_plan_with. fold m.
  destruct (iterm2_branch m animated frame) eqn:Eb; cbn; repeat split; try congruence.
  intros _. unfold iterm2_effective_method. rewrite Eb.
  unfold iterm2_branch in Eb. destruct m, animated, frame; cbn in *; congruence.
Qed.

(** LINES, whatever the set method, the override and the environment: strips of the
    cell height of the single read, covering the image prepared *)
Lemma iterm2_lines_cover : forall set over animated frame rw rh env os rff readable mc alpha, 0 < rh ->
  let p := iterm2_plan set over animated frame rw rh env os rff readable mc alpha in
  ip_branch p = BLines ->
  ip_size p = (rw * fst (env 0), rh * snd (env 0))
  /\ ip_strip_h p = snd (env 0)
  /\ rh * ip_strip_h p = snd (ip_size p)
  /\ ip_gate p = false.
Proof.
  intros set over animated frame rw rh env os rff readable mc alpha Hr p Hb.
  destruct (iterm2_one_method set over animated frame rw rh env os rff readable mc alpha)
    as (Eb & Em & Es & El). fold p in Eb, Em, Es, El.
  specialize (El Hb). assert (Hn : ip_branch p <> BNative) by congruence.
  specialize (Es Hn). rewrite El in Es. cbn in Es.
  subst p. unfold iterm2_plan, iterm2_plan_with in *.
  destruct (iterm2_branch (resolve_method set over) animated frame) eqn:Eb'; cbn in *; try discriminate.
  rewrite El in *. cbn [pixel_size] in *. unfold render_size. cbn [snd fst].
  assert (D : cell_height (rh * snd (env 0)) rh = snd (env 0)).
  { unfold cell_height. rewrite (Nat.mul_comm rh (snd (env 0))), Nat.div_mul by lia. reflexivity. }
  rewrite D. repeat split.
  unfold read_from_file_gate. cbn [method_eqb]. rewrite !andb_false_r. reflexivity.
Qed.

(** the geometry (branch, size, strip height) is a function of the FIRST read alone; at
    most one more read is made, and it can only influence whether the untouched source
    file is sent instead of a re-encoding *)
Lemma iterm2_geometry_single_read : forall set over animated frame rw rh env env' os rff readable mc alpha,
  env 0 = env' 0 ->
  let p := iterm2_plan set over animated frame rw rh env os rff readable mc alpha in
  let p' := iterm2_plan set over animated frame rw rh env' os rff readable mc alpha in
  ip_branch p = ip_branch p' /\ ip_size p = ip_size p' /\ ip_strip_h p = ip_strip_h p'
  /\ ip_cell_reads p = ip_cell_reads p' /\ ip_cell_reads p <= 2
  /\ (env 1 = env' 1 -> p = p').
Proof.
  intros set over animated frame rw rh env env' os rff readable mc alpha E p p'. subst p p'.
  unfold iterm2_plan, iterm2_plan_with. rewrite E.
  destruct (iterm2_branch (resolve_method set over) animated frame); cbn;
    repeat split; try lia;
    try (destruct (rff && negb animated && readable
                   && method_eqb (iterm2_effective_method (resolve_method set over) animated frame) Whole);
         lia);
    intros E1; rewrite E1; reflexivity.
Qed.

(** the untouched source file is only sent under the documented conditions, whichever
    environment the second read sees *)
Lemma iterm2_plan_gate : forall set over animated frame rw rh env os rff readable mc alpha,
  let p := iterm2_plan set over animated frame rw rh env os rff readable mc alpha in
  ip_branch p <> BNative -> ip_gate p = true ->
  rff = true /\ animated = false /\ readable = true /\ ip_size_method p = Whole
  /\ ip_branch p = BWhole /\ ip_cell_reads p = 2.
Proof.
  intros set over animated frame rw rh env os rff readable mc alpha p Hn Hg.
  subst p. unfold iterm2_plan, iterm2_plan_with in *.
  destruct (iterm2_branch (resolve_method set over) animated frame) eqn:Eb; cbn in *; try congruence.
  - (* BLines: the effective method is Lines, the gate is closed *)
    assert (iterm2_effective_method (resolve_method set over) animated frame = Lines).
    { unfold iterm2_effective_method. rewrite Eb. unfold iterm2_branch in Eb.
      destruct (resolve_method set over), animated, frame; cbn in *; congruence. }
    rewrite H in Hg. apply read_from_file_gate_spec in Hg. destruct Hg as (_ & _ & _ & Hw & _). discriminate.
  - destruct (@read_from_file_gate_spec _ _ _ _ _ _ _ _ Hg) as (-> & -> & -> & Hw & _).
    rewrite Hw. cbn. repeat split.
Qed.

(** iterm2 LINES with the strip height taken from a second read (cell 20 -> 16 rows
    during the render): 4 x 16 rows of the 80 prepared; the code's plan covers them *)
Example iterm2_second_read_breaks_cover :
  let env := changing_env (10, 20) (8, 16) 1 in
  let p := iterm2_plan (Some Lines) None false false 5 4 env (57, 83) true false 2 1 in
  ip_branch p = BLines /\ snd (ip_size p) = 80 /\ 4 * strip_from_read 1 env = 64
  /\ 4 * ip_strip_h p = 80 /\ ip_cell_reads p = 1.
Proof. vm_compute. repeat split. Qed.

(** non-vacuity: a WHOLE render of a readable file whose gate outcome is decided by the
    second read (render area 5*10*4*20 = 4000 >= 57*60 = 3420 > 5*8*4*16 = 2560) *)
Example iterm2_gate_second_read :
  let os := (57, 60) in
  ip_gate (iterm2_plan None (Some Whole) false false 5 4 (const_env (10, 20)) os true true 0 0) = true
  /\ ip_gate (iterm2_plan None (Some Whole) false false 5 4 (changing_env (10, 20) (8, 16) 1) os true true 0 0) = false
  /\ ip_size (iterm2_plan None (Some Whole) false false 5 4 (changing_env (10, 20) (8, 16) 1) os true true 0 0) = (57, 60).
Proof. vm_compute. repeat split. Qed.
