(** * IterFinalProofs — the finalisation ghost of [Iter] (C10)

    [gh s = {| owns; finalized; fin_calls; log |}]: [owns] = the iterator's
    [_finalize_data] flag, [finalized] = [RenderData.finalized], [fin_calls] = number of
    invocations of [_finalize_render_data_] on the iterator's render data, [log] = every
    [_render_] invocation with the value [RenderData.finalized] had when it was made.

    Everything here holds for EVERY renderable behaviour: [render] is an arbitrary
    state-passing function ([RS] = whatever the renderable remembers: call counter, fault
    schedule, stream position), so "a frame, StopIteration or an exception at any call,
    in any order" is just "any [render]".  Histories are arbitrary lists of
    [Next | Seek | SetDuration | SetPadding | SetArgs | SetSize | Close | Drop];
    proofs are by induction over the list (no bound). *)
From Coq Require Import List ZArith Bool Lia Arith.
Import ListNotations.
From TI Require Import model.Iter.
Open Scope Z_scope.

Section Final.
  Variable RS : Type.
  Variable render : RS -> Z -> whence -> size -> dur -> Z -> rres * RS.
  Variable n : option Z.
  Variable term : size.

  Notation state := (state RS).
  Notation step := (step RS render n term).
  Notation next := (next RS render n).
  Notation body := (body RS render n).
  Notation render_frame := (render_frame RS render n).
  Notation pass_end := (pass_end RS render n).
  Notation deliver := (deliver RS n).
  Notation close := (close RS).
  Notation run := (run RS render n term).
  Notation trace := (trace RS render n term).
  Notation mk := (mk RS n term).

  (** ** what an operation's outcome says *)
  Definition is_frame (x : out) : bool := match x with OFrame _ => true | _ => false end.
  (** StopIteration or an exception out of [next] *)
  Definition is_end (x : out) : bool := match x with OStop | OErr _ => true | _ => false end.

  (** the ghost after [close()] on an open iterator, lines 194-195 *)
  Definition closed_gh (g : ghost) : ghost := if owns g then data_finalize g else g.

  (** [g1] is [g] with at most one more [_render_] invocation logged, made while
      [RenderData.finalized] had the value it has in [g] *)
  Definition logged (g g1 : ghost) : Prop :=
    owns g1 = owns g /\ finalized g1 = finalized g /\ fin_calls g1 = fin_calls g /\
    (log g1 = log g \/ exists rc, log g1 = rc :: log g /\ rc_finalized rc = finalized g).

  (** the shape of every result of [next] on an open iterator: at most one render; then
      either a frame and the iterator stays open with the ghost untouched, or
      StopIteration / an exception and the iterator is closed by [close()] *)
  Definition next_shape (s : state) (r : state * out) : Prop :=
    exists g1, logged (gh s) g1 /\
      ((is_frame (snd r) = true /\ closed (fst r) = false /\ gh (fst r) = g1) \/
       (is_end (snd r) = true /\ closed (fst r) = true /\ gh (fst r) = closed_gh g1)).

  Lemma logged_refl : forall g, logged g g.
  Proof. intros g. repeat split. left. reflexivity. Qed.

  Lemma close_open : forall s, closed s = false ->
      closed (close s) = true /\ gh (close s) = closed_gh (gh s).
  Proof. intros s H. unfold Iter.close. rewrite H. split; reflexivity. Qed.

  Lemma shape_deliver : forall (s s0 : state) f,
      closed s0 = false -> logged (gh s) (gh s0) -> next_shape s (deliver s0 f).
  Proof.
    intros s s0 f Hc Hl. exists (gh s0). split; [exact Hl|]. left.
    unfold Iter.deliver. cbn. repeat split. exact Hc.
  Qed.

  Lemma shape_close : forall (s s0 : state) x,
      closed s0 = false -> logged (gh s) (gh s0) -> is_end x = true -> next_shape s (close s0, x).
  Proof.
    intros s s0 x Hc Hl Hx. exists (gh s0). split; [exact Hl|]. right.
    destruct (close_open s0 Hc) as [H1 H2]. cbn [fst snd]. repeat split; assumption.
  Qed.

  Lemma logged_log_render : forall (s s0 : state), logged (gh s) (gh s0) -> log (gh s0) = log (gh s) ->
      logged (gh s) (gh (log_render RS s0)).
  Proof.
    intros s s0 (Ho & Hf & Hc & _) Hlog. unfold log_render. cbn.
    repeat split; try assumption. right. eexists. split.
    - rewrite Hlog. reflexivity.
    - cbn. exact Hf.
  Qed.

  (** [s0]: [s] with fields other than [closed] / [gh] changed (the end-of-pass bookkeeping) *)
  Lemma shape_body : forall (s s0 : state) fno,
      closed s0 = false -> gh s0 = gh s -> next_shape s (body s0 fno).
  Proof.
    intros s s0 fno Hc Hg. unfold Iter.body.
    assert (Hl0 : logged (gh s) (gh s0)) by (rewrite Hg; apply logged_refl).
    match goal with |- context [match ?h with Some _ => _ | None => _ end] => destruct h as [f|] end.
    - apply shape_deliver; assumption.
    - unfold Iter.render_frame.
      destruct (render (rs s0) (fo (rd s0)) (wh (rd s0)) (d_size (rd s0)) (d_dur (rd s0)) (args s0))
        as [[f| |e] rs'].
      + assert (Hl : logged (gh s) (gh (log_render RS s0)))
          by (apply logged_log_render; [exact Hl0 | rewrite Hg; reflexivity]).
        destruct (cached s0); apply shape_deliver; cbn; assumption.
      + assert (Hl : logged (gh s) (gh (log_render RS s0)))
          by (apply logged_log_render; [exact Hl0 | rewrite Hg; reflexivity]).
        destruct (definite n); apply shape_close; cbn; try assumption; reflexivity.
      + assert (Hl : logged (gh s) (gh (log_render RS s0)))
          by (apply logged_log_render; [exact Hl0 | rewrite Hg; reflexivity]).
        apply shape_close; cbn; try assumption; reflexivity.
  Qed.

  Lemma shape_pass_end : forall s, closed s = false -> next_shape s (pass_end s).
  Proof.
    intros s Hc. unfold Iter.pass_end.
    match goal with |- context [if ?b =? 0 then _ else _] => destruct (b =? 0) end.
    - apply shape_close; [| |reflexivity].
      + destruct (0 <? _); cbn; exact Hc.
      + destruct (0 <? _); cbn; apply logged_refl.
    - apply shape_body; destruct (0 <? _); cbn; first [exact Hc | reflexivity].
  Qed.

  Lemma shape_next : forall s, closed s = false -> next_shape s (next s).
  Proof.
    intros s Hc. unfold Iter.next. rewrite Hc. destruct (phase s).
    - destruct (g_loop s =? 0).
      + apply shape_close; [exact Hc | apply logged_refl | reflexivity].
      + destruct (_ <? _); [apply shape_body; [exact Hc | reflexivity] | apply shape_pass_end; exact Hc].
    - destruct (_ <? _); [apply shape_body; [exact Hc | reflexivity] | apply shape_pass_end; exact Hc].
  Qed.

  (** control operations touch neither [closed] nor the ghost *)
  Lemma control_keeps : forall s o,
      match o with Next | Close | Drop => False | _ => True end ->
      closed (fst (step s o)) = closed s /\ gh (fst (step s o)) = gh s.
  Proof.
    intros s o Ho. destruct o; try contradiction; cbn.
    - unfold seek. destruct (closed s) eqn:E; [split; [exact E | reflexivity]|].
      destruct n as [k|].
      + destruct (_ && _); cbn; split; first [exact E | reflexivity].
      + destruct (_ || _); cbn; split; first [exact E | reflexivity].
    - unfold set_duration. destruct (closed s) eqn:E; [split; [exact E | reflexivity]|].
      destruct d as [|ms]; [cbn; split; [exact E | reflexivity]|].
      destruct (ms <=? 0); cbn; split; first [exact E | reflexivity].
    - unfold set_padding. destruct (closed s) eqn:E; cbn; split; first [exact E | reflexivity].
    - unfold set_render_args. destruct (closed s) eqn:E; [split; [exact E | reflexivity]|].
      destruct a; cbn; split; first [exact E | reflexivity].
    - unfold set_render_size. destruct (closed s) eqn:E; cbn; split; first [exact E | reflexivity].
  Qed.

  (** ** the invariant *)

  (** - the data is finalized iff the iterator owns it and is closed;
      - [_finalize_render_data_] ran once in that case and never otherwise;
      - every [_render_] invocation so far saw un-finalized data *)
  Definition fin_inv (s : state) : Prop :=
    finalized (gh s) = owns (gh s) && closed s /\
    fin_calls (gh s) = (if owns (gh s) && closed s then 1 else 0)%nat /\
    Forall (fun rc => rc_finalized rc = false) (log (gh s)).

  Lemma fin_inv_closed_step : forall s o, closed s = true -> fst (step s o) = s.
  Proof.
    intros s o Hc. destruct o; cbn;
      unfold Iter.next, seek, set_duration, set_padding, set_render_args, set_render_size, Iter.close;
      rewrite Hc; reflexivity.
  Qed.

  Lemma inv_logged : forall (s : state) g1, fin_inv s -> closed s = false -> logged (gh s) g1 ->
      finalized g1 = false /\ fin_calls g1 = 0%nat /\ Forall (fun rc => rc_finalized rc = false) (log g1).
  Proof.
    intros s g1 (Hf & Hn & Hl) Hc (Ho & Hf1 & Hn1 & Hlog).
    rewrite Hc, andb_false_r in Hf, Hn.
    repeat split; try congruence.
    destruct Hlog as [E | (rc & E & Hrc)]; rewrite E; [exact Hl|].
    constructor; [congruence | exact Hl].
  Qed.

  Lemma inv_closed_gh : forall g1,
      finalized g1 = false -> fin_calls g1 = 0%nat ->
      finalized (closed_gh g1) = owns (closed_gh g1) && true /\
      fin_calls (closed_gh g1) = (if owns (closed_gh g1) && true then 1 else 0)%nat /\
      log (closed_gh g1) = log g1 /\ owns (closed_gh g1) = owns g1.
  Proof.
    intros g1 Hf Hn. unfold closed_gh, data_finalize. rewrite Hf.
    destruct (owns g1) eqn:Eo; cbn; rewrite ?Eo, ?Hf, ?Hn; repeat split; reflexivity.
  Qed.

  Lemma closed_gh_owns : forall g, owns (closed_gh g) = owns g.
  Proof.
    intros g. unfold closed_gh, data_finalize. destruct (owns g) eqn:Eo; [|exact Eo].
    destruct (finalized g); cbn; congruence.
  Qed.

  Lemma closed_gh_log : forall g, log (closed_gh g) = log g.
  Proof.
    intros g. unfold closed_gh, data_finalize. destruct (owns g); [|reflexivity].
    destruct (finalized g); reflexivity.
  Qed.

  Lemma owns_step : forall s o, owns (gh (fst (step s o))) = owns (gh s).
  Proof.
    intros s o. destruct (closed s) eqn:Hc; [rewrite fin_inv_closed_step by exact Hc; reflexivity|].
    destruct o; try (apply f_equal; apply control_keeps; exact I).
    - cbn [Iter.step]. destruct (shape_next s Hc) as (g1 & (Ho & _) & [(_ & _ & E) | (_ & _ & E)]); rewrite E.
      + exact Ho.
      + rewrite closed_gh_owns. exact Ho.
    - cbn. destruct (close_open s Hc) as [_ E]. rewrite E. apply closed_gh_owns.
    - cbn. destruct (close_open s Hc) as [_ E]. rewrite E. apply closed_gh_owns.
  Qed.

  Lemma inv_close : forall s, fin_inv s -> fin_inv (close s).
  Proof.
    intros s H. destruct (closed s) eqn:Hc.
    - unfold Iter.close. rewrite Hc. exact H.
    - destruct (close_open s Hc) as [H1 H2].
      destruct (inv_logged s (gh s) H Hc (logged_refl _)) as (Hf & Hn & Hl).
      destruct (inv_closed_gh (gh s) Hf Hn) as (A & B & C & _).
      unfold fin_inv. rewrite H1, H2. repeat split; try assumption. rewrite C. exact Hl.
  Qed.

  Lemma inv_control : forall s o,
      match o with Next | Close | Drop => False | _ => True end ->
      fin_inv s -> fin_inv (fst (step s o)).
  Proof.
    intros s o Ho H. destruct (control_keeps s o Ho) as [E1 E2]. unfold fin_inv. rewrite E1, E2. exact H.
  Qed.

  Lemma inv_step : forall s o, fin_inv s -> fin_inv (fst (step s o)).
  Proof.
    intros s o H. destruct (closed s) eqn:Hc; [rewrite fin_inv_closed_step by exact Hc; exact H|].
    destruct o; try (apply inv_control; [exact I | exact H]).
    - cbn [Iter.step]. destruct (shape_next s Hc) as (g1 & Hl & [(_ & E1 & E2) | (_ & E1 & E2)]);
        destruct (inv_logged s g1 H Hc Hl) as (Hf & Hn & Hlog); unfold fin_inv; rewrite E1, E2.
      + rewrite andb_false_r. repeat split; assumption.
      + destruct (inv_closed_gh g1 Hf Hn) as (A & B & C & _). repeat split; try assumption.
        rewrite C. exact Hlog.
    - cbn. apply inv_close. exact H.
    - cbn. apply inv_close. exact H.
  Qed.

  Lemma inv_run : forall ops s, fin_inv s -> fin_inv (run s ops).
  Proof.
    induction ops as [|o ops IH]; intros s H; [exact H|].
    unfold Iter.run; cbn [fold_left]. apply IH. apply inv_step. exact H.
  Qed.

  Lemma owns_run : forall ops s, owns (gh (run s ops)) = owns (gh s).
  Proof.
    induction ops as [|o ops IH]; intros s; [reflexivity|].
    unfold Iter.run; cbn [fold_left]. fold (run (fst (step s o)) ops). rewrite IH. apply owns_step.
  Qed.

  (** a freshly constructed iterator: open, nothing finalized, nothing rendered *)
  Lemma inv_mk : forall c rs0 s, mk c rs0 = inl s ->
      fin_inv s /\ closed s = false /\ owns (gh s) = c_owns c.
  Proof.
    intros c rs0 s H. unfold Iter.mk in H.
    destruct (match n with Some k => k <? 2 | None => false end); [discriminate|].
    destruct (c_loops c =? 0); [discriminate|].
    destruct (negb _); [discriminate|].
    destruct (c_args c); [|discriminate]. injection H as <-. cbn.
    unfold fin_inv. cbn. rewrite andb_false_r. repeat split. constructor.
  Qed.

  Lemma run_app : forall ops ops' s, run s (ops ++ ops') = run (run s ops) ops'.
  Proof. intros. unfold Iter.run. apply fold_left_app. Qed.

  Lemma run_cons : forall o ops s, run s (o :: ops) = run (fst (step s o)) ops.
  Proof. reflexivity. Qed.

  (** ** theorems *)

  (** [_finalize_render_data_] runs at most once on the iterator's data, whatever happens *)
  Theorem finalize_at_most_once : forall c rs0 s ops,
      mk c rs0 = inl s -> (fin_calls (gh (run s ops)) <= 1)%nat.
  Proof.
    intros c rs0 s ops Hm. destruct (inv_mk c rs0 s Hm) as (Hi & _ & _).
    destruct (inv_run ops s Hi) as (_ & Hn & _). rewrite Hn.
    destruct (_ && _); lia.
  Qed.

  (** when the iterator is (not) closed, and what that means for the data:
      - closed and owner: finalized by exactly one call;
      - closed, caller-owned: never finalized by the iterator, zero calls;
      - open: not finalized, zero calls *)
  Theorem finalized_iff_closed : forall c rs0 s ops,
      mk c rs0 = inl s ->
      let s' := run s ops in
      owns (gh s') = c_owns c /\
      (closed s' = true -> c_owns c = true -> finalized (gh s') = true /\ fin_calls (gh s') = 1%nat) /\
      (closed s' = true -> c_owns c = false -> finalized (gh s') = false /\ fin_calls (gh s') = 0%nat) /\
      (closed s' = false -> finalized (gh s') = false /\ fin_calls (gh s') = 0%nat).
  Proof.
    intros c rs0 s ops Hm s'. destruct (inv_mk c rs0 s Hm) as (Hi & _ & Ho).
    assert (Ho' : owns (gh s') = c_owns c) by (unfold s'; rewrite owns_run; exact Ho).
    destruct (inv_run ops s Hi) as (Hf & Hn & _). fold s' in Hf, Hn. rewrite Ho' in Hf, Hn.
    split; [exact Ho'|]. repeat split; intros; try rewrite H in *; try rewrite H0 in *; cbn in *;
      try rewrite andb_false_r in *; assumption.
  Qed.

  (** the iterator is closed exactly by: StopIteration or an exception out of [next],
      [close()], [__del__] — in any state, after any history *)
  Theorem ended_iff_closed : forall s o, closed s = false ->
      (closed (fst (step s o)) = true <->
       match o with
       | Close | Drop => True
       | Next => is_end (snd (step s Next)) = true
       | _ => False
       end).
  Proof.
    intros s o Hc.
    assert (Hk : forall o', match o' with Next | Close | Drop => False | _ => True end ->
                 (closed (fst (step s o')) = true <-> False)).
    { intros o' Ho'. destruct (control_keeps s o' Ho') as [E _]. rewrite E, Hc. split; [discriminate | contradiction]. }
    destruct o; try (apply Hk; exact I).
    - cbn [Iter.step]. destruct (shape_next s Hc) as (g1 & _ & [(Hx & E & _) | (Hx & E & _)]); rewrite E.
      + split; [discriminate|]. destruct (snd (next s)); discriminate.
      + split; intros; [exact Hx | reflexivity].
    - cbn. destruct (close_open s Hc) as [E _]. rewrite E. split; trivial.
    - cbn. destruct (close_open s Hc) as [E _]. rewrite E. split; trivial.
  Qed.

  (** [next] on an open iterator returns a frame, stops or raises — nothing else *)
  Lemma next_frame_or_end : forall s, closed s = false ->
      is_frame (snd (next s)) = true \/ is_end (snd (next s)) = true.
  Proof.
    intros s Hc. destruct (shape_next s Hc) as (g1 & _ & [(Hx & _) | (Hx & _)]); [left | right]; exact Hx.
  Qed.

  (** the full statement, on histories: after a history whose last operation is a [next]
      that stopped or raised, a [close()] or a drop, the iterator is closed; the owner's
      data has been finalized by exactly one call; a caller's data by none *)
  Theorem finalized_iff_ended : forall c rs0 s ops o,
      mk c rs0 = inl s ->
      let s0 := run s ops in
      let s' := run s (ops ++ [o]) in
      match o with
      | Close | Drop => True
      | Next => is_end (snd (step s0 Next)) = true
      | _ => False
      end ->
      closed s' = true /\
      (if c_owns c then finalized (gh s') = true /\ fin_calls (gh s') = 1%nat
       else finalized (gh s') = false /\ fin_calls (gh s') = 0%nat).
  Proof.
    intros c rs0 s ops o Hm s0 s' Ho.
    assert (Hc : closed s' = true).
    { unfold s'. rewrite run_app. fold s0. rewrite run_cons. cbn [Iter.run fold_left].
      destruct (closed s0) eqn:E.
      - rewrite fin_inv_closed_step by exact E. exact E.
      - apply ended_iff_closed; assumption. }
    split; [exact Hc|].
    destruct (finalized_iff_closed c rs0 s (ops ++ [o]) Hm) as (_ & H1 & H2 & _). fold s' in H1, H2.
    destruct (c_owns c); [apply H1 | apply H2]; auto.
  Qed.

  (** ... and as long as none of those happened, nothing is finalized *)
  Theorem open_not_finalized : forall c rs0 s ops,
      mk c rs0 = inl s -> closed (run s ops) = false ->
      finalized (gh (run s ops)) = false /\ fin_calls (gh (run s ops)) = 0%nat.
  Proof.
    intros c rs0 s ops Hm Hc. destruct (finalized_iff_closed c rs0 s ops Hm) as (_ & _ & _ & H). apply H, Hc.
  Qed.

  (** no frame is ever rendered with finalized data: every [_render_] invocation of every
      history saw [RenderData.finalized = False] *)
  Theorem no_render_on_finalized : forall c rs0 s ops,
      mk c rs0 = inl s ->
      Forall (fun rc => rc_finalized rc = false) (log (gh (run s ops))).
  Proof.
    intros c rs0 s ops Hm. destruct (inv_mk c rs0 s Hm) as (Hi & _ & _).
    destruct (inv_run ops s Hi) as (_ & _ & H). exact H.
  Qed.

  (** the same as an invariant on single steps: a render event (the log grows) happens
      only on an open iterator, whose data is not finalized *)
  Theorem render_event_implies_open : forall s o,
      fin_inv s -> log (gh (fst (step s o))) <> log (gh s) ->
      closed s = false /\ finalized (gh s) = false /\ o = Next.
  Proof.
    intros s o Hi Hl. destruct (closed s) eqn:Hc.
    - exfalso. apply Hl. rewrite fin_inv_closed_step by exact Hc. reflexivity.
    - destruct (inv_logged s (gh s) Hi Hc (logged_refl _)) as (Hf & _ & _).
      repeat split; [exact Hf|].
      destruct o; try reflexivity; exfalso; apply Hl.
      + destruct (control_keeps s (Seek off w) I) as [_ E]. rewrite E. reflexivity.
      + destruct (control_keeps s (SetDuration d) I) as [_ E]. rewrite E. reflexivity.
      + destruct (control_keeps s (SetPadding p) I) as [_ E]. rewrite E. reflexivity.
      + destruct (control_keeps s (SetArgs a) I) as [_ E]. rewrite E. reflexivity.
      + destruct (control_keeps s (SetSize s0) I) as [_ E]. rewrite E. reflexivity.
      + cbn. destruct (close_open s Hc) as [_ E]. rewrite E. unfold closed_gh, data_finalize.
        destruct (owns (gh s)); [|reflexivity]. destruct (finalized (gh s)); reflexivity.
      + cbn. destruct (close_open s Hc) as [_ E]. rewrite E. unfold closed_gh, data_finalize.
        destruct (owns (gh s)); [|reflexivity]. destruct (finalized (gh s)); reflexivity.
  Qed.

  (** at most one [_render_] per [next], none for any other operation *)
  Theorem one_render_per_next : forall s o,
      (length (log (gh (fst (step s o)))) <= length (log (gh s)) + match o with Next => 1 | _ => 0 end)%nat.
  Proof.
    intros s o. destruct (closed s) eqn:Hc; [rewrite fin_inv_closed_step by exact Hc; lia|].
    assert (Hk : forall o', match o' with Next | Close | Drop => False | _ => True end ->
                 gh (fst (step s o')) = gh s) by (intros o' Ho'; apply control_keeps; exact Ho').
    destruct o; try (rewrite Hk by exact I; lia).
    - cbn [Iter.step].
      destruct (shape_next s Hc) as (g1 & (_ & _ & _ & Hl) & [(_ & _ & E) | (_ & _ & E)]); rewrite E.
      + destruct Hl as [-> | (rc & -> & _)]; cbn; lia.
      + assert (log (closed_gh g1) = log g1) as ->.
        { unfold closed_gh, data_finalize. destruct (owns g1); [|reflexivity]. destruct (finalized g1); reflexivity. }
        destruct Hl as [-> | (rc & -> & _)]; cbn; lia.
    - cbn. destruct (close_open s Hc) as [_ E]. rewrite E. unfold closed_gh, data_finalize.
      destruct (owns (gh s)); [|lia]. destruct (finalized (gh s)); cbn; lia.
    - cbn. destruct (close_open s Hc) as [_ E]. rewrite E. unfold closed_gh, data_finalize.
      destruct (owns (gh s)); [|lia]. destruct (finalized (gh s)); cbn; lia.
  Qed.

  (** once closed: [next] stops, [close] / drop do nothing, every control operation raises
      FinalizedIteratorError; the WHOLE state (ghost included) is unchanged — for every
      continuation of the history *)
  Definition closed_out (o : op) : out :=
    match o with Next => OStop | Close | Drop => OOk | _ => OErr EFinalized end.

  Lemma closed_step : forall s o, closed s = true -> step s o = (s, closed_out o).
  Proof.
    intros s o Hc. destruct o; cbn;
      unfold Iter.next, seek, set_duration, set_padding, set_render_args, set_render_size, Iter.close;
      rewrite Hc; reflexivity.
  Qed.

  Theorem after_end_next_stops_ops_raise : forall s ops,
      closed s = true ->
      run s ops = s /\ trace s ops = map (fun o => (closed_out o, pub_loop s)) ops.
  Proof.
    intros s ops Hc. induction ops as [|o ops [IH1 IH2]]; [split; reflexivity|].
    split.
    - rewrite run_cons, closed_step by exact Hc. cbn [fst]. exact IH1.
    - cbn [Iter.trace map]. rewrite closed_step by exact Hc. rewrite IH2. reflexivity.
  Qed.

  (** ... in particular after every way of ending *)
  Theorem after_end_history : forall c rs0 s ops o ops',
      mk c rs0 = inl s ->
      match o with
      | Close | Drop => True
      | Next => is_end (snd (step (run s ops) Next)) = true
      | _ => False
      end ->
      let s' := run s (ops ++ [o]) in
      run s (ops ++ [o] ++ ops') = s' /\
      trace s' ops' = map (fun o => (closed_out o, pub_loop s')) ops'.
  Proof.
    intros c rs0 s ops o ops' Hm Ho s'.
    destruct (finalized_iff_ended c rs0 s ops o Hm Ho) as [Hc _]. fold s' in Hc.
    destruct (after_end_next_stops_ops_raise s' ops' Hc) as [H1 H2].
    split; [|exact H2]. rewrite app_assoc, run_app. exact H1.
  Qed.

  (** [close()] is idempotent (on the whole state), [RenderData.finalize()] likewise *)
  Theorem close_idempotent : forall s, close (close s) = close s.
  Proof.
    intros s. destruct (closed s) eqn:Hc.
    - unfold Iter.close. rewrite Hc. rewrite Hc. reflexivity.
    - destruct (close_open s Hc) as [H _]. unfold Iter.close at 1. rewrite H. reflexivity.
  Qed.

  Theorem finalize_idempotent : forall g,
      data_finalize (data_finalize g) = data_finalize g /\
      finalized (data_finalize g) = true /\
      (fin_calls (data_finalize g) <= S (fin_calls g))%nat /\
      (finalized g = true -> data_finalize g = g).
  Proof.
    intros g. unfold data_finalize. destruct (finalized g) eqn:E; cbn; rewrite ?E; repeat split; auto; discriminate.
  Qed.

  (** closing twice (in any mixture of [close()] and [__del__]) calls
      [_finalize_render_data_] no more often than closing once *)
  Theorem close_twice_one_finalize : forall s o1 o2,
      (o1 = Close \/ o1 = Drop) -> (o2 = Close \/ o2 = Drop) ->
      fst (step (fst (step s o1)) o2) = fst (step s o1).
  Proof.
    intros s o1 o2 [-> | ->] [-> | ->]; cbn; apply close_idempotent.
  Qed.
End Final.
