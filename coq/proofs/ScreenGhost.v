(** C18 — no ghost image: over the model of urwid's row cache ([model/ScreenUrwid.v]) and the
    placement-level terminal ([model/Screen.v] §5), after every redraw of every sequence of
    view sets (and clear()s) the terminal's placements are exactly those of the view set
    just drawn. *)
From Coq Require Import List ZArith Bool Lia Arith.
Import ListNotations.
From TI Require Import lib.Term model.Screen model.ScreenUrwid.

Local Arguments Nat.eqb : simpl never.
Local Arguments Z.eqb : simpl never.
Local Arguments Nat.modulo : simpl never.

(** *** decidable equalities *)

Lemma plc_eqb_eq : forall a b, plc_eqb a b = true <-> a = b.
Proof.
  intros [r c w h z] [r' c' w' h' z']. unfold plc_eqb. simpl.
  repeat rewrite andb_true_iff. repeat rewrite Z.eqb_eq. split.
  - intros [[[[? ?] ?] ?] ?]. subst. reflexivity.
  - intro E. inversion E. tauto.
Qed.

Lemma plc_eq_dec : forall a b : plc, {a = b} + {a <> b}.
Proof. decide equality; apply Z.eq_dec. Qed.

Lemma wkind_eqb_eq : forall a b, wkind_eqb a b = true -> a = b.
Proof. intros [x| |] [y| |]; simpl; intro E; try discriminate; try reflexivity. apply Z.eqb_eq in E. now subst. Qed.

Lemma canv_eqb_eq : forall a b, canv_eqb a b = true -> a = b.
Proof.
  intros [i k] [i' k']. unfold canv_eqb. simpl. rewrite andb_true_iff, Nat.eqb_eq. intros [-> E].
  f_equal. destruct k as [|w x], k' as [|w' x']; simpl in E; try discriminate; [reflexivity|].
  apply andb_true_iff in E. destruct E as [E1 E2]. apply Nat.eqb_eq in E1. apply wkind_eqb_eq in E2. now subst.
Qed.

Lemma view_eqb_eq : forall a b, view_eqb a b = true -> a = b.
Proof.
  intros [c r cl tl tt cs rs] [c' r' cl' tl' tt' cs' rs']. unfold view_eqb. simpl.
  repeat rewrite andb_true_iff. repeat rewrite Nat.eqb_eq. intros [[[[[[E ?] ?] ?] ?] ?] ?].
  apply canv_eqb_eq in E. subst. reflexivity.
Qed.

Lemma view_mem_In : forall v l, view_mem v l = true -> In v l.
Proof.
  unfold view_mem. intros v l E. apply existsb_exists in E. destruct E as [x [Hx E]].
  apply view_eqb_eq in E. now subst.
Qed.

Lemma view_eqb_refl : forall a, view_eqb a a = true.
Proof.
  intros [[i k] r cl tl tt cs rs]. unfold view_eqb, canv_eqb. simpl. repeat rewrite Nat.eqb_refl.
  repeat rewrite andb_true_r. destruct k as [|w [z| |]]; simpl; try rewrite Nat.eqb_refl; try rewrite Z.eqb_refl; reflexivity.
Qed.

Lemma In_view_mem : forall v l, In v l -> view_mem v l = true.
Proof. unfold view_mem. intros v l Hin. apply existsb_exists. exists v. split; [exact Hin|apply view_eqb_refl]. Qed.

Lemma item_eqb_eq : forall a b, item_eqb a b = true -> a = b.
Proof.
  intros [p k d] [p' k' d']. unfold item_eqb. simpl. repeat rewrite andb_true_iff.
  intros [[E1 E2] E3]. apply plc_eqb_eq in E1. apply Bool.eqb_prop in E2. apply Nat.eqb_eq in E3. now subst.
Qed.

Lemma items_eqb_eq : forall a b, items_eqb a b = true -> a = b.
Proof.
  induction a as [|x a IH]; destruct b as [|y b]; simpl; intro E; try discriminate; [reflexivity|].
  apply andb_true_iff in E. destruct E as [E1 E2]. apply item_eqb_eq in E1. f_equal; auto.
Qed.

Lemma row_eqb_items : forall a b, row_eqb a b = true -> snd a = snd b.
Proof. intros a b E. unfold row_eqb in E. apply andb_true_iff in E. apply items_eqb_eq. tauto. Qed.

Lemma bump_ne : forall s, (s + 1) mod 3 <> s.
Proof.
  intros s E. assert (B : (s + 1) mod 3 < 3) by (apply Nat.mod_upper_bound; lia).
  destruct s as [|[|[|s]]]; try (vm_compute in E; discriminate). lia.
Qed.

(** *** the terminal *)

Lemma pexec_app : forall k t a b, pexec k t (a ++ b) = pexec k (pexec k t a) b.
Proof. intros. unfold pexec. apply fold_left_app. Qed.

Section Ghost.

Variable H : nat.
Variable konsole : bool.
Variable lines : view -> list (Z * Z * Z).
(** the image kind of a widget never changes *)
Variable kittyw : nat -> bool.

Notation view_plcs := (view_plcs lines).
Notation plcs_of := (plcs_of lines).
Notation items_of := (items_of lines).
Notation row_items := (row_items lines).
Notation render_row := (render_row lines).
Notation item_toks := (item_toks konsole).
Notation urwid_draw := (urwid_draw H konsole).
Notation step := (step H konsole true lines).
Notation run := (run H konsole true lines).
Notation ys := (ys H).

(** effect of one image line on the placements *)
Definition item_apply (it : item) (T : list plc) : list plc :=
  i_plc it :: (if i_kitty it && negb konsole
               then filter (fun p => negb (covers p (p_r (i_plc it)) (p_c (i_plc it)))) T else T).

(** an item as the model produces them: one row high; an iTerm2 line only on Konsole, z = 0 *)
Definition item_ok (it : item) : Prop :=
  p_h (i_plc it) = 1%Z /\ (i_kitty it = false -> konsole = true /\ p_z (i_plc it) = 0%Z).

Lemma item_toks_exec : forall it t, item_ok it ->
  t_plcs (pexec konsole t (item_toks it)) = item_apply it (t_plcs t)
  /\ t_sync (pexec konsole t (item_toks it)) = t_sync t.
Proof.
  intros [[r c w h z] k d] t [Hh Hi]. simpl in Hh, Hi. subst h. unfold item_toks, item_apply. simpl.
  destruct k; simpl.
  - destruct konsole; simpl; split; reflexivity.
  - destruct (Hi eq_refl) as [-> ->]. simpl. split; reflexivity.
Qed.

Lemma items_exec : forall L t, Forall item_ok L ->
  t_plcs (pexec konsole t (flat_map item_toks L)) = fold_left (fun T it => item_apply it T) L (t_plcs t)
  /\ t_sync (pexec konsole t (flat_map item_toks L)) = t_sync t.
Proof.
  induction L as [|it L IH]; intros t Hok; [split; reflexivity|].
  inversion Hok as [|? ? Hit HL]; subst.
  change (flat_map item_toks (it :: L)) with (item_toks it ++ flat_map item_toks L). rewrite pexec_app.
  destruct (item_toks_exec it t Hit) as [E1 E2].
  destruct (IH (pexec konsole t (item_toks it)) HL) as [E3 E4].
  rewrite E3, E4, E1, E2. split; reflexivity.
Qed.

(** the image lines written by a redraw, in order *)
Definition resent_items (old : option (Z -> row)) (new : Z -> row) (l : list Z) : list item :=
  flat_map (fun y => if resend old new y then snd (new y) else []) l.

Lemma draw_exec : forall old new l t,
  (forall y, In y l -> Forall item_ok (snd (new y))) ->
  t_plcs (pexec konsole t (flat_map (fun y => if resend old new y
                                             then KCup y 0 :: flat_map item_toks (snd (new y)) else []) l))
  = fold_left (fun T it => item_apply it T) (resent_items old new l) (t_plcs t)
  /\ t_sync (pexec konsole t (flat_map (fun y => if resend old new y
                                             then KCup y 0 :: flat_map item_toks (snd (new y)) else []) l))
     = t_sync t.
Proof.
  induction l as [|y l IH]; intros t Hok; [split; reflexivity|].
  simpl flat_map. unfold resent_items. simpl flat_map. rewrite pexec_app, fold_left_app.
  assert (Hl : forall y0, In y0 l -> Forall item_ok (snd (new y0))) by (intros; apply Hok; now right).
  destruct (resend old new y).
  - change (KCup y 0 :: flat_map item_toks (snd (new y))) with ([KCup y 0] ++ flat_map item_toks (snd (new y))).
    rewrite pexec_app.
    destruct (items_exec (snd (new y)) (pexec konsole t [KCup y 0]) (Hok y (or_introl eq_refl))) as [E1 E2].
    destruct (IH (pexec konsole (pexec konsole t [KCup y 0]) (flat_map item_toks (snd (new y)))) Hl) as [E3 E4].
    rewrite E3, E4, E1, E2. split; reflexivity.
  - simpl. apply IH. exact Hl.
Qed.

(** F1: nothing appears that was not there or written *)
Lemma fold_apply_sub : forall L T p,
  In p (fold_left (fun T it => item_apply it T) L T) -> In p T \/ In p (map i_plc L).
Proof.
  induction L as [|it L IH]; simpl; intros T p Hin; [now left|].
  apply IH in Hin. destruct Hin as [Hin|Hin]; [|right; now right].
  unfold item_apply in Hin. destruct Hin as [<-|Hin]; [right; now left|].
  left. destruct (i_kitty it && negb konsole); [apply filter_In in Hin; tauto|exact Hin].
Qed.

(** F3: a placement stays unless a delete-at-cursor hits it *)
Lemma fold_apply_keep : forall L T p, In p T ->
  (forall it, In it L -> covers p (p_r (i_plc it)) (p_c (i_plc it)) = false) ->
  In p (fold_left (fun T it => item_apply it T) L T).
Proof.
  induction L as [|it L IH]; simpl; intros T p Hin Hc; [exact Hin|].
  apply IH; [|intros; apply Hc; now right].
  unfold item_apply. right. destruct (i_kitty it && negb konsole); [|exact Hin].
  apply filter_In. split; [exact Hin|]. rewrite (Hc it (or_introl eq_refl)). reflexivity.
Qed.

(** F2: a written line is there at the end, when the other lines do not overlap it *)
Lemma fold_apply_placed : forall L T p, In p (map i_plc L) ->
  (forall it, In it L -> i_plc it <> p -> covers p (p_r (i_plc it)) (p_c (i_plc it)) = false) ->
  In p (fold_left (fun T it => item_apply it T) L T).
Proof.
  induction L as [|it L IH]; simpl; intros T p Hin Hc; [tauto|].
  destruct (in_dec plc_eq_dec p (map i_plc L)) as [Hl|Hl].
  - apply IH; [exact Hl|]. intros; apply Hc; [now right|assumption].
  - destruct Hin as [E|Hin]; [|tauto]. apply fold_apply_keep.
    + unfold item_apply. left. exact E.
    + intros it' Hit'. apply Hc; [now right|]. intro E'. apply Hl. apply in_map_iff. exists it'. tauto.
Qed.

(** *** deletes *)

Lemma delz_exec : forall zs t,
  (forall p, In p (t_plcs (pexec konsole t (map (fun z => KDel (DelZ z)) zs)))
             <-> In p (t_plcs t) /\ ~ In (p_z p) zs)
  /\ t_sync (pexec konsole t (map (fun z => KDel (DelZ z)) zs)) = t_sync t.
Proof.
  induction zs as [|z zs IH]; intros t.
  - simpl. split; [intro p; tauto|reflexivity].
  - change (pexec konsole t (map (fun z => KDel (DelZ z)) (z :: zs)))
      with (pexec konsole (pstep konsole t (KDel (DelZ z))) (map (fun z => KDel (DelZ z)) zs)).
    destruct (IH (pstep konsole t (KDel (DelZ z)))) as [E1 E2]. split; [|rewrite E2; reflexivity].
    intro p. rewrite E1. simpl. rewrite filter_In, negb_true_iff, Z.eqb_neq. intuition.
Qed.

(** *** the bookkeeping *)

Lemma wdis_get_bump_same : forall w l, wdis_get w (wdis_bump w l) = (wdis_get w l + 1) mod 3.
Proof. intros. unfold wdis_bump. simpl. rewrite Nat.eqb_refl. reflexivity. Qed.

Lemma wdis_get_filter_other : forall w w' l, w <> w' ->
  wdis_get w (filter (fun e => negb (Nat.eqb (fst e) w')) l) = wdis_get w l.
Proof.
  induction l as [|[a n] l IH]; simpl; intro Hne; [reflexivity|].
  destruct (Nat.eqb a w') eqn:E; simpl.
  - apply Nat.eqb_eq in E. subst. destruct (Nat.eqb w' w) eqn:E2; [apply Nat.eqb_eq in E2; lia|]. auto.
  - destruct (Nat.eqb a w); auto.
Qed.

Lemma wdis_get_bump_other : forall w w' l, w <> w' -> wdis_get w (wdis_bump w' l) = wdis_get w l.
Proof.
  intros. unfold wdis_bump. simpl. destruct (Nat.eqb w' w) eqn:E; [apply Nat.eqb_eq in E; lia|].
  apply wdis_get_filter_other. exact H0.
Qed.

Lemma wdis_fold_bump : forall (ks : list (nat * wkind)) l w, NoDup (map fst ks) ->
  wdis_get w (fold_left (fun l x => wdis_bump (fst x) l) ks l)
  = if in_dec Nat.eq_dec w (map fst ks) then (wdis_get w l + 1) mod 3 else wdis_get w l.
Proof.
  induction ks as [|[a k] ks IH]; simpl; intros l w Hnd; [reflexivity|].
  inversion Hnd as [|? ? Hni Hnd']; subst. rewrite IH by exact Hnd'.
  destruct (Nat.eq_dec a w) as [->|Hne].
  - destruct (in_dec Nat.eq_dec w (map fst ks)) as [Hin|_]; [tauto|]. apply wdis_get_bump_same.
  - rewrite wdis_get_bump_other by auto.
    destruct (in_dec Nat.eq_dec w (map fst ks)); reflexivity.
Qed.

Lemma dedup_w_In : forall ws x, In x (dedup_w ws) -> In x ws.
Proof.
  induction ws as [|w ws IH]; simpl; intros x Hin; [tauto|].
  destruct (existsb (fun y => Nat.eqb (fst y) (fst w)) ws); [right; auto|].
  destruct Hin as [<-|Hin]; [now left|right; auto].
Qed.

Lemma dedup_w_fst : forall ws a, In a (map fst ws) <-> In a (map fst (dedup_w ws)).
Proof.
  induction ws as [|w ws IH]; simpl; intro a; [tauto|].
  destruct (existsb (fun y => Nat.eqb (fst y) (fst w)) ws) eqn:E.
  - rewrite <- IH. split; [|tauto]. intros [<-|Hin]; [|exact Hin].
    apply existsb_exists in E. destruct E as [y [Hy E]]. apply Nat.eqb_eq in E. rewrite <- E.
    apply in_map. exact Hy.
  - simpl. rewrite <- IH. tauto.
Qed.

Lemma dedup_w_nodup : forall ws, NoDup (map fst (dedup_w ws)).
Proof.
  induction ws as [|w ws IH]; simpl; [constructor|].
  destruct (existsb (fun y => Nat.eqb (fst y) (fst w)) ws) eqn:E; [exact IH|].
  simpl. constructor; [|exact IH]. intro Hin. apply dedup_w_fst in Hin.
  apply in_map_iff in Hin. destruct Hin as [y [Hy1 Hy2]].
  assert (existsb (fun y => Nat.eqb (fst y) (fst w)) ws = true).
  { apply existsb_exists. exists y. split; [exact Hy2|]. apply Nat.eqb_eq. exact Hy1. }
  congruence.
Qed.

(** *** well-formed redraws *)

(** what the proof needs of the views on screen before ([prev]) and after ([V]) a redraw;
    all of it is guaranteed by the rest of the library and by urwid (see props/C18.v) *)
Record wf_redraw (prev V : list view) : Prop := {
  (* every tracked view belongs to an image canvas of a kitty widget, or of an iTerm2
     widget on Konsole (the walk's filter, :659-663) *)
  wf_tracked : forall v, In v (prev ++ V) -> tracked konsole (v_canv v) = true;
  (* a widget's kind is fixed *)
  wf_kind : forall v, In v (prev ++ V) -> is_kitty (v_kind v) = kittyw (v_wid v);
  (* live kitty widgets hold distinct non-zero z-indexes ([z_distinct_in_range]) *)
  wf_z : forall v1 v2, In v1 (prev ++ V) -> In v2 (prev ++ V) ->
         is_kitty (v_kind v1) = true -> is_kitty (v_kind v2) = true ->
         (v_wid v1 = v_wid v2 <-> kind_z (v_kind v1) = kind_z (v_kind v2));
  wf_znz : forall v, In v (prev ++ V) -> is_kitty (v_kind v) = true -> kind_z (v_kind v) <> 0%Z;
  (* the image lines of the new canvas lie on the screen and do not overlap *)
  wf_rows : forall p, In p (plcs_of V) -> In (p_r p) ys;
  wf_disj : forall p q, In p (plcs_of V) -> In q (plcs_of V) -> p <> q -> covers p (p_r q) (p_c q) = false
}.

Lemma tracked_kind : forall v, tracked konsole (v_canv v) = true ->
  is_kitty (v_kind v) = true \/ (is_kitty (v_kind v) = false /\ v_kind v = WIterm /\ konsole = true).
Proof.
  intros v. unfold tracked, v_kind. destruct (ci_kind (v_canv v)) as [|w [z| |]]; simpl; intro E; try discriminate.
  - now left.
  - right. auto.
Qed.

Lemma view_items_ok : forall s v, tracked konsole (v_canv v) = true -> Forall item_ok (view_items lines s v).
Proof.
  intros s v Ht. unfold view_items, ScreenUrwid.view_plcs. rewrite map_map. apply Forall_forall. intros it Hin.
  apply in_map_iff in Hin. destruct Hin as [l [<- _]]. unfold item_ok. simpl. split; [reflexivity|].
  intro Hk. destruct (tracked_kind v Ht) as [Hy|[_ [Hi Hc]]]; [congruence|]. rewrite Hi. simpl. auto.
Qed.

Lemma items_of_ok : forall s V, (forall v, In v V -> tracked konsole (v_canv v) = true) -> Forall item_ok (items_of s V).
Proof.
  intros s V Ht. unfold ScreenUrwid.items_of. apply Forall_forall. intros it Hin.
  apply in_flat_map in Hin. destruct Hin as [v [Hv Hit]].
  pose proof (view_items_ok s v (Ht v Hv)) as F. rewrite Forall_forall in F. auto.
Qed.

Lemma In_items_of : forall s V it, In it (items_of s V) <->
  exists v, In v V /\ In (i_plc it) (view_plcs v) /\ i_kitty it = is_kitty (v_kind v) /\ i_dis it = dsum s (v_wid v).
Proof.
  intros s V it. unfold ScreenUrwid.items_of. rewrite in_flat_map. split.
  - intros [v [Hv Hit]]. exists v. split; [exact Hv|]. unfold view_items in Hit.
    apply in_map_iff in Hit. destruct Hit as [p [<- Hp]]. simpl. auto.
  - intros [v [Hv [Hp [Hk Hd]]]]. exists v. split; [exact Hv|]. unfold view_items.
    apply in_map_iff. exists (i_plc it). split; [|exact Hp]. destruct it as [p k d]. simpl in *. subst. reflexivity.
Qed.

Lemma In_plcs_of : forall V p, In p (plcs_of V) <-> exists v, In v V /\ In p (view_plcs v).
Proof. intros. unfold ScreenUrwid.plcs_of. apply in_flat_map. Qed.

Lemma view_plcs_z : forall v p, In p (view_plcs v) -> p_z p = kind_z (v_kind v) /\ p_h p = 1%Z.
Proof.
  intros v p Hin. unfold ScreenUrwid.view_plcs in Hin. apply in_map_iff in Hin. destruct Hin as [l [<- _]]. simpl. auto.
Qed.

(** the placements of the image lines of the rows that are written *)
Lemma resent_items_In : forall old new l it,
  In it (resent_items old new l) <-> exists y, In y l /\ resend old new y = true /\ In it (snd (new y)).
Proof.
  intros. unfold resent_items. rewrite in_flat_map. split.
  - intros [y [Hy Hit]]. exists y. destruct (resend old new y); [auto|destruct Hit].
  - intros [y [Hy [Hr Hit]]]. exists y. rewrite Hr. auto.
Qed.

(** *** disguise arithmetic: the disguise has three states *)

Definition bump1 (x : nat) : nat := (x + 1) mod 3.

Lemma iter_bump_lt3 : forall n x, x < 3 -> Nat.iter n bump1 x < 3.
Proof. destruct n; simpl; intros x Hx; [exact Hx|]. unfold bump1. apply Nat.mod_upper_bound. lia. Qed.

Lemma iter_swap : forall n x, Nat.iter n bump1 (bump1 x) = bump1 (Nat.iter n bump1 x).
Proof. induction n; simpl; intro x; [reflexivity|]. rewrite IHn. reflexivity. Qed.

Lemma iter_plus : forall a b x, Nat.iter (a + b) bump1 x = Nat.iter a bump1 (Nat.iter b bump1 x).
Proof. induction a; simpl; intros b x; [reflexivity|]. rewrite IHa. reflexivity. Qed.

(** one or two changes of the canvas' and/or the widget's disguise change the number of
    "\b " on the line; three may restore it *)
Lemma sum_changes : forall c s a b, c < 3 -> s < 3 -> 0 < a + b -> a + b <= 2 ->
  Nat.iter a bump1 c + Nat.iter b bump1 s <> c + s.
Proof.
  intros c s a b Hc Hs Hp Hle E.
  destruct c as [|[|[|c]]]; try lia; destruct s as [|[|[|s]]]; try lia;
    destruct a as [|[|[|a]]]; try lia; destruct b as [|[|[|b]]]; try lia; vm_compute in E; discriminate.
Qed.

Definition cnt (w : nat) (ks : list (nat * wkind)) : nat := length (filter (fun x => Nat.eqb (fst x) w) ks).

Lemma wdis_fold_bump_cnt : forall (ks : list (nat * wkind)) l w,
  wdis_get w (fold_left (fun l x => wdis_bump (fst x) l) ks l) = Nat.iter (cnt w ks) bump1 (wdis_get w l).
Proof.
  induction ks as [|[a k] ks IH]; intros l w; [reflexivity|].
  simpl fold_left. rewrite IH. unfold cnt. simpl filter. simpl fst.
  destruct (Nat.eqb a w) eqn:E.
  - apply Nat.eqb_eq in E. subst a. rewrite wdis_get_bump_same. simpl length.
    change ((wdis_get w l + 1) mod 3) with (bump1 (wdis_get w l)). rewrite iter_swap. reflexivity.
  - apply Nat.eqb_neq in E. rewrite wdis_get_bump_other by auto. reflexivity.
Qed.

Lemma cnt_get_inc_same : forall w l, wdis_get w (cnt_inc w l) = S (wdis_get w l).
Proof. intros. unfold cnt_inc. simpl. rewrite Nat.eqb_refl. reflexivity. Qed.

Lemma cnt_get_inc_other : forall w w' l, w <> w' -> wdis_get w (cnt_inc w' l) = wdis_get w l.
Proof.
  intros w w' l Hne. unfold cnt_inc. simpl. destruct (Nat.eqb w' w) eqn:E; [apply Nat.eqb_eq in E; lia|].
  apply wdis_get_filter_other. exact Hne.
Qed.

Lemma cnt_fold_inc : forall (ks : list (nat * wkind)) l w,
  wdis_get w (fold_left (fun l x => cnt_inc (fst x) l) ks l) = wdis_get w l + cnt w ks.
Proof.
  induction ks as [|[a k] ks IH]; intros l w; [simpl; unfold cnt; simpl; lia|].
  simpl fold_left. rewrite IH. unfold cnt. simpl filter. simpl fst.
  destruct (Nat.eqb a w) eqn:E.
  - apply Nat.eqb_eq in E. subst a. rewrite cnt_get_inc_same. simpl length. lia.
  - apply Nat.eqb_neq in E. rewrite cnt_get_inc_other by auto. reflexivity.
Qed.

Lemma cnt_pos_In : forall w (ks : list (nat * wkind)), 0 < cnt w ks <-> In w (map fst ks).
Proof.
  intros w ks. unfold cnt. induction ks as [|[a k] ks IH]; simpl; [split; [lia|tauto]|].
  destruct (Nat.eqb a w) eqn:E; simpl.
  - apply Nat.eqb_eq in E. split; [auto|lia].
  - apply Nat.eqb_neq in E. rewrite IH. tauto.
Qed.

(** *** delete commands that do not depend on the cursor *)

Definition bigdel (x : stok) : bool := match x with KDel DelAll | KDel (DelZ _) => true | _ => false end.
Definition survives (q : list stok) (p : plc) : bool :=
  forallb (fun x => match x with KDel DelAll => false | KDel (DelZ z) => negb (Z.eqb (p_z p) z) | _ => true end) q.

Lemma bigdels_exec : forall q t, forallb bigdel q = true ->
  forall p, In p (t_plcs (pexec konsole t q)) <-> In p (t_plcs t) /\ survives q p = true.
Proof.
  induction q as [|x q IH]; intros t Hq p; [simpl; tauto|].
  simpl in Hq. apply andb_true_iff in Hq. destruct Hq as [Hx Hq].
  change (pexec konsole t (x :: q)) with (pexec konsole (pstep konsole t x) q).
  rewrite (IH _ Hq). simpl survives.
  destruct x; try discriminate. destruct d; try discriminate; simpl.
  - split; [tauto|]. intros [_ F]. discriminate.
  - rewrite filter_In, andb_true_iff. tauto.
Qed.

Lemma survives_app : forall a b p, survives (a ++ b) p = survives a p && survives b p.
Proof. intros. unfold survives. apply forallb_app. Qed.

Lemma survives_delz : forall zs p, survives (map (fun z => KDel (DelZ z)) zs) p = true <-> ~ In (p_z p) zs.
Proof.
  induction zs as [|z zs IH]; intro p; simpl; [tauto|].
  rewrite andb_true_iff, negb_true_iff, Z.eqb_neq, IH. intuition.
Qed.

Lemma bigdel_map_delz : forall zs, forallb bigdel (map (fun z => KDel (DelZ z)) zs) = true.
Proof. induction zs; simpl; auto. Qed.

(** *** the invariant *)

Definition same_plcs (a b : list plc) : Prop := forall p, In p a <-> In p b.

Notation flushed := (flushed konsole).

Definition lt3 (s : scr) : Prop := s_cdis s < 3 /\ forall wd, wdis_get wd (s_wdis s) < 3.

Definition good (w : world) : Prop :=
  let prev := s_prev (w_scr w) in
  (* widgets that are not kitty widgets never change their disguise *)
  (forall wd, kittyw wd = false ->
     wdis_get wd (s_wdis (w_scr w)) = 0 /\ wdis_get wd (w_nw w) = 0 /\ wdis_get wd (s_wdis (w_bs w)) = 0)
  /\ lt3 (w_bs w)
  (* the ghost counters count the disguise changes since the screen buffer was written *)
  /\ s_cdis (w_scr w) = Nat.iter (w_nall w) bump1 (s_cdis (w_bs w))
  /\ (forall wd, wdis_get wd (s_wdis (w_scr w))
                = Nat.iter (wdis_get wd (w_nw w)) bump1 (wdis_get wd (s_wdis (w_bs w))))
  /\ forallb bigdel (w_queue w) = true
  (* nothing on the terminal but image lines of the previous canvas *)
  /\ (forall p, In p (t_plcs (flushed w)) -> In p (plcs_of prev))
  /\ match w_sb w with
     | None => True
     | Some sb =>
       (* the screen buffer is the previous canvas as written; an image line of it is on the
          terminal unless something that changes its disguise deleted it *)
       (exists base, forall y, sb y = render_row (w_bs w) prev base y)
       /\ (forall v p, In v prev -> In p (view_plcs v) ->
             In p (t_plcs (flushed w)) \/ 0 < w_nall w
             \/ (is_kitty (v_kind v) = true /\ 0 < wdis_get (v_wid v) (w_nw w)))
     end.

Lemma good_init : good world_init.
Proof.
  unfold good, world_init, lt3. simpl. repeat split; auto; try lia.
Qed.

(** the three shapes of [update_views] *)
Inductive upd_case (prev V : list view) (s : scr) : list stok -> scr -> Prop :=
| UNone : filter (fun v => negb (view_mem v V)) prev = [] -> clears_all V s = false ->
          upd_case prev V s [] (mk_scr V (s_cdis s) (s_wdis s) (s_canv s))
| UAll : (exists v, In v prev /\ ~ In v V /\ is_kitty (v_kind v) = false) -> clears_all V s = true ->
         upd_case prev V s [KDel DelAll] (mk_scr V ((s_cdis s + 1) mod 3) (s_wdis s) (s_canv s))
| UZ : forall ks,
    (forall v, In v prev -> ~ In v V -> is_kitty (v_kind v) = true) ->
    NoDup (map fst ks) ->
    (forall x, In x ks -> is_kitty (snd x) = true /\ exists v, In v prev /\ ~ In v V /\ x = (v_wid v, v_kind v)) ->
    (forall v, In v prev -> ~ In v V -> In (v_wid v) (map fst ks)) ->
    clears_all V s = false ->
    upd_case prev V s (map (fun z => KDel (DelZ z)) (map (fun x => kind_z (snd x)) ks))
             (mk_scr V (s_cdis s) (fold_left (fun l x => wdis_bump (fst x) l) ks (s_wdis s)) (s_canv s)).

Lemma filter_all : forall (A : Type) (f : A -> bool) l, (forall x, In x l -> f x = true) -> filter f l = l.
Proof. induction l as [|x l IH]; simpl; intro Hf; [reflexivity|]. rewrite (Hf x (or_introl eq_refl)). f_equal. auto. Qed.

Lemma update_views_cases : forall V s,
  upd_case (s_prev s) V s (fst (update_views true V s)) (snd (update_views true V s)).
Proof.
  intros V s. unfold update_views.
  set (diff := filter (fun v => negb (view_mem v V)) (s_prev s)).
  assert (Hdiff : forall v, In v diff <-> In v (s_prev s) /\ ~ In v V).
  { intro v. unfold diff. rewrite filter_In, negb_true_iff. split; intros [H1 H2]; split; auto.
    - intro Hin. apply In_view_mem in Hin. congruence.
    - destruct (view_mem v V) eqn:E; [|reflexivity]. apply view_mem_In in E. tauto. }
  destruct (existsb (fun v => negb (is_kitty (v_kind v))) diff) eqn:Eex.
  - simpl. apply UAll; [|exact Eex]. apply existsb_exists in Eex. destruct Eex as [v [Hv Hk]].
    apply Hdiff in Hv. exists v. apply negb_true_iff in Hk. tauto.
  - assert (Hallk : forall v, In v diff -> is_kitty (v_kind v) = true).
    { intros v Hv. destruct (is_kitty (v_kind v)) eqn:E; [reflexivity|]. exfalso.
      assert (existsb (fun v => negb (is_kitty (v_kind v))) diff = true).
      { apply existsb_exists. exists v. rewrite E. auto. } congruence. }
    destruct diff as [|v0 diff'] eqn:Ed.
    + simpl. apply UNone; [exact Ed|]. unfold clears_all, vanished.
      change (filter (fun v => negb (view_mem v V)) (s_prev s)) with diff. rewrite Ed. reflexivity.
    + cbv beta iota. rewrite <- Ed in *. unfold clear_images_widgets. cbv beta iota.
      set (ws := dedup_w (map (fun v => (v_wid v, v_kind v)) diff)).
      assert (Hws : forall x, In x ws -> exists v, In v diff /\ x = (v_wid v, v_kind v)).
      { intros x Hx. unfold ws in Hx. apply dedup_w_In in Hx. apply in_map_iff in Hx.
        destruct Hx as [v [<- Hv]]. exists v. auto. }
      assert (Hf : filter (fun w => is_kitty (snd w)) ws = ws).
      { apply filter_all. intros x Hx. destruct (Hws x Hx) as [v [Hv ->]]. simpl. auto. }
      rewrite Hf. cbn [fst snd s_cdis s_wdis s_canv s_prev].
      replace (map (fun w : nat * wkind => KDel (DelZ (kind_z (snd w)))) ws)
        with (map (fun z => KDel (DelZ z)) (map (fun x : nat * wkind => kind_z (snd x)) ws)) by apply map_map.
      apply UZ.
      * intros v H1 H2. apply Hallk. apply Hdiff. auto.
      * apply dedup_w_nodup.
      * intros x Hx. destruct (Hws x Hx) as [v [Hv ->]]. simpl. split; [auto|].
        exists v. apply Hdiff in Hv. tauto.
      * intros v H1 H2. unfold ws. apply (proj1 (dedup_w_fst _ _)). rewrite map_map. simpl.
        apply in_map_iff. exists v. split; [reflexivity|]. apply Hdiff. auto.
      * exact Eex.
Qed.

Lemma In_ys_filter : forall s V y it, In it (row_items s V y) <-> In it (items_of s V) /\ p_r (i_plc it) = y.
Proof. intros. unfold ScreenUrwid.row_items. rewrite filter_In, Z.eqb_eq. tauto. Qed.


Lemma In_vanished : forall V s v, In v (vanished V s) <-> In v (s_prev s) /\ ~ In v V.
Proof.
  intros V s v. unfold vanished. rewrite filter_In, negb_true_iff. split; intros [H1 H2]; split; auto.
  - intro Hin. apply In_view_mem in Hin. congruence.
  - destruct (view_mem v V) eqn:E; [|reflexivity]. apply view_mem_In in E. tauto.
Qed.

(** the arguments of a public clear_images(widgets...) call: live widgets, consistent with
    the views on screen *)
Record wf_api (prev : list view) (ws : list (nat * wkind)) : Prop := {
  wa_kind : forall x, In x ws -> is_kitty (snd x) = kittyw (fst x);
  wa_znz : forall x, In x ws -> is_kitty (snd x) = true -> kind_z (snd x) <> 0%Z;
  wa_z : forall x v, In x ws -> In v prev -> is_kitty (snd x) = true -> is_kitty (v_kind v) = true ->
         (v_wid v = fst x <-> kind_z (v_kind v) = kind_z (snd x));
  wa_tracked : forall v, In v prev -> tracked konsole (v_canv v) = true
}.

(** *** a redraw re-establishes the invariant *)

(** at most two disguise changes hit an image line between two writes of its row (the
    disguise has three states: a third change may bring the line's bytes back) *)
Definition count_ok (w : world) (V : list view) : Prop :=
  w_sb w <> None -> forall v, In v V -> redraw_nall V w + redraw_nw V w (v_wid v) <= 2.

Lemma step_redraw_good : forall w V base,
  good w -> wf_redraw (s_prev (w_scr w)) V -> count_ok w V ->
  good (step w (ORedraw V base))
  /\ s_prev (w_scr (step w (ORedraw V base))) = V
  /\ w_queue (step w (ORedraw V base)) = []
  /\ same_plcs (t_plcs (w_term (step w (ORedraw V base)))) (plcs_of V).
Proof.
  intros [s sb t q bs nall nw] V base G Hwf Hcnt.
  unfold good in G. cbn [w_scr w_sb w_term w_queue w_bs w_nall w_nw] in G.
  destruct G as [Gnk [Glt [Gc [Gw [Gq [Gsub Gsb]]]]]].
  cbn [w_scr] in Hwf. destruct Hwf as [Wt Wk Wz Wnz Wr Wd].
  unfold count_ok in Hcnt. cbn [w_sb] in Hcnt.
  unfold ScreenUrwid.step. cbn [w_scr w_sb w_term w_queue w_bs w_nall w_nw].
  pose proof (update_views_cases V s) as Hc.
  set (dels := fst (update_views true V s)) in *.
  set (s1 := snd (update_views true V s)) in *.
  assert (Hprev1 : s_prev s1 = V) by (inversion Hc; reflexivity).
  set (new := render_row s1 V base).
  set (tq := pexec konsole t q).
  set (t0 := pexec konsole tq [KSyncB]).
  set (t1 := pexec konsole t0 dels).
  assert (Hnewok : forall y, In y ys -> Forall item_ok (snd (new y))).
  { intros y _. unfold new, ScreenUrwid.render_row, ScreenUrwid.row_items. simpl.
    apply Forall_forall. intros it Hit. apply filter_In in Hit. destruct Hit as [Hit _].
    pose proof (items_of_ok s1 V) as F. rewrite Forall_forall in F. apply F; [|exact Hit].
    intros v Hv. apply Wt. apply in_or_app. now right. }
  assert (Hterm : t_plcs (pexec konsole t (q ++ [KSyncB] ++ dels ++ urwid_draw sb new ++ [KSyncE]))
                  = fold_left (fun T it => item_apply it T) (resent_items sb new ys) (t_plcs t1)).
  { rewrite pexec_app. fold tq. rewrite pexec_app. fold t0. rewrite pexec_app. fold t1. rewrite pexec_app.
    unfold ScreenUrwid.urwid_draw. destruct (draw_exec sb new ys t1 Hnewok) as [E1 _].
    simpl. exact E1. }
  assert (Ht0 : t_plcs t0 = t_plcs tq) by reflexivity.
  (* the ghost view of this redraw's own disguise changes *)
  set (a := redraw_nall V (mk_world s sb t q bs nall nw)).
  set (b := redraw_nw V (mk_world s sb t q bs nall nw)).
  assert (Hlt1 : lt3 s1 /\ s_cdis s1 = Nat.iter a bump1 (s_cdis bs)
                 /\ (forall wd, wdis_get wd (s_wdis s1) = Nat.iter (b wd) bump1 (wdis_get wd (s_wdis bs)))
                 /\ (forall wd, kittyw wd = false -> b wd = 0)).
  { destruct Glt as [Glc Glw].
    assert (Hcd : s_cdis s1 = Nat.iter a bump1 (s_cdis bs)).
    { unfold a, redraw_nall. cbn [w_scr w_nall].
      inversion Hc as [Hd Hca E1 E2|Hd Hca E1 E2|ks Hallk Hnd Hks Hcov Hca E1 E2]; rewrite Hca; simpl; rewrite Gc; reflexivity. }
    assert (Hwd : forall wd, wdis_get wd (s_wdis s1) = Nat.iter (b wd) bump1 (wdis_get wd (s_wdis bs))).
    { intro wd. unfold b, redraw_nw. cbn [w_scr w_nw].
      inversion Hc as [Hd Hca E1 E2|Hd Hca E1 E2|ks Hallk Hnd Hks Hcov Hca E1 E2]; rewrite Hca; simpl.
      - unfold vanished. rewrite Hd. simpl. rewrite Nat.add_0_r. apply Gw.
      - rewrite Nat.add_0_r. apply Gw.
      - rewrite wdis_fold_bump by exact Hnd. rewrite Gw.
        destruct (in_dec Nat.eq_dec wd (map fst ks)) as [Hin|Hni].
        + assert (Hex : existsb (fun v => Nat.eqb (v_wid v) wd) (vanished V s) = true).
          { apply in_map_iff in Hin. destruct Hin as [x [Hx1 Hx2]].
            destruct (Hks x Hx2) as [_ [v [Hv1 [Hv2 ->]]]]. simpl in Hx1.
            apply existsb_exists. exists v. split; [apply In_vanished; auto|apply Nat.eqb_eq; exact Hx1]. }
          rewrite Hex. replace (wdis_get wd nw + 1) with (S (wdis_get wd nw)) by lia. reflexivity.
        + assert (Hex : existsb (fun v => Nat.eqb (v_wid v) wd) (vanished V s) = false).
          { destruct (existsb (fun v => Nat.eqb (v_wid v) wd) (vanished V s)) eqn:E; [|reflexivity].
            exfalso. apply Hni. apply existsb_exists in E. destruct E as [v [Hv E]].
            apply Nat.eqb_eq in E. subst wd. apply In_vanished in Hv. apply Hcov; tauto. }
          rewrite Hex. rewrite Nat.add_0_r. reflexivity. }
    split; [|split; [exact Hcd|split; [exact Hwd|]]].
    - split; [rewrite Hcd; apply iter_bump_lt3; exact Glc|intro wd; rewrite Hwd; apply iter_bump_lt3; apply Glw].
    - intros wd Hk. destruct (Gnk wd Hk) as [_ [N0 B0]].
      unfold b, redraw_nw. cbn [w_scr w_nw]. rewrite N0.
      destruct (negb (clears_all V s) && existsb (fun v => Nat.eqb (v_wid v) wd) (vanished V s)) eqn:E; [|reflexivity].
      exfalso. apply andb_true_iff in E. destruct E as [E1 E2]. apply negb_true_iff in E1.
      apply existsb_exists in E2. destruct E2 as [v [Hv E2]]. apply Nat.eqb_eq in E2. subst wd.
      assert (Hkv : is_kitty (v_kind v) = true).
      { destruct (is_kitty (v_kind v)) eqn:Ek; [reflexivity|]. exfalso.
        assert (clears_all V s = true).
        { unfold clears_all. apply existsb_exists. exists v. rewrite Ek. auto. } congruence. }
      apply In_vanished in Hv. rewrite (Wk v) in Hkv by (apply in_or_app; tauto). congruence. }
  destruct Hlt1 as [Hlt1 [Hcd1 [Hwd1 Hnk1]]].
  (* what the deletes of this redraw leave *)
  assert (Htq : forall p, In p (t_plcs tq) -> exists v, In v (s_prev s) /\ In p (view_plcs v)).
  { intros p Hp. apply In_plcs_of. apply Gsub. exact Hp. }
  assert (Hmain : same_plcs (fold_left (fun T it => item_apply it T) (resent_items sb new ys) (t_plcs t1)) (plcs_of V)).
  { intro p. split.
    - (* nothing else is on the terminal *)
      intro Hin. apply fold_apply_sub in Hin. destruct Hin as [Hin|Hin].
      + unfold t1 in Hin.
        inversion Hc as [Hd Hca E1 E2|Hd Hca E1 E2|ks Hallk Hnd Hks Hcov Hca E1 E2].
        * rewrite <- E1 in Hin. change (In p (t_plcs tq)) in Hin.
          destruct (Htq p Hin) as [v [Hv Hpv]]. apply In_plcs_of. exists v. split; [|exact Hpv].
          destruct (view_mem v V) eqn:Em; [apply view_mem_In; exact Em|].
          exfalso. assert (Hf : In v (filter (fun v => negb (view_mem v V)) (s_prev s))).
          { apply filter_In. rewrite Em. auto. } rewrite Hd in Hf. destruct Hf.
        * rewrite <- E1 in Hin. simpl in Hin. destruct Hin.
        * rewrite <- E1 in Hin.
          destruct (delz_exec (map (fun x => kind_z (snd x)) ks) t0) as [Ez _].
          apply Ez in Hin. destruct Hin as [Hin Hnz]. rewrite Ht0 in Hin.
          destruct (Htq p Hin) as [v [Hv Hpv]]. apply In_plcs_of. exists v. split; [|exact Hpv].
          destruct (view_mem v V) eqn:Em; [apply view_mem_In; exact Em|].
          exfalso. assert (Hnv : ~ In v V) by (intro Hi; apply In_view_mem in Hi; congruence).
          apply Hnz. specialize (Hcov v Hv Hnv). apply in_map_iff in Hcov.
          destruct Hcov as [x [Hx1 Hx2]]. apply in_map_iff. exists x. split; [|exact Hx2].
          destruct (Hks x Hx2) as [Hkx [v2 [Hv2 [Hnv2 ->]]]]. simpl in *.
          destruct (view_plcs_z v p Hpv) as [-> _]. symmetry.
          apply (Wz v v2); try (apply in_or_app; now left); auto.
      + apply in_map_iff in Hin. destruct Hin as [it [<- Hit]].
        apply resent_items_In in Hit. destruct Hit as [y [Hy [_ Hit]]].
        unfold new, ScreenUrwid.render_row in Hit. simpl in Hit. apply In_ys_filter in Hit.
        destruct Hit as [Hit _]. apply In_items_of in Hit. destruct Hit as [v [Hv [Hp _]]].
        apply In_plcs_of. exists v. auto.
    - (* every image line of the canvas is on the terminal *)
      intro Hp. pose proof (Wr p Hp) as Hy.
      apply In_plcs_of in Hp as Hp'. destruct Hp' as [v' [Hv' Hpv']].
      set (it := mk_item p (is_kitty (v_kind v')) (dsum s1 (v_wid v'))).
      assert (Hit : In it (snd (new (p_r p)))).
      { unfold new, ScreenUrwid.render_row. simpl. apply In_ys_filter. split; [|reflexivity].
        apply In_items_of. exists v'. simpl. auto. }
      destruct (resend sb new (p_r p)) eqn:Er.
      + apply fold_apply_placed.
        * apply in_map_iff. exists it. split; [reflexivity|]. apply resent_items_In. exists (p_r p). auto.
        * intros it' Hit' Hne. apply resent_items_In in Hit'. destruct Hit' as [y [_ [_ Hit']]].
          unfold new, ScreenUrwid.render_row in Hit'. simpl in Hit'. apply In_ys_filter in Hit'.
          destruct Hit' as [Hit' _]. apply In_items_of in Hit'. destruct Hit' as [v2 [Hv2 [Hp2 _]]].
          apply Wd; [exact Hp| |congruence]. apply In_plcs_of. exists v2. auto.
      + (* its row is not written: the bytes are those of the screen buffer, so no disguise
           change hit the line, so nothing deleted it *)
        pose proof Er as Er0.
        destruct sb as [sbf|]; [|discriminate]. simpl in Er. apply negb_false_iff in Er.
        apply row_eqb_items in Er. destruct Gsb as [[base0 Hrows] Hon].
        rewrite Hrows in Er. unfold ScreenUrwid.render_row in Er. simpl in Er.
        assert (Hold : In it (row_items bs (s_prev s) (p_r p))).
        { rewrite Er. unfold new, ScreenUrwid.render_row in Hit. exact Hit. }
        apply In_ys_filter in Hold. destruct Hold as [Hold _]. apply In_items_of in Hold.
        destruct Hold as [v [Hv [Hpv [Hkv Hdv]]]]. simpl in Hpv, Hkv, Hdv.
        assert (Hzv : kind_z (v_kind v) = kind_z (v_kind v')).
        { destruct (view_plcs_z v p Hpv) as [<- _]. destruct (view_plcs_z v' p Hpv') as [E _]. exact E. }
        assert (HIv : In v (s_prev s ++ V)) by (apply in_or_app; now left).
        assert (HIv' : In v' (s_prev s ++ V)) by (apply in_or_app; now right).
        specialize (Hcnt ltac:(discriminate) v' Hv'). fold a in Hcnt. fold b in Hcnt.
        destruct Glt as [Glc Glw].
        (* no change at all *)
        assert (Hzero : a = 0 /\ b (v_wid v') = 0 /\ (is_kitty (v_kind v') = true -> v_wid v = v_wid v')).
        { unfold dsum in Hdv. rewrite Hcd1, Hwd1 in Hdv.
          destruct (is_kitty (v_kind v')) eqn:Ek.
          - assert (Ew : v_wid v = v_wid v') by (apply (Wz v v'); auto; congruence).
            rewrite Ew in Hdv.
            destruct (Nat.eq_dec (a + b (v_wid v')) 0) as [E0|Hne]; [split; [lia|split; [lia|auto]]|].
            exfalso. revert Hdv. apply sum_changes; auto; lia.
          - assert (Kv : kittyw (v_wid v) = false) by (rewrite <- (Wk v HIv); congruence).
            assert (Kv' : kittyw (v_wid v') = false) by (rewrite <- (Wk v' HIv'); exact Ek).
            destruct (Gnk _ Kv) as [_ [_ B0]]. destruct (Gnk _ Kv') as [_ [N0' B0']].
            rewrite B0, B0' in Hdv.
            assert (Hb0 : b (v_wid v') = 0) by (apply Hnk1; exact Kv').
            rewrite Hb0 in Hdv. simpl in Hdv.
            destruct (Nat.eq_dec a 0) as [E0|Hne]; [split; [exact E0|split; [exact Hb0|discriminate]]|].
            exfalso. rewrite Hb0 in Hcnt.
            assert (S0 : Nat.iter a bump1 (s_cdis bs) + Nat.iter 0 bump1 0 <> s_cdis bs + 0).
            { apply sum_changes; auto; lia. }
            simpl in S0. lia. }
        destruct Hzero as [Ha [Hb Hwid]].
        assert (Hnall : nall = 0 /\ clears_all V s = false).
        { unfold a, redraw_nall in Ha. cbn [w_scr w_nall] in Ha.
          destruct (clears_all V s); [discriminate|]. auto. }
        destruct Hnall as [Hn0 Hca].
        assert (Hin0 : In p (t_plcs tq)).
        { destruct (Hon v p Hv Hpv) as [Hf|[Hf|[Hk Hf]]].
          - exact Hf.
          - cbn [w_nall] in Hf. lia.
          - cbn [w_nw] in Hf. exfalso. rewrite <- Hkv in Hk. simpl in Hk.
            specialize (Hwid Hk). unfold b, redraw_nw in Hb. cbn [w_nw] in Hb. rewrite <- Hwid in Hb. lia. }
        assert (Hin1 : In p (t_plcs t1)).
        { unfold t1. inversion Hc as [Hd Hca' E1 E2|Hd Hca' E1 E2|ks Hallk Hnd Hks Hcov Hca' E1 E2].
          - exact Hin0.
          - congruence.
          - destruct (delz_exec (map (fun x => kind_z (snd x)) ks) t0) as [Ez _].
            apply Ez. rewrite Ht0. split; [exact Hin0|].
            intro Hz. apply in_map_iff in Hz. destruct Hz as [x [Hx1 Hx2]].
            destruct (Hks x Hx2) as [Hkx [v2 [Hv2 [Hnv2 ->]]]]. simpl in Hx1, Hkx.
            destruct (view_plcs_z v' p Hpv') as [Ezp _]. rewrite Ezp in Hx1.
            assert (HIv2 : In v2 (s_prev s ++ V)) by (apply in_or_app; now left).
            destruct (is_kitty (v_kind v')) eqn:Ek.
            + assert (Ew2 : v_wid v2 = v_wid v') by (apply (Wz v2 v'); auto).
              unfold b, redraw_nw in Hb. cbn [w_scr w_nw] in Hb. rewrite Hca in Hb. simpl in Hb.
              assert (Hex : existsb (fun v => Nat.eqb (v_wid v) (v_wid v')) (vanished V s) = true).
              { apply existsb_exists. exists v2. split; [apply In_vanished; auto|apply Nat.eqb_eq; exact Ew2]. }
              rewrite Hex in Hb. lia.
            + destruct (tracked_kind v' (Wt v' HIv')) as [Hy'|[_ [Hi' _]]]; [congruence|].
              rewrite Hi' in Hx1. simpl in Hx1. apply (Wnz v2 HIv2 Hkx). exact Hx1. }
        apply fold_apply_keep; [exact Hin1|].
        intros it' Hit'. apply resent_items_In in Hit'. destruct Hit' as [y [_ [Hry Hit']]].
        unfold new, ScreenUrwid.render_row in Hit'. simpl in Hit'. apply In_ys_filter in Hit'.
        destruct Hit' as [Hit' Hrow']. apply In_items_of in Hit'. destruct Hit' as [v2 [Hv2 [Hp2 _]]].
        destruct (plc_eq_dec (i_plc it') p) as [Ep|Hnp].
        * exfalso. rewrite Ep in Hrow'. subst y. congruence.
        * apply Wd; [exact Hp| |congruence]. apply In_plcs_of. exists v2. auto. }
  rewrite <- Hterm in Hmain.
  split; [|split; [exact Hprev1|split; [reflexivity|exact Hmain]]].
  unfold good. cbn [w_scr w_sb w_term w_queue w_bs w_nall w_nw].
  split; [|split; [exact Hlt1|split; [reflexivity|split; [intro; reflexivity|split; [reflexivity|split]]]]].
  - intros wd Hk. destruct (Gnk wd Hk) as [_ [_ B0]].
    assert (Z1 : wdis_get wd (s_wdis s1) = 0) by (rewrite Hwd1, (Hnk1 wd Hk), B0; reflexivity).
    split; [exact Z1|split; [reflexivity|exact Z1]].
  - intros p Hp. rewrite Hprev1. apply Hmain. unfold ScreenUrwid.flushed in Hp. simpl in Hp. exact Hp.
  - split; [exists base; intro y; rewrite Hprev1; reflexivity|].
    intros v p Hv Hpv. left. unfold ScreenUrwid.flushed. simpl. apply Hmain. rewrite Hprev1 in Hv.
    apply In_plcs_of. exists v. auto.
Qed.

(** clear(): the delete-all is queued, the whole screen will be written again *)
Lemma step_clear_good : forall w, good w ->
  good (step w OClear) /\ t_plcs (flushed (step w OClear)) = [].
Proof.
  intros [s sb t q bs nall nw] G. unfold good in G. cbn [w_scr w_sb w_term w_queue w_bs w_nall w_nw] in G.
  destruct G as [Gnk [Glt [Gc [Gw [Gq [Gsub Gsb]]]]]].
  unfold ScreenUrwid.step, clear_stream, clear_images_all. cbn [fst snd w_scr w_queue w_term w_nall w_nw w_bs].
  assert (Hq : forallb bigdel (q ++ [KDel DelAll]) = true) by (rewrite forallb_app, Gq; reflexivity).
  assert (He : t_plcs (pexec konsole t (q ++ [KDel DelAll])) = []) by (rewrite pexec_app; reflexivity).
  split; [|exact He].
  unfold good. cbn [w_scr w_sb w_term w_queue w_bs w_nall w_nw s_prev s_cdis s_wdis].
  repeat split; auto.
  - apply Gnk; assumption.
  - apply Gnk; assumption.
  - apply Gnk; assumption.
  - apply Glt.
  - apply Glt.
  - simpl. rewrite Gc. reflexivity.
  - intros p Hp. unfold ScreenUrwid.flushed in Hp. cbn [w_term w_queue] in Hp. rewrite He in Hp. destruct Hp.
Qed.

(** the public clear_images() *)
Lemma step_api_good : forall w ws now, good w -> wf_api (s_prev (w_scr w)) ws -> good (step w (OApi ws now)).
Proof.
  intros [s sb t q bs nall nw] ws now G Ha. unfold good in G.
  cbn [w_scr w_sb w_term w_queue w_bs w_nall w_nw] in G, Ha.
  destruct G as [Gnk [Glt [Gc [Gw [Gq [Gsub Gsb]]]]]]. destruct Ha as [Ak Anz Az At].
  unfold ScreenUrwid.step, api_clear_images. cbn [w_scr w_sb w_term w_queue w_bs w_nall w_nw].
  destruct ws as [|x0 ws0].
  - (* everything *)
    unfold clear_images_all. cbn [fst snd].
    assert (Hfl : t_plcs (pexec konsole (pexec konsole t (fst (if now then ([KDel DelAll], @nil stok) else ([], [KDel DelAll]))))
                                (q ++ snd (if now then ([KDel DelAll], @nil stok) else ([], [KDel DelAll])))) = []).
    { destruct now; simpl fst; simpl snd.
      - rewrite app_nil_r. destruct (t_plcs (pexec konsole (pexec konsole t [KDel DelAll]) q)) as [|p0 l] eqn:E; [reflexivity|].
        exfalso. assert (Hin : In p0 (t_plcs (pexec konsole (pexec konsole t [KDel DelAll]) q))) by (rewrite E; now left).
        apply (bigdels_exec q _ Gq) in Hin. destruct Hin as [Hin _]. destruct Hin.
      - rewrite pexec_app. reflexivity. }
    unfold good. cbn [w_scr w_sb w_term w_queue w_bs w_nall w_nw].
    destruct now; cbn [fst snd s_prev s_cdis s_wdis] in *.
    + repeat split; auto; try (apply Gnk; assumption); try apply Glt.
      * rewrite Gc. reflexivity.
      * rewrite app_nil_r. exact Gq.
      * intros p Hp. unfold ScreenUrwid.flushed in Hp. cbn [w_term w_queue] in Hp. rewrite Hfl in Hp. destruct Hp.
      * destruct sb as [sbf|]; [|exact I]. destruct Gsb as [Hb _]. split; [exact Hb|].
        intros v p Hv Hpv. right. left. cbn [w_nall]. lia.
    + repeat split; auto; try (apply Gnk; assumption); try apply Glt.
      * rewrite Gc. reflexivity.
      * rewrite forallb_app, Gq. reflexivity.
      * intros p Hp. unfold ScreenUrwid.flushed in Hp. cbn [w_term w_queue] in Hp.
        rewrite Hfl in Hp. destruct Hp.
      * destruct sb as [sbf|]; [|exact I]. destruct Gsb as [Hb _]. split; [exact Hb|].
        intros v p Hv Hpv. right. left. cbn [w_nall]. lia.
  - (* the kitty widgets among the arguments *)
    set (ws := x0 :: ws0) in *. unfold clear_images_widgets.
    set (ks := filter (fun w => is_kitty (snd w)) ws).
    set (dz := map (fun w : nat * wkind => KDel (DelZ (kind_z (snd w)))) ks).
    assert (Hdz : dz = map (fun z => KDel (DelZ z)) (map (fun x : nat * wkind => kind_z (snd x)) ks)).
    { unfold dz. rewrite map_map. reflexivity. }
    assert (Hks : forall x, In x ks -> In x ws /\ is_kitty (snd x) = true).
    { intros x Hx. unfold ks in Hx. apply filter_In in Hx. exact Hx. }
    (* placements once flushed: those that survive the new deletes too *)
    assert (Hfl : forall p, In p (t_plcs (pexec konsole (pexec konsole t (fst (if now then (dz, @nil stok) else ([], dz))))
                                                (q ++ snd (if now then (dz, @nil stok) else ([], dz)))))
                            <-> In p (t_plcs (pexec konsole t q)) /\ ~ In (p_z p) (map (fun x : nat * wkind => kind_z (snd x)) ks)).
    { intro p. assert (Bd : forallb bigdel dz = true) by (rewrite Hdz; apply bigdel_map_delz).
      destruct now; simpl fst; simpl snd.
      - rewrite app_nil_r. rewrite (bigdels_exec q _ Gq). rewrite (bigdels_exec dz _ Bd).
        rewrite (bigdels_exec q _ Gq). rewrite Hdz, survives_delz. tauto.
      - change (pexec konsole t []) with t. rewrite pexec_app. rewrite (bigdels_exec dz _ Bd).
        rewrite Hdz, survives_delz. tauto. }
    unfold good. cbn [w_scr w_sb w_term w_queue w_bs w_nall w_nw].
    assert (Hgoal :
      (forall wd, kittyw wd = false ->
         wdis_get wd (fold_left (fun l w => wdis_bump (fst w) l) ks (s_wdis s)) = 0
         /\ wdis_get wd (fold_left (fun l x => cnt_inc (fst x) l) ks nw) = 0 /\ wdis_get wd (s_wdis bs) = 0)
      /\ (forall wd, wdis_get wd (fold_left (fun l w => wdis_bump (fst w) l) ks (s_wdis s))
                     = Nat.iter (wdis_get wd (fold_left (fun l x => cnt_inc (fst x) l) ks nw)) bump1 (wdis_get wd (s_wdis bs)))).
    { split.
      - intros wd Hk. destruct (Gnk wd Hk) as [S0 [N0 B0]].
        assert (C0 : cnt wd ks = 0).
        { destruct (cnt wd ks) eqn:E; [reflexivity|]. exfalso.
          assert (Hin : In wd (map fst ks)) by (apply cnt_pos_In; lia).
          apply in_map_iff in Hin. destruct Hin as [x [Hx1 Hx2]]. destruct (Hks x Hx2) as [Hxw Hxk].
          rewrite (Ak x Hxw), Hx1 in Hxk. congruence. }
        rewrite wdis_fold_bump_cnt, cnt_fold_inc, C0, S0, N0. simpl. auto.
      - intro wd. rewrite wdis_fold_bump_cnt, cnt_fold_inc, Gw. rewrite Nat.add_comm. rewrite iter_plus. reflexivity. }
    destruct Hgoal as [Hg1 Hg2].
    cbn [fst snd s_prev s_cdis s_wdis].
    assert (Hq' : forallb bigdel (q ++ snd (if now then (dz, @nil stok) else ([], dz))) = true).
    { destruct now; simpl snd; [rewrite app_nil_r; exact Gq|].
      rewrite forallb_app, Gq, Hdz. simpl. apply bigdel_map_delz. }
    destruct now; cbn [fst snd] in *.
    + split; [exact Hg1|split; [exact Glt|split; [exact Gc|split; [exact Hg2|split; [exact Hq'|split]]]]].
      * intros p Hp. unfold ScreenUrwid.flushed in Hp. cbn [w_term w_queue] in Hp. apply Hfl in Hp.
        apply Gsub. unfold ScreenUrwid.flushed. cbn [w_term w_queue]. tauto.
      * destruct sb as [sbf|]; [|exact I]. destruct Gsb as [Hb Hon]. split; [exact Hb|].
        intros v p Hv Hpv. destruct (Hon v p Hv Hpv) as [Hf|[Hf|[Hk Hf]]].
        -- destruct (in_dec Z.eq_dec (p_z p) (map (fun x : nat * wkind => kind_z (snd x)) ks)) as [Hz|Hz].
           ++ right. right. apply in_map_iff in Hz. destruct Hz as [x [Hx1 Hx2]]. destruct (Hks x Hx2) as [Hxw Hxk].
              destruct (view_plcs_z v p Hpv) as [Ezp _]. rewrite Ezp in Hx1.
              assert (Hkv : is_kitty (v_kind v) = true).
              { destruct (tracked_kind v (At v Hv)) as [Hy|[_ [Hi _]]]; [exact Hy|].
                exfalso. rewrite Hi in Hx1. simpl in Hx1. apply (Anz x Hxw Hxk). exact Hx1. }
              split; [exact Hkv|]. cbn [w_nw]. rewrite cnt_fold_inc.
              assert (0 < cnt (v_wid v) ks); [|lia]. apply cnt_pos_In. apply in_map_iff. exists x. split; [|exact Hx2].
              symmetry. apply (Az x v); auto.
           ++ left. unfold ScreenUrwid.flushed. cbn [w_term w_queue]. apply Hfl. split; [exact Hf|exact Hz].
        -- right. left. exact Hf.
        -- right. right. split; [exact Hk|]. cbn [w_nw] in *. rewrite cnt_fold_inc. lia.
    + split; [exact Hg1|split; [exact Glt|split; [exact Gc|split; [exact Hg2|split; [exact Hq'|split]]]]].
      * intros p Hp. unfold ScreenUrwid.flushed in Hp. cbn [w_term w_queue] in Hp. apply Hfl in Hp.
        apply Gsub. unfold ScreenUrwid.flushed. cbn [w_term w_queue]. tauto.
      * destruct sb as [sbf|]; [|exact I]. destruct Gsb as [Hb Hon]. split; [exact Hb|].
        intros v p Hv Hpv. destruct (Hon v p Hv Hpv) as [Hf|[Hf|[Hk Hf]]].
        -- destruct (in_dec Z.eq_dec (p_z p) (map (fun x : nat * wkind => kind_z (snd x)) ks)) as [Hz|Hz].
           ++ right. right. apply in_map_iff in Hz. destruct Hz as [x [Hx1 Hx2]]. destruct (Hks x Hx2) as [Hxw Hxk].
              destruct (view_plcs_z v p Hpv) as [Ezp _]. rewrite Ezp in Hx1.
              assert (Hkv : is_kitty (v_kind v) = true).
              { destruct (tracked_kind v (At v Hv)) as [Hy|[_ [Hi _]]]; [exact Hy|].
                exfalso. rewrite Hi in Hx1. simpl in Hx1. apply (Anz x Hxw Hxk). exact Hx1. }
              split; [exact Hkv|]. cbn [w_nw]. rewrite cnt_fold_inc.
              assert (0 < cnt (v_wid v) ks); [|lia]. apply cnt_pos_In. apply in_map_iff. exists x. split; [|exact Hx2].
              symmetry. apply (Az x v); auto.
           ++ left. unfold ScreenUrwid.flushed. cbn [w_term w_queue]. apply Hfl. split; [exact Hf|exact Hz].
        -- right. left. exact Hf.
        -- right. right. split; [exact Hk|]. cbn [w_nw] in *. rewrite cnt_fold_inc. lia.
Qed.

(** a sequence of operations each of which is well-formed in the state it meets *)
Fixpoint ops_wf (w : world) (ops : list sop) : Prop :=
  match ops with
  | [] => True
  | o :: rest =>
    match o with
    | ORedraw V _ => wf_redraw (s_prev (w_scr w)) V /\ count_ok w V
    | OClear => True
    | OApi ws _ => wf_api (s_prev (w_scr w)) ws
    end
    /\ ops_wf (step w o) rest
  end.

Lemma run_good : forall ops w, good w -> ops_wf w ops -> good (run ops w).
Proof.
  induction ops as [|o ops IH]; intros w Hg Hwf; [exact Hg|].
  destruct Hwf as [Ho Hrest]. unfold ScreenUrwid.run. simpl. apply IH; [|exact Hrest].
  destruct o as [V base| |ws now].
  - destruct Ho. apply step_redraw_good; assumption.
  - apply step_clear_good; assumption.
  - apply step_api_good; assumption.
Qed.

Lemma ops_wf_app : forall a b w, ops_wf w (a ++ b) -> ops_wf w a /\ ops_wf (run a w) b.
Proof.
  induction a as [|o a IH]; intros b w Hwf; [split; [exact I|exact Hwf]|].
  destruct Hwf as [Ho Hrest]. destruct (IH b (step w o) Hrest) as [Ha Hb].
  split; [split; assumption|exact Hb].
Qed.

Lemma run_app : forall a b w, run (a ++ b) w = run b (run a w).
Proof. intros. unfold ScreenUrwid.run. apply fold_left_app. Qed.

Lemma no_ghosts_lemma : forall ops V base,
  ops_wf world_init (ops ++ [ORedraw V base]) ->
  w_queue (run (ops ++ [ORedraw V base]) world_init) = []
  /\ forall p, In p (t_plcs (w_term (run (ops ++ [ORedraw V base]) world_init))) <-> In p (plcs_of V).
Proof.
  intros ops V base Hwf. apply ops_wf_app in Hwf. destruct Hwf as [Ha [[Hb Hc] _]].
  rewrite run_app. pose proof (run_good ops world_init good_init Ha) as Hg.
  destruct (step_redraw_good (run ops world_init) V base Hg Hb Hc) as [_ [_ [Hq Hs]]]. split; [exact Hq|exact Hs].
Qed.

Lemma cleared_after_clear_lemma : forall ops,
  ops_wf world_init ops -> t_plcs (flushed (run (ops ++ [OClear]) world_init)) = [].
Proof.
  intros ops Hwf. rewrite run_app. pose proof (run_good ops world_init good_init Hwf) as Hg.
  destruct (step_clear_good (run ops world_init) Hg) as [_ E]. exact E.
Qed.

(** with at most one public clear_images() call (its arguments distinct) since the last
    redraw or clear(), the count hypothesis holds by itself: the redraw's own bookkeeping
    changes any disguise at most once *)
Lemma redraw_own_changes : forall w V wd,
  redraw_nall V w + redraw_nw V w wd <= w_nall w + wdis_get wd (w_nw w) + 1.
Proof.
  intros w V wd. unfold redraw_nall, redraw_nw. destruct (clears_all V (w_scr w)); simpl; [lia|].
  destruct (existsb _ _); lia.
Qed.

Lemma cnt_nodup_le1 : forall w (ks : list (nat * wkind)), NoDup (map fst ks) -> cnt w ks <= 1.
Proof.
  intros w ks. unfold cnt. induction ks as [|[a k] ks IH]; simpl; intro Hnd; [lia|].
  inversion Hnd as [|? ? Hni Hnd']; subst. destruct (Nat.eqb a w) eqn:E; simpl; [|auto].
  apply Nat.eqb_eq in E. subst a.
  assert (C0 : cnt w ks = 0).
  { destruct (cnt w ks) eqn:Ec; [reflexivity|]. exfalso. apply Hni. apply cnt_pos_In. lia. }
  unfold cnt in C0. rewrite C0. lia.
Qed.

(** the count hypothesis holds by itself right after a redraw, and after a redraw followed by
    ONE public clear_images() call whose kitty arguments are distinct *)
Lemma count_ok_after_redraw : forall w0 V0 base0 V, count_ok (step w0 (ORedraw V0 base0)) V.
Proof.
  intros w0 V0 base0 V _ v _.
  pose proof (redraw_own_changes (step w0 (ORedraw V0 base0)) V (v_wid v)) as Hc. simpl in Hc. simpl. lia.
Qed.

Lemma count_ok_after_one_api : forall w0 V0 base0 ws now V,
  NoDup (map fst (filter (fun x : nat * wkind => is_kitty (snd x)) ws)) ->
  count_ok (step (step w0 (ORedraw V0 base0)) (OApi ws now)) V.
Proof.
  intros w0 V0 base0 ws now V Hnd _ v _.
  pose proof (redraw_own_changes (step (step w0 (ORedraw V0 base0)) (OApi ws now)) V (v_wid v)) as Hc.
  assert (Hle : w_nall (step (step w0 (ORedraw V0 base0)) (OApi ws now))
                + wdis_get (v_wid v) (w_nw (step (step w0 (ORedraw V0 base0)) (OApi ws now))) <= 1).
  { destruct ws as [|x ws]; [simpl; lia|].
    cbn [ScreenUrwid.step w_nall w_nw]. rewrite cnt_fold_inc. simpl wdis_get.
    pose proof (cnt_nodup_le1 (v_wid v) _ Hnd). lia. }
  lia.
Qed.

End Ghost.

(** *** start / stop / clear delete every image, whatever is on the terminal *)

Definition no_place (x : stok) : bool :=
  match x with KPlace _ _ _ _ | KIterm _ _ _ => false | _ => true end.

Lemma pexec_no_place_empty : forall konsole ts t,
  forallb no_place ts = true -> t_plcs t = [] -> t_plcs (pexec konsole t ts) = [].
Proof.
  induction ts as [|x ts IH]; intros t Hn He; [exact He|]. simpl in Hn. apply andb_true_iff in Hn.
  destruct Hn as [Hx Hn]. simpl. apply IH; [exact Hn|].
  destruct x; simpl in *; try discriminate; try exact He.
  rewrite He. destruct d; reflexivity.
Qed.

Lemma pexec_delall : forall konsole t, t_plcs (pexec konsole t [KDel DelAll]) = [].
Proof. reflexivity. Qed.

Lemma bump2_ne : forall s, ((s + 1) mod 3 + 1) mod 3 <> s.
Proof.
  intros s E. assert (B : (s + 1) mod 3 < 3) by (apply Nat.mod_upper_bound; lia).
  assert (B2 : ((s + 1) mod 3 + 1) mod 3 < 3) by (apply Nat.mod_upper_bound; lia).
  destruct s as [|[|[|s]]]; try (vm_compute in E; discriminate). lia.
Qed.

(** [inner]: what urwid's own _start / _stop write (no image) *)
Lemma cleared_on_start_stop_clear_lemma : forall konsole inner bc s t,
  forallb no_place inner = true ->
  t_plcs (pexec konsole t (fst (start_stream true inner s))) = []
  /\ t_plcs (pexec konsole t (fst (stop_stream true bc inner s))) = []
  /\ t_plcs (pexec konsole t (fst (clear_stream true s))) = []
  /\ s_cdis (snd (start_stream true inner s)) <> s_cdis s
  /\ s_cdis (snd (stop_stream true bc inner s)) <> s_cdis s
  /\ s_cdis (snd (clear_stream true s)) <> s_cdis s.
Proof.
  intros konsole inner bc s t Hn. unfold start_stream, stop_stream, clear_stream, clear_images_all.
  destruct bc; simpl; repeat split; try apply bump_ne; try apply bump2_ne.
  - rewrite pexec_app. reflexivity.
  - apply pexec_no_place_empty; [exact Hn|reflexivity].
  - rewrite pexec_app. reflexivity.
  - apply pexec_no_place_empty; [exact Hn|reflexivity].
Qed.

(** without kitty support nothing is written (the terminal shows no such image) *)
Lemma unsupported_silent : forall inner bc s,
  fst (start_stream false inner s) = inner /\ fst (stop_stream false bc inner s) = inner
  /\ fst (clear_stream false s) = [].
Proof. intros. unfold start_stream, stop_stream, clear_stream, clear_images_all. destruct bc; simpl; rewrite app_nil_r; auto. Qed.
