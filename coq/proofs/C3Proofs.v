(** Proofs about the C3 linearisation of [model/SettingsMro.v] (C20): what [merge] returns
    contains exactly the classes of its arguments, each once, in an order that extends the
    order of every argument; the MRO of a class starts with the class, lists each
    ancestor once and extends the MRO of EVERY class in it (monotonicity); every hierarchy
    the linearisation accepts satisfies the well-formedness hypotheses of
    [proofs/SettingsMroProofs.v]; on a single-inheritance forest the MRO is the chain of
    parents. *)
From Coq Require Import List ZArith Bool Arith Lia.
Import ListNotations.
From TI Require Import model.Settings model.SettingsVal model.SettingsMro.
From TI Require Import proofs.SettingsMroProofs.
Local Arguments Nat.eqb : simpl never.

(** *** order-preserving sub-lists *)

Inductive subseq : list nat -> list nat -> Prop :=
| ss_nil l : subseq [] l
| ss_take x a b : subseq a b -> subseq (x :: a) (x :: b)
| ss_skip x a b : subseq a b -> subseq a (x :: b).

Lemma subseq_refl l : subseq l l.
Proof. induction l; constructor; assumption. Qed.

Lemma subseq_in a b : subseq a b -> forall x, In x a -> In x b.
Proof.
  induction 1; intros y Hy; [contradiction| |right; auto].
  destruct Hy as [->|Hy]; [left; reflexivity|right; auto].
Qed.

Lemma subseq_trans a b c : subseq a b -> subseq b c -> subseq a c.
Proof.
  intros Hab Hbc. revert a Hab. induction Hbc as [l|x b c Hbc IH|x b c Hbc IH]; intros a Hab.
  - inversion Hab. constructor.
  - inversion Hab; subst.
    + constructor.
    + apply ss_take. apply IH. assumption.
    + apply ss_skip. apply IH. assumption.
  - apply ss_skip. apply IH. assumption.
Qed.

(** [x] occurs in [l] with [r] somewhere after it *)
Definition before (x r : nat) (l : list nat) : Prop := exists a b, l = a ++ x :: b /\ In r b.

Lemma before_in_r x r l : before x r l -> In r l.
Proof. intros (a & b & -> & Hr). apply in_or_app. right. right. exact Hr. Qed.
Lemma before_in_l x r l : before x r l -> In x l.
Proof. intros (a & b & -> & Hr). apply in_or_app. right. left. reflexivity. Qed.

Lemma before_cons_inv x r h t :
  before x r (h :: t) -> (h = x /\ In r t) \/ before x r t.
Proof.
  intros (a & b & E & Hr). destruct a as [|h' a]; cbn in E; inversion E; subst.
  - left. split; [reflexivity|exact Hr].
  - right. exists a, b. split; [reflexivity|exact Hr].
Qed.

Lemma before_antisym l : NoDup l -> forall x r, before x r l -> before r x l -> False.
Proof.
  induction 1 as [|h t Hh Hnd IH]; intros x r H1 H2.
  - destruct H1 as (a & b & E & _). destruct a; discriminate.
  - apply before_cons_inv in H1. apply before_cons_inv in H2.
    destruct H1 as [[-> Hr]|H1], H2 as [[E Hx]|H2].
    + subst. contradiction.
    + apply Hh. apply (before_in_r _ _ _ H2).
    + subst. apply Hh. apply (before_in_r _ _ _ H1).
    + exact (IH x r H1 H2).
Qed.

Lemma subseq_before x rx l r : subseq (x :: rx) l -> In r rx -> before x r l.
Proof.
  intros Hs Hr. remember (x :: rx) as a eqn:Ea. revert Ea.
  induction Hs as [l|y a b Hs IH|y a b Hs IH]; intros Ea; [discriminate| |].
  - inversion Ea; subst. exists [], b. split; [reflexivity|]. apply (subseq_in _ _ Hs), Hr.
  - destruct (IH Ea) as (p & q & -> & Hq). exists (y :: p), q. split; [reflexivity|exact Hq].
Qed.

(** *** [memb], [nodupb] *)

Lemma memb_in x l : memb x l = true <-> In x l.
Proof.
  unfold memb. rewrite existsb_exists. split.
  - intros (y & Hy & E). apply Nat.eqb_eq in E. subst. exact Hy.
  - intros Hx. exists x. split; [exact Hx|apply Nat.eqb_refl].
Qed.

Lemma memb_false x l : memb x l = false <-> ~ In x l.
Proof.
  rewrite <- memb_in. destruct (memb x l); split; congruence.
Qed.

(** *** [merge] *)

Definition lists_in (x : nat) (ls : list (list nat)) : Prop := exists l, In l ls /\ In x l.

Lemma find_cand_spec all : forall ls h,
  find_cand ls all = Some h ->
  (exists t, In (h :: t) ls) /\ existsb (in_tail h) all = false.
Proof.
  induction ls as [|l ls IH]; intros h E; cbn [find_cand] in E; [discriminate|].
  destruct l as [|x t].
  - destruct (IH h E) as ((t' & Ht) & Hn). split; [exists t'; right; exact Ht|exact Hn].
  - destruct (existsb (in_tail x) all) eqn:Ex.
    + destruct (IH h E) as ((t' & Ht) & Hn). split; [exists t'; right; exact Ht|exact Hn].
    + inversion E; subst. split; [exists t; left; reflexivity|exact Ex].
Qed.

Lemma drop_head_incl h l x : In x (drop_head h l) -> In x l.
Proof.
  destruct l as [|y t]; cbn; [auto|]. destruct (Nat.eqb y h); cbn; auto.
Qed.

Lemma drop_head_keeps h l x : x <> h -> In x l -> In x (drop_head h l).
Proof.
  destruct l as [|y t]; cbn; [auto|]. intros Hne [->|Hx].
  - destruct (Nat.eqb_spec x h); [contradiction|left; reflexivity].
  - destruct (Nat.eqb y h); [exact Hx|right; exact Hx].
Qed.

Lemma drop_head_removes h l : ~ In h (tl l) -> ~ In h (drop_head h l).
Proof.
  destruct l as [|y t]; cbn; [auto|]. intros Hn.
  destruct (Nat.eqb_spec y h); [exact Hn|]. intros [E|Hx]; [congruence|contradiction].
Qed.

Lemma drop_head_subseq h l m : subseq (drop_head h l) m -> subseq l (h :: m).
Proof.
  destruct l as [|y t]; cbn; [constructor|].
  destruct (Nat.eqb_spec y h) as [->|]; intros Hs; [apply ss_take|apply ss_skip]; exact Hs.
Qed.

Lemma all_nil_spec (ls : list (list nat)) :
  forallb (@is_nil nat) ls = true -> forall l, In l ls -> l = [].
Proof.
  rewrite forallb_forall. intros Hall l Hl. specialize (Hall l Hl). destruct l; [reflexivity|discriminate].
Qed.

Theorem merge_spec : forall fuel ls m,
  merge fuel ls = Some m ->
  (forall x, In x m <-> lists_in x ls) /\ NoDup m /\ (forall l, In l ls -> subseq l m).
Proof.
  induction fuel as [|f IH]; intros ls m E; cbn [merge] in E;
    destruct (forallb (@is_nil nat) ls) eqn:En.
  1,3: inversion E; subst; repeat split;
       [ contradiction
       | intros (l & Hl & Hx); rewrite (all_nil_spec ls En l Hl) in Hx; contradiction
       | constructor
       | intros l Hl; rewrite (all_nil_spec ls En l Hl); constructor ].
  - discriminate.
  - destruct (find_cand ls ls) as [h|] eqn:Ef; [|discriminate].
    destruct (merge f (map (drop_head h) ls)) as [m'|] eqn:Em; [|discriminate].
    inversion E; subst m. clear E.
    destruct (IH _ _ Em) as (Hel & Hnd & Hss).
    destruct (find_cand_spec ls ls h Ef) as ((t & Ht) & Hnt).
    assert (F1 : forall l, In l ls -> ~ In h (tl l)).
    { intros l Hl. apply memb_false.
      destruct (memb h (tl l)) eqn:Eh; [|reflexivity].
      assert (existsb (in_tail h) ls = true) by (apply existsb_exists; exists l; split; assumption).
      congruence. }
    repeat split.
    + intros [<-|Hx].
      * exists (h :: t). split; [exact Ht|left; reflexivity].
      * apply Hel in Hx. destruct Hx as (l' & Hl' & Hx). apply in_map_iff in Hl'.
        destruct Hl' as (l & <- & Hl). exists l. split; [exact Hl|]. apply (drop_head_incl h l x Hx).
    + intros (l & Hl & Hx). destruct (Nat.eq_dec x h) as [->|Hne]; [left; reflexivity|].
      right. apply Hel. exists (drop_head h l). split; [apply in_map; exact Hl|].
      apply drop_head_keeps; assumption.
    + constructor; [|exact Hnd]. intros Hh. apply Hel in Hh. destruct Hh as (l' & Hl' & Hx).
      apply in_map_iff in Hl'. destruct Hl' as (l & <- & Hl).
      exact (drop_head_removes h l (F1 l Hl) Hx).
    + intros l Hl. apply drop_head_subseq. apply Hss. apply in_map. exact Hl.
Qed.

(** *** tables of MROs *)

Lemma collect_spec {A} (l : list (option A)) ms :
  collect l = Some ms -> l = map Some ms.
Proof.
  revert ms. induction l as [|[x|] l IH]; intros ms E; cbn in E; try discriminate.
  - inversion E. reflexivity.
  - destruct (collect l) as [r|]; [|discriminate]. inversion E; subst. cbn. f_equal. apply IH. reflexivity.
Qed.

Lemma c3_one_spec tbl c bases l :
  c3_one tbl c bases = Some l ->
  exists ms m,
    map (fun b => nth b tbl None) bases = map Some ms /\
    merge (S (total_len (ms ++ [bases]))) (ms ++ [bases]) = Some m /\ l = c :: m.
Proof.
  unfold c3_one. destruct (collect (map (fun b => nth b tbl None) bases)) as [ms|] eqn:Ec; [|discriminate].
  destruct (nodupb bases); [|discriminate].
  destruct (merge (S (total_len (ms ++ [bases]))) (ms ++ [bases])) as [m|] eqn:Em; [|discriminate].
  intros E. inversion E. exists ms, m. split; [apply collect_spec, Ec|]. split; [exact Em|reflexivity].
Qed.

Lemma map_some_in (f : nat -> option (list nat)) bases ms :
  map f bases = map Some ms ->
  (forall b, In b bases -> exists lb, f b = Some lb /\ In lb ms) /\
  (forall lb, In lb ms -> exists b, In b bases /\ f b = Some lb).
Proof.
  revert ms. induction bases as [|b bases IH]; intros [|lb ms] E; cbn in E; try discriminate.
  - split; intros ? [].
  - inversion E as [[E1 E2]]. destruct (IH ms E2) as (Ha & Hb). split.
    + intros b' [<-|Hb']; [exists lb; split; [exact E1|left; reflexivity]|].
      destruct (Ha b' Hb') as (l' & ? & ?). exists l'. split; [assumption|right; assumption].
    + intros l' [<-|Hl']; [exists b; split; [left; reflexivity|exact E1]|].
      destruct (Hb l' Hl') as (b' & ? & ?). exists b'. split; [right; assumption|assumption].
Qed.

(** what every entry of a table built by [c3_from] satisfies *)
Definition good (tbl : list (option (list nat))) : Prop :=
  forall c l, nth c tbl None = Some l ->
    (exists r, l = c :: r) /\ NoDup l /\
    (forall x, In x l -> exists lx, nth x tbl None = Some lx /\ subseq lx l).

Lemma nth_some_lt {A} c (tbl : list (option A)) l : nth c tbl None = Some l -> c < length tbl.
Proof.
  intros E. destruct (Nat.lt_ge_cases c (length tbl)) as [|Hge]; [assumption|].
  rewrite nth_overflow in E by exact Hge. discriminate.
Qed.

Lemma good_extend tbl bases :
  good tbl -> good (tbl ++ [c3_one tbl (length tbl) bases]).
Proof.
  intros Hg c l E.
  destruct (Nat.lt_ge_cases c (length tbl)) as [Hlt|Hge].
  - (* an earlier class: unchanged *)
    rewrite app_nth1 in E by exact Hlt. destruct (Hg c l E) as (Hh & Hnd & Hx).
    split; [exact Hh|]. split; [exact Hnd|]. intros x Hin. destruct (Hx x Hin) as (lx & E' & Hs).
    exists lx. split; [|exact Hs]. rewrite app_nth1; [exact E'|]. apply (nth_some_lt _ _ _ E').
  - (* the new class *)
    assert (Hc : c = length tbl).
    { apply nth_some_lt in E. rewrite app_length in E. cbn in E. lia. }
    subst c. rewrite app_nth2 in E by lia. rewrite Nat.sub_diag in E. cbn in E.
    destruct (c3_one_spec _ _ _ _ E) as (ms & m & Emap & Em & ->).
    destruct (map_some_in _ _ _ Emap) as (Hb1 & Hb2).
    destruct (merge_spec _ _ _ Em) as (Hel & Hnd & Hss).
    (* every class of [m] is an earlier, created class whose MRO [m] extends *)
    assert (Hm : forall x, In x m -> exists lx, nth x tbl None = Some lx /\ subseq lx m).
    { intros x Hx. apply Hel in Hx. destruct Hx as (l & Hl & Hx).
      apply in_app_or in Hl. destruct Hl as [Hl|[<-|[]]].
      - destruct (Hb2 l Hl) as (b & _ & Eb). destruct (Hg b l Eb) as (_ & _ & Hxs).
        destruct (Hxs x Hx) as (lx & Ex & Hs). exists lx. split; [exact Ex|].
        apply (subseq_trans _ _ _ Hs). apply Hss. apply in_or_app. left. exact Hl.
      - destruct (Hb1 x Hx) as (lx & Ex & Hin). exists lx. split; [exact Ex|].
        apply Hss. apply in_or_app. left. exact Hin. }
    split; [eexists; reflexivity|]. split.
    + constructor; [|exact Hnd]. intros Hin. destruct (Hm _ Hin) as (lx & Ex & _).
      apply nth_some_lt in Ex. lia.
    + intros x [<-|Hx].
      * exists (length tbl :: m). split; [|apply subseq_refl].
        rewrite app_nth2 by lia. rewrite Nat.sub_diag. exact E.
      * destruct (Hm x Hx) as (lx & Ex & Hs). exists lx. split.
        -- rewrite app_nth1; [exact Ex|]. apply (nth_some_lt _ _ _ Ex).
        -- apply ss_skip. exact Hs.
Qed.

Lemma c3_from_good hs : forall tbl, good tbl -> good (c3_from tbl hs).
Proof.
  induction hs as [|b hs IH]; intros tbl Hg; [exact Hg|]. cbn [c3_from]. apply IH, good_extend, Hg.
Qed.

(** C3 is sound: the MRO of every class the linearisation accepts starts with the class,
    lists no class twice, and EXTENDS THE MRO OF EVERY CLASS IN IT (monotonicity; in
    particular every class precedes all its ancestors) *)
Theorem c3_sound hs c l :
  nth c (c3_all hs) None = Some l ->
  (exists r, l = c :: r) /\ NoDup l /\
  (forall x, In x l -> exists lx, nth x (c3_all hs) None = Some lx /\ subseq lx l).
Proof.
  apply (c3_from_good hs []). intros c' l' E. destruct c'; discriminate.
Qed.

(** *** the hierarchies the correspondence builds satisfy the hypotheses of
        [proofs/SettingsMroProofs.v] *)

Lemma mro_of_some tbl c x : In x (mro_of tbl c) -> nth c tbl None = Some (mro_of tbl c).
Proof. unfold mro_of. destruct (nth c tbl None); [reflexivity|contradiction]. Qed.

Theorem hier_c3_wf hs img root st : wf_hier_st st (hier_c3 (c3_all hs) img root st).
Proof.
  set (T := c3_all hs).
  assert (Hhead : forall c x, In x (mro_of T c) -> exists r, mro_of T c = c :: r).
  { intros c x Hx. destruct (c3_sound hs c _ (mro_of_some T c x Hx)) as (Hh & _). exact Hh. }
  split.
  - (* the MRO of a class on which the setting exists starts with the class *)
    intros c Hc. cbn [hier_c3 h_has h_mro] in *.
    destruct st; cbn in Hc;
      try (apply memb_in in Hc; exact (Hhead c _ Hc)).
    apply andb_true_iff in Hc. destruct Hc as [_ Hc]. apply memb_in in Hc. exact (Hhead c _ Hc).
  - intros k Hk Hp. destruct st; inversion Hk; subst k; try discriminate.
    cbn [hier_c3 h_has h_mro h_root]. split.
    + intros c Hc. apply memb_in. exact Hc.
    + intros c l1 l2 E x Hx.
      destruct (has_root T root x) eqn:Ex; [exfalso|reflexivity].
      unfold has_root in Ex. apply memb_in in Ex.
      assert (Hxl : In x (mro_of T c)) by (rewrite E; apply in_or_app; right; right; exact Hx).
      destruct (c3_sound hs c _ (mro_of_some T c x Hxl)) as (_ & Hnd & Hall).
      destruct (Hall x Hxl) as (lx & Elx & Hs).
      assert (Elx' : mro_of T x = lx) by (unfold mro_of; fold T in Elx; rewrite Elx; reflexivity).
      rewrite <- Elx' in Hs. clear Elx Elx' lx.
      destruct (Hhead x root Ex) as (rx & Erx). rewrite Erx in Hs, Ex.
      assert (Hne : x <> root).
      { intros ->. rewrite E in Hnd. apply NoDup_remove_2 in Hnd. apply Hnd.
        apply in_or_app. right. exact Hx. }
      destruct Ex as [Ex|Ex]; [contradiction|].
      apply (before_antisym _ Hnd x root).
      * exact (subseq_before x rx _ root Hs Ex).
      * exists l1, l2. split; [exact E|exact Hx].
Qed.

(** *** single inheritance: the MRO is the chain of parents *)

Lemma merge_rest : forall t f, NoDup t -> length t <= f -> merge f [t; []] = Some t.
Proof.
  induction t as [|y t IH]; intros f Hnd Hf.
  - destruct f; reflexivity.
  - destruct f as [|f]; [cbn in Hf; lia|]. cbn [merge forallb is_nil andb find_cand].
    inversion Hnd; subst.
    assert (Ey : existsb (in_tail y) [y :: t; []] = false).
    { cbn. unfold in_tail. cbn [tl]. rewrite orb_false_r.
      apply (proj2 (memb_false y t)). assumption. }
    rewrite Ey. cbn [map drop_head]. rewrite Nat.eqb_refl. rewrite IH; [reflexivity|assumption|cbn in Hf; lia].
Qed.

Lemma merge_single_base p t f :
  NoDup (p :: t) -> length t < f -> merge f [p :: t; [p]] = Some (p :: t).
Proof.
  intros Hnd Hf. destruct f as [|f]; [lia|]. cbn [merge forallb is_nil andb find_cand].
  inversion Hnd; subst.
  assert (Ep : existsb (in_tail p) [p :: t; [p]] = false).
  { cbn. unfold in_tail. cbn [tl]. rewrite orb_false_r.
    apply (proj2 (memb_false p t)). assumption. }
  rewrite Ep. cbn [map drop_head]. rewrite Nat.eqb_refl. rewrite merge_rest; [reflexivity|assumption|lia].
Qed.

Section Forest.
Variable par : nat -> nat.
Hypothesis Hwf : wf_par par.

Lemma chain_fuel : forall f1 f2 c, c <= f1 -> c <= f2 -> chain par f1 c = chain par f2 c.
Proof.
  induction f1 as [|f1 IH]; intros f2 c H1 H2.
  - assert (c = 0) by lia; subst c. destruct f2; reflexivity.
  - destruct f2 as [|f2].
    + assert (c = 0) by lia; subst c. reflexivity.
    + cbn [chain]. destruct (Nat.eqb_spec c 0); [reflexivity|]. f_equal.
      apply IH; specialize (Hwf c); lia.
Qed.

Lemma chain_le : forall f c x, In x (chain par f c) -> x <= c.
Proof.
  induction f as [|f IH]; intros c x; cbn [chain].
  - intros [<-|[]]. lia.
  - intros [<-|Hx]; [lia|]. destruct (Nat.eqb_spec c 0); [contradiction|].
    apply IH in Hx. specialize (Hwf c). lia.
Qed.

Lemma chain_nodup : forall f c, NoDup (chain par f c).
Proof.
  induction f as [|f IH]; intros c; cbn [chain].
  - constructor; [intros []|constructor].
  - destruct (Nat.eqb_spec c 0); [constructor; [intros []|constructor]|].
    constructor; [|apply IH]. intros Hx. apply chain_le in Hx. specialize (Hwf c). lia.
Qed.

Lemma c3_from_app tbl a b : c3_from tbl (a ++ b) = c3_from (c3_from tbl a) b.
Proof. revert tbl. induction a as [|x a IH]; intros tbl; [reflexivity|]. cbn. apply IH. Qed.

(** the C3 linearisation of a forest IS the chain of parents of [model/Settings.v] *)
Theorem c3_forest n :
  c3_all (forest_bases par n) = map (fun c => Some (chain par c c)) (seq 0 n).
Proof.
  induction n as [|n IH]; [reflexivity|].
  unfold c3_all, forest_bases in *. rewrite seq_S, !map_app, c3_from_app, IH. cbn [map c3_from].
  rewrite map_length, seq_length. f_equal. f_equal. cbn [plus].
  destruct (Nat.eqb_spec n 0) as [->|Hn]; [reflexivity|].
  unfold c3_one. cbn [map collect].
  assert (Hp : par n < n) by (apply Hwf; lia).
  assert (En : nth (par n) (map (fun c => Some (chain par c c)) (seq 0 n)) None
               = Some (chain par (par n) (par n))).
  { rewrite (nth_indep _ None (Some (chain par 0 0))) by (rewrite map_length, seq_length; exact Hp).
    rewrite (map_nth (fun c => Some (chain par c c)) (seq 0 n) 0 (par n)).
    rewrite seq_nth by exact Hp. reflexivity. }
  rewrite En. cbn [option_map collect nodupb memb existsb negb andb app].
  destruct (chain par (par n) (par n)) as [|p t] eqn:Ech; [destruct (par n); discriminate|].
  assert (Ehd : p = par n) by (destruct (par n); cbn in Ech; inversion Ech; reflexivity).
  subst p. rewrite merge_single_base.
  - cbn [option_map]. f_equal. destruct n as [|n']; [lia|]. cbn [chain].
    destruct (Nat.eqb_spec (S n') 0); [lia|]. f_equal. rewrite <- Ech. apply chain_fuel; lia.
  - rewrite <- Ech. apply chain_nodup.
  - cbn [total_len fold_right length]. lia.
Qed.

End Forest.

(** *** non-vacuity and the excluded design: a mix-in-first style class

    classes: 0 [BaseImage], 1 [GraphicsImage(BaseImage)], 2 the style class
    ([KittyImage(GraphicsImage)], the root), 3 [Tagged(GraphicsImage)] (a mix-in: no
    render methods), 4 [TaggedKitty(Tagged, KittyImage)], 5 [A(KittyImage)],
    6 [B(KittyImage)], 7 [D(A, B)] (a diamond), 8 [E(KittyImage, A)] (refused). *)
Definition ex_bases : list (list nat) := [[]; [0]; [1]; [1]; [3; 2]; [2]; [2]; [5; 6]; [2; 5]].
Definition ex_tbl := c3_all ex_bases.
Example ex_mros :
  ex_tbl = [Some [0]; Some [1; 0]; Some [2; 1; 0]; Some [3; 1; 0]; Some [4; 3; 2; 1; 0];
            Some [5; 2; 1; 0]; Some [6; 2; 1; 0]; Some [7; 5; 6; 2; 1; 0]; None].
Proof. vm_compute. reflexivity. Qed.

Definition ex_hier := hier_c3 ex_tbl (fun _ => true) 2 (SRm 2).
Definition ex_k := k_render_method 2.

(** the code (lookup through the whole MRO): after [KittyImage := WHOLE; TaggedKitty := LINES;
    TaggedKitty.unset], [TaggedKitty] follows [KittyImage]; the mix-in has nothing *)
Example ex_mixin_first_follows_root :
  let s := m_run ex_k ex_hier [ClsSet 2 1%Z; ClsSet 4 0%Z; ClsUnset 4] in
  m_cls_eff ex_k ex_hier s 4 = 1%Z /\ cd s 4 = None /\ cd s 3 = None /\
  m_spec_cls ex_k ex_hier [ClsSet 2 1%Z; ClsSet 4 0%Z; ClsUnset 4] 4 = 1%Z.
Proof. vm_compute. repeat split. Qed.

(** the excluded design — "is there a parent style class?" decided from the FIRST LISTED
    base: the unset WRITES the default into the mix-in-first class, which stops following
    its style class *)
Definition ex_first_base (c : nat) : option nat := hd_error (nth c ex_bases []).
Example m_unset_firstbase_refuted :
  let s := m_run ex_k ex_hier [ClsSet 2 1%Z; ClsSet 4 0%Z] in
  let s' := m_unset_firstbase ex_k ex_hier ex_first_base s 4 in
  m_cls_eff ex_k ex_hier s' 4 = 0%Z /\
  m_spec_cls ex_k ex_hier [ClsSet 2 1%Z; ClsSet 4 0%Z; ClsUnset 4] 4 = 1%Z /\
  (* ... while on single-inheritance classes (5: [A(KittyImage)]) it agrees with the code *)
  m_cls_eff ex_k ex_hier (m_unset_firstbase ex_k ex_hier ex_first_base
                            (m_run ex_k ex_hier [ClsSet 2 1%Z; ClsSet 5 0%Z]) 5) 5 = 1%Z.
Proof. vm_compute. repeat split. Qed.

(** forced support set on [BaseImage] is what every class below without a value of its
    own reads; a default re-homed into [GraphicsImage]'s dictionary would shadow it *)
Example ex_base_class_value_is_inherited :
  let Hf := hier_c3 ex_tbl (fun _ => true) 2 SFs in
  let s := m_run k_forced_support Hf [ClsSet 0 1%Z; ClsSet 5 0%Z] in
  map (m_cls_eff k_forced_support Hf s) [0; 1; 2; 3; 4; 5; 6; 7] = [1; 1; 1; 1; 1; 0; 1; 0]%Z /\
  let shadow := {| cd := upd (cd s) 1 (Some 0%Z); idt := idt s |} in
  map (m_cls_eff k_forced_support Hf shadow) [0; 1; 2; 3; 4; 5; 6; 7] = [1; 0; 0; 0; 0; 0; 0; 0]%Z.
Proof. vm_compute. repeat split. Qed.

(** *** the statements over the hierarchies the linearisation accepts, without hypotheses *)

Theorem c3_cls_lookup_spec hs img root st k ops c :
  kind_of st = Some k ->
  let H := hier_c3 (c3_all hs) img root st in
  m_cls_eff k H (m_run k H ops) c = m_spec_cls k H ops c.
Proof.
  intros Hk H. destruct (hier_c3_wf hs img root st) as [Hm Hw].
  apply m_cls_lookup_spec; [exact Hm|apply Hw, Hk].
Qed.

Theorem c3_vtrace_spec hs img root st icls nc ni ops :
  let H := hier_c3 (c3_all hs) img root st in
  m_vtrace st H icls nc ni (m_uinit st H) ops = m_vspec_trace st H icls nc ni ops.
Proof. intros H. apply m_vtrace_spec, hier_c3_wf. Qed.

Theorem first_base_unset_refuted :
  exists k H fb ops c,
    m_cls_eff k H (m_unset_firstbase k H fb (m_run k H ops) c) c
    <> m_spec_cls k H (ops ++ [ClsUnset c]) c.
Proof.
  exists ex_k, ex_hier, ex_first_base, [ClsSet 2 1%Z; ClsSet 4 0%Z], 4. vm_compute. discriminate.
Qed.
