(** C03 — concurrent renders: with render-local buffers the output of every render is, under
    EVERY schedule and for any number of renders, exactly what that render produces alone from
    its own strips; with one buffer kept on the instance it is not. *)
From Coq Require Import List Arith Bool Lia.
Import ListNotations.
From TI Require Import model.KittyChunks model.GfxConc.

Section Proofs.
Variable B : Type.
Variable enc : list B -> list B.
Local Notation buf := (buf B).
Local Notation tstate := (tstate B).
Local Notation cstate := (cstate B).
Local Notation lstep := (lstep B enc).
Local Notation cstep := (cstep B enc).
Local Notation crun := (crun B enc).
Local Notation line_out := (line_out B enc).
Local Notation render_spec := (render_spec B enc).

(* ---------------------------------------------------------------- projection *)
Lemma fupd_same : forall A (f : nat -> A) i x, fupd f i x i = x.
Proof. intros. unfold fupd. rewrite Nat.eqb_refl. reflexivity. Qed.
Lemma fupd_other : forall A (f : nat -> A) i j x, j <> i -> fupd f i x j = f j.
Proof. intros A f i j x H. unfold fupd. apply Nat.eqb_neq in H. rewrite H. reflexivity. Qed.

(** a step of render [j] leaves render [i] and ITS buffer alone when buffers are render-local *)
Lemma cstep_proj : forall bo (st : cstate) i j,
  render_local bo ->
  (c_ts (cstep bo st j) i, c_buf (cstep bo st j) (bo i)) =
  if Nat.eqb j i then lstep (c_ts st i, c_buf st (bo i)) else (c_ts st i, c_buf st (bo i)).
Proof.
  intros bo st i j Hl. unfold GfxConc.cstep.
  destruct (GfxConc.lstep B enc (c_ts st j, c_buf st (bo j))) as [t' b'] eqn:E. cbn [c_ts c_buf].
  destruct (Nat.eqb j i) eqn:Eji.
  - apply Nat.eqb_eq in Eji. subst j. rewrite !fupd_same. symmetry. exact E.
  - apply Nat.eqb_neq in Eji. rewrite fupd_other by congruence.
    rewrite fupd_other; [reflexivity|]. intros H. apply Eji. symmetry. apply Hl. exact H.
Qed.

Fixpoint count (i : nat) (l : list nat) : nat :=
  match l with [] => 0 | j :: r => (if Nat.eqb j i then 1 else 0) + count i r end.

Lemma iter_shift : forall A (f : A -> A) n x, iterate n f (f x) = f (iterate n f x).
Proof. induction n as [|n IH]; intros x; cbn; [reflexivity|]. rewrite IH. reflexivity. Qed.

(** PROJECTION: what render [i] and its buffer look like after ANY schedule is what [i] alone
    makes of them in as many steps as the schedule grants it *)
Lemma crun_proj : forall bo sched (st : cstate) i,
  render_local bo ->
  (c_ts (crun bo st sched) i, c_buf (crun bo st sched) (bo i)) =
  iterate (count i sched) lstep (c_ts st i, c_buf st (bo i)).
Proof.
  intros bo sched. induction sched as [|j r IH]; intros st i Hl; [reflexivity|].
  unfold GfxConc.crun. cbn [fold_left]. fold (crun bo (cstep bo st j) r).
  rewrite IH by exact Hl. rewrite cstep_proj by exact Hl. cbn [count].
  destruct (Nat.eqb j i); cbn [Nat.add iterate]; [rewrite iter_shift|]; reflexivity.
Qed.

(* ---------------------------------------------------------------- one render alone *)
(** what holds of a render and the buffer it alone writes, at every step *)
Definition solo_inv (strips : list (list B)) (tb : tstate * buf) : Prop :=
  let '(t, b) := tb in
  exists done, strips = done ++ t_todo t /\ t_out t = map line_out done /\
    match t_todo t with
    | [] => t_pc t = LSeek
    | s :: _ =>
        match t_pc t with
        | LSeek => True
        | LSave => b_pos b = 0
        | LTrunc => b_pos b = length (enc s) /\ firstn (b_pos b) (b_data b) = enc s
        | LTell => b_pos b = length (enc s) /\ b_data b = enc s
        | LGet size => size = length (enc s) /\ b_data b = enc s
        end
    end.

Lemma firstn_app_exact : forall (d x : list B), firstn (length d) (d ++ x) = d.
Proof. intros d x. rewrite firstn_app, Nat.sub_diag, firstn_all. cbn. apply app_nil_r. Qed.

Lemma lstep_inv : forall strips tb, solo_inv strips tb -> solo_inv strips (lstep tb).
Proof.
  intros strips [t b] (done & Hs & Ho & Hp). unfold GfxConc.lstep.
  destruct (t_todo t) as [|s rest] eqn:Et.
  - exists done. rewrite Et. auto.
  - destruct (t_pc t) as [| | | |size] eqn:Ep.
    + exists done. cbn [t_todo t_pc t_out]. cbn. auto.
    + exists done. cbn [t_todo t_pc t_out]. split; [auto|]. split; [auto|].
      unfold b_write. cbn [b_pos b_data]. rewrite Hp. cbn [firstn app Nat.add].
      split; [reflexivity|]. apply firstn_app_exact.
    + exists done. cbn [t_todo t_pc t_out]. split; [auto|]. split; [auto|].
      unfold b_truncate. cbn [b_pos b_data]. destruct Hp as [Hp1 Hp2]. auto.
    + exists done. cbn [t_todo t_pc t_out]. split; [auto|]. split; [auto|].
      destruct Hp as [Hp1 Hp2]. auto.
    + exists (done ++ [s]). cbn [t_todo t_pc t_out]. destruct Hp as [Hp1 Hp2].
      split; [rewrite <- app_assoc; exact Hs|]. split.
      * rewrite map_app, Ho, Hp1, Hp2. reflexivity.
      * destruct rest; auto.
Qed.

Lemma iter_inv : forall strips n tb, solo_inv strips tb -> solo_inv strips (iterate n lstep tb).
Proof. induction n as [|n IH]; intros tb H; cbn; [exact H|]. apply lstep_inv. apply IH. exact H. Qed.

Lemma start_inv : forall strips b, solo_inv strips (render_start B strips, b).
Proof.
  intros strips b. exists []. cbn. split; [reflexivity|]. split; [reflexivity|]. destruct strips; auto.
Qed.

(** progress: five steps send one line *)
Lemma five_steps : forall s rest out b,
  exists o b', iterate 5 lstep ({| t_todo := s :: rest; t_pc := LSeek; t_out := out |}, b)
               = ({| t_todo := rest; t_pc := LSeek; t_out := out ++ [o] |}, b').
Proof. intros. cbn. eexists. eexists. reflexivity. Qed.

Lemma iter_add : forall A (f : A -> A) n m x, iterate (n + m) f x = iterate n f (iterate m f x).
Proof. induction n as [|n IH]; intros; cbn; [reflexivity|]. rewrite IH. reflexivity. Qed.

Lemma solo_ends : forall strips out b,
  t_todo (fst (iterate (5 * length strips) lstep
                 ({| t_todo := strips; t_pc := LSeek; t_out := out |}, b))) = [].
Proof.
  induction strips as [|s rest IH]; intros out b; [reflexivity|].
  replace (5 * length (s :: rest)) with (5 * length rest + 5) by (cbn [length]; lia).
  rewrite iter_add. destruct (five_steps s rest out b) as (o & b' & E). rewrite E. apply IH.
Qed.

Lemma lstep_done : forall t b, t_todo t = [] -> lstep (t, b) = (t, b).
Proof. intros t b H. unfold GfxConc.lstep. rewrite H. reflexivity. Qed.

Lemma iter_done : forall n t b, t_todo t = [] -> iterate n lstep (t, b) = (t, b).
Proof. induction n as [|n IH]; intros; cbn; [reflexivity|]. rewrite IH by assumption. apply lstep_done. assumption. Qed.

(* ---------------------------------------------------------------- the theorems *)
(** MAIN: any number of renders of the image, each encoding into a buffer of its own, EVERY
    schedule, whatever the buffers held before: what render [i] has emitted is the
    specification's output for a prefix of ITS strips, and for all of them once its loop has
    ended — a function of that render's own input alone *)
Lemma lines_render_local : forall bo inputs bufs sched i,
  render_local bo ->
  let st := crun bo (cstart B inputs bufs) sched in
  (exists done, inputs i = done ++ t_todo (c_ts st i) /\ t_out (c_ts st i) = render_spec done)
  /\ (t_todo (c_ts st i) = [] -> t_out (c_ts st i) = render_spec (inputs i)).
Proof.
  intros bo inputs bufs sched i Hl st.
  pose proof (crun_proj bo sched (cstart B inputs bufs) i Hl) as P. fold st in P.
  pose proof (iter_inv (inputs i) (count i sched) _ (start_inv (inputs i) (bufs (bo i)))) as I.
  cbn [cstart c_ts c_buf] in P. rewrite <- P in I.
  destruct I as (done & Hs & Ho & _). split; [exists done; auto|].
  intros Hd. rewrite Hd, app_nil_r in Hs. subst done. exact Ho.
Qed.

(** and the output does not depend on what the OTHER renders are rendering, nor on the
    schedule beyond the number of steps granted to [i] *)
Lemma lines_noninterference : forall bo inputs inputs' bufs bufs' sched sched' i,
  render_local bo ->
  inputs i = inputs' i -> bufs (bo i) = bufs' (bo i) -> count i sched = count i sched' ->
  c_ts (crun bo (cstart B inputs bufs) sched) i = c_ts (crun bo (cstart B inputs' bufs') sched') i.
Proof.
  intros bo inputs inputs' bufs bufs' sched sched' i Hl Hi Hb Hc.
  pose proof (crun_proj bo sched (cstart B inputs bufs) i Hl) as P.
  pose proof (crun_proj bo sched' (cstart B inputs' bufs') i Hl) as P'.
  cbn [cstart c_ts c_buf] in P, P'. rewrite Hi, Hb, Hc in P. rewrite <- P' in P.
  inversion P. reflexivity.
Qed.

(** every render whose share of the schedule is its full 5 steps per line has ended *)
Lemma lines_enough_steps : forall bo inputs bufs sched i,
  render_local bo -> 5 * length (inputs i) <= count i sched ->
  t_todo (c_ts (crun bo (cstart B inputs bufs) sched) i) = [].
Proof.
  intros bo inputs bufs sched i Hl Hn.
  pose proof (crun_proj bo sched (cstart B inputs bufs) i Hl) as P. cbn [cstart c_ts c_buf] in P.
  replace (count i sched) with ((count i sched - 5 * length (inputs i)) + 5 * length (inputs i)) in P by lia.
  rewrite iter_add in P.
  pose proof (solo_ends (inputs i) [] (bufs (bo i))) as E. unfold render_start in P.
  destruct (iterate (5 * length (inputs i)) lstep _) as [t b] eqn:Et. cbn [fst] in E.
  rewrite iter_done in P by exact E. inversion P as [[H0 H1]]. rewrite H0. exact E.
Qed.

Lemma own_buffer_local : render_local own_buffer.
Proof. intros i j H. exact H. Qed.

(** the strips of the render plan and the iterm2 header: per line the File= command carries
    [size=] = the length of the encoded strip and the base64 of the encoded strip *)
Lemma lines_emit : forall (C : Type) (b64 : list B -> list C) bo inputs bufs sched i cols konsole raw bpl rh,
  render_local bo -> inputs i = strips raw bpl rh ->
  let st := crun bo (cstart B inputs bufs) sched in
  t_todo (c_ts st i) = [] ->
  map (fun o => (iterm2_header BLines (fst o) cols 1 konsole, b64 (snd o))) (t_out (c_ts st i))
  = map (fun s => iterm2_emit b64 BLines cols 1 konsole (enc s)) (strips raw bpl rh).
Proof.
  intros C b64 bo inputs bufs sched i cols konsole raw bpl rh Hl Hi st Hd.
  destruct (lines_render_local bo inputs bufs sched i Hl) as [_ H]. fold st in H.
  rewrite (H Hd), Hi. unfold GfxConc.render_spec. rewrite map_map. reflexivity.
Qed.

End Proofs.

(* ------------------------------------------------------- the instance-level buffer is excluded *)
(** bytes = numbers, "encoding" = identity; render 0 sends the strips [1] and [2;2;2], render 1 the
    strips [3;3] and [4] of (another render of) the image *)
Definition toy_inputs (i : nat) : list (list nat) :=
  match i with 0 => [[1]; [2; 2; 2]] | 1 => [[3; 3]; [4]] | _ => [] end.
Definition toy_bufs : nat -> buf nat := fun _ => {| b_data := []; b_pos := 0 |}.
Definition idenc : list nat -> list nat := fun s => s.

(** render 0 encodes its first line; render 1 encodes ITS first line; render 0 reads the buffer *)
Definition switch_after_save : list nat := [0; 0; 1; 1; 0; 0; 0] ++ repeat 0 5 ++ repeat 1 8.

Example instance_buffer_refuted :
  let st := crun nat idenc instance_buffer (cstart nat toy_inputs toy_bufs) switch_after_save in
  t_todo (c_ts st 0) = [] /\ t_todo (c_ts st 1) = []
  /\ t_out (c_ts st 0) <> render_spec nat idenc (toy_inputs 0)
  /\ nth 0 (t_out (c_ts st 0)) (0, []) = (2, [3; 3]).     (* render 0's first line carries render 1's strip *)
Proof. vm_compute. repeat split; discriminate. Qed.

(** a switch between tell() and getvalue(): [size=] is not even the length of the payload *)
Definition switch_after_tell : list nat := [0; 0; 0; 0; 1; 1; 1; 0] ++ repeat 0 5 ++ repeat 1 8.
Example instance_buffer_size_key_refuted :
  let st := crun nat idenc instance_buffer (cstart nat toy_inputs toy_bufs) switch_after_tell in
  t_todo (c_ts st 0) = [] /\ t_todo (c_ts st 1) = []
  /\ exists size payload, nth 0 (t_out (c_ts st 0)) (0, []) = (size, payload) /\ size <> length payload.
Proof. vm_compute. repeat split. exists 1, [3; 3]. split; [reflexivity | discriminate]. Qed.

(** the same schedules with render-local buffers (non-vacuity of the main theorem) *)
Example own_buffer_same_schedules :
  let st := crun nat idenc own_buffer (cstart nat toy_inputs toy_bufs) switch_after_save in
  let st' := crun nat idenc own_buffer (cstart nat toy_inputs toy_bufs) switch_after_tell in
  t_out (c_ts st 0) = render_spec nat idenc (toy_inputs 0)
  /\ t_out (c_ts st 1) = render_spec nat idenc (toy_inputs 1)
  /\ t_out (c_ts st' 0) = render_spec nat idenc (toy_inputs 0)
  /\ t_out (c_ts st' 1) = render_spec nat idenc (toy_inputs 1).
Proof. vm_compute. auto. Qed.

(** SEQUENTIAL re-use of one buffer is harmless (why no single-threaded test separates the two):
    render 0 completely, then render 1, on the instance-level buffer *)
Example instance_buffer_sequential_ok :
  let st := crun nat idenc instance_buffer (cstart nat toy_inputs toy_bufs) (repeat 0 10 ++ repeat 1 10) in
  t_out (c_ts st 0) = render_spec nat idenc (toy_inputs 0)
  /\ t_out (c_ts st 1) = render_spec nat idenc (toy_inputs 1).
Proof. vm_compute. auto. Qed.
