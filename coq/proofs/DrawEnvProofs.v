(** C06: the terminal size [draw()] validates against is the ACTIVE TERMINAL's window size
    ([model/DrawEnv.v]): with an active terminal the accept / reject decision and everything
    written depend on the window size only -- not on COLUMNS / LINES, not on whatever
    terminal [sys.__stdout__] is connected to. *)
From Coq Require Import List ZArith Bool Lia.
Import ListNotations.
From TI Require Import lib.Term model.Padding model.Draw model.DrawTie model.DrawEnv
     proofs.DrawFinal.
Open Scope Z_scope.

Lemma gts_window e wh : e_window e = Some wh -> get_terminal_size e = wh.
Proof. unfold get_terminal_size. intros ->. reflexivity. Qed.

(** two environments whose active terminals have the same window size are the same
    environment for every draw: same model case, hence same stream and same verdict *)
Theorem env_window_only e1 e2 wh c :
  e_window e1 = Some wh -> e_window e2 = Some wh ->
  env_case e1 c = env_case e2 c
  /\ draw_in_env e1 c = draw_in_env e2 c
  /\ echeck (e1, c) = echeck (e2, c).
Proof.
  intros H1 H2.
  assert (E : env_case e1 c = env_case e2 c).
  { unfold env_case, in_env. rewrite (gts_window e1 wh H1), (gts_window e2 wh H2). reflexivity. }
  unfold draw_in_env, echeck. cbn [fst snd]. rewrite E. repeat split.
Qed.

Theorem new_draw_window_only e1 e2 wh cs allow anim hide fill d w h clear frames :
  e_window e1 = Some wh -> e_window e2 = Some wh ->
  new_draw_in_env e1 cs allow anim hide fill d w h clear frames
  = new_draw_in_env e2 cs allow anim hide fill d w h clear frames.
Proof.
  intros H1 H2. unfold new_draw_in_env. rewrite (gts_window e1 wh H1), (gts_window e2 wh H2). reflexivity.
Qed.

Theorem old_draw_window_only e1 e2 wh cs scroll anim dyn tty rawW rawH ha va w h pre clear frames :
  e_window e1 = Some wh -> e_window e2 = Some wh ->
  old_draw_in_env e1 cs scroll anim dyn tty rawW rawH ha va w h pre clear frames
  = old_draw_in_env e2 cs scroll anim dyn tty rawW rawH ha va w h pre clear frames.
Proof.
  intros H1 H2. unfold old_draw_in_env. rewrite (gts_window e1 wh H1), (gts_window e2 wh H2). reflexivity.
Qed.

(** the draw is rejected (nothing written) exactly when the documented rule, evaluated against
    the WINDOW size, says it does not fit *)
Theorem new_env_rejects_iff e tw th cs allow anim hide fill l t r b w h clear frames :
  e_window e = Some (tw, th) ->
  new_draw_in_env e cs allow anim hide fill (l, t, r, b) w h clear frames = None
  <-> ~ doc_fits cs allow anim (l + w + r) (t + h + b) tw th.
Proof.
  intros He. unfold new_draw_in_env. rewrite (gts_window e _ He). apply draw_rejects_iff.
Qed.

Theorem old_env_rejects_iff e tw th cs scroll anim dyn tty rawW rawH ha va w h pre clear frames :
  e_window e = Some (tw, th) ->
  old_draw_in_env e cs scroll anim dyn tty rawW rawH ha va w h pre clear frames = None
  <-> ~ old_doc_fits cs scroll anim dyn w h rawW rawH tw th.
Proof.
  intros He. unfold old_draw_in_env. rewrite (gts_window e _ He). apply old_draw_rejects_iff.
Qed.

(** the environment record is not decoration: WITHOUT an active terminal the variables do
    decide (so the theorems above say something) *)
Example env_vars_decide_without_terminal :
  let e v := {| e_window := None; e_columns := v; e_lines := Some 50; e_stdout := None |} in
  new_draw_in_env (e (Some 120)) true false false false None (0, 0, 0, 0) 70 3 [] [[]] <> None
  /\ new_draw_in_env (e (Some 40)) true false false false None (0, 0, 0, 0) 70 3 [] [[]] = None.
Proof. vm_compute. split; [discriminate|reflexivity]. Qed.

(** the excluded design -- the standard-library detection first, the terminal itself only as a
    fallback: a stale COLUMNS=120 LINES=50 on a 40 x 10 window makes a 70-column draw
    accepted, in either API, although the documented rule (against the window) rejects it *)
Definition draw_env_first (e : tenv) (w h : Z) : option (list tok) :=
  let '(tw, th) := get_terminal_size_env_first e in
  draw_stream true false false false tw th None (0, 0, 0, 0) w h [] [[]].

Example env_first_refuted :
  let e := {| e_window := Some (40, 10); e_columns := Some 120; e_lines := Some 50; e_stdout := Some (40, 10) |} in
  draw_env_first e 70 3 <> None
  /\ ~ doc_fits true false false 70 3 40 10
  /\ new_draw_in_env e true false false false None (0, 0, 0, 0) 70 3 [] [[]] = None
  /\ old_draw_in_env e true false false false false 1 1 0 0 70 3 [] [] [[]] = None.
Proof.
  split; [vm_compute; discriminate|]. split; [|split; vm_compute; reflexivity].
  unfold doc_fits. intros Hf. specialize (Hf (or_introl eq_refl)). lia.
Qed.
