(** C19, round 7 — the denotation on the output: proofs.

    [den_alpha_agrees]        for every accepted specifier and for BOTH kinds of terminal
                              (background colour known / undetermined) the treatment of
                              transparency computed by the code is the documented one;
    [hash_is_termbg_or_black] the [#] bgcolor denotes the terminal's colour when known
                              and BLACK when undetermined;
    [nofallback_invisible_known_bg], [nofallback_refuted]
                              the variant without the "or black" fall-back coincides with
                              the code on every terminal whose colour is known — and is not
                              a documented treatment (and shows an un-blended pixel) when
                              it is undetermined;
    [carried_agrees]          an iterm2 render carries the current frame only, except a
                              native animation (method A, animated source, not a frame of
                              an iteration), for EVERY source / policy combination;
    [frame_guard_invisible_*], [frame_guard_refuted]
                              the variant whose fast path is guarded by "not frame" is the
                              code on still images and inside iterations — and sends ALL
                              frames for W on an animated file. *)
From Coq Require Import List Bool Arith NArith ZArith.
Import ListNotations.
From TI Require Import model.FmtSpec model.FmtDen proofs.FmtSpecProofs.
Local Open Scope Z_scope.

Lemma impl_eff_denote : forall bg a,
  impl_eff code_fallback bg a = Some (doc_eff (denote_alpha a) bg).
Proof.
  intros bg a. destruct a as [ | | t | t ]; try reflexivity.
  - destruct t as [ | x [ | y tl ] ]; destruct bg; reflexivity.
  - destruct t as [ | x ds ]; reflexivity.
Qed.

Lemma den_alpha_agrees : forall ts sty f sf (bg : termbg),
  (1 <= cols ts)%Z -> (3 <= lines ts)%Z ->
  fields_wf f = true -> sf_ok sty sf = true ->
  match interp ts sty f sf with
  | Accepted r => exists m, doc_interp ts sty f sf = Some m
                            /\ impl_eff code_fallback bg (r_alpha r) = Some (doc_eff (m_t m) bg)
  | _ => True
  end.
Proof.
  intros ts sty f sf bg Hc Hl Hf Hs.
  pose proof (interp_agrees ts sty f sf Hc Hl Hf Hs) as H.
  destruct (interp ts sty f sf) as [ r | | ]; auto.
  exists (denote r). split; [ exact H | ]. apply impl_eff_denote.
Qed.

Lemma hash_is_termbg_or_black :
  (forall c, doc_eff TBgTerminal (Some c) = doc_eff (TBgColor c) (Some c))
  /\ doc_eff TBgTerminal None = doc_eff (TBgColor 0) None
  /\ forall bg, impl_eff code_fallback bg (RStr [35%N]) = Some (EUnder (backdrop bg)).
Proof. repeat split; intros; try reflexivity; destruct bg; reflexivity. Qed.

Lemma nofallback_invisible_known_bg : forall c a,
  impl_eff None (Some c) a = impl_eff code_fallback (Some c) a.
Proof.
  intros c a. destruct a as [ | | t | t ]; try reflexivity.
Qed.

Definition px_half : px := {| p_r := 200; p_g := 100; p_b := 50; p_a := 128 |}.

Lemma nofallback_refuted :
  impl_eff None None (RStr [35%N]) = None
  /\ impl_under None None (RStr [35%N]) = Some UNothing
  /\ doc_eff TBgTerminal None = EUnder 0
  /\ pixel_ok (EUnder 0) px_half (Some (200, 100, 50)) = false     (* un-blended: what the variant shows *)
  /\ pixel_ok (EUnder 0) px_half (Some (100, 50, 25)) = true.      (* over black: what is documented *)
Proof. repeat split; vm_compute; reflexivity. Qed.

(** non-vacuity of the pixel judgement: a threshold below / above the pixel's alpha *)
Example pixel_ok_threshold :
  pixel_ok (doc_eff (TThreshold [53%N]) (Some 16777215)) px_half (Some (227, 177, 152)) = true
  /\ pixel_ok (doc_eff (TThreshold [57%N]) (Some 16777215)) px_half None = true
  /\ pixel_ok (doc_eff (TThreshold [57%N]) (Some 16777215)) px_half (Some (227, 177, 152)) = false
  /\ pixel_ok (doc_eff TDisabled None) px_half (Some (200, 100, 50)) = true.
Proof. repeat split; vm_compute; reflexivity. Qed.

(** * frames *)

Lemma carried_agrees : forall s frame method,
  impl_carried code_guard s frame method = doc_carried (s_animated s) frame method.
Proof.
  intros [ [] [] [] [] [] ] [] method;
    destruct method as [ | [ | [ | [ | k ] ] ] ]; reflexivity.
Qed.

Lemma den_frames_agrees : forall m cur s frame,
  impl_carried code_guard s frame (eff_method m cur)
  = doc_carried (s_animated s) frame (eff_method m cur).
Proof. intros. apply carried_agrees. Qed.

Lemma frame_guard_invisible_still : forall s frame method,
  s_animated s = false ->
  frame = false ->
  impl_carried frame_guard s frame method = impl_carried code_guard s frame method.
Proof.
  intros [ [] [] [] [] [] ] [] method Ha Hf; try discriminate;
    destruct method as [ | [ | [ | [ | k ] ] ] ]; reflexivity.
Qed.

Lemma frame_guard_invisible_iteration : forall s method,
  impl_carried frame_guard s true method = impl_carried code_guard s true method.
Proof.
  intros [ [] [] [] [] [] ] method;
    destruct method as [ | [ | [ | [ | k ] ] ] ]; reflexivity.
Qed.

Definition anim_file : isrc :=
  {| s_animated := true; s_readable := true; s_fits := true; s_modeok := true; s_rff := true |}.

Lemma frame_guard_refuted :
  impl_carried frame_guard anim_file false 2 = AllNative
  /\ doc_carried (s_animated anim_file) false 2 = Current
  /\ impl_carried code_guard anim_file false 2 = Current
  /\ impl_carried code_guard anim_file false 3 = AllNative.
Proof. repeat split; reflexivity. Qed.

Lemma frame_guard_invisible : forall s method,
  (s_animated s = false -> impl_carried frame_guard s false method = impl_carried code_guard s false method)
  /\ impl_carried frame_guard s true method = impl_carried code_guard s true method.
Proof.
  intros s method. split.
  - intro H. apply frame_guard_invisible_still; [ exact H | reflexivity ].
  - apply frame_guard_invisible_iteration.
Qed.
