(** C16: every method / operator refines its value-level rule; lifted to programs. *)
From Coq Require Import List ZArith Bool Arith Lia.
Import ListNotations.
From TI Require Import model.RArgs proofs.RArgsBasics proofs.RArgsProofs.

Local Arguments Nat.eqb : simpl never.

(** ** equality of denotations up to extensionality *)

Definition sv_eq (a b : sval) : Prop := s_cls a = s_cls b /\ forall c, s_ns a c = s_ns b c.
Definition rs_eq (a b : res sval) : Prop :=
  match a, b with
  | Ok x, Ok y => sv_eq x y
  | Err e, Err e' => e = e'
  | _, _ => False
  end.

Lemma agree_rs_eq : forall h r a b, agree h r a -> rs_eq a b -> agree h r b.
Proof.
  intros h r a b H E. destruct r as [i|e]; destruct a as [x|ea]; destruct b as [y|eb];
    simpl in *; try contradiction; try congruence.
  destruct H as (k & d & G & D). destruct E as [E1 E2]. exists k, d. rewrite <- E1.
  split; [assumption|]. intro c. rewrite D. apply E2.
Qed.

Lemma agree_mono : forall F h h' r s, WF F h -> mono h h' -> agree h r s -> agree h' r s.
Proof.
  intros F h h' r s W M A. destruct r; destruct s; simpl in *; try assumption.
  eapply mono_denotes; eauto.
Qed.

Section Ops.
Variable F : forest.
Hypothesis WFF : wf_forest F.

Lemma denotes_dom : forall h i s, WF F h -> denotes h i s ->
  forall c, (exists f, s_ns s c = Some f) <-> anc F c (s_cls s) && hasns F c = true.
Proof.
  intros h i s W (k & d & G & D) c. rewrite <- D. rewrite dget_some_iff.
  rewrite (wf_keys _ _ W _ _ _ _ G). apply keys_In.
Qed.

Lemma denotes_none : forall h i s c, WF F h -> denotes h i s ->
  anc F c (s_cls s) && hasns F c = false -> s_ns s c = None.
Proof.
  intros h i s c W D H. destruct (s_ns s c) as [f|] eqn:E; [|reflexivity].
  assert (anc F c (s_cls s) && hasns F c = true) by (eapply denotes_dom; eauto). congruence.
Qed.

Lemma denotes_some : forall h i s c, WF F h -> denotes h i s ->
  anc F c (s_cls s) && hasns F c = true -> exists f, s_ns s c = Some f.
Proof. intros. eapply denotes_dom; eauto. Qed.

(** the result of a constructor call depends on the namespace list only through
    compatibility and "the last namespace given for each class" *)
Lemma spec_construct_ext : forall t iv nss nss',
  forallb (ns_compatible F t) nss = forallb (ns_compatible F t) nss' ->
  (forall c, last_for c nss = last_for c nss') ->
  rs_eq (spec_construct F t iv nss) (spec_construct F t iv nss').
Proof.
  intros t iv nss nss' HC HL. unfold spec_construct. rewrite <- HC.
  destruct (match iv with Some v => negb (anc F (s_cls v) t) | None => false end);
    [reflexivity|].
  destruct (negb (forallb (ns_compatible F t) nss)); [reflexivity|].
  split; [reflexivity|]. intro c. simpl. rewrite HL. reflexivity.
Qed.

Lemma rs_eq_refl : forall a, rs_eq a a.
Proof. intros [x|e]; simpl; [split; reflexivity|reflexivity]. Qed.

(** *** a generic wrapper: an operation that is one constructor call *)
Definition good (h : heap) (x : heap * res nat) (s : res sval) : Prop :=
  WF F (fst x) /\ mono h (fst x) /\ agree (fst x) (snd x) s.

Lemma good_construct : forall h k cls init iv nss s,
  WF F h -> init_agree h init iv ->
  rs_eq (spec_construct F cls iv nss) s ->
  good h (construct F h k cls init nss) s.
Proof.
  intros h k cls init iv nss s W IA E.
  destruct (construct_refines F WFF h k cls init iv nss W IA) as (A & B & C).
  split; [assumption|]. split; [assumption|]. eapply agree_rs_eq; eauto.
Qed.

Lemma good_err : forall h e, WF F h -> good h (h, Err e) (Err e).
Proof. intros. split; [assumption|]. split; [apply mono_refl|reflexivity]. Qed.

(** *** field update *)

Lemma set_nth_length : forall l n v, length (set_nth l n v) = length l.
Proof. induction l; destruct n; simpl; intros; auto. Qed.

Lemma set_nth_nth : forall l n v j,
  nth j (set_nth l n v) 0%Z = if Nat.eqb n j && (n <? length l) then v else nth j l 0%Z.
Proof.
  induction l as [|x l IH]; intros n v j.
  - simpl. rewrite andb_false_r. destruct n; reflexivity.
  - destruct n as [|n]; destruct j as [|j]; simpl; try reflexivity.
    + rewrite IH. change (S n =? S j) with (n =? j). change (S n <? S (length l)) with (n <? length l).
      reflexivity.
Qed.

Lemma fold_set_nth : forall fields f,
  length (fold_left (fun acc p => set_nth acc (fst p) (snd p)) fields f) = length f /\
  forall j, nth j (fold_left (fun acc p => set_nth acc (fst p) (snd p)) fields f) 0%Z =
            match last_val j fields with
            | Some z => if j <? length f then z else 0%Z
            | None => nth j f 0%Z
            end.
Proof.
  induction fields as [|[n v] r IH]; intros f; simpl.
  - split; reflexivity.
  - destruct (IH (set_nth f n v)) as [H1 H2]. rewrite set_nth_length in *. split; [assumption|].
    intro j. rewrite H2. destruct (last_val j r); [reflexivity|].
    rewrite set_nth_nth. destruct (Nat.eqb n j) eqn:E; simpl; [|reflexivity].
    apply Nat.eqb_eq in E. subst n. destruct (j <? length f) eqn:L; [reflexivity|].
    apply Nat.ltb_ge in L. apply nth_overflow. assumption.
Qed.

Lemma map_nth_seq : forall (f : list Z), map (fun j => nth j f 0%Z) (seq 0 (length f)) = f.
Proof.
  intros f. apply (nth_ext _ _ 0%Z 0%Z).
  - rewrite map_length, seq_length. reflexivity.
  - intros n Hn. rewrite map_length, seq_length in Hn.
    rewrite (nth_indep _ 0%Z (nth 0 f 0%Z)) by (rewrite map_length, seq_length; assumption).
    rewrite (map_nth (fun j => nth j f 0%Z)). rewrite seq_nth by assumption. reflexivity.
Qed.

Lemma ns_update_spec : forall c f fields, ns_update F c f fields = spec_fields F c f fields.
Proof.
  intros c f fields. unfold ns_update, spec_fields. destruct fields as [|p r].
  - simpl. rewrite map_nth_seq. reflexivity.
  - remember (p :: r) as fields. clear Heqfields.
    destruct (existsb (fun p0 => length (dflt F c) <=? fst p0) fields); [reflexivity|].
    f_equal. destruct (fold_set_nth fields f) as [H1 H2].
    apply (nth_ext _ _ 0%Z 0%Z).
    + rewrite H1, map_length, seq_length. reflexivity.
    + intros n Hn. rewrite H1 in Hn. rewrite H2.
      set (g := fun j => match last_val j fields with Some z => z | None => nth j f 0%Z end).
      rewrite (nth_indep (map g (seq 0 (length f))) 0%Z (g 0)) by (rewrite map_length, seq_length; assumption).
      rewrite (map_nth g). rewrite seq_nth by assumption. unfold g. simpl.
      destruct (last_val n fields); [|reflexivity].
      apply Nat.ltb_lt in Hn. rewrite Hn. reflexivity.
Qed.

(** *** last_for on short lists and on filtered dictionaries *)

Lemma last_for_filter : forall (g : nat -> bool) d c,
  last_for c (filter (fun kv => g (fst kv)) d) = if g c then last_for c d else None.
Proof.
  induction d as [|[k v] r IH]; intros c; simpl.
  - destruct (g c); reflexivity.
  - destruct (g k) eqn:Gk; simpl; rewrite IH.
    + destruct (g c) eqn:Gc; [reflexivity|].
      destruct (Nat.eqb k c) eqn:E; [|reflexivity].
      apply Nat.eqb_eq in E. congruence.
    + destruct (g c) eqn:Gc; [|reflexivity].
      destruct (Nat.eqb k c) eqn:E.
      * apply Nat.eqb_eq in E. congruence.
      * destruct (last_for c r); reflexivity.
Qed.

Lemma compat_fst : forall t a b, fst a = fst b -> ns_compatible F t a = ns_compatible F t b.
Proof. intros. unfold ns_compatible. rewrite H. reflexivity. Qed.

(** ** One operation *)

Definition env_agree (h : heap) (env : list (res nat)) (senv : list (res sval)) : Prop :=
  Forall2 (agree h) env senv.

Definition look (senv : list (res sval)) (v : nat) : option sval :=
  match nth_error senv v with Some (Ok s) => Some s | _ => None end.

Lemma lookup_agree : forall h env senv v, env_agree h env senv ->
  match lookup env v, look senv v with
  | Some i, Some s => denotes h i s
  | None, None => True
  | _, _ => False
  end.
Proof.
  intros h env senv v H. unfold lookup, look. revert v.
  induction H as [|r s env senv A H IH]; intros v.
  - destruct v; simpl; exact I.
  - destruct v as [|v]; simpl.
    + destruct r; destruct s; simpl in A; try contradiction; auto.
    + apply IH.
Qed.

Lemma convert_refines : forall h i s rc, WF F h -> denotes h i s ->
  good h (convert F h i rc)
       (if anc F (s_cls s) rc then spec_construct F rc (Some s) []
        else if anc F rc (s_cls s) then
          Ok {| s_cls := rc; s_ns := fun c => if anc F c rc then s_ns s c else None |}
        else Err EValue).
Proof.
  intros h i s rc W D. pose proof D as (k & d & G & Dd). unfold convert. rewrite G.
  destruct (Nat.eqb rc (s_cls s)) eqn:E.
  - (* same class: self *)
    apply Nat.eqb_eq in E. subst rc. rewrite anc_refl by assumption.
    split; [assumption|]. split; [apply mono_refl|]. simpl.
    rewrite spec_construct_ok by (try apply anc_refl; try assumption; reflexivity).
    exists k, d. split; [assumption|]. intro c. simpl. unfold want. simpl.
    destruct (anc F c (s_cls s) && hasns F c) eqn:A.
    + destruct (denotes_some h i s c W D A) as [f Hf]. rewrite Dd, Hf. reflexivity.
    + rewrite Dd. eapply denotes_none; eauto.
  - destruct (anc F (s_cls s) rc) eqn:A1.
    + apply good_construct with (iv := Some s); try assumption. apply rs_eq_refl.
    + destruct (anc F rc (s_cls s)) eqn:A2.
      * (* to an ancestor: the namespaces the ancestor knows *)
        apply good_construct with (iv := None); try assumption; [exact I|].
        set (fl := filter (fun kv => dmem (defaults F rc) (fst kv)) d).
        assert (CP : forallb (ns_compatible F rc) fl = true).
        { apply forallb_forall. intros n Hn. unfold fl in Hn. apply filter_In in Hn as [_ Hn].
          apply dmem_In in Hn. rewrite keys_defaults in Hn. apply keys_In in Hn. exact Hn. }
        rewrite spec_construct_ok by (try exact I; assumption).
        split; [reflexivity|]. intro c. simpl. unfold want.
        unfold fl. rewrite (last_for_filter (fun k0 => dmem (defaults F rc) k0)).
        rewrite last_for_NoDup
          by (rewrite (wf_keys _ _ W _ _ _ _ G); apply keys_NoDup; assumption).
        rewrite Dd.
        assert (DM : dmem (defaults F rc) c = anc F c rc && hasns F c).
        { apply eq_true_iff_eq. rewrite dmem_In, keys_defaults. apply keys_In. }
        rewrite DM. destruct (anc F c rc) eqn:A3; simpl.
        -- destruct (hasns F c) eqn:HN.
           ++ assert (anc F c (s_cls s) && hasns F c = true) as A4.
              { rewrite HN, andb_true_r. eapply anc_trans; eauto. }
              destruct (denotes_some h i s c W D A4) as [f Hf]. rewrite Hf. reflexivity.
           ++ symmetry. eapply denotes_none; eauto. rewrite HN. apply andb_false_r.
        -- reflexivity.
      * apply good_err. assumption.
Qed.

Lemma update_fields_refines : forall h i s rc fields, WF F h -> denotes h i s ->
  good h (update_fields F h i rc fields)
       (match spec_getitem F s rc with
        | Err e => Err e
        | Ok f =>
          match spec_fields F rc f fields with
          | Err e => Err e
          | Ok f' => Ok {| s_cls := s_cls s;
                           s_ns := fun c => if Nat.eqb c rc then Some f' else s_ns s c |}
          end
        end).
Proof.
  intros h i s rc fields W D. pose proof D as (k & d & G & Dd).
  unfold update_fields. rewrite G. unfold getitem, spec_getitem. rewrite Dd.
  destruct (s_ns s rc) as [f|] eqn:E.
  - assert (A : anc F rc (s_cls s) && hasns F rc = true) by (eapply denotes_dom; eauto).
    pose proof A as A'. apply andb_true_iff in A' as [A1 A2]. rewrite A1. simpl.
    rewrite ns_update_spec. destruct (spec_fields F rc f fields) as [f'|e].
    + apply good_construct with (iv := Some s); try assumption.
      rewrite spec_construct_ok.
      * split; [reflexivity|]. intro c. simpl. unfold want. simpl.
        rewrite (Nat.eqb_sym c rc). destruct (Nat.eqb rc c) eqn:E2.
        -- apply Nat.eqb_eq in E2. subst c. rewrite A. reflexivity.
        -- destruct (anc F c (s_cls s) && hasns F c) eqn:A3.
           ++ destruct (denotes_some h i s c W D A3) as [g Hg]. rewrite Hg. reflexivity.
           ++ symmetry. eapply denotes_none; eauto.
      * apply anc_refl. assumption.
      * simpl. unfold ns_compatible. simpl. rewrite A. reflexivity.
    + apply good_err. assumption.
  - destruct (anc F rc (s_cls s)); simpl; apply good_err; assumption.
Qed.

Lemma last_for_two : forall c (x y : nsv),
  last_for c [x; y] = if Nat.eqb (fst y) c then Some (snd y)
                      else if Nat.eqb (fst x) c then Some (snd x) else None.
Proof. intros c [kx vx] [ky vy]. simpl. destruct (Nat.eqb ky c); reflexivity. Qed.

Lemma last_for_one : forall c (x : nsv),
  last_for c [x] = if Nat.eqb (fst x) c then Some (snd x) else None.
Proof. intros c [kx vx]. reflexivity. Qed.

Definition related (a b : nat) : bool := anc F a b || anc F b a.
Definition most_derived (a b : nat) : nat := if anc F b a then a else b.

Definition or_spec (senv : list (res sval)) (a : nsv) (b : nsv + nat) (other_wins : bool)
  : res sval :=
  match b with
  | inl n =>
    if negb (related (fst a) (fst n)) then Err EIncompatNS
    else spec_construct F (most_derived (fst a) (fst n)) None
                        (if other_wins then [a; n] else [n; a])
  | inr v =>
    match look senv v with
    | None => Err EBadOperand
    | Some s =>
      if negb (related (fst a) (s_cls s)) then Err EIncompatRA
      else spec_construct F (most_derived (fst a) (s_cls s)) (Some s) [a]
    end
  end.

Lemma or_ra_refines : forall h a i s, WF F h -> denotes h i s ->
  good h (ns_or F h a (ORa i))
       (if negb (related (fst a) (s_cls s)) then Err EIncompatRA
        else spec_construct F (most_derived (fst a) (s_cls s)) (Some s) [a]).
Proof.
  intros h a i s W D. pose proof D as (k & d & G & Dd). unfold ns_or. rewrite G.
  unfold related, most_derived.
  destruct (anc F (s_cls s) (fst a)) eqn:A1.
  - rewrite orb_true_r. simpl. apply good_construct with (iv := Some s); try assumption.
    apply rs_eq_refl.
  - rewrite orb_false_r. destruct (anc F (fst a) (s_cls s)) eqn:A2; simpl.
    + apply good_construct with (iv := Some s); try assumption. apply rs_eq_refl.
    + apply good_err. assumption.
Qed.

Lemma or_ns_refines : forall h a n, WF F h ->
  good h (ns_or F h a (ONs n))
       (if negb (related (fst a) (fst n)) then Err EIncompatNS
        else spec_construct F (most_derived (fst a) (fst n)) None [a; n]).
Proof.
  intros h a n W. unfold ns_or, related, most_derived.
  destruct (Nat.eqb (fst a) (fst n)) eqn:E.
  - apply Nat.eqb_eq in E. rewrite <- E. rewrite anc_refl by assumption. simpl.
    apply good_construct with (iv := None); try assumption; [exact I|].
    apply spec_construct_ext.
    + simpl. rewrite (compat_fst _ a n E).
      destruct (ns_compatible F (fst a) n); reflexivity.
    + intro c. rewrite last_for_one, last_for_two. rewrite E.
      destruct (Nat.eqb (fst n) c); reflexivity.
  - destruct (anc F (fst n) (fst a)) eqn:A1.
    + rewrite orb_true_r. simpl. apply good_construct with (iv := None); try assumption;
        [exact I|apply rs_eq_refl].
    + rewrite orb_false_r. destruct (anc F (fst a) (fst n)) eqn:A2; simpl.
      * apply good_construct with (iv := None); try assumption; [exact I|apply rs_eq_refl].
      * apply good_err. assumption.
Qed.

Lemma ror_ns_refines : forall h a n, WF F h ->
  good h (ns_ror F h a (ONs n))
       (if negb (related (fst a) (fst n)) then Err EIncompatNS
        else spec_construct F (most_derived (fst a) (fst n)) None [n; a]).
Proof.
  intros h a n W. unfold ns_ror.
  destruct (Nat.eqb (fst a) (fst n)) eqn:E.
  - apply Nat.eqb_eq in E. unfold related, most_derived. rewrite <- E.
    rewrite anc_refl by assumption. simpl.
    apply good_construct with (iv := None); try assumption; [exact I|].
    apply spec_construct_ext.
    + simpl. rewrite (compat_fst _ n a (eq_sym E)).
      destruct (ns_compatible F (fst a) a); reflexivity.
    + intro c. rewrite last_for_one, last_for_two. rewrite E.
      destruct (Nat.eqb (fst n) c); reflexivity.
  - pose proof (or_ns_refines h a n W) as (A & B & C).
    split; [assumption|]. split; [assumption|]. eapply agree_rs_eq; [exact C|].
    destruct (negb (related (fst a) (fst n))); [reflexivity|].
    apply spec_construct_ext.
    + simpl. rewrite !andb_true_r. apply andb_comm.
    + intro c. rewrite !last_for_two.
      destruct (Nat.eqb (fst n) c) eqn:E1; destruct (Nat.eqb (fst a) c) eqn:E2; try reflexivity.
      apply Nat.eqb_eq in E1, E2. apply Nat.eqb_neq in E. congruence.
Qed.

Lemma spec_op_or : forall senv a b (w : bool),
  spec_op F senv (if w then OOr a b else ORor a b) = or_spec senv a b w.
Proof. intros senv a b [|]; reflexivity. Qed.

Theorem step_op_refines : forall h env senv o,
  WF F h -> env_agree h env senv ->
  good h (step_op F h env o) (spec_op F senv o).
Proof.
  intros h env senv o W EA.
  destruct o as [k cls init nss|v nss|v rc fields|v rc|a b|a b|a|a rc].
  - (* constructor *)
    destruct init as [v|]; simpl.
    + pose proof (lookup_agree h env senv v EA) as L. unfold look in L.
      destruct (lookup env v) as [i|];
        destruct (match nth_error senv v with Some (Ok s) => Some s | _ => None end) as [s|];
        try contradiction.
      * apply good_construct with (iv := Some s); try assumption. apply rs_eq_refl.
      * apply good_err. assumption.
    + apply good_construct with (iv := None); try assumption; [exact I|apply rs_eq_refl].
  - (* update(namespace, ...) *)
    simpl. destruct nss as [|n0 nss']; [apply good_err; assumption|].
    pose proof (lookup_agree h env senv v EA) as L. unfold look in L.
    destruct (lookup env v) as [i|];
      destruct (match nth_error senv v with Some (Ok s) => Some s | _ => None end) as [s|];
      try contradiction.
    + pose proof L as (k & d & G & Dd). unfold update_ns. rewrite G.
      apply good_construct with (iv := Some s); try assumption. apply rs_eq_refl.
    + apply good_err. assumption.
  - (* update(render_cls, **fields) *)
    simpl. pose proof (lookup_agree h env senv v EA) as L. unfold look in L.
    destruct (lookup env v) as [i|];
      destruct (match nth_error senv v with Some (Ok s) => Some s | _ => None end) as [s|];
      try contradiction.
    + apply update_fields_refines; assumption.
    + apply good_err. assumption.
  - (* convert *)
    simpl. pose proof (lookup_agree h env senv v EA) as L. unfold look in L.
    destruct (lookup env v) as [i|];
      destruct (match nth_error senv v with Some (Ok s) => Some s | _ => None end) as [s|];
      try contradiction.
    + apply convert_refines; assumption.
    + apply good_err. assumption.
  - (* a | b *)
    rewrite (spec_op_or senv a b true). unfold or_spec. destruct b as [n|v]; simpl.
    + apply or_ns_refines. assumption.
    + pose proof (lookup_agree h env senv v EA) as L.
      destruct (lookup env v) as [i|]; destruct (look senv v) as [s|]; try contradiction.
      * apply or_ra_refines; assumption.
      * apply good_err. assumption.
  - (* a.__ror__(b) *)
    rewrite (spec_op_or senv a b false). unfold or_spec. destruct b as [n|v]; simpl.
    + apply ror_ns_refines. assumption.
    + pose proof (lookup_agree h env senv v EA) as L.
      destruct (lookup env v) as [i|]; destruct (look senv v) as [s|]; try contradiction.
      * apply or_ra_refines; assumption.
      * apply good_err. assumption.
  - simpl. apply good_construct with (iv := None); try assumption; [exact I|apply rs_eq_refl].
  - simpl. apply good_construct with (iv := None); try assumption; [exact I|apply rs_eq_refl].
Qed.

(** ** Programs *)

Definition Inv (s : state) (senv : list (res sval)) : Prop :=
  WF F (fst s) /\ env_agree (fst s) (snd s) senv.

Lemma Forall2_impl' : forall A B (P Q : A -> B -> Prop) l l',
  (forall x y, P x y -> Q x y) -> Forall2 P l l' -> Forall2 Q l l'.
Proof. intros A B P Q l l' H H2. induction H2; constructor; auto. Qed.

Lemma step_Inv : forall s senv o, Inv s senv ->
  Inv (step F s o) (senv ++ [spec_op F senv o]) /\ mono (fst s) (fst (step F s o)).
Proof.
  intros [h env] senv o [W EA]. simpl in *.
  pose proof (step_op_refines h env senv o W EA) as (A & B & C).
  unfold step. simpl. destruct (step_op F h env o) as [h' r]. simpl in *.
  split; [|assumption]. split; [assumption|].
  apply Forall2_app.
  - eapply Forall2_impl'; [|exact EA]. intros x y Hxy. apply (agree_mono F h h'); assumption.
  - constructor; [assumption|constructor].
Qed.

Lemma run_from_Inv : forall p s senv, Inv s senv ->
  Inv (run_from F s p) (spec_run_from F senv p) /\ mono (fst s) (fst (run_from F s p)).
Proof.
  induction p as [|o p IH]; intros s senv H; simpl.
  - split; [assumption|apply mono_refl].
  - destruct (step_Inv s senv o H) as [H1 H2].
    destruct (IH _ _ H1) as [H3 H4]. split; [assumption|]. eapply mono_trans; eauto.
Qed.

Lemma Inv_init : Inv (heap0, []) [].
Proof. split; [apply WF_heap0; assumption|constructor]. Qed.

(** every result of a program denotes, IN THE FINAL HEAP, what the rule says for it
    (so nothing that happened after its creation changed it), and errors coincide *)
Theorem run_refines : forall p,
  WF F (fst (run F p)) /\
  Forall2 (agree (fst (run F p))) (snd (run F p)) (spec_run F p).
Proof.
  intros p. destruct (run_from_Inv p _ _ Inv_init) as [[A B] _]. split; assumption.
Qed.

Lemma run_app : forall p q, run F (p ++ q) = run_from F (run F p) q.
Proof. intros. unfold run, run_from. apply fold_left_app. Qed.

Theorem run_mono : forall p q, mono (fst (run F p)) (fst (run F (p ++ q))).
Proof.
  intros p q. rewrite run_app.
  destruct (run_from_Inv p _ _ Inv_init) as [H _].
  destruct (run_from_Inv q _ _ H) as [_ M]. exact M.
Qed.

(** the shared default set of a class, once interned, is never replaced nor altered *)
Theorem default_shared_never_altered : forall p q k c i,
  itn (fst (run F p)) k c = Some i ->
  itn (fst (run F (p ++ q))) k c = Some i /\
  getobj (fst (run F (p ++ q))) i = Some (k, c, defaults F c) /\
  getobj (fst (run F p)) i = Some (k, c, defaults F c).
Proof.
  intros p q k c i H. destruct (run_mono p q) as (_ & _ & M).
  pose proof (M _ _ _ H) as H'. split; [assumption|].
  destruct (run_refines (p ++ q)) as [W _]. destruct (run_refines p) as [W0 _].
  split; [apply (wf_itn _ _ W); assumption|apply (wf_itn _ _ W0); assumption].
Qed.

Theorem base_never_altered : forall p,
  getobj (fst (run F p)) BASE = Some (0, 0, []) /\ itn (fst (run F p)) 0 0 = Some BASE.
Proof.
  intros p. destruct (run_refines p) as [W _]. split.
  - eapply base_obj; eauto.
  - apply (wf_base _ _ W).
Qed.

(** ** equality and hash *)

Lemma deq_true : forall a b, deq a b = true ->
  forall c f, dget a c = Some f -> dget b c = Some f.
Proof.
  unfold deq. intros a b H c f Hc. apply andb_true_iff in H as [_ H].
  rewrite forallb_forall in H.
  assert (In (c, f) a) as Hin.
  { clear H. induction a as [|[k v] a IH]; simpl in Hc; [discriminate|].
    destruct (Nat.eqb k c) eqn:E.
    - apply Nat.eqb_eq in E. inversion Hc; subst. left. reflexivity.
    - right. apply IH. assumption. }
  apply H in Hin. simpl in Hin. destruct (dget b c) as [v|]; [|discriminate].
  apply zl_eqb_eq in Hin. congruence.
Qed.

Theorem eq_hash : forall h x y, WF F h -> req h x y = true -> rhash h x = rhash h y.
Proof.
  intros h x y W H. unfold req, rhash in *.
  destruct (getobj h x) as [[[kx cx] dx]|] eqn:Gx; [|discriminate].
  destruct (getobj h y) as [[[ky cy] dy]|] eqn:Gy; [|discriminate].
  apply orb_true_iff in H as [H|H].
  - apply Nat.eqb_eq in H. subst y. rewrite Gx in Gy. inversion Gy; subst. reflexivity.
  - apply andb_true_iff in H as [H1 H2]. apply Nat.eqb_eq in H1. subst cy.
    f_equal. f_equal.
    pose proof (wf_keys _ _ W _ _ _ _ Gx) as Kx. pose proof (wf_keys _ _ W _ _ _ _ Gy) as Ky.
    apply dict_ext.
    + congruence.
    + rewrite Kx. apply keys_NoDup. assumption.
    + intro c. destruct (dget dx c) as [f|] eqn:E.
      * symmetry. eapply deq_true; eauto.
      * symmetry. apply dget_None_notin. rewrite Ky, <- Kx. apply dget_None_notin. assumption.
Qed.

(** [==] is exactly "same class and same values" *)
Theorem eq_iff_same_denotation : forall h x y sx sy, WF F h ->
  denotes h x sx -> denotes h y sy ->
  (req h x y = true <-> sv_eq sx sy).
Proof.
  intros h x y sx sy W (kx & dx & Gx & Dx) (ky & dy & Gy & Dy). split.
  - intro H. pose proof (eq_hash h x y W H) as HH. unfold rhash in HH.
    rewrite Gx, Gy in HH. inversion HH; subst. split; [assumption|].
    intro c. rewrite <- Dx, <- Dy. reflexivity.
  - intros [E1 E2]. unfold req. rewrite Gx, Gy. apply orb_true_iff. right.
    rewrite E1, Nat.eqb_refl. simpl.
    assert (dx = dy).
    { pose proof (wf_keys _ _ W _ _ _ _ Gx) as Kx. pose proof (wf_keys _ _ W _ _ _ _ Gy) as Ky.
      apply dict_ext.
      - congruence.
      - rewrite Kx. apply keys_NoDup. assumption.
      - intro c. rewrite Dx, Dy. apply E2. }
    subst dy. unfold deq. rewrite Nat.eqb_refl. simpl.
    apply forallb_forall. intros [c f] Hin. simpl.
    pose proof (wf_keys _ _ W _ _ _ _ Gx) as Kx.
    assert (ND : NoDup (map fst dx)) by (rewrite Kx; apply keys_NoDup; assumption).
    assert (dget dx c = Some f) as ->.
    { clear -Hin ND. induction dx as [|[k v] r IH]; [destruct Hin|]. simpl in *.
      apply NoDup_cons_iff in ND as [N1 N2]. destruct Hin as [Hin|Hin].
      - inversion Hin; subst. rewrite Nat.eqb_refl. reflexivity.
      - destruct (Nat.eqb k c) eqn:E.
        + apply Nat.eqb_eq in E. subst k. exfalso. apply N1.
          change c with (fst (c, f)). apply in_map. assumption.
        + apply IH; assumption. }
    apply zl_eqb_eq. reflexivity.
Qed.

Theorem contains_spec : forall h x s n, denotes h x s ->
  (contains h x n = true <-> s_ns s (fst n) = Some (snd n)).
Proof.
  intros h x s n (k & d & G & D). unfold contains. rewrite G, D.
  destruct (s_ns s (fst n)) as [f|].
  - rewrite zl_eqb_eq. split; congruence.
  - split; discriminate.
Qed.

Theorem ns_eq_hash : forall a b, ns_eq a b = true -> ns_hash a = ns_hash b.
Proof.
  intros [ca fa] [cb fb] H. unfold ns_eq in H. simpl in H. apply andb_true_iff in H as [H1 H2].
  apply Nat.eqb_eq in H1. apply zl_eqb_eq in H2. unfold ns_hash. congruence.
Qed.

End Ops.
