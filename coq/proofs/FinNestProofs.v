(** Proofs about model/FinNest.v: every render-data object is finalized exactly once, for every
    nesting of finalizers (any [body]), any number of threads and every schedule (C10). *)
From Coq Require Import List Bool Arith Lia.
Import ListNotations.
From TI Require Import model.FinNest.

(** ** lists of threads *)
Lemma get_thread_lt : forall l t, get_thread l t <> [] -> t < length l.
Proof.
  unfold get_thread; intros l t H. destruct (Nat.lt_ge_cases t (length l)) as [L | L]; [assumption|].
  rewrite nth_overflow in H by assumption. congruence.
Qed.

Lemma get_thread_in : forall l t f, In f (get_thread l t) -> In f (concat l).
Proof.
  unfold get_thread; induction l as [|y r IH]; intros t f H; [destruct t; destruct H|].
  cbn. apply in_or_app. destruct t; [left; assumption | right; eapply IH; eassumption].
Qed.

Lemma set_thread_in : forall l t x f, t < length l -> In f x -> In f (concat (set_thread l t x)).
Proof.
  induction l as [|y r IH]; intros t x f L H; [cbn in L; lia|].
  destruct t; cbn; apply in_or_app; [left; assumption | right; apply IH; [cbn in L; lia | assumption]].
Qed.

Lemma set_thread_other : forall l t x f,
  In f (concat l) -> In f (get_thread l t) \/ In f (concat (set_thread l t x)).
Proof.
  unfold get_thread; induction l as [|y r IH]; intros t x f H; [destruct H|].
  cbn in H. apply in_app_or in H. destruct t; cbn.
  - destruct H; [left; assumption | right; apply in_or_app; right; assumption].
  - destruct H; [right; apply in_or_app; left; assumption|].
    destruct (IH t x f H); [left; assumption | right; apply in_or_app; right; assumption].
Qed.

Lemma set_thread_back : forall l t x f, In f (concat (set_thread l t x)) -> In f x \/ In f (concat l).
Proof.
  induction l as [|y r IH]; intros t x f H; [destruct t; destruct H|].
  destruct t; cbn in *; apply in_app_or in H.
  - destruct H; [left; assumption | right; apply in_or_app; right; assumption].
  - destruct H; [right; apply in_or_app; left; assumption|].
    destruct (IH t x f H); [left; assumption | right; apply in_or_app; right; assumption].
Qed.

Lemma frames_split : forall l t fr rest x f,
  get_thread l t = fr :: rest -> (forall g, In g rest -> In g x) ->
  In f (concat l) -> f = fr \/ In f (concat (set_thread l t x)).
Proof.
  intros l t fr rest x f G SUB H.
  destruct (set_thread_other l t x f H) as [H1 | H1]; [|right; assumption].
  rewrite G in H1. destruct H1 as [H1 | H1]; [left; symmetry; assumption|].
  right. apply set_thread_in; [apply get_thread_lt; rewrite G; discriminate | apply SUB; assumption].
Qed.

Lemma upd_same : forall h j x, upd h j x j = x.
Proof. intros; unfold upd; rewrite Nat.eqb_refl; reflexivity. Qed.
Lemma upd_other : forall h j x i, i <> j -> upd h j x i = h i.
Proof. intros h j x i N; unfold upd. destruct (Nat.eqb_spec i j); [contradiction | reflexivity]. Qed.

Section Inv.
  Variable body : nat -> list nat.
  Variable progs : list (list nat).

  (** [who] owes a [finalize()] of [j]: the threads' own programs ([None]) for what they list; a
      finalizer that has been entered ([Some i]) for what its body lists *)
  Definition owes (c : cfg) (who : option nat) (j : nat) : Prop :=
    match who with
    | None => In j (concat progs)
    | Some i => o_st (hp c i) <> Idle /\ In j (body i)
    end.

  Record Inv (c : cfg) : Prop := {
    iA : forall j, (o_st (hp c j) = Idle /\ o_calls (hp c j) = 0) \/
                   (o_st (hp c j) <> Idle /\ o_calls (hp c j) = 1);
    iE : forall j, o_st (hp c j) = Running -> exists fr, In fr (frames c) /\ f_obj fr = Some j;
    iR : forall fr i, In fr (frames c) -> f_obj fr = Some i -> o_st (hp c i) <> Idle;
    iO : forall who j, owes c who j ->
           o_st (hp c j) <> Idle \/ exists fr, In fr (frames c) /\ f_obj fr = who /\ In j (f_todo fr)
  }.

  Lemma init_inv : Inv (init progs).
  Proof.
    constructor; cbn.
    - intros j; left; split; reflexivity.
    - intros j H; discriminate.
    - intros fr i H FO. unfold frames in H; cbn in H. apply in_concat in H. destruct H as [th [H1 H2]].
      apply in_map_iff in H1. destruct H1 as [p [<- _]]. destruct H2 as [<- | []]. discriminate.
    - intros [i|] j H; cbn in H; [destruct H as [H _]; exfalso; apply H; reflexivity|].
      right. apply in_concat in H. destruct H as [p [H1 H2]].
      exists {| f_obj := None; f_todo := p |}. split; [|split; [reflexivity | assumption]].
      unfold frames; cbn. apply in_concat. exists [{| f_obj := None; f_todo := p |}].
      split; [apply in_map_iff; exists p; split; [reflexivity | assumption] | left; reflexivity].
  Qed.

  Lemma step_inv : forall c t, Inv c -> step_ok c t = true -> Inv (step body false c t).
  Proof.
    intros c t I OK. unfold step, step_ok in *.
    destruct (get_thread (thr c) t) as [|fr rest] eqn:G; [exact I|].
    assert (LT : t < length (thr c)) by (apply get_thread_lt; rewrite G; discriminate).
    assert (FRIN : In fr (frames c)) by (apply get_thread_in with t; rewrite G; left; reflexivity).
    destruct I as [A E R O].
    destruct (f_todo fr) as [|j more] eqn:TD.
    - (* the frame returns *)
      assert (KEEP : forall f, In f (frames c) -> f = fr \/ In f (concat (set_thread (thr c) t rest))).
      { intros f H. eapply frames_split; [exact G | auto | exact H]. }
      assert (BACK : forall f, In f (concat (set_thread (thr c) t rest)) -> In f (frames c)).
      { intros f H. destruct (set_thread_back _ _ _ _ H) as [H1 | H1]; [|assumption].
        apply get_thread_in with t. rewrite G. right; assumption. }
      destruct (f_obj fr) as [i|] eqn:FO.
      + assert (NI : o_st (hp c i) <> Idle) by (eapply R; eassumption).
        constructor; unfold frames; cbn.
        * intros j. destruct (Nat.eq_dec j i) as [-> | N].
          -- rewrite upd_same; cbn. right. split; [discriminate|].
             destruct (A i) as [[H _] | [_ H]]; [contradiction | assumption].
          -- rewrite upd_other by assumption. apply A.
        * intros j H. destruct (Nat.eq_dec j i) as [-> | N]; [rewrite upd_same in H; discriminate|].
          rewrite upd_other in H by assumption. destruct (E j H) as [f [F1 F2]].
          destruct (KEEP f F1) as [-> | K]; [congruence|]. exists f; split; assumption.
        * intros f i0 H FO0. destruct (Nat.eq_dec i0 i) as [-> | N]; [rewrite upd_same; discriminate|].
          rewrite upd_other by assumption. eapply R; [apply BACK; exact H | exact FO0].
        * intros who j H.
          assert (H' : owes c who j).
          { destruct who as [i0|]; cbn in *; [|assumption]. destruct H as [H1 H2]. split; [|assumption].
            destruct (Nat.eq_dec i0 i) as [-> | N]; [assumption | rewrite upd_other in H1 by assumption; assumption]. }
          destruct (O who j H') as [H1 | [f [F1 [F2 F3]]]].
          -- left. destruct (Nat.eq_dec j i) as [-> | N]; [rewrite upd_same; discriminate|].
             rewrite upd_other by assumption; assumption.
          -- right. destruct (KEEP f F1) as [-> | K]; [rewrite TD in F3; destruct F3|].
             exists f; repeat split; assumption.
      + constructor; unfold frames; cbn.
        * exact A.
        * intros j H. destruct (E j H) as [f [F1 F2]].
          destruct (KEEP f F1) as [-> | K]; [congruence|]. exists f; split; assumption.
        * intros f i0 H FO0. eapply R; [apply BACK; exact H | exact FO0].
        * intros who j H. destruct (O who j H) as [H1 | [f [F1 [F2 F3]]]]; [left; assumption|].
          right. destruct (KEEP f F1) as [-> | K]; [rewrite TD in F3; destruct F3|].
          exists f; repeat split; assumption.
    - (* obj_j.finalize() *)
      rewrite orb_false_r.
      set (fr' := {| f_obj := f_obj fr; f_todo := more |}).
      destruct (is_done (hp c j)) eqn:DJ.
      + (* already finalized: nothing happens *)
        assert (KEEP : forall f, In f (frames c) -> f = fr \/ In f (concat (set_thread (thr c) t (fr' :: rest)))).
        { intros f H. eapply frames_split; [exact G | intros g Hg; right; exact Hg | exact H]. }
        assert (NEW : In fr' (concat (set_thread (thr c) t (fr' :: rest)))).
        { apply set_thread_in; [assumption | left; reflexivity]. }
        assert (BACK : forall f, In f (concat (set_thread (thr c) t (fr' :: rest))) -> f = fr' \/ In f (frames c)).
        { intros f H. destruct (set_thread_back _ _ _ _ H) as [[H1 | H1] | H1]; [left; symmetry; assumption | | right; assumption].
          right. apply get_thread_in with t. rewrite G. right; assumption. }
        constructor; unfold frames; cbn.
        * exact A.
        * intros j0 H. destruct (E j0 H) as [f [F1 F2]].
          destruct (KEEP f F1) as [-> | K]; [exists fr'; split; [exact NEW | exact F2] | exists f; split; assumption].
        * intros f i0 H FO0. destruct (BACK f H) as [-> | B]; [eapply R; [exact FRIN | exact FO0] | eapply R; eassumption].
        * intros who j0 H. destruct (O who j0 H) as [H1 | [f [F1 [F2 F3]]]]; [left; assumption|].
          destruct (KEEP f F1) as [-> | K]; [|right; exists f; repeat split; assumption].
          rewrite TD in F3. destruct F3 as [<- | F3].
          -- left. unfold is_done in DJ. destruct (o_st (hp c j)); discriminate.
          -- right. exists fr'; repeat split; [exact NEW | exact F2 | exact F3].
      + (* the finalizer of [j] is entered *)
        assert (IDLE : o_st (hp c j) = Idle).
        { unfold is_done in DJ; unfold is_running in OK. destruct (o_st (hp c j)); [reflexivity | discriminate | discriminate]. }
        set (nf := {| f_obj := Some j; f_todo := body j |}).
        assert (KEEP : forall f, In f (frames c) -> f = fr \/ In f (concat (set_thread (thr c) t (nf :: fr' :: rest)))).
        { intros f H. eapply frames_split; [exact G | intros g Hg; right; right; exact Hg | exact H]. }
        assert (NEW1 : In nf (concat (set_thread (thr c) t (nf :: fr' :: rest)))).
        { apply set_thread_in; [assumption | left; reflexivity]. }
        assert (NEW2 : In fr' (concat (set_thread (thr c) t (nf :: fr' :: rest)))).
        { apply set_thread_in; [assumption | right; left; reflexivity]. }
        assert (BACK : forall f, In f (concat (set_thread (thr c) t (nf :: fr' :: rest))) ->
                                 f = nf \/ f = fr' \/ In f (frames c)).
        { intros f H. destruct (set_thread_back _ _ _ _ H) as [[H1 | [H1 | H1]] | H1];
            [left; symmetry; assumption | right; left; symmetry; assumption | | right; right; assumption].
          right; right. apply get_thread_in with t. rewrite G. right; assumption. }
        assert (MONO : forall i, o_st (hp c i) <> Idle ->
                                 o_st (upd (hp c) j {| o_st := Running; o_calls := S (o_calls (hp c j)) |} i) <> Idle).
        { intros i H. destruct (Nat.eq_dec i j) as [-> | N]; [rewrite upd_same; discriminate | rewrite upd_other by assumption; assumption]. }
        constructor; unfold frames; cbn.
        * intros j0. destruct (Nat.eq_dec j0 j) as [-> | N].
          -- rewrite upd_same; cbn. right; split; [discriminate|].
             destruct (A j) as [[_ H] | [H _]]; [rewrite H; reflexivity | contradiction].
          -- rewrite upd_other by assumption. apply A.
        * intros j0 H. destruct (Nat.eq_dec j0 j) as [-> | N]; [exists nf; split; [exact NEW1 | reflexivity]|].
          rewrite upd_other in H by assumption. destruct (E j0 H) as [f [F1 F2]].
          destruct (KEEP f F1) as [-> | K]; [exists fr'; split; [exact NEW2 | exact F2] | exists f; split; assumption].
        * intros f i0 H FO0. destruct (BACK f H) as [-> | [-> | B]].
          -- cbn in FO0. inversion FO0; subst i0. rewrite upd_same; discriminate.
          -- apply MONO. eapply R; [exact FRIN | exact FO0].
          -- apply MONO. eapply R; eassumption.
        * intros who j0 H.
          destruct who as [i0|].
          -- cbn in H. destruct H as [H1 H2]. destruct (Nat.eq_dec i0 j) as [-> | N].
             ++ right. exists nf; repeat split; [exact NEW1 | exact H2].
             ++ rewrite upd_other in H1 by assumption.
                destruct (O (Some i0) j0 (conj H1 H2)) as [H3 | [f [F1 [F2 F3]]]]; [left; apply MONO; assumption|].
                destruct (KEEP f F1) as [-> | K]; [|right; exists f; repeat split; assumption].
                rewrite TD in F3. destruct F3 as [<- | F3]; [left; rewrite upd_same; discriminate|].
                right. exists fr'; repeat split; [exact NEW2 | exact F2 | exact F3].
          -- destruct (O None j0 H) as [H3 | [f [F1 [F2 F3]]]]; [left; apply MONO; assumption|].
             destruct (KEEP f F1) as [-> | K]; [|right; exists f; repeat split; assumption].
             rewrite TD in F3. destruct F3 as [<- | F3]; [left; rewrite upd_same; discriminate|].
             right. exists fr'; repeat split; [exact NEW2 | exact F2 | exact F3].
  Qed.

  Lemma run_inv : forall sched c, Inv c -> race_free body false c sched = true -> Inv (run body false c sched).
  Proof.
    induction sched as [|t r IH]; intros c I RF; [exact I|].
    cbn in *. apply andb_true_iff in RF. destruct RF as [OK RF].
    apply IH; [apply step_inv; assumption | assumption].
  Qed.

  Lemma quiescent_no_frames : forall c, quiescent c = true -> frames c = [].
  Proof.
    intros c; unfold quiescent, frames. induction (thr c) as [|th r IH]; intros H; [reflexivity|].
    cbn in H. apply andb_true_iff in H. destruct H as [H1 H2]. destruct th; [|discriminate].
    cbn. apply IH; assumption.
  Qed.

  (** ** at most once, at every moment *)
  Theorem nest_at_most_once : forall sched j,
    race_free body false (init progs) sched = true ->
    let x := hp (run body false (init progs) sched) j in
    o_calls x <= 1 /\ (o_st x = Idle <-> o_calls x = 0) /\ (o_st x = Done -> o_calls x = 1).
  Proof.
    intros sched j RF x. pose proof (run_inv sched _ init_inv RF) as I.
    destruct (iA _ I j) as [[H1 H2] | [H1 H2]]; subst x; rewrite H2.
    - split; [lia|]. split; [tauto | intros H; rewrite H in H1; discriminate].
    - split; [lia|]. split; [split; [contradiction | discriminate] | reflexivity].
  Qed.

  (** ** exactly once when everything has come to rest: every object some thread's program names,
      and every object the finalizer of a finalized object names (so: everything reachable) *)
  Theorem nest_exactly_once : forall sched,
    race_free body false (init progs) sched = true ->
    let c := run body false (init progs) sched in
    quiescent c = true ->
    (forall j, In j (concat progs) -> o_st (hp c j) = Done /\ o_calls (hp c j) = 1) /\
    (forall i j, o_st (hp c i) = Done -> In j (body i) -> o_st (hp c j) = Done /\ o_calls (hp c j) = 1) /\
    (forall j, o_st (hp c j) <> Running).
  Proof.
    intros sched RF c Q. pose proof (run_inv sched _ init_inv RF) as I. fold c in I.
    pose proof (quiescent_no_frames c Q) as NF.
    assert (NR : forall j, o_st (hp c j) <> Running).
    { intros j H. destruct (iE _ I j H) as [f [F _]]. rewrite NF in F. destruct F. }
    assert (FIN : forall j, o_st (hp c j) <> Idle -> o_st (hp c j) = Done /\ o_calls (hp c j) = 1).
    { intros j H. split.
      - specialize (NR j). destruct (o_st (hp c j)); [contradiction | contradiction | reflexivity].
      - destruct (iA _ I j) as [[H1 _] | [_ H1]]; [contradiction | assumption]. }
    split; [|split; [|exact NR]].
    - intros j H. apply FIN. destruct (iO _ I None j H) as [H1 | [f [F _]]]; [assumption | rewrite NF in F; destruct F].
    - intros i j D H. apply FIN.
      assert (OW : owes c (Some i) j) by (split; [rewrite D; discriminate | assumption]).
      destruct (iO _ I (Some i) j OW) as [H1 | [f [F _]]]; [assumption | rewrite NF in F; destruct F].
  Qed.
End Inv.

(** ** non-vacuity: a composite of nesting depth 2 (object 3's finalizer closes iterators over 1 and 2,
    object 1's finalizer one over 0) finalized by one thread while another thread finalizes the
    unrelated 4 and 5 in the middle of it *)
Definition ex_body := body_of [[]; [0]; []; [1; 2]; []; [4]].
Definition ex_progs := [[3]; [5; 4]].
Definition ex_sched := [0; 0; 1; 1; 0; 1; 0; 0; 1; 0; 1; 1; 0; 0; 0; 0; 1; 1; 0; 0].

Example ex_race_free : race_free ex_body false (init ex_progs) ex_sched = true.
Proof. vm_compute; reflexivity. Qed.

Example ex_all_once :
  let c := run ex_body false (init ex_progs) ex_sched in
  quiescent c = true /\
  map (fun j => (is_done (hp c j), o_calls (hp c j))) (seq 0 6) = repeat (true, 1) 6.
Proof. vm_compute; split; reflexivity. Qed.

(** ** the excluded design: ONE non-blocking lock shared by all objects *)

(** (a) a composite, one thread: the outer finalizer holds the lock, [finalize()] of the inner
    object gives up at once - the inner object is never finalized although everything came to rest *)
Example shared_guard_refuted_nested :
  let c := run (body_of [[]; [0]]) true (init [[1]]) (repeat 0 8) in
  quiescent c = true /\ is_done (hp c 1) = true /\
  o_st (hp c 0) = Idle /\ o_calls (hp c 0) = 0.
Proof. vm_compute; repeat split; reflexivity. Qed.

(** (b) two unrelated objects, two threads: thread 0 is inside the finalizer of object 0 when
    thread 1 closes the iterator that owns object 1 *)
Example shared_guard_refuted_threads :
  let c := run (body_of [[]; []]) true (init [[0]; [1]]) [0; 1; 1; 0; 0] in
  quiescent c = true /\ is_done (hp c 0) = true /\
  o_st (hp c 1) = Idle /\ o_calls (hp c 1) = 0.
Proof. vm_compute; repeat split; reflexivity. Qed.

(** ... whereas the code finalizes both, under the same schedules *)
Example code_same_schedules :
  (let c := run (body_of [[]; [0]]) false (init [[1]]) (repeat 0 8) in
   map (fun j => (is_done (hp c j), o_calls (hp c j))) [0; 1] = [(true, 1); (true, 1)]) /\
  (let c := run (body_of [[]; []]) false (init [[0]; [1]]) [0; 1; 1; 0; 0] in
   map (fun j => (is_done (hp c j), o_calls (hp c j))) [0; 1] = [(true, 1); (true, 1)]).
Proof. vm_compute; split; reflexivity. Qed.

(** the statement exported by props/C10.v *)
Lemma shared_guard_refuted_all :
  (race_free ex_body false (init ex_progs) ex_sched = true /\
   quiescent (run ex_body false (init ex_progs) ex_sched) = true) /\
  (let c := run (body_of [[]; [0]]) true (init [[1]]) (repeat 0 8) in
   quiescent c = true /\ is_done (hp c 1) = true /\ o_st (hp c 0) = Idle /\ o_calls (hp c 0) = 0) /\
  (let c := run (body_of [[]; []]) true (init [[0]; [1]]) [0; 1; 1; 0; 0] in
   quiescent c = true /\ is_done (hp c 0) = true /\ o_st (hp c 1) = Idle /\ o_calls (hp c 1) = 0).
Proof.
  split; [split; [exact ex_race_free | exact (proj1 ex_all_once)]|].
  split; [exact shared_guard_refuted_nested | exact shared_guard_refuted_threads].
Qed.
