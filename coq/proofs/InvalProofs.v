(** Proofs for C15: a memoised CALL against a concurrent INVALIDATION
    ([model/CachesInval.v]), as a system over [lib/Sched.v].

    For ANY number of threads, any programs of calls (any argument tuples), bare
    invalidations, [enable_queries] and [disable_queries], and any schedule:

    - at most one thread is inside the decorator's lock region;
    - every cache entry — and every entry a thread is about to store or return — was made
      by a body that STARTED after the last [cache.clear()]; a call that began when [fl]
      invalidations had been executed never returns an entry whose body started before
      the [fl]-th ([inval_no_stale_lemma]);
    - whenever queries are enabled and no [enable_queries] is between its flag write and
      its clear, no entry made by a body that read "disabled" is in the cache, about to be
      stored, or about to be returned ([enable_discards_lemma]).

    The reason is that [invalidate] takes the SAME lock the body runs under: a body in
    flight finishes and stores BEFORE the clear.  The variant whose [invalidate] does not
    take the lock refutes both statements ([inval_refuted_unlocked],
    [enable_refuted_unlocked]). *)
From Coq Require Import List Bool Arith.
Import ListNotations.
From TI Require Import lib.Sched model.CachesInval proofs.C15Arith.

(** inside the region protected by the decorator's lock *)
Definition q_inside (s : qstate) (t : nat) : Prop :=
  match q_pc (q_th s t) with
  | QClear _ | QRelI | QLook _ _ | QBody _ _ | QRun _ _ _ | QStore _ _ _ | QRelC _ _ _ => True
  | _ => False
  end.

Definition pc_floor (p : qpc) : option nat :=
  match p with
  | QLook _ fl | QBody _ fl | QRun _ fl _ | QStore _ fl _ | QRelC _ fl _ => Some fl
  | _ => None
  end.

Definition pc_entry (p : qpc) : option qentry :=
  match p with
  | QRun _ _ en | QStore _ _ en | QRelC _ _ en => Some en
  | _ => None
  end.

Lemma q_holds_entry s t en : q_holds s t en <-> pc_entry (q_pc (q_th s t)) = Some en.
Proof.
  unfold q_holds. split.
  - intros (k & fl & [E|[E|E]]); rewrite E; reflexivity.
  - destruct (q_pc (q_th s t)); simpl; try discriminate; intro E; inversion E; subst; eauto.
Qed.

Record QInv (s : qstate) : Prop := {
  qi_owner : forall t, q_inside s t -> q_lock s = {| owner := Some t; count := 1 |};
  qi_free : (forall t, ~ q_inside s t) -> q_lock s = free_lock;
  (* provenance in time: everything around was made since the last clear *)
  qi_cache_born : forall k en, q_cache s k = Some en -> e_born en = q_invals s;
  qi_held_born : forall t en, pc_entry (q_pc (q_th s t)) = Some en -> e_born en = q_invals s;
  qi_floor : forall t fl, pc_floor (q_pc (q_th s t)) = Some fl -> fl = q_invals s;
  qi_rets : forall t fl k en, In (fl, k, en) (q_rets (q_th s t)) -> fl <= e_born en;
  qi_out : forall t k fl en, q_pc (q_th s t) = QOutC k fl en -> fl <= e_born en;
  (* provenance in condition: an entry made under "disabled" is only around, while the
     flag is on, as long as the [enable_queries] that wrote the flag has its clear ahead *)
  qi_cache_cond : forall k en, q_cache s k = Some en -> e_cond en = false -> q_flag s = true ->
                               exists u, q_pending s u;
  qi_held_cond : forall t en, pc_entry (q_pc (q_th s t)) = Some en -> e_cond en = false ->
                              q_flag s = true -> exists u, q_pending s u
}.

Lemma qinv_init f0 warm prog : QInv (qinit f0 warm prog).
Proof.
  constructor; simpl; unfold q_inside; simpl; try tauto; try discriminate.
  - intros k en C. destruct (warm k); inversion C; reflexivity.
  - intros k en C Cd F. exfalso. destruct (warm k); inversion C; subst. simpl in Cd.
    rewrite orb_true_r in Cd. discriminate.
Qed.

Lemma q_inside_unique s t1 t2 : QInv s -> q_inside s t1 -> q_inside s t2 -> t1 = t2.
Proof. intros I A B. apply (qi_owner s I) in A. apply (qi_owner s I) in B. congruence. Qed.

Lemma q_acquire_free s t :
  QInv s -> ~ q_inside s t -> can_acquire (q_lock s) t = true ->
  (forall u, ~ q_inside s u) /\ q_lock s = free_lock.
Proof.
  intros I NI CA.
  assert (A : forall u, ~ q_inside s u).
  { intros u U. pose proof (qi_owner s I u U) as L. unfold can_acquire in CA. rewrite L in CA.
    simpl in CA. apply Nat.eqb_eq in CA. subst. auto. }
  split; auto. apply (qi_free s I A).
Qed.

Lemma entry_inside s t en : pc_entry (q_pc (q_th s t)) = Some en -> q_inside s t.
Proof. unfold q_inside. destruct (q_pc (q_th s t)); simpl; try discriminate; auto. Qed.

Lemma floor_inside s t fl : pc_floor (q_pc (q_th s t)) = Some fl -> q_inside s t.
Proof. unfold q_inside. destruct (q_pc (q_th s t)); simpl; try discriminate; auto. Qed.

Ltac thr u t :=
  destruct (Nat.eq_dec u t) as [->|?];
  [rewrite ?upd_same in *|rewrite ?upd_other in * by auto].

(** a pending [enable_queries] of another thread stays pending across a step of [t] *)
Lemma pending_other s t x lk fg ca iv rn u :
  u <> t -> q_pending s u ->
  q_pending {| q_lock := lk; q_flag := fg; q_cache := ca; q_invals := iv; q_runs := rn;
               q_th := upd (q_th s) t x |} u.
Proof. intros N P. unfold q_pending in *. simpl. now rewrite upd_other by auto. Qed.

Lemma pending_not s t u : q_pending s u -> q_pc (q_th s t) <> QAcq -> q_pc (q_th s t) <> QClear true -> u <> t.
Proof. intros [P|P] A B ->; congruence. Qed.

Section Step.
  Variables (s : qstate) (t : nat).
  Hypothesis I : QInv s.

  (** what every step of [t] that keeps [t]'s pc out of [QAcq] / [QClear true] on BOTH
      sides needs about the witnesses of the two "condition" invariants *)
  Lemma keep_pending x lk fg ca iv rn :
    q_pc (q_th s t) <> QAcq -> q_pc (q_th s t) <> QClear true ->
    (exists u, q_pending s u) ->
    exists u, q_pending {| q_lock := lk; q_flag := fg; q_cache := ca; q_invals := iv; q_runs := rn;
                           q_th := upd (q_th s) t x |} u.
  Proof.
    intros A B [u P]. exists u. apply pending_other; auto. eapply pending_not; eauto.
  Qed.
End Step.

Lemma qinv_step s t s' : QInv s -> qstep s t = Some s' -> QInv s'.
Proof.
  intros I H. unfold qstep in H.
  destruct (q_pc (q_th s t)) eqn:PC.
  - (* QIdle *)
    assert (NI : ~ q_inside s t) by (unfold q_inside; now rewrite PC).
    assert (NA : q_pc (q_th s t) <> QAcq) by congruence.
    assert (NC : q_pc (q_th s t) <> QClear true) by congruence.
    destruct (q_todo (q_th s t)) as [|[k| | |] rest] eqn:TD; try discriminate.
    + (* a call acquires the lock *)
      destruct (can_acquire (q_lock s) t) eqn:CA; try discriminate.
      inversion H; subst s'; clear H.
      destruct (q_acquire_free s t I NI CA) as [NOBODY FREE].
      constructor; simpl.
      * intros u U. unfold q_inside in U. simpl in U. thr u t.
        -- rewrite FREE. reflexivity.
        -- exfalso. apply (NOBODY u). exact U.
      * intro A. exfalso. apply (A t). unfold q_inside. simpl. now rewrite upd_same.
      * apply (qi_cache_born s I).
      * intros u en E. thr u t; [discriminate|]. apply (qi_held_born s I u); auto.
      * intros u fl E. thr u t; [simpl in E; congruence|]. apply (qi_floor s I u); auto.
      * intros u fl k0 en E. thr u t; eapply (qi_rets s I); simpl in *; eauto.
      * intros u k1 fl1 en1 E. thr u t; [simpl in E; try (destruct (q_flag s)); try (destruct (q_cache s k)); discriminate|]. apply (qi_out s I u k1 fl1 en1); auto.
      * intros k0 en C Cd F. apply keep_pending; auto. apply (qi_cache_cond s I k0 en); auto.
      * intros u en E Cd F. apply keep_pending; auto. thr u t; [discriminate|].
        apply (qi_held_cond s I u en); auto.
    + (* a bare invalidation acquires the lock *)
      destruct (can_acquire (q_lock s) t) eqn:CA; try discriminate.
      inversion H; subst s'; clear H.
      destruct (q_acquire_free s t I NI CA) as [NOBODY FREE].
      constructor; simpl.
      * intros u U. unfold q_inside in U. simpl in U. thr u t.
        -- rewrite FREE. reflexivity.
        -- exfalso. apply (NOBODY u). exact U.
      * intro A. exfalso. apply (A t). unfold q_inside. simpl. now rewrite upd_same.
      * apply (qi_cache_born s I).
      * intros u en E. thr u t; [discriminate|]. apply (qi_held_born s I u); auto.
      * intros u fl E. thr u t; [discriminate|]. apply (qi_floor s I u); auto.
      * intros u fl k0 en E. thr u t; eapply (qi_rets s I); simpl in *; eauto.
      * intros u k1 fl1 en1 E. thr u t; [simpl in E; try (destruct (q_flag s)); try (destruct (q_cache s k)); discriminate|]. apply (qi_out s I u k1 fl1 en1); auto.
      * intros k0 en C Cd F. destruct (qi_cache_cond s I k0 en C Cd F) as [u P]. exists u.
        pose proof (pending_not s t u P NA NC). unfold q_pending in *. simpl. now rewrite upd_other by auto.
      * intros u en E Cd F. thr u t; [discriminate|].
        destruct (qi_held_cond s I u en E Cd F) as [u0 P]. exists u0.
        pose proof (pending_not s t u0 P NA NC). unfold q_pending in *. simpl. now rewrite upd_other by auto.
    + (* the test of enable_queries *)
      inversion H; subst s'; clear H.
      constructor; simpl.
      * intros u U. apply (qi_owner s I). unfold q_inside in *. simpl in U. thr u t; auto.
        simpl in U. destruct (q_flag s); contradiction.
      * intro A. apply (qi_free s I). intros u U. apply (A u). unfold q_inside in *. simpl.
        thr u t; auto. rewrite PC in U. contradiction.
      * apply (qi_cache_born s I).
      * intros u en E. thr u t; [simpl in E; destruct (q_flag s); discriminate|]. apply (qi_held_born s I u); auto.
      * intros u fl E. thr u t; [simpl in E; destruct (q_flag s); discriminate|]. apply (qi_floor s I u); auto.
      * intros u fl k0 en E. thr u t; eapply (qi_rets s I); simpl in *; eauto.
      * intros u k1 fl1 en1 E. thr u t; [simpl in E; try (destruct (q_flag s)); try (destruct (q_cache s k)); discriminate|]. apply (qi_out s I u k1 fl1 en1); auto.
      * intros k0 en C Cd F. apply keep_pending; auto. apply (qi_cache_cond s I k0 en); auto.
      * intros u en E Cd F. apply keep_pending; auto.
        thr u t; [simpl in E; destruct (q_flag s); discriminate|].
        apply (qi_held_cond s I u en); auto.
    + (* disable_queries: the flag goes off; nothing is cleared *)
      inversion H; subst s'; clear H.
      constructor; simpl.
      * intros u U. apply (qi_owner s I). unfold q_inside in *. simpl in U. thr u t; auto.
        simpl in U. contradiction.
      * intro A. apply (qi_free s I). intros u U. apply (A u). unfold q_inside in *. simpl.
        thr u t; auto. rewrite PC in U. contradiction.
      * apply (qi_cache_born s I).
      * intros u en E. thr u t; [discriminate|]. apply (qi_held_born s I u); auto.
      * intros u fl E. thr u t; [discriminate|]. apply (qi_floor s I u); auto.
      * intros u fl k0 en E. thr u t; eapply (qi_rets s I); simpl in *; eauto.
      * intros u k1 fl1 en1 E. thr u t; [simpl in E; try (destruct (q_flag s)); try (destruct (q_cache s k)); discriminate|]. apply (qi_out s I u k1 fl1 en1); auto.
      * discriminate.
      * discriminate.
  - (* QSet: the flag is written; the enable is pending from now on *)
    inversion H; subst s'; clear H.
    assert (PT : forall lk ca iv rn,
               q_pending {| q_lock := lk; q_flag := true; q_cache := ca; q_invals := iv; q_runs := rn;
                            q_th := upd (q_th s) t {| q_pc := QAcq; q_todo := q_todo (q_th s t);
                                                      q_rets := q_rets (q_th s t) |} |} t).
    { intros. left. simpl. now rewrite upd_same. }
    constructor; simpl.
    + intros u U. apply (qi_owner s I). unfold q_inside in *. simpl in U. thr u t; auto.
      simpl in U. contradiction.
    + intro A. apply (qi_free s I). intros u U. apply (A u). unfold q_inside in *. simpl.
      thr u t; auto. rewrite PC in U. contradiction.
    + apply (qi_cache_born s I).
    + intros u en E. thr u t; [discriminate|]. apply (qi_held_born s I u); auto.
    + intros u fl E. thr u t; [discriminate|]. apply (qi_floor s I u); auto.
    + intros u fl k0 en E. thr u t; eapply (qi_rets s I); simpl in *; eauto.
    + intros u k1 fl1 en1 E. thr u t; [simpl in E; try (destruct (q_flag s)); try (destruct (q_cache s k)); discriminate|]. apply (qi_out s I u k1 fl1 en1); auto.
    + intros. exists t. apply PT.
    + intros. exists t. apply PT.
  - (* QAcq: the enable acquires the lock; still pending *)
    destruct (can_acquire (q_lock s) t) eqn:CA; try discriminate.
    inversion H; subst s'; clear H.
    assert (NI : ~ q_inside s t) by (unfold q_inside; now rewrite PC).
    destruct (q_acquire_free s t I NI CA) as [NOBODY FREE].
    assert (KEEP : forall u, q_pending s u ->
                             q_pending {| q_lock := acquire (q_lock s) t; q_flag := q_flag s; q_cache := q_cache s;
                                          q_invals := q_invals s; q_runs := q_runs s;
                                          q_th := upd (q_th s) t {| q_pc := QClear true; q_todo := q_todo (q_th s t);
                                                                    q_rets := q_rets (q_th s t) |} |} u).
    { intros u P. unfold q_pending in *. simpl. thr u t; auto. }
    constructor; simpl.
    + intros u U. unfold q_inside in U. simpl in U. thr u t.
      * rewrite FREE. reflexivity.
      * exfalso. apply (NOBODY u). exact U.
    + intro A. exfalso. apply (A t). unfold q_inside. simpl. now rewrite upd_same.
    + apply (qi_cache_born s I).
    + intros u en E. thr u t; [discriminate|]. apply (qi_held_born s I u); auto.
    + intros u fl E. thr u t; [discriminate|]. apply (qi_floor s I u); auto.
    + intros u fl k0 en E. thr u t; eapply (qi_rets s I); simpl in *; eauto.
    + intros u k1 fl1 en1 E. thr u t; [simpl in E; try (destruct (q_flag s)); try (destruct (q_cache s k)); discriminate|]. apply (qi_out s I u k1 fl1 en1); auto.
    + intros k0 en C Cd F. destruct (qi_cache_cond s I k0 en C Cd F) as [u P]. exists u. now apply KEEP.
    + intros u en E Cd F. thr u t; [discriminate|].
      destruct (qi_held_cond s I u en E Cd F) as [u0 P]. exists u0. now apply KEEP.
  - (* QClear: the table is emptied under the lock: nobody else is inside, nothing made
       before the clear is left anywhere *)
    inversion H; subst s'; clear H.
    assert (IN : q_inside s t) by (unfold q_inside; now rewrite PC).
    assert (ALONE : forall u, u <> t -> ~ q_inside s u).
    { intros u N U. apply N. apply (q_inside_unique s u t I U IN). }
    constructor; simpl.
    + intros u U. apply (qi_owner s I). unfold q_inside in *. simpl in U. thr u t; auto.
    + intro A. exfalso. apply (A t). unfold q_inside. simpl. now rewrite upd_same.
    + discriminate.
    + intros u en E. thr u t; [discriminate|]. exfalso. apply (ALONE u); auto. eapply entry_inside; eauto.
    + intros u fl E. thr u t; [discriminate|]. exfalso. apply (ALONE u); auto. eapply floor_inside; eauto.
    + intros u fl k0 en E. thr u t; eapply (qi_rets s I); simpl in *; eauto.
    + intros u k1 fl1 en1 E. thr u t; [simpl in E; try (destruct (q_flag s)); try (destruct (q_cache s k)); discriminate|]. apply (qi_out s I u k1 fl1 en1); auto.
    + discriminate.
    + intros u en E. thr u t; [discriminate|]. exfalso. apply (ALONE u); auto. eapply entry_inside; eauto.
  - (* QRelI: the invalidation releases the lock *)
    inversion H; subst s'; clear H.
    assert (IN : q_inside s t) by (unfold q_inside; now rewrite PC).
    assert (ALONE : forall u, u <> t -> ~ q_inside s u).
    { intros u N U. apply N. apply (q_inside_unique s u t I U IN). }
    assert (NA : q_pc (q_th s t) <> QAcq) by congruence.
    assert (NC : q_pc (q_th s t) <> QClear true) by congruence.
    constructor; simpl.
    + intros u U. exfalso. unfold q_inside in U. simpl in U. thr u t.
      * simpl in U. contradiction.
      * apply (ALONE u); auto.
    + intros _. rewrite (qi_owner s I t IN). reflexivity.
    + apply (qi_cache_born s I).
    + intros u en E. thr u t; [discriminate|]. apply (qi_held_born s I u); auto.
    + intros u fl E. thr u t; [discriminate|]. apply (qi_floor s I u); auto.
    + intros u fl k0 en E. thr u t; eapply (qi_rets s I); simpl in *; eauto.
    + intros u k1 fl1 en1 E. thr u t; [simpl in E; try (destruct (q_flag s)); try (destruct (q_cache s k)); discriminate|]. apply (qi_out s I u k1 fl1 en1); auto.
    + intros k0 en C Cd F. apply keep_pending; auto. apply (qi_cache_cond s I k0 en); auto.
    + intros u en E Cd F. apply keep_pending; auto. thr u t; [discriminate|].
      apply (qi_held_cond s I u en); auto.
  - (* QOutI: the rest of enable_queries / the return *)
    inversion H; subst s'; clear H.
    assert (NA : q_pc (q_th s t) <> QAcq) by congruence.
    assert (NC : q_pc (q_th s t) <> QClear true) by congruence.
    constructor; simpl.
    + intros u U. apply (qi_owner s I). unfold q_inside in *. simpl in U. thr u t; auto.
      simpl in U. contradiction.
    + intro A. apply (qi_free s I). intros u U. apply (A u). unfold q_inside in *. simpl.
      thr u t; auto. rewrite PC in U. contradiction.
    + apply (qi_cache_born s I).
    + intros u en E. thr u t; [discriminate|]. apply (qi_held_born s I u); auto.
    + intros u fl E. thr u t; [discriminate|]. apply (qi_floor s I u); auto.
    + intros u fl k0 en E. thr u t; eapply (qi_rets s I); simpl in *; eauto.
    + intros u k1 fl1 en1 E. thr u t; [discriminate|]. apply (qi_out s I u k1 fl1 en1); auto.
    + intros k0 en C Cd F. apply keep_pending; auto. apply (qi_cache_cond s I k0 en); auto.
    + intros u en E Cd F. apply keep_pending; auto. thr u t; [discriminate|].
      apply (qi_held_cond s I u en); auto.
  - (* QLook: hit (the entry is returned) or miss *)
    inversion H; subst s'; clear H.
    assert (IN : q_inside s t) by (unfold q_inside; now rewrite PC).
    assert (NA : q_pc (q_th s t) <> QAcq) by congruence.
    assert (NC : q_pc (q_th s t) <> QClear true) by congruence.
    assert (FL : fl = q_invals s) by (apply (qi_floor s I t); now rewrite PC).
    constructor; simpl.
    + intros u U. apply (qi_owner s I). unfold q_inside in *. simpl in U. thr u t; auto.
    + intro A. exfalso. apply (A t). unfold q_inside. simpl. rewrite upd_same. simpl.
      destruct (q_cache s k); exact Logic.I.
    + apply (qi_cache_born s I).
    + intros u en E. thr u t.
      * simpl in E. destruct (q_cache s k) as [en0|] eqn:C; simpl in E; inversion E; subst.
        apply (qi_cache_born s I k); auto.
      * apply (qi_held_born s I u); auto.
    + intros u fl0 E. thr u t.
      * simpl in E. destruct (q_cache s k); simpl in E; congruence.
      * apply (qi_floor s I u); auto.
    + intros u fl0 k0 en E. thr u t; eapply (qi_rets s I); simpl in *; eauto.
    + intros u k1 fl1 en1 E. thr u t; [simpl in E; try (destruct (q_flag s)); try (destruct (q_cache s k)); discriminate|]. apply (qi_out s I u k1 fl1 en1); auto.
    + intros k0 en C Cd F. apply keep_pending; auto. apply (qi_cache_cond s I k0 en); auto.
    + intros u en E Cd F. apply keep_pending; auto. thr u t.
      * simpl in E. destruct (q_cache s k) as [en0|] eqn:C; simpl in E; inversion E; subst.
        apply (qi_cache_cond s I k en); auto.
      * apply (qi_held_cond s I u en); auto.
  - (* QBody: the body starts and reads the condition *)
    inversion H; subst s'; clear H.
    assert (IN : q_inside s t) by (unfold q_inside; now rewrite PC).
    assert (NA : q_pc (q_th s t) <> QAcq) by congruence.
    assert (NC : q_pc (q_th s t) <> QClear true) by congruence.
    constructor; simpl.
    + intros u U. apply (qi_owner s I). unfold q_inside in *. simpl in U. thr u t; auto.
    + intro A. exfalso. apply (A t). unfold q_inside. simpl. now rewrite upd_same.
    + apply (qi_cache_born s I).
    + intros u en E. thr u t.
      * simpl in E. inversion E; subst. reflexivity.
      * apply (qi_held_born s I u); auto.
    + intros u fl0 E. thr u t.
      * simpl in E. inversion E; subst. apply (qi_floor s I t). now rewrite PC.
      * apply (qi_floor s I u); auto.
    + intros u fl0 k0 en E. thr u t; eapply (qi_rets s I); simpl in *; eauto.
    + intros u k1 fl1 en1 E. thr u t; [simpl in E; try (destruct (q_flag s)); try (destruct (q_cache s k)); discriminate|]. apply (qi_out s I u k1 fl1 en1); auto.
    + intros k0 en C Cd F. apply keep_pending; auto. apply (qi_cache_cond s I k0 en); auto.
    + intros u en E Cd F. thr u t.
      * simpl in E. inversion E; subst. simpl in Cd. congruence.
      * apply keep_pending; auto. apply (qi_held_cond s I u en); auto.
  - (* QRun: the reply arrives, the body returns *)
    inversion H; subst s'; clear H.
    assert (IN : q_inside s t) by (unfold q_inside; now rewrite PC).
    assert (NA : q_pc (q_th s t) <> QAcq) by congruence.
    assert (NC : q_pc (q_th s t) <> QClear true) by congruence.
    assert (HE : pc_entry (q_pc (q_th s t)) = Some en) by now rewrite PC.
    constructor; simpl.
    + intros u U. apply (qi_owner s I). unfold q_inside in *. simpl in U. thr u t; auto.
    + intro A. exfalso. apply (A t). unfold q_inside. simpl. now rewrite upd_same.
    + apply (qi_cache_born s I).
    + intros u en0 E. thr u t.
      * simpl in E. inversion E; subst. apply (qi_held_born s I t); auto.
      * apply (qi_held_born s I u); auto.
    + intros u fl0 E. thr u t.
      * simpl in E. inversion E; subst. apply (qi_floor s I t). now rewrite PC.
      * apply (qi_floor s I u); auto.
    + intros u fl0 k0 en0 E. thr u t; eapply (qi_rets s I); simpl in *; eauto.
    + intros u k1 fl1 en1 E. thr u t; [simpl in E; try (destruct (q_flag s)); try (destruct (q_cache s k)); discriminate|]. apply (qi_out s I u k1 fl1 en1); auto.
    + intros k0 en0 C Cd F. apply keep_pending; auto. apply (qi_cache_cond s I k0 en0); auto.
    + intros u en0 E Cd F. apply keep_pending; auto. thr u t.
      * simpl in E. inversion E; subst. apply (qi_held_cond s I t en0); auto.
      * apply (qi_held_cond s I u en0); auto.
  - (* QStore: setdefault *)
    inversion H; subst s'; clear H.
    assert (IN : q_inside s t) by (unfold q_inside; now rewrite PC).
    assert (NA : q_pc (q_th s t) <> QAcq) by congruence.
    assert (NC : q_pc (q_th s t) <> QClear true) by congruence.
    assert (HE : pc_entry (q_pc (q_th s t)) = Some en) by now rewrite PC.
    constructor; simpl.
    + intros u U. apply (qi_owner s I). unfold q_inside in *. simpl in U. thr u t; auto.
    + intro A. exfalso. apply (A t). unfold q_inside. simpl. now rewrite upd_same.
    + intros k0 en0 C. destruct (q_cache s k) eqn:Ck.
      * apply (qi_cache_born s I k0); auto.
      * unfold upd in C. destruct (Nat.eqb k0 k).
        -- inversion C; subst. apply (qi_held_born s I t); auto.
        -- apply (qi_cache_born s I k0); auto.
    + intros u en0 E. thr u t.
      * simpl in E. destruct (q_cache s k) as [en1|] eqn:Ck; inversion E; subst.
        -- apply (qi_cache_born s I k); auto.
        -- apply (qi_held_born s I t); auto.
      * apply (qi_held_born s I u); auto.
    + intros u fl0 E. thr u t.
      * simpl in E. inversion E; subst. apply (qi_floor s I t). now rewrite PC.
      * apply (qi_floor s I u); auto.
    + intros u fl0 k0 en0 E. thr u t; eapply (qi_rets s I); simpl in *; eauto.
    + intros u k1 fl1 en1 E. thr u t; [simpl in E; try (destruct (q_flag s)); try (destruct (q_cache s k)); discriminate|]. apply (qi_out s I u k1 fl1 en1); auto.
    + intros k0 en0 C Cd F. apply keep_pending; auto. destruct (q_cache s k) eqn:Ck.
      * apply (qi_cache_cond s I k0 en0); auto.
      * unfold upd in C. destruct (Nat.eqb k0 k).
        -- inversion C; subst. apply (qi_held_cond s I t en0); auto.
        -- apply (qi_cache_cond s I k0 en0); auto.
    + intros u en0 E Cd F. apply keep_pending; auto. thr u t.
      * simpl in E. destruct (q_cache s k) as [en1|] eqn:Ck; inversion E; subst.
        -- apply (qi_cache_cond s I k en0); auto.
        -- apply (qi_held_cond s I t en0); auto.
      * apply (qi_held_cond s I u en0); auto.
  - (* QRelC: release; the entry goes to the caller *)
    inversion H; subst s'; clear H.
    assert (IN : q_inside s t) by (unfold q_inside; now rewrite PC).
    assert (ALONE : forall u, u <> t -> ~ q_inside s u).
    { intros u N U. apply N. apply (q_inside_unique s u t I U IN). }
    assert (NA : q_pc (q_th s t) <> QAcq) by congruence.
    assert (NC : q_pc (q_th s t) <> QClear true) by congruence.
    assert (FL : fl = q_invals s) by (apply (qi_floor s I t); now rewrite PC).
    assert (BO : e_born en = q_invals s) by (apply (qi_held_born s I t); now rewrite PC).
    constructor; simpl.
    + intros u U. exfalso. unfold q_inside in U. simpl in U. thr u t.
      * simpl in U. contradiction.
      * apply (ALONE u); auto.
    + intros _. rewrite (qi_owner s I t IN). reflexivity.
    + apply (qi_cache_born s I).
    + intros u en0 E. thr u t; [discriminate|]. apply (qi_held_born s I u); auto.
    + intros u fl0 E. thr u t; [discriminate|]. apply (qi_floor s I u); auto.
    + intros u fl0 k0 en0 E. thr u t; eapply (qi_rets s I); simpl in *; eauto.
    + intros u k1 fl1 en1 E. thr u t.
      * simpl in E. inversion E; subst. rewrite BO. apply le_n.
      * apply (qi_out s I u k1 fl1 en1); auto.
    + intros k0 en0 C Cd F. apply keep_pending; auto. apply (qi_cache_cond s I k0 en0); auto.
    + intros u en0 E Cd F. apply keep_pending; auto. thr u t; [discriminate|].
      apply (qi_held_cond s I u en0); auto.
  - (* QOutC: the caller gets the value *)
    inversion H; subst s'; clear H.
    assert (NA : q_pc (q_th s t) <> QAcq) by congruence.
    assert (NC : q_pc (q_th s t) <> QClear true) by congruence.
    constructor; simpl.
    + intros u U. apply (qi_owner s I). unfold q_inside in *. simpl in U. thr u t; auto.
      simpl in U. contradiction.
    + intro A. apply (qi_free s I). intros u U. apply (A u). unfold q_inside in *. simpl.
      thr u t; auto. rewrite PC in U. contradiction.
    + apply (qi_cache_born s I).
    + intros u en0 E. thr u t; [discriminate|]. apply (qi_held_born s I u); auto.
    + intros u fl0 E. thr u t; [discriminate|]. apply (qi_floor s I u); auto.
    + intros u fl0 k0 en0 E. thr u t.
      * simpl in E. apply in_app_or in E. destruct E as [E|[E|[]]].
        -- apply (qi_rets s I t fl0 k0 en0); auto.
        -- inversion E; subst. apply (qi_out s I t k0 fl0 en0); auto.
      * apply (qi_rets s I u fl0 k0 en0); auto.
    + intros u k1 fl1 en1 E. thr u t; [discriminate|]. apply (qi_out s I u k1 fl1 en1); auto.
    + intros k0 en0 C Cd F. apply keep_pending; auto. apply (qi_cache_cond s I k0 en0); auto.
    + intros u en0 E Cd F. apply keep_pending; auto. thr u t; [discriminate|].
      apply (qi_held_cond s I u en0); auto.
Qed.

Lemma qinv_reachable f0 warm prog s : reachable qstep (qinit f0 warm prog) s -> QInv s.
Proof.
  apply (reachable_ind_inv qstate qstep QInv).
  - apply qinv_init.
  - intros; eapply qinv_step; eauto.
Qed.

(** at most one thread is inside the region protected by the decorator's lock — in
    particular an invalidation and a body never overlap *)
Lemma inval_mutex_lemma f0 warm prog s t1 t2 :
  reachable qstep (qinit f0 warm prog) s -> q_inside s t1 -> q_inside s t2 -> t1 = t2.
Proof. intro R. apply q_inside_unique. now apply (qinv_reachable f0 warm prog). Qed.

(** THE STATEMENT, in time: in every reachable state — any number of threads, any
    programs, any schedule —
    (a) every cache entry was made by a body that started after the last [cache.clear()];
    (b) so was every entry a thread is about to store or return;
    (c) a call that acquired the lock when [fl] clears had been executed returned an
        entry whose body started when at least [fl] had: after an invalidation completes
        no later call returns a value whose body started before it completed. *)
Lemma inval_no_stale_lemma f0 warm prog s :
  reachable qstep (qinit f0 warm prog) s ->
  (forall k en, q_cache s k = Some en -> e_born en = q_invals s)
  /\ (forall t en, q_holds s t en -> e_born en = q_invals s)
  /\ (forall t fl k en, In (fl, k, en) (q_rets (q_th s t)) -> fl <= e_born en).
Proof.
  intro R. pose proof (qinv_reachable f0 warm prog s R) as I. repeat split.
  - apply (qi_cache_born s I).
  - intros t en Hd. apply (qi_held_born s I t). now apply q_holds_entry.
  - apply (qi_rets s I).
Qed.

Lemma inval_no_stale_schedules f0 warm prog sch t fl k en :
  In (fl, k, en) (q_rets (q_th (run_sched qstep (qinit f0 warm prog) sch) t)) -> fl <= e_born en.
Proof.
  intro H. destruct (inval_no_stale_lemma f0 warm prog _ (run_sched_reachable _ qstep _ sch)) as (_ & _ & R).
  eapply R; eauto.
Qed.

(** THE STATEMENT, in condition (the library-level reading): in every reachable state in
    which queries are enabled and no [enable_queries] is between its flag write and its
    clear — in particular once [enable_queries()] has returned and as long as queries
    stay enabled — a call answers with a value computed with queries enabled: no entry
    made by a body that read "disabled" is in the cache, about to be stored, or about to
    be returned. *)
Lemma enable_discards_lemma f0 warm prog s :
  reachable qstep (qinit f0 warm prog) s ->
  (forall u, ~ q_pending s u) -> q_flag s = true ->
  (forall k, q_answer s k = true)
  /\ (forall k en, q_cache s k = Some en -> e_cond en = true)
  /\ (forall t en, q_holds s t en -> e_cond en = true).
Proof.
  intros R Q F. pose proof (qinv_reachable f0 warm prog s R) as I.
  assert (C : forall k en, q_cache s k = Some en -> e_cond en = true).
  { intros k en C. destruct (e_cond en) eqn:E; auto.
    destruct (qi_cache_cond s I k en C E F) as [u P]. destruct (Q u P). }
  repeat split; auto.
  - intro k. unfold q_answer. destruct (q_cache s k) eqn:E; auto. eapply C; eauto.
  - intros t en Hd. apply q_holds_entry in Hd. destruct (e_cond en) eqn:E; auto.
    destruct (qi_held_cond s I t en Hd E F) as [u P]. destruct (Q u P).
Qed.

(** once every thread (below [n], the others having empty programs) has finished: *)
Lemma done_not_pending s n : q_done s n -> (forall t, n <= t -> q_pc (q_th s t) = QIdle) ->
                             forall u, ~ q_pending s u.
Proof.
  intros D O u [P|P]; destruct (le_lt_dec n u) as [L|L].
  - rewrite (O u L) in P. discriminate.
  - destruct (D u L) as [E _]. rewrite E in P. discriminate.
  - rewrite (O u L) in P. discriminate.
  - destruct (D u L) as [E _]. rewrite E in P. discriminate.
Qed.

Lemma enable_discards_schedules f0 warm prog sch :
  let s := run_sched qstep (qinit f0 warm prog) sch in
  (forall u, ~ q_pending s u) -> q_flag s = true -> forall k, q_answer s k = true.
Proof.
  intros s Q F. apply (enable_discards_lemma f0 warm prog s); auto. apply run_sched_reachable.
Qed.

(** ** non-vacuity and the refutation of the variant

    queries disabled; thread 0 makes a first call, thread 1 calls [enable_queries()]
    while thread 0 is inside the body (it has read "disabled" and waits for the reply) *)
Definition iv_prog (t : nat) : list qcmd :=
  match t with 0 => [QCall 0] | 1 => [QEnable] | _ => [] end.
Definition iv_sched : list nat := [0; 0; 0; 1; 1; 1; 1; 0; 0; 0; 0; 1; 1; 1; 1].

(** the real code: the enable waits for the lock, the disabled-time entry is stored and
    then cleared; thread 0 itself returns what it computed (it overlapped the enable) *)
Example enable_during_body :
  let s := run_sched qstep (qinit false (fun _ => None) iv_prog) iv_sched in
  q_flag s = true /\ q_cache s 0 = None /\ q_answer s 0 = true /\ q_invals s = 1 /\ q_runs s = 1
  /\ q_rets (q_th s 0) = [(0, 0, {| e_cond := false; e_born := 0; e_run := 1 |})]
  /\ map (fun t => q_pc (q_th s t)) [0; 1] = [QIdle; QIdle]
  /\ map (fun t => q_todo (q_th s t)) [0; 1] = [[]; []].
Proof. repeat split; vm_compute; reflexivity. Qed.

(** the variant whose [invalidate] does not take the lock, under the SAME schedule: the
    clear overtakes the computation in flight; both threads have finished, queries are
    enabled, and the entry made under "disabled" sits in the cache *)
Lemma enable_refuted_unlocked :
  exists f0 warm prog sch,
    let s := run_sched (qstep_gen false) (qinit f0 warm prog) sch in
    q_done s 2 /\ (forall u, ~ q_pending s u)
    /\ q_flag s = true /\ q_answer s 0 = false
    /\ exists en, q_cache s 0 = Some en /\ e_cond en = false /\ e_born en < q_invals s.
Proof.
  exists false, (fun _ => None), iv_prog, iv_sched. cbv zeta. split; [|split; [|split; [|split]]].
  - intros t Lt. destruct t as [|[|t]]; [split; vm_compute; reflexivity|split; vm_compute; reflexivity|nat_ar].
  - intros u [P|P]; destruct u as [|[|u]]; vm_compute in P; discriminate.
  - vm_compute. reflexivity.
  - vm_compute. reflexivity.
  - eexists. split; [vm_compute; reflexivity|]. split; [reflexivity|]. vm_compute. apply le_n.
Qed.

(** the decorator alone: thread 0 calls, thread 1 invalidates while thread 0 is inside the
    body, thread 2 calls after both have finished *)
Definition iv_prog3 (t : nat) : list qcmd :=
  match t with 0 => [QCall 0] | 1 => [QInval] | 2 => [QCall 0] | _ => [] end.
Definition iv_sched3 : list nat := [0; 0; 0; 1; 1; 1; 0; 0; 0; 0; 1; 1; 1; 1; 2; 2; 2; 2; 2; 2; 2].

(** the real code: the call made after the invalidation runs the body again *)
Example inval_during_body :
  let s := run_sched qstep (qinit true (fun _ => None) iv_prog3) iv_sched3 in
  q_invals s = 1 /\ q_runs s = 2
  /\ q_rets (q_th s 0) = [(0, 0, {| e_cond := true; e_born := 0; e_run := 1 |})]
  /\ q_rets (q_th s 2) = [(1, 0, {| e_cond := true; e_born := 1; e_run := 2 |})]
  /\ map (fun t => q_pc (q_th s t)) [0; 1; 2] = [QIdle; QIdle; QIdle].
Proof. repeat split; vm_compute; reflexivity. Qed.

(** the variant: the call that began after the invalidation had completed returns the
    value whose body started before it *)
Lemma inval_refuted_unlocked :
  exists f0 warm prog sch t fl k en,
    let s := run_sched (qstep_gen false) (qinit f0 warm prog) sch in
    q_done s 3 /\ In (fl, k, en) (q_rets (q_th s t)) /\ e_born en < fl /\ q_runs s = 1.
Proof.
  exists true, (fun _ => None), iv_prog3, iv_sched3, 2, 1, 0, {| e_cond := true; e_born := 0; e_run := 1 |}.
  cbv zeta. split; [|split; [|split]].
  - intros t Lt. destruct t as [|[|[|t]]];
      [split; vm_compute; reflexivity|split; vm_compute; reflexivity|split; vm_compute; reflexivity|nat_ar].
  - vm_compute. left. reflexivity.
  - simpl. apply le_n.
  - vm_compute. reflexivity.
Qed.
