(** C06, new API: [Renderable.draw] leaves the picture in place and the cursor on the line
    below it — proofs over [model/Draw.v]. *)
From Coq Require Import List ZArith Bool Lia.
Import ListNotations.
From TI Require Import lib.Term lib.TermFacts lib.Rect lib.Lines lib.TermScroll
     model.Padding proofs.PadProofs model.Draw proofs.DrawLines.
Open Scope Z_scope.
Local Arguments Z.eqb : simpl never.
Local Arguments Z.ltb : simpl never.
Local Arguments Z.leb : simpl never.

(** ** small pieces *)
Lemma padded_is_pad fill l t r b w h F :
  0 <= l -> 0 <= t -> 0 <= r -> 0 <= b ->
  padded fill (l, t, r, b) w h F = pad fill (l, t, r, b) w F.
Proof.
  intros. unfold padded. destruct (pad_gate (l, t, r, b) w h) eqn:E; [reflexivity|].
  apply pad_gate_spec in E; try assumption. destruct E as (-> & -> & -> & ->). reflexivity.
Qed.

Definition cuu_evs (r c n : Z) : list ev := if 0 <? n then [EMove (r - n) c] else [].
Definition cud_evs (r c n : Z) : list ev := if 0 <? n then [EMove (r + n) c] else [].

Lemma exec_cuu lm s n : parser s = Ground -> 0 <= n ->
  exec lm s (cuu n) = mk (row s - n) (col s) (sgr s) s (cuu_evs (row s) (col s) n).
Proof.
  intros Hg Hn. unfold cuu, cuu_evs. destruct (0 <? n) eqn:E.
  - apply Z.ltb_lt in E. cbn [exec fold_left]. rewrite step_cuu by exact Hg.
    unfold pos1. replace (Z.max n 1) with n by lia. reflexivity.
  - apply Z.ltb_ge in E. replace n with 0 by lia. cbn [exec fold_left].
    replace (row s - 0) with (row s) by lia. symmetry. apply mk_id.
Qed.

Lemma exec_cud lm s n : parser s = Ground -> 0 <= n ->
  exec lm s (cud n) = mk (row s + n) (col s) (sgr s) s (cud_evs (row s) (col s) n).
Proof.
  intros Hg Hn. unfold cud, cud_evs. destruct (0 <? n) eqn:E.
  - apply Z.ltb_lt in E. cbn [exec fold_left]. rewrite step_cud by exact Hg.
    unfold pos1. replace (Z.max n 1) with n by lia. reflexivity.
  - apply Z.ltb_ge in E. replace n with 0 by lia. cbn [exec fold_left].
    replace (row s + 0) with (row s) by lia. symmetry. apply mk_id.
Qed.

(** ["\r" cursor_up(n) cursor_forward(m)] *)
Definition goto_evs (lm r n m : Z) : list ev :=
  EMove r lm :: cuu_evs r lm n ++ fill_evs None (r - n) lm adefault m.

Lemma exec_goto lm s r c n m : okat s r c -> 0 <= n -> 0 <= m ->
  exec lm s ([TCR] ++ cuu n ++ cuf m) = mk (r - n) (lm + m) adefault s (goto_evs lm r n m).
Proof.
  intros ([Hg Hp] & Hs & Hr & Hc) Hn Hm. rewrite exec_app. cbn [exec fold_left].
  rewrite step_cr by exact Hg. rewrite exec_app, exec_cuu by (auto; exact Hn).
  unfold cuf. rewrite exec_fillseg by (auto; exact Hm). rewrite !mk_mk.
  cbn [row col sgr mk]. rewrite Hr, Hs. reflexivity.
Qed.

Lemma goto_inside lm r n m r0 hh ww :
  0 <= n -> 0 <= m -> r0 <= r - n -> r < r0 + hh -> m <= ww ->
  forallb (ev_inside r0 lm hh ww) (goto_evs lm r n m) = true.
Proof.
  intros. unfold goto_evs, cuu_evs. cbn [forallb fill_evs].
  destruct (0 <? n); destruct (0 <? m); cbn [app forallb ev_inside];
    rewrite ?andb_true_iff, ?Z.leb_le, ?Z.ltb_lt; lia.
Qed.

Lemma goto_nocover lm r n m r1 c1 : covered (goto_evs lm r n m) r1 c1 = false.
Proof.
  unfold goto_evs, cuu_evs, covered. cbn [fill_evs].
  destruct (0 <? n); destruct (0 <? m); reflexivity.
Qed.

(** a rectangle's lines cover it and stay inside it *)
Lemma flat_covers_rect w h ls rho c r0 c0 :
  LinesRect all_cells w h ls -> rho <= r0 < rho + h -> c <= c0 < c + w ->
  covered (flat c rho ls) r0 c0 = true.
Proof.
  intros HLR Hr0 Hc0.
  destruct (lr_cov _ _ _ _ HLR (r0 - rho) (c0 - c)) as (k & lk & Hk & Hcv); try lia; [reflexivity|].
  eapply (flat_covered c r0 c0 ls rho k lk Hk).
  specialize (Hcv c (pos (rho + Z.of_nat k) c) (conj eq_refl eq_refl) eq_refl eq_refl).
  rewrite line_evs_exec_evs in Hcv. change (row (pos (rho + Z.of_nat k) c)) with (rho + Z.of_nat k) in Hcv.
  replace (rho + Z.of_nat k - Z.of_nat k + (r0 - rho)) with r0 in Hcv by lia.
  replace (c + (c0 - c)) with c0 in Hcv by lia. exact Hcv.
Qed.

Lemma flat_inside w h c : forall ls i0 rho, LinesFrom w h i0 ls ->
  forallb (ev_inside (rho - Z.of_nat i0) c h w) (flat c rho ls) = true.
Proof.
  induction ls as [|L rest IH]; intros i0 rho HF; [reflexivity|].
  destruct (proj2 HF 0%nat L eq_refl) as [HL Hnc].
  destruct (LineOK_canon _ _ _ _ HL Hnc c (pos rho c) rho c (okat_pos _ _)) as [_ Hin].
  rewrite Nat.add_0_r in Hin. rewrite flat_cons, forallb_app, Hin. cbn [andb].
  specialize (IH (S i0) (rho + 1) (LinesFrom_tail _ _ _ _ _ HF)).
  replace (rho + 1 - Z.of_nat (S i0)) with (rho - Z.of_nat i0) in IH by lia. exact IH.
Qed.

(** ** a later frame, drawn in place: every line feed followed by [cursor_forward(pl)] *)
Fixpoint ip_evs (lm pl rho : Z) (ls : list (list tok)) : list ev :=
  match ls with
  | [] => []
  | [ln] => cevs ln rho (lm + pl)
  | ln :: rest =>
    cevs ln rho (lm + pl) ++ EMove (rho + 1) lm :: fill_evs None (rho + 1) lm adefault pl
    ++ ip_evs lm pl (rho + 1) rest
  end.

Lemma ip_evs_cons2 lm pl rho ln l2 rest :
  ip_evs lm pl rho (ln :: l2 :: rest) =
  cevs ln rho (lm + pl) ++ EMove (rho + 1) lm :: fill_evs None (rho + 1) lm adefault pl
  ++ ip_evs lm pl (rho + 1) (l2 :: rest).
Proof. reflexivity. Qed.

Lemma fill_none_nocover r c a n r1 c1 : covered (fill_evs None r c a n) r1 c1 = false.
Proof. cbn [fill_evs]. destruct (0 <? n); reflexivity. Qed.

Lemma ip_lastcov lm pl r c : forall ls rho acc,
  lastcov_from acc (ip_evs lm pl rho ls) r c = lastcov_from acc (flat (lm + pl) rho ls) r c.
Proof.
  induction ls as [|L rest IH]; intros rho acc; [reflexivity|].
  destruct rest as [|L2 rest'].
  - cbn [ip_evs flat]. rewrite app_nil_r. reflexivity.
  - rewrite ip_evs_cons2, flat_cons. rewrite !lastcov_from_app. cbn [lastcov_from ev_covers].
    rewrite lastcov_from_app, (lastcov_from_none _ (fill_evs None _ _ _ _)) by apply fill_none_nocover.
    apply IH.
Qed.

Lemma ip_covered lm pl r c ls rho :
  covered (ip_evs lm pl rho ls) r c = covered (flat (lm + pl) rho ls) r c.
Proof.
  destruct (covered (flat (lm + pl) rho ls) r c) eqn:E.
  - destruct (covered (ip_evs lm pl rho ls) r c) eqn:E2; [reflexivity|].
    pose proof (ip_lastcov lm pl r c ls rho None) as L.
    rewrite (lastcov_from_none _ _ _ _ E2) in L.
    pose proof (lastcov_from_cov (Some EGarbled) _ _ _ E) as L2.
    pose proof (ip_lastcov lm pl r c ls rho (Some EGarbled)) as L3.
    rewrite (lastcov_from_none _ _ _ _ E2), L2 in L3. unfold lastcov in L3. congruence.
  - destruct (covered (ip_evs lm pl rho ls) r c) eqn:E2; [|reflexivity].
    pose proof (ip_lastcov lm pl r c ls rho None) as L.
    rewrite (lastcov_from_none _ _ _ _ E) in L.
    pose proof (lastcov_from_cov (Some EGarbled) _ _ _ E2) as L2.
    pose proof (ip_lastcov lm pl r c ls rho (Some EGarbled)) as L3.
    rewrite (lastcov_from_none _ _ _ _ E), L2 in L3. fold (lastcov (ip_evs lm pl rho ls) r c) in L.
    congruence.
Qed.

Section InPlace.
Variables lm pl w h : Z.
Hypothesis Hw : 0 <= w.
Hypothesis Hpl : 0 <= pl.

Lemma inplace_exec : forall ls i0 s rho,
  ls <> [] -> LinesFrom w h i0 ls -> okat s rho (lm + pl) ->
  exec lm s (subst_lf [] (cuf pl) (joinlf ls)) =
  mk (rho + Z.of_nat (length ls) - 1) (lm + pl + w) adefault s (ip_evs lm pl rho ls).
Proof.
  induction ls as [|L rest IH]; intros i0 s rho Hne HF Hok; [congruence|].
  destruct (proj2 HF 0%nat L eq_refl) as [HL Hnc].
  destruct (LineOK_canon _ _ _ _ HL Hnc lm s rho (lm + pl) Hok) as [E _].
  assert (Hcl : clean s) by apply Hok.
  destruct rest as [|L2 rest'].
  - cbn [joinlf ip_evs length]. rewrite subst_lf_nolf by apply HL. rewrite E. f_equal. lia.
  - rewrite joinlf_cons2, subst_lf_app_nolf by apply HL. cbn [subst_lf app].
    rewrite ip_evs_cons2, exec_app, E, exec_cons.
    rewrite step_lf by apply Hcl. rewrite mk_mk. cbn [row col sgr mk].
    rewrite exec_app. unfold cuf at 1. rewrite exec_fillseg by (try apply Hcl; exact Hpl).
    rewrite mk_mk. cbn [row col sgr mk].
    rewrite (IH (S i0) _ (rho + 1)); [| congruence | eapply LinesFrom_tail; exact HF
                                      | apply okat_mk, Hcl].
    rewrite mk_mk. f_equal.
    + cbn [length]. lia.
    + rewrite <- !app_assoc. reflexivity.
Qed.

(** all events inside the [h x (pl + w)] rectangle left of and including the render *)
Lemma ip_inside : forall ls i0 rho, LinesFrom w h i0 ls ->
  forallb (ev_inside (rho - Z.of_nat i0) lm h (pl + w)) (ip_evs lm pl rho ls) = true.
Proof.
  induction ls as [|L rest IH]; intros i0 rho HF; [reflexivity|].
  destruct (proj2 HF 0%nat L eq_refl) as [HL Hnc].
  destruct (LineOK_canon _ _ _ _ HL Hnc lm (pos rho (lm + pl)) rho (lm + pl) (okat_pos _ _)) as [_ Hin].
  rewrite Nat.add_0_r in Hin.
  assert (Hin' : forallb (ev_inside (rho - Z.of_nat i0) lm h (pl + w)) (cevs L rho (lm + pl)) = true).
  { eapply forallb_inside_mono; [| | | |exact Hin]; lia. }
  destruct rest as [|L2 rest'].
  - exact Hin'.
  - rewrite ip_evs_cons2, forallb_app, Hin'. cbn [andb forallb].
    assert (Hlen : Z.of_nat (i0 + length (L :: L2 :: rest')) = h) by apply HF.
    cbn [length] in Hlen.
    apply andb_true_iff. split.
    + cbn [ev_inside]. rewrite !andb_true_iff, !Z.leb_le, !Z.ltb_lt. lia.
    + rewrite forallb_app. apply andb_true_iff. split.
      * cbn [fill_evs]. destruct (0 <? pl); [|reflexivity]. cbn [forallb ev_inside].
        rewrite !andb_true_iff, !Z.leb_le, !Z.ltb_lt. lia.
      * specialize (IH (S i0) (rho + 1) (LinesFrom_tail _ _ _ _ _ HF)).
        replace (rho + 1 - Z.of_nat (S i0)) with (rho - Z.of_nat i0) in IH by lia. exact IH.
Qed.
End InPlace.

(** ** the final-state predicate (specification side; [model/DrawTie.v] has its executable form) *)


Record DrawFinal (W H lm top0 : Z) (t0 : term) (hide : bool) (pw ph : Z)
       (Ref S : list tok) : Prop := {
  df_row : row (exec lm t0 S) = row t0 + ph;                (* the line below the box *)
  df_col : col (exec lm t0 S) = lm;
  df_sgr : sgr (exec lm t0 S) = adefault;
  df_vis : visible (exec lm t0 S) = if hide then true else visible t0;
  df_clean : clean (exec lm t0 S);
  (* only the scrolling that the box (and the line below it) made necessary; no cursor
     movement clamped, nothing wrapped *)
  df_scroll : srun W H lm top0 t0 S = Some (Z.max top0 (row t0 + ph + 1 - H));
  (* nothing outside the padded box is touched *)
  df_box : forallb (ev_box_or_below (row t0) lm ph pw) (exec_evs lm t0 S) = true;
  (* the box shows what drawing [Ref] (the padded last frame) alone from the start
     position shows *)
  df_content : forall r c, row t0 <= r < row t0 + ph -> lm <= c < lm + pw ->
      lastcov (exec_evs lm t0 S) r c = lastcov (exec_evs lm t0 Ref) r c
}.

Lemma box_or_below_of_inside r0 lm ph pw evs :
  forallb (ev_inside r0 lm ph pw) evs = true -> forallb (ev_box_or_below r0 lm ph pw) evs = true.
Proof.
  intros Hf. apply forallb_forall. intros e He. unfold ev_box_or_below.
  rewrite (proj1 (forallb_forall _ _) Hf e He). reflexivity.
Qed.

Lemma srun_lf W H lm top s : 0 <= lm -> clean s -> top <= row s < top + H -> lm <= W ->
  srun W H lm top s [TLF] = Some (Z.max top (row s + 2 - H)).
Proof.
  intros Hlm Hcl Hr HlmW. cbn [srun scrolls]. replace (parser s) with Ground by (symmetry; apply Hcl).
  unfold step_evs. replace (parser s) with Ground by (symmetry; apply Hcl).
  cbn [ground_evs forallb ev_win ev_inside].
  destruct (row s =? top + H - 1) eqn:Eb.
  - apply Z.eqb_eq in Eb.
    replace ((top + 1 <=? row s + 1) && (row s + 1 <? top + 1 + H) && (0 <=? lm) && (lm <=? 0 + W) && true)
      with true by (symmetry; rewrite !andb_true_iff, !Z.leb_le, !Z.ltb_lt; lia).
    f_equal. lia.
  - apply Z.eqb_neq in Eb.
    replace ((top <=? row s + 1) && (row s + 1 <? top + H) && (0 <=? lm) && (lm <=? 0 + W) && true)
      with true by (symmetry; rewrite !andb_true_iff, !Z.leb_le, !Z.ltb_lt; lia).
    f_equal. lia.
Qed.

(** ** the first (padded) frame: the only write that may scroll *)
Section Box.
Variables W H lm : Z.
Variable fill : option glyph.
Variables w h pl pt pr pb : Z.
Hypothesis Hpl : 0 <= pl.
Hypothesis Hpt : 0 <= pt.
Hypothesis Hpr : 0 <= pr.
Hypothesis Hpb : 0 <= pb.
Hypothesis Hlm : 0 <= lm.
Let pw := pl + w + pr.
Let ph := pt + h + pb.
Hypothesis HW : lm + pw <= W.
Hypothesis HH : ph <= H.
Variable ls : list (list tok).
Hypothesis HLR : LinesRect all_cells w h ls.
Let PL := pad_lines fill (pl, pt, pr, pb) w ls.

Lemma pad_as_lines : pad fill (pl, pt, pr, pb) w (joinlf ls) = joinlf PL.
Proof.
  apply pad_joinlf; try assumption; [exact (lr_ne _ _ _ _ HLR)|].
  intros ln Hin. apply In_nth_error in Hin. destruct Hin as [k Hk].
  apply (lr_ok _ _ _ _ HLR k ln Hk).
Qed.

Lemma box_pw : 0 < pw.
Proof. pose proof (lr_w _ _ _ _ HLR). unfold pw. lia. Qed.

Theorem first_box t0 r0 :
  okat t0 r0 lm ->
  exec lm t0 (pad fill (pl, pt, pr, pb) w (joinlf ls)) =
    mk (r0 + ph - 1) (lm + pw) adefault t0 (jl_evs lm r0 PL)
  /\ forallb (ev_inside r0 lm ph pw) (jl_evs lm r0 PL) = true.
Proof.
  intros Hok. pose proof box_pw as Hpw.
  pose proof (PL_from fill w h pl pt pr pb ls HLR Hpl Hpt Hpr Hpb) as HF.
  pose proof (PL_ne fill w h pl pt pr pb ls HLR Hpl Hpt Hpr Hpb) as Hne.
  pose proof (PL_length fill w h pl pt pr pb ls HLR Hpl Hpt Hpr Hpb) as Hlen.
  fold PL in HF, Hne, Hlen. fold pw ph in HF, Hlen.
  split.
  - rewrite pad_as_lines.
    rewrite (joinlf_exec pw ph lm PL 0%nat t0 r0 Hne HF Hok). rewrite Hlen. reflexivity.
  - pose proof (jl_inside pw ph (Z.lt_le_incl _ _ Hpw) lm PL 0%nat r0 HF) as Hi.
    replace (r0 - Z.of_nat 0) with r0 in Hi by lia. exact Hi.
Qed.

Theorem first_box_scroll t0 r0 top0 :
  (forall ln, In ln ls -> Downward ln) ->
  okat t0 r0 lm -> top0 <= r0 < top0 + H ->
  srun W H lm top0 t0 (pad fill (pl, pt, pr, pb) w (joinlf ls)) = Some (Z.max top0 (r0 + ph - H)).
Proof.
  intros HD Hok Htop. pose proof box_pw as Hpw.
  pose proof (PL_from fill w h pl pt pr pb ls HLR Hpl Hpt Hpr Hpb) as HF.
  pose proof (PL_ne fill w h pl pt pr pb ls HLR Hpl Hpt Hpr Hpb) as Hne.
  pose proof (PL_length fill w h pl pt pr pb ls HLR Hpl Hpt Hpr Hpb) as Hlen.
  pose proof (PL_downward fill w h pl pt pr pb ls HLR Hpl Hpr HD) as HDP.
  fold PL in HF, Hne, Hlen, HDP. fold pw ph in HF, Hlen.
  rewrite pad_as_lines.
  rewrite (srun_lines W H lm pw ph (Z.lt_le_incl _ _ Hpw) Hlm HW HH PL 0%nat t0 r0 top0 Hne HF HDP Hok);
    [rewrite Hlen; reflexivity|lia|lia].
Qed.
End Box.

(** hiding the cursor before and showing it after a body *)
Lemma exec_opt_vis lm t hide x v : parser t = Ground ->
  (x = THide /\ v = false) \/ (x = TShow /\ v = true) ->
  exec lm t (opt hide x) = (if hide then set_visible t v else t)
  /\ exec_evs lm t (opt hide x) = []
  /\ forall W H top, srun W H lm top t (opt hide x) = Some top.
Proof.
  intros Hg Hx. destruct hide; cbn [opt]; [|repeat split; reflexivity].
  destruct Hx as [[-> ->]|[-> ->]]; cbn [exec fold_left exec_evs srun scrolls];
    unfold step, step_evs; rewrite Hg; cbn; repeat split; reflexivity.
Qed.

Lemma wrap_hide W H lm top0 t0 hide pw ph Ref B r0 :
  okat t0 r0 lm ->
  (forall s0, okat s0 r0 lm -> exists EV,
      exec lm s0 B = mk (r0 + ph) lm adefault s0 EV
      /\ srun W H lm top0 s0 B = Some (Z.max top0 (r0 + ph + 1 - H))
      /\ forallb (ev_box_or_below r0 lm ph pw) EV = true
      /\ (forall r c, r0 <= r < r0 + ph -> lm <= c < lm + pw ->
            lastcov EV r c = lastcov (exec_evs lm t0 Ref) r c)) ->
  DrawFinal W H lm top0 t0 hide pw ph Ref (opt hide THide ++ B ++ opt hide TShow).
Proof.
  intros Hok HB. pose proof Hok as ([Hg Hp] & Hs & Hr & Hc).
  destruct (exec_opt_vis lm t0 hide THide false Hg (or_introl (conj eq_refl eq_refl))) as (X1 & X2 & X3).
  set (th := if hide then set_visible t0 false else t0) in *.
  assert (Hokh : okat th r0 lm) by (unfold th; destruct hide; [repeat split; assumption|exact Hok]).
  destruct (HB th Hokh) as (EV & E & S & Hbox & Hcont).
  assert (Hg2 : parser (mk (r0 + ph) lm adefault th EV) = Ground) by apply Hokh.
  destruct (exec_opt_vis lm (mk (r0 + ph) lm adefault th EV) hide TShow true Hg2
              (or_intror (conj eq_refl eq_refl))) as (Y1 & Y2 & Y3).
  assert (Eall : exec lm t0 (opt hide THide ++ B ++ opt hide TShow) =
                 (if hide then set_visible (mk (r0 + ph) lm adefault th EV) true
                  else mk (r0 + ph) lm adefault th EV)).
  { rewrite exec_app, X1, exec_app, E, Y1. reflexivity. }
  assert (Eevs : exec_evs lm t0 (opt hide THide ++ B ++ opt hide TShow) = EV).
  { rewrite exec_evs_app, X2, X1, exec_evs_app, (exec_mk_evs _ _ _ _ _ _ _ E), E, Y2.
    rewrite app_nil_r. reflexivity. }
  constructor.
  - rewrite Eall, Hr. destruct hide; reflexivity.
  - rewrite Eall. destruct hide; reflexivity.
  - rewrite Eall. destruct hide; reflexivity.
  - rewrite Eall. unfold th. destruct hide; reflexivity.
  - rewrite Eall. unfold th. destruct hide; split; cbn; assumption.
  - rewrite srun_app, X3, X1, srun_app, S, E, Y3, Hr. reflexivity.
  - rewrite Eevs, Hr. exact Hbox.
  - intros r c Hrr Hcc. rewrite Eevs. apply Hcont; lia.
Qed.

Section New.
Variables W H lm : Z.
Variable fill : option glyph.
Variables w h pl pt pr pb : Z.
Hypothesis Hpl : 0 <= pl.
Hypothesis Hpt : 0 <= pt.
Hypothesis Hpr : 0 <= pr.
Hypothesis Hpb : 0 <= pb.
Hypothesis Hlm : 0 <= lm.
Let pw := pl + w + pr.
Let ph := pt + h + pb.
Hypothesis HW : lm + pw <= W.
Hypothesis HH : ph <= H.
Variable clear : list tok.

(** the contract of [_clear_frame_]: "the cursor at the same position ... doesn't result
    in the screen being scrolled"; it may only touch the render's cells *)
Definition ClearOK : Prop :=
  forall lm' s r c, okat s r c ->
    exists evs, exec lm' s clear = mk r c adefault s evs
                /\ forallb (ev_inside r c h w) evs = true.
Hypothesis HC : ClearOK.

Let ca := lm + pl.

Lemma later_frame_step ls s ra :
  LinesRect all_cells w h ls -> okat s ra ca ->
  exists Ec, forallb (ev_inside ra ca h w) Ec = true /\
    exec lm s (later_frame pl h clear (joinlf ls)) =
    mk ra ca adefault s (Ec ++ ip_evs lm pl ra ls ++ goto_evs lm (ra + h - 1) (h - 1) pl).
Proof.
  intros HLR Hok. pose proof (lr_w _ _ _ _ HLR) as Hw. pose proof (lr_len _ _ _ _ HLR) as Hlen.
  assert (Hh : 0 < h) by (pose proof (lr_ne _ _ _ _ HLR); destruct ls; [congruence|cbn [length] in Hlen; lia]).
  destruct (HC lm s ra ca Hok) as (Ec & E1 & Hin). exists Ec. split; [exact Hin|].
  assert (Hcl : clean s) by apply Hok.
  unfold later_frame. rewrite exec_app, E1, exec_app.
  rewrite (inplace_exec lm pl w h Hpl ls 0%nat _ ra (lr_ne _ _ _ _ HLR)
             (LinesRect_from _ _ _ _ HLR) (okat_mk _ _ _ _ Hcl)).
  rewrite mk_mk, Hlen.
  rewrite (exec_goto lm _ (ra + h - 1) (ca + w) (h - 1) pl); [| |lia|exact Hpl].
  2:{ unfold ca. apply okat_mk, Hcl. }
  rewrite mk_mk. f_equal; [lia|]. rewrite <- app_assoc. reflexivity.
Qed.

Fixpoint lastopt {A} (l : list A) : option A :=
  match l with [] => None | [x] => Some x | _ :: rest => lastopt rest end.

Lemma lastopt_none {A} (l : list A) : lastopt l = None -> l = [].
Proof.
  induction l as [|x l IH]; [reflexivity|]. destruct l as [|y l']; [discriminate|].
  intros Hn. change (lastopt (x :: y :: l')) with (lastopt (y :: l')) in Hn.
  apply IH in Hn. discriminate.
Qed.

Definition later_stream (lss : list (list (list tok))) : list tok :=
  concat (map (fun ls => later_frame pl h clear (joinlf ls)) lss).

(** the invariant of the animation loop: after every frame the cursor is back at the
    render's top-left; every frame is drawn over (exactly) the render's cells; nothing
    outside the box is touched; nothing scrolls *)
Theorem later_frames_inv : forall lss s ra,
  Forall (LinesRect all_cells w h) lss -> okat s ra ca ->
  exists EV,
    exec lm s (later_stream lss) = mk ra ca adefault s EV
    /\ forallb (ev_inside ra lm h (pl + w)) EV = true
    /\ (forall r c, covered EV r c = true -> ra <= r < ra + h /\ ca <= c < ca + w)
    /\ (forall r c acc, ra <= r < ra + h -> ca <= c < ca + w ->
          lastcov_from acc EV r c =
          match lastopt lss with None => acc | Some lsn => lastcov (flat ca ra lsn) r c end).
Proof.
  induction lss as [|ls rest IH]; intros s ra HF Hok.
  - exists []. cbn. split; [destruct Hok as (_ & Hs & Hr & Hc); rewrite <- Hs, <- Hr, <- Hc; symmetry; apply mk_id|].
    split; [reflexivity|]. split; [discriminate|reflexivity].
  - inversion HF as [|? ? HLR HF']; subst.
    pose proof (lr_w _ _ _ _ HLR) as Hw.
    destruct (later_frame_step ls s ra HLR Hok) as (Ec & HinC & E1).
    assert (Hcl : clean s) by apply Hok.
    destruct (IH (mk ra ca adefault s (Ec ++ ip_evs lm pl ra ls ++ goto_evs lm (ra + h - 1) (h - 1) pl))
                 ra HF' (okat_mk _ _ _ _ Hcl)) as (EV & E2 & Hin2 & Hcov2 & Hlast2).
    exists ((Ec ++ ip_evs lm pl ra ls ++ goto_evs lm (ra + h - 1) (h - 1) pl) ++ EV).
    assert (Hh : 0 < h).
    { pose proof (lr_len _ _ _ _ HLR) as Hlen. pose proof (lr_ne _ _ _ _ HLR).
      destruct ls; [congruence|cbn [length] in Hlen; lia]. }
    assert (HinIp : forallb (ev_inside ra lm h (pl + w)) (ip_evs lm pl ra ls) = true).
    { pose proof (ip_inside lm pl w h (Z.lt_le_incl _ _ Hw) Hpl ls 0%nat ra (LinesRect_from _ _ _ _ HLR)) as Hi.
      replace (ra - Z.of_nat 0) with ra in Hi by lia. exact Hi. }
    assert (HcovIp : forall r c, covered (ip_evs lm pl ra ls) r c = true -> ra <= r < ra + h /\ ca <= c < ca + w).
    { intros r c Hc. rewrite ip_covered in Hc. fold ca in Hc.
      unfold covered in Hc. apply existsb_exists in Hc. destruct Hc as (e & He & Hce).
      pose proof (flat_inside w h ca ls 0%nat ra (LinesRect_from _ _ _ _ HLR)) as Hi.
      replace (ra - Z.of_nat 0) with ra in Hi by lia.
      exact (inside_covers _ _ _ _ _ _ _ (proj1 (forallb_forall _ _) Hi e He) Hce). }
    split; [|split; [|split]].
    + unfold later_stream in *. cbn [map concat]. rewrite exec_app, E1, E2, mk_mk. reflexivity.
    + rewrite !forallb_app, !andb_true_iff. split; [split; [|split]|exact Hin2].
      * eapply forallb_inside_mono; [| | | |exact HinC]; unfold ca; lia.
      * exact HinIp.
      * apply goto_inside; lia.
    + intros r c Hc. rewrite !covered_app, goto_nocover, orb_false_r in Hc.
      apply orb_true_iff in Hc. destruct Hc as [Hc|Hc]; [|apply Hcov2, Hc].
      apply orb_true_iff in Hc. destruct Hc as [Hc|Hc]; [|apply HcovIp, Hc].
      unfold covered in Hc. apply existsb_exists in Hc. destruct Hc as (e & He & Hce).
      exact (inside_covers _ _ _ _ _ _ _ (proj1 (forallb_forall _ _) HinC e He) Hce).
    + intros r c acc Hr Hc. rewrite lastcov_from_app, (Hlast2 r c _ Hr Hc).
      destruct rest as [|ls2 rest'].
      2:{ change (lastopt (ls :: ls2 :: rest')) with (lastopt (ls2 :: rest')).
          destruct (lastopt (ls2 :: rest')) eqn:El; [reflexivity|].
          apply lastopt_none in El. discriminate. }
      cbn [lastopt].
      rewrite !lastcov_from_app, (lastcov_from_none _ (goto_evs _ _ _ _)) by apply goto_nocover.
      rewrite ip_lastcov. fold ca. apply lastcov_from_cov.
      apply (flat_covers_rect w h ls ra ca r c HLR Hr Hc).
Qed.

Lemma lastopt_in {A} (l : list A) x : lastopt l = Some x -> In x l.
Proof.
  induction l as [|y l IH]; [discriminate|]. destruct l as [|z l'].
  - cbn. intros E; inversion E. left. reflexivity.
  - intros E. change (lastopt (y :: z :: l')) with (lastopt (z :: l')) in E. right. apply IH, E.
Qed.

Definition lastframe (ls1 : list (list tok)) (lss : list (list (list tok))) : list (list tok) :=
  match lastopt lss with Some l => l | None => ls1 end.

Variable ls1 : list (list tok).
Variable lss : list (list (list tok)).
Hypothesis HLR1 : LinesRect all_cells w h ls1.
Hypothesis HD1 : forall ln, In ln ls1 -> Downward ln.
Hypothesis HFs : Forall (LinesRect all_cells w h) lss.

Let d := (pl, pt, pr, pb).
Let PL1 := pad_lines fill d w ls1.
Let PLn := pad_lines fill d w (lastframe ls1 lss).

Lemma lastframe_lr : LinesRect all_cells w h (lastframe ls1 lss).
Proof.
  unfold lastframe. destruct (lastopt lss) eqn:E; [|exact HLR1].
  apply lastopt_in in E. exact (proj1 (Forall_forall _ _) HFs _ E).
Qed.

Lemma Hh_pos : 0 < h.
Proof.
  pose proof (lr_len _ _ _ _ HLR1) as Hlen. pose proof (lr_ne _ _ _ _ HLR1).
  destruct ls1; [congruence|cbn [length] in Hlen; lia].
Qed.

(** the body of the animation followed by the final line feed, from any suitable state *)
Theorem animate_body s0 r0 top0 :
  okat s0 r0 lm -> top0 <= r0 < top0 + H ->
  let B := anim_body pl pb h clear (pad fill d w (joinlf ls1)) (map joinlf lss) ++ [TLF] in
  exists EV,
    exec lm s0 B = mk (r0 + ph) lm adefault s0 EV
    /\ srun W H lm top0 s0 B = Some (Z.max top0 (r0 + ph + 1 - H))
    /\ forallb (ev_box_or_below r0 lm ph pw) EV = true
    /\ (forall r c, r0 <= r < r0 + ph -> lm <= c < lm + pw ->
          lastcov EV r c = lastcov (jl_evs lm r0 PLn) r c).
Proof.
  intros Hok Htop B. pose proof Hh_pos as Hh. pose proof (lr_w _ _ _ _ HLR1) as Hw.
  assert (Hcl : clean s0) by apply Hok.
  destruct (first_box lm fill w h pl pt pr pb Hpl Hpt Hpr Hpb ls1 HLR1 s0 r0 Hok) as [E1 Hin1].
  pose proof (first_box_scroll W H lm fill w h pl pt pr pb Hpl Hpt Hpr Hpb Hlm HW HH ls1 HLR1 s0 r0 top0 HD1 Hok Htop) as S1.
  fold d PL1 pw ph in E1, Hin1, S1.
  set (top1 := Z.max top0 (r0 + ph - H)) in *.
  set (s1 := mk (r0 + ph - 1) (lm + pw) adefault s0 (jl_evs lm r0 PL1)) in *.
  (* up to the render's top-left *)
  pose proof (exec_goto lm s1 (r0 + ph - 1) (lm + pw) (h + pb - 1) pl (okat_mk _ _ _ _ Hcl)) as E2.
  specialize (E2 ltac:(lia) Hpl).
  replace (r0 + ph - 1 - (h + pb - 1)) with (r0 + pt) in E2 by (unfold ph; lia).
  set (G := goto_evs lm (r0 + ph - 1) (h + pb - 1) pl) in *.
  set (s2 := mk (r0 + pt) (lm + pl) adefault s1 G) in *.
  assert (Hok2 : okat s2 (r0 + pt) ca) by (apply okat_mk, Hcl).
  (* the later frames *)
  destruct (later_frames_inv lss s2 (r0 + pt) HFs Hok2) as (EV2 & E3 & Hin3 & Hcov3 & Hlast3).
  fold (later_stream lss) in *.
  assert (Emap : concat (map (later_frame pl h clear) (map joinlf lss)) = later_stream lss).
  { unfold later_stream. rewrite map_map. reflexivity. }
  set (s3 := mk (r0 + pt) ca adefault s2 EV2) in *.
  (* down to the last line of the box, and the line feed *)
  pose proof (exec_cud lm s3 (h + pb - 1) (proj1 Hcl) ltac:(lia)) as E4.
  cbn [row col sgr mk s3] in E4.
  set (D := cud_evs (r0 + pt) ca (h + pb - 1)) in *.
  (* the middle part: everything between the first frame and the line feed *)
  set (M := [TCR] ++ cuu (h + pb - 1) ++ cuf pl ++ later_stream lss ++ cud (h + pb - 1)).
  assert (EM : exec lm s1 M = mk (r0 + ph - 1) ca adefault s1 (G ++ EV2 ++ D)).
  { unfold M. rewrite !app_assoc. rewrite exec_app, exec_app. rewrite <- !app_assoc.
    rewrite E2. fold s2. rewrite E3. fold s3. rewrite E4. unfold s3, s2. rewrite !mk_mk.
    f_equal. unfold ph; lia. }
  assert (HinM : forallb (ev_inside r0 lm ph pw) (G ++ EV2 ++ D) = true).
  { rewrite !forallb_app, !andb_true_iff. split; [|split].
    - apply goto_inside; unfold ph, pw; lia.
    - eapply forallb_inside_mono; [| | | |exact Hin3]; unfold ph, pw; lia.
    - unfold D, cud_evs. destruct (0 <? h + pb - 1) eqn:E0; [|reflexivity].
      cbn [forallb ev_inside]. unfold ca, ph, pw.
      rewrite !andb_true_iff, !Z.leb_le, !Z.ltb_lt. apply Z.ltb_lt in E0. lia. }
  assert (EB : B = pad fill d w (joinlf ls1) ++ M ++ [TLF]).
  { unfold B, anim_body, M. rewrite Emap, <- !app_assoc. reflexivity. }
  exists (jl_evs lm r0 PL1 ++ (G ++ EV2 ++ D) ++ [EMove (r0 + ph) lm]).
  split; [|split; [|split]].
  - rewrite EB, exec_app, E1. fold s1. rewrite exec_app, EM. cbn [exec fold_left].
    rewrite step_lf by apply Hcl. unfold s1. rewrite !mk_mk. cbn [row mk].
    replace (r0 + ph - 1 + 1) with (r0 + ph) by lia. reflexivity.
  - rewrite EB, srun_app, S1, E1. fold s1. rewrite srun_app.
    rewrite (srun_noscroll W H lm top1 M s1).
    2:{ rewrite (exec_mk_evs _ _ _ _ _ _ _ EM). apply forallb_forall. intros e He.
        eapply rect_win; [exact (proj1 (forallb_forall _ _) HinM e He)|unfold top1; lia|unfold top1; lia|lia|lia]. }
    rewrite EM. cbn [srun scrolls parser mk row].
    replace (parser s1) with Ground by (symmetry; apply Hcl).
    unfold step_evs. cbn [parser mk]. replace (parser s1) with Ground by (symmetry; apply Hcl).
    cbn [ground_evs row mk forallb ev_win ev_inside].
    destruct (r0 + ph - 1 =? top1 + H - 1) eqn:Eb.
    + apply Z.eqb_eq in Eb.
      replace ((top1 + 1 <=? r0 + ph - 1 + 1) && (r0 + ph - 1 + 1 <? top1 + 1 + H) && (0 <=? lm) && (lm <=? 0 + W) && true)
        with true by (symmetry; rewrite !andb_true_iff, !Z.leb_le, !Z.ltb_lt; unfold pw in *; lia).
      f_equal. unfold top1 in *. lia.
    + apply Z.eqb_neq in Eb.
      replace ((top1 <=? r0 + ph - 1 + 1) && (r0 + ph - 1 + 1 <? top1 + H) && (0 <=? lm) && (lm <=? 0 + W) && true)
        with true by (symmetry; rewrite !andb_true_iff, !Z.leb_le, !Z.ltb_lt; unfold pw, top1 in *; lia).
      f_equal. unfold top1 in *. lia.
  - rewrite (forallb_app _ (jl_evs lm r0 PL1)), (forallb_app _ (G ++ EV2 ++ D)), !andb_true_iff.
    split; [|split].
    + apply box_or_below_of_inside, Hin1.
    + apply box_or_below_of_inside, HinM.
    + cbn [forallb]. unfold ev_box_or_below. rewrite !Z.eqb_refl. cbn. rewrite orb_true_r. reflexivity.
  - intros r c Hr Hc.
    assert (Htail : covered (D ++ [EMove (r0 + ph) lm]) r c = false).
    { unfold D, cud_evs, covered. destruct (0 <? h + pb - 1); reflexivity. }
    assert (Eall : lastcov (jl_evs lm r0 PL1 ++ (G ++ EV2 ++ D) ++ [EMove (r0 + ph) lm]) r c
                   = lastcov_from (lastcov (jl_evs lm r0 PL1) r c) EV2 r c).
    { unfold lastcov at 1. rewrite <- !app_assoc, !lastcov_from_app.
      fold (lastcov (jl_evs lm r0 PL1) r c).
      rewrite (lastcov_from_none _ G) by apply goto_nocover.
      rewrite <- lastcov_from_app. apply lastcov_from_none, Htail. }
    rewrite Eall. clear Eall.
    pose proof lastframe_lr as HLRn.
    destruct (Z_le_dec (r0 + pt) r) as [Hr1|Hr1];
      [destruct (Z_lt_dec r (r0 + pt + h)) as [Hr2|Hr2];
       [destruct (Z_le_dec ca c) as [Hc1|Hc1];
        [destruct (Z_lt_dec c (ca + w)) as [Hc2|Hc2]|]|]|].
    + (* an inner cell *)
      rewrite (Hlast3 r c _ (conj Hr1 Hr2) (conj Hc1 Hc2)).
      unfold lastcov at 3. rewrite lastcov_jl. unfold PLn, d.
      rewrite (shows_inner fill w h pl pt pr pb _ HLRn Hpl Hpt Hpr lm r0 r c (conj Hr1 Hr2));
        [|unfold ca in *; lia].
      unfold lastframe. destruct (lastopt lss) eqn:El; [reflexivity|].
      unfold lastcov. rewrite lastcov_jl. unfold PL1, d.
      rewrite (shows_inner fill w h pl pt pr pb _ HLR1 Hpl Hpt Hpr lm r0 r c (conj Hr1 Hr2));
        [reflexivity|unfold ca in *; lia].
    + rewrite lastcov_from_none.
      2:{ destruct (covered EV2 r c) eqn:Ec; [|reflexivity]. apply Hcov3 in Ec. lia. }
      unfold lastcov. rewrite !lastcov_jl. fold (lastcov (flat lm r0 PL1) r c) (lastcov (flat lm r0 PLn) r c).
      unfold PL1, PLn, d.
      rewrite !(shows_pad fill w h pl pt pr pb) by (try assumption; unfold ca, ph, pw in *; lia).
      reflexivity.
    + rewrite lastcov_from_none.
      2:{ destruct (covered EV2 r c) eqn:Ec; [|reflexivity]. apply Hcov3 in Ec. lia. }
      unfold lastcov. rewrite !lastcov_jl. fold (lastcov (flat lm r0 PL1) r c) (lastcov (flat lm r0 PLn) r c).
      unfold PL1, PLn, d.
      rewrite !(shows_pad fill w h pl pt pr pb) by (try assumption; unfold ca, ph, pw in *; lia).
      reflexivity.
    + rewrite lastcov_from_none.
      2:{ destruct (covered EV2 r c) eqn:Ec; [|reflexivity]. apply Hcov3 in Ec. lia. }
      unfold lastcov. rewrite !lastcov_jl. fold (lastcov (flat lm r0 PL1) r c) (lastcov (flat lm r0 PLn) r c).
      unfold PL1, PLn, d.
      rewrite !(shows_pad fill w h pl pt pr pb) by (try assumption; unfold ca, ph, pw in *; lia).
      reflexivity.
    + rewrite lastcov_from_none.
      2:{ destruct (covered EV2 r c) eqn:Ec; [|reflexivity]. apply Hcov3 in Ec. lia. }
      unfold lastcov. rewrite !lastcov_jl. fold (lastcov (flat lm r0 PL1) r c) (lastcov (flat lm r0 PLn) r c).
      unfold PL1, PLn, d.
      rewrite !(shows_pad fill w h pl pt pr pb) by (try assumption; unfold ca, ph, pw in *; lia).
      reflexivity.
Qed.

Let P1 := padded fill d w h (joinlf ls1).
Let Pn := padded fill d w h (joinlf (lastframe ls1 lss)).

Lemma ref_evs t0 r0 : okat t0 r0 lm -> exec_evs lm t0 Pn = jl_evs lm r0 PLn.
Proof.
  intros Hok. unfold Pn, d. rewrite padded_is_pad by assumption.
  destruct (first_box lm fill w h pl pt pr pb Hpl Hpt Hpr Hpb _ lastframe_lr t0 r0 Hok) as [E _].
  exact (exec_mk_evs _ _ _ _ _ _ _ E).
Qed.

(** MAIN (new API, animation): for every first frame and every list of later frames *)
Theorem animate_final t0 top0 hide :
  okat t0 (row t0) lm -> top0 <= row t0 < top0 + H ->
  DrawFinal W H lm top0 t0 hide pw ph Pn
            (anim_stream hide pl pb h clear P1 (map joinlf lss)).
Proof.
  intros Hok Htop. unfold anim_stream.
  replace (opt hide THide ++ anim_body pl pb h clear P1 (map joinlf lss) ++ [TLF] ++ opt hide TShow)
    with (opt hide THide ++ (anim_body pl pb h clear P1 (map joinlf lss) ++ [TLF]) ++ opt hide TShow)
    by (rewrite <- !app_assoc; reflexivity).
  apply wrap_hide with (r0 := row t0); [exact Hok|].
  intros s0 Hok0. unfold P1, d. rewrite padded_is_pad by assumption.
  destruct (animate_body s0 (row t0) top0 Hok0 Htop) as (EV & E & S & Hb & Hc).
  exists EV. split; [exact E|]. split; [exact S|]. split; [exact Hb|].
  intros r c Hr Hcc. rewrite (ref_evs t0 (row t0) Hok). apply Hc; assumption.
Qed.


End New.

Section Still.
Variables W H lm : Z.
Variable fill : option glyph.
Variables w h pl pt pr pb : Z.
Hypothesis Hpl : 0 <= pl.
Hypothesis Hpt : 0 <= pt.
Hypothesis Hpr : 0 <= pr.
Hypothesis Hpb : 0 <= pb.
Hypothesis Hlm : 0 <= lm.
Let pw := pl + w + pr.
Let ph := pt + h + pb.
Hypothesis HW : lm + pw <= W.
Hypothesis HH : ph <= H.
Variable ls1 : list (list tok).
Hypothesis HLR1 : LinesRect all_cells w h ls1.
Hypothesis HD1 : forall ln, In ln ls1 -> Downward ln.
Let d := (pl, pt, pr, pb).
Let PL1 := pad_lines fill d w ls1.
Let P1 := padded fill d w h (joinlf ls1).

Lemma Hh_pos' : 0 < h.
Proof.
  pose proof (lr_len _ _ _ _ HLR1) as Hlen. pose proof (lr_ne _ _ _ _ HLR1).
  destruct ls1; [congruence|cbn [length] in Hlen; lia].
Qed.

(** MAIN (new API, still frame) *)
Theorem draw_still_final t0 top0 hide :
  okat t0 (row t0) lm -> top0 <= row t0 < top0 + H ->
  DrawFinal W H lm top0 t0 hide pw ph P1 (still_stream hide P1).
Proof.
  intros Hok Htop. unfold still_stream, P1, d.
  rewrite padded_is_pad by assumption. fold d.
  set (P := pad fill d w (joinlf ls1)).
  replace (opt hide THide ++ P ++ [TLF] ++ opt hide TShow)
    with (opt hide THide ++ (P ++ [TLF]) ++ opt hide TShow)
    by (rewrite <- !app_assoc; reflexivity).
  set (r0 := row t0) in *.
  assert (Eref : exec_evs lm t0 P = jl_evs lm r0 PL1).
  { destruct (first_box lm fill w h pl pt pr pb Hpl Hpt Hpr Hpb ls1 HLR1 t0 r0 Hok) as [E _].
    exact (exec_mk_evs _ _ _ _ _ _ _ E). }
  apply wrap_hide with (r0 := r0); [exact Hok|].
  intros s0 Hok0.
  assert (Hcl : clean s0) by apply Hok0.
  destruct (first_box lm fill w h pl pt pr pb Hpl Hpt Hpr Hpb ls1 HLR1 s0 r0 Hok0) as [E1 Hin1].
  pose proof (first_box_scroll W H lm fill w h pl pt pr pb Hpl Hpt Hpr Hpb Hlm HW HH ls1 HLR1 s0 r0 top0 HD1 Hok0 Htop) as S1.
  fold d PL1 pw ph in E1, Hin1, S1. fold P in E1, S1.
  pose proof (lr_w _ _ _ _ HLR1) as Hw. pose proof Hh_pos' as Hh.
  exists (jl_evs lm r0 PL1 ++ [EMove (r0 + ph) lm]). split; [|split; [|split]].
  - rewrite exec_app, E1. cbn [exec fold_left]. rewrite step_lf by apply Hcl. rewrite mk_mk.
    cbn [row mk]. replace (r0 + ph - 1 + 1) with (r0 + ph) by lia. reflexivity.
  - rewrite srun_app, S1, E1. rewrite (srun_lf W H lm); [|exact Hlm|apply Hcl|cbn [row mk]; unfold ph in *; lia|unfold pw in *; lia].
    cbn [row mk]. f_equal. lia.
  - rewrite forallb_app, andb_true_iff. split; [apply box_or_below_of_inside, Hin1|].
    cbn [forallb]. unfold ev_box_or_below. rewrite !Z.eqb_refl. cbn. rewrite orb_true_r. reflexivity.
  - intros r c Hr Hc. rewrite Eref. apply lastcov_app_none. reflexivity.
Qed.

End Still.
