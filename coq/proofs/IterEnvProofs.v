(** * IterEnvProofs — the render iterator refines its documented model in a changing
      environment: terminal resizes between operations, client writes to [iterator.loop],
      and re-use of one render data object by a second iterator (C08) *)
From Coq Require Import List ZArith Bool Lia.
Import ListNotations.
From TI Require Import model.Iter model.IterSpec model.IterEnv model.IterSession proofs.IterProofs proofs.IterProofs2.
Open Scope Z_scope.

Section EnvProofs.
  Variable RS : Type.
  Variable render : RS -> Z -> whence -> size -> dur -> Z -> rres * RS.
  Variable n : option Z.

  Notation state := (state RS).
  Notation astate := (astate RS).
  Notation step := (step RS render n).
  Notation spec_step := (spec_step RS render n).
  Notation estep := (estep RS render n).
  Notation spec_estep := (spec_estep RS render n).
  Notation run_env := (run_env RS render n).
  Notation spec_run_env := (spec_run_env RS render n).
  Notation trace_env := (trace_env RS render n).
  Notation spec_trace_env := (spec_trace_env RS render n).
  Notation outs_env := (outs_env RS render n).
  Notation spec_outs_env := (spec_outs_env RS render n).
  Notation R := (R RS render n).
  Notation setpub := (set_pub_loop RS).

  Ltac brk :=
    repeat match goal with
           | |- context [match ?x with _ => _ end] =>
             match type of x with
             | _ => is_var x; destruct x
             | _ => let E := fresh "E" in destruct x eqn:E
             end; cbn
           end.

  (** ** the operations never READ [self.loop]: running an operation on a state whose public
      attribute was overwritten gives the same outcome and the same state, except that the
      written value is still there unless the operation itself published the countdown *)

  Lemma body_pub : forall (s : state) v fno,
      let r := body RS render n s fno in
      (pub_loop (fst r) = pub_loop s /\
       body RS render n (setpub s v) fno = (setpub (fst r) v, snd r)) \/
      (pub_loop (fst r) = 0 /\ body RS render n (setpub s v) fno = r).
  Proof.
    intros s v fno.
    destruct s as [cl ph gl pl [f w sz du] ar pd pdd cd ch g r rf].
    unfold body, render_frame, deliver, close; cbn.
    brk; try (left; split; reflexivity); try (right; split; reflexivity).
  Qed.

  Lemma pass_end_pub : forall (s : state) v,
      let r := pass_end RS render n s in
      (pub_loop (fst r) = pub_loop s /\
       pass_end RS render n (setpub s v) = (setpub (fst r) v, snd r)) \/
      ((g_loop s = pub_loop s -> g_loop s <> 0 -> pub_loop (fst r) <> pub_loop s) /\
       pass_end RS render n (setpub s v) = r).
  Proof.
    intros s v.
    destruct s as [cl ph gl pl [f w sz du] ar pd pdd cd ch g r rf].
    unfold pass_end; cbn -[body].
    destruct (0 <? gl) eqn:Eg; cbn -[body].
    - right. split; [|reflexivity]. intros -> Hg0.
      destruct (pl - 1 =? 0) eqn:E0; [unfold close; cbn; brk; cbn; lia|].
      match goal with |- context [body RS render n ?s0 0] => destruct (body_pub s0 0 0) as [[H _]|[H _]] end;
        cbn in H; rewrite H; lia.
    - destruct (gl =? 0) eqn:E0; [left; unfold close; cbn; brk; split; reflexivity|].
      match goal with |- context [body RS render n ?s0 0] => destruct (body_pub s0 v 0) as [[H1 H2]|[H1 H2]] end.
      + left. split; [exact H1 | exact H2].
      + right. split; [|exact H2]. intros -> Hg0. rewrite H1. cbn. lia.
  Qed.

  Lemma step_pub : forall term (s : state) v o,
      let r := step term s o in
      (pub_loop (fst r) = pub_loop s /\
       step term (setpub s v) o = (setpub (fst r) v, snd r)) \/
      ((closed s = false -> g_loop s = pub_loop s /\ g_loop s <> 0 -> pub_loop (fst r) <> pub_loop s) /\
       step term (setpub s v) o = r).
  Proof.
    intros term s v o.
    destruct o; cbn.
    2-8: destruct s as [? ? ? ? [? ? ? ?] ? ? ? ? ? ? ? ?];
      unfold seek, set_duration, set_padding, set_render_args, set_render_size, close; cbn; brk; left; split; reflexivity.
    unfold next.
    assert (Hb : forall fno,
      (pub_loop (fst (body RS render n s fno)) = pub_loop s /\
       body RS render n (setpub s v) fno = (setpub (fst (body RS render n s fno)) v, snd (body RS render n s fno))) \/
      ((closed s = false -> g_loop s = pub_loop s /\ g_loop s <> 0 -> pub_loop (fst (body RS render n s fno)) <> pub_loop s) /\
       body RS render n (setpub s v) fno = body RS render n s fno)).
    { intros fno. destruct (body_pub s v fno) as [H|[H1 H2]]; [left; exact H|].
      right. split; [|exact H2]. intros _ [Hg Hg0]. rewrite H1. lia. }
    assert (Hp :
      (pub_loop (fst (pass_end RS render n s)) = pub_loop s /\
       pass_end RS render n (setpub s v) = (setpub (fst (pass_end RS render n s)) v, snd (pass_end RS render n s))) \/
      ((closed s = false -> g_loop s = pub_loop s /\ g_loop s <> 0 -> pub_loop (fst (pass_end RS render n s)) <> pub_loop s) /\
       pass_end RS render n (setpub s v) = pass_end RS render n s)).
    { destruct (pass_end_pub s v) as [H|[H1 H2]]; [left; exact H|].
      right. split; [|exact H2]. intros _ [Hg Hg0]. auto. }
    assert (Hc : pub_loop (fst (close RS s, OStop)) = pub_loop s /\
                 (close RS (setpub s v), OStop) = (setpub (fst (close RS s, OStop)) v, snd (close RS s, OStop))).
    { destruct s as [cl ph gl pl [f w sz du] ar pd pdd cd ch g r rf]. unfold close; cbn. brk; split; reflexivity. }
    replace (closed (setpub s v)) with (closed s) by (destruct s; reflexivity).
    replace (phase (setpub s v)) with (phase s) by (destruct s; reflexivity).
    replace (g_loop (setpub s v)) with (g_loop s) by (destruct s; reflexivity).
    replace (rd (setpub s v)) with (rd s) by (destruct s; reflexivity).
    destruct (closed s); [left; split; reflexivity|].
    destruct (phase s).
    - destruct (g_loop s =? 0); [left; exact Hc|].
      destruct (fo (rd s) * (if definite n then 1 else 0) <? fc n); [apply Hb | apply Hp].
    - destruct ((if definite n then fo (rd s) else 0) <? fc n); [apply Hb | apply Hp].
  Qed.

  Lemma setpub_setpub : forall (s : state) v w, setpub (setpub s v) w = setpub s w.
  Proof. destruct s; reflexivity. Qed.
  Lemma setpub_same : forall (s : state), setpub s (pub_loop s) = s.
  Proof. destruct s; reflexivity. Qed.
  Lemma pub_setpub : forall (s : state) v, pub_loop (setpub s v) = v.
  Proof. destruct s; reflexivity. Qed.

  (** ** the simulation, with client writes: the state of the code is the state related to
      the documented machine, with the attribute overwritten if a written value is pending *)
  Definition poked (s : state) (ov : option Z) : state :=
    match ov with Some v => setpub s v | None => s end.

  Definition RP (sp : state) (p : pstate RS) : Prop :=
    exists s, R s (fst p) /\ sp = poked s (snd p).

  Lemma RP_readback : forall sp p, RP sp p -> pub_loop sp = readback RS p.
  Proof.
    intros sp [a ov] (s & HR & ->). destruct HR as (_ & Hl & _). cbn in *.
    destruct ov; cbn; [destruct s; reflexivity | exact Hl].
  Qed.

  Lemma R_inv : forall s a, R s a -> closed s = false -> g_loop s = pub_loop s /\ g_loop s <> 0.
  Proof. intros s a (_ & _ & H) Hc. destruct (H Hc) as (H1 & H2 & _). auto. Qed.

  Lemma sim_estep : forall sp p e,
      RP sp p ->
      snd (estep sp e) = snd (spec_estep p e) /\ RP (fst (estep sp e)) (fst (spec_estep p e)).
  Proof.
    intros sp [a ov] [t [o|v]] (s & HR & ->); unfold IterEnv.estep, IterEnv.spec_estep; cbn [fst snd].
    - (* an operation, at the terminal size of the event *)
      destruct (sim_step RS render n t s a o HR) as [Ho HR'].
      destruct (spec_step t a o) as [a' y] eqn:Ea. cbn [fst snd] in *.
      pose proof HR as (_ & Hl & _). pose proof HR' as (_ & Hl' & _).
      destruct ov as [v|]; cbn [poked].
      + destruct (step_pub t s v o) as [[H1 H2]|[H1 H2]]; rewrite H2; cbn [fst snd].
        * split; [exact Ho|]. exists (fst (step t s o)). split; [exact HR'|].
          assert (E : (a_loop a' =? a_loop a) = true) by (apply Z.eqb_eq; congruence).
          rewrite E. reflexivity.
        * split; [exact Ho|]. exists (fst (step t s o)). split; [exact HR'|].
          destruct (closed s) eqn:Ec.
          -- (* a finalized iterator: nothing changes, the written value stays *)
             pose proof (closed_ops_raise RS render n t s o Ec) as Hs.
             assert (Ec' : closed (setpub s v) = true) by (destruct s; exact Ec).
             pose proof (closed_ops_raise RS render n t (setpub s v) o Ec') as Hs'.
             rewrite Hs in *. cbn [fst snd] in *.
             assert (E : (a_loop a' =? a_loop a) = true) by (apply Z.eqb_eq; congruence).
             rewrite E. cbn [poked]. rewrite Hs' in H2. inversion H2 as [H3]. rewrite H3. symmetry. exact H3.
          -- specialize (H1 eq_refl (R_inv s a HR Ec)).
             assert (E : (a_loop a' =? a_loop a) = false) by (apply Z.eqb_neq; congruence).
             rewrite E. reflexivity.
      + split; [exact Ho|]. exists (fst (step t s o)). split; [exact HR'|].
        destruct (a_loop a' =? a_loop a); reflexivity.
    - (* a client write *)
      split; [reflexivity|]. exists s. split; [exact HR|]. cbn.
      destruct ov; cbn; [apply setpub_setpub | reflexivity].
  Qed.

  Lemma sim_trace_env : forall h sp p, RP sp p -> trace_env sp h = spec_trace_env p h.
  Proof.
    induction h as [|e h IH]; intros sp p HRP; [reflexivity|].
    cbn [IterEnv.trace_env IterEnv.spec_trace_env].
    destruct (sim_estep sp p e HRP) as [Ho HRP'].
    destruct (estep sp e) as [sp' x]. destruct (spec_estep p e) as [p' y]. cbn [fst snd] in *. subst y.
    rewrite (RP_readback sp' p' HRP'). f_equal. apply IH. exact HRP'.
  Qed.

  Lemma sim_outs_env : forall h sp p, RP sp p -> outs_env sp h = spec_outs_env p h.
  Proof.
    induction h as [|e h IH]; intros sp p HRP; [reflexivity|].
    cbn [IterEnv.outs_env IterEnv.spec_outs_env].
    destruct (sim_estep sp p e HRP) as [Ho HRP'].
    destruct (estep sp e) as [sp' x]. destruct (spec_estep p e) as [p' y]. cbn [fst snd] in *. subst y.
    rewrite (IH sp' p' HRP'). reflexivity.
  Qed.

  Lemma sim_run_env : forall h sp p, RP sp p -> RP (run_env sp h) (spec_run_env p h).
  Proof.
    induction h as [|e h IH]; intros sp p HRP; [exact HRP|].
    cbn. apply IH. apply sim_estep. exact HRP.
  Qed.

  Lemma R_RP : forall s a, R s a -> RP s (a, None).
  Proof. intros s a HR. exists s. split; [exact HR | reflexivity]. Qed.

  (** ** C08, in a changing environment: for EVERY history of events - operations at
      whatever terminal size is in force at each of them, client writes to [iterator.loop] -
      the iterator yields the trace of the documented machine.  [term0]: the terminal size
      at construction. *)
  Theorem iter_env_refines_spec : forall term0 c rs0 s a h,
      (cache_decision n (c_cache c) = false \/ render_det RS render) ->
      mk RS n term0 c rs0 = inl s -> spec_mk RS n term0 c rs0 = inl a ->
      trace_env s h = spec_trace_env (a, None) h.
  Proof.
    intros term0 c rs0 s a h Hmode Hs Ha. apply sim_trace_env. apply R_RP.
    pose proof (sim_mk RS render n term0 c rs0 Hmode) as H. rewrite Hs, Ha in H. exact H.
  Qed.

  (** the histories of [Iter] / [IterSpec] are the events at a constant terminal size *)
  Lemma trace_env_const : forall term ops (s : state),
      trace_env s (const_env term ops) = trace RS render n term s ops.
  Proof.
    induction ops as [|o ops IH]; intros s; [reflexivity|].
    cbn [const_env map IterEnv.trace_env Iter.trace]. unfold IterEnv.estep; cbn [fst snd].
    destruct (step term s o) as [s' x]. f_equal. apply IH.
  Qed.

  Lemma spec_trace_env_const : forall term ops (a : astate),
      spec_trace_env (a, None) (const_env term ops) = spec_trace RS render n term a ops.
  Proof.
    induction ops as [|o ops IH]; intros a; [reflexivity|].
    cbn [const_env map IterEnv.spec_trace_env IterSpec.spec_trace]. unfold IterEnv.spec_estep; cbn [fst snd].
    destruct (spec_step term a o) as [a' x]. cbn [fst snd].
    replace (if a_loop a' =? a_loop a then None else None) with (@None Z) by (destruct (a_loop a' =? a_loop a); reflexivity).
    unfold readback; cbn [fst snd]. f_equal. apply IH.
  Qed.

  Lemma env_constant_terminal : forall term ops (s : state) (a : astate),
      trace_env s (const_env term ops) = trace RS render n term s ops /\
      spec_trace_env (a, None) (const_env term ops) = spec_trace RS render n term a ops.
  Proof. intros. split; [apply trace_env_const | apply spec_trace_env_const]. Qed.

  (** ** a client write to [iterator.loop] never changes what the iterator does *)

  (** equal but for the public attribute *)
  Definition eq_mod_pub (s1 s2 : state) : Prop := setpub s1 0 = setpub s2 0.

  Lemma eq_mod_pub_refl : forall s, eq_mod_pub s s.
  Proof. reflexivity. Qed.

  Lemma eq_mod_pub_setpub : forall s1 s2 v, eq_mod_pub s1 s2 -> eq_mod_pub (setpub s1 v) s2.
  Proof. intros s1 s2 v H. unfold eq_mod_pub in *. rewrite setpub_setpub. exact H. Qed.

  Lemma eq_mod_pub_is : forall s1 s2, eq_mod_pub s1 s2 -> s1 = setpub s2 (pub_loop s1).
  Proof.
    intros s1 s2 H. destruct s1, s2. unfold eq_mod_pub in H. cbn in *. inversion H. subst. reflexivity.
  Qed.

  Lemma step_mod_pub : forall term s1 s2 o,
      eq_mod_pub s1 s2 ->
      snd (step term s1 o) = snd (step term s2 o) /\ eq_mod_pub (fst (step term s1 o)) (fst (step term s2 o)).
  Proof.
    intros term s1 s2 o H. rewrite (eq_mod_pub_is s1 s2 H).
    destruct (step_pub term s2 (pub_loop s1) o) as [[_ H2]|[_ H2]]; rewrite H2; cbn [fst snd].
    - split; [reflexivity|]. apply eq_mod_pub_setpub. reflexivity.
    - split; reflexivity.
  Qed.

  Lemma env_mod_pub : forall h s1 s2,
      eq_mod_pub s1 s2 ->
      outs_env s1 h = outs_env s2 (erase_pokes h) /\ eq_mod_pub (run_env s1 h) (run_env s2 (erase_pokes h)).
  Proof.
    induction h as [|[t [o|v]] h IH]; intros s1 s2 H; [split; [reflexivity | exact H]| |].
    - cbn [erase_pokes filter is_op snd IterEnv.outs_env IterEnv.run_env fold_left].
      unfold IterEnv.estep; cbn [fst snd].
      destruct (step_mod_pub t s1 s2 o H) as [Ho Hs].
      destruct (step t s1 o) as [s1' x1]. destruct (step t s2 o) as [s2' x2]. cbn [fst snd] in *. subst x2.
      destruct (IH s1' s2' Hs) as [IH1 IH2]. split; [f_equal; exact IH1 | exact IH2].
    - cbn [erase_pokes filter is_op snd IterEnv.outs_env IterEnv.run_env fold_left].
      unfold IterEnv.estep; cbn [fst snd].
      apply IH. apply eq_mod_pub_setpub. exact H.
  Qed.

  (** for ANY state of the code model and any history: the frames, stops and errors are
      those of the history with the client writes erased, and so is the final state (the
      generator's own countdown [g_loop] included) except for the attribute itself *)
  Theorem poke_irrelevant : forall h (s : state),
      outs_env s h = outs_env s (erase_pokes h) /\ eq_mod_pub (run_env s h) (run_env s (erase_pokes h)).
  Proof. intros h s. apply env_mod_pub. apply eq_mod_pub_refl. Qed.

  Lemma eq_mod_pub_g_loop : forall s1 s2, eq_mod_pub s1 s2 -> g_loop s1 = g_loop s2 /\ closed s1 = closed s2 /\ rd s1 = rd s2.
  Proof. intros s1 s2 H. destruct s1, s2. unfold eq_mod_pub in H. cbn in *. inversion H. auto. Qed.

  (** the same on the documented machine *)
  Lemma spec_env_erase : forall h a ov ov',
      spec_outs_env (a, ov) h = spec_outs_env (a, ov') (erase_pokes h) /\
      fst (spec_run_env (a, ov) h) = fst (spec_run_env (a, ov') (erase_pokes h)).
  Proof.
    induction h as [|[t [o|v]] h IH]; intros a ov ov'; [split; reflexivity| |].
    - cbn [erase_pokes filter is_op snd IterEnv.spec_outs_env IterEnv.spec_run_env fold_left].
      unfold IterEnv.spec_estep; cbn [fst snd].
      destruct (spec_step t a o) as [a' x]. cbn [fst snd].
      destruct (IH a' (if a_loop a' =? a_loop a then ov else None) (if a_loop a' =? a_loop a then ov' else None)) as [H1 H2].
      split; [f_equal; exact H1 | exact H2].
    - cbn [erase_pokes filter is_op snd IterEnv.spec_outs_env IterEnv.spec_run_env fold_left].
      unfold IterEnv.spec_estep; cbn [fst snd]. apply IH.
  Qed.

  Theorem spec_poke_irrelevant : forall h (p : pstate RS),
      spec_outs_env p h = spec_outs_env p (erase_pokes h) /\
      fst (spec_run_env p h) = fst (spec_run_env p (erase_pokes h)).
  Proof. intros h [a ov]. apply spec_env_erase. Qed.

  (** the countdown the iterator publishes is the documented one whatever was written:
      once the countdown has changed after the last write, the attribute shows it again *)
  Lemma readback_after_update : forall (p : pstate RS) t o,
      a_loop (fst (fst (spec_estep p (t, EOp o)))) <> a_loop (fst p) ->
      readback RS (fst (spec_estep p (t, EOp o))) = a_loop (fst (fst (spec_estep p (t, EOp o)))).
  Proof.
    intros [a ov] t o. unfold IterEnv.spec_estep; cbn [fst snd].
    destruct (spec_step t a o) as [a' x]. cbn [fst snd]. intros H.
    apply Z.eqb_neq in H. rewrite H. reflexivity.
  Qed.

  (** ** the padding in force changes at [set_padding] only, and is the padding given there
      resolved against the terminal size at THAT event *)

  Lemma body_pad : forall (s : state) fno,
      pad (fst (body RS render n s fno)) = pad s /\ (closed s = true -> closed (fst (body RS render n s fno)) = true).
  Proof.
    intros s fno. destruct s as [cl ph gl pl [f w sz du] ar pd pdd cd ch g r rf].
    unfold body, render_frame, deliver, close; cbn. brk; split; try reflexivity; try discriminate; auto.
  Qed.

  Lemma pass_end_pad : forall (s : state), pad (fst (pass_end RS render n s)) = pad s.
  Proof.
    intros s. unfold pass_end.
    match goal with |- context [if ?c then (close RS ?s2, OStop) else body RS render n ?s2' 0] =>
      destruct c; [|rewrite (proj1 (body_pad s2' 0))] end;
      destruct s as [cl ph gl pl [f w sz du] ar pd pdd cd ch g r rf]; unfold close; cbn; brk; reflexivity.
  Qed.

  Lemma step_pad : forall term (s : state) o,
      pad (fst (step term s o)) =
      match o with
      | SetPadding p => if closed s then pad s else resolve term p
      | _ => pad s
      end.
  Proof.
    intros term s o. destruct o; cbn.
    2-8: destruct s as [? ? ? ? [? ? ? ?] ? ? ? ? ? ? ? ?];
      unfold seek, set_duration, set_padding, set_render_args, set_render_size, close; cbn; brk; reflexivity.
    unfold next. destruct (closed s); [reflexivity|].
    destruct (phase s).
    - destruct (g_loop s =? 0); [destruct s as [? ? ? ? [? ? ? ?] ? ? ? ? ? ? ? ?]; unfold close; cbn; brk; reflexivity|].
      destruct (_ <? _); [apply body_pad | apply pass_end_pad].
    - destruct (_ <? _); [apply body_pad | apply pass_end_pad].
  Qed.

  Lemma estep_pad : forall (s : state) (e : ev),
      pad (fst (estep s e)) =
      match snd e with
      | EOp (SetPadding p) => if closed s then pad s else resolve (fst e) p
      | _ => pad s
      end.
  Proof.
    intros s [t [o|v]]; unfold IterEnv.estep; cbn [fst snd].
    - rewrite step_pad. destruct o; reflexivity.
    - destruct s; reflexivity.
  Qed.

  Lemma estep_closed : forall (s : state) e, closed s = true -> closed (fst (estep s e)) = true.
  Proof.
    intros s [t [o|v]] Hc; unfold IterEnv.estep; cbn [fst snd].
    - rewrite (closed_ops_raise RS render n t s o Hc). exact Hc.
    - destruct s; exact Hc.
  Qed.

  Lemma run_env_closed : forall h (s : state), closed s = true -> closed (run_env s h) = true.
  Proof.
    induction h as [|e h IH]; intros s Hc; [exact Hc|]. cbn. apply IH. apply estep_closed. exact Hc.
  Qed.

  Definition resolved (x : option (size * padding)) (d : padding) : padding :=
    match x with Some (t, p) => resolve t p | None => d end.

  Lemma pad_after_history_gen : forall h (s : state) acc d,
      pad s = resolved acc d -> closed (run_env s h) = false ->
      pad (run_env s h) = resolved (last_set_padding h acc) d.
  Proof.
    induction h as [|e h IH]; intros s acc d Hp Hc; [exact Hp|].
    cbn [IterEnv.run_env fold_left] in *.
    assert (Hcs : closed s = false).
    { destruct (closed s) eqn:E; [|reflexivity].
      pose proof (run_env_closed h _ (estep_closed s e E)) as H. unfold IterEnv.run_env in H. congruence. }
    pose proof (estep_pad s e) as He. rewrite Hcs in He.
    destruct e as [t [o|v]]; cbn [snd fst] in He.
    - destruct o; cbn [last_set_padding]; try (apply IH; [rewrite He; exact Hp | exact Hc]).
      apply IH; [rewrite He; reflexivity | exact Hc].
    - cbn [last_set_padding]. apply IH; [rewrite He; exact Hp | exact Hc].
  Qed.

  (** whatever the resizes, seeks, size / duration / argument changes and client writes:
      on an iterator that is still open, the padding in force is the one given to the latest
      [set_padding], resolved against the terminal size at that event - or the constructor's *)
  Theorem pad_after_history : forall h (s : state),
      closed (run_env s h) = false ->
      pad (run_env s h) = resolved (last_set_padding h None) (pad s).
  Proof. intros h s Hc. apply pad_after_history_gen; [reflexivity | exact Hc]. Qed.

  (** and the stored padded size is that padding applied to the current render size *)
  Theorem padded_after_history : forall term0 c rs0 s h,
      (cache_decision n (c_cache c) = false \/ render_det RS render) ->
      mk RS n term0 c rs0 = inl s ->
      let s' := run_env s h in
      closed s' = false ->
      pad s' = resolved (last_set_padding h None) (resolve term0 (c_pad c)) /\
      padded s' = padded_size (pad s') (d_size (rd s')).
  Proof.
    intros term0 c rs0 s h Hmode Hs s' Hc. split.
    - unfold s'. rewrite (pad_after_history h s Hc). f_equal.
      unfold mk in Hs.
      destruct (match n with Some k => k <? 2 | None => false end); [discriminate|].
      destruct (c_loops c =? 0); [discriminate|].
      destruct (negb (cache_valid (c_cache c))); [discriminate|].
      destruct (c_args c); [|discriminate]. inversion Hs. reflexivity.
    - pose proof (sim_mk RS render n term0 c rs0 Hmode) as H. rewrite Hs in H.
      destruct (spec_mk RS n term0 c rs0) as [a|e] eqn:Ea; [|contradiction].
      destruct (sim_run_env h s (a, None) (R_RP s a H)) as (s1 & HR1 & Hs1).
      fold s' in Hs1.
      assert (Hc1 : closed s1 = false) by (rewrite Hs1 in Hc; destruct (snd (spec_run_env (a, None) h)); [destruct s1|]; exact Hc).
      destruct HR1 as (_ & _ & H1). destruct (H1 Hc1) as (_ & _ & _ & _ & _ & _ & _ & _ & Hpd & _).
      rewrite Hs1. destruct (snd (spec_run_env (a, None) h)); [destruct s1|]; exact Hpd.
  Qed.

  (** the same on the documented machine *)
  Lemma spec_step_pad : forall term (a : astate) o,
      a_pad (fst (spec_step term a o)) =
      match o with
      | SetPadding p => if a_closed a then a_pad a else resolve term p
      | _ => a_pad a
      end.
  Proof.
    intros term a o. destruct a as [acl anx awh alp asz adu aar apd ars].
    unfold IterSpec.spec_step, spec_next; cbn. destruct acl; cbn; [destruct o; reflexivity|].
    destruct o; cbn; brk; reflexivity.
  Qed.

  (** every frame the documented machine yields is padded with the padding in force, to
      that padding applied to the current render size *)
  Lemma spec_frame_padding : forall term (a : astate) o f,
      snd (spec_step term a o) = OFrame f ->
      exists rf, f = wrap_frame (a_pad a) (padded_size (a_pad a) (a_size a)) rf.
  Proof.
    intros term a o f. destruct a as [acl anx awh alp asz adu aar apd ars].
    unfold IterSpec.spec_step, spec_next; cbn. destruct acl; cbn; [destruct o; discriminate|].
    destruct o; cbn; brk; intros H; inversion H; eexists; reflexivity.
  Qed.
End EnvProofs.

(** ** a second iterator over re-used render data is a FRESH documented machine *)
Section TwoIterators.
  Variable RS : Type.
  Variable render : RS -> Z -> whence -> size -> dur -> Z -> rres * RS.
  Variable n : option Z.

  Notation state := (state RS).
  Notation astate := (astate RS).
  Notation step := (step RS render n).
  Notation spec_step := (spec_step RS render n).
  Notation estep := (estep RS render n).
  Notation spec_estep := (spec_estep RS render n).
  Notation run_env := (run_env RS render n).
  Notation spec_run_env := (spec_run_env RS render n).
  Notation trace_env := (trace_env RS render n).
  Notation spec_trace_env := (spec_trace_env RS render n).
  Notation R := (R RS render n).

  Ltac brk :=
    repeat match goal with
           | |- context [match ?x with _ => _ end] =>
             match type of x with
             | _ => is_var x; destruct x
             | _ => let E := fresh "E" in destruct x eqn:E
             end; cbn
           end.

  (** [_from_render_data_] over data [(g, r)] - whatever frame offset [fo r] the previous
      iteration left there - is related to the documented machine constructed afresh over
      the data's size and duration (INDEFINITE: with the seek whence the data carries) *)
  Lemma mk_on_R : forall term g r c rs0 s a,
      (cache_decision n (c_cache c) = false \/ render_det RS render) ->
      (definite n = true -> wh r = WStart) ->
      mk_on RS n term guard_code g r c rs0 = inl s ->
      spec_mk RS n term (on_data c (d_size r) (d_dur r)) rs0 = inl a ->
      R s (a_with_pos RS a 0 (wh r)).
  Proof.
    intros term g r c rs0 s a Hmode Hwh Hs Ha. unfold mk_on, mk in Hs. unfold spec_mk in Ha. cbn in Ha.
    destruct (match n with Some k => k <? 2 | None => false end); [discriminate|].
    destruct (c_loops c =? 0) eqn:El; [discriminate|].
    destruct (negb (cache_valid (c_cache c))); [discriminate|].
    destruct (guard_code (c_owns c) (finalized g)); [discriminate|].
    destruct (match c_cache c with CBool _ => false | CInt v => v <=? 0 end); [discriminate|].
    destruct (c_args c) as [v|]; [|discriminate].
    inversion Hs; subst s; clear Hs. inversion Ha; subst a; clear Ha.
    unfold IterProofs.R; cbn. apply Z.eqb_neq in El.
    assert (Hl : (if definite n then c_loops c else 1) = match n with Some _ => c_loops c | None => 1 end)
      by (unfold definite; destruct n; reflexivity).
    rewrite Hl.
    repeat split; auto.
    - destruct n; [exact El | discriminate].
    - unfold definite, cache_decision. destruct n; [discriminate | reflexivity].
    - destruct Hmode as [Hm|Hm]; [left; split; auto | right; exact Hm].
    - intros i e; cbn; discriminate.
  Qed.

  (** *** what a history leaves in the render data: size, duration, seek whence *)

  Lemma body_data : forall (s : state) fno,
      let s' := fst (body RS render n s fno) in
      d_size (rd s') = d_size (rd s) /\ d_dur (rd s') = d_dur (rd s) /\
      (definite n = true -> wh (rd s') = wh (rd s)).
  Proof.
    intros s fno. destruct s as [cl ph gl pl [f w sz du] ar pd pdd cd ch g r rf].
    unfold body, render_frame, deliver, close; cbn.
    brk; repeat split; try reflexivity; try discriminate.
  Qed.

  Lemma pass_end_data : forall (s : state),
      let s' := fst (pass_end RS render n s) in
      d_size (rd s') = d_size (rd s) /\ d_dur (rd s') = d_dur (rd s) /\
      (definite n = true -> wh (rd s') = wh (rd s)).
  Proof.
    intros s. unfold pass_end.
    match goal with |- context [if ?c then (close RS ?s2, OStop) else body RS render n ?s2' 0] =>
      destruct c; [|destruct (body_data s2' 0) as (H1 & H2 & H3); cbn zeta in *; rewrite H1, H2; split; [|split; [|intros Hd; rewrite (H3 Hd)]]] end;
      destruct s as [cl ph gl pl [f w sz du] ar pd pdd cd ch g r rf]; unfold close; cbn; brk; repeat split; reflexivity.
  Qed.

  Definition size_after (o : op) (cl : bool) (sz : size) : size :=
    match o with SetSize sz' => if cl then sz else sz' | _ => sz end.
  Definition dur_after (o : op) (cl : bool) (d : dur) : dur :=
    match o with
    | SetDuration d' => if cl then d
                        else if match d' with DStatic ms => ms <=? 0 | DDynamic => false end then d else d'
    | _ => d
    end.

  Lemma step_data : forall term (s : state) o,
      let s' := fst (step term s o) in
      d_size (rd s') = size_after o (closed s) (d_size (rd s)) /\
      d_dur (rd s') = dur_after o (closed s) (d_dur (rd s)) /\
      (definite n = true -> wh (rd s) = WStart -> wh (rd s') = WStart).
  Proof.
    intros term s o. destruct o; cbn.
    2-8: destruct s as [? ? ? ? [? ? ? ?] ? ? ? ? ? ? ? ?];
      unfold seek, set_duration, set_padding, set_render_args, set_render_size, close, definite; cbn; brk;
      repeat split; try reflexivity; try discriminate; auto.
    unfold next. destruct (closed s); [repeat split; auto|].
    assert (Hb : forall fno, let s' := fst (body RS render n s fno) in
              d_size (rd s') = d_size (rd s) /\ d_dur (rd s') = d_dur (rd s) /\
              (definite n = true -> wh (rd s) = WStart -> wh (rd s') = WStart)).
    { intros fno. destruct (body_data s fno) as (H1 & H2 & H3). repeat split; auto. intros Hd Hw. rewrite (H3 Hd). exact Hw. }
    assert (Hp : let s' := fst (pass_end RS render n s) in
              d_size (rd s') = d_size (rd s) /\ d_dur (rd s') = d_dur (rd s) /\
              (definite n = true -> wh (rd s) = WStart -> wh (rd s') = WStart)).
    { destruct (pass_end_data s) as (H1 & H2 & H3). repeat split; auto. intros Hd Hw. rewrite (H3 Hd). exact Hw. }
    destruct (phase s).
    - destruct (g_loop s =? 0); [destruct s as [? ? ? ? [? ? ? ?] ? ? ? ? ? ? ? ?]; unfold close; cbn; brk; repeat split; auto|].
      destruct (_ <? _); [apply Hb | apply Hp].
    - destruct (_ <? _); [apply Hb | apply Hp].
  Qed.

  Lemma spec_step_data : forall term (a : astate) o,
      let a' := fst (spec_step term a o) in
      a_size a' = size_after o (a_closed a) (a_size a) /\ a_dur a' = dur_after o (a_closed a) (a_dur a).
  Proof.
    intros term a o. destruct a as [acl anx awh alp asz adu aar apd ars].
    unfold IterSpec.spec_step, spec_next; cbn. destruct acl; cbn; [destruct o; split; reflexivity|].
    destruct o; cbn; brk; split; reflexivity.
  Qed.

  (** the data's size / duration are the documented machine's settings, also once the
      iterator is finalized; the seek whence of a definite source's data stays START *)
  Definition data_link (s : state) (a : astate) : Prop :=
    d_size (rd s) = a_size a /\ d_dur (rd s) = a_dur a /\ (definite n = true -> wh (rd s) = WStart).

  Lemma data_link_poked : forall s a ov, data_link s a -> data_link (poked RS s ov) a.
  Proof. intros s a [v|] H; [destruct s; exact H | exact H]. Qed.

  Lemma data_link_estep : forall s sp p e,
      R s (fst p) -> sp = poked RS s (snd p) -> data_link sp (fst p) ->
      data_link (fst (estep sp e)) (fst (fst (spec_estep p e))).
  Proof.
    intros s sp [a ov] [t [o|v]] HR -> (H1 & H2 & H3); unfold IterEnv.estep, IterEnv.spec_estep; cbn [fst snd] in *.
    - destruct (step_data t (poked RS s ov) o) as (S1 & S2 & S3).
      destruct (spec_step_data t a o) as (A1 & A2).
      destruct (spec_step t a o) as [a' y]. cbn [fst snd] in *.
      assert (Hc : closed (poked RS s ov) = a_closed a).
      { destruct HR as (Hc & _). rewrite <- Hc. destruct ov; [destruct s|]; reflexivity. }
      unfold data_link. rewrite S1, S2, A1, A2, Hc, H1, H2. repeat split; auto.
    - destruct (poked RS s ov); exact (conj H1 (conj H2 H3)).
  Qed.

  Lemma data_link_run : forall h sp p,
      RP RS render n sp p -> data_link sp (fst p) ->
      data_link (run_env sp h) (fst (spec_run_env p h)).
  Proof.
    induction h as [|e h IH]; intros sp p HRP HL; [exact HL|].
    cbn. apply IH.
    - apply sim_estep. exact HRP.
    - destruct HRP as (s & HR & Hs). eapply data_link_estep; eauto.
  Qed.

  Lemma data_link_mk : forall term0 c rs0 s a,
      mk RS n term0 c rs0 = inl s -> spec_mk RS n term0 c rs0 = inl a -> data_link s a.
  Proof.
    intros term0 c rs0 s a Hs Ha. unfold mk in Hs. unfold spec_mk in Ha.
    destruct (match n with Some k => k <? 2 | None => false end); [discriminate|].
    destruct (c_loops c =? 0); [discriminate|].
    destruct (negb (cache_valid (c_cache c))); [discriminate|].
    destruct (match c_cache c with CBool _ => false | CInt v => v <=? 0 end); [discriminate|].
    destruct (c_args c); [|discriminate]. inversion Hs. inversion Ha. repeat split.
  Qed.

  Lemma remake_is_mk_on : forall term (s : state) c,
      remake RS render n term s c =
      mk_on RS n term guard_code (gh (close RS s)) (rd (close RS s)) c (rs (close RS s)).
  Proof.
    intros term s c. unfold remake, sstep, sess_of, drop_current; cbn.
    destruct (mk_on RS n term guard_code (gh (close RS s)) (rd (close RS s)) c (rs (close RS s))); reflexivity.
  Qed.

  Lemma close_data : forall (s : state), rd (close RS s) = rd s /\ rs (close RS s) = rs s.
  Proof. intros s. destruct s as [cl ? ? ? ? ? ? ? ? ? ? ? ?]. unfold close; cbn. destruct cl; split; reflexivity. Qed.

  (** C08 over re-used render data (definite source): a first iterator made over fresh data
      runs ANY history [h1] (advanced k frames, seeked, resized, closed or simply dropped);
      a second iterator is then made over the same data at terminal size [term2].  Its
      trace, for EVERY history [h2], is that of the documented machine constructed AFRESH
      (next frame 0, full countdown, empty history) over the size and duration the first
      history documents - wherever the first iteration stopped. *)
  Theorem second_iterator_is_fresh : forall term0 c1 rs0 s1 a1 h1 term2 c2 s2 k,
      n = Some k ->
      (cache_decision n (c_cache c1) = false \/ render_det RS render) ->
      (cache_decision n (c_cache c2) = false \/ render_det RS render) ->
      mk RS n term0 c1 rs0 = inl s1 -> spec_mk RS n term0 c1 rs0 = inl a1 ->
      let s1' := run_env s1 h1 in
      let a1' := fst (spec_run_env (a1, None) h1) in
      remake RS render n term2 s1' c2 = inl s2 ->
      exists a2,
        spec_mk RS n term2 (on_data c2 (a_size a1') (a_dur a1')) (rs s1') = inl a2 /\
        a_next a2 = 0 /\ a_loop a2 = c_loops c2 /\
        forall h2, trace_env s2 h2 = spec_trace_env (a2, None) h2.
  Proof.
    intros term0 c1 rs0 s1 a1 h1 term2 c2 s2 k Hn Hm1 Hm2 Hs1 Ha1 s1' a1' Hs2.
    pose proof (sim_mk RS render n term0 c1 rs0 Hm1) as HR0. rewrite Hs1, Ha1 in HR0.
    pose proof (data_link_run h1 s1 (a1, None) (R_RP RS render n s1 a1 HR0) (data_link_mk term0 c1 rs0 s1 a1 Hs1 Ha1))
      as (L1 & L2 & L3).
    fold s1' in L1, L2, L3. fold a1' in L1, L2.
    rewrite remake_is_mk_on in Hs2. destruct (close_data s1') as [Erd Ers]. rewrite Erd, Ers in Hs2.
    assert (Hd : definite n = true) by (rewrite Hn; reflexivity).
    specialize (L3 Hd).
    destruct (spec_mk RS n term2 (on_data c2 (a_size a1') (a_dur a1')) (rs s1')) as [a2|e] eqn:Ea2.
    - exists a2. rewrite <- L1, <- L2 in Ea2.
      pose proof (mk_on_R term2 _ (rd s1') c2 (rs s1') s2 a2 Hm2 (fun _ => L3) Hs2 Ea2) as HR2.
      assert (Hfresh : a_with_pos RS a2 0 (wh (rd s1')) = a2 /\ a_next a2 = 0 /\ a_loop a2 = c_loops c2).
      { rewrite L3. unfold spec_mk in Ea2. cbn in Ea2.
        destruct (match n with Some k0 => k0 <? 2 | None => false end); [discriminate|].
        destruct (c_loops c2 =? 0); [discriminate|].
        destruct (match c_cache c2 with CBool _ => false | CInt v => v <=? 0 end); [discriminate|].
        destruct (c_args c2); [|discriminate]. inversion Ea2. rewrite Hn. repeat split. }
      destruct Hfresh as (Hf & Hnx & Hlp). rewrite Hf in HR2.
      repeat split; auto. intros h2. apply sim_trace_env. apply R_RP. exact HR2.
    - (* the documented machine refuses exactly when the code does *)
      exfalso. rewrite <- L1, <- L2 in Ea2. unfold mk_on, mk in Hs2. unfold spec_mk in Ea2. cbn in Ea2.
      destruct (match n with Some k0 => k0 <? 2 | None => false end); [discriminate|].
      destruct (c_loops c2 =? 0); [discriminate|].
      assert (Hcv : negb (cache_valid (c_cache c2)) = match c_cache c2 with CBool _ => false | CInt v => v <=? 0 end).
      { destruct (c_cache c2) as [b|v]; cbn; [reflexivity|].
        destruct (0 <? v) eqn:E1, (v <=? 0) eqn:E2; try reflexivity; lia. }
      rewrite Hcv in Hs2.
      destruct (match c_cache c2 with CBool _ => false | CInt v => v <=? 0 end); [discriminate|].
      destruct (guard_code (c_owns c2) (finalized (gh (close RS s1')))); [discriminate|].
      destruct (c_args c2); discriminate.
  Qed.
End TwoIterators.
