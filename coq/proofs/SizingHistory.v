(** C04, the history part: what a sequence of set_size / size= / render / terminal
    resize / set_cell_ratio operations does to [image.size] and [rendered_size].
    No float reasoning is needed here: the theorems hold for every [FloatArith]. *)
From Coq Require Import ZArith List Bool Lia.
Import ListNotations.
From TI Require Import lib.FArith model.Sizing.
Open Scope Z_scope.

Section History.
Context {FA : FloatArith}.
Variables (fam : family) (ow oh : Z).
Local Notation state := (state FA).
Local Notation op := (op FA).
Local Notation step := (@step FA fam ow oh).
Local Notation run := (@run FA fam ow oh).
Local Notation trace := (@trace FA fam ow oh).
Local Notation rendered_size := (@rendered_size FA fam ow oh).
Local Notation rendered_height := (@rendered_height FA fam ow oh).

(** operations that are not a (re)setting of the size: renders and changes of the
    environment *)
Definition keeps_size (o : op) : bool :=
  match o with
  | ORender _ | OResize _ _ _ | OSetRatio _ => true
  | OSetSize _ _ _ | OAssign _ => false
  end.

(** the environment after a history: only resize / set_cell_ratio touch it *)
Definition env_step (e : env FA) (o : op) : env FA :=
  match o with
  | OResize c l cell => resize e c l cell
  | OSetRatio r => fst (set_cell_ratio e r)
  | _ => e
  end.
Definition env_run (e : env FA) (ops : list op) : env FA := fold_left env_step ops e.

Lemma step_env : forall s o, st_env (fst (step s o)) = env_step (st_env s) o.
Proof.
  intros s o. destruct o; cbn [step env_step].
  - destruct (set_size _ _ _ _ _ _ _ _); reflexivity.
  - destruct (assign_size _ _ _ _ _ _); reflexivity.
  - reflexivity.
  - reflexivity.
  - destruct (set_cell_ratio _ _); reflexivity.
Qed.

Lemma run_env : forall ops s, st_env (run s ops) = env_run (st_env s) ops.
Proof.
  induction ops as [|o r IH]; intros s; cbn [Sizing.run env_run fold_left]; [reflexivity|].
  rewrite IH, step_env. reflexivity.
Qed.

(** -- manual sizes are stored as given ----------------------------------------- *)
Lemma manual_stored : forall s w h frame, 0 < w -> 0 < h ->
  let r := step s (OSetSize (DInt w) (DInt h) frame) in
  st_size (fst r) = Fixed w h /\ o_outcome (snd r) = ok /\ o_rendered (snd r) = (w, h).
Proof.
  intros s w h frame Hw Hh.
  assert (E1 : (w <=? 0) = false) by (apply Z.leb_gt; lia).
  assert (E2 : (h <=? 0) = false) by (apply Z.leb_gt; lia).
  unfold Sizing.step, set_size, arg_error. rewrite E1, E2. cbn. auto.
Qed.

Lemma manual_assigned : forall s w h, 0 < w -> 0 < h ->
  let r := step s (OAssign (ATuple (DInt w) (DInt h))) in
  st_size (fst r) = Fixed w h /\ o_outcome (snd r) = ok /\ o_rendered (snd r) = (w, h).
Proof.
  intros s w h Hw Hh.
  assert (E1 : (w <=? 0) = false) by (apply Z.leb_gt; lia).
  assert (E2 : (h <=? 0) = false) by (apply Z.leb_gt; lia).
  unfold Sizing.step, assign_size, set_size, arg_error. rewrite E1, E2. cbn. auto.
Qed.

(** -- a render leaves the size as it was; the renderer sees a fixed size -------- *)
Lemma render_restores : forall s raises,
  let r := step s (ORender raises) in
  st_size (fst r) = st_size s /\ st_env (fst r) = st_env s /\
  o_during (snd r) =
    Some (match st_size s with
          | Fixed w h => Fixed w h
          | Dyn m => let '(w, h) := valid_size fam (st_env s) ow oh (DSize m) DNone default_frame in
                     Fixed w h
          end).
Proof.
  intros s raises. cbn [step fst snd st_size st_env mk_obs o_during].
  unfold render_after, render_during. destruct (st_size s) as [w h|m] eqn:E.
  - auto.
  - cbn [assign_size fst set_size arg_error is_none negb andb].
    destruct (valid_size _ _ _ _ _ _ _). auto.
Qed.

Lemma keeps_size_step : forall s o, keeps_size o = true -> st_size (fst (step s o)) = st_size s.
Proof.
  intros s o H. destruct o; try discriminate.
  - apply render_restores.
  - reflexivity.
  - cbn [step]. destruct (set_cell_ratio _ _). reflexivity.
Qed.

Lemma keeps_size_run : forall ops s, forallb keeps_size ops = true ->
  st_size (run s ops) = st_size s.
Proof.
  induction ops as [|o r IH]; intros s H; [reflexivity|].
  cbn [forallb] in H. apply andb_prop in H. destruct H as [H1 H2].
  cbn [Sizing.run]. rewrite (IH _ H2). apply keeps_size_step. exact H1.
Qed.

(** what is observed after an operation is read off the new state *)
Lemma step_obs : forall s o,
  let r := step s o in
  o_size (snd r) = st_size (fst r) /\ o_rendered (snd r) = rendered_size (fst r)
  /\ o_rheight (snd r) = rendered_height (fst r).
Proof.
  intros s o. destruct o; cbn [step].
  - destruct (set_size _ _ _ _ _ _ _ _). cbn. auto.
  - destruct (assign_size _ _ _ _ _ _). cbn. auto.
  - cbn. auto.
  - cbn. auto.
  - destruct (set_cell_ratio _ _). cbn. auto.
Qed.

(** -- a fixed size is unchanged by renders, terminal resizes, cell-ratio changes -- *)
Lemma fixed_unchanged_by_history : forall ops s w h,
  st_size s = Fixed w h -> forallb keeps_size ops = true ->
  st_size (run s ops) = Fixed w h /\ rendered_size (run s ops) = (w, h)
  /\ rendered_height (run s ops) = h
  /\ Forall (fun ob => o_size ob = Fixed w h /\ o_rendered ob = (w, h) /\ o_rheight ob = h)
            (trace s ops).
Proof.
  intros ops s w h Hs Hk.
  assert (R : st_size (run s ops) = Fixed w h) by (rewrite keeps_size_run; assumption).
  split; [exact R|]. split; [unfold Sizing.rendered_size; rewrite R; reflexivity|].
  split; [unfold Sizing.rendered_height; rewrite R; reflexivity|].
  revert s Hs Hk R. induction ops as [|o r IH]; intros s Hs Hk R; cbn [Sizing.trace]; [constructor|].
  cbn [forallb] in Hk. apply andb_prop in Hk. destruct Hk as [H1 H2].
  pose proof (step_obs s o) as Ho. pose proof (keeps_size_step s o H1) as Hk.
  destruct (step s o) as [s' ob] eqn:E. cbn [fst snd] in *.
  rewrite Hs in Hk. destruct Ho as (O1 & O2 & O3).
  constructor.
  - rewrite O1, O2, O3. unfold Sizing.rendered_size, Sizing.rendered_height. rewrite Hk. auto.
  - apply IH; auto. cbn [Sizing.run] in R. rewrite E in R. exact R.
Qed.

(** -- a dynamic size follows the environment -------------------------------------- *)
Lemma dynamic_follows : forall ops s m,
  st_size s = Dyn m -> forallb keeps_size ops = true ->
  st_size (run s ops) = Dyn m /\
  rendered_size (run s ops)
  = valid_size fam (env_run (st_env s) ops) ow oh (DSize m) DNone default_frame /\
  rendered_height (run s ops)
  = snd (valid_size fam (env_run (st_env s) ops) ow oh DNone (DSize m) default_frame).
Proof.
  intros ops s m Hs Hk.
  assert (R : st_size (run s ops) = Dyn m) by (rewrite keeps_size_run; assumption).
  split; [exact R|].
  unfold Sizing.rendered_size, Sizing.rendered_height. rewrite R, run_env. auto.
Qed.

(** the Size member may be passed as width or as height: same result *)
Lemma valid_size_sym : forall (e : env FA) m frame,
  valid_size fam e ow oh DNone (DSize m) frame = valid_size fam e ow oh (DSize m) DNone frame.
Proof.
  intros. unfold valid_size, has. cbn [dim_is].
  repeat rewrite orb_false_r. repeat rewrite orb_false_l. reflexivity.
Qed.

(** -- an automatic set_size stores what _valid_size computes NOW ------------------- *)
Lemma auto_set_stored : forall s w h frame,
  arg_error w = None -> arg_error h = None -> is_none w || is_none h = true ->
  let r := step s (OSetSize w h frame) in
  st_size (fst r) = (let '(a, b) := valid_size fam (st_env s) ow oh w h frame in Fixed a b)
  /\ o_outcome (snd r) = ok.
Proof.
  intros s w h frame Hw Hh Hn. unfold Sizing.step, set_size. rewrite Hw, Hh.
  assert (E : negb (is_none w) && negb (is_none h) = false).
  { destruct (is_none w), (is_none h); try reflexivity; discriminate. }
  rewrite E. destruct (valid_size _ _ _ _ _ _ _). cbn. auto.
Qed.

(** -- a rejected operation changes nothing ---------------------------------------- *)
Lemma rejected_changes_nothing : forall s o,
  (match o with OSetSize _ _ _ | OAssign _ => True | _ => False end) ->
  o_outcome (snd (step s o)) <> ok -> st_size (fst (step s o)) = st_size s.
Proof.
  intros s o Ho. destruct o; try contradiction; unfold Sizing.step.
  - unfold set_size.
    destruct (arg_error w); [cbn; auto|]. destruct (arg_error h); [cbn; auto|].
    destruct (negb (is_none w) && negb (is_none h)).
    + destruct w; cbn; auto; destruct h; cbn; auto; intros; congruence.
    + destruct (valid_size _ _ _ _ _ _ _). cbn. congruence.
  - destruct a; cbn [assign_size]; try (cbn; auto; congruence).
    unfold set_size.
    destruct (arg_error w); [cbn; auto|]. destruct (arg_error h); [cbn; auto|].
    destruct (negb (is_none w) && negb (is_none h)).
    + destruct w; cbn; auto; destruct h; cbn; auto; intros; congruence.
    + destruct (valid_size _ _ _ _ _ _ _). cbn. congruence.
Qed.

End History.

(** non-vacuity: a concrete history over a toy arithmetic exercises the hypotheses
    (dynamic size, environment changes, a render) *)
Definition ToyFA : FloatArith :=
  {| F := Z; ofZ := fun z => z; fmul := Z.mul; fdiv := Z.div; fltb := Z.ltb; fleb := Z.leb;
     fround := fun z => z; fceil := fun z => z |}.
Example history_nonvacuous :
  let s := @Build_state ToyFA (@Build_env ToyFA 80 30 None (Some 1) None) (Dyn FIT) in
  let ops := [ORender false; OResize 40 10 None; OSetRatio (@RFloat ToyFA 2); ORender true]
             : list (op ToyFA) in
  forallb keeps_size ops = true /\ st_size (run Text 100 50 s ops) = Dyn FIT
  /\ e_cols (st_env (run Text 100 50 s ops)) = 40.
Proof. vm_compute. auto. Qed.
