(** C13, round 4 -- faults ANYWHERE, clean-up blocks included ([model/C13Any.v],
    [proofs/C13AnyProofs.v]), for the skeletons translated from the current source.

    [SkelC13.v] analyses the same skeletons with no fault inside the functions' own
    [finally] / [except] blocks.  Here every call may raise KeyboardInterrupt or an Exception
    before or after taking effect wherever it stands -- in particular the stream writes /
    flush and the render-data finalizer (a renderable-defined hook) of draw()'s clean-up, and
    the clean-up of an inlined callee ([read_tty] / [write_tty] inside [query_terminal]) --
    except that a [tcsetattr] standing in a clean-up block does not fail before its effect.
    The analysis then demands an ORDER of the clean-up: nothing that may raise precedes the
    attribute restore unless it is the body of an inner [try] whose [finally] restores. *)
From Coq Require Import List Bool Arith.
Import ListNotations.
From TI Require Import lib.Eff lib.EffSound lib.EffRun gen.Skeletons model.C13Any proofs.C13AnyProofs.

Lemma query_any_analysis : analyze_any nv_query_terminal sk_query_terminal = true.
Proof. vm_compute. reflexivity. Qed.
Lemma read_tty_any_analysis : analyze_any nv_read_tty sk_read_tty = true.
Proof. vm_compute. reflexivity. Qed.
Lemma write_tty_any_analysis : analyze_any nv_write_tty sk_write_tty = true.
Proof. vm_compute. reflexivity. Qed.
Lemma draw_any_analysis : analyze_any nv_Renderable_draw sk_Renderable_draw = true.
Proof. vm_compute. reflexivity. Qed.

Lemma query_restores_anywhere :
  forall vs, length vs = nv_query_terminal ->
  forall o s', evalA false sk_query_terminal (init vs) o s' -> tmod s' = false.
Proof. exact (analyze_any_sound _ _ query_any_analysis). Qed.

Lemma read_tty_restores_anywhere :
  forall vs, length vs = nv_read_tty ->
  forall o s', evalA false sk_read_tty (init vs) o s' -> tmod s' = false.
Proof. exact (analyze_any_sound _ _ read_tty_any_analysis). Qed.

Lemma write_tty_restores_anywhere :
  forall vs, length vs = nv_write_tty ->
  forall o s', evalA false sk_write_tty (init vs) o s' -> tmod s' = false.
Proof. exact (analyze_any_sound _ _ write_tty_any_analysis). Qed.

Lemma draw_restores_attrs_anywhere :
  forall vs, length vs = nv_Renderable_draw ->
  forall o s', evalA false sk_Renderable_draw (init vs) o s' -> tmod s' = false.
Proof. exact (analyze_any_sound _ _ draw_any_analysis). Qed.

(** * Non-vacuity on the translated source *)

(** some run of [anyfault sk_Renderable_draw] in which a call raises KeyboardInterrupt right
    after taking effect, a state with modified attributes having been visited, and which ends
    with the exception propagating and the attributes restored: computed by the deterministic
    runner of [lib/EffRun.v], independent of the shape of the source *)
Definition restored_any (s : st) : bool := negb (tmod s).
Example draw_any_interrupted_witness :
  witness cfg_all KI true tmod restored_any (ORaise KI) (anyfault sk_Renderable_draw)
          (repeat false nv_Renderable_draw) 80 = true.
Proof. vm_compute. reflexivity. Qed.
