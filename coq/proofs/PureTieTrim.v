(** * PureTieTrim — the functions TRANSLATED from the source on every run ([gen/Pure.v], by
    [harness/tx/tx_pure.py]) are, for ALL arguments, the model functions the property
    theorems are stated about.  For these functions the tie between model and code is
    therefore a theorem about what the source says now, not a sample of runs. *)
From Coq Require Import ZArith Bool Lia List.
From TI Require Import gen.Pure.
From TI Require model.Trim.
Open Scope Z_scope.

(** ** widget/_urwid.py: [UrwidImageCanvas._ti_calc_trim] *)

Lemma ti_calc_trim_is_model :
  forall size image_size trim1 pad1 trim2 pad2,
    ti_calc_trim size image_size trim1 pad1 trim2 pad2
    = TI.model.Trim.calc_trim size image_size trim1 pad1 trim2 pad2.
Proof.
  intros. unfold ti_calc_trim, TI.model.Trim.calc_trim.
  destruct (trim1 >=? size - pad2); destruct (trim1 >=? pad1);
    destruct (trim2 >=? size - pad1); destruct (trim2 >=? pad2); reflexivity.
Qed.
