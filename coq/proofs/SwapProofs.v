(** Proofs for C15 (concurrent part 4 of [model/Caches.v]): the win-size-swap toggles
    against concurrent [get_cell_size] calls, as a system over [lib/Sched.v].

    For ANY number of threads, any programs of toggles and [get_cell_size] calls and any
    schedule: whenever no toggle is between its flag write and its clear, the cell-size
    cache is empty or holds the value computed under the CURRENT flag, and every
    [get_cell_size] inside the lock region is about to write / return such a value.  The
    reason is the ORDER flag write -> clear-under-the-lock together with the fact that
    [get_cell_size] reads the flag and writes the cache inside one lock region: a value
    computed under the old flag is written before the clear, a value written after the
    clear was computed under the new flag. *)
From Coq Require Import List Bool Arith.
Import ListNotations.
From TI Require Import lib.Sched model.Caches proofs.C15Arith.

(** inside the region protected by [_cell_size_lock] *)
Definition w_inside (s : wstate) (t : nat) : Prop :=
  match w_pc (w_th s t) with
  | WClear _ | WRel _ | GLook | GRead | GWrite _ | GRel _ => True
  | _ => False
  end.

(** a [get_cell_size] holding a value computed under [f] (about to store / return it) *)
Definition w_holds (s : wstate) (t : nat) (f : bool) : Prop :=
  w_pc (w_th s t) = GWrite f \/ w_pc (w_th s t) = GRel f.

Record WInv (s : wstate) : Prop := {
  wi_owner : forall t, w_inside s t -> w_lock s = {| owner := Some t; count := 1 |};
  wi_free : (forall t, ~ w_inside s t) -> w_lock s = free_lock;
  (* a value computed under another flag than the current one is only around while the
     toggle that wrote the flag still has its clear ahead *)
  wi_cache : forall f, w_cache s = Some f -> f <> w_flag s -> exists u, w_pending s u;
  wi_held : forall t f, w_holds s t f -> f <> w_flag s -> exists u, w_pending s u
}.

Lemma winv_init f0 prog : WInv (winit f0 None prog) /\ WInv (winit f0 (Some f0) prog).
Proof.
  split; constructor; simpl; unfold w_inside, w_holds; simpl; intros;
    try tauto; try congruence; try (destruct H; discriminate).
Qed.

Lemma inside_unique s t1 t2 : WInv s -> w_inside s t1 -> w_inside s t2 -> t1 = t2.
Proof. intros I A B. apply (wi_owner s I) in A. apply (wi_owner s I) in B. congruence. Qed.

Lemma acquire_free s t :
  WInv s -> ~ w_inside s t -> can_acquire (w_lock s) t = true ->
  (forall u, ~ w_inside s u) /\ w_lock s = free_lock.
Proof.
  intros I NI CA.
  assert (A : forall u, ~ w_inside s u).
  { intros u U. pose proof (wi_owner s I u U) as L. unfold can_acquire in CA. rewrite L in CA.
    simpl in CA. apply Nat.eqb_eq in CA. subst. auto. }
  split; auto. apply (wi_free s I A).
Qed.

Ltac thr u t :=
  destruct (Nat.eq_dec u t) as [->|?];
  [rewrite ?upd_same in *|rewrite ?upd_other in * by auto].

(** transport of facts about the other threads across a step of thread [t] *)
Section Frame.
  Variables (s : wstate) (t : nat) (x : wthread) (th' : nat -> wthread).
  Hypothesis TH : th' = upd (w_th s) t x.

  Lemma fr_other u : u <> t -> th' u = w_th s u.
  Proof. intro N. subst th'. now rewrite upd_other. Qed.
  Lemma fr_same : th' t = x.
  Proof. subst th'. now rewrite upd_same. Qed.
End Frame.

Lemma winv_step s t s' : WInv s -> wstep s t = Some s' -> WInv s'.
Proof.
  intros I H. unfold wstep in H.
  destruct (w_pc (w_th s t)) eqn:PC.
  - (* WIdle *)
    destruct (w_todo (w_th s t)) as [|[b|] rest] eqn:TD; try discriminate.
    + (* the test of a toggle *)
      inversion H; subst s'; clear H.
      assert (NP : forall u, w_pending s u -> u <> t).
      { intros u (b' & [P|P]) ->; congruence. }
      constructor; simpl.
      * intros u U. apply (wi_owner s I). unfold w_inside in *. simpl in U. thr u t; auto.
        simpl in U. destruct (Bool.eqb (w_flag s) b); contradiction.
      * intro A. apply (wi_free s I). intros u U. apply (A u). unfold w_inside in *. simpl.
        thr u t; auto. rewrite PC in U. contradiction.
      * intros f C N. destruct (wi_cache s I f C N) as [u P]. exists u.
        pose proof (NP u P). unfold w_pending in *. simpl. now rewrite upd_other by auto.
      * intros u f Hd N. unfold w_holds in Hd. simpl in Hd.
        assert (u <> t).
        { intros ->. rewrite upd_same in Hd. simpl in Hd.
          destruct (Bool.eqb (w_flag s) b); destruct Hd; discriminate. }
        rewrite upd_other in Hd by auto.
        destruct (wi_held s I u f Hd N) as [u0 P]. exists u0.
        pose proof (NP u0 P). unfold w_pending in *. simpl. now rewrite upd_other by auto.
    + (* get_cell_size acquires the lock *)
      destruct (can_acquire (w_lock s) t) eqn:CA; try discriminate.
      inversion H; subst s'; clear H.
      assert (NI : ~ w_inside s t) by (unfold w_inside; now rewrite PC).
      destruct (acquire_free s t I NI CA) as [NOBODY FREE].
      assert (NP : forall u, w_pending s u -> u <> t).
      { intros u (b' & [P|P]) ->; congruence. }
      constructor; simpl.
      * intros u U. unfold w_inside in U. simpl in U. thr u t.
        -- rewrite FREE. reflexivity.
        -- exfalso. apply (NOBODY u). exact U.
      * intro A. exfalso. apply (A t). unfold w_inside. simpl. now rewrite upd_same.
      * intros f C N. destruct (wi_cache s I f C N) as [u P]. exists u.
        pose proof (NP u P). unfold w_pending in *. simpl. now rewrite upd_other by auto.
      * intros u f Hd N. unfold w_holds in Hd. simpl in Hd.
        assert (u <> t).
        { intros ->. rewrite upd_same in Hd. simpl in Hd. destruct Hd; discriminate. }
        rewrite upd_other in Hd by auto.
        destruct (wi_held s I u f Hd N) as [u0 P]. exists u0.
        pose proof (NP u0 P). unfold w_pending in *. simpl. now rewrite upd_other by auto.
  - (* WSetFlag: the flag is written; the toggle is pending from now on *)
    inversion H; subst s'; clear H.
    assert (PT : w_pending {| w_lock := w_lock s; w_flag := b; w_cache := w_cache s; w_ncomp := w_ncomp s;
                             w_th := upd (w_th s) t {| w_pc := WAcq b; w_todo := w_todo (w_th s t);
                                                       w_rets := w_rets (w_th s t) |} |} t).
    { exists b. left. simpl. now rewrite upd_same. }
    constructor; simpl.
    + intros u U. apply (wi_owner s I). unfold w_inside in *. simpl in U. thr u t; auto.
      simpl in U. contradiction.
    + intro A. apply (wi_free s I). intros u U. apply (A u). unfold w_inside in *. simpl.
      thr u t; auto. rewrite PC in U. contradiction.
    + intros. exists t. exact PT.
    + intros. exists t. exact PT.
  - (* WAcq: the toggle acquires the lock; still pending *)
    destruct (can_acquire (w_lock s) t) eqn:CA; try discriminate.
    inversion H; subst s'; clear H.
    assert (NI : ~ w_inside s t) by (unfold w_inside; now rewrite PC).
    destruct (acquire_free s t I NI CA) as [NOBODY FREE].
    assert (KEEP : forall u, w_pending s u ->
                             w_pending {| w_lock := acquire (w_lock s) t; w_flag := w_flag s; w_cache := w_cache s;
                                          w_ncomp := w_ncomp s;
                                          w_th := upd (w_th s) t {| w_pc := WClear b; w_todo := w_todo (w_th s t);
                                                                    w_rets := w_rets (w_th s t) |} |} u).
    { intros u (b' & P). unfold w_pending. simpl. thr u t.
      - exists b. now right.
      - exists b'. exact P. }
    constructor; simpl.
    + intros u U. unfold w_inside in U. simpl in U. thr u t.
      * rewrite FREE. reflexivity.
      * exfalso. apply (NOBODY u). exact U.
    + intro A. exfalso. apply (A t). unfold w_inside. simpl. now rewrite upd_same.
    + intros f C N. destruct (wi_cache s I f C N) as [u P]. exists u. now apply KEEP.
    + intros u f Hd N. unfold w_holds in Hd. simpl in Hd.
      assert (u <> t).
      { intros ->. rewrite upd_same in Hd. simpl in Hd. destruct Hd; discriminate. }
      rewrite upd_other in Hd by auto.
      destruct (wi_held s I u f Hd N) as [u0 P]. exists u0. now apply KEEP.
  - (* WClear: the cache is zeroed under the lock: nobody else is inside, nothing stale is left *)
    inversion H; subst s'; clear H.
    assert (IN : w_inside s t) by (unfold w_inside; now rewrite PC).
    constructor; simpl.
    + intros u U. apply (wi_owner s I). unfold w_inside in *. simpl in U. thr u t; auto.
    + intro A. exfalso. apply (A t). unfold w_inside. simpl. now rewrite upd_same.
    + discriminate.
    + intros u f Hd N. exfalso. unfold w_holds in Hd. simpl in Hd. thr u t.
      * simpl in Hd. destruct Hd; discriminate.
      * assert (U : w_inside s u) by (unfold w_inside; destruct Hd as [E|E]; now rewrite E).
        pose proof (inside_unique s u t I U IN). contradiction.
  - (* WRel: the toggle releases the lock *)
    inversion H; subst s'; clear H.
    assert (IN : w_inside s t) by (unfold w_inside; now rewrite PC).
    assert (NP : forall u, w_pending s u -> u <> t).
    { intros u (b' & [P|P]) ->; congruence. }
    assert (OTHERS : forall u, u <> t -> ~ w_inside s u).
    { intros u N U. apply N. apply (inside_unique s u t I U IN). }
    constructor; simpl.
    + intros u U. exfalso. unfold w_inside in U. simpl in U. thr u t.
      * simpl in U. contradiction.
      * apply (OTHERS u); auto.
    + intros _. rewrite (wi_owner s I t IN). reflexivity.
    + intros f C N. destruct (wi_cache s I f C N) as [u P]. exists u.
      pose proof (NP u P). unfold w_pending in *. simpl. now rewrite upd_other by auto.
    + intros u f Hd N. exfalso. unfold w_holds in Hd. simpl in Hd. thr u t.
      * simpl in Hd. destruct Hd; discriminate.
      * apply (OTHERS u); auto. unfold w_inside. destruct Hd as [E|E]; now rewrite E.
  - (* GLook: hit (the entry is returned) or miss *)
    inversion H; subst s'; clear H. unfold wset.
    assert (IN : w_inside s t) by (unfold w_inside; now rewrite PC).
    assert (NP : forall u, w_pending s u -> u <> t).
    { intros u (b' & [P|P]) ->; congruence. }
    constructor; simpl.
    + intros u U. apply (wi_owner s I). unfold w_inside in *. simpl in U. thr u t; auto.
    + intro A. exfalso. apply (A t). unfold w_inside. simpl. rewrite upd_same. simpl.
      destruct (w_cache s); exact Logic.I.
    + intros f C N. destruct (wi_cache s I f C N) as [u P]. exists u.
      pose proof (NP u P). unfold w_pending in *. simpl. now rewrite upd_other by auto.
    + intros u f Hd N. unfold w_holds in Hd. simpl in Hd.
      assert (P : exists u0, w_pending s u0).
      { thr u t.
        - simpl in Hd. destruct (w_cache s) as [f0|] eqn:C.
          + destruct Hd as [E|E]; inversion E; subst. apply (wi_cache s I f C N).
          + destruct Hd; discriminate.
        - apply (wi_held s I u f Hd N). }
      destruct P as [u0 P]. exists u0.
      pose proof (NP u0 P). unfold w_pending in *. simpl. now rewrite upd_other by auto.
  - (* GRead: the flag is read *)
    inversion H; subst s'; clear H. unfold wset.
    assert (IN : w_inside s t) by (unfold w_inside; now rewrite PC).
    assert (NP : forall u, w_pending s u -> u <> t).
    { intros u (b' & [P|P]) ->; congruence. }
    constructor; simpl.
    + intros u U. apply (wi_owner s I). unfold w_inside in *. simpl in U. thr u t; auto.
    + intro A. exfalso. apply (A t). unfold w_inside. simpl. now rewrite upd_same.
    + intros f C N. destruct (wi_cache s I f C N) as [u P]. exists u.
      pose proof (NP u P). unfold w_pending in *. simpl. now rewrite upd_other by auto.
    + intros u f Hd N. unfold w_holds in Hd. simpl in Hd. thr u t.
      * simpl in Hd. exfalso. destruct Hd as [E|E]; inversion E. congruence.
      * destruct (wi_held s I u f Hd N) as [u0 P]. exists u0.
        pose proof (NP u0 P). unfold w_pending in *. simpl. now rewrite upd_other by auto.
  - (* GWrite: the cache is written with the value held *)
    inversion H; subst s'; clear H.
    assert (IN : w_inside s t) by (unfold w_inside; now rewrite PC).
    assert (NP : forall u, w_pending s u -> u <> t).
    { intros u (b' & [P|P]) ->; congruence. }
    assert (HT : w_holds s t f) by (left; exact PC).
    constructor; simpl.
    + intros u U. apply (wi_owner s I). unfold w_inside in *. simpl in U. thr u t; auto.
    + intro A. exfalso. apply (A t). unfold w_inside. simpl. now rewrite upd_same.
    + intros f0 C N. inversion C; subst f0. destruct (wi_held s I t f HT N) as [u P]. exists u.
      pose proof (NP u P). unfold w_pending in *. simpl. now rewrite upd_other by auto.
    + intros u f0 Hd N. unfold w_holds in Hd. simpl in Hd.
      assert (P : exists u0, w_pending s u0).
      { thr u t.
        - simpl in Hd. destruct Hd as [E|E]; inversion E; subst. apply (wi_held s I t f0 HT N).
        - apply (wi_held s I u f0 Hd N). }
      destruct P as [u0 P]. exists u0.
      pose proof (NP u0 P). unfold w_pending in *. simpl. now rewrite upd_other by auto.
  - (* GRel: release and return *)
    inversion H; subst s'; clear H.
    assert (IN : w_inside s t) by (unfold w_inside; now rewrite PC).
    assert (NP : forall u, w_pending s u -> u <> t).
    { intros u (b' & [P|P]) ->; congruence. }
    assert (OTHERS : forall u, u <> t -> ~ w_inside s u).
    { intros u N U. apply N. apply (inside_unique s u t I U IN). }
    constructor; simpl.
    + intros u U. exfalso. unfold w_inside in U. simpl in U. thr u t.
      * simpl in U. contradiction.
      * apply (OTHERS u); auto.
    + intros _. rewrite (wi_owner s I t IN). reflexivity.
    + intros f0 C N. destruct (wi_cache s I f0 C N) as [u P]. exists u.
      pose proof (NP u P). unfold w_pending in *. simpl. now rewrite upd_other by auto.
    + intros u f0 Hd N. exfalso. unfold w_holds in Hd. simpl in Hd. thr u t.
      * simpl in Hd. destruct Hd; discriminate.
      * apply (OTHERS u); auto. unfold w_inside. destruct Hd as [E|E]; now rewrite E.
Qed.

Definition w_start (f0 : bool) (warm : bool) (prog : nat -> list wcmd) : wstate :=
  winit f0 (if warm then Some f0 else None) prog.

Lemma winv_reachable f0 warm prog s : reachable wstep (w_start f0 warm prog) s -> WInv s.
Proof.
  apply (reachable_ind_inv wstate wstep WInv).
  - unfold w_start. destruct warm; apply winv_init.
  - intros; eapply winv_step; eauto.
Qed.

(** at most one thread is inside the region protected by [_cell_size_lock] *)
Lemma swap_mutex_lemma f0 warm prog s t1 t2 :
  reachable wstep (w_start f0 warm prog) s -> w_inside s t1 -> w_inside s t2 -> t1 = t2.
Proof. intro R. apply inside_unique. now apply (winv_reachable f0 warm prog). Qed.

(** THE STATEMENT: in every reachable state — any number of threads, any programs, any
    schedule — in which no toggle is between its flag write and its clear (in
    particular: all toggles have returned), the cache is empty or holds the value for the
    current flag, so [get_cell_size()] answers with the fresh value for the current
    flag, and every [get_cell_size] in flight is about to store / return such a value *)
Lemma swap_toggle_fresh_lemma f0 warm prog s :
  reachable wstep (w_start f0 warm prog) s ->
  (forall u, ~ w_pending s u) ->
  w_answer s = w_flag s
  /\ (w_cache s = None \/ w_cache s = Some (w_flag s))
  /\ (forall t f, w_holds s t f -> f = w_flag s).
Proof.
  intros R Q. pose proof (winv_reachable f0 warm prog s R) as I.
  assert (C : forall f, w_cache s = Some f -> f = w_flag s).
  { intros f C. destruct (bool_dec f (w_flag s)) as [E|N]; auto.
    destruct (wi_cache s I f C N) as [u P]. destruct (Q u P). }
  repeat split.
  - unfold w_answer. destruct (w_cache s) eqn:E; auto.
  - destruct (w_cache s) eqn:E; auto. right. f_equal. auto.
  - intros t f Hd. destruct (bool_dec f (w_flag s)) as [E|N]; auto.
    destruct (wi_held s I t f Hd N) as [u P]. destruct (Q u P).
Qed.

Lemma swap_toggle_fresh_schedules f0 warm prog sch :
  let s := run_sched wstep (w_start f0 warm prog) sch in
  (forall u, ~ w_pending s u) -> w_answer s = w_flag s.
Proof.
  intros s Q. apply (swap_toggle_fresh_lemma f0 warm prog s); auto.
  apply run_sched_reachable.
Qed.

(** ** non-vacuity and the refutation of the variant

    thread 0 toggles, thread 1 calls [get_cell_size] exactly when thread 0 has released
    the lock; cache warm (filled under the old flag) *)
Definition sw_prog (t : nat) : list wcmd :=
  match t with 0 => [WToggle true] | 1 => [WGet] | _ => [] end.
Definition sw_sched : list nat := [0; 0; 0; 0; 0; 1; 1; 1; 1; 1; 0; 0].

(** the real order: the getter computes under the NEW flag *)
Example swap_toggle_at_release :
  let s := run_sched wstep (w_start false true sw_prog) sw_sched in
  w_flag s = true /\ w_cache s = Some true /\ w_answer s = w_flag s /\ w_ncomp s = 1
  /\ w_rets (w_th s 1) = [true]
  /\ map (fun t => w_pc (w_th s t)) [0; 1] = [WIdle; WIdle]
  /\ map (fun t => w_todo (w_th s t)) [0; 1] = [[]; []].
Proof. repeat split; vm_compute; reflexivity. Qed.

(** the variant that writes the flag AFTER the lock region: with thread 1 again running
    exactly when thread 0 has released the lock (here: after four micro-steps, the flag
    write still ahead), the value computed under the old flag is in the cache after the
    toggle has returned *)
Definition sw_sched_late : list nat := [0; 0; 0; 0; 1; 1; 1; 1; 1; 0; 0].
Lemma swap_toggle_refuted_late_flag :
  exists f0 warm prog sch,
    let s := run_sched (wstep_gen true) (w_start f0 warm prog) sch in
    (forall t, t < 2 -> w_pc (w_th s t) = WIdle /\ w_todo (w_th s t) = [])
    /\ w_flag s = true /\ w_cache s = Some false /\ w_answer s <> w_flag s.
Proof.
  exists false, true, sw_prog, sw_sched_late. cbv zeta. split; [|split; [|split]].
  - intros t Lt. destruct t as [|[|t]]; [split; vm_compute; reflexivity|split; vm_compute; reflexivity|nat_ar].
  - vm_compute. reflexivity.
  - vm_compute. reflexivity.
  - vm_compute. discriminate.
Qed.

(** a getter that holds the lock while the toggle writes the flag: the toggle waits, the
    old value is written and then cleared *)
Example swap_toggle_during_get :
  let s := run_sched wstep (w_start true false (fun t => match t with 0 => [WToggle false] | 1 => [WGet] | _ => [] end))
                     [1; 1; 1; 0; 0; 0; 1; 1; 0; 0; 0] in
  w_flag s = false /\ w_cache s = None /\ w_rets (w_th s 1) = [true] /\ w_ncomp s = 1
  /\ map (fun t => w_pc (w_th s t)) [0; 1] = [WIdle; WIdle].
Proof. repeat split; vm_compute; reflexivity. Qed.
