(** Proofs for model/ScreenBlend.v (C18: placements counted, terminal identity, [blend]). *)
From Coq Require Import List ZArith Bool Lia Arith.
Import ListNotations.
From TI Require Import lib.Term model.Screen model.ScreenUrwid model.ScreenBlend.

Lemma plc_eqb_eq : forall a b, plc_eqb a b = true <-> a = b.
Proof.
  intros [r c w h z] [r' c' w' h' z']; unfold plc_eqb; cbn [p_r p_c p_w p_h p_z].
  rewrite !andb_true_iff, !Z.eqb_eq. split.
  - intros [[[[-> ->] ->] ->] ->]. reflexivity.
  - intros E; inversion E; auto.
Qed.
Lemma plc_eqb_refl : forall a, plc_eqb a a = true.
Proof. intros; apply plc_eqb_eq; reflexivity. Qed.
Lemma plc_eqb_neq : forall a b, a <> b -> plc_eqb a b = false.
Proof. intros a b N. destruct (plc_eqb a b) eqn:E; auto. apply plc_eqb_eq in E. contradiction. Qed.

Lemma pcount_filter : forall f q l, pcount q (filter f l) = if f q then pcount q l else 0.
Proof.
  intros f q l. induction l as [|x t IH]; cbn [filter pcount].
  - destruct (f q); reflexivity.
  - destruct (plc_eqb q x) eqn:E.
    + apply plc_eqb_eq in E. subst x. destruct (f q) eqn:F; cbn [pcount].
      * rewrite plc_eqb_refl, IH, ?F. reflexivity.
      * rewrite IH, ?F. reflexivity.
    + destruct (f x); cbn [pcount]; rewrite ?E, IH; destruct (f q); reflexivity.
Qed.

Lemma pcount_notin : forall q l, ~ In q l -> pcount q l = 0.
Proof.
  intros q l. induction l as [|x t IH]; cbn [pcount]; intros N; auto.
  rewrite plc_eqb_neq, IH; auto.
  - intros I; apply N; right; exact I.
  - intros E; apply N; left; symmetry; exact E.
Qed.
Lemma pcount_pos_in : forall q l, pcount q l <> 0 -> In q l.
Proof.
  intros q l. induction l as [|x t IH]; cbn [pcount]; intros P; [congruence|].
  destruct (plc_eqb q x) eqn:E.
  - apply plc_eqb_eq in E. left. symmetry. exact E.
  - right. apply IH. exact P.
Qed.
Lemma pcount_nodup : forall q l, NoDup l -> In q l -> pcount q l = 1.
Proof.
  intros q l ND. induction ND as [|x t NI ND IH]; cbn [pcount In]; intros I; [contradiction|].
  destruct I as [->|I].
  - rewrite plc_eqb_refl, pcount_notin; auto.
  - rewrite plc_eqb_neq, IH; auto. intros ->. contradiction.
Qed.

Lemma covers_self : forall p, (0 < p_w p)%Z -> (0 < p_h p)%Z -> covers p (p_r p) (p_c p) = true.
Proof.
  intros p W Hh. unfold covers. rewrite !andb_true_iff.
  repeat split; try apply Z.leb_refl; apply Z.ltb_lt; lia.
Qed.

(** one strip re-sent with the code's [blend]: the counts are those of the canvas again *)
Lemma strip_exact : forall id L p t,
  strips_wf L -> In p L ->
  (forall q, pcount q (t_plcs t) = pcount q L) ->
  forall q, pcount q (t_plcs (pexec_id id t (strip_toks (code_blend id) p))) = pcount q L.
Proof.
  intros id L p t [ND [POS DISJ]] Ip Inv q.
  destruct (POS p Ip) as [W Hh].
  assert (P1 : pcount p L = 1) by (apply pcount_nodup; auto).
  unfold strip_toks, code_blend, pexec_id.
  destruct (is_konsole id) eqn:K.
  - (* Konsole: the placement replaces the equal one *)
    cbn [app fold_left pstep_id pstep set_cur set_plcs t_r t_c t_plcs t_sync].
    unfold place_id, replaces_same. rewrite K.
    replace (mk_plc (p_r p) (p_c p) (p_w p) (p_h p) (p_z p)) with p by (destruct p; reflexivity).
    cbn [pcount]. rewrite pcount_filter.
    destruct (plc_eqb q p) eqn:E.
    + apply plc_eqb_eq in E. subst q. rewrite plc_eqb_refl. cbn [negb]. lia.
    + assert (E' : plc_eqb p q = false).
      { apply plc_eqb_neq. intros ->. rewrite plc_eqb_refl in E. discriminate. }
      rewrite E'. cbn [negb]. rewrite Inv. reflexivity.
  - (* every other terminal: the line first deletes what intersects its first cell *)
    cbn [app fold_left pstep_id pstep set_cur set_plcs t_r t_c t_plcs t_sync apply_del].
    unfold place_id, replaces_same. rewrite K.
    replace (mk_plc (p_r p) (p_c p) (p_w p) (p_h p) (p_z p)) with p by (destruct p; reflexivity).
    cbn [pcount]. rewrite pcount_filter.
    destruct (plc_eqb q p) eqn:E.
    + apply plc_eqb_eq in E. subst q. rewrite covers_self by assumption. cbn [negb]. lia.
    + destruct (covers q (p_r p) (p_c p)) eqn:C; cbn [negb].
      * destruct (Nat.eq_dec (pcount q L) 0) as [Z0|NZ]; [lia|].
        apply pcount_pos_in in NZ. rewrite (DISJ p q Ip NZ C) in E. rewrite plc_eqb_refl in E. discriminate.
      * rewrite Inv. reflexivity.
Qed.

Lemma pexec_id_app : forall id t a b, pexec_id id t (a ++ b) = pexec_id id (pexec_id id t a) b.
Proof. intros; unfold pexec_id; apply fold_left_app. Qed.

(** MAIN: for every identity, every canvas (strips [L]), every terminal showing exactly [L]
    (counted), every set of rows that urwid re-sends ([R]: any strips of [L], in any order, any
    number of times) while the image views are unchanged - with the code's choice of [blend] the
    terminal shows exactly [L] again, counted *)
Lemma repaint_exact_lemma : forall id L R t,
  strips_wf L -> incl R L ->
  (forall q, pcount q (t_plcs t) = pcount q L) ->
  forall q, pcount q (t_plcs (pexec_id id t (repaint (code_blend id) R))) = pcount q L.
Proof.
  intros id L R. induction R as [|p R IH]; intros t WF INC Inv q.
  - exact (Inv q).
  - unfold repaint. cbn [flat_map]. rewrite pexec_id_app.
    apply IH; auto.
    + intros x Ix. apply INC. right. exact Ix.
    + apply strip_exact; auto. apply INC. left. reflexivity.
Qed.

Lemma repaint_exact_supported : forall id L R t,
  claims_support id = true ->
  strips_wf L -> incl R L ->
  (forall q, pcount q (t_plcs t) = pcount q L) ->
  forall q, pcount q (t_plcs (pexec_id id t (repaint (code_blend id) R))) = pcount q L.
Proof. intros id L R t _. apply repaint_exact_lemma. Qed.

(** off Konsole the identity terminal IS the stacking terminal of model/Screen.v *)
Lemma pexec_id_stacking : forall id t ts, is_konsole id = false -> pexec_id id t ts = pexec false t ts.
Proof.
  intros id t ts K. revert t. induction ts as [|x ts IH]; intros t; [reflexivity|].
  unfold pexec_id, pexec in *. cbn [fold_left]. rewrite IH. f_equal.
  destruct x; cbn [pstep_id pstep]; unfold place_id, replaces_same; rewrite ?K; reflexivity.
Qed.

(** the strips the session model (ScreenUrwid.item_toks) writes for a kitty image line are the
    strips of this file, with the code's [blend] *)
Lemma item_toks_is_strip : forall id it,
  i_kitty it = true -> p_h (i_plc it) = 1%Z ->
  item_toks (is_konsole id) it = strip_toks (code_blend id) (i_plc it).
Proof.
  intros id it K Hh. unfold item_toks, strip_toks, code_blend. rewrite K, Hh. reflexivity.
Qed.

(** ** Konsole: the replacing terminal = the stacking terminal with equal placements merged *)
Lemma in_pdedup : forall q l, In q (pdedup l) <-> In q l.
Proof.
  intros q l. induction l as [|x t IH]; cbn [pdedup]; [tauto|].
  destruct (plc_mem x t) eqn:M.
  - rewrite IH. cbn [In]. split; [tauto|]. intros [->|I]; auto.
    unfold plc_mem in M. apply existsb_exists in M. destruct M as [y [Iy E]].
    apply plc_eqb_eq in E. subst y. exact Iy.
  - cbn [In]. rewrite IH. tauto.
Qed.
Lemma nodup_pdedup : forall l, NoDup (pdedup l).
Proof.
  induction l as [|x t IH]; cbn [pdedup]; [constructor|].
  destruct (plc_mem x t) eqn:M; auto. constructor; auto.
  rewrite in_pdedup. intros I. unfold plc_mem in M.
  assert (existsb (plc_eqb x) t = true) by (apply existsb_exists; exists x; split; [exact I|apply plc_eqb_refl]).
  congruence.
Qed.

Definition krel (a b : pterm) : Prop :=
  t_r a = t_r b /\ t_c a = t_c b /\ t_sync a = t_sync b
  /\ NoDup (t_plcs a) /\ (forall q, In q (t_plcs a) <-> In q (t_plcs b)).

Lemma krel_filter : forall f a b r c s r' c' s',
  r = r' -> c = c' -> s = s' -> NoDup a -> (forall q, In q a <-> In q b) ->
  krel (mk_pterm r c (filter f a) s) (mk_pterm r' c' (filter f b) s').
Proof.
  intros. unfold krel; cbn [t_r t_c t_sync t_plcs]. repeat split; auto.
  - apply NoDup_filter; auto.
  - rewrite !filter_In. intros [I F]. split; auto. apply H3; auto.
  - rewrite !filter_In. intros [I F]. split; auto. apply H3; auto.
Qed.

Lemma krel_place : forall p a b r c s,
  NoDup a -> (forall q, In q a <-> In q b) ->
  krel (mk_pterm r c (place_id IdKonsole p a) s) (mk_pterm r c (p :: b) s).
Proof.
  intros p a b r c s ND EQ. unfold krel, place_id; cbn [replaces_same is_konsole t_r t_c t_sync t_plcs].
  repeat split; auto.
  - constructor.
    + rewrite filter_In. intros [_ F]. rewrite plc_eqb_refl in F. discriminate.
    + apply NoDup_filter; auto.
  - cbn [In]. rewrite filter_In. intros [->|[I _]]; auto. right. apply EQ. exact I.
  - cbn [In]. rewrite filter_In. intros [->|I]; auto.
    destruct (plc_eqb p q) eqn:E.
    + apply plc_eqb_eq in E. auto.
    + right. split; [apply EQ; exact I|reflexivity].
Qed.

Lemma krel_step : forall a b x, krel a b -> krel (pstep_id IdKonsole a x) (pstep true b x).
Proof.
  intros [ra ca la sa] [rb cb lb sb] x [R [C [S [ND EQ]]]].
  cbn [t_r t_c t_sync t_plcs] in *. subst rb cb sb.
  destruct x; cbn [pstep_id pstep is_konsole set_cur set_plcs t_r t_c t_plcs t_sync];
    try (unfold krel; cbn [t_r t_c t_sync t_plcs]; repeat split; auto; apply EQ).
  - (* KPlace *)
    destruct stay; [apply krel_place; auto|].
    pose proof (krel_place (mk_plc ra ca w h z) la lb ra ca sa ND EQ) as K.
    unfold krel in *; cbn [t_r t_c t_sync t_plcs set_cur] in *. tauto.
  - (* KIterm *)
    destruct dnmc; [apply krel_place; auto|].
    pose proof (krel_place (mk_plc ra ca w h 0) la lb ra ca sa ND EQ) as K.
    unfold krel in *; cbn [t_r t_c t_sync t_plcs set_cur] in *. tauto.
  - (* KDel *)
    destruct d; cbn [apply_del].
    + unfold krel; cbn [t_r t_c t_sync t_plcs]. repeat split; auto; try constructor; intros [].
    + apply krel_filter; auto.
    + apply krel_filter; auto.
Qed.

Lemma krel_exec : forall ts a b, krel a b -> krel (pexec_id IdKonsole a ts) (pexec true b ts).
Proof.
  induction ts as [|x ts IH]; intros a b K; [exact K|].
  unfold pexec_id, pexec in *. cbn [fold_left]. apply IH. apply krel_step. exact K.
Qed.

(** on Konsole, from the empty terminal (or any pair related by [krel]), for EVERY stream: the
    placements of the replacing terminal, counted, are those of the stacking terminal with
    equal placements merged - that is [norm IdKonsole] *)
Lemma konsole_is_dedup : forall ts q,
  pcount q (t_plcs (pexec_id IdKonsole pterm_init ts))
  = pcount q (norm IdKonsole (t_plcs (pexec true pterm_init ts))).
Proof.
  intros ts q.
  assert (K0 : krel pterm_init pterm_init).
  { unfold krel; cbn. repeat split; auto. constructor. }
  destruct (krel_exec ts _ _ K0) as [_ [_ [_ [ND EQ]]]].
  unfold norm; cbn [replaces_same is_konsole].
  set (A := t_plcs (pexec_id IdKonsole pterm_init ts)) in *.
  set (B := t_plcs (pexec true pterm_init ts)) in *.
  destruct (in_dec (fun x y => match Bool.bool_dec (plc_eqb x y) true with
                               | left e => left (proj1 (plc_eqb_eq x y) e)
                               | right n => right (fun e => n (proj2 (plc_eqb_eq x y) e)) end) q A) as [I|N].
  - rewrite (pcount_nodup q A ND I). symmetry. apply pcount_nodup; [apply nodup_pdedup|].
    apply in_pdedup. apply EQ. exact I.
  - rewrite (pcount_notin q A N). symmetry. apply pcount_notin.
    rewrite in_pdedup. intros I. apply N. apply EQ. exact I.
Qed.

(** [plcs_msame] decides equality of counts *)
Lemma plcs_msame_iff : forall a b, plcs_msame a b = true <-> forall q, pcount q a = pcount q b.
Proof.
  intros a b. unfold plcs_msame. rewrite forallb_forall. split.
  - intros Hf q.
    destruct (Nat.eq_dec (pcount q a) 0) as [Za|Na]; destruct (Nat.eq_dec (pcount q b) 0) as [Zb|Nb]; try lia.
    + apply pcount_pos_in in Nb. apply Nat.eqb_eq. apply Hf. apply in_or_app. right. exact Nb.
    + apply pcount_pos_in in Na. apply Nat.eqb_eq. apply Hf. apply in_or_app. left. exact Na.
    + apply pcount_pos_in in Na. apply Nat.eqb_eq. apply Hf. apply in_or_app. left. exact Na.
  - intros Hq x _. apply Nat.eqb_eq. apply Hq.
Qed.

(** ** the excluded design, and non-vacuity *)

Definition ex_L : list plc := [mk_plc 0 8 16 1 1; mk_plc 1 8 16 1 1].
Definition ex_t : pterm := mk_pterm 0 0 ex_L false.

Lemma ex_L_wf : strips_wf ex_L.
Proof.
  unfold strips_wf, ex_L. split; [|split].
  - constructor; [intros [E|[]]; discriminate|]. constructor; [intros []|constructor].
  - intros p [<-|[<-|[]]]; cbn; lia.
  - intros p q [<-|[<-|[]]] [<-|[<-|[]]]; cbn; intros; try reflexivity; discriminate.
Qed.

(** the hypotheses of [repaint_exact_lemma] hold on a two-line image, and for the forced-support
    terminal and kitty 0.25.0 the code's blend=False keeps one placement per line after the first
    line's row was re-sent three times *)
Example repaint_exact_example :
  strips_wf ex_L /\ incl [mk_plc 0 8 16 1 1] ex_L
  /\ map (fun id => t_plcs (pexec_id id ex_t (repaint (code_blend id) [mk_plc 0 8 16 1 1; mk_plc 0 8 16 1 1; mk_plc 0 8 16 1 1])))
         [IdForced; IdKitty 0 25 0; IdKonsole]
     = [[mk_plc 0 8 16 1 1; mk_plc 1 8 16 1 1]; [mk_plc 0 8 16 1 1; mk_plc 1 8 16 1 1]; [mk_plc 0 8 16 1 1; mk_plc 1 8 16 1 1]].
Proof.
  split; [exact ex_L_wf|]. split; [|vm_compute; reflexivity].
  intros x [<-|[]]. left. reflexivity.
Qed.

(** blend=True on a terminal that stacks (forced support on an unidentified terminal; kitty
    0.20.0 - 0.25.0, for which [blend_unless_new_kitty] keeps blend=True): every re-send of the
    line's row adds a placement - 1 + n copies after n repaints, while the canvas has one - and
    the comparison of placements as SETS does not see it; on kitty 0.25.1 and on Konsole the
    excluded design behaves like the code *)
Lemma blend_true_repaint_refuted :
  let p := mk_plc 0 8 16 1 1 in
  claims_support IdForced = true /\ claims_support (IdKitty 0 20 0) = true /\ claims_support (IdKitty 0 25 0) = true
  /\ blend_unless_new_kitty IdForced = true /\ blend_unless_new_kitty (IdKitty 0 20 0) = true
  /\ blend_unless_new_kitty (IdKitty 0 25 0) = true
  /\ blend_unless_new_kitty (IdKitty 0 25 1) = false /\ blend_unless_new_kitty (IdKitty 0 26 0) = false
  /\ blend_unless_new_kitty IdKonsole = code_blend IdKonsole
  /\ (forall id, In id [IdForced; IdKitty 0 20 0; IdKitty 0 25 0] ->
        pcount p (t_plcs (pexec_id id ex_t (repaint (blend_unless_new_kitty id) [p]))) = 2
        /\ pcount p (t_plcs (pexec_id id ex_t (repaint (blend_unless_new_kitty id) [p; p; p]))) = 4
        /\ pcount p ex_L = 1
        /\ plcs_same (t_plcs (pexec_id id ex_t (repaint (blend_unless_new_kitty id) [p; p; p]))) ex_L = true
        /\ plcs_exact id (t_plcs (pexec_id id ex_t (repaint (blend_unless_new_kitty id) [p; p; p]))) ex_L = false
        /\ plcs_exact id (t_plcs (pexec_id id ex_t (repaint (code_blend id) [p; p; p]))) ex_L = true).
Proof.
  cbv zeta. repeat split; try (vm_compute; reflexivity);
  destruct H as [<-|[<-|[<-|[]]]]; vm_compute; reflexivity.
Qed.
