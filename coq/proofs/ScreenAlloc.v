(** C18 — the z-index allocator: for EVERY history of widget constructions and
    finalisations the live z-indexes are pairwise distinct, non-zero and within
    [-(2^31-1), 2^31-1]; exhaustion raises and leaves the state alone. *)
From Coq Require Import List ZArith Bool Lia Arith Permutation.
Import ListNotations.
From TI Require Import lib.Term model.Screen.
Open Scope Z_scope.

(** z-indexes handed out so far when the counter is [n]: 1,-1,2,-2,... up to (excluding) n *)
Definition issued (n z : Z) : Prop :=
  z <> 0 /\ if 0 <? n then - n < z < n else n < z <= - n.

Definition next_ok (n : Z) : Prop := (1 <= n <= zlimit) \/ (- (zlimit - 1) <= n <= -1).

Definition in_range (z : Z) : Prop := z <> 0 /\ - (zlimit - 1) <= z <= zlimit - 1.

Lemma issued_in_range : forall n z, next_ok n -> issued n z -> in_range z.
Proof.
  unfold issued, next_ok, in_range, zlimit. intros n z Hn [Hz H].
  destruct (0 <? n) eqn:E; [apply Z.ltb_lt in E | apply Z.ltb_ge in E]; lia.
Qed.

Lemma issued_step : forall n z, next_ok n -> n <> zlimit ->
  (issued (if 0 <? n then - n else - n + 1) z <-> issued n z \/ z = n).
Proof.
  unfold issued, next_ok, zlimit. intros n z Hn Hne.
  destruct (0 <? n) eqn:E; [apply Z.ltb_lt in E | apply Z.ltb_ge in E].
  - assert (E2 : (0 <? - n) = false) by (apply Z.ltb_ge; lia). rewrite E2. lia.
  - assert (E2 : (0 <? - n + 1) = true) by (apply Z.ltb_lt; lia). rewrite E2. lia.
Qed.

Lemma next_ok_step : forall n, next_ok n -> n <> zlimit -> next_ok (if 0 <? n then - n else - n + 1).
Proof.
  unfold next_ok, zlimit. intros n Hn Hne.
  destruct (0 <? n) eqn:E; [apply Z.ltb_lt in E | apply Z.ltb_ge in E]; lia.
Qed.

Lemma not_issued_next : forall n, next_ok n -> ~ issued n n.
Proof.
  unfold issued, next_ok, zlimit. intros n Hn [_ H].
  destruct (0 <? n) eqn:E; [apply Z.ltb_lt in E | apply Z.ltb_ge in E]; lia.
Qed.

Lemma pop_nth_perm : forall n l y l', pop_nth n l = Some (y, l') -> Permutation l (y :: l').
Proof.
  induction n as [|n IH]; intros l y l' H; destruct l as [|x t]; simpl in H; try discriminate.
  - inversion H; subst. apply Permutation_refl.
  - destruct (pop_nth n t) as [[y0 t0]|] eqn:E.
    + inversion H; subst. apply IH in E.
      eapply Permutation_trans; [apply perm_skip; exact E|apply perm_swap].
    + inversion H; subst. apply Permutation_refl.
Qed.

Lemma pop_nth_none : forall n l, pop_nth n l = None -> l = [].
Proof.
  intros n l H. destruct l as [|x t]; [reflexivity|]. destruct n; simpl in H; [discriminate|].
  destruct (pop_nth n t) as [[? ?]|]; discriminate.
Qed.

Lemma zmem_In : forall z l, zmem z l = true <-> In z l.
Proof.
  induction l as [|x t IH]; simpl; [split; [discriminate|tauto]|].
  rewrite orb_true_iff, Z.eqb_eq, IH. tauto.
Qed.

Lemma nodup_app_r : forall (A : Type) (l1 l2 : list A), NoDup (l1 ++ l2) -> NoDup l2.
Proof. induction l1 as [|x t IH]; simpl; intros l2 H; [exact H|]. inversion H; subst. auto. Qed.

Lemma nodup_app_disj : forall (A : Type) (l1 l2 : list A) x, NoDup (l1 ++ l2) -> In x l1 -> In x l2 -> False.
Proof.
  induction l1 as [|y t IH]; simpl; intros l2 x H H1 H2; [tauto|]. inversion H as [|? ? Hni Hnd]; subst.
  destruct H1 as [->|H1]; [apply Hni, in_or_app; now right|eauto].
Qed.

(** the invariant of the allocator *)
Record inv (s : hist_st) : Prop := {
  inv_next : next_ok (a_next (h_a s));
  inv_nodup : NoDup (a_free (h_a s) ++ live_zs s);
  inv_issued : forall z, In z (a_free (h_a s) ++ live_zs s) <-> issued (a_next (h_a s)) z;
  inv_wids : NoDup (map fst (h_live s));
  inv_cnt : forall w z, In (w, z) (h_live s) -> (w < h_cnt s)%nat
}.

Lemma inv_init : inv hist_init.
Proof.
  constructor; simpl.
  - left. unfold zlimit. lia.
  - constructor.
  - intros z. split; [tauto|]. unfold issued. simpl. lia.
  - constructor.
  - tauto.
Qed.

Lemma live_find_In : forall w l z, live_find w l = Some z -> In (w, z) l.
Proof.
  induction l as [|[w' z'] t IH]; simpl; intros z H; [discriminate|].
  destruct (Nat.eqb w' w) eqn:E.
  - apply Nat.eqb_eq in E. inversion H; subst. now left.
  - right. auto.
Qed.

Lemma live_remove_split : forall w z l, NoDup (map fst l) -> In (w, z) l ->
  Permutation (map snd l) (z :: map snd (live_remove w l)) /\
  (forall p, In p (live_remove w l) -> In p l) /\ NoDup (map fst (live_remove w l)).
Proof.
  induction l as [|[w' z'] t IH]; simpl; intros Hnd Hin; [tauto|].
  inversion Hnd as [|? ? Hni Hnd']; subst.
  destruct Hin as [Heq|Hin].
  - inversion Heq; subst. rewrite Nat.eqb_refl. simpl.
    assert (Hid : live_remove w t = t).
    { unfold live_remove. clear - Hni. induction t as [|[a b] t IH]; simpl; [reflexivity|].
      simpl in Hni. destruct (Nat.eqb a w) eqn:E.
      - apply Nat.eqb_eq in E. subst. tauto.
      - simpl. f_equal. apply IH. tauto. }
    rewrite Hid. split; [apply Permutation_refl|]. split; [intros p Hp; now right|assumption].
  - destruct (Nat.eqb w' w) eqn:E.
    + apply Nat.eqb_eq in E. subst. exfalso. apply Hni. apply (in_map fst) in Hin. exact Hin.
    + simpl. destruct (IH Hnd' Hin) as [P [S N]]. split; [|split].
      * eapply Permutation_trans; [apply perm_skip; exact P|apply perm_swap].
      * intros p [Hp|Hp]; [now left|right; auto].
      * constructor; [|assumption]. intro Hc. apply Hni.
        apply in_map_iff in Hc. destruct Hc as [[a b] [Hab Hp]]. simpl in Hab. subst.
        apply S in Hp. apply (in_map fst) in Hp. exact Hp.
Qed.

Lemma inv_step : forall s e, inv s -> inv (hist_step s e).
Proof.
  intros s e I. destruct I as [Hn Hnd Hiss Hw Hc]. destruct e as [pick|w]; simpl.
  - unfold alloc. destruct (pop_nth pick (a_free (h_a s))) as [[z f']|] eqn:E.
    + (* reuse a freed index *)
      apply pop_nth_perm in E. unfold live_zs in *. constructor; simpl.
      * exact Hn.
      * eapply Permutation_NoDup; [|exact Hnd].
        eapply Permutation_trans; [apply Permutation_app_tail; exact E|].
        simpl. apply Permutation_middle.
      * intros z0. rewrite <- Hiss. split; intro H.
        -- eapply Permutation_in; [|exact H]. apply Permutation_sym.
           eapply Permutation_trans; [apply Permutation_app_tail; exact E|]. simpl. apply Permutation_middle.
        -- eapply Permutation_in; [|exact H].
           eapply Permutation_trans; [apply Permutation_app_tail; exact E|]. simpl. apply Permutation_middle.
      * constructor; [|exact Hw]. intro Hin. apply in_map_iff in Hin. destruct Hin as [[a b] [Hab Hp]].
        simpl in Hab. subst. apply Hc in Hp. lia.
      * intros w z0 [H|H]; [inversion H; subst; lia|apply Hc in H; lia].
    + apply pop_nth_none in E. destruct (a_next (h_a s) =? zlimit) eqn:El.
      * (* exhausted: raises, nothing changes but the widget counter *)
        constructor; simpl; try assumption. intros w z H. apply Hc in H. lia.
      * apply Z.eqb_neq in El. unfold live_zs in *. rewrite E in *. simpl in *. constructor; simpl.
        -- apply next_ok_step; assumption.
        -- constructor; [|exact Hnd]. intro Hin. apply Hiss in Hin. revert Hin. apply not_issued_next. exact Hn.
        -- intros z0. rewrite issued_step by assumption. rewrite <- Hiss. intuition.
        -- constructor; [|exact Hw]. intro Hin. apply in_map_iff in Hin. destruct Hin as [[a b] [Hab Hp]].
           simpl in Hab. subst. apply Hc in Hp. lia.
        -- intros w z0 [H|H]; [inversion H; subst; lia|apply Hc in H; lia].
  - destruct (live_find w (h_live s)) as [z|] eqn:E; [|constructor; assumption].
    apply live_find_In in E. destruct (live_remove_split w z (h_live s) Hw E) as [P [S N]].
    unfold live_zs in *.
    assert (Hz : ~ In z (a_free (h_a s))).
    { intro Hin. apply (nodup_app_disj _ _ _ z Hnd Hin). apply (in_map snd) in E. exact E. }
    assert (Hm : zmem z (a_free (h_a s)) = false).
    { destruct (zmem z (a_free (h_a s))) eqn:M; [|reflexivity]. apply zmem_In in M. tauto. }
    constructor; simpl; rewrite ?Hm.
    + exact Hn.
    + eapply Permutation_NoDup; [|exact Hnd]. simpl.
      eapply Permutation_trans; [apply Permutation_app_head; exact P|]. apply Permutation_sym.
      simpl. apply Permutation_middle.
    + intros z0. rewrite <- Hiss. split; intro H.
      * eapply Permutation_in; [|exact H]. simpl. apply Permutation_sym.
        eapply Permutation_trans; [apply Permutation_app_head; exact P|]. apply Permutation_sym.
        apply Permutation_middle.
      * eapply Permutation_in; [|exact H].
        eapply Permutation_trans; [apply Permutation_app_head; exact P|]. apply Permutation_sym.
        simpl. apply Permutation_middle.
    + exact N.
    + intros w0 z0 H. apply S in H. apply Hc in H. exact H.
Qed.

Lemma inv_run_from : forall h s, inv s -> inv (fold_left hist_step h s).
Proof. induction h as [|e h IH]; simpl; intros s I; [exact I|apply IH, inv_step, I]. Qed.

Lemma inv_run : forall h, inv (hist_run h).
Proof. intro h. apply inv_run_from, inv_init. Qed.

(** the statement of C18's allocator theorem *)
Definition alloc_safe (s : hist_st) : Prop :=
  NoDup (live_zs s)
  /\ (forall z, In z (live_zs s) -> z <> 0 /\ - (zlimit - 1) <= z <= zlimit - 1)
  /\ (forall pick z a', alloc pick (h_a s) = (Some z, a') ->
        ~ In z (live_zs s) /\ z <> 0 /\ - (zlimit - 1) <= z <= zlimit - 1)
  /\ (forall pick a', alloc pick (h_a s) = (None, a') ->
        a' = h_a s
        /\ a_next (h_a s) = zlimit
        /\ (forall z, z <> 0 -> - (zlimit - 1) <= z <= zlimit - 1 -> In z (live_zs s))).

Lemma inv_alloc_safe : forall s, inv s -> alloc_safe s.
Proof.
  intros s [Hn Hnd Hiss Hw Hc]. unfold alloc_safe. split; [|split; [|split]].
  - apply nodup_app_r in Hnd. exact Hnd.
  - intros z Hin. apply (issued_in_range (a_next (h_a s))); [exact Hn|]. apply Hiss. apply in_or_app. now right.
  - intros pick z a' H. unfold alloc in H.
    destruct (pop_nth pick (a_free (h_a s))) as [[z0 f']|] eqn:E.
    + inversion H; subst. apply pop_nth_perm in E.
      assert (Hin : In z (a_free (h_a s))) by (eapply Permutation_in; [apply Permutation_sym; exact E|now left]).
      split.
      * intro Hl. exact (nodup_app_disj _ _ _ z Hnd Hin Hl).
      * apply (issued_in_range (a_next (h_a s))); [exact Hn|]. apply Hiss. apply in_or_app. now left.
    + destruct (a_next (h_a s) =? zlimit) eqn:El; [discriminate|]. apply Z.eqb_neq in El.
      inversion H; subst. split.
      * intro Hl. assert (Hi : issued (a_next (h_a s)) (a_next (h_a s))) by (apply Hiss; apply in_or_app; now right).
        revert Hi. apply not_issued_next. exact Hn.
      * unfold next_ok, zlimit in *. lia.
  - intros pick a' H. unfold alloc in H.
    destruct (pop_nth pick (a_free (h_a s))) as [[z0 f']|] eqn:E; [discriminate|].
    apply pop_nth_none in E.
    destruct (a_next (h_a s) =? zlimit) eqn:El; [|discriminate]. apply Z.eqb_eq in El.
    inversion H; subst. split; [reflexivity|]. split; [exact El|].
    intros z Hz Hr. assert (Hi : issued (a_next (h_a s)) z).
    { unfold issued. rewrite El. unfold zlimit in *. simpl. lia. }
    apply Hiss in Hi. rewrite E in Hi. exact Hi.
Qed.

Lemma z_distinct_in_range_lemma : forall h : list aev, alloc_safe (hist_run h).
Proof. intro h. apply inv_alloc_safe, inv_run. Qed.

(** one allocator for the whole class tree *)
Lemma z_distinct_across_classes_lemma : forall h : list aevc,
  alloc_safe (hist_run_classes h)
  /\ (forall h', map forget_class h' = map forget_class h -> hist_run_classes h' = hist_run_classes h).
Proof.
  intro h. split; [apply z_distinct_in_range_lemma|].
  intros h' E. unfold hist_run_classes. rewrite E. reflexivity.
Qed.

(** widgets of UrwidImage (class 0), of a subclass (1) and of a sub-subclass (2) created in
    turn get 1, -1, 2, -2: no class starts a progression of its own *)
Example alloc_across_classes :
  h_live (hist_run_classes [CNewOf 0 0; CNewOf 1 0; CNewOf 0 0; CNewOf 2 0])
  = [(3%nat, -2); (2%nat, 2); (1%nat, -1); (0%nat, 1)].
Proof. vm_compute. reflexivity. Qed.

(** the progression is the documented one: 1, -1, 2, -2, 3 *)
Example alloc_order :
  map (fun e => snd e) (h_live (hist_run [ANew 0; ANew 0; ANew 0; ANew 0; ANew 0])) = [3; -2; 2; -1; 1].
Proof. vm_compute. reflexivity. Qed.

(** a freed index is handed out again, and only after it was freed; non-vacuity of the
    history semantics: widget 1 (z = -1) finalised, the next widget gets -1 *)
Example alloc_reuse :
  h_live (hist_run [ANew 0; ANew 0; ANew 0; ADel 1; ADel 1; ANew 7]) = [(3%nat, -1); (2%nat, 2); (0%nat, 1)].
Proof. vm_compute. reflexivity. Qed.

(** exhaustion, on the real bound: from the last index of the progression the allocator
    moves to 2^31 and then raises without changing its state *)
Example alloc_exhaustion :
  let s := mk_alloc (- (zlimit - 1)) [] in
  alloc 0 s = (Some (- 2147483647), mk_alloc zlimit [])
  /\ alloc 0 (mk_alloc zlimit []) = (None, mk_alloc zlimit []).
Proof. vm_compute. split; reflexivity. Qed.
