(** * ChunksSrcTie — the generator [Transmission.get_chunks], TRANSLATED from the source on every
    run ([gen/ChunksSrc.v], by [harness/tx/tx_chunks.py]), yields for ALL payloads and chunk sizes
    exactly the chunk list of the model [KittyChunks.chunks] that the C03 framing theorems are
    stated about. *)
From Coq Require Import List Bool Arith.
Import ListNotations.
From TI Require Import model.KittyChunks gen.ChunksSrc.

Section Tie.
  Variable C : Type.

  Lemma loop_is_source : forall fuel size (c nc rest : list C),
    src_chunks_loop fuel size c nc rest = chunk_loop fuel size c nc rest.
  Proof.
    induction fuel as [|fuel IH]; intros size c nc rest; cbn [src_chunks_loop chunk_loop].
    - reflexivity.
    - destruct (nonempty nc); [|reflexivity].
      unfold read. rewrite IH. reflexivity.
  Qed.

  Theorem get_chunks_is_source : forall size (payload : list C),
    src_get_chunks size payload = chunks size payload.
  Proof.
    intros size payload. unfold src_get_chunks, chunks.
    unfold read. rewrite loop_is_source. reflexivity.
  Qed.
End Tie.
