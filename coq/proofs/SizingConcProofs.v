(** C04 — overlapping renders of one image: the size setting survives EVERY interleaving of
    any number of renders (and of terminal resizes) under the code's restore rule
    ("write back only a saved DYNAMIC value"), and does not under the rule "write back
    whatever was saved".  No float reasoning: every [FloatArith]. *)
From Coq Require Import ZArith List Bool Lia Arith.
Import ListNotations.
From TI Require Import lib.FArith model.Sizing model.SizingConc.
Open Scope Z_scope.

(* ------------------------------------------------------------------ lists *)
Section Upd.
Context {A : Type}.
Lemma upd_length : forall (l : list A) i x, length (upd i x l) = length l.
Proof. induction l as [|y r IH]; intros [|k] x; cbn; auto. Qed.

Lemma nth_error_upd_same : forall (l : list A) i x p,
  nth_error l i = Some p -> nth_error (upd i x l) i = Some x.
Proof.
  induction l as [|y r IH]; intros [|k] x p H; cbn in *; try discriminate; auto.
  eapply IH; eauto.
Qed.

Lemma nth_error_upd_other : forall (l : list A) i j x,
  i <> j -> nth_error (upd i x l) j = nth_error l j.
Proof.
  induction l as [|y r IH]; intros [|k] [|j] x H; cbn; auto; try congruence.
Qed.

Lemma Forall_upd : forall (P : A -> Prop) (l : list A) i x,
  Forall P l -> P x -> Forall P (upd i x l).
Proof.
  induction l as [|y r IH]; intros [|k] x Hl Hx; cbn; auto; inversion Hl; subst; constructor; auto.
Qed.

Lemma Exists_upd_keep : forall (P : A -> Prop) (l : list A) i x p,
  Exists P l -> nth_error l i = Some p -> (P p -> P x) -> Exists P (upd i x l).
Proof.
  induction l as [|y r IH]; intros [|k] x p He Hn Hp; cbn in *; try discriminate.
  - inversion Hn; subst. inversion He; subst; [left; auto | right; auto].
  - inversion He; subst; [left; auto | right; eapply IH; eauto].
Qed.

Lemma last_cons_default : forall (l : list A) x d1 d2, last (x :: l) d1 = last (x :: l) d2.
Proof.
  induction l as [|y r IH]; intros x d1 d2; [reflexivity|].
  change (last (y :: r) d1 = last (y :: r) d2). apply IH.
Qed.

Lemma Exists_upd_new : forall (P : A -> Prop) (l : list A) i x p,
  nth_error l i = Some p -> P x -> Exists P (upd i x l).
Proof.
  induction l as [|y r IH]; intros [|k] x p Hn Hx; cbn in *; try discriminate.
  - left; auto.
  - right; eapply IH; eauto.
Qed.
End Upd.

Section Conc.
Context {FA : FloatArith}.
Variables (fam : family) (ow oh : Z).
Local Notation cstate := (cstate FA).
Local Notation env := (env FA).

(** the fixed size a render computes for the dynamic member [m] under [e] (common.py:1688) *)
Definition fixed_for (e : env) (m : smode) : sizeval :=
  let '(a, b) := valid_size fam e ow oh (DSize m) DNone default_frame in Fixed a b.

Lemma set_size_dyn : forall e cur m,
  fst (set_size fam ow oh e cur (DSize m) DNone default_frame) = fixed_for e m.
Proof.
  intros. unfold fixed_for. cbn [set_size arg_error is_none negb andb].
  destruct (valid_size _ _ _ _ _ _ _). reflexivity.
Qed.

(* ------------------------------------------------------ a dynamic size survives *)
Section Dynamic.
Variable m : smode.
Variable S : env -> Prop.          (* the environments in force at some moment *)

Definition restorer (p : pc) : Prop := p = PFixed (Dyn m) \/ p = PRan (Dyn m).
Definition pc_ok (p : pc) : Prop :=
  match p with
  | PStart | PDone => True
  | PSaved sv => sv = Dyn m
  | PFixed sv | PRan sv => sv = Dyn m \/ exists w h, sv = Fixed w h
  end.
(** a value of [_size] that can occur: the member, or what a render computed for it *)
Definition size_ok (sz : sizeval) : Prop := sz = Dyn m \/ exists e', S e' /\ sz = fixed_for e' m.

(** the invariant: whenever the size is not the dynamic member, some render that SAVED the
    member has still to pass its [finally] *)
Definition K (st : cstate) : Prop :=
  Forall pc_ok (c_pcs st)
  /\ (c_size st = Dyn m
      \/ ((exists e', S e' /\ c_size st = fixed_for e' m) /\ Exists restorer (c_pcs st)))
  /\ Forall (fun p => size_ok (snd p)) (c_seen st).

Lemma fixed_for_not_dyn : forall e x, fixed_for e m <> Dyn x.
Proof. intros e x. unfold fixed_for. destruct (valid_size _ _ _ _ _ _ _). discriminate. Qed.

Lemma gstep_K : forall st g,
  S (c_env st) -> K st -> K (gstep code_restore fam ow oh st g).
Proof.
  intros st g HS (Hpc & Hsz & Hseen). destruct g as [i|c l cell]; [|exact (conj Hpc (conj Hsz Hseen))].
  cbn [gstep]. destruct (nth_error (c_pcs st) i) as [p|] eqn:En; [|exact (conj Hpc (conj Hsz Hseen))].
  assert (Hp : pc_ok p).
  { rewrite Forall_forall in Hpc. apply Hpc. eapply nth_error_In; eauto. }
  assert (Hsok : size_ok (c_size st)).
  { destruct Hsz as [E|[(e' & He' & E) _]]; [left; auto | right; eauto]. }
  destruct p as [|sv|sv|sv|]; cbn [tstep].
  - (* PStart *)
    destruct (c_size st) as [w h|x] eqn:Es; cbn [c_pcs c_size c_seen].
    + split; [apply Forall_upd; auto; cbn; right; eauto|]. split; [|exact Hseen].
      destruct Hsz as [E|[Hf He]]; [discriminate|]. right. split; [exact Hf|].
      eapply Exists_upd_keep; eauto. intros [H|H]; discriminate.
    + destruct Hsz as [E|[(e' & _ & E) _]]; [|exfalso; symmetry in E; eapply fixed_for_not_dyn; eauto].
      inversion E; subst x.
      split; [apply Forall_upd; auto; cbn; auto|]. split; [left; reflexivity | exact Hseen].
  - (* PSaved *)
    cbn in Hp. subst sv. cbn [c_pcs c_size c_seen]. rewrite set_size_dyn.
    split; [apply Forall_upd; auto; cbn; auto|]. split; [|exact Hseen].
    right. split; [eauto|]. eapply Exists_upd_new; eauto. left; reflexivity.
  - (* PFixed: the renderer runs *)
    cbn [c_pcs c_size c_seen].
    split; [apply Forall_upd; auto|]. split.
    + destruct Hsz as [E|[Hf He]]; [left; auto|]. right. split; [exact Hf|].
      eapply Exists_upd_keep; eauto. intros [H|H]; [inversion H; subst; right; reflexivity | discriminate].
    + constructor; auto.
  - (* PRan: the finally clause *)
    cbn [c_pcs c_size c_seen]. unfold code_restore.
    split; [apply Forall_upd; auto; cbn; auto|]. split; [|exact Hseen].
    cbn in Hp. destruct Hp as [E|(w & h & E)]; subst sv; [left; reflexivity|].
    destruct Hsz as [E|[Hf He]]; [left; auto|]. right. split; [exact Hf|].
    eapply Exists_upd_keep; eauto. intros [H|H]; discriminate.
  - (* PDone *)
    cbn [c_pcs c_size c_seen].
    split; [apply Forall_upd; auto; cbn; auto|]. split; [|exact Hseen].
    destruct Hsz as [E|[Hf He]]; [left; auto|]. right. split; [exact Hf|].
    eapply Exists_upd_keep; eauto.
Qed.

Lemma gstep_env : forall R st g,
  c_env (gstep R fam ow oh st g) =
  match g with GThread _ => c_env st | GResize c l cell => @resize FA (c_env st) c l cell end.
Proof.
  intros R st [i|c l cell]; cbn [gstep]; [|reflexivity].
  destruct (nth_error _ _); [|reflexivity]. destruct (tstep _ _ _ _ _ _ _) as [[p' sz] seen]. reflexivity.
Qed.

Lemma envs_of_head : forall gs (e : env), In e (envs_of e gs).
Proof.
  induction gs as [|g r IH]; intros e; cbn; auto. destruct g; cbn; auto.
Qed.

Lemma grun_K : forall gs st,
  (forall e', In e' (envs_of (c_env st) gs) -> S e') -> K st -> K (grun code_restore fam ow oh st gs).
Proof.
  induction gs as [|g r IH]; intros st HS HK; [exact HK|].
  unfold grun. cbn [fold_left]. apply IH.
  - rewrite gstep_env. intros e' He'. apply HS. destruct g; cbn; auto.
  - apply gstep_K; auto. apply HS. apply envs_of_head.
Qed.
End Dynamic.

(** when every render has ended nobody is left to restore: the size is the member *)
Lemma all_done_no_restorer : forall m (st : cstate),
  all_done st = true -> ~ Exists (restorer m) (c_pcs st).
Proof.
  intros m st H He. unfold all_done in H. rewrite forallb_forall in H.
  apply Exists_exists in He. destruct He as (p & Hin & [E|E]); specialize (H p Hin); subst p; discriminate.
Qed.

Lemma cinit_K : forall m (S : env -> Prop) (s : state FA) n,
  st_size s = Dyn m -> K m S (cinit s n).
Proof.
  intros m S s n Hs. unfold K, cinit. cbn. split; [|split; [left; exact Hs | constructor]].
  induction n; cbn; constructor; cbn; auto.
Qed.

(** MAIN: for every number of overlapping renders and EVERY schedule (prefix of an execution
    or a complete one), the size is the dynamic member or a fixed size some render computed
    for it under an environment in force at some moment; once every render has ended it is
    the member; every renderer saw one of those values *)
Lemma conc_dynamic_any_schedule : forall (s : state FA) n gs m,
  st_size s = Dyn m ->
  let st := grun code_restore fam ow oh (cinit s n) gs in
  let S := fun e' => In e' (envs_of (st_env s) gs) in
  size_ok m S (c_size st)
  /\ (all_done st = true -> c_size st = Dyn m)
  /\ (forall i d, seen_of i (c_seen st) = Some d -> size_ok m S d).
Proof.
  intros s n gs m Hs st S.
  assert (HK : K m S st).
  { apply grun_K; [cbn; auto | apply cinit_K; exact Hs]. }
  destruct HK as (_ & Hsz & Hseen). split; [|split].
  - destruct Hsz as [E|[(e' & He' & E) _]]; [left; auto | right; eauto].
  - intros Hd. destruct Hsz as [E|[_ He]]; [exact E|].
    exfalso. eapply all_done_no_restorer; eauto.
  - intros i d. induction (c_seen st) as [|[j x] r IH]; cbn; [discriminate|].
    inversion Hseen; subst. destruct (Nat.eqb i j); [intros E; inversion E; subst; auto | auto].
Qed.

(* ------------------------------------------------------ a fixed size is never touched *)
Definition pc_saved (p : pc) : option sizeval :=
  match p with PSaved sv | PFixed sv | PRan sv => Some sv | _ => None end.

Lemma conc_fixed_any_schedule : forall gs (st : cstate) w h,
  c_size st = Fixed w h ->
  Forall (fun p => forall sv, pc_saved p = Some sv -> sv = Fixed w h) (c_pcs st) ->
  Forall (fun p => snd p = Fixed w h) (c_seen st) ->
  let st' := grun code_restore fam ow oh st gs in
  c_size st' = Fixed w h /\ Forall (fun p => snd p = Fixed w h) (c_seen st').
Proof.
  induction gs as [|g r IH]; intros st w h Hs Hp Hseen; [cbn; auto|].
  unfold grun. cbn [fold_left]. apply IH; clear IH.
  - destruct g as [i|]; cbn [gstep]; auto. destruct (nth_error (c_pcs st) i) as [p|] eqn:En; auto.
    assert (Hpp := proj1 (Forall_forall _ _) Hp p (nth_error_In _ _ En)).
    destruct p as [|sv|sv|sv|]; cbn [tstep]; rewrite ?Hs; cbn [c_size]; auto.
    + rewrite (Hpp sv eq_refl). auto.
    + rewrite (Hpp sv eq_refl). unfold code_restore. auto.
  - destruct g as [i|]; cbn [gstep]; auto. destruct (nth_error (c_pcs st) i) as [p|] eqn:En; auto.
    assert (Hpp := proj1 (Forall_forall _ _) Hp p (nth_error_In _ _ En)).
    destruct p as [|sv|sv|sv|]; cbn [tstep]; rewrite ?Hs; cbn [c_pcs];
      try (rewrite (Hpp sv eq_refl)); apply Forall_upd; auto; cbn; intros sv' E; inversion E; subst; auto;
      apply (Hpp _ eq_refl).
  - destruct g as [i|]; cbn [gstep]; auto. destruct (nth_error (c_pcs st) i) as [p|] eqn:En; auto.
    destruct p as [|sv|sv|sv|]; cbn [tstep]; rewrite ?Hs; cbn [c_seen]; auto.
    + destruct sv; auto.
Qed.

Lemma conc_fixed : forall (s : state FA) n gs w h,
  st_size s = Fixed w h ->
  let st := grun code_restore fam ow oh (cinit s n) gs in
  c_size st = Fixed w h /\ (forall i d, seen_of i (c_seen st) = Some d -> d = Fixed w h).
Proof.
  intros s n gs w h Hs st.
  destruct (conc_fixed_any_schedule gs (cinit s n) w h Hs) as [A B].
  - cbn. induction n; cbn; constructor; auto. cbn. discriminate.
  - constructor.
  - split; [exact A|]. intros i d. fold st in B. induction (c_seen st) as [|[j x] r IH]; cbn; [discriminate|].
    inversion B; subst. destruct (Nat.eqb i j); [intros E; inversion E; subst; auto | auto].
Qed.

(* ------------------------------------------------------ the completion ends every render *)
Definition rank (p : pc) : nat :=
  match p with PStart => 4 | PSaved _ => 3 | PFixed _ => 2 | PRan _ => 1 | PDone => 0 end.

Lemma tstep_rank : forall R (e : env) size p,
  (rank (fst (fst (tstep R fam ow oh e size p))) <= pred (rank p))%nat.
Proof. intros R e size p. destruct p as [|sv|sv|sv|]; cbn; try lia; [destruct size | destruct sv]; cbn; lia. Qed.

(** thread [j] of [st] has at most [k] steps left (or does not exist) *)
Definition left_le (k : nat) (st : cstate) (j : nat) : Prop :=
  match nth_error (c_pcs st) j with Some p => (rank p <= k)%nat | None => True end.

Lemma gstep_other : forall R (st : cstate) i j, i <> j ->
  nth_error (c_pcs (gstep R fam ow oh st (GThread i))) j = nth_error (c_pcs st) j.
Proof.
  intros R st i j H. cbn [gstep]. destruct (nth_error (c_pcs st) i) as [p|]; [|reflexivity].
  destruct (tstep _ _ _ _ _ _ _) as [[p' sz] seen]. cbn [c_pcs]. apply nth_error_upd_other. exact H.
Qed.

Lemma gstep_same : forall R (st : cstate) i k,
  left_le k st i -> left_le (pred k) (gstep R fam ow oh st (GThread i)) i.
Proof.
  intros R st i k H. unfold left_le in *. cbn [gstep].
  destruct (nth_error (c_pcs st) i) as [p|] eqn:En.
  - pose proof (tstep_rank R (c_env st) (c_size st) p) as Hr.
    destruct (tstep _ _ _ _ _ _ _) as [[p' sz] seen]. cbn [c_pcs fst] in *.
    erewrite nth_error_upd_same by eauto. lia.
  - rewrite En. exact I.
Qed.

Lemma gstep_length : forall R (st : cstate) g, length (c_pcs (gstep R fam ow oh st g)) = length (c_pcs st).
Proof.
  intros R st [i|]; cbn [gstep]; [|reflexivity]. destruct (nth_error _ _); [|reflexivity].
  destruct (tstep _ _ _ _ _ _ _) as [[p' sz] seen]. cbn [c_pcs]. apply upd_length.
Qed.

Lemma grun_length : forall R gs (st : cstate), length (c_pcs (grun R fam ow oh st gs)) = length (c_pcs st).
Proof.
  induction gs as [|g r IH]; intros st; [reflexivity|]. unfold grun. cbn [fold_left].
  fold (grun R fam ow oh (gstep R fam ow oh st g) r). rewrite IH. apply gstep_length.
Qed.

Lemma repeat_thread : forall R n (st : cstate) i k j,
  left_le k st j ->
  left_le (if Nat.eqb i j then k - n else k)%nat (grun R fam ow oh st (repeat (GThread i) n)) j.
Proof.
  induction n as [|n IH]; intros st i k j H; cbn [repeat].
  - cbn. destruct (Nat.eqb i j); [replace (k - 0)%nat with k by lia|]; exact H.
  - unfold grun. cbn [fold_left]. fold (grun R fam ow oh (gstep R fam ow oh st (GThread i)) (repeat (GThread i) n)).
    destruct (Nat.eqb i j) eqn:E.
    + apply Nat.eqb_eq in E. subst j. pose proof (IH (gstep R fam ow oh st (GThread i)) i (pred k) i) as G.
      rewrite Nat.eqb_refl in G. replace (k - Datatypes.S n)%nat with (pred k - n)%nat by lia.
      apply G. apply gstep_same. exact H.
    + apply Nat.eqb_neq in E. pose proof (IH (gstep R fam ow oh st (GThread i)) i k j) as G.
      assert (E' : Nat.eqb i j = false) by (apply Nat.eqb_neq; exact E). rewrite E' in G. apply G.
      unfold left_le in *. rewrite gstep_other by exact E. exact H.
Qed.

Lemma left_le_4 : forall (st : cstate) j, left_le 4 st j.
Proof. intros st j. unfold left_le. destruct (nth_error _ _) as [[| | | |]|]; cbn; auto; lia. Qed.

Lemma completion_done : forall R l (st : cstate) j,
  In j l \/ left_le 0 st j ->
  left_le 0 (grun R fam ow oh st (flat_map (fun i => repeat (GThread i) 4) l)) j.
Proof.
  induction l as [|i l IH]; intros st j H; cbn [flat_map].
  - destruct H as [[]|H]; exact H.
  - unfold grun. rewrite fold_left_app.
    fold (grun R fam ow oh st (repeat (GThread i) 4)).
    set (st1 := grun R fam ow oh st (repeat (GThread i) 4)).
    fold (grun R fam ow oh st1 (flat_map (fun i => repeat (GThread i) 4) l)).
    apply IH. destruct (Nat.eq_dec i j) as [E|E].
    + right. subst j. pose proof (repeat_thread R 4 st i 4 i (left_le_4 st i)) as G.
      rewrite Nat.eqb_refl in G. exact G.
    + destruct H as [[H|H]|H]; [contradiction | left; exact H | right].
      pose proof (repeat_thread R 4 st i 0 j H) as G.
      assert (E' : Nat.eqb i j = false) by (apply Nat.eqb_neq; exact E). rewrite E' in G. exact G.
Qed.

Lemma conc_run_all_done : forall R (s : state FA) n sched,
  all_done (conc_run R fam ow oh s n sched) = true.
Proof.
  intros R s n sched. unfold conc_run, all_done. apply forallb_forall. intros p Hin.
  apply In_nth_error in Hin. destruct Hin as [j Hj].
  unfold grun in *. rewrite fold_left_app in *.
  set (st0 := fold_left (gstep R fam ow oh) sched (cinit s n)) in *.
  assert (Hlen : length (c_pcs st0) = n).
  { unfold st0. fold (grun R fam ow oh (cinit s n) sched). rewrite grun_length. cbn. apply repeat_length. }
  fold (grun R fam ow oh st0 (completion n)) in Hj.
  assert (Hlt : (j < n)%nat).
  { rewrite <- Hlen. rewrite <- (grun_length R (completion n) st0). apply nth_error_Some. congruence. }
  pose proof (completion_done R (seq 0 n) st0 j) as G. unfold completion in Hj.
  unfold left_le in G at 2. rewrite Hj in G.
  assert (rank p <= 0)%nat by (apply G; left; apply in_seq; lia).
  destruct p; cbn in *; auto; lia.
Qed.

Lemma envs_of_app_threads : forall gs (e : env) n,
  envs_of e (gs ++ completion n) = envs_of e gs.
Proof.
  assert (T : forall l (e : env), no_env_change l = true -> envs_of e l = [e]).
  { induction l as [|g r IH]; intros e H; [reflexivity|]. destruct g; cbn in *; [auto|discriminate]. }
  assert (C : forall n, no_env_change (completion n) = true).
  { intros n. unfold completion, no_env_change. apply forallb_forall. intros g Hg.
    apply in_flat_map in Hg. destruct Hg as (i & _ & Hg). apply repeat_spec in Hg. subst g. reflexivity. }
  induction gs as [|g r IH]; intros e n; cbn [app envs_of].
  - rewrite T by apply C. reflexivity.
  - destruct g; rewrite IH; reflexivity.
Qed.

Lemma grun_env : forall R gs (st : cstate),
  c_env (grun R fam ow oh st gs) = env_after (c_env st) gs.
Proof.
  intros R. unfold env_after.
  induction gs as [|g r IH]; intros st; [reflexivity|].
  unfold grun. cbn [fold_left]. fold (grun R fam ow oh (gstep R fam ow oh st g) r).
  rewrite IH, gstep_env. destruct g as [i|c l cell]; cbn [envs_of]; [reflexivity|].
  pose proof (envs_of_head r (resize (c_env st) c l cell)) as Hh.
  destruct (envs_of (resize (c_env st) c l cell) r) eqn:E; [destruct Hh|].
  change (last (c_env st :: e :: l0) (c_env st)) with (last (e :: l0) (c_env st)).
  apply last_cons_default.
Qed.

(** THE SECTION AS A WHOLE (what the correspondence executes): any number of renders, any
    schedule, then every render runs to its end — the size setting is what it was *)
Lemma conc_run_restores : forall (s : state FA) n sched,
  let st := conc_run code_restore fam ow oh s n sched in
  c_size st = st_size s /\ c_env st = env_after (st_env s) sched.
Proof.
  intros s n sched st. split.
  - destruct (st_size s) as [w h|m] eqn:Es.
    + apply (conc_fixed s n (sched ++ completion n) w h Es).
    + apply (conc_dynamic_any_schedule s n (sched ++ completion n) m Es). apply conc_run_all_done.
  - unfold st, conc_run. rewrite grun_env. unfold env_after. rewrite envs_of_app_threads.
    cbn [cinit c_env]. destruct (envs_of (st_env s) sched) eqn:E; [reflexivity|].
    reflexivity.
Qed.

Lemma conc_run_seen : forall (s : state FA) n sched i d,
  seen_of i (c_seen (conc_run code_restore fam ow oh s n sched)) = Some d ->
  match st_size s with
  | Fixed w h => d = Fixed w h
  | Dyn m => d = Dyn m \/ exists e', In e' (envs_of (st_env s) sched) /\ d = fixed_for e' m
  end.
Proof.
  intros s n sched i d H. destruct (st_size s) as [w h|m] eqn:Es.
  - eapply (conc_fixed s n (sched ++ completion n) w h Es); eauto.
  - pose proof (conc_dynamic_any_schedule s n (sched ++ completion n) m Es) as (_ & _ & G).
    specialize (G i d H). rewrite envs_of_app_threads in G. exact G.
Qed.

(* ------------------------------------------------------ one render alone = [ORender] *)
Lemma conc_one_is_render : forall (s : state FA) raises,
  let st := conc_run code_restore fam ow oh s 1 [] in
  let r := step fam ow oh s (ORender raises) in
  c_size st = st_size (fst r) /\ c_env st = st_env (fst r)
  /\ seen_of 0 (c_seen st) = o_during (snd r).
Proof.
  intros s raises. cbn [step fst snd st_size st_env mk_obs o_during].
  unfold conc_run, completion, render_after, render_during, grun, cinit.
  cbn [seq flat_map repeat app cinit fold_left].
  destruct (st_size s) as [w h|m] eqn:Es;
    repeat (cbn [gstep nth_error tstep c_pcs c_env c_size c_seen upd code_restore]; rewrite ?Es);
    cbn [seen_of Nat.eqb assign_size fst].
  - auto.
  - rewrite set_size_dyn. auto.
Qed.

End Conc.

(* ------------------------------------------------------ the unconditional restore is excluded *)
Definition ToyFA : FloatArith :=
  {| F := Z; ofZ := fun z => z; fmul := Z.mul; fdiv := Z.div; fltb := Z.ltb; fleb := Z.leb;
     fround := fun z => z; fceil := fun z => z |}.
Definition toy_state : state ToyFA :=
  @Build_state ToyFA (@Build_env ToyFA 80 30 None (Some 1) None) (Dyn FIT).

(** T0 in (save, fix), T1 in (saves the temporary fixed size), T0 out, T1 out *)
Definition overlap : list (@grant) :=
  [GThread 0; GThread 0; GThread 1; GThread 0; GThread 0; GThread 1; GThread 1].

(** "leave the size exactly as it was found": after two overlapping renders the dynamic size is
    a fixed one for good (and does not follow the terminal any more) *)
Example uncond_restore_refuted :
  let st := conc_run uncond_restore Text 100 50 toy_state 2 overlap in
  all_done st = true /\ (exists w h, c_size st = Fixed w h) /\ c_size st <> st_size toy_state.
Proof. vm_compute. split; [reflexivity|]. split; [eauto | discriminate]. Qed.

(** non-vacuity / the same schedule under the code's rule: the size survives; the first
    renderer saw the fixed size, the second one (it ran after the first render's [finally])
    the dynamic member itself *)
Example code_restore_same_schedule :
  let st := conc_run code_restore Text 100 50 toy_state 2 overlap in
  c_size st = Dyn FIT /\ seen_of 1 (c_seen st) = Some (Dyn FIT)
  /\ exists w h, seen_of 0 (c_seen st) = Some (Fixed w h).
Proof. vm_compute. split; [reflexivity|]. split; [reflexivity | eauto]. Qed.

(** nested (LIFO) renders do not separate the two rules — which is why nothing
    single-threaded does *)
Example uncond_restore_nested_ok :
  let nested := [GThread 0; GThread 0; GThread 1; GThread 1; GThread 1; GThread 0; GThread 0] in
  c_size (conc_run uncond_restore Text 100 50 toy_state 2 nested) = Dyn FIT.
Proof. vm_compute. reflexivity. Qed.
