(** C12 — proofs about the reply parsers, x_parse_color and the decision rules. *)
From Coq Require Import Ascii String List ZArith Bool Arith Lia.
Import ListNotations.
From TI Require Import model.Query model.QuerySpec.
Open Scope Z_scope.

Ltac brk :=
  unfold is_hex, is_word, is_digit, is_lower, is_upper, in_range, ver_char in *;
  repeat rewrite ?orb_true_iff, ?andb_true_iff, ?negb_true_iff, ?orb_false_iff, ?andb_false_iff,
    ?Z.leb_le, ?Z.leb_gt, ?Z.eqb_eq, ?Z.eqb_neq in *.

(** ** generic list lemmas *)

Lemma beq_eq a : forall b, beq a b = true <-> a = b.
Proof.
  induction a as [|x a IH]; destruct b as [|y b]; cbn; split; try congruence; try discriminate.
  - intros H. apply andb_true_iff in H as [H1 H2]. apply Z.eqb_eq in H1. apply IH in H2. congruence.
  - intros H. inversion H; subst. rewrite Z.eqb_refl. cbn. now apply IH.
Qed.

Lemma name_is_eq name lit : name_is name lit = true <-> name = Some (bs lit).
Proof.
  unfold name_is. destruct name as [n|]; [|split; discriminate].
  rewrite beq_eq. split; congruence.
Qed.

Lemma strip_app p : forall s, strip p (p ++ s) = Some s.
Proof. induction p as [|x p IH]; intros s; cbn; [reflexivity|]. now rewrite Z.eqb_refl. Qed.

Lemma strip_some p : forall s r, strip p s = Some r -> s = p ++ r.
Proof.
  induction p as [|x p IH]; intros s r H; cbn in *; [congruence|].
  destruct s as [|y s]; [discriminate|]. destruct (Z.eqb_spec x y); [|discriminate].
  subst. f_equal. now apply IH.
Qed.

Lemma starts_with_app p s : starts_with p (p ++ s) = true.
Proof. unfold starts_with. now rewrite strip_app. Qed.

Lemma ends_with_iff suf s : ends_with suf s = true <-> exists p, s = p ++ suf.
Proof.
  unfold ends_with, starts_with. split.
  - destruct (strip (rev suf) (rev s)) eqn:E; [|discriminate]. intros _.
    apply strip_some in E. exists (rev l).
    rewrite <- (rev_involutive s), E, rev_app_distr, rev_involutive. reflexivity.
  - intros [p ->]. rewrite rev_app_distr, strip_app. reflexivity.
Qed.

Definition head_not (p : byte -> bool) (s : list byte) : bool :=
  match s with [] => true | b :: _ => negb (p b) end.

Lemma span_app p : forall a s, forallb p a = true -> head_not p s = true -> span p (a ++ s) = (a, s).
Proof.
  induction a as [|x a IH]; intros s Ha Hs.
  - destruct s as [|b s]; [reflexivity|]. cbn in *. apply negb_true_iff in Hs. now rewrite Hs.
  - cbn. cbn in Ha. apply andb_true_iff in Ha as [Hx Ha]. rewrite Hx, IH; auto.
Qed.

Lemma split_on_nonnil sep s : split_on sep s <> [].
Proof.
  induction s as [|b r IH]; cbn; [discriminate|].
  destruct (split_on sep r); [discriminate|]. destruct (b =? sep); discriminate.
Qed.

Lemma split_on_none sep : forall a, forallb (fun b => negb (b =? sep)) a = true -> split_on sep a = [a].
Proof.
  induction a as [|x a IH]; intros H; cbn; [reflexivity|].
  cbn in H. apply andb_true_iff in H as [Hx Ha]. rewrite IH by auto.
  apply negb_true_iff in Hx. now rewrite Hx.
Qed.

Lemma split_on_app sep : forall a r, forallb (fun b => negb (b =? sep)) a = true ->
  split_on sep (a ++ sep :: r) = a :: split_on sep r.
Proof.
  induction a as [|x a IH]; intros r H; cbn.
  - destruct (split_on sep r) eqn:E; [now apply split_on_nonnil in E|]. now rewrite Z.eqb_refl.
  - cbn in H. apply andb_true_iff in H as [Hx Ha]. rewrite IH by auto.
    apply negb_true_iff in Hx. now rewrite Hx.
Qed.

Lemma forallb_impl {A} (p q : A -> bool) l :
  (forall x, p x = true -> q x = true) -> forallb p l = true -> forallb q l = true.
Proof. intros H. induction l; cbn; auto. rewrite !andb_true_iff. intros [? ?]; auto. Qed.

(** ** x_parse_color *)

Lemma hexval_range b : is_hex b = true -> 0 <= hexval b <= 15.
Proof.
  intros H. unfold hexval. brk.
  destruct (Z.leb_spec 48 b), (Z.leb_spec b 57), (Z.leb_spec 97 b), (Z.leb_spec b 102); cbn; lia.
Qed.

Lemma hexval_digit b : is_hex b = true -> hexval b = hex_digit b.
Proof.
  intros H. brk.
  assert (In b [48;49;50;51;52;53;54;55;56;57;97;98;99;100;101;102;65;66;67;68;69;70]) as Hin.
  { cbn. lia. }
  cbn in Hin. repeat (destruct Hin as [<-|Hin]; [reflexivity|]). contradiction.
Qed.

Lemma hex_fold_acc : forall ds acc,
  fold_left (fun a d => a * 16 + hexval d) ds acc
  = acc * 16 ^ Z.of_nat (length ds) + fold_left (fun a d => a * 16 + hexval d) ds 0.
Proof.
  induction ds as [|d r IH]; intros acc; cbn [fold_left length]; [cbn; lia|].
  rewrite IH. rewrite (IH (0 * 16 + hexval d)). rewrite Nat2Z.inj_succ, Z.pow_succ_r by lia. ring.
Qed.

Lemma hex_int_value ds : forallb is_hex ds = true -> hex_int ds = hex_value ds.
Proof.
  unfold hex_int. induction ds as [|d r IH]; intros H; cbn [fold_left hex_value]; [reflexivity|].
  cbn in H. apply andb_true_iff in H as [Hd Hr]. rewrite hex_fold_acc, IH by auto.
  rewrite hexval_digit by auto. ring.
Qed.

Lemma hex_int_range ds : forallb is_hex ds = true -> 0 <= hex_int ds <= 16 ^ Z.of_nat (length ds) - 1.
Proof.
  unfold hex_int. induction ds as [|d r IH]; intros H; cbn [fold_left length]; [cbn; lia|].
  cbn in H. apply andb_true_iff in H as [Hd Hr]. specialize (IH Hr).
  rewrite hex_fold_acc. pose proof (hexval_range d Hd).
  rewrite Nat2Z.inj_succ, Z.pow_succ_r by lia.
  assert (0 < 16 ^ Z.of_nat (length r)) by (apply Z.pow_pos_nonneg; lia). nia.
Qed.

Lemma pow16_gt1 n : (0 < n)%nat -> 1 < 16 ^ Z.of_nat n.
Proof.
  intros H. destruct n; [lia|]. rewrite Nat2Z.inj_succ, Z.pow_succ_r by lia.
  assert (0 < 16 ^ Z.of_nat n) by (apply Z.pow_pos_nonneg; lia). lia.
Qed.

(** every well-formed component, of any width, lands in 0..255 *)
Lemma scale_component_range c : c <> [] -> forallb is_hex c = true ->
  exists v, scale_component c = Some v /\ v = exp_comp c /\ 0 <= v <= 255.
Proof.
  intros Hne Hh. unfold scale_component. destruct c as [|x c']; [congruence|].
  cbn [is_nil]. rewrite Hh. eexists; split; [reflexivity|].
  set (c := x :: c') in *.
  pose proof (hex_int_range c Hh) as Hr.
  assert (Hm : 1 < 16 ^ Z.of_nat (length c)) by (apply pow16_gt1; cbn; lia).
  split; [unfold exp_comp; now rewrite hex_int_value|]. split.
  - apply Z.div_pos; lia.
  - apply Z.div_le_upper_bound; nia.
Qed.

Lemma hex_int_zeros c : Forall (fun d => d = 48) c -> hex_int c = 0.
Proof.
  unfold hex_int. induction 1 as [|d r Hd _ IH]; [reflexivity|]. subst d.
  cbn [fold_left]. exact IH.
Qed.

Lemma hex_int_effs c : Forall (fun d => d = 102 \/ d = 70) c -> hex_int c = 16 ^ Z.of_nat (length c) - 1.
Proof.
  unfold hex_int. induction 1 as [|d r Hd _ IH]; [reflexivity|].
  cbn [fold_left length]. rewrite hex_fold_acc, IH, Nat2Z.inj_succ, Z.pow_succ_r by lia.
  assert (Hx : hexval d = 15) by (destruct Hd; subst d; reflexivity). rewrite Hx.
  generalize (16 ^ Z.of_nat (Datatypes.length r)). intros P. lia.
Qed.

Lemma scale_component_zero c : c <> [] -> Forall (fun d => d = 48) c -> scale_component c = Some 0.
Proof.
  intros Hne H. unfold scale_component. destruct c as [|b c]; [congruence|]. cbn [is_nil].
  replace (forallb is_hex (b :: c)) with true.
  - now rewrite hex_int_zeros.
  - symmetry. apply forallb_forall. intros x Hx. rewrite Forall_forall in H.
    now rewrite (H x Hx).
Qed.

Lemma scale_component_full c : c <> [] -> Forall (fun d => d = 102 \/ d = 70) c ->
  scale_component c = Some 255.
Proof.
  intros Hne H. unfold scale_component. destruct c as [|x c']; [congruence|]. cbn [is_nil].
  set (c := x :: c') in *.
  replace (forallb is_hex c) with true.
  - rewrite hex_int_effs by auto. f_equal.
    assert (Hm : 1 < 16 ^ Z.of_nat (length c)) by (apply pow16_gt1; cbn; lia).
    rewrite Z.mul_comm. apply Z.div_mul. lia.
  - symmetry. apply forallb_forall. intros y Hy. rewrite Forall_forall in H.
    destruct (H y Hy); subst y; reflexivity.
Qed.

Lemma hex_not_sep c sep : (sep = 47 \/ sep = 58) -> forallb is_hex c = true ->
  forallb (fun b => negb (b =? sep)) c = true.
Proof.
  intros Hs. apply forallb_impl. intros x Hx. brk. lia.
Qed.

Definition rgb_spec (r g b : list byte) : list byte := bs "rgb:" ++ r ++ [47] ++ g ++ [47] ++ b.

Lemma x_parse_color_components r g b :
  forallb is_hex r = true -> forallb is_hex g = true -> forallb is_hex b = true ->
  x_parse_color (rgb_spec r g b)
  = match scale_component r, scale_component g, scale_component b with
    | Some x, Some y, Some z => Some (x, y, z)
    | _, _, _ => None
    end.
Proof.
  intros Hr Hg Hb. unfold x_parse_color, rgb_spec.
  change (after_first 58 (bs "rgb:" ++ r ++ [47] ++ g ++ [47] ++ b))
    with (r ++ 47 :: g ++ 47 :: b).
  rewrite split_on_app by (apply hex_not_sep; auto).
  rewrite split_on_app by (apply hex_not_sep; auto).
  rewrite split_on_none by (apply hex_not_sep; auto).
  cbn [map]. destruct (scale_component r), (scale_component g), (scale_component b); reflexivity.
Qed.

(** x_parse_color_range: each component of 1 or more hex digits — its OWN width — is
    scaled into 0..255 *)
Lemma x_parse_color_range_lemma r g b :
  r <> [] -> g <> [] -> b <> [] ->
  forallb is_hex r = true -> forallb is_hex g = true -> forallb is_hex b = true ->
  exists x y z,
    x_parse_color (rgb_spec r g b) = Some (x, y, z) /\
    (x, y, z) = (exp_comp r, exp_comp g, exp_comp b) /\
    0 <= x <= 255 /\ 0 <= y <= 255 /\ 0 <= z <= 255.
Proof.
  intros Nr Ng Nb Hr Hg Hb. rewrite x_parse_color_components by auto.
  destruct (scale_component_range r Nr Hr) as (x & -> & Ex & Rx).
  destruct (scale_component_range g Ng Hg) as (y & -> & Ey & Ry).
  destruct (scale_component_range b Nb Hb) as (z & -> & Ez & Rz).
  exists x, y, z. subst. auto.
Qed.

Definition all_zero (c : list byte) : Prop := Forall (fun d => d = 48) c.
Definition all_f (c : list byte) : Prop := Forall (fun d => d = 102 \/ d = 70) c.

(** x_parse_color_exact_ends: per component, independently of the other two *)
Lemma x_parse_color_exact_ends_lemma r g b x y z :
  r <> [] -> g <> [] -> b <> [] ->
  forallb is_hex r = true -> forallb is_hex g = true -> forallb is_hex b = true ->
  x_parse_color (rgb_spec r g b) = Some (x, y, z) ->
  (all_zero r -> x = 0) /\ (all_f r -> x = 255) /\
  (all_zero g -> y = 0) /\ (all_f g -> y = 255) /\
  (all_zero b -> z = 0) /\ (all_f b -> z = 255).
Proof.
  intros Nr Ng Nb Hr Hg Hb. rewrite x_parse_color_components by auto.
  destruct (scale_component r) as [x'|] eqn:Er; [|discriminate].
  destruct (scale_component g) as [y'|] eqn:Eg; [|discriminate].
  destruct (scale_component b) as [z'|] eqn:Eb; [|discriminate].
  intros H; inversion H; subst x' y' z'.
  repeat split; intros Hz.
  - rewrite scale_component_zero in Er by auto. congruence.
  - rewrite scale_component_full in Er by auto. congruence.
  - rewrite scale_component_zero in Eg by auto. congruence.
  - rewrite scale_component_full in Eg by auto. congruence.
  - rewrite scale_component_zero in Eb by auto. congruence.
  - rewrite scale_component_full in Eb by auto. congruence.
Qed.

(** the behaviour before the repair (scale of the FIRST component applied to all three),
    kept to record the refutation: _ctlseqs.py:268-271 at 621a044 *)
Definition x_parse_color_first_scale (spec : list byte) : option (Z * Z * Z) :=
  match split_on 47 (after_first 58 spec) with
  | [r; g; b] =>
      if forallb (fun c => negb (is_nil c) && forallb is_hex c) [r; g; b] then
        let m := 16 ^ Z.of_nat (length r) - 1 in
        Some (hex_int r * 255 / m, hex_int g * 255 / m, hex_int b * 255 / m)
      else None
  | _ => None
  end.
Example F7_first_scale_refuted :
  x_parse_color_first_scale (bs "rgb:f/ff/fff") = Some (255, 4335, 69615) /\
  x_parse_color (bs "rgb:f/ff/fff") = Some (255, 255, 255).
Proof. split; vm_compute; reflexivity. Qed.

(** ** reply parsers are total on the reply grammars (and return what was printed) *)

Lemma wf_digits_facts d : wf_digits d = true -> d <> [] /\ forallb is_digit d = true.
Proof.
  unfold wf_digits, nonempty. intros H. apply andb_true_iff in H as [H1 H2].
  split; auto. destruct d; [discriminate|congruence].
Qed.

Lemma is_nil_false {A} (l : list A) : l <> [] -> is_nil l = false.
Proof. destruct l; [congruence|reflexivity]. Qed.

Lemma parse_xtwinops_print n hw rest : wf_winops hw = true ->
  parse_xtwinops n (print_winops n hw ++ rest) = Some (dec_int (fst hw), dec_int (snd hw)).
Proof.
  destruct hw as [h w]. unfold wf_winops. cbn [fst snd]. intros H.
  apply andb_true_iff in H as [Hh Hw].
  apply wf_digits_facts in Hh as [Nh Dh]. apply wf_digits_facts in Hw as [Nw Dw].
  unfold parse_xtwinops, print_winops. cbn [fst snd]. rewrite <- !app_assoc.
  rewrite (app_assoc CSI). rewrite strip_app. rewrite span_app; auto. rewrite is_nil_false by auto.
  cbn [app]. rewrite span_app; auto. now rewrite is_nil_false by auto.
Qed.

(** XTVERSION *)
Lemma ver_match_app tail : ver_tail_ok tail = true -> ver_match tail = None ->
  forall v, v <> [] -> forallb ver_char v = true -> ver_match (v ++ tail) = Some v.
Proof.
  intros Hok Hnone. induction v as [|c v IH]; intros Hne Hv; [congruence|].
  cbn in Hv. apply andb_true_iff in Hv as [Hc Hv]. cbn [app ver_match]. rewrite Hc.
  destruct v as [|c' v'].
  - cbn [app]. now rewrite Hnone, Hok.
  - rewrite IH; auto. discriminate.
Qed.

(** what may follow the reply: nothing, or a CSI (the DA1 reply) *)
Definition follow_ok (f : list byte) : Prop := f = [] \/ exists r, f = 27 :: 91 :: r.

Lemma parse_xtversion_print x follow : wf_xtv x = true -> follow_ok follow ->
  parse_xtversion (print_xtv x ++ follow) = Some (x_name x, x_ver x).
Proof.
  unfold wf_xtv, nonempty. intros H Hf.
  repeat (apply andb_true_iff in H as [H ?]).
  unfold parse_xtversion, print_xtv. rewrite <- !app_assoc.
  rewrite (app_assoc DCS). rewrite strip_app.
  rewrite span_app; auto.
  2:{ cbn. destruct (x_open x); reflexivity. }
  rewrite is_nil_false by (destruct (x_name x); [discriminate|congruence]).
  cbn [app].
  replace (((if x_open x then 40 else 32) =? 40) || ((if x_open x then 40 else 32) =? 32))
    with true by (destruct (x_open x); reflexivity).
  rewrite ver_match_app; auto.
  - destruct (x_close x), (x_bel x); cbn; try reflexivity.
  - destruct (x_close x); [reflexivity|]. destruct (x_bel x); [|reflexivity].
    cbn [app terminator]. destruct Hf as [->|[r ->]]; reflexivity.
  - destruct (x_ver x); [discriminate|congruence].
Qed.

(** kitty *)
Lemma lazy_message_print rest : forall m, m <> [] ->
  forallb (fun b => negb (b =? 27) && negb (b =? 10)) m = true ->
  lazy_message (m ++ ST ++ rest) = Some m.
Proof.
  induction m as [|c m IH]; intros Hne H; [congruence|].
  cbn in H. apply andb_true_iff in H as [Hc Hm]. apply andb_true_iff in Hc as [Hc1 Hc2].
  cbn [app lazy_message]. apply negb_true_iff in Hc2. rewrite Hc2.
  destruct m as [|c' m'].
  - cbn [app]. now rewrite starts_with_app.
  - replace (starts_with ST ((c' :: m') ++ ST ++ rest)) with false.
    + rewrite IH; auto. discriminate.
    + cbn in Hm. apply andb_true_iff in Hm as [Hc' _]. apply andb_true_iff in Hc' as [Hc' _].
      apply negb_true_iff in Hc'. unfold starts_with, ST. cbn [app strip].
      rewrite Z.eqb_sym, Hc'. reflexivity.
Qed.

Lemma parse_kitty_print k rest : wf_kitty k = true ->
  parse_kitty_reply (print_kitty k ++ rest) = Some (k_id k, k_msg k).
Proof.
  unfold wf_kitty. intros H.
  apply andb_true_iff in H as [H H3]. apply andb_true_iff in H as [H H1].
  apply andb_true_iff in H as [H H2]. unfold nonempty in H1.
  apply wf_digits_facts in H as [Nid Did].
  unfold parse_kitty_reply, print_kitty. rewrite <- !app_assoc.
  rewrite (app_assoc APC). rewrite strip_app.
  assert (Hm : k_msg k <> []) by (destruct (k_msg k); [discriminate|congruence]).
  rename H3 into H0.
  destruct (k_num k) as [n|].
  - apply wf_digits_facts in H2 as [Nn Dn].
    rewrite span_app; auto. rewrite is_nil_false by auto.
    rewrite <- !app_assoc. rewrite strip_app. cbn [app].
    rewrite span_app; auto. rewrite is_nil_false by auto.
    now rewrite lazy_message_print.
  - cbn [app]. rewrite span_app; auto. rewrite is_nil_false by auto.
    cbn [strip bs list_ascii_of_string map]. cbn.
    change (27 :: 92 :: rest) with (ST ++ rest).
    now rewrite lazy_message_print.
Qed.

(** rgb replies *)
Lemma st_or_bel_terminator bel rest :
  st_or_bel (terminator bel ++ rest) = Some (length (terminator bel)).
Proof. destruct bel; reflexivity. Qed.

Definition rgb_body (r : rgb_reply) : list byte := c_r r ++ [47] ++ c_g r ++ [47] ++ c_b r.

Lemma wf_comp_facts c : wf_comp c = true -> c <> [] /\ forallb is_hex c = true.
Proof.
  unfold wf_comp. intros H. apply andb_true_iff in H as [H H2]. apply andb_true_iff in H as [H H1].
  split; auto. destruct c; [discriminate|congruence].
Qed.

Lemma wf_rgb_facts r : wf_rgb r = true ->
  (c_r r <> [] /\ forallb is_hex (c_r r) = true) /\
  (c_g r <> [] /\ forallb is_hex (c_g r) = true) /\
  (c_b r <> [] /\ forallb is_hex (c_b r) = true).
Proof.
  unfold wf_rgb. intros H. apply andb_true_iff in H as [H H3]. apply andb_true_iff in H as [H1 H2].
  repeat split; now apply wf_comp_facts.
Qed.

Lemma match_rgb_print n r rest : wf_digits n = true -> wf_rgb r = true ->
  head_not (fun b => is_hex b || (b =? 47)) (terminator (c_bel r) ++ rest) = true /\
  match_rgb_at (print_rgb n r ++ rest)
  = Some ((n, bs "rgb:" ++ rgb_body r), length (print_rgb n r)).
Proof.
  intros Hn Hr. apply wf_digits_facts in Hn as [Nn Dn].
  apply wf_rgb_facts in Hr as ([N1 H1] & [N2 H2] & [N3 H3]).
  assert (Hhead : head_not (fun b => is_hex b || (b =? 47)) (terminator (c_bel r) ++ rest) = true)
    by (destruct (c_bel r); reflexivity).
  split; [exact Hhead|].
  unfold match_rgb_at, print_rgb. rewrite <- !app_assoc. rewrite strip_app.
  rewrite span_app; auto. rewrite is_nil_false by auto.
  change (bs ";rgb:" ++ ?x) with (59 :: bs "rgb:" ++ x).
  cbv beta iota. rewrite strip_app.
  assert (Hb : forallb (fun b => is_hex b || (b =? 47)) (rgb_body r) = true).
  { unfold rgb_body. rewrite !forallb_app. cbn.
    rewrite !(forallb_impl is_hex (fun b => is_hex b || (b =? 47))); auto;
      intros; apply orb_true_iff; now left. }
  replace (c_r r ++ [47] ++ c_g r ++ [47] ++ c_b r ++ terminator (c_bel r) ++ rest)
    with (rgb_body r ++ terminator (c_bel r) ++ rest)
    by (unfold rgb_body; now rewrite <- !app_assoc).
  rewrite span_app; auto.
  rewrite is_nil_false by (unfold rgb_body; destruct (c_r r); [congruence|discriminate]).
  rewrite st_or_bel_terminator. do 2 f_equal.
  unfold rgb_body. change (59 :: bs "rgb:" ++ ?x) with ((59 :: bs "rgb:") ++ x).
  rewrite !app_length. change (length OSC) with 2%nat.
  change (length (59 :: bs "rgb:")) with 5%nat. cbn [length]. lia.
Qed.

Lemma findall_skip rest : forall a, findall_rgb (a ++ rest) (length a) = findall_rgb rest 0.
Proof.
  induction a as [|x a IH]; cbn [app length].
  - destruct rest; reflexivity.
  - cbn [findall_rgb]. exact IH.
Qed.

Lemma findall_print n r rest : wf_digits n = true -> wf_rgb r = true ->
  findall_rgb (print_rgb n r ++ rest) 0 = (n, bs "rgb:" ++ rgb_body r) :: findall_rgb rest 0.
Proof.
  intros Hn Hr. destruct (match_rgb_print n r rest Hn Hr) as [_ E].
  remember (print_rgb n r) as u eqn:Eu. destruct u as [|x u'].
  { unfold print_rgb in Eu. discriminate. }
  cbn [app findall_rgb]. cbn [app] in E. rewrite E. cbn [length Nat.pred].
  f_equal. apply findall_skip.
Qed.

Lemma x_parse_color_wf r : wf_rgb r = true -> x_parse_color (bs "rgb:" ++ rgb_body r) = Some (exp_rgb r).
Proof.
  intros Hr. apply wf_rgb_facts in Hr as ([N1 H1] & [N2 H2] & [N3 H3]).
  destruct (x_parse_color_range_lemma (c_r r) (c_g r) (c_b r)) as (x & y & z & E & Ev & _); auto.
  unfold rgb_spec in E. unfold rgb_body. rewrite E. unfold exp_rgb. now rewrite Ev.
Qed.

(** ** version tuples and the decision rules *)

Lemma tuple_geb_lex a : forall b, tuple_geb a b = false <-> lex_lt a b.
Proof.
  induction a as [|x a IH]; intros b; destruct b as [|y b]; cbn.
  - split; [discriminate|inversion 1].
  - split; [constructor|reflexivity].
  - split; [discriminate|inversion 1].
  - destruct (Z.ltb_spec y x).
    + split; [discriminate|]. inversion 1; subst; [lia|lia].
    + destruct (Z.ltb_spec x y).
      * split; [constructor; auto|reflexivity].
      * assert (x = y) by lia. subst y. rewrite IH. split; [now constructor|].
        inversion 1; subst; [lia|auto].
Qed.

Lemma tuple_geb_ge a b : tuple_geb a b = true <-> lex_ge a b.
Proof.
  unfold lex_ge. rewrite <- tuple_geb_lex. destruct (tuple_geb a b); split; congruence.
Qed.

Lemma kitty_rule_lemma name version resp :
  kitty_supported name version resp = true <-> kitty_rule_prop name version (kitty_reply_ok resp).
Proof.
  unfold kitty_supported, kitty_rule_prop, kitty_version_rule, dotted. split.
  - destruct (name_is name "iterm2") eqn:Ei; [discriminate|].
    intros H. apply andb_true_iff in H as [Hok Hv]. split; [exact Hok|].
    destruct (name_is name "kitty" && truthy version) eqn:Ek.
    + apply andb_true_iff in Ek as [Ek Et]. apply name_is_eq in Ek. left. split; [exact Ek|].
      destruct version as [v|]; [|discriminate].
      destruct (version_tuple v) as [t|] eqn:Evt; [|discriminate].
      exists v, t. repeat split; auto. now apply tuple_geb_ge.
    + right. now apply name_is_eq.
  - intros [Hok [[Hn (v & t & Hv & Hd & Hge)] | Hn]].
    + subst name version. cbn [name_is]. rewrite Hok.
      replace (beq (bs "kitty") (bs "iterm2")) with false by reflexivity.
      replace (beq (bs "kitty") (bs "kitty")) with true by reflexivity.
      cbn [andb]. rewrite Hd.
      assert (truthy (Some v) = true) as ->.
      { destruct v; [vm_compute in Hd; discriminate|reflexivity]. }
      now apply tuple_geb_ge.
    + subst name. cbn [name_is]. rewrite Hok.
      replace (beq (bs "konsole") (bs "iterm2")) with false by reflexivity.
      replace (beq (bs "konsole") (bs "kitty")) with false by reflexivity.
      reflexivity.
Qed.

Lemma kitty_reply_ok_iff resp :
  kitty_reply_ok resp = true <->
  exists r, resp = Some r /\ parse_kitty_reply r = Some (bs "31", bs "OK").
Proof.
  unfold kitty_reply_ok. split.
  - destruct resp as [[|x r]|]; try discriminate.
    destruct (parse_kitty_reply (x :: r)) as [[id msg]|] eqn:E; [|discriminate].
    intros H. apply andb_true_iff in H as [H1 H2]. apply beq_eq in H1, H2. subst.
    eexists; split; [reflexivity|exact E].
  - intros (r & -> & E). destruct r as [|x r]; [vm_compute in E; discriminate|].
    rewrite E. reflexivity.
Qed.

Lemma iterm2_rule_lemma name version :
  iterm2_supported name version = Some true <-> iterm2_rule_prop name version.
Proof.
  unfold iterm2_supported, iterm2_rule_prop, dotted. split.
  - destruct (name_is name "iterm2") eqn:E1.
    { intros _. left. now apply name_is_eq. }
    destruct (name_is name "konsole") eqn:E2.
    + cbn [orb negb]. apply name_is_eq in E2. intros H. right; right. split; [exact E2|].
      destruct version as [v|]; [|discriminate].
      destruct (version_tuple v) as [t|] eqn:Ev; [|discriminate].
      inversion H. exists v, t. repeat split; auto. now apply tuple_geb_ge.
    + destruct (name_is name "wezterm") eqn:E3; cbn [orb negb]; [|discriminate].
      intros _. right; left. now apply name_is_eq.
  - intros [->|[->|[-> (v & t & -> & Hd & Hge)]]]; cbn [name_is].
    + reflexivity.
    + reflexivity.
    + replace (beq (bs "konsole") (bs "iterm2")) with false by reflexivity.
      replace (beq (bs "konsole") (bs "konsole")) with true by reflexivity.
      cbn [orb negb]. rewrite Hd. f_equal. now apply tuple_geb_ge.
Qed.

Lemma auto_table k i b :
  (auto_style k i b = Kitty <-> k = true) /\
  (auto_style k i b = Iterm2 <-> k = false /\ i = true) /\
  (auto_style k i b = Block <-> k = false /\ i = false).
Proof. destruct k, i; cbn; repeat split; intros; try discriminate; try tauto; destruct H; discriminate. Qed.

(** dotted-decimal versions are understood: "0.26.5" -> [0; 26; 5] *)
Example version_examples :
  version_tuple (bs "0.26.5") = Some [0; 26; 5] /\ version_tuple (bs "22.04.0") = Some [22; 4; 0] /\
  version_tuple (bs "0.20.0-dev") = None /\
  tuple_geb [0; 20] [0; 20; 0] = false /\ tuple_geb [0; 100; 0] [0; 20; 0] = true /\
  tuple_geb [1] [0; 20; 0] = true.
Proof. repeat split; vm_compute; reflexivity. Qed.

(** the five reply parsers on the printed reply grammars, in one statement *)
Lemma parsers_total_lemma :
  (forall n r rest, wf_digits n = true -> wf_rgb r = true ->
     findall_rgb (print_rgb n r ++ rest) 0 = (n, bs "rgb:" ++ rgb_body r) :: findall_rgb rest 0) /\
  (forall r, wf_rgb r = true -> x_parse_color (bs "rgb:" ++ rgb_body r) = Some (exp_rgb r)) /\
  (forall x follow, wf_xtv x = true -> follow_ok follow ->
     parse_xtversion (print_xtv x ++ follow) = Some (x_name x, x_ver x)) /\
  (forall n hw rest, wf_winops hw = true ->
     parse_xtwinops n (print_winops n hw ++ rest) = Some (dec_int (fst hw), dec_int (snd hw))) /\
  (forall k rest, wf_kitty k = true ->
     parse_kitty_reply (print_kitty k ++ rest) = Some (k_id k, k_msg k)).
Proof.
  exact (conj findall_print (conj x_parse_color_wf (conj parse_xtversion_print
          (conj parse_xtwinops_print parse_kitty_print)))).
Qed.
