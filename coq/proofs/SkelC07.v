(** Control-flow (effect skeleton) obligations of C07 for the Renderable API
    ([Renderable.draw], [Renderable._animate_]); the old image API is in [SkelC07Old.v].
    Lemmas only: [props/C07.v] combines them with the terminal-side model.

    Configuration [cfg_draw]: every stream write / flush / sleep / frame render may raise
    KeyboardInterrupt or an Exception, before or after taking effect.  [protect p]: every
    finally / except block of draw() AND of the functions it calls is a clean-up block
    ("interrupted at any point before its own clean-up starts"). *)
From Coq Require Import List Bool Arith.
Import ListNotations.
From TI Require Import lib.Eff lib.EffSound lib.EffRun gen.Skeletons.

Definition is_ki (o : outcome) : bool := match o with ORaise KI => true | _ => false end.
Definition is_exc (o : outcome) : bool := match o with ORaise Exc => true | _ => false end.

(** ** Renderable.draw *)

(** at exit of draw(): cursor shown again, terminal attributes as found, frame iterator
    closed, render data finalized -- except on the un-faulted exception raised by
    [_init_render_]'s size validation before draw()'s [try] (left to [RenderData.__del__]) --,
    a still image propagates KeyboardInterrupt, an animation swallows it (unless it hit the
    HIDE_CURSOR write that precedes the animation) *)
Definition draw_post (o : outcome) (s : st) : bool :=
  negb (hidden s) && negb (tmod s) && negb (iter_open s)
  && (negb (unfin s) || (is_exc o && negb (kiseen s) && negb (excseen s)))
  && (get fv_Renderable_draw__animation (vars s) || negb (kiseen s) || is_ki o)
  && (negb (get fv_Renderable_draw__animation (vars s)) || get fv_Renderable_draw__hide_cursor (vars s) || negb (is_ki o)).

Lemma draw_analysis : analyze cfg_draw nv_Renderable_draw (protect sk_Renderable_draw) draw_post = true.
Proof. vm_compute. reflexivity. Qed.

Lemma draw_cleans :
  forall vs, length vs = nv_Renderable_draw ->
  forall o s', eval cfg_draw false (protect sk_Renderable_draw) (init vs) o s' -> draw_post o s' = true.
Proof. exact (analyze_sound _ _ _ _ draw_analysis). Qed.

(** the same in propositional form *)
Lemma draw_cleans_facts :
  forall vs, length vs = nv_Renderable_draw ->
  forall o s', eval cfg_draw false (protect sk_Renderable_draw) (init vs) o s' ->
    hidden s' = false /\ tmod s' = false /\ iter_open s' = false /\
    (unfin s' = false \/ (o = ORaise Exc /\ kiseen s' = false /\ excseen s' = false)) /\
    (get fv_Renderable_draw__animation (vars s') = false -> kiseen s' = true -> o = ORaise KI) /\
    (get fv_Renderable_draw__animation (vars s') = true -> get fv_Renderable_draw__hide_cursor (vars s') = false ->
       o <> ORaise KI).
Proof.
  intros vs Hl o s' He. pose proof (draw_cleans vs Hl o s' He) as H. unfold draw_post in H.
  destruct (hidden s'), (tmod s'), (iter_open s'), (unfin s'), (kiseen s'), (excseen s'),
    (get fv_Renderable_draw__animation (vars s')), (get fv_Renderable_draw__hide_cursor (vars s')), o as [| |[|]];
    simpl in H; try discriminate H;
    repeat split; intros; try reflexivity; try discriminate; try congruence;
    first [left; reflexivity | right; repeat split; reflexivity].
Qed.

(** a frame write cut by KeyboardInterrupt is always followed by the interrupt handler
    (which terminates an open graphics-protocol string); for an Exception raised by a
    frame write the new API has no handler, so this is stated for KeyboardInterrupt only *)
Lemma draw_cut_analysis :
  analyze cfg_draw_ki nv_Renderable_draw (protect sk_Renderable_draw) (fun _ s => negb (cut s)) = true.
Proof. vm_compute. reflexivity. Qed.

Lemma draw_handles_cut_frames :
  forall vs, length vs = nv_Renderable_draw ->
  forall o s', eval cfg_draw_ki false (protect sk_Renderable_draw) (init vs) o s' -> cut s' = false.
Proof.
  intros vs Hl o s' He. apply negb_true_iff.
  exact (analyze_sound _ _ _ _ draw_cut_analysis vs Hl o s' He).
Qed.

(** ** Renderable._animate_ *)

Definition animate_post (o : outcome) (s : st) : bool := negb (is_ki o) && negb (iter_open s).

Lemma animate_analysis :
  analyze cfg_draw nv_Renderable__animate_ (protect sk_Renderable__animate_) animate_post = true.
Proof. vm_compute. reflexivity. Qed.

(** KeyboardInterrupt at any write / flush / sleep / render of an animation is swallowed and
    the frame iterator is closed *)
Lemma animate_swallows_interrupt :
  forall vs, length vs = nv_Renderable__animate_ ->
  forall o s', eval cfg_draw false (protect sk_Renderable__animate_) (init vs) o s' ->
    o <> ORaise KI /\ iter_open s' = false.
Proof.
  intros vs Hl o s' He. pose proof (analyze_sound _ _ _ _ animate_analysis vs Hl o s' He) as H.
  unfold animate_post in H. apply andb_true_iff in H. destruct H as [H1 H2].
  apply negb_true_iff in H1, H2. split; [|assumption]. intros ->. discriminate.
Qed.

(** ** Non-vacuity: an interrupted run exists in which the cursor had been hidden and the
    attributes modified, and which ends clean with KeyboardInterrupt propagating (still) *)
Example draw_interrupted_witness :
  witness cfg_draw KI true (fun s => hidden s && tmod s) (fun s => negb (hidden s) && negb (tmod s) && negb (unfin s))
          (ORaise KI) (protect sk_Renderable_draw) [false; true; true; false; false; false] 120 = true
  \/
  witness cfg_draw KI true (fun s => hidden s && tmod s) (fun s => negb (hidden s) && negb (tmod s) && negb (unfin s))
          ONorm (protect sk_Renderable_draw) (repeat false nv_Renderable_draw) 120 = true.
Proof. vm_compute. auto. Qed.

(** the analysis rejects the defect "cursor hidden before the try" *)
Example analysis_rejects_hide_before_try :
  analyze cfg_draw 0 (sq [Op HideCursor; TryFinally true (sq [Op Render; Op (Write WFrame)]) (Op ShowCursor)])
          (fun _ s => negb (hidden s)) = false.
Proof. vm_compute. reflexivity. Qed.
