(** * IterProofs2 — consequences of the refinement (C08 corollaries) *)
From Coq Require Import List ZArith Bool Lia.
Import ListNotations.
From TI Require Import model.Iter model.IterSpec proofs.IterProofs.
Open Scope Z_scope.

Section Cor.
  Variable RS : Type.
  Variable render : RS -> Z -> whence -> size -> dur -> Z -> rres * RS.
  Variable n : option Z.
  Variable term : size.

  Notation state := (state RS).
  Notation astate := (astate RS).
  Notation step := (step RS render n term).
  Notation spec_step := (spec_step RS render n term).
  Notation spec_next := (spec_next RS render n).
  Notation trace := (trace RS render n term).
  Notation spec_trace := (spec_trace RS render n term).
  Notation run := (run RS render n term).
  Notation spec_run := (spec_run RS render n term).
  Notation render_det := (render_det RS render).
  Notation R := (R RS render n).
  Notation render_outcome := (render_outcome RS render n).
  Notation next_frame := (next_frame RS n).
  Notation next_loop := (next_loop RS n).
  Notation wraps := (wraps RS n).

  Lemma trace_app : forall ops ops' s, trace s (ops ++ ops') = trace s ops ++ trace (run s ops) ops'.
  Proof.
    induction ops as [|o ops IH]; intros ops' s; [reflexivity|].
    cbn [app Iter.trace]. unfold Iter.run; cbn [fold_left]. fold (run (fst (step s o)) ops).
    destruct (step s o) as [s' x]; cbn [fst]. rewrite IH. reflexivity.
  Qed.

  Lemma spec_trace_app : forall ops ops' a,
      spec_trace a (ops ++ ops') = spec_trace a ops ++ spec_trace (spec_run a ops) ops'.
  Proof.
    induction ops as [|o ops IH]; intros ops' a; [reflexivity|].
    cbn [app IterSpec.spec_trace]. unfold IterSpec.spec_run; cbn [fold_left].
    fold (spec_run (fst (spec_step a o)) ops).
    destruct (spec_step a o) as [a' x]; cbn [fst]. rewrite IH. reflexivity.
  Qed.

  Lemma spec_run_app : forall ops ops' a, spec_run a (ops ++ ops') = spec_run (spec_run a ops) ops'.
  Proof. intros. unfold IterSpec.spec_run. apply fold_left_app. Qed.

  (** the condition under which the iterator refines the documented model *)
  Definition refines (c : config) : Prop := cache_decision n (c_cache c) = false \/ render_det.

  (** whatever happened before, the continuation is the documented machine's *)
  Theorem iter_follows_spec_after : forall c rs0 s a ops ops',
      refines c -> mk RS n term c rs0 = inl s -> spec_mk RS n term c rs0 = inl a ->
      trace s (ops ++ ops') = trace s ops ++ spec_trace (spec_run a ops) ops'.
  Proof.
    intros c rs0 s a ops ops' Hm Hs Ha. rewrite trace_app. f_equal.
    apply sim_trace. apply sim_run.
    pose proof (sim_mk RS render n term c rs0 Hm) as H. rewrite Hs, Ha in H. exact H.
  Qed.

  (** ** invariant of the documented machine *)
  Definition wf_n : Prop := match n with Some k => 2 <= k | None => True end.

  Definition spec_inv (a : astate) : Prop :=
    a_closed a = false ->
    a_loop a <> 0 /\ match n with Some k => 0 <= a_next a <= k | None => True end.

  Lemma spec_mk_wf : forall c rs0 a, spec_mk RS n term c rs0 = inl a -> wf_n /\ spec_inv a.
  Proof.
    intros c rs0 a. unfold spec_mk, wf_n, spec_inv.
    destruct n as [k|].
    - destruct (k <? 2) eqn:Ek; [discriminate|].
      destruct (c_loops c =? 0) eqn:El; [discriminate|].
      destruct (match c_cache c with CBool _ => false | CInt v => v <=? 0 end); [discriminate|].
      destruct (c_args c); [|discriminate]. intros H; inversion H; subst; cbn.
      split; [lia|]. intros _. split; [apply Z.eqb_neq; exact El | lia].
    - destruct (c_loops c =? 0) eqn:El; [discriminate|].
      destruct (match c_cache c with CBool _ => false | CInt v => v <=? 0 end); [discriminate|].
      destruct (c_args c); [|discriminate]. intros H; inversion H; subst; cbn.
      split; [exact I|]. intros _. split; [discriminate | exact I].
  Qed.

  Lemma spec_inv_step : forall a o, wf_n -> spec_inv a -> spec_inv (fst (spec_step a o)).
  Proof.
    intros a o Hwf Hi. unfold spec_inv, wf_n in *. unfold IterSpec.spec_step.
    destruct (a_closed a) eqn:Hc; [cbn; rewrite Hc; discriminate|].
    destruct (Hi eq_refl) as [Hl Hn]. clear Hi.
    destruct o; cbn [fst].
    - (* Next *)
      unfold IterSpec.spec_next.
      destruct n as [k|].
      + destruct (k <=? a_next a) eqn:Ew; cbn [andb].
        * destruct (0 <? a_loop a) eqn:Ep.
          -- destruct (a_loop a - 1 =? 0) eqn:E0; [cbn; discriminate|].
             destruct (render (a_rs a) 0 WStart (a_size a) (a_dur a) (a_args a)) as [[f| |e] r'];
               cbn; try discriminate. intros _. split; lia.
          -- assert (E0 : (a_loop a =? 0) = false) by (apply Z.eqb_neq; exact Hl). rewrite E0.
             destruct (render (a_rs a) 0 WStart (a_size a) (a_dur a) (a_args a)) as [[f| |e] r'];
               cbn; try discriminate. intros _. split; lia.
        * destruct (render (a_rs a) (a_next a) WStart (a_size a) (a_dur a) (a_args a)) as [[f| |e] r'];
            cbn; try discriminate. intros _. split; [exact Hl|lia].
      + cbn [andb].
        destruct (render (a_rs a) (a_next a) (a_wh a) (a_size a) (a_dur a) (a_args a)) as [[f| |e] r'];
          cbn; try discriminate. intros _. split; [exact Hl|exact I].
    - (* Seek *)
      destruct n as [k|].
      + unfold seek_target.
        destruct ((0 <=? match w with WStart => off | WCurrent => a_next a + off | WEnd => k - 1 + off end) &&
                  (match w with WStart => off | WCurrent => a_next a + off | WEnd => k - 1 + off end <? k)) eqn:E;
          cbn; [|auto].
        intros _. split; [exact Hl|]. apply andb_true_iff in E. lia.
      + destruct (indefinite_seek_ok off w); cbn; auto.
    - destruct (match d with DStatic ms => ms <=? 0 | DDynamic => false end); cbn; auto.
    - cbn; auto.
    - destruct a0; cbn; auto.
    - cbn; auto.
    - cbn; discriminate.
    - cbn; discriminate.
  Qed.

  Lemma spec_inv_run : forall ops a, wf_n -> spec_inv a -> spec_inv (spec_run a ops).
  Proof.
    induction ops as [|o ops IH]; intros a Hwf Hi; [exact Hi|].
    cbn. apply IH; [exact Hwf|]. apply spec_inv_step; assumption.
  Qed.

  (** ** what one [next] does on the documented machine *)

  (** an open, non-exhausting [next] renders [next_frame] with the current settings and
      leaves the countdown at [next_loop] *)
  Lemma spec_next_outcome : forall a,
      a_closed a = false -> (wraps a && (next_loop a =? 0)) = false ->
      let w := match n with Some _ => WStart | None => a_wh a end in
      snd (spec_step a Next) = render_outcome a (next_frame a) w /\
      a_loop (fst (spec_step a Next)) =
        match fst (render (a_rs a) (next_frame a) w (a_size a) (a_dur a) (a_args a)), n with
        | RStop, None => 0
        | _, _ => next_loop a
        end.
  Proof.
    intros a Hc Hx. unfold IterSpec.spec_step. rewrite Hc. unfold IterSpec.spec_next.
    unfold IterSpec.next_loop, IterSpec.next_frame, IterSpec.render_outcome in *. unfold IterSpec.wraps in *.
    rewrite Hx. cbn zeta.
    destruct (render (a_rs a) (if match n with Some k => k <=? a_next a | None => false end then 0 else a_next a)
                     (match n with Some _ => WStart | None => a_wh a end) (a_size a) (a_dur a) (a_args a))
      as [[f| |e] r'] eqn:Er; cbn; destruct n; cbn; auto.
  Qed.

  (** an exhausting [next]: stop, countdown 0, finalized *)
  Lemma spec_next_exhausts : forall a,
      a_closed a = false -> (wraps a && (next_loop a =? 0)) = true ->
      snd (spec_step a Next) = OStop /\ a_loop (fst (spec_step a Next)) = 0 /\
      a_closed (fst (spec_step a Next)) = true.
  Proof.
    intros a Hc Hx. unfold IterSpec.spec_step. rewrite Hc. unfold IterSpec.spec_next.
    unfold IterSpec.next_loop in *. unfold IterSpec.wraps in *. rewrite Hx. cbn.
    apply andb_true_iff in Hx. destruct Hx as [_ Hx]. apply Z.eqb_eq in Hx. auto.
  Qed.

  (** ** rejected operations and operations on a finalized iterator (on the code model) *)

  Theorem rejected_op_no_change : forall s o e,
      o <> Next -> snd (step s o) = OErr e -> fst (step s o) = s.
  Proof.
    intros s o e Hn H. destruct o; try congruence; cbn in *.
    - unfold seek in *. destruct (closed s); [reflexivity|].
      destruct n as [k|].
      + destruct ((0 <=? match w with WStart => off | WCurrent => fo (rd s) + off | WEnd => k + off - 1 end) &&
                  (match w with WStart => off | WCurrent => fo (rd s) + off | WEnd => k + off - 1 end <? k));
          [discriminate | reflexivity].
      + destruct (whence_eqb w WStart && (off <? 0) || whence_eqb w WEnd && (0 <? off)); [reflexivity|discriminate].
    - unfold set_duration in *. destruct (closed s); [reflexivity|].
      destruct d as [|ms]; [discriminate|]. destruct (ms <=? 0); [reflexivity|discriminate].
    - unfold set_padding in *. destruct (closed s); [reflexivity|discriminate].
    - unfold set_render_args in *. destruct (closed s); [reflexivity|]. destruct a; [discriminate|reflexivity].
    - unfold set_render_size in *. destruct (closed s); [reflexivity|discriminate].
    - discriminate.
    - discriminate.
  Qed.

  Theorem closed_ops_raise : forall s o,
      closed s = true ->
      step s o = (s, match o with Next => OStop | Close | Drop => OOk | _ => OErr EFinalized end).
  Proof.
    intros s o Hc. destruct o; cbn;
      unfold next, seek, set_duration, set_padding, set_render_args, set_render_size, close;
      rewrite Hc; reflexivity.
  Qed.

  (** exactly the documented ranges are rejected: definite sources *)
  Theorem seek_rejected_iff_out_of_range : forall s off w k,
      n = Some k -> closed s = false ->
      (snd (step s (Seek off w)) = OErr EValue <->
       ~ (0 <= match w with WStart => off | WCurrent => fo (rd s) + off | WEnd => k - 1 + off end < k)).
  Proof.
    intros s off w k En Hc. cbn. unfold seek. rewrite Hc, En.
    replace (k - 1 + off) with (k + off - 1) by lia.
    destruct ((0 <=? match w with WStart => off | WCurrent => fo (rd s) + off | WEnd => k + off - 1 end) &&
              (match w with WStart => off | WCurrent => fo (rd s) + off | WEnd => k + off - 1 end <? k)) eqn:E; cbn.
    - apply andb_true_iff in E. split; [discriminate | intros H; exfalso; apply H; lia].
    - apply andb_false_iff in E. split; [intros _; lia | reflexivity].
  Qed.

  (** the iterator never moves the renderable's own current frame *)
  Theorem renderable_frame_untouched : forall ops s, r_frame (run s ops) = r_frame s.
  Proof.
    assert (Hclose : forall s, r_frame (close RS s) = r_frame s).
    { intros s. unfold close. destruct (closed s); reflexivity. }
    assert (Hdel : forall s f, r_frame (fst (deliver RS n s f)) = r_frame s).
    { intros. unfold deliver. reflexivity. }
    assert (Hbody : forall s k, r_frame (fst (body RS render n s k)) = r_frame s).
    { intros s k. unfold body, render_frame.
      destruct (if cached s then match cache s k with Some e => if key_eqb e (rd s) (args s) then Some (ce_frame e) else None | None => None end else None).
      - apply Hdel.
      - destruct (render (rs s) (fo (rd s)) (wh (rd s)) (d_size (rd s)) (d_dur (rd s)) (args s)) as [[f| |e] r'].
        + rewrite Hdel. destruct (cached s); reflexivity.
        + destruct (definite n); cbn [fst]; rewrite Hclose; reflexivity.
        + cbn [fst]. rewrite Hclose. reflexivity. }
    assert (Hstep : forall s o, r_frame (fst (step s o)) = r_frame s).
    { intros s o. destruct o; cbn.
      - unfold next. destruct (closed s); [reflexivity|].
        assert (Hpe : r_frame (fst (pass_end RS render n s)) = r_frame s).
        { unfold pass_end.
          match goal with |- context [if ?b =? 0 then _ else _] => destruct (b =? 0) end.
          - cbn [fst]. rewrite Hclose. destruct (0 <? _); reflexivity.
          - rewrite Hbody. destruct (0 <? _); reflexivity. }
        destruct (phase s).
        + destruct (g_loop s =? 0); [cbn [fst]; apply Hclose|].
          destruct (_ <? _); [apply Hbody | apply Hpe].
        + destruct (_ <? _); [apply Hbody | apply Hpe].
      - unfold seek. destruct (closed s); [reflexivity|]. destruct n.
        + destruct (_ && _); reflexivity.
        + destruct (_ || _); reflexivity.
      - unfold set_duration. destruct (closed s); [reflexivity|]. destruct d; [reflexivity|].
        destruct (_ <=? _); reflexivity.
      - unfold set_padding. destruct (closed s); reflexivity.
      - unfold set_render_args. destruct (closed s); [reflexivity|]. destruct a; reflexivity.
      - unfold set_render_size. destruct (closed s); reflexivity.
      - apply Hclose.
      - apply Hclose. }
    induction ops as [|o ops IH]; intros s; [reflexivity|].
    cbn. fold (run (fst (step s o)) ops). rewrite IH. apply Hstep.
  Qed.
End Cor.
