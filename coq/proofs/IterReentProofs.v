(** * IterReentProofs — C10 with a [close()] called from inside [_render_] (re-entrant)

    For every renderable [render2] (any result, any set of invocations during which it
    calls [iterator.close()]), every configuration and every history. *)
From Coq Require Import List ZArith Bool Lia Arith.
Import ListNotations.
From TI Require Import model.Iter model.IterReent model.IterTie proofs.IterFinalProofs.
Open Scope Z_scope.

Section ReentProofs.
  Variable RS : Type.
  Variable render2 : RS -> Z -> whence -> size -> dur -> Z -> (rres * RS) * bool.
  Variable n : option Z.
  Variable term : size.

  Notation state := (state RS).
  Notation render1 := (render1 RS render2).
  Notation nested := (nested_close RS).
  Notation rnext := (rnext RS render2 n nested).
  Notation rstep := (rstep RS render2 n term nested).
  Notation rrun := (rrun RS render2 n term nested).
  Notation rtrace := (rtrace RS render2 n term nested).
  Notation step := (step RS render1 n term).
  Notation run := (run RS render1 n term).
  Notation trace := (trace RS render1 n term).
  Notation mk := (mk RS n term).

  (** the refused nested [close()] leaves no trace: the machine with the hook is [Iter]
      run on what the renderable returns *)
  Lemma rrender_frame_eq : forall s fno,
      rrender_frame RS render2 n nested s fno = render_frame RS render1 n s fno.
  Proof.
    intros s fno. unfold rrender_frame, render_frame, IterReent.render1, nested_close.
    destruct (render2 (rs s) (fo (rd s)) (wh (rd s)) (d_size (rd s)) (d_dur (rd s)) (args s))
      as [[res rs'] reclose]. cbn [fst]. destruct reclose; reflexivity.
  Qed.

  Lemma rbody_eq : forall s fno, rbody RS render2 n nested s fno = body RS render1 n s fno.
  Proof. intros. unfold rbody, body. rewrite rrender_frame_eq. reflexivity. Qed.

  Lemma rnext_eq : forall s, rnext s = next RS render1 n s.
  Proof.
    intros s. unfold IterReent.rnext, next, rpass_end, pass_end. rewrite !rbody_eq.
    destruct (closed s); [reflexivity|]. destruct (phase s);
      repeat match goal with |- context [rbody _ _ _ _ ?a ?b] => rewrite (rbody_eq a b) end; reflexivity.
  Qed.

  Lemma rstep_eq : forall s o, rstep s o = step s o.
  Proof. intros s o. destruct o; try reflexivity. cbn. apply rnext_eq. Qed.

  Theorem rrun_run : forall ops s, rrun s ops = run s ops.
  Proof.
    induction ops as [|o ops IH]; intros s; [reflexivity|].
    unfold IterReent.rrun, Iter.run; cbn [fold_left]. rewrite rstep_eq. apply IH.
  Qed.

  Theorem rtrace_trace : forall ops s, rtrace s ops = trace s ops.
  Proof.
    induction ops as [|o ops IH]; intros s; [reflexivity|].
    cbn [IterReent.rtrace Iter.trace]. rewrite rstep_eq. destruct (step s o). rewrite IH. reflexivity.
  Qed.

  (** ** the property, for histories with nested close() calls at any renders *)

  Theorem reent_finalize_at_most_once : forall c rs0 s ops,
      mk c rs0 = inl s -> (fin_calls (gh (rrun s ops)) <= 1)%nat.
  Proof. intros. rewrite rrun_run. eapply finalize_at_most_once; eassumption. Qed.

  Theorem reent_finalized_iff_closed : forall c rs0 s ops,
      mk c rs0 = inl s ->
      let s' := rrun s ops in
      owns (gh s') = c_owns c /\
      (closed s' = true -> c_owns c = true -> finalized (gh s') = true /\ fin_calls (gh s') = 1%nat) /\
      (closed s' = true -> c_owns c = false -> finalized (gh s') = false /\ fin_calls (gh s') = 0%nat) /\
      (closed s' = false -> finalized (gh s') = false /\ fin_calls (gh s') = 0%nat).
  Proof. intros c rs0 s ops Hm. cbv zeta. rewrite rrun_run. exact (finalized_iff_closed RS render1 n term c rs0 s ops Hm). Qed.

  Theorem reent_no_render_on_finalized : forall c rs0 s ops,
      mk c rs0 = inl s -> Forall (fun rc => rc_finalized rc = false) (log (gh (rrun s ops))).
  Proof. intros. rewrite rrun_run. eapply no_render_on_finalized; eassumption. Qed.

  (** a [next] during which the renderable called [close()] (or not), after any history:
      - if the render failed (the ValueError of the refused close() propagated, or anything
        else): [next] raises that, the iterator is closed, owned data finalized by exactly
        one call, a caller's data untouched;
      - if it returned a frame (the ValueError was swallowed): the iterator is still open
        and consistent: nothing finalized, and it stays usable. *)
  Theorem reent_next_outcome : forall c rs0 s ops,
      mk c rs0 = inl s ->
      let s0 := rrun s ops in
      let s' := fst (rstep s0 Next) in
      let x := snd (rstep s0 Next) in
      closed s0 = false ->
      (is_frame x = true /\ closed s' = false /\ finalized (gh s') = false /\ fin_calls (gh s') = 0%nat) \/
      (is_end x = true /\ closed s' = true /\
       (if c_owns c then finalized (gh s') = true /\ fin_calls (gh s') = 1%nat
        else finalized (gh s') = false /\ fin_calls (gh s') = 0%nat)).
  Proof.
    intros c rs0 s ops Hm s0 s' x Hc.
    assert (E : s' = rrun s (ops ++ [Next])).
    { unfold s', s0, IterReent.rrun. rewrite fold_left_app. reflexivity. }
    destruct (reent_finalized_iff_closed c rs0 s (ops ++ [Next]) Hm) as (_ & H1 & H2 & H3).
    rewrite <- E in H1, H2, H3.
    unfold x, s' in *. rewrite rstep_eq in *. unfold s0 in *. rewrite rrun_run in *.
    destruct (next_frame_or_end RS render1 n _ Hc) as [Hf | He].
    - left. cbn [Iter.step] in *.
      destruct (closed (fst (next RS render1 n (run s ops)))) eqn:Ec.
      + exfalso. apply (ended_iff_closed RS render1 n term _ Next Hc) in Ec. cbn [Iter.step] in Ec.
        destruct (snd (next RS render1 n (run s ops))); discriminate.
      + destruct (H3 eq_refl). auto.
    - right. cbn [Iter.step] in *.
      assert (Ec : closed (fst (next RS render1 n (run s ops))) = true)
        by (apply (ended_iff_closed RS render1 n term _ Next Hc); exact He).
      split; [exact He|]. split; [exact Ec|].
      destruct (c_owns c); [apply H1 | apply H2]; auto.
  Qed.
End ReentProofs.

(** ** the seeded variant is refuted *)

(** a 3-frame renderable that calls [iterator.close()] during its 2nd render (call number
    1) and lets the ValueError propagate ([true]) or swallows it ([false]) *)
Definition rx_render (propagate : bool) : vr_state -> Z -> whence -> size -> dur -> Z -> (rres * vr_state) * bool :=
  fun st o w sz d a =>
    if Nat.eqb (fst st) 1
    then (if propagate then (RErr 7, (S (fst st), snd st)) else vr_render (Some 3) 5 [] [] false st o w sz d a, true)
    else (vr_render (Some 3) 5 [] [] false st o w sz d a, false).

Definition rx_cfg : config :=
  {| c_loops := 1; c_cache := CBool false; c_size := (1, 1); c_dur := DStatic 1; c_args := Some 0;
     c_pad := PExact 0 0 0 0; c_owns := true; c_frame := 0 |}.

Definition rx_view (s : state vr_state) := (closed s, finalized (gh s), fin_calls (gh s)).
Definition rx_kind (x : out * Z) : Z :=
  match fst x with OFrame f => f_number f | OStop => -1 | OOk => -2 | OErr EFinalized => -3 | OErr _ => -4 end.

(** the code's machine: the failing render closes and finalizes; the swallowed one changes nothing *)
Example nested_close_behaviour :
  match mk vr_state (Some 3) term8030 rx_cfg t_rs0 with
  | inl s =>
    map rx_kind (rtrace vr_state (rx_render true) (Some 3) term8030 (nested_close vr_state) s [Next; Next; Next; Seek 0 WStart])
      = [0; -4; -1; -3]
    /\ rx_view (rrun vr_state (rx_render true) (Some 3) term8030 (nested_close vr_state) s [Next; Next]) = (true, true, 1%nat)
    /\ map rx_kind (rtrace vr_state (rx_render false) (Some 3) term8030 (nested_close vr_state) s [Next; Next; Seek 0 WStart; Next])
      = [0; 1; -2; 0]
    /\ rx_view (rrun vr_state (rx_render false) (Some 3) term8030 (nested_close vr_state) s [Next; Next]) = (false, false, 0%nat)
  | inr _ => False
  end.
Proof. vm_compute. repeat split; reflexivity. Qed.

(** "mark closed first": after the failed render the iterator claims to be closed although
    its data was never finalized; after the swallowed one it claims to be closed
    (FinalizedIteratorError from seek) while next() keeps yielding frames *)
Example flag_first_refuted :
  match mk vr_state (Some 3) term8030 rx_cfg t_rs0 with
  | inl s =>
    rx_view (rrun vr_state (rx_render true) (Some 3) term8030 (nested_close_flag_first vr_state) s [Next; Next; Close; Drop])
      = (true, false, 0%nat)
    /\ map rx_kind (rtrace vr_state (rx_render false) (Some 3) term8030 (nested_close_flag_first vr_state) s
                            [Next; Next; Seek 0 WStart; Close])
      = [0; 1; -3; -2]
    /\ rx_view (rrun vr_state (rx_render false) (Some 3) term8030 (nested_close_flag_first vr_state) s [Next; Next; Close; Drop])
      = (true, false, 0%nat)
  | inr _ => False
  end.
Proof. vm_compute. repeat split; reflexivity. Qed.
