(** Proofs about [model/Block.v]: what the block renderer's token stream does to the
    terminal of [lib/Term.v] (C02, and the block part of C01). *)
From Coq Require Import List ZArith Bool Lia.
Import ListNotations.
From TI Require Import lib.Term lib.TermFacts lib.Rect model.Block.
Open Scope Z_scope.
Local Arguments Z.eqb : simpl never.
Local Arguments Z.ltb : simpl never.

Lemma map_repeat {A B} (f : A -> B) x n : map f (repeat x n) = repeat (f x) n.
Proof. induction n; cbn; congruence. Qed.

Definition vis (ga : glyph * attrs) : option (colour * colour) := visual (VGlyph (fst ga) (snd ga)).

Lemma rgb_eqb_eq x y : rgb_eqb x y = true <-> x = y.
Proof.
  destruct x as [[r1 g1] b1], y as [[r2 g2] b2]. unfold rgb_eqb.
  rewrite !andb_true_iff, !Z.eqb_eq. split.
  - intros [[-> ->] ->]. reflexivity.
  - intros H; inversion H; auto.
Qed.

Section Block.
Variable alpha kitty : bool.
Variable bgcol : option rgb.
Variable split : bool.

Notation update_buffer := (update_buffer alpha kitty bgcol split).
Notation flush_cond := (flush_cond alpha).
Notation line_loop := (line_loop alpha kitty bgcol split).
Notation line := (line alpha kitty bgcol split).
Notation render_lines := (render_lines alpha kitty bgcol split).
Notation render := (render alpha kitty bgcol split).
Notation expect := (expect alpha kitty bgcol).

Definition cexpect (c1 c2 : rgb) (ac1 ac2 : Z) : colour * colour :=
  expect {| p1 := c1; p2 := c2; a1 := ac1; a2 := ac2 |}.

(** [update_buffer] writes [n] identical cells showing the cluster's colours *)
Lemma update_buffer_exec lm c1 c2 ac1 ac2 n t :
  parser t = Ground ->
  exists g a,
    exec lm t (update_buffer c1 c2 ac1 ac2 n) =
    mk (row t) (col t + Z.of_nat n) a t (cell_evs (row t) (col t) (repeat (g, a) n))
    /\ vis (g, a) = Some (cexpect c1 c2 ac1 ac2).
Proof.
  intros Hg. unfold Block.update_buffer, cexpect, Block.expect, transparent; cbn [p1 p2 a1 a2].
  destruct alpha; cbn [andb].
  - destruct (ac1 =? 0) eqn:E1; destruct (ac2 =? 0) eqn:E2; cbn [andb].
    + exists GSpace, adefault. split; [|reflexivity].
      rewrite exec_cons, step_sgr0 by exact Hg. rewrite exec_glyphs by exact Hg.
      rewrite mk_mk. cbn [row col sgr mk]. rewrite text_evs_cells. reflexivity.
    + exists GLower, {| fg := Some c2; bg := None |}. split; [|reflexivity].
      rewrite exec_cons, step_sgr0 by exact Hg. rewrite exec_cons, step_fg by exact Hg.
      rewrite exec_glyphs by exact Hg. rewrite !mk_mk. cbn [row col sgr mk fg bg adefault].
      rewrite text_evs_cells. reflexivity.
    + exists GUpper, {| fg := Some c1; bg := None |}. split; [|reflexivity].
      rewrite exec_cons, step_sgr0 by exact Hg. rewrite exec_cons, step_fg by exact Hg.
      rewrite exec_glyphs by exact Hg. rewrite !mk_mk. cbn [row col sgr mk fg bg adefault].
      rewrite text_evs_cells. reflexivity.
    + set (low := if kitty && is_bg bgcol c2 then nudge c2 else c2).
      destruct (rgb_eqb c1 c2) eqn:Ec.
      * exists GSpace, {| fg := fg (sgr t); bg := Some low |}. split; [|reflexivity].
        rewrite exec_cons, step_bg by exact Hg. rewrite exec_glyphs by exact Hg.
        rewrite mk_mk. cbn [row col sgr mk]. rewrite text_evs_cells. reflexivity.
      * exists GUpper, {| fg := Some c1; bg := Some low |}. split; [|reflexivity].
        rewrite exec_cons, step_bg by exact Hg. rewrite exec_cons, step_fg by exact Hg.
        rewrite exec_glyphs by exact Hg. rewrite !mk_mk. cbn [row col sgr mk fg bg].
        rewrite text_evs_cells. reflexivity.
  - set (low := if kitty && is_bg bgcol c2 then nudge c2 else c2).
    destruct (rgb_eqb c1 c2) eqn:Ec.
    + exists GSpace, {| fg := fg (sgr t); bg := Some low |}. split; [|reflexivity].
      rewrite exec_cons, step_bg by exact Hg. rewrite exec_glyphs by exact Hg.
      rewrite mk_mk. cbn [row col sgr mk]. rewrite text_evs_cells. reflexivity.
    + exists GUpper, {| fg := Some c1; bg := Some low |}. split; [|reflexivity].
      rewrite exec_cons, step_bg by exact Hg. rewrite exec_cons, step_fg by exact Hg.
      rewrite exec_glyphs by exact Hg. rewrite !mk_mk. cbn [row col sgr mk fg bg].
      rewrite text_evs_cells. reflexivity.
Qed.

(** a pixel pair absorbed into the current run looks exactly like the run's head *)
Lemma noflush_same_expect c1 c2 ac1 ac2 p :
  flush_cond c1 c2 ac1 ac2 p = false -> expect p = cexpect c1 c2 ac1 ac2.
Proof.
  unfold Block.flush_cond, cexpect, Block.expect, transparent; cbn [p1 p2 a1 a2].
  destruct p as [q1 q2 b1 b2]; cbn [p1 p2 a1 a2].
  destruct alpha; cbn [andb negb orb].
  - intros H. apply andb_false_iff in H. destruct H as [H|H].
    + (* all four transparent: colours irrelevant *)
      apply negb_false_iff in H. rewrite !andb_true_iff, !Z.eqb_eq in H.
      destruct H as [[[E1 E2] E3] E4]. subst b1 ac1. subst ac2. subst b2.
      cbn. reflexivity.
    + rewrite !orb_false_iff in H. destruct H as [[Hq1 Hq2] [[[Ha Hb] Hc] Hd]].
      apply negb_false_iff, rgb_eqb_eq in Hq1, Hq2. subst q1 q2.
      (* the alpha classes agree *)
      assert (T1 : (b1 =? 0) = (ac1 =? 0)).
      { destruct (b1 =? 0) eqn:X, (ac1 =? 0) eqn:Y; try reflexivity; exfalso.
        - apply Z.eqb_eq in X; apply Z.eqb_neq in Y; subst.
          rewrite andb_true_r in Ha. apply negb_false_iff, Z.eqb_eq in Ha. congruence.
        - apply Z.eqb_neq in X; apply Z.eqb_eq in Y; subst.
          cbn in Hc. apply negb_false_iff, Z.eqb_eq in Hc. congruence. }
      assert (T2 : (b2 =? 0) = (ac2 =? 0)).
      { destruct (b2 =? 0) eqn:X, (ac2 =? 0) eqn:Y; try reflexivity; exfalso.
        - apply Z.eqb_eq in X; apply Z.eqb_neq in Y; subst.
          rewrite andb_true_r in Hb. apply negb_false_iff, Z.eqb_eq in Hb. congruence.
        - apply Z.eqb_neq in X; apply Z.eqb_eq in Y; subst.
          cbn in Hd. apply negb_false_iff, Z.eqb_eq in Hd. congruence. }
      rewrite T1, T2. reflexivity.
  - intros H. rewrite orb_false_r in H. apply orb_false_iff in H. destruct H as [Hq1 Hq2].
    apply negb_false_iff, rgb_eqb_eq in Hq1, Hq2. subst. reflexivity.
Qed.

(** when transparency is off the cluster's alpha values are never looked at *)
Lemma cexpect_noalpha c1 c2 x1 x2 y1 y2 :
  alpha = false -> cexpect c1 c2 x1 x2 = cexpect c1 c2 y1 y2.
Proof. intros H. unfold cexpect, Block.expect, transparent. rewrite H. reflexivity. Qed.

Lemma cexpect_self p x y :
  cexpect (p1 p) (p2 p) (if alpha then a1 p else x) (if alpha then a2 p else y) = expect p.
Proof.
  unfold cexpect, Block.expect, transparent. destruct p as [q1 q2 b1 b2]; cbn [p1 p2 a1 a2].
  destruct alpha; reflexivity.
Qed.

(** the run-length loop: [n] cells pending for the cluster, then the rest of the line *)
Lemma line_loop_exec lm : forall pxs c1 c2 ac1 ac2 n t,
  parser t = Ground ->
  exists cells a,
    exec lm t (line_loop c1 c2 ac1 ac2 n pxs) =
    mk (row t) (col t + Z.of_nat (n + length pxs)) a t (cell_evs (row t) (col t) cells)
    /\ map vis cells =
       repeat (Some (cexpect c1 c2 ac1 ac2)) n ++ map (fun p => Some (expect p)) pxs.
Proof.
  induction pxs as [|p rest IH]; intros c1 c2 ac1 ac2 n t Hg; cbn [Block.line_loop].
  - destruct (update_buffer_exec lm c1 c2 ac1 ac2 n t Hg) as (g & a & E & V).
    exists (repeat (g, a) n), a. split.
    + rewrite E. cbn [length]. rewrite Nat.add_0_r. reflexivity.
    + cbn [map]. rewrite app_nil_r, map_repeat, V. reflexivity.
  - destruct (flush_cond c1 c2 ac1 ac2 p) eqn:Ef.
    + destruct (update_buffer_exec lm c1 c2 ac1 ac2 n t Hg) as (g & a & E & V).
      rewrite exec_app, E.
      set (t1 := mk (row t) (col t + Z.of_nat n) a t (cell_evs (row t) (col t) (repeat (g, a) n))).
      destruct (IH (p1 p) (p2 p) (if alpha then a1 p else ac1) (if alpha then a2 p else ac2)
                   1%nat t1 Hg) as (cells & a' & E' & V').
      exists (repeat (g, a) n ++ cells), a'. split.
      * rewrite E'. subst t1. rewrite mk_mk. cbn [row col mk].
        rewrite cell_evs_app, repeat_length. unfold mk; cbn. f_equal. cbn [length]. lia.
      * rewrite map_app, map_repeat, V, V'. cbn [repeat app map]. do 2 f_equal.
        rewrite cexpect_self. reflexivity.
    + destruct (IH c1 c2 ac1 ac2 (S n) t Hg) as (cells & a' & E' & V').
      exists cells, a'. split.
      * rewrite E'. cbn [length]. f_equal. lia.
      * rewrite V'. cbn [map]. rewrite (noflush_same_expect _ _ _ _ _ Ef).
        replace (S n) with (n + 1)%nat by lia. rewrite repeat_app, <- app_assoc. reflexivity.
Qed.

(** *** dropping the overwritten NUL does not change anything *)
Lemma glyphs_split_last g n : (0 < n)%nat ->
  exists l, glyphs true g n = l ++ [TNul].
Proof.
  induction n as [|n IH]; intros H; [lia|]. cbn [glyphs cell_toks].
  destruct n as [|n].
  - exists [TChar g]. reflexivity.
  - destruct IH as [l El]; [lia|]. rewrite El. exists ([TChar g; TNul] ++ l). reflexivity.
Qed.

Lemma update_buffer_last c1 c2 ac1 ac2 n : split = true -> (0 < n)%nat ->
  exists l, update_buffer c1 c2 ac1 ac2 n = l ++ [TNul].
Proof.
  intros Hs Hn. unfold Block.update_buffer. rewrite Hs.
  repeat match goal with |- context [if ?b then _ else _] => destruct b end;
    match goal with |- context [glyphs true ?g n] =>
      destruct (glyphs_split_last g n Hn) as [l El]; rewrite El end;
    eexists; rewrite ?app_comm_cons; reflexivity.
Qed.

Lemma line_loop_last : forall pxs c1 c2 ac1 ac2 n, split = true -> (0 < n + length pxs)%nat ->
  exists l, line_loop c1 c2 ac1 ac2 n pxs = l ++ [TNul].
Proof.
  induction pxs as [|p rest IH]; intros c1 c2 ac1 ac2 n Hs Hn; cbn [Block.line_loop].
  - cbn in Hn. apply update_buffer_last; [exact Hs|lia].
  - destruct (flush_cond c1 c2 ac1 ac2 p).
    + destruct (IH (p1 p) (p2 p) (if alpha then a1 p else ac1) (if alpha then a2 p else ac2)
                   1%nat Hs) as [l El]; [lia|].
      rewrite El. eexists. rewrite app_assoc. reflexivity.
    + apply IH; [exact Hs|cbn [length] in Hn; lia].
Qed.

Lemma exec_snoc_nul lm t l : parser (exec lm t l) = Ground -> exec lm t (l ++ [TNul]) = exec lm t l.
Proof. intros H. rewrite exec_app. cbn. apply step_nul, H. Qed.

(** *** one line *)
Lemma line_exec lm pxs t :
  parser t = Ground -> pxs <> [] ->
  exists cells a,
    exec lm t (line pxs) =
    mk (row t) (col t + Z.of_nat (length pxs)) a t (cell_evs (row t) (col t) cells)
    /\ map vis cells = map (fun p => Some (expect p)) pxs.
Proof.
  intros Hg Hne. destruct pxs as [|p rest]; [congruence|]. unfold Block.line.
  destruct (line_loop_exec lm (p :: rest) (p1 p) (p2 p) (a1 p) (a2 p) 0%nat t Hg)
    as (cells & a & E & V).
  exists cells, a. split; [|exact V].
  destruct split eqn:Hs; [|exact E].
  destruct (line_loop_last (p :: rest) (p1 p) (p2 p) (a1 p) (a2 p) 0%nat Hs) as [l El];
    [cbn; lia|].
  rewrite Hs in El. rewrite El in *. rewrite removelast_last.
  rewrite exec_app in E. cbn [exec fold_left] in E.
  (* the state before the NUL is in the ground state, so the NUL changes nothing *)
  assert (Hp : parser (fold_left (step lm) l t) = Ground).
  { (* NUL never changes the parser state, in any state *)
    assert (N : forall s, parser (step lm s TNul) = parser s).
    { intros s. unfold step. destruct (parser s) eqn:Ps; cbn; rewrite ?Ps; reflexivity. }
    rewrite <- N. unfold exec in E. rewrite E. exact Hg. }
  rewrite step_nul in E by exact Hp. exact E.
Qed.

(** *** the whole render *)

Lemma render_lines_cons2 r r2 rest :
  render_lines (r :: r2 :: rest) = line r ++ [TSgr0; TLF] ++ render_lines (r2 :: rest).
Proof. reflexivity. Qed.

Lemma render_lines_exec lm w : forall rows t,
  parser t = Ground -> col t = lm -> rows <> [] -> (0 < w)%nat ->
  (forall r, In r rows -> length r = w) ->
  exists cellrows a,
    exec lm t (render_lines rows) =
    mk (row t + Z.of_nat (length rows) - 1) (lm + Z.of_nat w) a t (grid_evs (row t) lm cellrows)
    /\ Forall2 (fun cells pxs => map vis cells = map (fun p => Some (expect p)) pxs) cellrows rows.
Proof.
  induction rows as [|r rest IH]; intros t Hg Hc Hne Hw Hlen; [congruence|].
  assert (Hr : r <> []).
  { intros ->. specialize (Hlen [] (or_introl eq_refl)). cbn in Hlen. lia. }
  destruct (line_exec lm r t Hg Hr) as (cells & a & E & V).
  rewrite (Hlen r (or_introl eq_refl)), Hc in E.
  destruct rest as [|r2 rest'].
  - exists [cells], a. split; [|constructor; [exact V|constructor]].
    cbn [Block.render_lines length grid_evs]. rewrite E. f_equal. lia.
  - rewrite render_lines_cons2. rewrite exec_app, E.
    cbn [app]. rewrite exec_cons, step_sgr0 by exact Hg.
    rewrite exec_cons, step_lf by exact Hg.
    rewrite !mk_mk. cbn [row col sgr mk].
    match goal with |- context [exec lm ?x (render_lines _)] => set (t2 := x) end.
    destruct (IH t2) as (cellrows & a' & E' & F');
      [exact Hg|reflexivity|congruence|exact Hw|intros x Hx; apply Hlen; right; exact Hx|].
    exists (cells :: cellrows), a'. split; [|constructor; assumption].
    rewrite E'. subst t2. rewrite mk_mk. cbn [row mk].
    assert (Hcr : cellrows <> []) by (inversion F'; congruence).
    destruct cellrows as [|c2 cr]; [congruence|].
    cbn [grid_evs app]. unfold mk; cbn. f_equal.
    + cbn [length]. lia.
    + rewrite <- !app_assoc. reflexivity.
Qed.

Theorem render_exec lm w rows t :
  parser t = Ground -> col t = lm -> rows <> [] -> (0 < w)%nat ->
  (forall r, In r rows -> length r = w) ->
  exists cellrows,
    exec lm t (render rows) =
    mk (row t + Z.of_nat (length rows) - 1) (lm + Z.of_nat w) adefault t
       (grid_evs (row t) lm cellrows)
    /\ Forall2 (fun cells pxs => map vis cells = map (fun p => Some (expect p)) pxs) cellrows rows.
Proof.
  intros Hg Hc Hne Hw Hlen. unfold Block.render.
  destruct (render_lines_exec lm w rows t Hg Hc Hne Hw Hlen) as (cellrows & a & E & F).
  exists cellrows. split; [|exact F].
  rewrite exec_app, E. cbn [exec fold_left]. rewrite step_sgr0 by exact Hg.
  rewrite mk_mk, app_nil_r. reflexivity.
Qed.

End Block.

(** ** properties of the specification function itself *)
Lemma expect_opaque_exact alpha bgcol p :
  Block.transparent alpha (a1 p) = false -> Block.transparent alpha (a2 p) = false ->
  Block.expect alpha false bgcol p = (CRgb (p1 p), CRgb (p2 p)).
Proof.
  intros H1 H2. unfold Block.expect. rewrite H1, H2. cbn [andb].
  destruct (rgb_eqb (p1 p) (p2 p)) eqn:E; [|reflexivity].
  apply rgb_eqb_eq in E. rewrite E. reflexivity.
Qed.

Lemma expect_workaround_bounded alpha bgcol p :
  Block.transparent alpha (a1 p) = false -> Block.transparent alpha (a2 p) = false ->
  forall r g b, p2 p = (r, g, b) -> 0 <= r <= 255 ->
  exists r', snd (Block.expect alpha true bgcol p) = CRgb (r', g, b)
             /\ Z.abs (r' - r) <= 1 /\ 0 <= r' <= 255
             /\ (r' <> r -> bgcol = Some (p2 p)).
Proof.
  intros H1 H2 r g b Hp Hr. unfold Block.expect. rewrite H1, H2. cbn [andb snd].
  unfold is_bg. destruct bgcol as [bc|].
  - destruct (rgb_eqb (p2 p) bc) eqn:E.
    + apply rgb_eqb_eq in E. rewrite Hp. cbn [nudge].
      destruct (r <? 255) eqn:Er.
      * apply Z.ltb_lt in Er. exists (r + 1). repeat split; try lia; try congruence.
      * apply Z.ltb_ge in Er. exists (r - 1). repeat split; try lia; try congruence.
    + exists r. rewrite Hp. repeat split; try lia; try congruence.
  - exists r. rewrite Hp. repeat split; try lia; try congruence.
Qed.
