(** * DecideTie — the size-validation decisions of both draw() APIs, TRANSLATED from the source on
    every run ([gen/Decide.v], by [harness/tx/tx_decide.py]), are, for ALL arguments, the model
    decisions [Draw.size_ok] / [Draw.old_size_ok] that the C06 size-rule theorems are about. *)
From Coq Require Import ZArith Bool Lia List.
From TI Require Import lib.Term model.Draw gen.Decide.
Open Scope Z_scope.

Definition accepted (o : option Z) : bool := match o with Some _ => true | None => false end.

(** new API: [Renderable.draw] -> [_init_render_] *)
Theorem size_ok_is_source : forall check_size allow_scroll animation pw ph tw th,
  size_ok check_size allow_scroll animation pw ph tw th =
  accepted (src_init_render_check (src_draw_check_size animation check_size)
                                  (src_draw_allow_scroll animation allow_scroll) pw ph tw th).
Proof.
  intros cs al an pw ph tw th.
  unfold size_ok, src_init_render_check, src_init_render_checked, src_draw_check_size,
    src_draw_allow_scroll, accepted.
  rewrite !Z.gtb_ltb.
  destruct cs, al, an, (tw <? pw), (th <? ph); reflexivity.
Qed.

(** old API: [BaseImage.draw] (padding arguments as given) then [_renderer] (image size);
    the terminal height is never negative *)
Theorem old_size_ok_is_source : forall check_size scroll animation dynamic w h rawW rawH tw th,
  0 <= th ->
  old_size_ok check_size scroll animation dynamic w h rawW rawH tw th =
  accepted (src_old_draw_pad_check animation rawW rawH tw th)
  && accepted (src_old_renderer_check dynamic check_size animation scroll w h tw th).
Proof.
  intros cs sc an dy w h rw rh tw th Hth.
  unfold old_size_ok, src_old_draw_pad_check, src_old_renderer_check, accepted.
  rewrite !Z.gtb_ltb, Z.mul_1_r.
  assert (H0 : (th <? h * 0) = false) by (apply Z.ltb_ge; lia).
  destruct sc; cbn [negb]; rewrite ?Z.mul_1_r, ?H0;
    destruct cs, an, dy, (tw <? rw), (th <? rh), (tw <? w), (th <? h); reflexivity.
Qed.

(** an animation is an iteration ([_init_render_(iteration=animation)]) *)
Theorem draw_iteration_is_source : forall animation, src_draw_iteration animation = animation.
Proof. reflexivity. Qed.
