(** * BlockSeqTieProofs — soundness of the executable sequence comparison: when [qcheck]
    finds nothing for an observed sequence, every observed block render at render resolution
    IS the sequence model's output for its request, i.e. [render_of] of the source frame that
    the history selects -- the term the theorems of [BlockSeqProofs] speak about. *)
From Coq Require Import List ZArith Bool Arith Lia.
Import ListNotations.
From TI Require Import lib.Term lib.RectCheck model.Block model.RenderData model.RenderDataTie
     model.RenderTie model.BlockSeq model.BlockSeqTie proofs.BlockSeqProofs.
Open Scope Z_scope.

Lemma toks_eqb_sound a b : toks_eqb a b = true -> a = b.
Proof. unfold toks_eqb. destruct (list_eq_dec tok_dec a b); [auto|discriminate]. Qed.

Lemma lor_zero a b : Nat.lor a b = 0%nat -> a = 0%nat /\ b = 0%nat.
Proof. apply Nat.lor_eq_0_iff. Qed.

(** a request judged clean whose source frame is known: the observed tokens are the model's *)
Lemma elem_bits_sound tb earlier o ob r f :
  elem_bits tb earlier (o, Some ob) (Some r) = 0%nat ->
  lookup tb (r_inst r, r_frame r, r_size r) = Some f ->
  o_toks ob = r_toks r.
Proof.
  unfold elem_bits. cbn [fst snd]. destruct (settings_of o) as [s|]; [|discriminate].
  intros H Hl. rewrite Hl in H.
  apply lor_zero in H as [_ H]. apply lor_zero in H as [H _]. apply lor_zero in H as [H _].
  destruct (toks_eqb (r_toks r) (o_toks ob)) eqn:E; [|discriminate H].
  symmetry. now apply toks_eqb_sound.
Qed.

Lemma codes_of_nth tb l : forall earlier k e m,
  nth_error l k = Some (e, m) ->
  exists earlier', nth_error (codes_of tb earlier l) k = Some (elem_bits tb earlier' e m).
Proof.
  induction l as [|[e0 m0] l IH]; intros earlier k e m H; [destruct k; discriminate|].
  destruct k as [|k]; cbn in *.
  - injection H as -> ->. now exists earlier.
  - apply IH. exact H.
Qed.

Lemma fold_lor_zero codes :
  fold_right Nat.lor 0%nat codes = 0%nat -> forall k c, nth_error codes k = Some c -> c = 0%nat.
Proof.
  induction codes as [|c0 codes IH]; intros H k c Hk; [destruct k; discriminate|].
  cbn in H. apply lor_zero in H as [H0 H1].
  destruct k as [|k]; cbn in Hk; [congruence|]. now apply (IH H1 k).
Qed.

Lemma combine_nth {A B} (l1 : list A) (l2 : list B) : forall k x y,
  nth_error l1 k = Some x -> nth_error l2 k = Some y -> nth_error (combine l1 l2) k = Some (x, y).
Proof.
  revert l2. induction l1 as [|a l1 IH]; intros l2 k x y H1 H2; [destruct k; discriminate|].
  destruct l2 as [|b l2]; [destruct k; discriminate|].
  destruct k as [|k]; cbn in *; [congruence|]. now apply IH.
Qed.

(** THE soundness statement of the tie *)
Theorem qcheck_sound c :
  qcheck c = 0%nat ->
  forall k o ob r f,
    nth_error (q_elems c) k = Some (o, Some ob) ->
    nth_error (bs_run comp_exact (world (q_tbl c)) st0 (map fst (q_elems c))) k = Some (Some r) ->
    lookup (q_tbl c) (r_inst r, r_frame r, r_size r) = Some f ->
    o_toks ob = r_toks r.
Proof.
  unfold qcheck. intros H k o ob r f He Hr Hl.
  set (outs := bs_run comp_exact (world (q_tbl c)) st0 (map fst (q_elems c))) in *.
  set (codes := codes_of (q_tbl c) [] (combine (q_elems c) outs)) in *.
  assert (Hz : fold_right Nat.lor 0%nat codes = 0%nat) by lia.
  pose proof (combine_nth _ _ _ _ _ He Hr) as Hc.
  destruct (codes_of_nth (q_tbl c) _ [] _ _ _ Hc) as (earlier' & Hn).
  pose proof (fold_lor_zero codes Hz _ _ Hn) as H0.
  eapply elem_bits_sound; eauto.
Qed.

(** ... hence, for a render request of a clean sequence whose selected frame is in the table,
    the OBSERVED output is [render_of] of the frame selected by the history of the requests
    before it ([sel_pos] / [sel_size]) under the request's own settings *)
Corollary qcheck_observed_is_render_of c pre i s post ob :
  qcheck c = 0%nat ->
  map fst (q_elems c) = pre ++ ORender i s :: post ->
  nth_error (q_elems c) (length pre) = Some (ORender i s, Some ob) ->
  let n := sel_pos i 0%nat pre in
  let sz := sel_size i (0, 0)%nat pre in
  forall f, lookup (q_tbl c) (i, n, sz) = Some f ->
  o_toks ob = render_of comp_exact f s.
Proof.
  intros H Hops He n sz f Hl.
  pose proof (seq_output comp_exact (world (q_tbl c)) st0 pre i s post) as Ho.
  rewrite <- Hops in Ho. cbn [st0 pos isize] in Ho. fold n sz in Ho.
  rewrite (qcheck_sound c H _ _ _ _ f He Ho); cbn [r_inst r_frame r_size r_toks]; [|exact Hl].
  unfold world. rewrite Hl. reflexivity.
Qed.
