(** Non-vacuity: the hypotheses of the C08/C09/C10 theorems are satisfiable on concrete,
    non-trivial iterators (the instrumented renderable of the correspondence). *)
From Coq Require Import List ZArith Bool Lia.
Import ListNotations.
From TI Require Import model.Iter model.IterSpec model.IterTie proofs.IterProofs proofs.IterProofs2
     proofs.IterProofs3 proofs.IterProofs4.
Open Scope Z_scope.

Definition ex_cfg : config :=
  {| c_loops := 2; c_cache := CBool true; c_size := (2, 1); c_dur := DStatic 7; c_args := Some 1;
     c_pad := PAligned 0 (-28) 1 1; c_owns := true; c_frame := 1 |}.
Definition ex_render := vr_render (Some 3) 5 [] [] false.

(** the renderable of the correspondence (without faults, without call stamps) is pure *)
Definition ex_F (o : Z) (w : whence) (sz : size) (d : dur) (a : Z) : rframe :=
  {| rf_number := o; rf_duration := match d with DDynamic => 100 + o | DStatic ms => ms end;
     rf_size := sz; rf_output := [o; whence_code w; fst sz; snd sz; dur_code d; a; -1; -1] |}.
Lemma ex_pure : forall r o w sz d a, fst (ex_render r o w sz d a) = ROk (ex_F o w sz d a).
Proof. intros [c p] o w sz d a. reflexivity. Qed.

Example ex_constructs :
  exists s a, mk vr_state (Some 3) term8030 ex_cfg t_rs0 = inl s /\
              spec_mk vr_state (Some 3) term8030 ex_cfg t_rs0 = inl a /\
              refines vr_state ex_render (Some 3) ex_cfg.
Proof.
  eexists. eexists. split; [reflexivity|]. split; [reflexivity|].
  right. intros r1 r2 o w sz d a. rewrite !ex_pure. reflexivity.
Qed.

(** 2 loops x 3 frames, then Stop: the seventh and eighth [next] stop, countdown 2,2,2,1,1,1,0,0 *)
Example ex_frames_without_seek :
  match mk vr_state (Some 3) term8030 ex_cfg t_rs0 with
  | inl s => map (fun x => (match fst x with OFrame f => f_number f | _ => -1 end, snd x))
                 (trace vr_state ex_render (Some 3) term8030 s (repeat Next 8))
             = [(0, 2); (1, 2); (2, 2); (0, 1); (1, 1); (2, 1); (-1, 0); (-1, 0)]
  | inr _ => False
  end.
Proof. vm_compute. reflexivity. Qed.

(** a seek at the end-of-pass boundary of the last loop is accepted, and iteration goes on *)
Example ex_seek_at_boundary :
  match spec_mk vr_state (Some 3) term8030 ex_cfg t_rs0 with
  | inl a =>
    let a' := spec_run vr_state ex_render (Some 3) term8030 a (repeat Next 6) in
    a_closed a' = false /\ a_next a' = 3 /\ a_loop a' = 1 /\
    seek_target 3 (a_next a') (-1) WCurrent = Some 2 /\
    with_setting vr_state term8030 a' (SetPadding (PAligned 0 0 1 1)) <> None
  | inr _ => False
  end.
Proof. vm_compute. repeat split; congruence. Qed.

(** an INDEFINITE source with pending seeks *)
Example ex_indefinite :
  match mk vr_state None term8030 ex_cfg t_rs0 with
  | inl s =>
    map (fun x => match fst x with OFrame f => f_number f | OStop => -1 | _ => -2 end)
        (trace vr_state (vr_render None 5 [] [] false) None term8030 s
               [Next; Seek 1 WCurrent; Seek 3 WStart; Next; Next; Seek 0 WEnd; Next; Next])
    = [0; -2; -2; 3; 4; -2; 4; -1]
  | inr _ => False
  end.
Proof. vm_compute. reflexivity. Qed.
