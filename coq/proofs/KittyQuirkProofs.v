(** Proofs for model/KittyQuirk.v (C01, round 9) *)
From Coq Require Import List ZArith Bool Lia.
Import ListNotations.
From TI Require Import lib.Term lib.TermFacts lib.Rect lib.RectCheck lib.Lines model.Block model.GfxRender
     proofs.BlockRect proofs.GfxRect model.KittyQuirk model.RenderTie model.KittyQuirkTie.
Open Scope Z_scope.

(** ** (a) the default-background quirk *)
Section Quirk.
Variable kitty : bool.
Variable dbg : option rgb.

Notation painted := (ev_painted kitty dbg).
Notation safe := (tok_safe kitty dbg).

Lemma painted_erase r a : attrs_painted kitty dbg a = true ->
  forall n c, forallb painted (erase_evs r c a n) = true.
Proof.
  intros Ha. induction n as [|n IH]; intros c; cbn [erase_evs forallb]; [reflexivity|].
  cbn [ev_painted]. rewrite Ha, IH. reflexivity.
Qed.

(** one step appends only painted events and keeps the current attributes paintable *)
Lemma step_painted lm t x :
  safe x = true -> attrs_painted kitty dbg (sgr t) = true ->
  attrs_painted kitty dbg (sgr (step lm t x)) = true
  /\ exists es, log (step lm t x) = log t ++ es /\ forallb painted es = true.
Proof.
  intros Hx Ha.
  assert (N : exists es, log t = log t ++ es /\ forallb painted es = true)
    by (exists []; rewrite app_nil_r; split; reflexivity).
  assert (E : forall n, forallb painted (erase_evs (row t) (col t) (sgr t) n) = true)
    by (intros n; apply painted_erase; exact Ha).
  unfold step, step_ground, place.
  destruct (parser t); destruct x; cbn [is_esc_seq];
    repeat match goal with
           | |- context [match ?y with _ => _ end] => destruct y
           end;
    cbn [sgr log emit set_pos set_sgr set_parser set_pending set_visible set_synced attrs_painted bg adefault];
    (split; [first [exact Ha | reflexivity | exact Hx] | ]);
    first [ exact N
          | eexists; split; [reflexivity|]; cbn [forallb ev_painted]; rewrite ?Ha; first [reflexivity | apply E]
          | eexists; split; [rewrite <- app_assoc; reflexivity|]; reflexivity ].
Qed.

Lemma exec_painted lm : forall ts t,
  Forall (fun x => safe x = true) ts -> attrs_painted kitty dbg (sgr t) = true ->
  exists es, log (exec lm t ts) = log t ++ es /\ forallb painted es = true.
Proof.
  induction ts as [|x ts IH]; intros t Hs Ha.
  - exists []. rewrite exec_nil, app_nil_r. split; reflexivity.
  - inversion Hs as [|? ? Hx Hr]; subst. rewrite exec_cons.
    destruct (step_painted lm t x Hx Ha) as [Ha' [es1 [E1 P1]]].
    destruct (IH _ Hr Ha') as [es2 [E2 P2]].
    exists (es1 ++ es2). rewrite E2, E1, <- app_assoc. split; [reflexivity|].
    rewrite forallb_app, P1, P2. reflexivity.
Qed.

Lemma covered_painted evs r c :
  forallb painted evs = true -> covered evs r c = true -> covered_on kitty dbg evs r c = true.
Proof.
  unfold covered, covered_on. induction evs as [|e evs IH]; cbn [forallb existsb]; intros Hp Hc.
  - discriminate.
  - apply andb_true_iff in Hp as [Pe Pr]. rewrite Pe, andb_true_r.
    apply orb_true_iff in Hc as [Hc|Hc]; [rewrite Hc; reflexivity|].
    rewrite (IH Pr Hc). apply orb_true_r.
Qed.
End Quirk.

(** *** the code's discipline holds for every block render *)
Section BlockSafe.
Variable alpha kitty : bool.
Variable bgcol : option rgb.
Variable split : bool.
Notation safeP := (fun x => tok_safe kitty bgcol x = true).

Lemma nudge_ne c d : rgb_eqb c d = true -> rgb_eqb (nudge c) d = false.
Proof.
  destruct c as [[r g] b], d as [[r' g'] b']. unfold rgb_eqb, nudge. intros H.
  apply andb_true_iff in H as [H _]. apply andb_true_iff in H as [H _]. apply Z.eqb_eq in H. subst r'.
  assert (F : ((if r <? 255 then r + 1 else r - 1) =? r) = false)
    by (destruct (r <? 255); apply Z.eqb_neq; lia).
  rewrite F. reflexivity.
Qed.

Lemma safe_bg c2 : tok_safe kitty bgcol (TBg (if kitty && is_bg bgcol c2 then nudge c2 else c2)) = true.
Proof.
  unfold tok_safe, unpainted, is_bg. destruct kitty; [|reflexivity]. cbn [andb].
  destruct bgcol as [d|]; [|reflexivity].
  destruct (rgb_eqb c2 d) eqn:E; [rewrite (nudge_ne _ _ E)|rewrite E]; reflexivity.
Qed.

Lemma safe_glyphs sp g n : Forall safeP (glyphs sp g n).
Proof.
  induction n as [|n IH]; [constructor|]. cbn [glyphs]. unfold cell_toks.
  destruct sp; repeat constructor; exact IH.
Qed.

Lemma safe_update_buffer c1 c2 ac1 ac2 n : Forall safeP (update_buffer alpha kitty bgcol split c1 c2 ac1 ac2 n).
Proof.
  unfold update_buffer.
  destruct (alpha && (ac1 =? 0) && (ac2 =? 0)); [repeat (constructor; [reflexivity|]); apply safe_glyphs|].
  destruct (alpha && (ac1 =? 0)); [repeat (constructor; [reflexivity|]); apply safe_glyphs|].
  destruct (alpha && (ac2 =? 0)); [repeat (constructor; [reflexivity|]); apply safe_glyphs|].
  constructor; [apply safe_bg|].
  destruct (rgb_eqb c1 c2); [|constructor; [reflexivity|]]; apply safe_glyphs.
Qed.

Lemma safe_line_loop : forall pxs c1 c2 ac1 ac2 n, Forall safeP (line_loop alpha kitty bgcol split c1 c2 ac1 ac2 n pxs).
Proof.
  induction pxs as [|p rest IH]; intros; cbn [line_loop].
  - apply safe_update_buffer.
  - destruct (flush_cond alpha c1 c2 ac1 ac2 p); [|apply IH].
    apply Forall_app. split; [apply safe_update_buffer|apply IH].
Qed.

Lemma safe_line pxs : Forall safeP (line alpha kitty bgcol split pxs).
Proof.
  unfold line. destruct pxs as [|p rest]; [constructor|].
  generalize (safe_line_loop (p :: rest) (p1 p) (p2 p) (a1 p) (a2 p) 0%nat).
  generalize (line_loop alpha kitty bgcol split (p1 p) (p2 p) (a1 p) (a2 p) 0 (p :: rest)).
  intros l H. destruct split; [apply Forall_removelast|]; exact H.
Qed.

Lemma safe_render_lines : forall rows, Forall safeP (render_lines alpha kitty bgcol split rows).
Proof.
  induction rows as [|r rest IH]; [constructor|]. cbn [render_lines].
  destruct rest as [|r2 rest]; [apply safe_line|].
  apply Forall_app. split; [apply safe_line|].
  apply Forall_app. split; [repeat constructor|exact IH].
Qed.

Lemma safe_render rows : Forall safeP (render alpha kitty bgcol split rows).
Proof. unfold render. apply Forall_app. split; [apply safe_render_lines|repeat constructor]. Qed.

(** every cell of the rectangle of every block render is covered ON THE TERMINAL IT IS MADE FOR
    (kitty or not, default background known or not): from any clean state, cursor at the left
    margin, default attributes *)
Theorem kitty_default_bg_cells_covered (w : nat) (rows : list (list px)) :
  rows <> [] -> (0 < w)%nat -> (forall r, In r rows -> length r = w) ->
  forall lm t, clean t -> col t = lm -> sgr t = adefault ->
  exists evs, log (exec lm t (render alpha kitty bgcol split rows)) = log t ++ evs
    /\ forallb (ev_painted kitty bgcol) evs = true
    /\ forall r c, row t <= r < row t + Z.of_nat (length rows) -> lm <= c < lm + Z.of_nat w ->
         covered_on kitty bgcol evs r c = true.
Proof.
  intros Hne Hw Hlen lm t Hc Hcol Hs.
  destruct (block_rect alpha kitty bgcol split w rows Hne Hw Hlen) as (_ & _ & HR & _).
  destruct (ra_log _ _ _ _ _ _ (HR lm t Hc Hcol Hs)) as [evs [E [_ Hcov]]].
  destruct (exec_painted kitty bgcol lm _ t (safe_render rows)) as [es [E2 P]].
  { rewrite Hs. reflexivity. }
  assert (es = evs) by (rewrite E in E2; apply app_inv_head in E2; symmetry; exact E2). subst es.
  exists evs. split; [exact E|]. split; [exact P|].
  intros r c Hr Hcc. apply covered_painted; [exact P|]. apply Hcov; [exact Hr|exact Hcc|reflexivity].
Qed.
End BlockSafe.

(** the discipline is what carries it: ANY token stream that is [tok_safe] and meets the
    contract covers every cell on that terminal *)

(** non-vacuity: a kitty terminal with default background (18,52,86), a half-block cell whose
    LOWER pixel is exactly that colour: the model nudges, the cell is covered *)
Example kitty_bg_witness :
  let d := (18, 52, 86) in
  let p := {| p1 := (1, 2, 3); p2 := d; a1 := 255; a2 := 255 |} in
  quirk_cover_checkb true (Some d) 1 1 0 0 (render false true (Some d) false [[p]]) = true
  /\ render false true (Some d) false [[p]] = update_buffer false true (Some d) false (p1 p) (p2 p) 255 255 1 ++ [TSgr0].
Proof. vm_compute. split; reflexivity. Qed.

(** the excluded design (work-around on solid cells only) leaves such a cell uncovered *)
Theorem kitty_default_bg_solid_only_refuted :
  exists (d : rgb) (p : px),
    quirk_cover_checkb true (Some d) 1 1 0 0 (render1_solid_only false true (Some d) false p) = false
    /\ rect_checkb 1 1 0 0 (render1_solid_only false true (Some d) false p) = true.
Proof.
  exists (18, 52, 86), {| p1 := (1, 2, 3); p2 := (18, 52, 86); a1 := 255; a2 := 255 |}.
  vm_compute. split; reflexivity.
Qed.

(** ** (b) acceptance of transmissions *)

Lemma policy_accepted pol s v : (forall o, pol o = 24 \/ pol o = 32) ->
  forall o, accepted (policy_tx pol s v o) = true.
Proof.
  intros H o. unfold accepted, policy_tx. cbn [tx_f tx_bytes tx_s tx_v].
  rewrite Z.eqb_refl, andb_true_r. destruct (H o) as [E|E]; rewrite E; reflexivity.
Qed.

(** control data a function of the line only => every line's transmission is accepted,
    whatever the opacity pattern of the lines *)
Theorem kitty_lines_control_data_per_line pol s v :
  (forall o, pol o = 24 \/ pol o = 32) ->
  forall ls : list bool, forallb accepted (map (policy_tx pol s v) ls) = true.
Proof.
  intros H. induction ls as [|o ls IH]; cbn [map forallb]; [reflexivity|].
  rewrite policy_accepted by exact H. exact IH.
Qed.

Lemma lines_txs_accepted rgba s v ls : forallb accepted (lines_txs rgba s v ls) = true.
Proof. apply kitty_lines_control_data_per_line. intros _. destruct rgba; [right|left]; reflexivity. Qed.

Lemma drop_alpha_accepted s v ls : forallb accepted (map (policy_tx pol_drop_alpha s v) ls) = true.
Proof. apply kitty_lines_control_data_per_line. intros [|]; [left|right]; reflexivity. Qed.

Lemma accept_view_all : forall ts acc cur,
  forallb (fun b => b) acc = true -> cur = true -> accept_view acc cur ts = ts.
Proof.
  induction ts as [|x ts IH]; intros acc cur Ha Hc; cbn [accept_view]; [reflexivity|].
  subst cur.
  destruct x; try (f_equal; apply IH; [exact Ha|reflexivity]).
  - destruct acc as [|a acc'].
    + f_equal. apply IH; reflexivity.
    + cbn [forallb] in Ha. apply andb_true_iff in Ha as [Ha1 Ha2]. subst a. cbn [app].
      f_equal. apply IH; [exact Ha2|reflexivity].
  - cbn [app]. f_equal. apply IH; [exact Ha|reflexivity].
Qed.

(** the code's LINES / WHOLE renders as a kitty terminal displays them (transmissions judged
    on their own control data) meet the contract: for every opacity pattern of the lines *)
Theorem kitty_lines_shown_rect (rgba : bool) (s v : Z) (ls : list bool) (w h z : Z) (mix blend : bool) :
  0 < w -> 0 < h -> forall pls : list (list Z), Z.of_nat (length pls) = h ->
  Rect w h (accept_view (map accepted (lines_txs rgba s v ls)) true (kitty_lines w z mix blend pls)).
Proof.
  intros Hw Hh pls Hl. rewrite accept_view_all; [apply kitty_lines_rect; assumption| |reflexivity].
  generalize (lines_txs_accepted rgba s v ls). generalize (lines_txs rgba s v ls).
  induction l as [|t l IH]; cbn [map forallb]; [reflexivity|].
  intros H. apply andb_true_iff in H as [H1 H2]. rewrite H1. apply IH, H2.
Qed.

Theorem kitty_whole_shown_rect (rgba : bool) (s v : Z) (w h z : Z) (mix blend : bool) :
  0 < w -> 0 < h -> forall pl : list Z,
  Rect w h (accept_view (map accepted (whole_txs rgba s v)) true (kitty_whole w h z mix blend pl)).
Proof.
  intros Hw Hh pl. rewrite accept_view_all; [apply kitty_whole_rect; assumption| |reflexivity].
  exact (lines_txs_accepted rgba s v [false]).
Qed.

(** the excluded design: with a sticky shared [f], an opaque line followed by a line with
    transparency yields a transmission a terminal rejects, and the render as displayed leaves
    that line of the rectangle without image (mix on: not covered at all) *)
Theorem kitty_lines_sticky_refuted :
  exists (s v : Z) (ls : list bool) (pls : list (list Z)),
    forallb accepted (sticky_txs s v 32 ls) = false
    /\ gfx_shown_checkb (sticky_txs s v 32 ls) 3 2 (kitty_lines 3 0 false true pls) = false
    /\ rect_checkb 3 2 0 0 (accept_view (map accepted (sticky_txs s v 32 ls)) true (kitty_lines 3 0 true true pls)) = false
    /\ gfx_shown_checkb (lines_txs true s v ls) 3 2 (kitty_lines 3 0 false true pls) = true.
Proof.
  exists 6, 2, [true; false], [[48]; [64]]. vm_compute. repeat split; reflexivity.
Qed.

(** ** soundness of the executable comparison (block): when the model's tokens equal the observed
    render, every cell of the observed render's rectangle is covered on the terminal it was made
    for *)
Theorem quirk_tie_sound (c : qcase) alpha kitty bgcol split rows (w : nat) :
  q_render c = QBlock alpha kitty bgcol split rows -> qmodel_ok c = true ->
  rows <> [] -> (0 < w)%nat -> (forall r, In r rows -> length r = w) ->
  forall lm t, clean t -> col t = lm -> sgr t = adefault ->
  exists evs, log (exec lm t (q_obs c)) = log t ++ evs
    /\ forall r cc, row t <= r < row t + Z.of_nat (length rows) -> lm <= cc < lm + Z.of_nat w ->
         covered_on kitty bgcol evs r cc = true.
Proof.
  intros Hr Hm Hne Hw Hlen lm t Hc Hcol Hs. unfold qmodel_ok in Hm. rewrite Hr in Hm.
  unfold toks_eqb in Hm. destruct (list_eq_dec tok_dec _ _) as [E|]; [|discriminate]. rewrite <- E.
  destruct (kitty_default_bg_cells_covered alpha kitty bgcol split w rows Hne Hw Hlen lm t Hc Hcol Hs)
    as [evs [E1 [_ Hcov]]].
  exists evs. split; [exact E1|exact Hcov].
Qed.
