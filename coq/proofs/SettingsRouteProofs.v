(** Proofs about [model/SettingsRoute.v] (C20): on EVERY route by which a render can be
    requested — format(), draw() of one frame, every frame of draw(animate=True), every
    frame of an ImageIterator — for both graphics styles, the method a frame is rendered
    with is the per-call one if given, else the effective one (with the documented
    ANIM -> WHOLE substitution), after every settings history and whatever other style
    arguments the call carries. *)
From Coq Require Import List ZArith Bool Arith.
Import ListNotations.
From TI Require Import model.Settings model.SettingsRender model.SettingsRoute
     proofs.SettingsProofs proofs.SettingsRenderProofs.
Local Arguments Nat.eqb : simpl never.

(** *** the dictionary *)

Lemma skey_eqb_refl k : skey_eqb k k = true.
Proof. destruct k; reflexivity. Qed.

Lemma sget_sdel_same k a : sget k (sdel k a) = None.
Proof.
  induction a as [|[k' v] a IH]; [reflexivity|].
  unfold sdel in *. cbn [filter fst]. destruct (skey_eqb k k') eqn:E; cbn [negb].
  - exact IH.
  - cbn [sget]. rewrite E. exact IH.
Qed.

Lemma sget_sdel_other k k' a : skey_eqb k k' = false -> sget k (sdel k' a) = sget k a.
Proof.
  intros H. induction a as [|[k0 v] a IH]; [reflexivity|].
  unfold sdel in *. cbn [filter fst sget].
  destruct (skey_eqb k' k0) eqn:E; cbn [negb].
  - destruct (skey_eqb k k0) eqn:E0; [|exact IH].
    destruct k, k', k0; cbn in H, E, E0; discriminate.
  - cbn [sget]. rewrite IH. reflexivity.
Qed.

Lemma sget_sset_same k v a : sget k (sset k v a) = Some v.
Proof. unfold sset. cbn [sget]. rewrite skey_eqb_refl. reflexivity. Qed.

Lemma sget_sset_other k k' v a : skey_eqb k k' = false -> sget k (sset k' v a) = sget k a.
Proof. intros H. unfold sset. cbn [sget]. rewrite H. apply sget_sdel_other, H. Qed.

(** *** the hops *)

Lemma req_args_method ov others : sget KMethod (req_args ov others) = ov.
Proof.
  destruct ov as [m|]; cbn [req_args]; [apply sget_sset_same|apply sget_sdel_same].
Qed.

(** both styles' animation hops forward the per-call method untouched *)
Lemma hop_keeps_method s newer a :
  sget KMethod (hop_display_animated s newer a) = sget KMethod a.
Proof.
  destruct s, newer; cbn [hop_display_animated];
    repeat (rewrite sget_sset_other by reflexivity); reflexivity.
Qed.

Theorem route_method_forwarded s newer r ov others :
  sget KMethod (route_args s newer r (req_args ov others)) = ov.
Proof.
  destruct r; cbn [route_args]; try apply req_args_method.
  rewrite hop_keeps_method. apply req_args_method.
Qed.

(** every frame of every route is a render with the request's per-call method *)
Theorem route_render_spec s newer i ov others r :
  route_render s newer i ov others r = RRender i ov (route_frame r).
Proof. unfold route_render. rewrite route_method_forwarded. reflexivity. Qed.

(** ... whatever the other style arguments are *)
Theorem route_others_irrelevant s newer i ov others others' r :
  route_render s newer i ov others r = route_render s newer i ov others' r.
Proof. rewrite !route_render_spec. reflexivity. Qed.

Lemma expand_spec s newer src frames o :
  expand s newer src frames o = spec_expand src frames o.
Proof.
  destruct o as [o'|q i ov others]; [reflexivity|].
  cbn [expand spec_expand]. apply map_ext. intros r. apply route_render_spec.
Qed.

(** *** after every history *)

Section Histories.
Variable k : kind.
Variable par : nat -> nat.
Hypothesis Hwf : wf_par par.
Variable icls : nat -> nat.
Variable src : sources.

(** the requested method of a request after history [h] *)
Definition requested (h : list rop) (i : nat) (ov : option Z) : Z :=
  match ov with Some m => m | None => spec_inst k par icls (meth_ops h) i end.

(** "the render method actually used is the effective one unless overridden for that
    call": for every style, every route (every frame of it), every history *)
Theorem route_method_used s newer h i ov others r x :
  snd (rstep k par icls src (rrun k par h) (route_render s newer i ov others r)) = Some x ->
  used x = doc_used (requested h i ov) (s_animated src i) (route_frame r).
Proof.
  rewrite route_render_spec, (render_after_history k par Hwf). intros Hx.
  injection Hx as <-. reflexivity.
Qed.

(** a per-call method that applies (LINES / WHOLE: always) is the one used by every
    frame of every route *)
Theorem route_override_wins s newer h i m others r x :
  applies m (s_animated src i) (route_frame r) = true ->
  snd (rstep k par icls src (rrun k par h) (route_render s newer i (Some m) others r)) = Some x ->
  used x = m.
Proof.
  intros Ha Hx. rewrite route_render_spec in Hx.
  exact (render_override_after_history k par Hwf icls src h i m (route_frame r) Ha x Hx).
Qed.

(** without one, the effective method *)
Theorem route_effective s newer h i others r x :
  applies (spec_inst k par icls (meth_ops h) i) (s_animated src i) (route_frame r) = true ->
  snd (rstep k par icls src (rrun k par h) (route_render s newer i None others r)) = Some x ->
  used x = spec_inst k par icls (meth_ops h) i.
Proof.
  intros Ha Hx. rewrite route_render_spec in Hx.
  exact (render_uses_effective_after_history k par Hwf icls src h i (route_frame r) Ha x Hx).
Qed.

(** whole histories of settings operations and requests: what every frame of every
    request reports is the documented function of the history alone *)
Theorem qtrace_spec s newer frames h :
  qtrace s newer k par icls src frames h = spec_qtrace k par icls src frames h.
Proof.
  unfold qtrace, spec_qtrace.
  rewrite (flat_map_ext _ _ (expand_spec s newer src frames)).
  apply (rtrace_spec k par Hwf).
Qed.

End Histories.

(** the number of renders of a request: one, or one per frame of the animation *)
Theorem request_frames q animated n :
  length (request_routes q animated n)
  = match q with
    | QFormat => 1
    | QDraw animate => if animate && animated then n else 1
    | QIterate => n
    end.
Proof.
  destruct q as [|animate|]; cbn [request_routes]; try reflexivity.
  - destruct (animate && animated); [rewrite map_length, seq_length|]; reflexivity.
  - rewrite map_length, seq_length. reflexivity.
Qed.

(** *** the excluded design: an animation hop that rebuilds the style arguments loses the
        per-call method — frame 1 of [draw(animate=True, method=WHOLE)] of an instance
        whose effective method is LINES is rendered with LINES *)
Theorem route_rebuild_refuted :
  exists newer i m others r x,
    let k := k_render_method 2 in
    applies m true (route_frame r) = true
    /\ snd (rstep k (parf [0]) (parf [0]) {| s_animated := fun _ => true; s_size := fun _ => 100%Z |}
                  (rrun k (parf [0]) []) (route_render_rebuild newer i (Some m) others r)) = Some x
    /\ used x <> m.
Proof.
  exists true, 0, WHOLE, [(KCompress, 0%Z)], (RDrawAnimated 1), {| used := LINES; warned := false |}.
  vm_compute. repeat split; try reflexivity. discriminate.
Qed.

(** ... while every other route of the same design is right (which is why single-frame
    checks cannot see it) *)
Theorem route_rebuild_other_routes newer i ov others r :
  (forall fr, r <> RDrawAnimated fr) ->
  route_render_rebuild newer i ov others r = RRender i ov (route_frame r).
Proof.
  intros H. unfold route_render_rebuild.
  destruct r; try (rewrite req_args_method; reflexivity).
  exfalso. exact (H fr eq_refl).
Qed.

(** *** non-vacuity: a 3-frame animated instance 0 of class 1 (forest 0 <- 1), kitty;
        class 0 set to WHOLE; draw(animate=True) -> 3 x WHOLE; draw(animate=True,
        method=LINES, compress=0) -> 3 x LINES; class 1 set to LINES; iterator with
        WHOLE -> 3 x WHOLE; draw(animate=False) -> LINES; format -> LINES *)
Example ex_qtrace :
  let k := k_render_method 2 in
  map used (qtrace SKitty true k (parf [0; 0]) (parf [1])
                   {| s_animated := fun _ => true; s_size := fun _ => 100%Z |} (fun _ => 3)
                   [QOp (RMeth (ClsSet 0 1)); QReq (QDraw true) 0 None [];
                    QReq (QDraw true) 0 (Some 0%Z) [(KCompress, 0%Z)];
                    QOp (RMeth (ClsSet 1 0)); QReq QIterate 0 (Some 1%Z) [];
                    QReq (QDraw false) 0 None [(KZIndex, 5%Z)]; QReq QFormat 0 None []])
  = [1; 1; 1; 0; 0; 0; 1; 1; 1; 0; 0]%Z.
Proof. vm_compute. reflexivity. Qed.
