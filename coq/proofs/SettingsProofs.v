(** Proofs about [model/Settings.v] (C20). *)
From Coq Require Import List ZArith Bool Arith Lia.
Import ListNotations.
From TI Require Import model.Settings.
Local Arguments Nat.eqb : simpl never.

Section Generic.
Variable k : kind.
Variable par : nat -> nat.
Hypothesis Hwf : wf_par par.

(** *** lookup facts *)

Lemma lookup_reaches_root d :
  d 0 <> None -> forall fuel c, c <= fuel -> cls_lookup par d fuel c <> None.
Proof.
  intros H0 fuel; induction fuel as [|f IH]; intros c Hc.
  - assert (c = 0) by lia; subst c; cbn; destruct (d 0); congruence.
  - cbn [cls_lookup]. destruct (d c) eqn:Edc; [congruence|].
    destruct (Nat.eqb_spec c 0) as [->|Hne]; [congruence|].
    apply IH. specialize (Hwf c); lia.
Qed.

Lemma lookup_fuel d : forall f1 f2 c, c <= f1 -> c <= f2 ->
  cls_lookup par d f1 c = cls_lookup par d f2 c.
Proof.
  induction f1 as [|f1 IH]; intros f2 c H1 H2.
  - assert (c = 0) by lia; subst c. destruct f2; cbn; destruct (d 0); reflexivity.
  - destruct f2 as [|f2].
    + assert (c = 0) by lia; subst c. cbn; destruct (d 0); reflexivity.
    + cbn [cls_lookup]. destruct (d c); [reflexivity|].
      destruct (Nat.eqb_spec c 0); [reflexivity|].
      apply IH; specialize (Hwf c); lia.
Qed.

(** two dictionaries that agree on [x] and all its ancestors look the same from [x] *)
Lemma lookup_agree d1 d2 : forall fuel x,
  (forall a, anc par fuel a x = true -> d1 a = d2 a) ->
  cls_lookup par d1 fuel x = cls_lookup par d2 fuel x.
Proof.
  induction fuel as [|f IH]; intros x H.
  - cbn. rewrite <- (H x) by (cbn; rewrite Nat.eqb_refl; reflexivity). reflexivity.
  - cbn [cls_lookup].
    rewrite <- (H x) by (cbn [anc]; rewrite Nat.eqb_refl; reflexivity).
    destruct (d1 x); [reflexivity|].
    destruct (Nat.eqb_spec x 0) as [|Hx]; [reflexivity|].
    apply IH. intros a Ha. apply H. cbn [anc].
    destruct (Nat.eqb_spec x 0); [contradiction|]. rewrite Ha. apply orb_true_r.
Qed.

Lemma lookup_upd_unrelated d c v fuel x :
  anc par fuel c x = false ->
  cls_lookup par (upd d c v) fuel x = cls_lookup par d fuel x.
Proof.
  intros H. apply lookup_agree. intros a Ha. unfold upd.
  destruct (Nat.eqb_spec a c) as [->|]; [congruence|reflexivity].
Qed.

(** *** the representation invariant tying the dictionaries to the history *)

Definition Rep (s : state) (ops : list op) : Prop :=
  (forall i, idt s i = own_inst k ops i) /\
  (forall c, (0 < c \/ k_pinned k = false) -> cd s c = own_cls k ops c) /\
  (k_pinned k = true ->
   cd s 0 = Some (match own_cls k ops 0 with Some v => v | None => k_default k end)).

Lemma own_cls_snoc ops o c : own_cls k (ops ++ [o]) c = own_cls_step k c (own_cls k ops c) o.
Proof. unfold own_cls. rewrite fold_left_app. reflexivity. Qed.
Lemma own_inst_snoc ops o i :
  own_inst k (ops ++ [o]) i = own_inst_step k i (own_inst k ops i) o.
Proof. unfold own_inst. rewrite fold_left_app. reflexivity. Qed.
Lemma run_snoc ops o : run k par (ops ++ [o]) = fst (step k par (run k par ops) o).
Proof. unfold run. rewrite fold_left_app. reflexivity. Qed.

Lemma Rep_init : Rep (init k) [].
Proof.
  unfold Rep, init, own_cls, own_inst; cbn. repeat split.
  - intros c [Hc|Hp].
    + destruct (Nat.eqb_spec c 0); [lia|]. rewrite andb_false_r. reflexivity.
    + rewrite Hp. reflexivity.
  - intros Hp. rewrite Hp. reflexivity.
Qed.

Lemma Rep_root_some s ops : Rep s ops -> k_pinned k = true -> cd s 0 <> None.
Proof. intros (_ & _ & H) Hp. rewrite (H Hp). congruence. Qed.

Ltac eqbs :=
  repeat match goal with
  | |- context [Nat.eqb ?a ?b] =>
    destruct (Nat.eqb_spec a b); subst; cbn; try congruence; try lia
  end.

Ltac rep_case Hi Hc Hr :=
  repeat split;
  [ intros ?i; rewrite own_inst_snoc; cbn; unfold upd;
    repeat match goal with E : _ = true |- _ => rewrite E | E : _ = false |- _ => rewrite E end;
    cbn; eqbs; rewrite ?andb_false_r; cbn; try reflexivity; try apply Hi
  | intros ?c ?Hc'; rewrite own_cls_snoc; cbn; unfold upd;
    repeat match goal with E : _ = true |- _ => rewrite E | E : _ = false |- _ => rewrite E end;
    cbn; eqbs; rewrite ?andb_false_r; cbn; try reflexivity; try lia;
    try (apply Hc; assumption); try (apply Hc; left; lia)
  | intros ?Hp; rewrite own_cls_snoc; cbn; unfold upd;
    repeat match goal with E : _ = true |- _ => rewrite E | E : _ = false |- _ => rewrite E end;
    cbn; eqbs; rewrite ?andb_false_r; cbn; try reflexivity; try lia; try discriminate;
    try (apply Hr; assumption); try (apply Hr; reflexivity) ].

Lemma Rep_step s ops o : Rep s ops -> Rep (fst (step k par s o)) (ops ++ [o]).
Proof.
  intros (Hi & Hc & Hr). unfold Rep.
  destruct o as [c v|c|i v|i]; cbn [step].
  - (* ClsSet *)
    destruct (k_valid k v) eqn:Ev; cbn [fst cd idt]; rep_case Hi Hc Hr.
  - (* ClsUnset *)
    destruct (k_cls_unset k) eqn:Eu; cbn [fst cd idt]; [|rep_case Hi Hc Hr].
    destruct (k_pinned k) eqn:Ep; [|rep_case Hi Hc Hr].
    (* pinned: del, then restore the default on the base class only *)
    destruct (Nat.eqb_spec c 0) as [->|Hc0].
    + (* the base class *)
      assert (Hl : cls_lookup par (upd (cd s) 0 None) 0 0 = None)
        by (cbn; unfold upd; cbn; reflexivity).
      rewrite Hl. rep_case Hi Hc Hr.
    + (* a subclass: the deletion suffices, the base class is always found *)
      assert (Hl : cls_lookup par (upd (cd s) c None) c c <> None).
      { apply lookup_reaches_root; [|lia]. unfold upd.
        destruct (Nat.eqb_spec 0 c); [lia|]. rewrite (Hr eq_refl). congruence. }
      destruct (cls_lookup par (upd (cd s) c None) c c) eqn:El; [|congruence].
      rep_case Hi Hc Hr.
  - (* InstSet *)
    destruct (k_inst_set k) eqn:Es; [destruct (k_valid k v) eqn:Ev|]; cbn [fst cd idt];
      rep_case Hi Hc Hr.
  - (* InstUnset *)
    destruct (k_inst_set k) eqn:Es; cbn [fst cd idt]; rep_case Hi Hc Hr.
Qed.

Lemma Rep_run ops : Rep (run k par ops) ops.
Proof.
  induction ops as [|o ops IH] using rev_ind.
  - apply Rep_init.
  - rewrite run_snoc. apply Rep_step, IH.
Qed.

(** under the invariant, Python's lookup computes the documented rule *)
Lemma lookup_is_nearest s ops : Rep s ops -> forall fuel c,
  match cls_lookup par (cd s) fuel c with Some v => v | None => k_default k end =
  match nearest par (own_cls k ops) fuel c with Some v => v | None => k_default k end.
Proof.
  intros (_ & Hc & Hr). induction fuel as [|f IH]; intros c.
  - cbn. destruct (Nat.eqb_spec c 0) as [->|Hc0].
    + destruct (k_pinned k) eqn:Ep.
      * rewrite (Hr eq_refl). destruct (own_cls k ops 0); reflexivity.
      * rewrite (Hc 0) by (right; reflexivity). destruct (own_cls k ops 0); reflexivity.
    + rewrite (Hc c) by (left; lia). destruct (own_cls k ops c); reflexivity.
  - cbn [cls_lookup nearest]. destruct (Nat.eqb_spec c 0) as [->|Hc0].
    + destruct (k_pinned k) eqn:Ep.
      * rewrite (Hr eq_refl). destruct (own_cls k ops 0); reflexivity.
      * rewrite (Hc 0) by (right; reflexivity). destruct (own_cls k ops 0); reflexivity.
    + rewrite (Hc c) by (left; lia). destruct (own_cls k ops c); [reflexivity|]. apply IH.
Qed.

(** *** C20 main statement: effective value = own, else nearest ancestor's, else default *)

Theorem cls_lookup_spec ops c : cls_eff k par (run k par ops) c = spec_cls k par ops c.
Proof. unfold cls_eff, spec_cls. apply lookup_is_nearest, Rep_run. Qed.

Theorem inst_lookup_spec icls ops i :
  inst_eff k par icls (run k par ops) i = spec_inst k par icls ops i.
Proof.
  unfold inst_eff, spec_inst. destruct (Rep_run ops) as (Hi & _). rewrite Hi.
  destruct (own_inst k ops i); [reflexivity|]. apply cls_lookup_spec.
Qed.

(** *** unset makes the level follow the next one *)

Theorem cls_unset_follows_parent ops c :
  k_cls_unset k = true -> 0 < c ->
  let s' := fst (step k par (run k par ops) (ClsUnset c)) in
  cls_eff k par s' c = cls_eff k par s' (par c).
Proof.
  intros Hu Hc s'. subst s'. rewrite <- (run_snoc ops (ClsUnset c)).
  rewrite !cls_lookup_spec. unfold spec_cls.
  destruct c as [|c']; [lia|]. cbn [nearest].
  rewrite own_cls_snoc. cbn. rewrite Nat.eqb_refl, Hu. cbn.
  pose proof (Hwf (S c') Hc) as Hlt.
  (* fuel independence for [nearest], via the lookup lemma on a dictionary equal to own *)
  assert (Hf : forall own f1 f2 x, x <= f1 -> x <= f2 ->
                nearest par own f1 x = nearest par own f2 x).
  { intros own. induction f1 as [|f1 IH]; intros f2 x H1 H2.
    - assert (x = 0) by lia; subst x. destruct f2; cbn; destruct (own 0); reflexivity.
    - destruct f2 as [|f2].
      + assert (x = 0) by lia; subst x. cbn; destruct (own 0); reflexivity.
      + cbn [nearest]. destruct (own x); [reflexivity|].
        destruct (Nat.eqb_spec x 0); [reflexivity|]. apply IH; specialize (Hwf x); lia. }
  rewrite (Hf _ c' (par (S c'))) by lia. reflexivity.
Qed.

Theorem root_unset_gives_default ops :
  k_cls_unset k = true ->
  cls_eff k par (fst (step k par (run k par ops) (ClsUnset 0))) 0 = k_default k.
Proof.
  intros Hu. rewrite <- (run_snoc ops (ClsUnset 0)). rewrite cls_lookup_spec.
  unfold spec_cls. cbn [nearest]. rewrite own_cls_snoc. cbn. rewrite Hu. reflexivity.
Qed.

Theorem inst_unset_follows_class icls ops i :
  k_inst_set k = true ->
  let s' := fst (step k par (run k par ops) (InstUnset i)) in
  inst_eff k par icls s' i = cls_eff k par s' (icls i).
Proof.
  intros Hs s'. subst s'. cbn [step]. rewrite Hs. cbn [fst]. unfold inst_eff. cbn [idt].
  unfold upd. rewrite Nat.eqb_refl. reflexivity.
Qed.

(** *** setting is local: only the class itself and its descendants can see a change;
        instance-level writes are seen by that instance only *)

Lemma step_cd_only_at s o : forall x,
  (match o with ClsSet c _ | ClsUnset c => x <> c | _ => True end) ->
  cd (fst (step k par s o)) x = cd s x.
Proof.
  intros x Hx. destruct o as [c v|c|i v|i]; cbn [step].
  - destruct (k_valid k v); cbn; [|reflexivity]. unfold upd.
    destruct (Nat.eqb_spec x c); [contradiction|reflexivity].
  - destruct (k_cls_unset k); cbn [fst cd]; [|reflexivity].
    destruct (k_pinned k).
    + destruct (cls_lookup par (upd (cd s) c None) c c); unfold upd;
        destruct (Nat.eqb_spec x c); try contradiction; reflexivity.
    + unfold upd. destruct (Nat.eqb_spec x c); [contradiction|reflexivity].
  - destruct (k_inst_set k); [destruct (k_valid k v)|]; reflexivity.
  - destruct (k_inst_set k); reflexivity.
Qed.

Theorem class_op_is_local s o d :
  (match o with ClsSet c _ | ClsUnset c => anc par d c d = false | _ => True end) ->
  cls_eff k par (fst (step k par s o)) d = cls_eff k par s d.
Proof.
  intros H. unfold cls_eff. f_equal.
  rewrite (lookup_agree (cd (fst (step k par s o))) (cd s)); [reflexivity|].
  intros a Ha. apply step_cd_only_at.
  destruct o as [c v|c|i v|i]; try exact I; intros ->; congruence.
Qed.

Theorem inst_op_is_local icls s o j :
  (match o with InstSet i _ | InstUnset i => j <> i | _ => False end) ->
  inst_eff k par icls (fst (step k par s o)) j = inst_eff k par icls s j.
Proof.
  intros H. destruct o as [c v|c|i v|i]; try contradiction; cbn [step];
    destruct (k_inst_set k); try reflexivity.
  - destruct (k_valid k v); [|reflexivity]. unfold inst_eff, cls_eff; cbn [fst idt cd].
    unfold upd. destruct (Nat.eqb_spec j i); [contradiction|reflexivity].
  - unfold inst_eff, cls_eff; cbn [fst idt cd].
    unfold upd. destruct (Nat.eqb_spec j i); [contradiction|reflexivity].
Qed.

Theorem inst_op_keeps_classes s o c :
  (match o with InstSet _ _ | InstUnset _ => True | _ => False end) ->
  cls_eff k par (fst (step k par s o)) c = cls_eff k par s c.
Proof. intros H. apply class_op_is_local. destruct o; try contradiction; exact I. Qed.

(** *** rejection changes nothing; exactly the invalid values are rejected *)

Theorem rejected_no_change s o : snd (step k par s o) = Rejected -> fst (step k par s o) = s.
Proof.
  destruct o as [c v|c|i v|i]; cbn [step].
  - destruct (k_valid k v); cbn; [discriminate|reflexivity].
  - destruct (k_cls_unset k); cbn; [discriminate|reflexivity].
  - destruct (k_inst_set k); [destruct (k_valid k v)|]; cbn; try discriminate; reflexivity.
  - destruct (k_inst_set k); cbn; [discriminate|reflexivity].
Qed.

Theorem cls_set_rejected_iff s c v :
  snd (step k par s (ClsSet c v)) = Rejected <-> k_valid k v = false.
Proof. cbn. destruct (k_valid k v); cbn; split; congruence. Qed.

Theorem inst_set_rejected_iff s i v :
  snd (step k par s (InstSet i v)) = Rejected <-> (k_inst_set k = false \/ k_valid k v = false).
Proof.
  cbn. destruct (k_inst_set k); [destruct (k_valid k v)|]; cbn; split; intros H;
    try congruence; try (destruct H; congruence); auto.
Qed.

Theorem class_only_instance_write_rejected s i v :
  k_inst_set k = false -> step k par s (InstSet i v) = (s, Rejected)
                          /\ step k par s (InstUnset i) = (s, Rejected).
Proof. intros H. cbn. rewrite H. split; reflexivity. Qed.

(** *** the render method actually used *)
Theorem render_uses_effective icls s i :
  render_method k par icls s i None = inst_eff k par icls s i.
Proof. reflexivity. Qed.
Theorem render_override_wins icls s i m : render_method k par icls s i (Some m) = m.
Proof. reflexivity. Qed.

End Generic.

(** *** the native-animation limit is one global value *)
Theorem native_anim_global ops c1 c2 :
  gread (grun ops) c1 = gspec ops /\ gread (grun ops) c2 = gspec ops.
Proof.
  assert (H : forall g, fold_left (fun g o => fst (gstep g o)) ops g = fold_left gspec_step ops g).
  { induction ops as [|o ops IH]; intros g; [reflexivity|]. cbn [fold_left].
    rewrite IH. f_equal. destruct o as [c v|c|i v|i]; cbn; try reflexivity.
    destruct (0 <? v)%Z; reflexivity. }
  unfold gread, grun, gspec. split; apply H.
Qed.

Theorem native_anim_rejected_no_change g o : snd (gstep g o) = Rejected -> fst (gstep g o) = g.
Proof.
  destruct o as [c v|c|i v|i]; cbn; try reflexivity; try discriminate.
  destruct (0 <? v)%Z; cbn; [discriminate|reflexivity].
Qed.

(** *** non-vacuity: a 4-class forest (0 <- 1 <- 2, 0 <- 3), two instances, a history
        that sets, shadows, unsets on every level; premises hold, both sides compute *)
Definition ex_par := parf [0; 0; 1; 0].
Lemma ex_par_wf : wf_par ex_par.
Proof.
  intros c Hc. unfold ex_par, parf.
  destruct c as [|[|[|[|c]]]]; cbn; try lia. destruct c; cbn; lia.
Qed.
Definition ex_ops :=
  [ClsSet 0 1; ClsSet 1 0; InstSet 0 1; ClsUnset 1; ClsSet 2 7; InstUnset 0; ClsUnset 0]%Z.
Example ex_values :
  let k := k_render_method 2 in
  map (cls_eff k ex_par (run k ex_par ex_ops)) [0; 1; 2; 3] = [0; 0; 0; 0]%Z /\
  map (cls_eff k ex_par (run k ex_par (firstn 4 ex_ops))) [0; 1; 2; 3] = [1; 1; 1; 1]%Z /\
  map (cls_eff k ex_par (run k ex_par (firstn 2 ex_ops))) [0; 1; 2; 3] = [1; 0; 0; 1]%Z.
Proof. vm_compute. repeat split. Qed.
