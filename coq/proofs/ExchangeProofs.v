(** C14, queries: the locking discipline implies "every caller gets exactly its own
    reply, none is lost" ([model/Exchange.v]), for every trace. *)
From Coq Require Import List Arith Bool Lia.
Import ListNotations.
From TI Require Import model.Exchange.

Definition xinv (h : option (nat * nat)) (q : list nat) : Prop :=
  match h with
  | None => q = []
  | Some (u, _) => forallb (Nat.eqb u) q = true
  end.

Lemma forallb_firstn {A} (p : A -> bool) n l :
  forallb p l = true -> forallb p (firstn n l) = true.
Proof.
  revert l. induction n as [|n IH]; intros [|a l]; cbn; auto.
  intro H. apply andb_prop in H. destruct H as [-> H]. cbn. auto.
Qed.

Lemma forallb_skipn {A} (p : A -> bool) n l :
  forallb p l = true -> forallb p (skipn n l) = true.
Proof.
  revert l. induction n as [|n IH]; intros [|a l]; cbn; auto.
  intro H. apply andb_prop in H. destruct H as [_ H]. auto.
Qed.

Lemma forallb_repeat t n : forallb (Nat.eqb t) (repeat t n) = true.
Proof. induction n; cbn; auto. now rewrite Nat.eqb_refl. Qed.

Lemma holds_eq h t : holds h t = true -> exists d, h = Some (t, d).
Proof.
  destruct h as [[u d]|]; cbn; [|discriminate].
  intro H. apply Nat.eqb_eq in H. subst. eauto.
Qed.

Lemma disc_implies_xchg tr :
  forall h q, xinv h q -> disc_from h q tr = true -> xchg_from q tr = true.
Proof.
  induction tr as [|[t e] tr IH]; intros h q I D.
  - cbn in *. destruct h as [[u d]|]; [discriminate|]. cbn in I. now subst.
  - destruct e as [| | |n|n]; cbn [disc_from xchg_from] in *.
    + (* XAcq *)
      destruct h as [[u d]|].
      * apply andb_prop in D. destruct D as [_ D]. exact (IH (Some (u, S d)) q I D).
      * cbn in I. subst q. apply (IH (Some (t, 1)) []); auto. reflexivity.
    + (* XRel *)
      destruct h as [[u [|[|d]]]|]; try discriminate.
      * apply andb_prop in D. destruct D as [D1 D]. apply andb_prop in D1.
        destruct D1 as [_ N]. destruct q; [|discriminate].
        apply (IH None []); auto. reflexivity.
      * apply andb_prop in D. destruct D as [_ D]. exact (IH (Some (u, S d)) q I D).
    + (* XFlush *)
      apply andb_prop in D. destruct D as [H D].
      destruct (holds_eq _ _ H) as [d ->]. cbn in I. rewrite I. cbn.
      apply (IH (Some (t, d)) []); auto. reflexivity.
    + (* XWrite *)
      apply andb_prop in D. destruct D as [H D].
      destruct (holds_eq _ _ H) as [d ->].
      apply (IH (Some (t, d)) (q ++ repeat t n)); auto. cbn in *.
      rewrite forallb_app, I. apply forallb_repeat.
    + (* XRead *)
      apply andb_prop in D. destruct D as [D1 D]. apply andb_prop in D1.
      destruct D1 as [H L]. destruct (holds_eq _ _ H) as [d ->]. cbn in I.
      rewrite L, (forallb_firstn _ n q I). cbn.
      apply (IH (Some (t, d)) (skipn n q)); auto. cbn. now apply forallb_skipn.
Qed.

Theorem discipline_gives_own_reply tr : disc_ok tr = true -> xchg_ok tr = true.
Proof. apply (disc_implies_xchg tr None []). reflexivity. Qed.

(** non-vacuity: a two-step exchange of thread 1 (5 + 3 bytes) with a reader 2 that has
    to wait is accepted; the same I/O with the second read after the release, and the
    reader scheduled in between, breaks the discipline AND the specification *)
Example exchange_under_one_hold :
  disc_ok [(1, XAcq); (1, XFlush); (1, XWrite 8); (1, XRead 5); (1, XRead 3); (1, XRel);
           (2, XAcq); (2, XRel)] = true.
Proof. reflexivity. Qed.

Example drain_after_release_refuted :
  let tr := [(1, XAcq); (1, XFlush); (1, XWrite 8); (1, XRead 5); (1, XRel);
             (2, XAcq); (2, XRead 3); (2, XRel); (1, XAcq); (1, XRel)] in
  disc_ok tr = false /\ xchg_ok tr = false.
Proof. split; reflexivity. Qed.
