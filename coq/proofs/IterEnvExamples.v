(** Concrete instances for [proofs/IterEnvProofs.v] (non-vacuity): the hypotheses of the
    theorems are satisfiable on non-trivial histories, and the environment changes they
    quantify over do matter (a machine that re-resolved the padding on [set_render_size], or
    that counted loops in the public attribute, would give other frames). *)
From Coq Require Import List ZArith Bool.
Import ListNotations.
From TI Require Import model.Iter model.IterSpec model.IterTie model.IterEnv model.IterSession
     proofs.IterProofs proofs.IterEnvProofs.
Open Scope Z_scope.

Definition x_render := vr_render (Some 6) 5 [] [] false.
Definition x_cfg (p : padding) (loops : Z) (owner : bool) : config :=
  {| c_loops := loops; c_cache := CBool false; c_size := (4, 2); c_dur := DStatic 1; c_args := Some 0;
     c_pad := p; c_owns := owner; c_frame := 0 |}.

Definition frame_sizes (tr : list (out * Z)) : list (Z * size) :=
  flat_map (fun x => match fst x with OFrame f => [(f_number f, f_size f)] | _ => [] end) tr.

(** the scenario of a terminal that is resized during an iteration: [AlignedPadding(0, -2)]
    received at 80x30, resize to 40x10, [set_render_size]; then [AlignedPadding(-10, -5)]
    received at 40x10, resize to 100x50, [seek] + [set_render_size] *)
Definition x_hist : list ev :=
  [ ((80, 30), EOp Next);
    ((40, 10), EOp Next);
    ((40, 10), EOp (SetSize (2, 1)));
    ((40, 10), EOp Next);
    ((40, 10), EOp (SetPadding (PAligned (-10) (-5) 0 0)));
    ((40, 10), EOp Next);
    ((100, 50), EOp (Seek 1 WStart));
    ((100, 50), EOp (SetSize (3, 3)));
    ((100, 50), EOp Next);
    ((100, 50), EOp (SetSize (31, 6)));
    ((100, 50), EOp Next) ].

Example env_resize_instance :
  match mk vr_state (Some 6) (80, 30) (x_cfg (PAligned 0 (-2) 1 1) 2 true) t_rs0,
        spec_mk vr_state (Some 6) (80, 30) (x_cfg (PAligned 0 (-2) 1 1) 2 true) t_rs0 with
  | inl s, inl a =>
    frame_sizes (trace_env vr_state x_render (Some 6) s x_hist)
    = [(0, (80, 28)); (1, (80, 28)); (2, (80, 28)); (3, (30, 5)); (1, (30, 5)); (2, (31, 6))] /\
    trace_env vr_state x_render (Some 6) s x_hist
    = spec_trace_env vr_state x_render (Some 6) (a, None) x_hist /\
    closed (run_env vr_state x_render (Some 6) s x_hist) = false /\
    last_set_padding x_hist None = Some ((40, 10), PAligned (-10) (-5) 0 0)
  | _, _ => False
  end.
Proof. vm_compute. repeat split; reflexivity. Qed.

(** the quantification over resizes is not idle: resolving the same relative padding
    against the terminal size of a LATER event gives another padded size *)
Example resolution_depends_on_the_terminal :
  padded_size (resolve (80, 30) (PAligned 0 (-2) 1 1)) (2, 1) = (80, 28) /\
  padded_size (resolve (40, 10) (PAligned 0 (-2) 1 1)) (2, 1) = (40, 8).
Proof. split; reflexivity. Qed.

(** client writes to [iterator.loop]: 3 loops of 3 frames, the attribute overwritten with 1
    after two frames and with -1 later: still 9 frames then Stop; the attribute reads the
    written value until the iterator next publishes its countdown *)
Definition p_render := vr_render (Some 3) 5 [] [] false.
Definition p_hist : list ev :=
  map (fun e => ((80, 30), e))
      [EOp Next; EOp Next; EPoke 1; EOp Next; EOp Next; EOp Next; EPoke (-1); EOp Next;
       EOp Next; EOp Next; EOp Next; EOp Next; EOp Next].

Example env_poke_instance :
  match mk vr_state (Some 3) (80, 30) (x_cfg (PExact 0 0 0 0) 3 true) t_rs0,
        spec_mk vr_state (Some 3) (80, 30) (x_cfg (PExact 0 0 0 0) 3 true) t_rs0 with
  | inl s, inl a =>
    map snd (trace_env vr_state p_render (Some 3) s p_hist) = [3; 3; 1; 1; 2; 2; -1; -1; 1; 1; 1; 0; 0] /\
    map fst (frame_sizes (trace_env vr_state p_render (Some 3) s p_hist)) = [0; 1; 2; 0; 1; 2; 0; 1; 2] /\
    trace_env vr_state p_render (Some 3) s p_hist
    = spec_trace_env vr_state p_render (Some 3) (a, None) p_hist /\
    outs_env vr_state p_render (Some 3) s p_hist
    = outs_env vr_state p_render (Some 3) s (erase_pokes p_hist) /\
    length (erase_pokes p_hist) = 11%nat
  | _, _ => False
  end.
Proof. vm_compute. repeat split; reflexivity. Qed.

(** render data re-used: the first iterator renders 3 of 5 frames and is closed; the second,
    made over the same data, yields 0..4 twice *)
Definition r_render := vr_render (Some 5) 5 [] [] false.
Definition r_hist1 : list ev := map (fun o => ((80, 30), EOp o)) [Next; Next; Next; Close].
Definition r_hist2 : list ev := map (fun o => ((80, 30), EOp o)) (repeat Next 11).

Example second_iterator_instance :
  match mk vr_state (Some 5) (80, 30) (x_cfg (PExact 0 0 0 0) 1 false) t_rs0 with
  | inl s1 =>
    fo (rd (run_env vr_state r_render (Some 5) s1 r_hist1)) = 3 /\
    match remake vr_state r_render (Some 5) (80, 30) (run_env vr_state r_render (Some 5) s1 r_hist1)
                 (x_cfg (PExact 0 0 0 0) 2 false) with
    | inl s2 =>
      map fst (frame_sizes (trace_env vr_state r_render (Some 5) s2 r_hist2)) = [0; 1; 2; 3; 4; 0; 1; 2; 3; 4] /\
      map snd (trace_env vr_state r_render (Some 5) s2 r_hist2) = [2; 2; 2; 2; 2; 1; 1; 1; 1; 1; 0]
    | inr _ => False
    end
  | inr _ => False
  end.
Proof. vm_compute. repeat split; reflexivity. Qed.
