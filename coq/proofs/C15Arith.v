(** Small arithmetic steps for the C15 proofs, by the Peano lemmas of [Arith] alone.
    ([lia] would do as well, but every theorem that depends on one [lia] step makes
    [Print Assumptions] walk through the whole Micromega development — half a second per
    theorem, on every run of the check.) *)
From Coq Require Import Arith.

(** [H : S .. (S t) < n] / [<= n] with too small a literal [n] *)
Ltac lt_absurd H := exfalso; unfold lt in H; repeat apply le_S_n in H; inversion H.

Lemma pos_of_eq_S x n : x = S n -> 0 < x.
Proof. intros ->. apply Nat.lt_0_succ. Qed.

Lemma add1_not0 x : x + 1 = 0 -> False.
Proof. rewrite Nat.add_1_r. discriminate. Qed.

Lemma lt_0_0_absurd : 0 < 0 -> False.
Proof. intro H. inversion H. Qed.

(** closes: [0 < S _]; [0 < x] from [x = S _]; anything from [_ < 0], [_ + 1 = 0], [S _ < small literal] *)
Ltac nat_ar :=
  solve
    [ assumption | reflexivity | discriminate
    | apply Nat.lt_0_succ
    | apply Nat.add_1_r
    | match goal with
      | H : ?x = S _ |- 0 < ?x => exact (pos_of_eq_S _ _ H)
      | H : _ < 0 |- _ => inversion H
      | H : _ + 1 = 0 |- _ => destruct (add1_not0 _ H)
      | H : S _ < _ |- _ => lt_absurd H
      end ].
