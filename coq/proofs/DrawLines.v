(** Line-structured renders under [exec_evs] / [srun]: canonical events of a line, the
    exact events of a joined list of lines, the downward discipline that makes scrolling
    sound, and what a padded render shows in its inner cells and in its padding (C06). *)
From Coq Require Import List ZArith Bool Lia.
Import ListNotations.
From TI Require Import lib.Term lib.TermFacts lib.Rect lib.Lines lib.TermScroll
     model.Padding proofs.PadProofs.
Open Scope Z_scope.
Local Arguments Z.eqb : simpl never.
Local Arguments Z.ltb : simpl never.
Local Arguments Z.leb : simpl never.

(** ** canonical states and events *)
Definition pos (r c : Z) : term := set_pos origin r c.

(** clean, default attributes, at (r, c) *)
Definition okat (s : term) (r c : Z) : Prop :=
  clean s /\ sgr s = adefault /\ row s = r /\ col s = c.

Lemma okat_pos r c : okat (pos r c) r c.
Proof. repeat split. Qed.

Lemma okat_sim s r c : okat s r c -> sim s (pos r c).
Proof. intros ([Hg Hp] & Hs & Hr & Hc). repeat split; cbn; assumption. Qed.

Lemma okat_mk s r c es : clean s -> okat (mk r c adefault s es) r c.
Proof. intros Hc. repeat split; apply Hc. Qed.

(** events of line [ln] run at (r, c) with left margin [c] *)
Definition cevs (ln : list tok) (r c : Z) : list ev := exec_evs c (pos r c) ln.

Lemma exec_evs_lm_indep lm1 lm2 : forall l t, nolf l -> nocr l ->
  exec_evs lm1 t l = exec_evs lm2 t l.
Proof.
  induction l as [|x l IH]; intros t H1 H2; [reflexivity|].
  inversion H1; inversion H2; subst. cbn [exec_evs].
  rewrite (step_lm_indep lm1 lm2) by assumption.
  rewrite (step_evs_lm_indep lm1 lm2) by (try assumption; destruct x; try discriminate; reflexivity).
  rewrite IH by assumption. reflexivity.
Qed.

Lemma line_canon lm s r c ln : nolf ln -> nocr ln -> okat s r c ->
  exec_evs lm s ln = cevs ln r c.
Proof.
  intros H1 H2 Hok. unfold cevs. rewrite (exec_evs_lm_indep lm c) by assumption.
  apply (exec_sim c ln), okat_sim, Hok.
Qed.

(** a line of a render: its run from any suitable state, in canonical form *)
Lemma LineOK_canon w h i ln : LineOK w h i ln -> nocr ln ->
  forall lm s r c, okat s r c ->
    exec lm s ln = mk r (c + w) adefault s (cevs ln r c)
    /\ forallb (ev_inside (r - i) c h w) (cevs ln r c) = true.
Proof.
  intros [Hnl HL] Hnc lm s r c Hok. pose proof Hok as (Hcl & Hs & Hr & Hc).
  rewrite (exec_lm_indep lm c ln s Hnl Hnc).
  destruct (HL c s Hcl Hc Hs) as (evs & E & Hin).
  assert (Eev : evs = cevs ln r c).
  { rewrite <- (exec_mk_evs _ _ _ _ _ _ _ E). apply line_canon; assumption. }
  rewrite E, Hr, <- Eev. split; [reflexivity|]. rewrite <- Hr. exact Hin.
Qed.

(** ** the exact events of a joined list of lines *)
Fixpoint jl_evs (lm rho : Z) (Ls : list (list tok)) : list ev :=
  match Ls with
  | [] => []
  | [L] => cevs L rho lm
  | L :: rest => cevs L rho lm ++ EMove (rho + 1) lm :: jl_evs lm (rho + 1) rest
  end.

Lemma jl_evs_cons2 lm rho L L2 rest :
  jl_evs lm rho (L :: L2 :: rest) = cevs L rho lm ++ EMove (rho + 1) lm :: jl_evs lm (rho + 1) (L2 :: rest).
Proof. reflexivity. Qed.

(** the events without the cursor movements between the lines *)
Fixpoint flat (lm rho : Z) (Ls : list (list tok)) : list ev :=
  match Ls with
  | [] => []
  | L :: rest => cevs L rho lm ++ flat lm (rho + 1) rest
  end.

Lemma flat_app lm : forall A B rho,
  flat lm rho (A ++ B) = flat lm rho A ++ flat lm (rho + Z.of_nat (length A)) B.
Proof.
  induction A as [|L A IH]; intros B rho; cbn [app flat length].
  - replace (rho + Z.of_nat 0) with rho by lia. reflexivity.
  - rewrite IH, <- app_assoc. do 3 f_equal. lia.
Qed.

Lemma flat_cons lm rho L rest : flat lm rho (L :: rest) = cevs L rho lm ++ flat lm (rho + 1) rest.
Proof. reflexivity. Qed.

Lemma lastcov_jl lm r c : forall Ls rho acc,
  lastcov_from acc (jl_evs lm rho Ls) r c = lastcov_from acc (flat lm rho Ls) r c.
Proof.
  induction Ls as [|L rest IH]; intros rho acc; [reflexivity|].
  destruct rest as [|L2 rest'].
  - cbn [jl_evs flat]. rewrite app_nil_r. reflexivity.
  - rewrite jl_evs_cons2, flat_cons. rewrite !lastcov_from_app. cbn [lastcov_from ev_covers].
    apply IH.
Qed.

Lemma covered_jl lm r c : forall Ls rho,
  covered (jl_evs lm rho Ls) r c = covered (flat lm rho Ls) r c.
Proof.
  induction Ls as [|L rest IH]; intros rho; [reflexivity|].
  destruct rest as [|L2 rest'].
  - cbn [jl_evs flat]. rewrite app_nil_r. reflexivity.
  - rewrite jl_evs_cons2, flat_cons. rewrite !covered_app. f_equal.
    unfold covered at 1. cbn [existsb ev_covers orb]. apply IH.
Qed.

Section Joined.
Variables w h : Z.
Hypothesis Hw : 0 <= w.

(** lines [i0 ..] of a [w x h] render *)
Definition LinesFrom (i0 : nat) (Ls : list (list tok)) : Prop :=
  Z.of_nat (i0 + length Ls) = h /\
  forall i L, nth_error Ls i = Some L -> LineOK w h (Z.of_nat (i0 + i)) L /\ nocr L.

Lemma LinesFrom_tail i0 L Ls : LinesFrom i0 (L :: Ls) -> LinesFrom (S i0) Ls.
Proof.
  intros [Hlen HL]. split; [cbn [length] in Hlen; lia|].
  intros i L' Hn. replace (S i0 + i)%nat with (i0 + S i)%nat by lia. apply HL. exact Hn.
Qed.

Lemma joinlf_exec lm : forall Ls i0 s rho,
  Ls <> [] -> LinesFrom i0 Ls -> okat s rho lm ->
  exec lm s (joinlf Ls) =
  mk (rho + Z.of_nat (length Ls) - 1) (lm + w) adefault s (jl_evs lm rho Ls).
Proof.
  induction Ls as [|L rest IH]; intros i0 s rho Hne HF Hok; [congruence|].
  destruct (proj2 HF 0%nat L eq_refl) as [HL Hnc].
  destruct (LineOK_canon _ _ _ _ HL Hnc lm s rho lm Hok) as [E _].
  destruct rest as [|L2 rest'].
  - cbn [joinlf jl_evs length]. rewrite E. f_equal. lia.
  - rewrite joinlf_cons2, jl_evs_cons2, exec_app, E, exec_cons.
    assert (Hcl : clean s) by apply Hok.
    rewrite step_lf by apply Hcl. rewrite mk_mk. cbn [row col sgr mk].
    rewrite (IH (S i0) _ (rho + 1)); [| congruence | eapply LinesFrom_tail; exact HF
                                      | apply okat_mk, Hcl].
    rewrite mk_mk. f_equal.
    + cbn [length]. lia.
    + rewrite <- app_assoc. reflexivity.
Qed.

Lemma jl_inside lm : forall Ls i0 rho, LinesFrom i0 Ls ->
  forallb (ev_inside (rho - Z.of_nat i0) lm h w) (jl_evs lm rho Ls) = true.
Proof.
  induction Ls as [|L rest IH]; intros i0 rho HF; [reflexivity|].
  destruct (proj2 HF 0%nat L eq_refl) as [HL Hnc].
  destruct (LineOK_canon _ _ _ _ HL Hnc lm (pos rho lm) rho lm (okat_pos _ _)) as [_ Hin].
  rewrite Nat.add_0_r in Hin.
  destruct rest as [|L2 rest'].
  - exact Hin.
  - rewrite jl_evs_cons2, forallb_app, Hin. cbn [andb forallb].
    apply andb_true_iff. split.
    + destruct HF as [Hlen _]. cbn [length] in Hlen. cbn [ev_inside].
      rewrite !andb_true_iff, !Z.leb_le, !Z.ltb_lt.
      lia.
    + specialize (IH (S i0) (rho + 1) (LinesFrom_tail _ _ _ HF)).
      replace (rho + 1 - Z.of_nat (S i0)) with (rho - Z.of_nat i0) in IH by lia. exact IH.
Qed.

End Joined.

(** ** the downward discipline: a line never touches a row below its own, so the only way
       a render reaches a new row is a line feed (which scrolls when it must) *)
Definition ev_row (e : ev) : option Z :=
  match e with
  | EText r _ _ _ | EErase r _ _ | EImg r _ _ _ _ | EDel _ r _ | EMove r _ => Some r
  | EGarbled => None
  end.
Definition ev_notbelow (rho : Z) (e : ev) : bool :=
  match ev_row e with Some r => r <=? rho | None => true end.

Definition Downward (ln : list tok) : Prop :=
  forall r c, forallb (ev_notbelow r) (cevs ln r c) = true.

Lemma win_of_inside_notbelow W H top r0 c0 h w rho e :
  ev_inside r0 c0 h w e = true -> ev_notbelow rho e = true ->
  top <= r0 -> rho < top + H -> 0 <= c0 -> c0 + w <= W -> ev_win W H top e = true.
Proof.
  intros Hi Hn H1 H2 H3 H4. unfold ev_notbelow in Hn.
  destruct e; cbn [ev_inside ev_win ev_row] in *; try discriminate;
    rewrite ?andb_true_iff, ?Z.leb_le, ?Z.ltb_lt in *; lia.
Qed.

Section Scroll.
Variables W H lm w h : Z.
Hypothesis Hw : 0 <= w.
Hypothesis Hlm : 0 <= lm.
Hypothesis HW : lm + w <= W.
Hypothesis HH : h <= H.

Theorem srun_lines : forall Ls i0 s rho top,
  Ls <> [] -> LinesFrom w h i0 Ls -> (forall L, In L Ls -> Downward L) ->
  okat s rho lm -> top <= rho - Z.of_nat i0 -> rho < top + H ->
  srun W H lm top s (joinlf Ls) = Some (Z.max top (rho + Z.of_nat (length Ls) - H)).
Proof.
  induction Ls as [|L rest IH]; intros i0 s rho top Hne HF HD Hok Htop Hbot; [congruence|].
  destruct (proj2 HF 0%nat L eq_refl) as [HL Hnc].
  destruct (LineOK_canon _ _ _ _ HL Hnc lm s rho lm Hok) as [E Hin].
  rewrite Nat.add_0_r in Hin.
  assert (Hline : srun W H lm top s L = Some top).
  { apply srun_noscroll. rewrite (exec_mk_evs _ _ _ _ _ _ _ E).
    apply forallb_forall. intros e He.
    eapply win_of_inside_notbelow with (rho := rho);
      [exact (proj1 (forallb_forall _ _) Hin e He)
      |exact (proj1 (forallb_forall _ _) (HD L (or_introl eq_refl) rho lm) e He)
      |lia|lia|lia|lia]. }
  destruct rest as [|L2 rest'].
  - cbn [joinlf length]. rewrite Hline. f_equal.
    destruct HF as [Hlen _]. cbn [length] in Hlen. lia.
  - rewrite joinlf_cons2, srun_app, Hline, E.
    assert (Hcl : clean s) by apply Hok.
    change (TLF :: joinlf (L2 :: rest')) with ([TLF] ++ joinlf (L2 :: rest')).
    rewrite srun_app. cbn [srun scrolls parser mk row].
    replace (parser s) with Ground by (symmetry; apply Hcl).
    unfold step_evs. cbn [parser mk]. replace (parser s) with Ground by (symmetry; apply Hcl).
    cbn [ground_evs row mk forallb ev_win ev_inside].
    assert (Hlen : Z.of_nat (i0 + length (L :: L2 :: rest')) = h) by apply HF.
    cbn [length] in Hlen.
    destruct (rho =? top + H - 1) eqn:Eb.
    + apply Z.eqb_eq in Eb.
      replace ((top + 1 <=? rho + 1) && (rho + 1 <? top + 1 + H) && (0 <=? lm) && (lm <=? 0 + W) && true)
        with true by (symmetry; rewrite !andb_true_iff, !Z.leb_le, !Z.ltb_lt; lia).
      cbn [exec fold_left]. rewrite step_lf by apply Hcl. rewrite mk_mk. cbn [row col sgr mk].
      rewrite (IH (S i0) _ (rho + 1) (top + 1));
        [|congruence|eapply LinesFrom_tail; exact HF|intros L' HL'; apply HD; right; exact HL'
         |apply okat_mk, Hcl|lia|lia].
      f_equal. cbn [length]. lia.
    + apply Z.eqb_neq in Eb.
      replace ((top <=? rho + 1) && (rho + 1 <? top + H) && (0 <=? lm) && (lm <=? 0 + W) && true)
        with true by (symmetry; rewrite !andb_true_iff, !Z.leb_le, !Z.ltb_lt; lia).
      cbn [exec fold_left]. rewrite step_lf by apply Hcl. rewrite mk_mk. cbn [row col sgr mk].
      rewrite (IH (S i0) _ (rho + 1) top);
        [|congruence|eapply LinesFrom_tail; exact HF|intros L' HL'; apply HD; right; exact HL'
         |apply okat_mk, Hcl|lia|lia].
      f_equal. cbn [length]. lia.
Qed.
End Scroll.

(** ** padded lines: structure of their events *)
Lemma line_evs_exec_evs lm t l : line_evs lm t l = exec_evs lm t l.
Proof.
  unfold line_evs. rewrite exec_log, skipn_app, skipn_all, Nat.sub_diag. reflexivity.
Qed.

Lemma LinesRect_from need w h ls : LinesRect need w h ls -> LinesFrom w h 0 ls.
Proof.
  intros HLR. split; [exact (lr_len _ _ _ _ HLR)|].
  intros i L Hn. split; [apply (lr_ok _ _ _ _ HLR), Hn|].
  apply (lr_nocr _ _ _ _ HLR). eapply nth_error_In; exact Hn.
Qed.

Lemma flat_in lm e : forall Ls rho, In e (flat lm rho Ls) ->
  exists k L, nth_error Ls k = Some L /\ In e (cevs L (rho + Z.of_nat k) lm).
Proof.
  induction Ls as [|L rest IH]; intros rho Hin; [destruct Hin|].
  rewrite flat_cons in Hin. apply in_app_iff in Hin. destruct Hin as [Hin|Hin].
  - exists 0%nat, L. split; [reflexivity|]. replace (rho + Z.of_nat 0) with rho by lia. exact Hin.
  - destruct (IH _ Hin) as (k & L' & Hk & He). exists (S k), L'. split; [exact Hk|].
    replace (rho + Z.of_nat (S k)) with (rho + 1 + Z.of_nat k) by lia. exact He.
Qed.

Lemma flat_covered lm r c : forall Ls rho k L, nth_error Ls k = Some L ->
  covered (cevs L (rho + Z.of_nat k) lm) r c = true -> covered (flat lm rho Ls) r c = true.
Proof.
  induction Ls as [|L0 rest IH]; intros rho k L Hn Hc; [destruct k; discriminate|].
  rewrite flat_cons, covered_app. destruct k as [|k].
  - inversion Hn; subst L0. replace (rho + Z.of_nat 0) with rho in Hc by lia. rewrite Hc. reflexivity.
  - apply orb_true_iff. right. apply (IH (rho + 1) k L Hn).
    replace (rho + 1 + Z.of_nat k) with (rho + Z.of_nat (S k)) by lia. exact Hc.
Qed.

Lemma fill_evs_notbelow fill rho c a n : forallb (ev_notbelow rho) (fill_evs fill rho c a n) = true.
Proof.
  destruct fill as [g|]; cbn [fill_evs].
  - generalize (Z.to_nat n) as k. intros k. revert c. induction k as [|k IH]; intros c; [reflexivity|].
    cbn [text_evs forallb]. rewrite IH. unfold ev_notbelow. cbn [ev_row]. rewrite Z.leb_refl. reflexivity.
  - destruct (0 <? n); [|reflexivity]. cbn [forallb]. unfold ev_notbelow. cbn [ev_row].
    rewrite Z.leb_refl. reflexivity.
Qed.

Lemma text_evs_in r g a e : forall n c0, In e (text_evs r c0 g a n) ->
  exists c', c0 <= c' < c0 + Z.of_nat n /\ e = EText r c' g a.
Proof.
  induction n as [|n IH]; intros c0 Hin; [destruct Hin|].
  cbn [text_evs] in Hin. destruct Hin as [<-|Hin].
  - exists c0. split; [lia|reflexivity].
  - destruct (IH _ Hin) as (c' & Hc & ->). exists c'. split; [lia|reflexivity].
Qed.

(** a fill event that covers a cell is the fill glyph written into that cell *)
Lemma fill_evs_cover fill rho c0 a n e r c :
  In e (fill_evs fill rho c0 a n) -> ev_covers r c e = true ->
  (exists g, fill = Some g /\ e = EText r c g a) /\ r = rho /\ c0 <= c < c0 + n.
Proof.
  destruct fill as [g|]; cbn [fill_evs]; intros Hin Hc.
  - destruct (text_evs_in _ _ _ _ _ _ Hin) as (c' & Hc' & ->). cbn [ev_covers] in Hc.
    apply andb_true_iff in Hc. destruct Hc as [E1 E2]. apply Z.eqb_eq in E1, E2. subst.
    split; [exists g; split; reflexivity|]. split; [reflexivity|lia].
  - destruct (0 <? n); [|destruct Hin]. destruct Hin as [<-|[]]. discriminate.
Qed.

Section PadShow.
Variable fill : option glyph.
Variables w h l t r b : Z.
Variable ls : list (list tok).
Hypothesis HLR : LinesRect all_cells w h ls.
Hypothesis Hl : 0 <= l.
Hypothesis Ht : 0 <= t.
Hypothesis Hr : 0 <= r.
Hypothesis Hb : 0 <= b.

Let W' := l + w + r.
Let H' := t + h + b.
Let PL := pad_lines fill (l, t, r, b) w ls.
Let wrap := fun ln : list tok => fillseg fill l ++ ln ++ fillseg fill r.

Lemma PS_w : 0 < w. Proof. exact (lr_w _ _ _ _ HLR). Qed.
Lemma PS_h : Z.of_nat (length ls) = h. Proof. exact (lr_len _ _ _ _ HLR). Qed.

Lemma PL_lr : LinesRect (need' fill all_cells w h l t) W' H' PL.
Proof. apply pad_lines_lr; assumption. Qed.

Lemma PL_from : LinesFrom W' H' 0 PL.
Proof. exact (LinesRect_from _ _ _ _ PL_lr). Qed.

Lemma PL_ne : PL <> [].
Proof. exact (lr_ne _ _ _ _ PL_lr). Qed.

Lemma PL_length : Z.of_nat (length PL) = H'.
Proof. exact (lr_len _ _ _ _ PL_lr). Qed.

Lemma cevs_fill n rho c : 0 <= n -> cevs (fillseg fill n) rho c = fill_evs fill rho c adefault n.
Proof.
  intros Hn. unfold cevs. eapply exec_mk_evs.
  rewrite exec_fillseg by (try reflexivity; exact Hn). reflexivity.
Qed.

Lemma cevs_wrap ln i rho c : LineOK w h i ln -> nocr ln ->
  cevs (wrap ln) rho c =
  fill_evs fill rho c adefault l ++ cevs ln rho (c + l) ++ fill_evs fill rho (c + l + w) adefault r.
Proof.
  intros HL Hnc. unfold cevs at 1, wrap. rewrite exec_evs_app.
  pose proof (exec_fillseg c fill l (pos rho c) eq_refl Hl) as E1.
  change (row (pos rho c)) with rho in E1. change (col (pos rho c)) with c in E1.
  change (sgr (pos rho c)) with adefault in E1.
  rewrite (exec_mk_evs _ _ _ _ _ _ _ E1), E1.
  set (s1 := mk rho (c + l) adefault (pos rho c) (fill_evs fill rho c adefault l)).
  assert (Hok1 : okat s1 rho (c + l)) by (apply okat_mk; split; reflexivity).
  destruct (LineOK_canon _ _ _ _ HL Hnc c s1 rho (c + l) Hok1) as [E2 _].
  rewrite exec_evs_app, (exec_mk_evs _ _ _ _ _ _ _ E2), E2.
  set (s2 := mk rho (c + l + w) adefault s1 (cevs ln rho (c + l))).
  pose proof (exec_fillseg c fill r s2 eq_refl Hr) as E3.
  rewrite (exec_mk_evs _ _ _ _ _ _ _ E3). reflexivity.
Qed.

(** every padded line is one of three shapes *)
Lemma PL_nth k L : nth_error PL k = Some L ->
  (L = fillseg fill W' /\ ((k < Z.to_nat t)%nat \/ (Z.to_nat t + length ls <= k)%nat))
  \/ (exists i x, k = (Z.to_nat t + i)%nat /\ nth_error ls i = Some x /\ L = wrap x).
Proof.
  intros Hn. destruct (pad_lines_nth fill w h l t r b ls k L Hn) as [[Hk ->]|[(i & x & -> & Hx & ->)|[Hk ->]]].
  - left. split; [reflexivity|left; exact Hk].
  - right. exists i, x. repeat split; assumption.
  - left. split; [reflexivity|right; exact Hk].
Qed.

Lemma ls_line i x : nth_error ls i = Some x -> LineOK w h (Z.of_nat i) x /\ nocr x /\ (i < length ls)%nat.
Proof.
  intros Hx. split; [apply (lr_ok _ _ _ _ HLR), Hx|]. split.
  - apply (lr_nocr _ _ _ _ HLR). eapply nth_error_In; exact Hx.
  - apply nth_error_Some. congruence.
Qed.

Theorem PL_downward : (forall ln, In ln ls -> Downward ln) -> forall L, In L PL -> Downward L.
Proof.
  intros HD L Hin. apply In_nth_error in Hin. destruct Hin as [k Hk].
  pose proof PS_w. intros rho c.
  destruct (PL_nth k L Hk) as [[-> _]|(i & x & -> & Hx & ->)].
  - rewrite cevs_fill by (unfold W'; lia). apply fill_evs_notbelow.
  - destruct (ls_line i x Hx) as (HL & Hnc & _).
    rewrite (cevs_wrap x _ rho c HL Hnc), !forallb_app, !fill_evs_notbelow.
    rewrite (HD x (nth_error_In _ _ Hx) rho (c + l)). reflexivity.
Qed.

(** *** what the padded lines show *)
Section Cell.
Variables lm rho r0 c0 : Z.       (* box at (rho, lm); the cell (r0, c0) *)

Lemma fillline_nocover rho' : r0 <> rho' -> covered (cevs (fillseg fill W') rho' lm) r0 c0 = false.
Proof.
  intros Hne. pose proof PS_w. rewrite cevs_fill by (unfold W'; lia).
  apply covered_false_forall. intros e Hin.
  destruct (ev_covers r0 c0 e) eqn:E; [|reflexivity].
  destruct (fill_evs_cover _ _ _ _ _ _ _ _ Hin E) as (_ & Hrow & _). congruence.
Qed.

Lemma flat_repeat_nocover : forall n rho', (r0 < rho' \/ rho' + Z.of_nat n <= r0) ->
  covered (flat lm rho' (repeat (fillseg fill W') n)) r0 c0 = false.
Proof.
  induction n as [|n IH]; intros rho' Hr0; [reflexivity|].
  cbn [repeat]. rewrite flat_cons, covered_app, fillline_nocover by lia. cbn [orb].
  apply IH. lia.
Qed.

(** an inner cell: the padded lines show what the inner lines show there *)
Hypothesis Hin_r : rho + t <= r0 < rho + t + h.
Hypothesis Hin_c : lm + l <= c0 < lm + l + w.

Lemma flat_wrap_inner : forall ls' i0 rho' acc,
  (forall i x, nth_error ls' i = Some x -> LineOK w h (Z.of_nat (i0 + i)) x /\ nocr x) ->
  lastcov_from acc (flat lm rho' (map wrap ls')) r0 c0 =
  lastcov_from acc (flat (lm + l) rho' ls') r0 c0.
Proof.
  induction ls' as [|x rest IH]; intros i0 rho' acc HL; [reflexivity|].
  cbn [map]. rewrite !flat_cons, !lastcov_from_app.
  destruct (HL 0%nat x eq_refl) as [HLx Hncx].
  rewrite (cevs_wrap x _ rho' lm HLx Hncx), !lastcov_from_app.
  rewrite (lastcov_from_none _ (fill_evs fill rho' lm adefault l)).
  2:{ apply covered_false_forall. intros e Hin. destruct (ev_covers r0 c0 e) eqn:E; [|reflexivity].
      destruct (fill_evs_cover _ _ _ _ _ _ _ _ Hin E) as (_ & _ & Hc). lia. }
  rewrite (lastcov_from_none _ (fill_evs fill rho' (lm + l + w) adefault r)).
  2:{ apply covered_false_forall. intros e Hin. destruct (ev_covers r0 c0 e) eqn:E; [|reflexivity].
      destruct (fill_evs_cover _ _ _ _ _ _ _ _ Hin E) as (_ & _ & Hc). lia. }
  apply (IH (S i0)). intros i y Hn. replace (S i0 + i)%nat with (i0 + S i)%nat by lia.
  apply HL. exact Hn.
Qed.

Theorem shows_inner acc :
  lastcov_from acc (flat lm rho PL) r0 c0 = lastcov_from acc (flat (lm + l) (rho + t) ls) r0 c0.
Proof.
  unfold PL, pad_lines. fold W'. fold wrap.
  rewrite !flat_app, !lastcov_from_app, repeat_length, map_length.
  rewrite (lastcov_from_none _ (flat lm rho (repeat (fillseg fill W') (Z.to_nat t))))
    by (apply flat_repeat_nocover; lia).
  rewrite (lastcov_from_none _ (flat lm _ (repeat (fillseg fill W') (Z.to_nat b))))
    by (apply flat_repeat_nocover; pose proof PS_h; lia).
  replace (rho + Z.of_nat (Z.to_nat t)) with (rho + t) by lia.
  apply (flat_wrap_inner ls 0%nat). intros i x Hx.
  destruct (ls_line i x Hx) as (A & B & _). split; assumption.
Qed.
End Cell.

(** a padding cell shows the fill glyph with default attributes, or is not touched *)
Theorem shows_pad lm rho r0 c0 :
  rho <= r0 < rho + H' -> lm <= c0 < lm + W' ->
  ~ (rho + t <= r0 < rho + t + h /\ lm + l <= c0 < lm + l + w) ->
  lastcov (flat lm rho PL) r0 c0 =
  match fill with Some g => Some (EText r0 c0 g adefault) | None => None end.
Proof.
  intros Hr0 Hc0 Hout. pose proof PS_w as Hw0.
  assert (Hclass : forall e, In e (flat lm rho PL) -> ev_covers r0 c0 e = true ->
                             exists g, fill = Some g /\ e = EText r0 c0 g adefault).
  { intros e Hin Hc. destruct (flat_in _ _ _ _ Hin) as (k & L & Hk & He).
    destruct (PL_nth k L Hk) as [[-> _]|(i & x & -> & Hx & ->)].
    - rewrite cevs_fill in He by (unfold W'; lia).
      exact (proj1 (fill_evs_cover _ _ _ _ _ _ _ _ He Hc)).
    - destruct (ls_line i x Hx) as (HL & Hnc & Hi).
      rewrite (cevs_wrap x _ _ lm HL Hnc) in He.
      apply in_app_iff in He. destruct He as [He|He];
        [exact (proj1 (fill_evs_cover _ _ _ _ _ _ _ _ He Hc))|].
      apply in_app_iff in He. destruct He as [He|He];
        [|exact (proj1 (fill_evs_cover _ _ _ _ _ _ _ _ He Hc))].
      exfalso. apply Hout.
      destruct (LineOK_canon _ _ _ _ HL Hnc lm (pos (rho + Z.of_nat (Z.to_nat t + i)) (lm + l)) _ _ (okat_pos _ _))
        as [_ Hins].
      pose proof (proj1 (forallb_forall _ _) Hins e He) as Hie.
      pose proof (inside_covers _ _ _ _ _ _ _ Hie Hc). lia. }
  case_eq fill; [intros g Efill|intros Efill].
  - apply lastcov_const.
    + (* covered: the padded lines meet the contract of the padded box *)
      destruct (lr_cov _ _ _ _ PL_lr (r0 - rho) (c0 - lm)) as (k & lk & Hk & Hcv);
        [unfold H' in *; lia|unfold W' in *; lia| |].
      { unfold need'. destruct ((t <=? r0 - rho) && (r0 - rho <? t + h) && (l <=? c0 - lm) && (c0 - lm <? l + w)) eqn:E.
        - exfalso. apply Hout. rewrite !andb_true_iff, !Z.leb_le, !Z.ltb_lt in E. lia.
        - rewrite Efill. reflexivity. }
      eapply (flat_covered lm r0 c0 PL rho k lk Hk).
      specialize (Hcv lm (pos (rho + Z.of_nat k) lm) (conj eq_refl eq_refl) eq_refl eq_refl).
      rewrite line_evs_exec_evs in Hcv. change (row (pos (rho + Z.of_nat k) lm)) with (rho + Z.of_nat k) in Hcv.
      replace (rho + Z.of_nat k - Z.of_nat k + (r0 - rho)) with r0 in Hcv by lia.
      replace (lm + (c0 - lm)) with c0 in Hcv by lia. exact Hcv.
    + intros e Hin Hc. destruct (Hclass e Hin Hc) as (g' & Eg & ->). congruence.
  - apply lastcov_none, covered_false_forall. intros e Hin.
    destruct (ev_covers r0 c0 e) eqn:E; [|reflexivity].
    destruct (Hclass e Hin E) as (g' & Eg & _). congruence.
Qed.

End PadShow.
