(** C11, round 4 — runs of consecutive seeks, and histories in which the ENVIRONMENT
    (terminal size, cell ratio) changes between two yields of a dynamically sized image.
    Lemmas only; restated in props/C11.v. *)
From Coq Require Import List ZArith Bool Arith Lia.
Import ListNotations.
From TI Require Import model.ImgIter model.ImgIterSpec model.ImgIterEnv proofs.ImgIterProofs.

Set Implicit Arguments.
Local Open Scope Z_scope.

(* ====================================================================== *)
(** * Runs of seeks *)

Section Runs.
  Variables Str Size : Type.
  Variable fmt_frame : nat -> Size -> res Str.
  Variable hash : Size -> Z.
  Variable N : nat.

  Notation st := (st Str Size).
  Notation trace := (trace fmt_frame hash N).
  Notation step := (step fmt_frame hash N).
  Notation run := (run fmt_frame hash N).
  Notation after := (after fmt_frame hash N).

  Lemma run_cons : forall cached (s : st) o r,
    fst (run cached s (o :: r)) = fst (run cached (fst (step cached s o)) r).
  Proof.
    intros. simpl. destruct (step cached s o) as [s1 x]. cbn [fst].
    destruct (run cached s1 r). reflexivity.
  Qed.

  Lemma run_app : forall cached l1 l2 (s : st),
    fst (run cached s (l1 ++ l2)) = fst (run cached (fst (run cached s l1)) l2).
  Proof.
    induction l1 as [|o l1 IH]; intros l2 s; [reflexivity|].
    rewrite <- app_comm_cons, !run_cons. apply IH.
  Qed.

  Lemma after_snoc : forall cached repeat pos0 z0 ops o,
    after cached repeat pos0 z0 (ops ++ [o]) = fst (step cached (after cached repeat pos0 z0 ops) o).
  Proof.
    intros. unfold ImgIter.after. rewrite run_app, run_cons. reflexivity.
  Qed.

  Definition in_rng (q : Z) : Prop := 0 <= q < Z.of_nat N.

  Lemma seek_step : forall cached (s : st) q, (ph s = P1 \/ ph s = P2) -> in_rng q ->
    step cached s (Seek q) = (set_n s (q - 1), OSeekOk).
  Proof.
    intros cached s q Hph Hq.
    assert (Hrange : negb ((0 <=? q) && (q <? Z.of_nat N)) = false).
    { apply negb_false_iff, andb_true_iff. split; [apply Z.leb_le|apply Z.ltb_lt]; unfold in_rng in Hq; lia. }
    simpl. rewrite Hrange. destruct Hph as [-> | ->]; reflexivity.
  Qed.

  (** the state a run of seeks leaves: only [n] moves, and only the last seek counts *)
  Definition seeks_state (s : st) (qs : list Z) : st := fold_left (fun s q => set_n s (q - 1)) qs s.

  Lemma set_n_seeks_state : forall qs (s : st) v, set_n (seeks_state s qs) v = set_n s v.
  Proof.
    induction qs as [|q qs IH]; intros s v; [reflexivity|].
    unfold seeks_state in *. simpl. rewrite IH. reflexivity.
  Qed.

  Lemma seeks_state_last : forall qs (s : st) p, seeks_state s (qs ++ [p]) = set_n s (p - 1).
  Proof.
    intros. unfold seeks_state. rewrite fold_left_app. simpl. apply set_n_seeks_state.
  Qed.

  (** every seek of a run is acknowledged; none of them moves image.tell() or loop_no *)
  Lemma seek_run_trace : forall cached qs (s : st) rest, (ph s = P1 \/ ph s = P2) -> Forall in_rng qs ->
    trace cached s (map (fun p => Seek p) qs ++ rest) =
    map (fun _ => (OSeekOk, pos s, loop_no s, img_open s)) qs ++ trace cached (seeks_state s qs) rest.
  Proof.
    induction qs as [|q qs IH]; intros s rest Hph Hall; [reflexivity|].
    inversion Hall as [|? ? Hq Hqs]; subst.
    cbn [map app ImgIter.trace]. rewrite (@seek_step cached s q Hph Hq).
    cbn [map app]. f_equal.
    exact (IH (set_n s (q - 1)) rest Hph Hqs).
  Qed.

  (** THE LAST SEEK WINS.  After any history that leaves the iterator started and open, a
      run of seeks p1 .. pk, p (k >= 0, all in range) followed by next(): every seek is
      acknowledged and leaves image.tell() and loop_no alone; the frame then yielded is
      frame p — never one derived from an earlier seek of the run — formatted at the current
      size, image.tell() = p, the countdown has not moved (no pass is consumed). *)
  Lemma seek_run_last_wins : forall cached repeat pos0 z0 ops ps p,
    renderer_ok fmt_frame N -> repeat <> 0 ->
    (cached = true -> hash_separates hash (sizes_of z0 ops)) ->
    let s := after cached repeat pos0 z0 ops in
    (ph s = P1 \/ ph s = P2) -> Forall in_rng ps -> in_rng p ->
    trace cached s (seek_run Size (ps ++ [p])) =
    map (fun _ => (OSeekOk, pos s, loop_no s, true)) (ps ++ [p]) ++
    [match fmt_frame (Z.to_nat p) (size s) with
     | Ok f => (OYield (Z.to_nat p) f, p, loop_no s, true)
     | _ => (ORaise, p, loop_no s, false)
     end].
  Proof.
    intros cached repeat pos0 z0 ops ps p Hr Hrep Hh s Hph Hps Hp.
    assert (Hio : img_open s = true).
    { destruct (@reach _ _ fmt_frame hash N cached repeat pos0 z0 ops Hr Hrep Hh) as (HI & _).
      destruct HI as (_ & HI). change (fst (run cached (init Str repeat pos0 z0) ops)) with s in HI.
      destruct Hph as [E|E]; rewrite E in HI; tauto. }
    assert (Hall : Forall in_rng (ps ++ [p])).
    { apply Forall_app. split; [assumption|]. constructor; [assumption|constructor]. }
    unfold seek_run. rewrite (@seek_run_trace cached (ps ++ [p]) s [Next] Hph Hall).
    rewrite Hio, seeks_state_last. f_equal.
    (* the frame that follows *)
    pose proof (@seek_replaces_next_index _ _ fmt_frame hash N cached repeat pos0 z0 ops p Hr Hrep Hh Hph Hp) as H.
    fold s in H. rewrite (@seek_step cached s p Hph Hp) in H. cbn [fst snd] in H.
    destruct H as (_ & _ & _ & Hl2 & Hp2 & Hx2).
    assert (Eafter : after cached repeat pos0 z0 (ops ++ [Seek p]) = set_n s (p - 1)).
    { rewrite after_snoc. fold s. rewrite (@seek_step cached s p Hph Hp). reflexivity. }
    assert (Hh1 : cached = true -> hash_separates hash (sizes_of z0 (ops ++ [Seek p]))).
    { intros Hc. apply hash_sep_snoc; auto. discriminate. }
    assert (Hh2 : cached = true -> hash_separates hash (sizes_of z0 ((ops ++ [Seek p]) ++ [Next]))).
    { intros Hc. apply hash_sep_snoc; auto. discriminate. }
    cbn [ImgIter.trace].
    destruct (step cached (set_n s (p - 1)) Next) as [s2 x2] eqn:E2. cbn [fst snd] in *.
    destruct (fmt_frame (Z.to_nat p) (size s)) as [f| |] eqn:Ef; subst x2.
    - destruct (@seek_position_tracks_last_yield _ _ fmt_frame hash N cached repeat pos0 z0 (ops ++ [Seek p]) Next Hr Hrep Hh2) as (Hy & _).
      rewrite Eafter in Hy. destruct (Hy _ _ _ E2) as (_ & _ & _ & _ & Ho).
      rewrite Hl2, Hp2, Ho. reflexivity.
    - assert (Hne : ph (after cached repeat pos0 z0 (ops ++ [Seek p])) <> PEnd).
      { rewrite Eafter. cbn. destruct Hph as [-> | ->]; discriminate. }
      pose proof (@failure_closes Str Size fmt_frame hash N cached repeat pos0 z0 (ops ++ [Seek p]) Next s2 Hne) as Hf.
      rewrite Eafter in Hf. destruct (Hf E2) as (_ & Ho).
      rewrite Hl2, Hp2, Ho. reflexivity.
    - assert (Hne : ph (after cached repeat pos0 z0 (ops ++ [Seek p])) <> PEnd).
      { rewrite Eafter. cbn. destruct Hph as [-> | ->]; discriminate. }
      pose proof (@failure_closes Str Size fmt_frame hash N cached repeat pos0 z0 (ops ++ [Seek p]) Next s2 Hne) as Hf.
      rewrite Eafter in Hf. destruct (Hf E2) as (_ & Ho).
      rewrite Hl2, Hp2, Ho. reflexivity.
  Qed.

  (** a run of seeks BEFORE the first frame: each one is refused (TermImageError, or
      ValueError when out of range), nothing moves, and the first next() yields frame 0 *)
  Lemma seek_run_before_start : forall cached repeat pos0 z0 qs f,
    repeat <> 0 -> fmt_frame 0 z0 = Ok f ->
    trace cached (init Str repeat pos0 z0) (seek_run Size qs) =
    map (fun q => (if in_range N q then OSeekNotStarted else OSeekBad, pos0, None, true)) qs ++
    [(OYield 0 f, 0, Some repeat, true)].
  Proof.
    intros cached repeat pos0 z0 qs f Hrep Hf. unfold seek_run.
    induction qs as [|q qs IH].
    - cbn [map app ImgIter.trace].
      assert (E : exists s1, step cached (init Str repeat pos0 z0) Next = (s1, OYield 0 f) /\
                             pos s1 = 0 /\ loop_no s1 = Some repeat /\ img_open s1 = true).
      { unfold ImgIter.step, init, fuel_of. cbn [ph rep]. cbn [p1_run rep n size].
        destruct (Z.eqb_spec repeat 0) as [E|_]; [contradiction|].
        change (Z.to_nat 0) with 0%nat. rewrite Hf.
        destruct cached; eexists; (split; [reflexivity|]); auto. }
      destruct E as (s1 & -> & -> & -> & ->). reflexivity.
    - cbn [map app ImgIter.trace]. cbn [ImgIter.step]. unfold in_range.
      destruct ((0 <=? q) && (q <? Z.of_nat N)); cbn [negb init ph];
        cbn [map app]; f_equal; exact IH.
  Qed.
End Runs.

(** ** The excluded hand-shake (a second suspension point answering send()) *)

Definition run_fmt (k z : nat) : res nat :=
  if (k <? 8)%nat then Ok (100 * z + k)%nat else if (k =? 8)%nat then Eof else Err.

Example run_renderer_ok : renderer_ok run_fmt 8.
Proof.
  split; [lia|]. split; [reflexivity|].
  intros k z Hk. unfold run_fmt. destruct (Nat.ltb_spec k 8); [discriminate|lia].
Qed.

(** seek(6); seek(2); next(): the variant yields frame 7 with image.tell() = 7 (uncached
    first loop) ... *)
Example seek_run_parity_trace :
  vtrace run_fmt Z.of_nat 8 false (vinit nat 3 0 1%nat) [Next; Next; Seek 6; Seek 2; Next] =
  [(OYield 0 100%nat, 0, Some 3, true); (OYield 1 101%nat, 1, Some 3, true);
   (OSeekOk, 1, Some 3, true); (OSeekOk, 1, Some 3, true);
   (OYield 7 107%nat, 7, Some 3, true)].
Proof. vm_compute. reflexivity. Qed.

(** ... where the code model, like the specification, yields frame 2 *)
Example seek_run_model_trace :
  trace run_fmt Z.of_nat 8 false (init nat 3 0 1%nat) [Next; Next; Seek 6; Seek 2; Next] =
  [(OYield 0 100%nat, 0, Some 3, true); (OYield 1 101%nat, 1, Some 3, true);
   (OSeekOk, 1, Some 3, true); (OSeekOk, 1, Some 3, true);
   (OYield 2 102%nat, 2, Some 3, true)].
Proof. vm_compute. reflexivity. Qed.

(** the variant contradicts the specification — in the first loop, in the cached loop, and
    with four seeks — *)
Example seek_run_parity_refuted :
  exists ops, vtrace run_fmt Z.of_nat 8 false (vinit nat 3 0 1%nat) ops <> strace run_fmt 8 (sinit 3 0 1%nat) ops.
Proof. exists [Next; Next; Seek 6; Seek 2; Next]. vm_compute. discriminate. Qed.

Example seek_run_parity_refuted_cached_pass :
  exists ops, vtrace run_fmt Z.of_nat 8 true (vinit nat 3 0 1%nat) ops <> strace run_fmt 8 (sinit 3 0 1%nat) ops.
Proof.
  exists (repeat Next 9 ++ [Seek 3; Seek 3; Seek 0; Seek 6; Next]). vm_compute. discriminate.
Qed.

(** — but is indistinguishable from it as long as seeks come one at a time (all the test
    suite does) or in odd runs *)
Example seek_run_parity_single_seeks_agree :
  let ops := [Seek 1; Next; Seek 4; Next; Next; Seek 0; Next; Seek 7; Next; Next; Next; Seek 2; Seek 5; Seek 3; Next;
              Close; Seek 1; Next] in
  vtrace run_fmt Z.of_nat 8 true (vinit nat 2 0 1%nat) ops = strace run_fmt 8 (sinit 2 0 1%nat) ops.
Proof. vm_compute. reflexivity. Qed.

(** non-vacuity of [seek_run_last_wins]: its premises hold in both loops *)
Example seek_run_premises :
  ph (after run_fmt Z.of_nat 8 true 3 0 1%nat [Next; Next]) = P1 /\
  ph (after run_fmt Z.of_nat 8 true 3 0 1%nat (repeat Next 9)) = P2 /\
  trace run_fmt Z.of_nat 8 true (after run_fmt Z.of_nat 8 true 3 0 1%nat (repeat Next 9))
        (seek_run nat [3; 3; 0; 6]) =
  [(OSeekOk, 0, Some 2, true); (OSeekOk, 0, Some 2, true); (OSeekOk, 0, Some 2, true); (OSeekOk, 0, Some 2, true);
   (OYield 6 106%nat, 6, Some 2, true)].
Proof. vm_compute. auto. Qed.

(* ====================================================================== *)
(** * Environment changes *)

Section SpecMap.
  Variables Str A B : Type.
  Variable f : A -> B.
  Variable fmt : nat -> B -> res Str.
  Variable N : nat.

  Definition fmt_pre (k : nat) (z : A) : res Str := fmt k (f z).

  Definition msp (a : sp A) : sp B :=
    {| started := started a; closed := closed a; nxt := nxt a; left := left a; spos := spos a;
       ssize := f (ssize a); sloop := sloop a |}.

  Lemma sstep_map : forall (a : sp A) (o : op A),
    sstep fmt N (msp a) (map_op f o) = (msp (fst (sstep fmt_pre N a o)), snd (sstep fmt_pre N a o)).
  Proof.
    intros a o. destruct o as [|p| | |z]; cbn [map_op sstep msp started closed nxt left spos ssize sloop].
    - destruct (closed a); [reflexivity|].
      destruct (nxt a <? N)%nat.
      + unfold produce, fmt_pre. cbn [msp ssize]. destruct (fmt (nxt a) (f (ssize a))); reflexivity.
      + destruct (Z.eqb _ 0); [reflexivity|].
        unfold produce, fmt_pre. cbn [msp ssize]. destruct (fmt 0%nat (f (ssize a))); reflexivity.
    - destruct (negb _); [reflexivity|]. destruct (closed a); [reflexivity|].
      destruct (started a); reflexivity.
    - reflexivity.
    - reflexivity.
    - reflexivity.
  Qed.

  Lemma strace_map : forall ops (a : sp A),
    strace fmt N (msp a) (map (map_op f) ops) = strace fmt_pre N a ops.
  Proof.
    induction ops as [|o ops IH]; intros a; [reflexivity|].
    cbn [map strace]. rewrite sstep_map.
    destruct (sstep fmt_pre N a o) as [a1 x]. cbn [fst snd].
    rewrite IH. reflexivity.
  Qed.

  (** the size the specification state carries is the one set last *)
  Definition last_size (z : B) (ops : list (op B)) : B :=
    fold_left (fun z o => match o with SetImageSize z' => z' | _ => z end) ops z.

  Lemma sstep_ssize : forall (a : sp B) o,
    ssize (fst (sstep fmt N a o)) = match o with SetImageSize z' => z' | _ => ssize a end.
  Proof.
    intros a o. destruct o as [|p| | |z]; cbn [sstep].
    - destruct (closed a); [reflexivity|].
      destruct (nxt a <? N)%nat.
      + unfold produce. destruct (fmt (nxt a) (ssize a)); reflexivity.
      + destruct (Z.eqb _ 0); [reflexivity|]. unfold produce. destruct (fmt 0%nat (ssize a)); reflexivity.
    - destruct (negb _); [reflexivity|]. destruct (closed a); [reflexivity|].
      destruct (started a); reflexivity.
    - reflexivity.
    - reflexivity.
    - reflexivity.
  Qed.

  Lemma srun_ssize : forall ops (a : sp B), ssize (srun fmt N a ops) = last_size (ssize a) ops.
  Proof.
    induction ops as [|o ops IH]; intros a; [reflexivity|].
    cbn [srun]. rewrite IH, sstep_ssize. reflexivity.
  Qed.
End SpecMap.

Section EnvProofs.
  Variables Str Size Setting Env : Type.
  Variable rsize : Setting -> Env -> Size.
  Variable fmt_frame : nat -> Size -> res Str.
  Variable hash : Size -> Z.
  Variable N : nat.

  Notation lower := (lower rsize).
  Notation rsz := (rsz rsize).
  Notation eop := (eop Setting Env).

  (** ENVIRONMENT HISTORIES.  Whatever the history of next / seek / close / deletion /
      changes of the size setting / terminal resizes and cell-ratio changes: the generator —
      which sees rendered sizes only and validates cached frames by the hash of the rendered
      size — shows its caller exactly what the specification says, whose frames are the
      DIRECT formatting of frame k under the (setting, environment) pair in force at the
      time of that yield. *)
  Lemma imgiter_env_refines_spec : forall cached repeat pos0 g0 e0 (ops : list eop),
    renderer_ok fmt_frame N -> repeat <> 0 ->
    (cached = true -> hash_separates hash (sizes_of (rsize g0 e0) (lower g0 e0 ops))) ->
    trace fmt_frame hash N cached (init Str repeat pos0 (rsize g0 e0)) (lower g0 e0 ops) =
    strace (fmt_env rsize fmt_frame) N (sinit repeat pos0 (g0, e0)) (lower2 g0 e0 ops).
  Proof.
    intros cached repeat pos0 g0 e0 ops Hr Hrep Hh.
    rewrite imgiter_refines_spec by assumption.
    unfold ImgIterEnv.lower.
    change (sinit repeat pos0 (rsize g0 e0)) with (msp rsz (sinit repeat pos0 (g0, e0))).
    apply strace_map.
  Qed.

  Lemma last_size_lower : forall ops g e,
    last_size (rsz (g, e)) (lower g e ops) = rsz (cur g e ops).
  Proof.
    induction ops as [|o ops IH]; intros g e; [reflexivity|].
    destruct o; unfold ImgIterEnv.lower in *; cbn [lower2 map map_op last_size fold_left cur];
      first [apply IH | apply (IH g0 e) | apply (IH g e0)].
  Qed.

  (** ... in particular: a frame yielded after ANY such history is the direct formatting of
      that frame under the setting and the environment in force THEN (not those of the pass
      that filled the cache), and image.tell() is its number *)
  Lemma env_yield_is_direct_format : forall cached repeat pos0 g0 e0 (ops : list eop) s' k f,
    renderer_ok fmt_frame N -> repeat <> 0 ->
    (cached = true -> hash_separates hash (sizes_of (rsize g0 e0) (lower g0 e0 ops))) ->
    step fmt_frame hash N cached (after fmt_frame hash N cached repeat pos0 (rsize g0 e0) (lower g0 e0 ops)) Next
      = (s', OYield k f) ->
    (k < N)%nat /\ pos s' = Z.of_nat k /\
    fmt_frame k (rsize (fst (cur g0 e0 ops)) (snd (cur g0 e0 ops))) = Ok f.
  Proof.
    intros cached repeat pos0 g0 e0 ops s' k f Hr Hrep Hh E.
    assert (Hh2 : cached = true -> hash_separates hash (sizes_of (rsize g0 e0) (lower g0 e0 ops ++ [Next]))).
    { intros Hc. apply hash_sep_snoc; auto. discriminate. }
    destruct (@seek_position_tracks_last_yield _ _ fmt_frame hash N cached repeat pos0 (rsize g0 e0) (lower g0 e0 ops) Next Hr Hrep Hh2) as (Hy & _).
    destruct (Hy _ _ _ E) as (_ & Hk & Hp & Hf & _).
    split; [assumption|]. split; [assumption|].
    destruct (@reach _ _ fmt_frame hash N cached repeat pos0 (rsize g0 e0) (lower g0 e0 ops) Hr Hrep Hh) as (_ & HR).
    destruct HR as (_ & Hz & _).
    unfold ImgIter.after in Hf. rewrite <- Hz, srun_ssize in Hf.
    cbn [sinit ssize] in Hf.
    change (rsize g0 e0) with (rsz (g0, e0)) in Hf. rewrite last_size_lower in Hf.
    exact Hf.
  Qed.
End EnvProofs.

(** ** The excluded design: cached frames validated against the size SETTING *)

(** setting 0 is dynamic (its rendered size follows the environment), any other is fixed *)
Definition ex_rsize (g e : nat) : nat := if (g =? 0)%nat then (10 + e)%nat else g.
Definition env_fmt (k z : nat) : res nat :=
  if (k <? 2)%nat then Ok (100 * z + k)%nat else if (k =? 2)%nat then Eof else Err.

Example env_renderer_ok : renderer_ok env_fmt 2.
Proof.
  split; [lia|]. split; [reflexivity|].
  intros k z Hk. unfold env_fmt. destruct (Nat.ltb_spec k 2); [discriminate|lia].
Qed.

(** a pass fills the cache, the terminal is resized, the next pass: the faithful model
    re-renders (frames 1100, 1101 under environment 1) ... *)
Definition env_history : list (eop nat nat) := [ENext; ENext; ESetEnv 1%nat; ENext; ENext; ENext].

Example env_model_trace :
  trace env_fmt Z.of_nat 2 true (init nat 2 0 (ex_rsize 0 0)) (lower ex_rsize 0%nat 0%nat env_history) =
  [(OYield 0 1000%nat, 0, Some 2, true); (OYield 1 1001%nat, 1, Some 2, true);
   (OSized, 1, Some 2, true);
   (OYield 0 1100%nat, 0, Some 1, true); (OYield 1 1101%nat, 1, Some 1, true);
   (OStop, 0, Some 0, false)].
Proof. vm_compute. reflexivity. Qed.

Example env_refines :
  trace env_fmt Z.of_nat 2 true (init nat 2 0 (ex_rsize 0 0)) (lower ex_rsize 0%nat 0%nat env_history) =
  strace (fmt_env ex_rsize env_fmt) 2 (sinit 2 0 (0%nat, 0%nat)) (lower2 0%nat 0%nat env_history).
Proof.
  apply imgiter_env_refines_spec; [exact env_renderer_ok|discriminate|].
  intros _ a b _ _ H. lia.
Qed.

(** ... the setting-keyed cache yields the stale frames 1000, 1001: it contradicts the
    specification *)
Example setting_keyed_cache_trace :
  trace (fmt_env ex_rsize env_fmt) (hash_setting_keyed (Env := nat) Z.of_nat) 2 true (init nat 2 0 (0%nat, 0%nat))
        (lower2 0%nat 0%nat env_history) =
  [(OYield 0 1000%nat, 0, Some 2, true); (OYield 1 1001%nat, 1, Some 2, true);
   (OSized, 1, Some 2, true);
   (OYield 0 1000%nat, 0, Some 1, true); (OYield 1 1001%nat, 1, Some 1, true);
   (OStop, 0, Some 0, false)].
Proof. vm_compute. reflexivity. Qed.

Example setting_keyed_cache_refuted :
  exists ops : list (eop nat nat),
    trace (fmt_env ex_rsize env_fmt) (hash_setting_keyed (Env := nat) Z.of_nat) 2 true (init nat 2 0 (0%nat, 0%nat))
          (lower2 0%nat 0%nat ops) <>
    strace (fmt_env ex_rsize env_fmt) 2 (sinit 2 0 (0%nat, 0%nat)) (lower2 0%nat 0%nat ops).
Proof. exists env_history. vm_compute. discriminate. Qed.

(** with a FIXED size setting (all the test suite uses with a cache) the two designs cannot
    be told apart on that history *)
Example setting_keyed_cache_fixed_size_agrees :
  trace (fmt_env ex_rsize env_fmt) (hash_setting_keyed (Env := nat) Z.of_nat) 2 true (init nat 2 0 (5%nat, 0%nat))
        (lower2 5%nat 0%nat env_history) =
  strace (fmt_env ex_rsize env_fmt) 2 (sinit 2 0 (5%nat, 0%nat)) (lower2 5%nat 0%nat env_history).
Proof. vm_compute. reflexivity. Qed.
