(** * RArgsTags — namespace-class SUBCLASSES as a hidden leading field (C16)

    A namespace class that defines fields may be subclassed (the subclass inherits the
    fields and the association).  The model's namespace values are
    [(render class, field values)]: [==], [hash], [in] and compatibility never look at
    the Python class of an instance.  What follows the class is the flow of instances:
    a set holds the instance it was given, and [ArgsNamespace.update] builds
    [type(self).__new__(type(self))] (_types.py:589).  The correspondence therefore runs
    model and rule a second time on the TAGGED program, in which every namespace
    [(c, f)] made from the [tag]-th class is written [(c, tag :: f)], the defaults
    [0 :: d] and field [j] is field [S j].  The lemmas below justify that reading for
    the only operation that computes on field lists: on the tagged encoding [update]
    accepts / rejects exactly as on the plain one and keeps the tag. *)
From Coq Require Import List ZArith Bool Arith Lia.
Import ListNotations.
From TI Require Import model.RArgs.

Definition shift (fields : list (nat * Z)) : list (nat * Z) :=
  map (fun p => (S (fst p), snd p)) fields.

Lemma existsb_shift : forall n fields,
  existsb (fun p => S n <=? fst p) (shift fields) = existsb (fun p => n <=? fst p) fields.
Proof.
  intros n fields; unfold shift; induction fields as [|[j v] r IH]; cbn [map existsb fst]; [reflexivity|].
  rewrite IH. reflexivity.
Qed.

Lemma fold_set_shift : forall fields tag f,
  fold_left (fun acc p => set_nth acc (fst p) (snd p)) (shift fields) (tag :: f) =
  tag :: fold_left (fun acc p => set_nth acc (fst p) (snd p)) fields f.
Proof.
  unfold shift; induction fields as [|[j v] r IH]; intros tag f; cbn [map fold_left fst snd]; [reflexivity|].
  cbn [set_nth]. apply IH.
Qed.

(** the heap model's [ArgsNamespace.update] *)
Lemma ns_update_tagged : forall F Ft c tag f fields,
  length (dflt Ft c) = S (length (dflt F c)) ->
  ns_update Ft c (tag :: f) (shift fields) =
  match ns_update F c f fields with Ok f' => Ok (tag :: f') | Err e => Err e end.
Proof.
  intros F Ft c tag f fields Hl. unfold ns_update.
  destruct fields as [|p r]; [reflexivity|].
  change (shift (p :: r)) with ((S (fst p), snd p) :: shift r).
  change ((S (fst p), snd p) :: shift r) with (shift (p :: r)).
  rewrite Hl, existsb_shift.
  destruct (existsb (fun p0 => length (dflt F c) <=? fst p0) (p :: r)); [reflexivity|].
  rewrite fold_set_shift. reflexivity.
Qed.

Lemma last_val_shift : forall fields j, last_val (S j) (shift fields) = last_val j fields.
Proof.
  unfold shift; induction fields as [|[k v] r IH]; intros j; cbn [map last_val fst snd]; [reflexivity|].
  rewrite IH. reflexivity.
Qed.

Lemma last_val_shift_0 : forall fields, last_val 0 (shift fields) = None.
Proof.
  unfold shift; induction fields as [|[k v] r IH]; cbn [map last_val fst snd]; [reflexivity|].
  rewrite IH. reflexivity.
Qed.

(** the documented field update (the rule): named fields replaced, the others — the tag
    among them — kept *)
Lemma spec_fields_tagged : forall F Ft c tag f fields,
  length (dflt Ft c) = S (length (dflt F c)) ->
  spec_fields Ft c (tag :: f) (shift fields) =
  match spec_fields F c f fields with Ok f' => Ok (tag :: f') | Err e => Err e end.
Proof.
  intros F Ft c tag f fields Hl. unfold spec_fields.
  rewrite Hl, existsb_shift.
  destruct (existsb (fun p => length (dflt F c) <=? fst p) fields); [reflexivity|].
  f_equal. cbn [length seq map]. rewrite last_val_shift_0. f_equal.
  rewrite <- seq_shift, map_map. apply map_ext. intros j.
  rewrite last_val_shift. reflexivity.
Qed.

(** the two agree, tag included (instance of [RArgsOps]'s refinement on the tagged forest,
    restated here directly) *)
Lemma tagged_update_keeps_class : forall F Ft c tag f fields f',
  length (dflt Ft c) = S (length (dflt F c)) ->
  ns_update Ft c (tag :: f) (shift fields) = Ok f' -> hd 0%Z f' = tag.
Proof.
  intros F Ft c tag f fields f' Hl H. rewrite (ns_update_tagged F Ft c tag f fields Hl) in H.
  destruct (ns_update F c f fields); inversion H; reflexivity.
Qed.

Lemma tagged_field_update : forall F Ft c tag f fields,
  length (dflt Ft c) = S (length (dflt F c)) ->
  ns_update Ft c (tag :: f) (shift fields) =
    match ns_update F c f fields with Ok f' => Ok (tag :: f') | Err e => Err e end /\
  spec_fields Ft c (tag :: f) (shift fields) =
    match spec_fields F c f fields with Ok f' => Ok (tag :: f') | Err e => Err e end.
Proof.
  intros; split; [apply ns_update_tagged|apply spec_fields_tagged]; assumption.
Qed.

(** non-vacuity: a two-field namespace made from subclass 2, one field updated *)
Example tagged_update_example :
  let F := mkF [0; 0] [None; Some [1; 2]%Z] in
  let Ft := mkF [0; 0] [None; Some [0; 1; 2]%Z] in
  ns_update Ft 1 [2; 1; 2]%Z (shift [(1, 9%Z)]) = Ok [2; 1; 9]%Z /\
  ns_update F 1 [1; 2]%Z [(1, 9%Z)] = Ok [1; 9]%Z /\
  ns_update Ft 1 [2; 1; 2]%Z (shift [(2, 9%Z)]) = Err EUnknownField.
Proof. vm_compute. repeat split. Qed.
